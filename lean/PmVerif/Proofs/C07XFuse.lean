/-
Proofs/C07XFuse.lean — C07 (multiplicities), builder part: `make_constraints_unique(s)` preserves
the invariant `XB` (Proofs/C07XDefs.lean), provided no child of `s` is deterministic (what the
guard c1D of the strict replay provides at every emission) — `fuseGroup` clones the transitions of
the old children onto a fresh NON-deterministic state, which is harmless only if the old children
were not deterministic themselves — and the fused group is COMPLETE (it contains every transition
of `s` with that constraint; the loop invariant `C08.DupInPending` of the pass).

`xb_fused`: one `fuseGroup`, from its structural descriptions `Fused` (Proofs/BuildFuse.lean) and
`C08.FuseEdges` (Proofs/C08Fuse.lean). `fuseLogged_induct2` / `makeConstraintsUnique_induct2`: an
induction principle for the pass that hands the completeness of each group to the step and also
returns `C08.UniqueAt` for the result. `xb_makeConstraintsUnique`: the pass.
Everything lives in `namespace Pm.C07`.
-/
import PmVerif.Proofs.C07XDefs
import PmVerif.Proofs.C08Fuse
import PmVerif.Proofs.StrProgFuse
namespace Pm
namespace C07
open Automaton
variable {K P : Type} [DecidableEq K] [DecidableEq P]
set_option linter.unusedSectionVars false

/-! ### one fused group -/

/-- Both descriptions of one `fuseGroup`, for the same fresh state. -/
theorem fuseGroup_both {a a' : Automaton K P} {s : Nat} {ts : List Nat}
    {c0 : Option (Constraint K P)} (inv : Inv a) (hs : a.Live s)
    (hg : ∀ t ∈ ts, ∃ e, a.g.edge? t = some e ∧ e.src = s ∧ e.w = c0)
    (h : a.fuseGroup s ts = .ok a') :
    ∃ N tN, Fused a a' s ts N c0 ∧ C08.FuseEdges a a' s ts N tN c0 := by
  obtain ⟨N, _, f⟩ := fuseGroup_fused inv hs hg h
  obtain ⟨N', tN, fe⟩ := C08.fuseGroup_edges inv hs hg h
  obtain ⟨tN0, htN0⟩ := f.fusedEdge
  have hNN : N = N' := by
    rcases fe.all tN0 _ htN0 with ⟨_, he⟩ | ⟨_, _, he⟩ | ⟨_, hsrc, _⟩
    · cases he; rfl
    · exact absurd (inv.ok.dst_live he) f.deadN
    · exact absurd hsrc.symm fe.nes
  subst hNN
  exact ⟨N, tN, f, fe⟩

section Fused
variable {Mx : Constraint K P → Constraint K P → Prop} {a a' : Automaton K P} {s N tN : Nat}
  {ts : List Nat} {c0 : Option (Constraint K P)}

/-- One fused group preserves `XB`. -/
theorem xb_fused (hirr : ∀ k, ¬ Mx k k) (f : Fused a a' s ts N c0)
    (fe : C08.FuseEdges a a' s ts N tN c0)
    (hnd : ∀ old, IsOld a ts old → ¬ IsDet a old)
    (hcomp : ∀ t e, a.g.edge? t = some e → e.src = s → e.w = c0 → t ∈ ts)
    (X : XB Mx a) : XB Mx a' := by
  have ok := f.inv0.ok
  -- classification of the transitions of `a'`
  have cls : ∀ {x d : Nat} {c : Option (Constraint K P)}, HasEdge a' x d c →
      (x = s ∧ d = N ∧ c = c0) ∨
      (x ≠ N ∧ d ≠ N ∧ HasEdge a x d c ∧ (x = s → c ≠ c0)) ∨
      (x = N ∧ d ≠ N ∧ ∃ old, IsOld a ts old ∧ HasEdge a old d c) := by
    rintro x d c ⟨t, ht⟩
    rcases fe.all t _ ht with ⟨_, he⟩ | ⟨_, hts, he⟩ | ⟨_, hsrc, old, ho, t0, ht0⟩
    · cases he; exact .inl ⟨rfl, rfl, rfl⟩
    · refine .inr (.inl ⟨f.ne_N (ok.src_live he), f.ne_N (ok.dst_live he), ⟨t, he⟩, ?_⟩)
      intro hx hc
      exact hts (hcomp t _ he hx hc)
    · exact .inr (.inr ⟨hsrc, f.ne_N (ok.dst_live ht0), old, ho, ⟨t0, ht0⟩⟩)
  have belowN : ∀ {i : Nat}, Below a' N i → ∃ old, IsOld a ts old ∧ Below a old i :=
    fun h => (f.sound_acc h).1 rfl
  have below_ne : ∀ {x i : Nat}, x ≠ N → Below a' x i → Below a x i :=
    fun hx h => (f.sound_acc h).2 hx
  have oldEdge : ∀ {o : Nat}, IsOld a ts o → HasEdge a s o c0 := by
    intro o ho
    obtain ⟨t, e, he, hs, hw, hd⟩ := f.isOld_edge ho
    refine ⟨t, ?_⟩
    rw [he]; cases e; simp only at hs hw hd; subst hs hw hd; rfl
  have ids_back : ∀ {x i : Nat}, x ≠ N → a'.Ids x i → a.Ids x i := by
    rintro x i hx ⟨w', hw', hp⟩
    obtain ⟨w, hw, hm, _⟩ := f.wt x w' hx hw'
    exact ⟨w, hw, hm ▸ hp⟩
  have idsN : ∀ {i : Nat}, a'.Ids N i → ∃ old, IsOld a ts old ∧ a.Ids old i := by
    rintro i ⟨w', hw', hp⟩
    obtain ⟨w, hw, _, hiff⟩ := f.wtN
    rw [hw] at hw'; cases hw'
    exact (hiff i).1 hp
  -- exclusivity transfers backwards
  have excl_ne : ∀ {x : Nat} {c1 c2 : Option (Constraint K P)}, a'.Live x → x ≠ N →
      ¬ Excl Mx a' x c1 c2 → ¬ Excl Mx a x c1 c2 := by
    intro x c1 c2 hl hx hex h
    refine hex (h.mono ?_)
    rintro ⟨w, hw, hd⟩
    obtain ⟨w', hw'⟩ := live_iff.1 hl
    obtain ⟨w0, hw0, _, hdw⟩ := f.wt x w' hx hw'
    rw [hw] at hw0; cases hw0
    exact ⟨w', hw', hdw.trans hd⟩
  have exclN : ∀ {o : Nat} {c1 c2 : Option (Constraint K P)}, IsOld a ts o →
      ¬ Excl Mx a' N c1 c2 → ¬ Excl Mx a o c1 c2 :=
    fun ho hex h => hex (.inl (h.of_nondet (hnd _ ho)))
  have live_src : ∀ {x d : Nat} {c : Option (Constraint K P)}, HasEdge a' x d c → a'.Live x :=
    fun ⟨_, ht⟩ => f.inv'.ok.src_live ht
  -- two different old children have nothing in common below
  have oldDisj : ∀ {o1 o2 i : Nat}, IsOld a ts o1 → IsOld a ts o2 → o1 ≠ o2 →
      Below a o1 i → Below a o2 i → False :=
    fun h1 h2 hne hb1 hb2 =>
      X.sib s _ _ c0 c0 (oldEdge h1) (oldEdge h2) hne (not_excl_self hirr s c0) _ hb1 hb2
  refine ⟨?_, ?_, ?_⟩
  · intro x d1 d2 c1 c2 h1 h2 hne hex i hb1 hb2
    rcases cls h1 with ⟨hx1, hd1, hc1⟩ | ⟨hx1, hd1, he1, hs1⟩ | ⟨hx1, hd1, o1, ho1, he1⟩
    · rcases cls h2 with ⟨_, hd2, _⟩ | ⟨hx2, hd2, he2, hs2⟩ | ⟨hx2, _⟩
      · exact hne (hd1.trans hd2.symm)
      · subst hx1; subst hd1; subst hc1
        obtain ⟨old, ho, hbo⟩ := belowN hb1
        have hexa := excl_ne (live_src h1) hx2 hex
        by_cases hod : old = d2
        · subst hod
          exact X.par x old c1 c2 (oldEdge ho) he2 (Ne.symm (hs2 rfl)) hexa i hbo
        · exact X.sib x old d2 c1 c2 (oldEdge ho) he2 hod hexa i hbo (below_ne hd2 hb2)
      · exact fe.nes (hx2.symm.trans hx1)
    · rcases cls h2 with ⟨hx2, hd2, hc2⟩ | ⟨_, hd2, he2, _⟩ | ⟨hx2, _⟩
      · subst hx2; subst hd2; subst hc2
        obtain ⟨old, ho, hbo⟩ := belowN hb2
        have hexa := excl_ne (live_src h1) hx1 hex
        by_cases hod : d1 = old
        · subst hod
          exact X.par x d1 c1 c2 he1 (oldEdge ho) (hs1 rfl) hexa i hbo
        · exact X.sib x d1 old c1 c2 he1 (oldEdge ho) hod hexa i (below_ne hd1 hb1) hbo
      · exact X.sib x d1 d2 c1 c2 he1 he2 hne (excl_ne (live_src h1) hx1 hex) i
          (below_ne hd1 hb1) (below_ne hd2 hb2)
      · exact hx1 hx2
    · rcases cls h2 with ⟨hx2, _⟩ | ⟨hx2, _⟩ | ⟨_, hd2, o2, ho2, he2⟩
      · exact fe.nes (hx1.symm.trans hx2)
      · exact hx2 hx1
      · subst hx1
        by_cases ho : o1 = o2
        · subst ho
          exact X.sib o1 d1 d2 c1 c2 he1 he2 hne (exclN ho1 hex) i (below_ne hd1 hb1)
            (below_ne hd2 hb2)
        · exact oldDisj ho1 ho2 ho (below_of_edge ok he1 (below_ne hd1 hb1))
            (below_of_edge ok he2 (below_ne hd2 hb2))
  · intro x i d c hi he hb
    rcases cls he with ⟨hx, hd, hc⟩ | ⟨hx, hd, he', _⟩ | ⟨hx, hd, o, ho, he'⟩
    · subst hx; subst hd; subst hc
      obtain ⟨old, ho, hbo⟩ := belowN hb
      exact X.down x i old c (ids_back (Ne.symm fe.nes) hi) (oldEdge ho) hbo
    · exact X.down x i d c (ids_back hx hi) he' (below_ne hd hb)
    · subst hx
      obtain ⟨o', ho', hi'⟩ := idsN hi
      by_cases hoo : o' = o
      · subst hoo
        exact X.down o' i d c hi' he' (below_ne hd hb)
      · exact oldDisj ho' ho hoo (below_of_ids hi') (below_of_edge ok he' (below_ne hd hb))
  · intro x d c1 c2 h1 h2 hc hex i hb
    rcases cls h1 with ⟨hx1, hd1, hc1⟩ | ⟨hx1, hd1, he1, _⟩ | ⟨hx1, hd1, o1, ho1, he1⟩
    · rcases cls h2 with ⟨_, _, hc2⟩ | ⟨_, hd2, _⟩ | ⟨hx2, _⟩
      · exact hc (hc1.trans hc2.symm)
      · exact hd2 hd1
      · exact fe.nes (hx2.symm.trans hx1)
    · rcases cls h2 with ⟨_, hd2, _⟩ | ⟨_, _, he2, _⟩ | ⟨hx2, _⟩
      · exact hd1 hd2
      · exact X.par x d c1 c2 he1 he2 hc (excl_ne (live_src h1) hx1 hex) i (below_ne hd1 hb)
      · exact hx1 hx2
    · rcases cls h2 with ⟨hx2, _⟩ | ⟨hx2, _⟩ | ⟨_, _, o2, ho2, he2⟩
      · exact fe.nes (hx1.symm.trans hx2)
      · exact hx2 hx1
      · subst hx1
        by_cases ho : o1 = o2
        · subst ho
          exact X.par o1 d c1 c2 he1 he2 hc (exclN ho1 hex) i (below_ne hd1 hb)
        · exact oldDisj ho1 ho2 ho (below_of_edge ok he1 (below_ne hd1 hb))
            (below_of_edge ok he2 (below_ne hd1 hb))

end Fused

/-! ### an induction principle for the pass, with complete groups -/

/-- Whatever is preserved by fusing one well-formed COMPLETE group is preserved by the logged
sequence of fusions, and afterwards the transitions of `s` carry pairwise different
constraints. -/
theorem fuseLogged_induct2 (Φ : Automaton K P → Prop) {s : Nat}
    (hstep : ∀ {a a' : Automaton K P} {ts : List Nat} {c0 : Option (Constraint K P)},
      Inv a → a.Live s → (∀ t ∈ ts, ∃ e, a.g.edge? t = some e ∧ e.src = s ∧ e.w = c0) →
      (∀ t e, a.g.edge? t = some e → e.src = s → e.w = c0 → t ∈ ts) →
      a.fuseGroup s ts = .ok a' → Φ a → Φ a') :
    ∀ (evs : List Ev) (pending : List (List Nat)) {a a' : Automaton K P} {evs' : List Ev},
    Inv a → a.Live s → pending.flatten.Nodup → (∀ l ∈ pending, GroupOK a s l) →
    C08.DupInPending a s pending → Φ a →
    a.fuseLogged s pending evs = .ok (a', evs') → Φ a' ∧ C08.UniqueAt a' s ∧ Inv a' ∧ a'.Live s
  | evs, [], a, a', evs', inv, hs, _, _, hdup, hΦ, h => by
    unfold fuseLogged at h
    cases h
    refine ⟨hΦ, ?_, inv, hs⟩
    intro t1 t2 e1 e2 h1 h2 hs1 hs2 hw
    by_cases hne : t1 = t2
    · exact hne
    · obtain ⟨l, hl, _⟩ := hdup t1 t2 e1 e2 h1 h2 hs1 hs2 hw hne
      cases hl
  | [], p :: ps, a, a', evs', _, _, _, _, _, _, h => by
    unfold fuseLogged at h
    cases h
  | ev :: evs, p :: ps, a, a', evs', inv, hs, hnd, hgrp, hdup, hΦ, h => by
    cases ev with
    | group s' ts =>
      unfold fuseLogged at h
      split at h
      · rename_i hcond
        obtain ⟨_, hmem⟩ := hcond
        split at h
        · cases h
        · rename_i a1 hf
          obtain ⟨c0, hg⟩ := hgrp ts hmem
          obtain ⟨N, tN, fe⟩ := C08.fuseGroup_edges inv hs hg hf
          have hnd' : ((p :: ps).erase ts).flatten.Nodup :=
            hnd.sublist (C08.sublist_flatten' List.erase_sublist)
          have hdisj : ∀ l ∈ (p :: ps).erase ts, ∀ t ∈ l, t ∉ ts := by
            intro l hl t ht hts
            have hl' := List.mem_of_mem_erase hl
            have heq := C08.eq_of_mem_of_flatten_nodup hnd hl' hmem ht hts
            subst heq
            exact C08.erase_self_not_mem hnd hmem ⟨t, ht⟩ hl
          have hgrp' : ∀ l ∈ (p :: ps).erase ts, GroupOK a1 s l := by
            intro l hl
            obtain ⟨c, hc⟩ := hgrp l (List.mem_of_mem_erase hl)
            refine ⟨c, fun t ht => ?_⟩
            obtain ⟨e, he, hsrc, hw⟩ := hc t ht
            exact ⟨e, fe.keep t e he (hdisj l hl t ht) hsrc, hsrc, hw⟩
          -- an old edge outside the group does not carry the group's constraint
          have hnot : ∀ t e, a.g.edge? t = some e → e.src = s → t ∉ ts → e.w ≠ c0 := by
            intro t e he hsrc hts hwc
            obtain ⟨u, hu⟩ := List.exists_mem_of_ne_nil ts fe.ne
            obtain ⟨eu, heu, hsu, hwu⟩ := hg u hu
            have hut : u ≠ t := fun e' => hts (e' ▸ hu)
            obtain ⟨l, hl, hul, htl⟩ :=
              hdup u t eu e heu he hsu hsrc (hwu.trans hwc.symm) hut
            have := C08.eq_of_mem_of_flatten_nodup hnd hl hmem hul hu
            exact hts (this ▸ htl)
          have hcomp : ∀ t e, a.g.edge? t = some e → e.src = s → e.w = c0 → t ∈ ts := by
            intro t e he hsrc hw
            refine Classical.byContradiction fun hts => ?_
            exact hnot t e he hsrc hts hw
          have hΦ1 : Φ a1 := hstep inv hs hg hcomp hf hΦ
          refine fuseLogged_induct2 Φ hstep evs _ fe.inv' fe.live_s hnd' hgrp' ?_ hΦ1 h
          -- the invariant `DupInPending`
          intro t1 t2 e1 e2 h1 h2 hs1 hs2 hw hne
          have hcase : ∀ t e, a1.g.edge? t = some e → e.src = s →
              (t = tN ∧ e.w = c0) ∨ (t ≠ tN ∧ t ∉ ts ∧ a.g.edge? t = some e) := by
            intro t e he hsrc
            rcases fe.all t e he with ⟨h1, h2⟩ | ⟨h1, h2, h3⟩ | ⟨_, h2, _⟩
            · exact .inl ⟨h1, by rw [h2]⟩
            · exact .inr ⟨h1, h2, h3⟩
            · exact absurd (h2.symm.trans hsrc) fe.nes
          rcases hcase t1 e1 h1 hs1 with ⟨rfl, hw1⟩ | ⟨hn1, ho1, hold1⟩
          · rcases hcase t2 e2 h2 hs2 with ⟨rfl, _⟩ | ⟨_, ho2, hold2⟩
            · exact absurd rfl hne
            · exact absurd (hw.symm.trans hw1) (hnot t2 e2 hold2 hs2 ho2)
          · rcases hcase t2 e2 h2 hs2 with ⟨rfl, hw2⟩ | ⟨_, ho2, hold2⟩
            · exact absurd (hw.trans hw2) (hnot t1 e1 hold1 hs1 ho1)
            · obtain ⟨l, hl, h1l, h2l⟩ := hdup t1 t2 e1 e2 hold1 hold2 hs1 hs2 hw hne
              refine ⟨l, ?_, h1l, h2l⟩
              have hlne : l ≠ ts := fun e' => ho1 (e' ▸ h1l)
              exact (List.mem_erase_of_ne hlne).2 hl
      · cases h
    | topo _ => unfold fuseLogged at h; cases h
    | detAsk _ => unfold fuseLogged at h; cases h
    | detYes _ => unfold fuseLogged at h; cases h
    | merge _ _ => unfold fuseLogged at h; cases h
    | iterEnd _ => unfold fuseLogged at h; cases h

theorem makeConstraintsUnique_induct2 (Φ : Automaton K P → Prop) {s : Nat}
    (hstep : ∀ {a a' : Automaton K P} {ts : List Nat} {c0 : Option (Constraint K P)},
      Inv a → a.Live s → (∀ t ∈ ts, ∃ e, a.g.edge? t = some e ∧ e.src = s ∧ e.w = c0) →
      (∀ t e, a.g.edge? t = some e → e.src = s → e.w = c0 → t ∈ ts) →
      a.fuseGroup s ts = .ok a' → Φ a → Φ a')
    {a a' : Automaton K P} {evs evs' : List Ev} (inv : Inv a) (hs : a.Live s) (hΦ : Φ a)
    (h : a.makeConstraintsUnique s evs = .ok (a', evs')) :
    Φ a' ∧ C08.UniqueAt a' s ∧ Inv a' ∧ a'.Live s := by
  unfold makeConstraintsUnique at h
  split at h
  · cases h
  · rename_i ts0 hts0
    split at h
    · cases h
    · rename_i groups hgr
      obtain ⟨w, hw, rfl⟩ := allTransitions_ok_iff.1 hts0
      have gi := groupTransitions_gi (s := s) _ [] groups (inv.ok.nodup s w hw)
        (fun t ht => inv.listed_live hw ht) ⟨by simp, by simp⟩ hgr
      have hcov := C08.groupTransitions_cover _ [] groups hgr
      have hfl : ((groups.map (·.2)).flatten).Nodup :=
        groups_flatten_nodup groups gi.1 fun g hg =>
          ⟨(gi.2 g hg).1, fun t ht => by
            obtain ⟨_, e, he, _, hw'⟩ := (gi.2 g hg).2 t ht
            exact ⟨e, he, hw'⟩⟩
      refine fuseLogged_induct2 Φ hstep evs _ inv hs ?_ ?_ ?_ hΦ h
      · exact hfl.sublist (C08.sublist_flatten' (List.Sublist.map _ List.filter_sublist))
      · intro l hl
        obtain ⟨g, hg, rfl⟩ := List.mem_map.1 hl
        have hg' := (List.mem_filter.1 hg).1
        exact ⟨g.1, fun t ht => ((gi.2 g hg').2 t ht).2⟩
      · intro t1 t2 e1 e2 h1 h2 hs1 hs2 hwe hne
        have hl1 : t1 ∈ w.corder ++ w.eorder := inv.ok.edge_listed t1 e1 h1 w (hs1 ▸ hw)
        have hl2 : t2 ∈ w.corder ++ w.eorder := inv.ok.edge_listed t2 e2 h2 w (hs2 ▸ hw)
        obtain ⟨g1, hg1, ht1⟩ := hcov t1 (.inl hl1)
        obtain ⟨g2, hg2, ht2⟩ := hcov t2 (.inl hl2)
        obtain ⟨_, e1', he1', _, hk1⟩ := (gi.2 g1 hg1).2 t1 ht1
        obtain ⟨_, e2', he2', _, hk2⟩ := (gi.2 g2 hg2).2 t2 ht2
        rw [h1] at he1'; cases he1'
        rw [h2] at he2'; cases he2'
        have hkeys : g1.1 = g2.1 := hk1.symm.trans (hwe.trans hk2)
        have hgeq : g1 = g2 := C08.eq_of_map_nodup gi.1 hg1 hg2 hkeys
        subst hgeq
        refine ⟨g1.2, List.mem_map.2 ⟨g1, List.mem_filter.2 ⟨hg1, ?_⟩, rfl⟩, ht1, ht2⟩
        have : 2 ≤ g1.2.length := C08.two_le_length_of_mem_ne ht1 ht2 hne
        simpa using this

/-! ### the pass -/

/-- `make_constraints_unique(s)` preserves `XB` when no child of `s` is deterministic; afterwards
the transitions of `s` carry pairwise different constraints and still no child of `s` is
deterministic. -/
theorem xb_makeConstraintsUnique {Mx : Constraint K P → Constraint K P → Prop}
    (hirr : ∀ k, ¬ Mx k k) {a a' : Automaton K P} {s : Nat} {evs evs' : List Ev} (inv : Inv a)
    (hs : a.Live s) (hnd : NonDetChildren a s) (X : XB Mx a)
    (h : a.makeConstraintsUnique s evs = .ok (a', evs')) :
    XB Mx a' ∧ NonDetChildren a' s ∧ C08.UniqueAt a' s := by
  have := makeConstraintsUnique_induct2 (fun b => XB Mx b ∧ NonDetChildren b s) (s := s)
    (fun {a a' ts c0} inv hs hg hcomp hf hΦ => by
      obtain ⟨N, tN, f, fe⟩ := fuseGroup_both inv hs hg hf
      refine ⟨xb_fused hirr f fe ?_ hcomp hΦ.1, ?_⟩
      · rintro old ⟨t, ht, e, he, hd⟩
        obtain ⟨e', he', hs', _⟩ := hg t ht
        rw [he] at he'; cases he'
        exact hd ▸ hΦ.2 t e he hs'
      · exact (f.subStep (σ := fun _ => true) fe.ne).nonDetChildren hΦ.2) inv hs ⟨X, hnd⟩ h
  exact ⟨this.1.1, this.1.2, this.2.1⟩

end C07
end Pm
