/-
Proofs/C08Total2.lean — C08 (totality) of the builder, part 2: `make_constraints_unique`
(`groupTransitions`, `removeTransitions`, `absorbChildren`, `fuseGroup`, `fuseLogged`) never
panics on an automaton satisfying `Inv` at a live state: the only errors are the guard errors of
the event replay (`makeConstraintsUnique_fine`).
Everything lives in `namespace Pm.C08`.
-/
import PmVerif.Proofs.C08Total1
import PmVerif.Proofs.C08Fuse
namespace Pm
namespace C08
open Automaton
variable {K P : Type} [DecidableEq K] [DecidableEq P]
set_option linter.unusedSectionVars false

theorem mapR_total' {α β : Type} (f : α → R β) (xs : List α) (h : ∀ x ∈ xs, ∃ y, f x = .ok y) :
    ∃ ys, mapR f xs = .ok ys := by
  induction xs with
  | nil => exact ⟨[], rfl⟩
  | cons x xs ih =>
    obtain ⟨y, hy⟩ := h x List.mem_cons_self
    obtain ⟨ys, hys⟩ := ih fun x' hx' => h x' (List.mem_cons_of_mem _ hx')
    exact ⟨y :: ys, by simp only [mapR, hy, hys]⟩

/-! ### `groupTransitions`, `removeTransitions` -/

theorem groupTransitions_total {a : Automaton K P} :
    ∀ (ts : List Nat) (acc : List (Option (Cons K P) × List Nat)),
    (∀ t ∈ ts, ∃ e, a.g.edge? t = some e) → ∃ out, a.groupTransitions ts acc = .ok out
  | [], acc, _ => ⟨acc, rfl⟩
  | t :: ts, acc, hts => by
    obtain ⟨e, he⟩ := hts t List.mem_cons_self
    unfold groupTransitions
    rw [constraintOf_ok_iff.2 ⟨e, he, rfl⟩]
    simp only
    split
    · exact groupTransitions_total ts _ fun t' ht' => hts t' (List.mem_cons_of_mem _ ht')
    · exact groupTransitions_total ts _ fun t' ht' => hts t' (List.mem_cons_of_mem _ ht')

theorem removeTransitions_total : ∀ (ts : List Nat) {a : Automaton K P}
    (last : Option (Option (Constraint K P))), Inv a → ts.Nodup →
    (∀ t ∈ ts, ∃ e, a.g.edge? t = some e) → ∃ r, a.removeTransitions ts last = .ok r
  | [], a, last, _, _, _ => ⟨_, rfl⟩
  | t :: ts, a, last, inv, hnd, hts => by
    obtain ⟨e, he⟩ := hts t List.mem_cons_self
    unfold removeTransitions
    obtain ⟨a1, h1⟩ := removeTransition_total inv he
    rw [h1]
    simp only
    obtain ⟨ed, _, sp⟩ := removeTransition_spec inv h1
    rw [List.nodup_cons] at hnd
    refine removeTransitions_total ts _ sp.inv hnd.2 fun t' ht' => ?_
    obtain ⟨e', he'⟩ := hts t' (List.mem_cons_of_mem _ ht')
    refine ⟨e', ?_⟩
    rw [sp.edge, if_neg]
    · exact he'
    · intro hx; exact hnd.1 (hx ▸ ht')

/-! ### `absorbChildren` -/

theorem absorbChildren_total {b0 : Automaton K P} {N : Nat} :
    ∀ (olds : List Nat) {b : Automaton K P} {D : Nat → Prop},
    Abs b0 b N D → olds.Nodup → (∀ old ∈ olds, old ≠ N ∧ b0.Live old ∧ ¬ D old) →
    (∀ old ∈ olds, ∀ t e, b0.g.edge? t = some e → e.src = old → e.dst ≠ N) →
    ∃ b', b.absorbChildren N olds = .ok b'
  | [], b, D, _, _, _, _ => ⟨b, rfl⟩
  | old :: olds, b, D, ab, hnd, hold, hN => by
    obtain ⟨hneo, hl0, hnD⟩ := hold old List.mem_cons_self
    have hlb : b.Live old := by
      by_cases hl : b.Live old
      · exact hl
      · exact absurd (ab.removed old hl0 hl) hnD
    unfold absorbChildren
    obtain ⟨c1, hcl⟩ := cloneOutgoing_total ab.inv ab.liveN hlb
    rw [hcl]
    simp only
    obtain ⟨g, cov⟩ := cloneOutgoing_grows ab.inv hcl
    have hlc1 : c1.Live old := (g.live_iff old).2 hlb
    obtain ⟨w, hw⟩ := live_iff.1 hlc1
    rw [state_ok_iff.2 hw]
    simp only
    obtain ⟨c2, ham⟩ := addMatches_total w.matches_ g.inv ((g.live_iff N).2 ab.liveN)
    rw [ham]
    simp only
    have am := addMatches_spec w.matches_ g.inv ham
    have ab2 := ab.grow hneo (hN old List.mem_cons_self) g cov hw am
    have ab3 : Abs b0 (if c2.isUnreachable old then c2.removeState old else c2) N
        (fun x => D x ∨ x = old) := by
      split
      · rename_i hu
        exact ab2.remove hneo (.inr rfl) (ab2.inv.isUnreachable_iff.1 hu)
      · exact ab2
    rw [List.nodup_cons] at hnd
    refine absorbChildren_total olds ab3 hnd.2 (fun o ho => ?_)
      (fun o ho => hN o (List.mem_cons_of_mem _ ho))
    obtain ⟨h1, h2, h3⟩ := hold o (List.mem_cons_of_mem _ ho)
    refine ⟨h1, h2, ?_⟩
    rintro (h | h)
    · exact h3 h
    · exact hnd.1 (h ▸ ho)

/-! ### `fuseGroup` -/

theorem nodup_dedup {α : Type} [DecidableEq α] : ∀ l : List α, (dedup l).Nodup
  | [] => List.nodup_nil
  | x :: xs => by
    unfold dedup
    rw [List.nodup_cons]
    refine ⟨?_, (nodup_dedup xs).sublist List.filter_sublist⟩
    intro h
    have := (List.mem_filter.1 h).2
    simp at this

theorem fuseGroup_total {a : Automaton K P} {s : Nat} {ts : List Nat}
    {c0 : Option (Constraint K P)} (inv : Inv a) (hs : a.Live s)
    (hg : ∀ t ∈ ts, ∃ e, a.g.edge? t = some e ∧ e.src = s ∧ e.w = c0) (hnd : ts.Nodup)
    (hne : ts ≠ []) : ∃ a', a.fuseGroup s ts = .ok a' := by
  unfold fuseGroup
  obtain ⟨targets, htg⟩ := mapR_total' a.nextState ts (fun t ht => by
    obtain ⟨e, he, _⟩ := hg t ht
    exact ⟨e.dst, nextState_ok_iff.2 ⟨e, he, rfl⟩⟩)
  rw [htg]
  simp only
  obtain ⟨⟨a1, r⟩, hrm⟩ := removeTransitions_total ts none inv hnd (fun t ht => by
    obtain ⟨e, he, _⟩ := hg t ht
    exact ⟨e, he⟩)
  obtain ⟨sh, hr, hsome⟩ := removeTransitions_shrinks ts inv hrm
  rw [hrm]
  cases r with
  | none => exact absurd rfl (hsome hne)
  | some c =>
    simp only
    have hc : c = c0 := by
      rcases hr c rfl with ⟨_, hl⟩ | ⟨t, ht, e, he, hw⟩
      · cases hl
      · obtain ⟨e', he', _, hw'⟩ := hg t ht
        rw [he] at he'; cases he'
        exact hw.symm.trans hw'
    subst hc
    obtain ⟨⟨a2, N⟩, hat⟩ := addTransition_total sh.inv c ((sh.live_iff s).2 hs)
    rw [hat]
    simp only
    obtain ⟨tN, sp⟩ := addTransition_spec sh.inv ((sh.live_iff s).2 hs) hat
    have hliveN : a2.Live N := live_of_weight (by rw [sp.wt, if_pos rfl])
    have hdeadN : ¬ a.Live N := fun hl => sp.deadc ((sh.live_iff N).2 hl)
    have hold : ∀ x, x ∈ dedup targets ↔ IsOld a ts x := by
      intro x
      rw [mem_dedup, mem_of_mapR_ok htg]
      constructor
      · rintro ⟨t, ht, hn⟩
        obtain ⟨e, he, hd⟩ := nextState_ok_iff.1 hn
        exact ⟨t, ht, e, he, hd⟩
      · rintro ⟨t, ht, e, he, hd⟩
        exact ⟨t, ht, nextState_ok_iff.2 ⟨e, he, hd⟩⟩
    have hold_live : ∀ x, IsOld a ts x → a.Live x := by
      rintro x ⟨t, _, e, he, rfl⟩; exact inv.ok.dst_live he
    have hold_ne_s : ∀ x, IsOld a ts x → x ≠ s := by
      rintro x ⟨t, ht, e, he, rfl⟩ hx
      obtain ⟨e', he', hs', _⟩ := hg t ht
      rw [he] at he'; cases he'
      exact inv.noloop t e he (hs'.trans hx.symm)
    -- old children are live in `a2`
    have hlive2 : ∀ x, a.Live x → a2.Live x := by
      intro x hx
      have h1 : a1.Live x := (sh.live_iff x).2 hx
      obtain ⟨w, hw⟩ := live_iff.1 h1
      rw [live_iff, sp.wt]
      split
      · exact ⟨_, rfl⟩
      · split
        · rename_i hxp
          subst hxp
          rw [hw]; exact ⟨_, rfl⟩
        · exact ⟨w, hw⟩
    exact absorbChildren_total (dedup targets) (Abs.init sp.inv hliveN) (nodup_dedup targets)
      (fun o ho => ⟨fun hx => hdeadN (hx ▸ hold_live o ((hold o).1 ho)),
        hlive2 o (hold_live o ((hold o).1 ho)), fun h => h⟩)
      (fun o ho t e he hsrc hd => by
        rw [sp.edge] at he
        split at he
        · cases he
          exact hold_ne_s o ((hold o).1 ho) hsrc.symm
        · exact sp.deadc (hd ▸ sh.inv.ok.dst_live he))

/-! ### `fuseLogged`, `makeConstraintsUnique` -/

theorem nodup_of_mem_flatten_nodup : ∀ {pending : List (List Nat)} {l : List Nat},
    pending.flatten.Nodup → l ∈ pending → l.Nodup
  | [], _, _, h => by cases h
  | p :: ps, l, hnd, hl => by
    rw [List.flatten_cons, List.nodup_append] at hnd
    rcases List.mem_cons.1 hl with h | h
    · exact h ▸ hnd.1
    · exact nodup_of_mem_flatten_nodup hnd.2.1 h

theorem fuseLogged_guardOnly {s : Nat} :
    ∀ (evs : List Ev) (pending : List (List Nat)) {a : Automaton K P},
    Inv a → a.Live s → pending.flatten.Nodup → (∀ l ∈ pending, GroupOK a s l ∧ l ≠ []) →
    Only IsGuard (a.fuseLogged s pending evs)
  | evs, [], a, _, _, _, _ => by
    unfold fuseLogged; exact Only.ok _ _
  | [], p :: ps, a, _, _, _, _ => by
    unfold fuseLogged; exact Only.err ⟨_, rfl⟩
  | ev :: evs, p :: ps, a, inv, hs, hnd, hgrp => by
    cases ev with
    | group s' ts =>
      unfold fuseLogged
      split
      · rename_i hcond
        obtain ⟨_, hmem⟩ := hcond
        obtain ⟨⟨c0, hg⟩, hne⟩ := hgrp ts hmem
        obtain ⟨a1, hf⟩ := fuseGroup_total inv hs hg (nodup_of_mem_flatten_nodup hnd hmem) hne
        rw [hf]
        simp only
        obtain ⟨N, tN, fe⟩ := fuseGroup_edges inv hs hg hf
        have hnd' : ((p :: ps).erase ts).flatten.Nodup :=
          hnd.sublist (sublist_flatten' List.erase_sublist)
        have hdisj : ∀ l ∈ (p :: ps).erase ts, ∀ t ∈ l, t ∉ ts := by
          intro l hl t ht hts
          have hl' := List.mem_of_mem_erase hl
          have heq := eq_of_mem_of_flatten_nodup hnd hl' hmem ht hts
          subst heq
          exact erase_self_not_mem hnd hmem ⟨t, ht⟩ hl
        refine fuseLogged_guardOnly evs _ fe.inv' fe.live_s hnd' fun l hl => ?_
        obtain ⟨⟨c, hc⟩, hne'⟩ := hgrp l (List.mem_of_mem_erase hl)
        refine ⟨⟨c, fun t ht => ?_⟩, hne'⟩
        obtain ⟨e, he, hsrc, hw⟩ := hc t ht
        exact ⟨e, fe.keep t e he (hdisj l hl t ht) hsrc, hsrc, hw⟩
      · exact Only.err ⟨_, rfl⟩
    | topo _ => unfold fuseLogged; exact Only.err ⟨_, rfl⟩
    | detAsk _ => unfold fuseLogged; exact Only.err ⟨_, rfl⟩
    | detYes _ => unfold fuseLogged; exact Only.err ⟨_, rfl⟩
    | merge _ _ => unfold fuseLogged; exact Only.err ⟨_, rfl⟩
    | iterEnd _ => unfold fuseLogged; exact Only.err ⟨_, rfl⟩

/-- **`make_constraints_unique(s)` returns `.ok` or a guard error of the replay** — never a
panic, never a fuel error. -/
theorem makeConstraintsUnique_guardOnly {a : Automaton K P} {s : Nat} (evs : List Ev)
    (inv : Inv a) (hs : a.Live s) : Only IsGuard (a.makeConstraintsUnique s evs) := by
  unfold makeConstraintsUnique
  obtain ⟨w, hw⟩ := live_iff.1 hs
  rw [allTransitions_ok_iff.2 ⟨w, hw, rfl⟩]
  simp only
  obtain ⟨groups, hgr⟩ := groupTransitions_total (a := a) (w.corder ++ w.eorder) [] (fun t ht => by
    obtain ⟨e, he, _⟩ := inv.listed_live hw ht
    exact ⟨e, he⟩)
  rw [hgr]
  simp only
  have gi := groupTransitions_gi (s := s) _ [] groups (inv.ok.nodup s w hw)
    (fun t ht => inv.listed_live hw ht) ⟨by simp, by simp⟩ hgr
  have hfl : ((groups.map (·.2)).flatten).Nodup :=
    groups_flatten_nodup groups gi.1 fun g hg =>
      ⟨(gi.2 g hg).1, fun t ht => by
        obtain ⟨_, e, he, _, hw'⟩ := (gi.2 g hg).2 t ht
        exact ⟨e, he, hw'⟩⟩
  refine fuseLogged_guardOnly evs _ inv hs ?_ ?_
  · exact hfl.sublist (sublist_flatten' (List.Sublist.map _ List.filter_sublist))
  · intro l hl
    obtain ⟨g, hg, rfl⟩ := List.mem_map.1 hl
    obtain ⟨hg', hlen⟩ := List.mem_filter.1 hg
    refine ⟨⟨g.1, fun t ht => ((gi.2 g hg').2 t ht).2⟩, ?_⟩
    intro hnil
    rw [hnil] at hlen
    simp at hlen

/-- In particular it never panics. -/
theorem makeConstraintsUnique_fine {a : Automaton K P} {s : Nat} (evs : List Ev) (inv : Inv a)
    (hs : a.Live s) : Fine (a.makeConstraintsUnique s evs) :=
  (makeConstraintsUnique_guardOnly evs inv hs).fine

end C08
end Pm
