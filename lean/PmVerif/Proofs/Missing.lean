/-
Proofs/Missing.lean — helper lemmas for property C12 (`missing_bindings`,
`all_missing_bindings`): fuel monotonicity, a recursive reference traversal `dfs`, the
simulation of `dfs` by the stack machine `mbLoop`, the invariant giving `MissingSpec`, the
composition lemma for `allMissingLoop`, and the checker lemmas.
-/
import PmVerif.Spec.Needed
namespace Pm
variable {K : Type} [DecidableEq K]

/-! ### `Needed` -/

omit [DecidableEq K] in
theorem Needed.not_known {req : K → List K} {known ks : List K} {x : K}
    (h : Needed req known ks x) : x ∉ known := by
  cases h <;> assumption

omit [DecidableEq K] in
theorem Needed.mono_keys {req : K → List K} {known ks ks' : List K}
    (hsub : ∀ k ∈ ks, k ∈ ks') {x : K} (h : Needed req known ks x) : Needed req known ks' x := by
  induction h with
  | root hk hn => exact .root (hsub _ hk) hn
  | step _ hp hn ih => exact .step ih hp hn

/-! ### Fuel monotonicity -/

theorem mbLoop_fuel_mono (req : K → List K) (known : List K) :
    ∀ (fuel fuel' : Nat) (st : List (Frame K)) (vis out res : List K),
      mbLoop req known fuel st vis out = some res → fuel ≤ fuel' →
      mbLoop req known fuel' st vis out = some res := by
  intro fuel
  induction fuel with
  | zero =>
    intro fuel' st vis out res h _
    cases st with
    | nil => simpa only [mbLoop] using h
    | cons f st => simp [mbLoop] at h
  | succ fuel ih =>
    intro fuel' st vis out res h hle
    cases fuel' with
    | zero => omega
    | succ fuel' =>
      have hle' : fuel ≤ fuel' := by omega
      cases st with
      | nil => simpa only [mbLoop] using h
      | cons f st =>
        cases f with
        | enter k =>
          by_cases hk : k ∈ vis
          · simp only [mbLoop, hk, if_true] at h ⊢
            exact ih _ _ _ _ _ h hle'
          · simp only [mbLoop, hk, if_false] at h ⊢
            exact ih _ _ _ _ _ h hle'
        | exit k =>
          simp only [mbLoop] at h ⊢
          exact ih _ _ _ _ _ h hle'

theorem missingBindings_fuel_mono (req : K → List K) (known : List K) (k : K)
    (fuel fuel' : Nat) (out : List K) (h : missingBindings req known k fuel = some out)
    (hle : fuel ≤ fuel') : missingBindings req known k fuel' = some out := by
  unfold missingBindings at h ⊢
  by_cases hk : k ∈ known
  · simpa only [hk, if_true] using h
  · simp only [hk, if_false] at h ⊢
    exact mbLoop_fuel_mono req known _ _ _ _ _ _ h hle

theorem allMissingLoop_fuel_mono (req : K → List K) (fuel fuel' : Nat) (hle : fuel ≤ fuel') :
    ∀ (ks known out res : List K), allMissingLoop req fuel ks known out = some res →
      allMissingLoop req fuel' ks known out = some res := by
  intro ks
  induction ks with
  | nil => intro known out res h; simpa only [allMissingLoop] using h
  | cons k ks ih =>
    intro known out res h
    by_cases hk : k ∈ known
    · simp only [allMissingLoop, hk, if_true] at h ⊢
      exact ih _ _ _ h
    · simp only [allMissingLoop, hk, if_false] at h ⊢
      cases hm : missingBindings req known k fuel with
      | none => simp [hm] at h
      | some m =>
        rw [hm] at h
        rw [missingBindings_fuel_mono req known k fuel fuel' m hm hle]
        exact ih _ _ _ h

/-! ### The reference traversal -/

/-- Recursive reference traversal; `n` bounds the rank of `k`. The state is `(visited, out)`. -/
def dfs (req : K → List K) (known : List K) : Nat → K → List K × List K → List K × List K
  | 0, _, s => s
  | n + 1, k, s =>
    if k ∈ s.1 then s
    else
      let s' := (((req k).filter (fun r => r ∉ known ∧ r ∉ (k :: s.1))).reverse).foldl
        (fun acc r => dfs req known n r acc) (k :: s.1, s.2)
      (s'.1, s'.2 ++ [k])

/-- The traversal of a list of pending keys, first key first. -/
def dfsList (req : K → List K) (known : List K) (n : Nat) (rs : List K)
    (s : List K × List K) : List K × List K :=
  rs.foldl (fun acc r => dfs req known n r acc) s

theorem dfsList_nil (req : K → List K) (known : List K) (n : Nat) (s : List K × List K) :
    dfsList req known n [] s = s := rfl

theorem dfsList_cons (req : K → List K) (known : List K) (n : Nat) (r : K) (rs : List K)
    (s : List K × List K) :
    dfsList req known n (r :: rs) s = dfsList req known n rs (dfs req known n r s) := rfl

theorem dfs_succ_mem (req : K → List K) (known : List K) (n : Nat) (k : K)
    (s : List K × List K) (h : k ∈ s.1) : dfs req known (n + 1) k s = s := by
  simp only [dfs, h, if_true]

theorem dfs_succ_not_mem (req : K → List K) (known : List K) (n : Nat) (k : K)
    (s : List K × List K) (h : k ∉ s.1) :
    dfs req known (n + 1) k s =
      ((dfsList req known n
          ((req k).filter (fun r => r ∉ known ∧ r ∉ (k :: s.1))).reverse (k :: s.1, s.2)).1,
       (dfsList req known n
          ((req k).filter (fun r => r ∉ known ∧ r ∉ (k :: s.1))).reverse (k :: s.1, s.2)).2
          ++ [k]) := by
  simp only [dfs, h, if_false, dfsList]

/-! ### The stack machine simulates the reference traversal -/

theorem mbLoop_sim (req : K → List K) (known : List K) (rank : K → Nat)
    (hrank : ∀ k p, p ∈ req k → rank p < rank k) :
    ∀ (n : Nat) (k : K) (s : List K × List K), rank k < n →
      ∃ c, ∀ (fuel : Nat) (st : List (Frame K)),
        mbLoop req known (fuel + c) (Frame.enter k :: st) s.1 s.2 =
          mbLoop req known fuel st (dfs req known n k s).1 (dfs req known n k s).2 := by
  intro n
  induction n with
  | zero => intro k s h; omega
  | succ n ih =>
    -- the list version at level `n`
    have ihL : ∀ (rs : List K) (s : List K × List K), (∀ r ∈ rs, rank r < n) →
        ∃ c, ∀ (fuel : Nat) (st : List (Frame K)),
          mbLoop req known (fuel + c) (rs.map Frame.enter ++ st) s.1 s.2 =
            mbLoop req known fuel st (dfsList req known n rs s).1
              (dfsList req known n rs s).2 := by
      intro rs
      induction rs with
      | nil => intro s _; exact ⟨0, fun fuel st => rfl⟩
      | cons r rs ihrs =>
        intro s hr
        obtain ⟨c1, h1⟩ := ih r s (hr r (List.mem_cons_self ..))
        obtain ⟨c2, h2⟩ := ihrs (dfs req known n r s)
          (fun r' hr' => hr r' (List.mem_cons_of_mem _ hr'))
        refine ⟨c2 + c1, fun fuel st => ?_⟩
        rw [dfsList_cons, ← h2 fuel st, ← h1 (fuel + c2) (rs.map Frame.enter ++ st),
          Nat.add_assoc]
        rfl
    intro k s hk
    by_cases hv : k ∈ s.1
    · refine ⟨1, fun fuel st => ?_⟩
      rw [dfs_succ_mem req known n k s hv]
      simp only [mbLoop, hv, if_true]
    · obtain ⟨c, hc⟩ := ihL ((req k).filter (fun r => r ∉ known ∧ r ∉ (k :: s.1))).reverse
        (k :: s.1, s.2) (by
          intro r hr
          have hr' : r ∈ req k := (List.mem_filter.mp (List.mem_reverse.mp hr)).1
          have := hrank k r hr'
          omega)
      refine ⟨c + 2, fun fuel st => ?_⟩
      rw [dfs_succ_not_mem req known n k s hv]
      have e : fuel + (c + 2) = (fuel + 1 + c) + 1 := by omega
      rw [e]
      simp only [mbLoop, hv, if_false]
      rw [hc (fuel + 1) (Frame.exit k :: st)]
      simp only [mbLoop]

/-! ### Invariants of the reference traversal -/

/-- The part of `MissingSpec` that holds of every intermediate `(visited, out)` state. -/
structure Good (req : K → List K) (known ks vis out : List K) : Prop where
  nodup : out.Nodup
  sub : ∀ x ∈ out, x ∈ vis
  order : ∀ x ∈ out, ∀ p ∈ req x, p ∉ known → p ∈ out ∧ out.idxOf p < out.idxOf x
  needed : ∀ x ∈ out, Needed req known ks x

/-- How a traversal step changes the state: `visited` grows, `out` is extended at the end, and
the set `visited \ out` of keys in progress is unchanged. -/
structure DfsExt (s s' : List K × List K) : Prop where
  vis_sub : ∀ x ∈ s.1, x ∈ s'.1
  out_pre : ∃ e, s'.2 = s.2 ++ e
  inprog : ∀ x ∈ s'.1, x ∉ s'.2 → x ∈ s.1
  fresh : ∀ x ∈ s'.2, x ∉ s.2 → x ∉ s.1

omit [DecidableEq K] in
theorem DfsExt.refl (s : List K × List K) : DfsExt s s :=
  ⟨fun _ h => h, ⟨[], (List.append_nil _).symm⟩, fun _ h _ => h, fun _ h h' => absurd h h'⟩

omit [DecidableEq K] in
theorem DfsExt.out_sub {s s' : List K × List K} (h : DfsExt s s') : ∀ x ∈ s.2, x ∈ s'.2 := by
  obtain ⟨e, he⟩ := h.out_pre
  intro x hx
  rw [he]
  exact List.mem_append_left _ hx

omit [DecidableEq K] in
theorem DfsExt.trans {s s' s'' : List K × List K} (h1 : DfsExt s s') (h2 : DfsExt s' s'') : DfsExt s s'' := by
  refine ⟨fun x hx => h2.vis_sub x (h1.vis_sub x hx), ?_, ?_, ?_⟩
  · obtain ⟨e1, he1⟩ := h1.out_pre
    obtain ⟨e2, he2⟩ := h2.out_pre
    exact ⟨e1 ++ e2, by rw [he2, he1, List.append_assoc]⟩
  · intro x hx hx'
    exact h1.inprog x (h2.inprog x hx hx') (fun h => hx' (h2.out_sub x h))
  · intro x hx hx'
    by_cases hm : x ∈ s'.2
    · exact h1.fresh x hm hx'
    · exact fun h => h2.fresh x hx hm (h1.vis_sub x h)

/-- Appending a key all of whose unknown prerequisites are already listed keeps the order
clause. -/
theorem order_snoc (req : K → List K) (known out : List K) (k : K)
    (ho : ∀ x ∈ out, ∀ p ∈ req x, p ∉ known → p ∈ out ∧ out.idxOf p < out.idxOf x)
    (hk : k ∉ out) (hp : ∀ p ∈ req k, p ∉ known → p ∈ out) :
    ∀ x ∈ out ++ [k], ∀ p ∈ req x, p ∉ known →
      p ∈ out ++ [k] ∧ (out ++ [k]).idxOf p < (out ++ [k]).idxOf x := by
  intro x hx p hpx hpk
  rcases List.mem_append.mp hx with hx | hx
  · obtain ⟨h1, h2⟩ := ho x hx p hpx hpk
    refine ⟨List.mem_append_left _ h1, ?_⟩
    rw [List.idxOf_append, List.idxOf_append, if_pos h1, if_pos hx]
    exact h2
  · have hxk : x = k := List.mem_singleton.mp hx
    subst hxk
    have h1 := hp p hpx hpk
    refine ⟨List.mem_append_left _ h1, ?_⟩
    rw [List.idxOf_append, List.idxOf_append, if_pos h1, if_neg hk]
    have := List.idxOf_lt_length_of_mem h1
    omega

theorem dfs_spec (req : K → List K) (known ks : List K) (rank : K → Nat)
    (hrank : ∀ k p, p ∈ req k → rank p < rank k) :
    ∀ (n : Nat) (k : K) (s : List K × List K), rank k < n → Needed req known ks k →
      Good req known ks s.1 s.2 → (∀ x ∈ s.1, x ∉ s.2 → rank k < rank x) →
      Good req known ks (dfs req known n k s).1 (dfs req known n k s).2 ∧
        DfsExt s (dfs req known n k s) ∧ k ∈ (dfs req known n k s).2 := by
  intro n
  induction n with
  | zero => intro k s h; omega
  | succ n ih =>
    have ihL : ∀ (rs : List K) (s : List K × List K),
        (∀ r ∈ rs, rank r < n ∧ Needed req known ks r ∧
          ∀ x ∈ s.1, x ∉ s.2 → rank r < rank x) →
        Good req known ks s.1 s.2 →
        Good req known ks (dfsList req known n rs s).1 (dfsList req known n rs s).2 ∧
          DfsExt s (dfsList req known n rs s) ∧ ∀ r ∈ rs, r ∈ (dfsList req known n rs s).2 := by
      intro rs
      induction rs with
      | nil =>
        intro s _ hg
        exact ⟨hg, DfsExt.refl s, fun r hr => absurd hr (List.not_mem_nil)⟩
      | cons r rs ihrs =>
        intro s hr hg
        obtain ⟨hr1, hr2, hr3⟩ := hr r (List.mem_cons_self ..)
        obtain ⟨g1, e1, m1⟩ := ih r s hr1 hr2 hg hr3
        obtain ⟨g2, e2, m2⟩ := ihrs (dfs req known n r s) (by
          intro r' hr'
          obtain ⟨a, b, c⟩ := hr r' (List.mem_cons_of_mem _ hr')
          refine ⟨a, b, fun x hx hx' => c x (e1.inprog x hx hx') (fun h => hx' (e1.out_sub x h))⟩)
          g1
        rw [dfsList_cons]
        refine ⟨g2, e1.trans e2, ?_⟩
        intro r' hr'
        rcases List.mem_cons.mp hr' with rfl | hr'
        · exact e2.out_sub _ m1
        · exact m2 r' hr'
    intro k s hk hnk hg hprog
    by_cases hv : k ∈ s.1
    · rw [dfs_succ_mem req known n k s hv]
      refine ⟨hg, DfsExt.refl s, ?_⟩
      apply Classical.byContradiction
      intro hko
      exact Nat.lt_irrefl _ (hprog k hv hko)
    · rw [dfs_succ_not_mem req known n k s hv]
      have hko : k ∉ s.2 := fun h => hv (hg.sub k h)
      obtain ⟨g1, e1, m1⟩ := ihL
        ((req k).filter (fun r => r ∉ known ∧ r ∉ (k :: s.1))).reverse (k :: s.1, s.2) (by
          intro r hr
          have hr' := List.mem_filter.mp (List.mem_reverse.mp hr)
          have hrk : r ∈ req k := hr'.1
          have hrn : r ∉ known := (of_decide_eq_true hr'.2).1
          have hlt := hrank k r hrk
          refine ⟨by omega, .step hnk hrk hrn, ?_⟩
          intro x hx hxo
          rcases List.mem_cons.mp hx with rfl | hx
          · exact hlt
          · exact Nat.lt_trans hlt (hprog x hx hxo))
        ⟨hg.nodup, fun x hx => List.mem_cons_of_mem _ (hg.sub x hx), hg.order, hg.needed⟩
      generalize dfsList req known n
        ((req k).filter (fun r => r ∉ known ∧ r ∉ (k :: s.1))).reverse (k :: s.1, s.2) = s1
        at g1 e1 m1
      have hk1 : k ∉ s1.2 := fun h => e1.fresh k h hko (List.mem_cons_self ..)
      have hkv : k ∈ s1.1 := e1.vis_sub k (List.mem_cons_self ..)
      refine ⟨⟨?_, ?_, ?_, ?_⟩, ⟨?_, ?_, ?_, ?_⟩, ?_⟩
      · -- nodup
        show (s1.2 ++ [k]).Nodup
        rw [List.nodup_append]
        refine ⟨g1.nodup, List.pairwise_singleton _ _, ?_⟩
        intro a ha b hb hab
        rw [List.mem_singleton.mp hb] at hab
        exact hk1 (hab ▸ ha)
      · -- out ⊆ visited
        intro x hx
        rcases List.mem_append.mp hx with hx | hx
        · exact g1.sub x hx
        · rw [List.mem_singleton.mp hx]; exact hkv
      · -- order
        apply order_snoc req known s1.2 k g1.order hk1
        intro p hp hpn
        by_cases hf : p ∈ k :: s.1
        · -- dropped at push time: it is already in `out`
          have hlt := hrank k p hp
          rcases List.mem_cons.mp hf with rfl | hf
          · exact absurd hlt (Nat.lt_irrefl _)
          · apply e1.out_sub
            apply Classical.byContradiction
            intro hpo
            have := hprog p hf hpo
            omega
        · apply m1
          apply List.mem_reverse.mpr
          apply List.mem_filter.mpr
          exact ⟨hp, decide_eq_true ⟨hpn, hf⟩⟩
      · -- needed
        intro x hx
        rcases List.mem_append.mp hx with hx | hx
        · exact g1.needed x hx
        · rw [List.mem_singleton.mp hx]; exact hnk
      · -- visited grows
        intro x hx
        exact e1.vis_sub x (List.mem_cons_of_mem _ hx)
      · -- out is extended
        obtain ⟨e, he⟩ := e1.out_pre
        exact ⟨e ++ [k], by show s1.2 ++ [k] = _; rw [he, List.append_assoc]⟩
      · -- keys in progress
        intro x hx hxo
        have hxo' : x ∉ s1.2 ∧ x ≠ k := by
          constructor
          · exact fun h => hxo (List.mem_append_left _ h)
          · exact fun h => hxo (List.mem_append_right _ (List.mem_singleton.mpr h))
        rcases List.mem_cons.mp (e1.inprog x hx hxo'.1) with h | h
        · exact absurd h hxo'.2
        · exact h
      · -- fresh
        intro x hx hxo
        rcases List.mem_append.mp hx with hx | hx
        · exact fun h => e1.fresh x hx hxo (List.mem_cons_of_mem _ h)
        · rw [List.mem_singleton.mp hx]; exact hv
      · exact List.mem_append_right _ (List.mem_singleton.mpr rfl)

/-- A `Good` final state containing every unknown requested key satisfies `MissingSpec`. -/
theorem Good.missingSpec {req : K → List K} {known ks vis out : List K}
    (hg : Good req known ks vis out) (hroots : ∀ k ∈ ks, k ∉ known → k ∈ out) :
    MissingSpec req known ks out := by
  refine ⟨hg.nodup, fun x => ⟨hg.needed x, ?_⟩, hg.order⟩
  intro h
  induction h with
  | root hk hn => exact hroots _ hk hn
  | step _ hp hn ih => exact (hg.order _ ih _ hp hn).1

theorem mbLoop_spec (req : K → List K) (hacy : RankAcyclic req) (known : List K) (k : K)
    (hk : k ∉ known) :
    ∃ fuel out, mbLoop req known fuel [Frame.enter k] [] [] = some out ∧
      MissingSpec req known [k] out := by
  obtain ⟨rank, hrank⟩ := hacy
  obtain ⟨c, hc⟩ := mbLoop_sim req known rank hrank (rank k + 1) k ([], []) (Nat.lt_succ_self _)
  have hroot : Needed req known [k] k := .root (List.mem_singleton.mpr rfl) hk
  obtain ⟨g, _, m⟩ := dfs_spec req known [k] rank hrank (rank k + 1) k ([], [])
    (Nat.lt_succ_self _) hroot
    ⟨List.nodup_nil, fun x hx => absurd hx List.not_mem_nil,
      fun x hx => absurd hx List.not_mem_nil, fun x hx => absurd hx List.not_mem_nil⟩
    (fun x hx => absurd hx List.not_mem_nil)
  refine ⟨c, (dfs req known (rank k + 1) k ([], [])).2, ?_, ?_⟩
  · have := hc 0 []
    rw [Nat.zero_add] at this
    rw [this]
    simp only [mbLoop]
  · apply g.missingSpec
    intro k' hk' _
    rw [List.mem_singleton.mp hk']
    exact m

theorem missingBindings_spec (req : K → List K) (hacy : RankAcyclic req) (known : List K)
    (k : K) :
    ∃ fuel out, missingBindings req known k fuel = some out ∧ MissingSpec req known [k] out := by
  by_cases hk : k ∈ known
  · refine ⟨0, [], by simp only [missingBindings, hk, if_true], List.nodup_nil, ?_, ?_⟩
    · intro x
      refine ⟨fun h => absurd h List.not_mem_nil, fun h => ?_⟩
      exfalso
      induction h with
      | root hx hn => rw [List.mem_singleton.mp hx] at hn; exact hn hk
      | step _ _ _ ih => exact ih
    · intro x hx; exact absurd hx List.not_mem_nil
  · obtain ⟨fuel, out, h1, h2⟩ := mbLoop_spec req hacy known k hk
    exact ⟨fuel, out, by simp only [missingBindings, hk, if_false]; exact h1, h2⟩

/-! ### Composition of successive calls (`all_missing_bindings`) -/

omit [DecidableEq K] in
theorem Needed.weaken_known {req : K → List K} {known known' ks : List K}
    (hsub : ∀ y ∈ known, y ∈ known') {x : K} (h : Needed req known' ks x) :
    Needed req known ks x := by
  induction h with
  | root hk hn => exact .root hk (fun h => hn (hsub _ h))
  | step _ hp hn ih => exact .step ih hp (fun h => hn (hsub _ h))

omit [DecidableEq K] in
/-- A list containing the unknown requested keys and closed under unknown prerequisites contains
every needed key. -/
theorem Needed.mem_of_closed {req : K → List K} {known ks out : List K}
    (hroots : ∀ k ∈ ks, k ∉ known → k ∈ out)
    (hclosed : ∀ x ∈ out, ∀ p ∈ req x, p ∉ known → p ∈ out) {x : K}
    (h : Needed req known ks x) : x ∈ out := by
  induction h with
  | root hk hn => exact hroots _ hk hn
  | step _ hp hn ih => exact hclosed _ ih _ hp hn

theorem MissingSpec.empty (req : K → List K) (known : List K) : MissingSpec req known [] [] := by
  refine ⟨List.nodup_nil, fun x => ⟨fun h => absurd h List.not_mem_nil, fun h => ?_⟩,
    fun x hx => absurd hx List.not_mem_nil⟩
  exact Needed.mem_of_closed (fun k hk => absurd hk List.not_mem_nil)
    (fun x hx => absurd hx List.not_mem_nil) h

/-- A requested key that is already known or already listed adds nothing. -/
theorem MissingSpec.snoc_skip {req : K → List K} {known done out : List K} {k : K}
    (h : MissingSpec req known done out) (hk : k ∈ known ++ out) :
    MissingSpec req known (done ++ [k]) out := by
  refine ⟨h.nodup, fun x => ⟨fun hx => ?_, fun hx => ?_⟩, h.order⟩
  · exact ((h.exact x).mp hx).mono_keys (fun k hk => List.mem_append_left _ hk)
  · refine Needed.mem_of_closed ?_ (fun x hx p hp hn => (h.order x hx p hp hn).1) hx
    intro k' hk' hn
    rcases List.mem_append.mp hk' with hk' | hk'
    · exact (h.exact k').mpr (.root hk' hn)
    · rw [List.mem_singleton.mp hk'] at hn ⊢
      rcases List.mem_append.mp hk with hk | hk
      · exact absurd hk hn
      · exact hk

/-- One more call of `missing_bindings`, against the known set extended by what was listed so
far, extends the specification to one more requested key. -/
theorem MissingSpec.snoc_missing {req : K → List K} {known done out m : List K} {k : K}
    (h : MissingSpec req known done out) (hm : MissingSpec req (known ++ out) [k] m) :
    MissingSpec req known (done ++ [k]) (out ++ m) := by
  have hfresh : ∀ x ∈ m, x ∉ known ∧ x ∉ out := by
    intro x hx
    have := ((hm.exact x).mp hx).not_known
    exact ⟨fun h => this (List.mem_append_left _ h), fun h => this (List.mem_append_right _ h)⟩
  have hord : ∀ x ∈ out ++ m, ∀ p ∈ req x, p ∉ known →
      p ∈ out ++ m ∧ (out ++ m).idxOf p < (out ++ m).idxOf x := by
    intro x hx p hp hn
    by_cases hxo : x ∈ out
    · obtain ⟨h1, h2⟩ := h.order x hxo p hp hn
      refine ⟨List.mem_append_left _ h1, ?_⟩
      rw [List.idxOf_append, List.idxOf_append, if_pos h1, if_pos hxo]
      exact h2
    · have hxm : x ∈ m := by
        rcases List.mem_append.mp hx with hx | hx
        · exact absurd hx hxo
        · exact hx
      by_cases hpo : p ∈ out
      · refine ⟨List.mem_append_left _ hpo, ?_⟩
        rw [List.idxOf_append, List.idxOf_append, if_pos hpo, if_neg hxo]
        have := List.idxOf_lt_length_of_mem hpo
        omega
      · have hpn : p ∉ known ++ out := by
          intro h
          rcases List.mem_append.mp h with h | h
          · exact hn h
          · exact hpo h
        obtain ⟨h1, h2⟩ := hm.order x hxm p hp hpn
        refine ⟨List.mem_append_right _ h1, ?_⟩
        rw [List.idxOf_append, List.idxOf_append, if_neg hpo, if_neg hxo]
        omega
  refine ⟨?_, fun x => ⟨fun hx => ?_, fun hx => ?_⟩, hord⟩
  · rw [List.nodup_append]
    refine ⟨h.nodup, hm.nodup, ?_⟩
    intro a ha b hb hab
    exact (hfresh b hb).2 (hab ▸ ha)
  · rcases List.mem_append.mp hx with hx | hx
    · exact ((h.exact x).mp hx).mono_keys (fun k hk => List.mem_append_left _ hk)
    · exact (((hm.exact x).mp hx).weaken_known (fun y hy => List.mem_append_left _ hy)).mono_keys
        (fun k hk => List.mem_append_right _ hk)
  · refine Needed.mem_of_closed ?_ (fun x hx p hp hn => (hord x hx p hp hn).1) hx
    intro k' hk' hn
    rcases List.mem_append.mp hk' with hk' | hk'
    · exact List.mem_append_left _ ((h.exact k').mpr (.root hk' hn))
    · rw [List.mem_singleton.mp hk'] at hn ⊢
      by_cases hko : k ∈ out
      · exact List.mem_append_left _ hko
      · apply List.mem_append_right
        apply (hm.exact k).mpr
        refine .root (List.mem_singleton.mpr rfl) ?_
        intro h
        rcases List.mem_append.mp h with h | h
        · exact hn h
        · exact hko h

theorem allMissingLoop_spec (req : K → List K) (hacy : RankAcyclic req) (known : List K) :
    ∀ (ks done out : List K), MissingSpec req known done out →
      ∃ fuel res, allMissingLoop req fuel ks (known ++ out) out = some res ∧
        MissingSpec req known (done ++ ks) res := by
  intro ks
  induction ks with
  | nil =>
    intro done out h
    exact ⟨0, out, by simp only [allMissingLoop], by rw [List.append_nil]; exact h⟩
  | cons k ks ih =>
    intro done out h
    have e : done ++ k :: ks = (done ++ [k]) ++ ks := by
      rw [List.append_assoc]; rfl
    rw [e]
    by_cases hk : k ∈ known ++ out
    · obtain ⟨fuel, res, h1, h2⟩ := ih (done ++ [k]) out (h.snoc_skip hk)
      exact ⟨fuel, res, by simp only [allMissingLoop, hk, if_true]; exact h1, h2⟩
    · obtain ⟨f1, m, hm1, hm2⟩ := missingBindings_spec req hacy (known ++ out) k
      obtain ⟨f2, res, h1, h2⟩ := ih (done ++ [k]) (out ++ m) (h.snoc_missing hm2)
      refine ⟨max f1 f2, res, ?_, h2⟩
      simp only [allMissingLoop, hk, if_false]
      rw [missingBindings_fuel_mono req _ k f1 _ m hm1 (Nat.le_max_left _ _)]
      simp only [List.append_assoc]
      exact allMissingLoop_fuel_mono req f2 _ (Nat.le_max_right _ _) _ _ _ _ h1

theorem allMissingBindings_spec (req : K → List K) (hacy : RankAcyclic req)
    (keys known : List K) :
    ∃ fuel out, allMissingBindings req keys known fuel = some out ∧
      MissingSpec req known keys out := by
  obtain ⟨fuel, res, h1, h2⟩ :=
    allMissingLoop_spec req hacy known keys [] [] (MissingSpec.empty req known)
  rw [List.append_nil] at h1
  rw [List.nil_append] at h2
  exact ⟨fuel, res, h1, h2⟩

/-! ### The executable checker -/

theorem checkMissing_iff (req : K → List K) (known ks out : List K) :
    checkMissing req known ks out = true ↔
      out.Nodup ∧
      (∀ x ∈ out, x ∉ known ∧ (x ∈ ks ∨ ∃ y ∈ out, x ∈ req y)) ∧
      (∀ k ∈ ks, k ∈ known ∨ k ∈ out) ∧
      (∀ x ∈ out, ∀ p ∈ req x, p ∈ known ∨ (p ∈ out ∧ out.idxOf p < out.idxOf x)) := by
  simp only [checkMissing, Bool.and_eq_true, Bool.or_eq_true, List.all_eq_true, List.any_eq_true,
    decide_eq_true_eq, and_assoc]

/-- Soundness of the checker. Acyclicity of the scheme is not needed: the order clause already
forces every justification chain to climb strictly in `out`, so it ends at a requested key. -/
theorem checkMissing_sound (req : K → List K) (known ks out : List K)
    (h : checkMissing req known ks out = true) : MissingSpec req known ks out := by
  obtain ⟨hnd, hjust, hroots, hord⟩ := (checkMissing_iff req known ks out).mp h
  have hord' : ∀ x ∈ out, ∀ p ∈ req x, p ∉ known →
      p ∈ out ∧ out.idxOf p < out.idxOf x := by
    intro x hx p hp hn
    rcases hord x hx p hp with h | h
    · exact absurd h hn
    · exact h
  have hneeded : ∀ (n : Nat) (x : K), x ∈ out → out.length - out.idxOf x ≤ n →
      Needed req known ks x := by
    intro n
    induction n with
    | zero =>
      intro x hx hle
      have := List.idxOf_lt_length_of_mem hx
      omega
    | succ n ih =>
      intro x hx hle
      obtain ⟨hxn, hxj⟩ := hjust x hx
      rcases hxj with hxk | ⟨y, hy, hxy⟩
      · exact .root hxk hxn
      · have hlt := (hord' y hy x hxy hxn).2
        have := List.idxOf_lt_length_of_mem hy
        exact .step (ih y hy (by omega)) hxy hxn
  refine ⟨hnd, fun x => ⟨fun hx => hneeded _ x hx (Nat.le_refl _), fun hx => ?_⟩, hord'⟩
  refine Needed.mem_of_closed ?_ (fun x hx p hp hn => (hord' x hx p hp hn).1) hx
  intro k hk hn
  rcases hroots k hk with h | h
  · exact absurd h hn
  · exact h

theorem checkMissing_complete (req : K → List K) (known ks out : List K)
    (h : MissingSpec req known ks out) : checkMissing req known ks out = true := by
  refine (checkMissing_iff req known ks out).mpr ⟨h.nodup, ?_, ?_, ?_⟩
  · intro x hx
    have hn := (h.exact x).mp hx
    refine ⟨hn.not_known, ?_⟩
    cases hn with
    | root hk _ => exact .inl hk
    | step hy hp _ => exact .inr ⟨_, (h.exact _).mpr hy, hp⟩
  · intro k hk
    by_cases hkn : k ∈ known
    · exact .inl hkn
    · exact .inr ((h.exact k).mpr (.root hk hkn))
  · intro x hx p hp
    by_cases hpn : p ∈ known
    · exact .inl hpn
    · exact .inr (h.order x hx p hp hpn)

/-! ### The witness scheme of finding F1 -/

/-- `2` needs `0` and `1`, `1` needs `0`. -/
def f1Scheme : Nat → List Nat
  | 2 => [0, 1]
  | 1 => [0]
  | _ => []

theorem f1Scheme_acyclic : RankAcyclic f1Scheme := by
  refine ⟨id, ?_⟩
  intro k p h
  unfold f1Scheme at h
  split at h <;> simp at h <;> simp <;> omega

end Pm
