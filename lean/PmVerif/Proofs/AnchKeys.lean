/-
Proofs/AnchKeys.lean — T-RUN-ANCH-STR, stage 4 (for the corollaries): `AccDetK` versus `AccDet`,
and the key list `strPatternKeys p` recorded for a string pattern (its keys are positions of
the pattern and include the last one, so `1 + max = p.length`).
Everything lives in `namespace Pm.Anch`.
-/
import PmVerif.Proofs.AnchRun
import PmVerif.Props.TDom
namespace Pm
namespace Anch
open Automaton

/-! ### `AccDetK` and `AccDet` -/

section Acc
variable {K P : Type} {σ : Constraint K P → Bool} {A : Automaton K P}

theorem accDet_of_accDetK {s pid : Nat} {ks : List K} (hacc : AccDetK σ A s pid ks) :
    AccDet σ A s pid := by
  induction hacc with
  | here hw hm => exact .here hw (List.mem_map.mpr ⟨_, hm, rfl⟩)
  | con hw ht he hcw hs _ ih => exact .con hw ht he hcw hs ih
  | eps hw ht he hd _ ih => exact .eps hw ht he hd ih

theorem accDetK_of_accDet {s pid : Nat} (hacc : AccDet σ A s pid) :
    ∃ ks, AccDetK σ A s pid ks := by
  induction hacc with
  | here hw hm =>
    obtain ⟨⟨pid', ks⟩, hm', rfl⟩ := List.mem_map.mp hm
    exact ⟨ks, .here hw hm'⟩
  | con hw ht he hcw hs _ ih =>
    obtain ⟨ks, h⟩ := ih
    exact ⟨ks, .con hw ht he hcw hs h⟩
  | eps hw ht he hd _ ih =>
    obtain ⟨ks, h⟩ := ih
    exact ⟨ks, .eps hw ht he hd h⟩

/-- The key list of an `AccDetK` derivation is recorded at some live state. -/
theorem accDetK_recorded {s pid : Nat} {ks : List K} (hacc : AccDetK σ A s pid ks) :
    ∃ s' w', A.g.weight? s' = some w' ∧ (pid, ks) ∈ w'.matches_ := by
  induction hacc with
  | here hw hm => exact ⟨_, _, hw, hm⟩
  | con _ _ _ _ _ _ ih => exact ih
  | eps _ _ _ _ _ ih => exact ih

end Acc

/-! ### `missing_bindings` of the string scheme -/

theorem mbLoop_str (known : List Nat) (k n : Nat) (hk : k ∉ known) :
    mbLoop strReq known (n + 4) [.enter k] [] [] =
      some (if k = 0 then [0] else if 0 ∈ known then [k] else [0, k]) := by
  by_cases hk0 : k = 0
  · subst hk0
    simp [mbLoop, strReq]
  · have hne : ¬ (0 = k) := fun e => hk0 e.symm
    by_cases h0 : 0 ∈ known
    · simp [mbLoop, strReq, hk0, h0]
    · simp [mbLoop, strReq, hk0, h0, hne]

theorem missing_str (known : List Nat) (k : Nat) :
    missingBindings strReq known k 16 =
      some (if k ∈ known then [] else if k = 0 then [0] else if 0 ∈ known then [k] else [0, k]) := by
  unfold missingBindings
  by_cases hk : k ∈ known
  · simp [hk]
  · rw [if_neg hk, if_neg hk]
    exact mbLoop_str known k 12 hk

theorem allMissingLoop_str : ∀ (ks known out : List Nat),
    ∃ res, allMissingLoop strReq 16 ks known out = some res ∧
      (∀ x ∈ res, x ∈ out ∨ x = 0 ∨ x ∈ ks) ∧ (∀ x ∈ out, x ∈ res) ∧
      (∀ k ∈ ks, k ∈ known ∨ k ∈ res) := by
  intro ks
  induction ks with
  | nil =>
    intro known out
    exact ⟨out, rfl, fun x hx => .inl hx, fun x hx => hx, fun k hk => by cases hk⟩
  | cons k ks ih =>
    intro known out
    by_cases hk : k ∈ known
    · obtain ⟨res, hres, h1, h2, h3⟩ := ih known out
      refine ⟨res, by simp [allMissingLoop, hk, hres], ?_, h2, ?_⟩
      · intro x hx
        rcases h1 x hx with h | h | h
        · exact .inl h
        · exact .inr (.inl h)
        · exact .inr (.inr (List.mem_cons_of_mem _ h))
      · intro k' hk'
        rcases List.mem_cons.mp hk' with rfl | hk'
        · exact .inl hk
        · exact h3 k' hk'
    · have hmiss := missing_str known k
      rw [if_neg hk] at hmiss
      generalize hM : (if k = 0 then [0] else if 0 ∈ known then [k] else [0, k]) = missing at hmiss
      have hMmem : ∀ x ∈ missing, x = 0 ∨ x = k := by
        intro x hx
        rw [← hM] at hx
        split at hx
        · simp at hx; exact .inl hx
        · split at hx
          · simp at hx; exact .inr hx
          · simp at hx; exact hx
      have hkM : k ∈ missing := by
        rw [← hM]
        split
        · rename_i h; simp [h]
        · split <;> simp
      obtain ⟨res, hres, h1, h2, h3⟩ := ih (known ++ missing) (out ++ missing)
      refine ⟨res, by simp [allMissingLoop, hk, hmiss, hres], ?_, ?_, ?_⟩
      · intro x hx
        rcases h1 x hx with h | h | h
        · rcases List.mem_append.mp h with h | h
          · exact .inl h
          · rcases hMmem x h with h | h
            · exact .inr (.inl h)
            · exact .inr (.inr (h ▸ List.mem_cons_self))
        · exact .inr (.inl h)
        · exact .inr (.inr (List.mem_cons_of_mem _ h))
      · intro x hx
        exact h2 x (List.mem_append_left _ hx)
      · intro k' hk'
        rcases List.mem_cons.mp hk' with rfl | hk'
        · exact .inr (h2 _ (List.mem_append_right _ hkM))
        · rcases h3 k' hk' with h | h
          · rcases List.mem_append.mp h with h | h
            · exact .inl h
            · exact .inr (h2 _ (List.mem_append_right _ h))
          · exact .inr h

/-! ### `strPatternKeys` -/

/-- One step of the fold in `strPatternKeys`. -/
def keyStep (keys : List Nat) (c : StrCons) : List Nat :=
  keys ++ (allMissingBindings strReq c.args keys 16).getD []

theorem strPatternKeys_eq (p : List CharVar) :
    strPatternKeys p = (strConstraints p).foldl keyStep [] := rfl

theorem keyStep_spec (keys : List Nat) (c : StrCons) :
    (∀ x ∈ keyStep keys c, x ∈ keys ∨ x = 0 ∨ x ∈ c.args) ∧ (∀ x ∈ keys, x ∈ keyStep keys c) ∧
      (∀ k ∈ c.args, k ∈ keyStep keys c) := by
  obtain ⟨res, hres, h1, _, h3⟩ := allMissingLoop_str c.args keys []
  have he : keyStep keys c = keys ++ res := by
    unfold keyStep allMissingBindings
    rw [hres]; rfl
  rw [he]
  refine ⟨?_, fun x hx => List.mem_append_left _ hx, ?_⟩
  · intro x hx
    rcases List.mem_append.mp hx with h | h
    · exact .inl h
    · rcases h1 x h with h | h | h
      · cases h
      · exact .inr (.inl h)
      · exact .inr (.inr h)
  · intro k hk
    rcases h3 k hk with h | h
    · exact List.mem_append_left _ h
    · exact List.mem_append_right _ h

theorem foldl_keyStep_spec : ∀ (cs : List StrCons) (keys : List Nat),
    (∀ x ∈ cs.foldl keyStep keys, x ∈ keys ∨ (x = 0 ∧ cs ≠ []) ∨ ∃ c ∈ cs, x ∈ c.args) ∧
      (∀ x ∈ keys, x ∈ cs.foldl keyStep keys) ∧
      (∀ c ∈ cs, ∀ k ∈ c.args, k ∈ cs.foldl keyStep keys) := by
  intro cs
  induction cs with
  | nil =>
    intro keys
    exact ⟨fun x hx => .inl hx, fun x hx => hx, fun c hc => by cases hc⟩
  | cons c cs ih =>
    intro keys
    obtain ⟨i1, i2, i3⟩ := ih (keyStep keys c)
    obtain ⟨s1, s2, s3⟩ := keyStep_spec keys c
    simp only [List.foldl_cons]
    refine ⟨?_, fun x hx => i2 x (s2 x hx), ?_⟩
    · intro x hx
      rcases i1 x hx with h | ⟨h, _⟩ | ⟨c', hc', h⟩
      · rcases s1 x h with h | h | h
        · exact .inl h
        · exact .inr (.inl ⟨h, by simp⟩)
        · exact .inr (.inr ⟨c, List.mem_cons_self, h⟩)
      · exact .inr (.inl ⟨h, by simp⟩)
      · exact .inr (.inr ⟨c', List.mem_cons_of_mem _ hc', h⟩)
    · intro c' hc' k hk
      rcases List.mem_cons.mp hc' with rfl | hc'
      · exact i2 k (s3 k hk)
      · exact i3 c' hc' k hk

theorem strPatternKeys_nil : strPatternKeys [] = [] := by decide

/-- Every recorded key is a position of the pattern. -/
theorem strPatternKeys_lt (p : List CharVar) : ∀ k ∈ strPatternKeys p, k < p.length := by
  intro k hk
  rw [strPatternKeys_eq] at hk
  rcases (foldl_keyStep_spec (strConstraints p) []).1 k hk with h | ⟨rfl, hne⟩ | ⟨c, hc, h⟩
  · cases h
  · cases p with
    | nil => exact absurd (by decide) hne
    | cons _ _ => simp
  · exact tdom_str_keys p c hc k h

/-- The last position is recorded. -/
theorem strPatternKeys_last (p : List CharVar) (hp : p ≠ []) : p.length - 1 ∈ strPatternKeys p := by
  obtain ⟨c, hc, hk⟩ := tdom_str_last p hp
  rw [strPatternKeys_eq]
  exact (foldl_keyStep_spec (strConstraints p) []).2.2 c hc _ hk

theorem strPatternKeys_ne (p : List CharVar) (hp : p ≠ []) : strPatternKeys p ≠ [] :=
  List.ne_nil_of_mem (strPatternKeys_last p hp)

/-- The extent of a reported match is the pattern's length. -/
theorem strPatternKeys_extent (p : List CharVar) (hp : p ≠ []) :
    1 + (strPatternKeys p).foldl max 0 = p.length := by
  have hpos : 0 < p.length := List.length_pos_iff.mpr hp
  rw [foldl_max_eq _ (p.length - 1) (strPatternKeys_last p hp)]
  · omega
  · intro k hk
    have := strPatternKeys_lt p k hk
    omega

/-! ### `strSigma` and occurrence -/

/-- Under the canonical binding of anchor `a` with the pattern's length as extent, the
traversal's evaluation of each constraint of `p` is its truth value under `strSigma h a`. -/
theorem sat_pattern (p : List CharVar) (h : List Nat) (a : Nat) :
    ∀ c ∈ strConstraints p,
      satOrFalse StrPos.get strCheck c h (.bound a p.length) = some (strSigma h a c) := by
  intro c hc
  exact sat_eq_sigma h a p.length c (fun k hk _ => tdom_str_keys p c hc k hk)
    (tdom_str_arity p c hc)

/-- All constraints of `p` are true under `strSigma h a` iff `p` occurs in `h` at `a`. -/
theorem sigma_iff_occurs (p : List CharVar) (h : List Nat) (a : Nat) :
    (∀ c ∈ strConstraints p, strSigma h a c = true) ↔ occursStr p h a = true := by
  rw [← tdom_str_sat_iff p h a p.length (Nat.le_refl _)]
  constructor
  · intro hs c hc
    rw [sat_pattern p h a c hc, hs c hc]
  · intro hs c hc
    have := hs c hc
    rw [sat_pattern p h a c hc] at this
    exact Option.some.inj this

end Anch
end Pm
