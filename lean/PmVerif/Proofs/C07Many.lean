/-
Proofs/C07Many.lean — C07 (multiplicities): the builder inputs produced by `manyInputs` carry
pairwise different pattern ids (they are positions in the pattern list).
Everything lives in `namespace Pm.C07`.
-/
import PmVerif.Model.ManyMatcher
namespace Pm
namespace C07
variable {K P Pat : Type}

theorem manyInputs_ids (convert : Pat → Option (List (Constraint K P))) (extra : Pat → List K)
    (ff : Bool) : ∀ (ps : List Pat) (i : Nat) (inputs : List (Nat × List (Constraint K P) × List K)),
    manyInputs convert extra ff ps i = some inputs →
    (inputs.map (·.1)).Nodup ∧ ∀ j ∈ inputs.map (·.1), i ≤ j
  | [], i, inputs, h => by
    simp only [manyInputs, Option.some.injEq] at h
    subst h
    exact ⟨List.nodup_nil, fun _ hj => by cases hj⟩
  | p :: ps, i, inputs, h => by
    unfold manyInputs at h
    split at h
    · split at h
      · cases h
      · obtain ⟨h1, h2⟩ := manyInputs_ids convert extra ff ps (i + 1) inputs h
        exact ⟨h1, fun j hj => Nat.le_of_succ_le (h2 j hj)⟩
    · split at h
      · cases h
      · rename_i cs _ rest hrest
        cases h
        obtain ⟨h1, h2⟩ := manyInputs_ids convert extra ff ps (i + 1) rest hrest
        rw [List.map_cons, List.nodup_cons]
        refine ⟨⟨fun hm => ?_, h1⟩, fun j hj => ?_⟩
        · have := h2 i hm
          omega
        · rcases List.mem_cons.1 hj with rfl | hj
          · exact Nat.le_refl _
          · exact Nat.le_of_succ_le (h2 j hj)

end C07
end Pm
