/-
Proofs/PGFinal.lean — helpers for `Props/C01PGFinal.lean`: the end-to-end port-graph statements of
`Props/C01PG.lean` re-composed on `Props/PGProg.lean` (every built single-root automaton satisfies
`AnchG.StateOK`) instead of the per-program check `pgProgramOK`.

* `iso_ne` — the graph form of "not the isolated-root vector" (`edgeCount = 0 ∨ allLinks root ≠ []`)
  gives the conversion form used by `pgProg_built_many`;
* `iso_of_wf` — well-formed connected patterns with a live root satisfy it;
* `stateOK_rooted` — `pgProg_built_many` for patterns given as `(graph, root)`;
* `run_of_find`, `nodup_rooted` — every reported binding lists each key at most once;
* `converts_of_built` — a successful build with `PatternFallback::Fail` converted every pattern;
* `sr_at` — the list-level single-root hypothesis at position `i`.
Everything lives in `namespace Pm.PGFinal`.
-/
import PmVerif.Props.C01PG
import PmVerif.Props.PGProg
import PmVerif.Props.C06
namespace Pm
namespace PGFinal
open Automaton AnchG PGDom PGComp

/-- The graph form of the hypothesis `hiso` gives the conversion form. -/
theorem iso_ne {pats : List (PortGraph × Nat)}
    (hiso : ∀ p ∈ pats, p.1.edgeCount = 0 ∨ p.1.allLinks p.2 ≠ []) :
    ∀ p ∈ pats, pgConstraints p.1 p.2 ≠ some PGProg.pgIsolatedVec := by
  intro p hp hc
  obtain ⟨h1, h2⟩ := (PGProg.pgConstraints_isolated_iff p.1 p.2).1 hc
  rcases hiso p hp with h3 | h3
  · exact h1 h3
  · exact h3 h2

/-- Well-formed connected patterns rooted at a live node never have an isolated root in a graph
with links. -/
theorem iso_of_wf {pats : List (PortGraph × Nat)}
    (hwf : ∀ p ∈ pats, p.1.LinksOK ∧ pgConnected p.1 = true ∧ (p.1.node? p.2).isSome = true) :
    ∀ p ∈ pats, p.1.edgeCount = 0 ∨ p.1.allLinks p.2 ≠ [] :=
  fun p hp => pg_root_has_link_of_connected p.1 p.2 (hwf p hp).1 (hwf p hp).2.1 (hwf p hp).2.2

/-- The list-level single-root hypothesis at position `i`. -/
theorem sr_at {pats : List (PortGraph × Nat)}
    (hsr : ∀ p ∈ pats, ∀ cs, pgConstraints p.1 p.2 = some cs → pgSigMultiRoot cs = false)
    {i : Nat} {g : PortGraph} {root : Nat} {cs : List PGCons} (hi : pats[i]? = some (g, root))
    (hcs : pgConstraints g root = some cs) : pgSigMultiRoot cs = false :=
  hsr (g, root) (List.mem_of_getElem? hi) cs hcs

/-- **Every built matcher over single-root `(graph, root)` patterns is an OK program**, whatever
the event log and the fuels. -/
theorem stateOK_rooted (pats : List (PortGraph × Nat)) (evs : List Ev) (fuelT fuel : Nat)
    (M : Many PGKey PGPred)
    (hsr : ∀ p ∈ pats, ∀ cs, pgConstraints p.1 p.2 = some cs → pgSigMultiRoot cs = false)
    (hiso : ∀ p ∈ pats, p.1.edgeCount = 0 ∨ p.1.allLinks p.2 ≠ [])
    (hb : manyBuild (fun p : PortGraph × Nat => pgConstraints p.1 p.2) (fun _ => ([] : List PGKey))
      (fun cs => pgTree cs fuelT) pgReq fuel true pats evs = some (.ok M)) :
    ∀ s w, M.automaton.g.weight? s = some w →
      AnchG.StateOK M.automaton (pats.map fun p => pgConstraints p.1 p.2) s w :=
  pgProg_built_many (fun p : PortGraph × Nat => pgConstraints p.1 p.2) true pats evs fuelT fuel M
    (fun p _ _ hc => ⟨p.1, p.2, hc⟩) hsr (iso_ne hiso) hb

/-- A successful `find_matches` is a successful traversal. -/
theorem run_of_find {M : Many PGKey PGPred} {h : PortGraph} {fuel' : Nat}
    {ms : List (Match PGMap)} (hf : M.findMatches pgDomain h fuel' = .ok ms) :
    ∃ seen, run pgDomain M.automaton h fuel' = .ok (ms, seen) := by
  unfold Many.findMatches at hf
  cases hrun : run pgDomain M.automaton h fuel' with
  | error e => rw [hrun] at hf; cases hf
  | ok r => rw [hrun] at hf; cases hf; exact ⟨r.2, rfl⟩

/-- Every binding reported by a built matcher lists each key at most once. -/
theorem nodup_rooted (pats : List (PortGraph × Nat)) (evs : List Ev) (fuelT fuel fuel' : Nat)
    (M : Many PGKey PGPred) (h : PortGraph) (ms : List (Match PGMap))
    (hsr : ∀ p ∈ pats, ∀ cs, pgConstraints p.1 p.2 = some cs → pgSigMultiRoot cs = false)
    (hiso : ∀ p ∈ pats, p.1.edgeCount = 0 ∨ p.1.allLinks p.2 ≠ [])
    (hb : manyBuild (fun p : PortGraph × Nat => pgConstraints p.1 p.2) (fun _ => ([] : List PGKey))
      (fun cs => pgTree cs fuelT) pgReq fuel true pats evs = some (.ok M))
    (hf : M.findMatches pgDomain h fuel' = .ok ms) (i : Nat) (m : PGMap) (hm : (i, m) ∈ ms) :
    (m.map (·.1)).Nodup := by
  obtain ⟨seen, hr⟩ := run_of_find hf
  rcases trun_pg_sound_stateOK M.automaton _ h fuel' ms seen
    (stateOK_rooted pats evs fuelT fuel M hsr hiso hb) hr i m hm with
    ⟨rfl, _⟩ | ⟨_, _, _, _, _, _, hmap⟩
  · exact List.nodup_nil
  · exact hmap.1

/-- With `PatternFallback::Fail` a build that returns anything converted every pattern. -/
theorem converts_of_built {K P Pat : Type} [DecidableEq K] [DecidableEq P]
    (convert : Pat → Option (List (Constraint K P))) (extra : Pat → List K)
    (toTree : List (Constraint K P) → Option (CTree (Constraint K P))) (req : K → List K)
    (fuel : Nat) (pats : List Pat) (evs : List Ev) (r : R (Many K P))
    (hb : manyBuild convert extra toTree req fuel true pats evs = some r) :
    ∀ p ∈ pats, ∃ cs, convert p = some cs := by
  intro p hp
  cases hc : convert p with
  | some cs => exact ⟨cs, rfl⟩
  | none =>
    have hnone := (c06_fail_iff convert extra pats 0).2 ⟨p, hp, hc⟩
    unfold manyBuild at hb
    rw [hnone] at hb
    cases hb

end PGFinal
end Pm
