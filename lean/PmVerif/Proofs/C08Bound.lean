/-
Proofs/C08Bound.lean — C08 (totality), explicit fuel bounds WITHOUT a shape hypothesis on scopes.

Generic part (any `Domain`): `bind_all` enumerates (a subset of) the cross product of the option
lists of the keys it is given, so if every option list has at most `N` entries, it produces at most
`(max 1 N) ^ |keys|` candidates (`bindAll_length_le`); hence one expansion of the traversal has at
most `(max 1 N) ^ scopeLen a · outDeg a` successors (`succ_bound_of_opts`; `scopeLen a` = the
largest scope length of a live state), and with a rank decreasing along the transitions fuel
`geom ((max 1 N) ^ scopeLen a · outDeg a) (rank root)` suffices (`run_terminates_of_opts_bound`).

Port graphs: `list_bind_options` answers with at most `pgKeyOptsBound g k` values for the key `k`
on ANY binding (`pgOpts_length_le`): one value for a bound key or a path key, the live nodes for
`root 0`, and for `root (i+1)` at most `(i+1) · pgMaxPorts g` root candidates — there are at most
`i+1` known roots when `root (i+1)` is unbound, and `find_root_candidates` emits at most one
candidate per port of a known root (`findRootCandidates_length_le`). No hypothesis on the scopes
(multi-root keys included): `pg_succ_bound_all`, `pg_run_total_all` with the explicit bound
`pgRunBoundAll A g`.

Table domain: `THost.opts` answers with at most `tValsTotal h` values (all values of all rules).
Everything lives in `namespace Pm.C08B`.
-/
import PmVerif.Proofs.C08PGRun
namespace Pm
namespace C08B
open Automaton C08
set_option linter.unusedSectionVars false

/-! ### generic: how many candidates `bind_all` produces -/

section Generic
variable {K V P H M : Type}

theorem flatMap_length_le {α β : Type} (f : α → List β) (b : Nat) :
    ∀ l : List α, (∀ x ∈ l, (f x).length ≤ b) → (l.flatMap f).length ≤ l.length * b := by
  intro l
  induction l with
  | nil => intro _; simp
  | cons x l ih =>
    intro hl
    have h1 := hl x List.mem_cons_self
    have h2 := ih fun y hy => hl y (List.mem_cons_of_mem _ hy)
    rw [List.flatMap_cons, List.length_append, List.length_cons, Nat.succ_mul]
    omega

/-- One key, one candidate: at most `max 1 |options|` extensions. -/
theorem extend_length_le (ops : MapOps K V M) (opts : H → K → M → List V) (h : H) (inc : Bool)
    (k : K) (m : M) {N : Nat} (hN : (opts h k m).length ≤ N) :
    (extend ops opts h inc k m).length ≤ max 1 N := by
  unfold extend
  split
  · exact Nat.le_max_left _ _
  · simp only
    split
    · exact Nat.le_max_left _ _
    · exact Nat.le_trans (List.length_filterMap_le _ _) (Nat.le_trans hN (Nat.le_max_right _ _))

/-- The loop of `bind_all` multiplies the number of candidates by at most `max 1 N` per key, when
every option list offered for a key of the list to a binding satisfying the (bind-closed)
invariant `I` has at most `N` entries. -/
theorem bindAllLoop_length_le (ops : MapOps K V M) (opts : H → K → M → List V) (h : H)
    (inc : Bool) (I : M → Prop) (N : Nat)
    (hb : ∀ m k v m', I m → v ∈ opts h k m → ops.bind m k v = .ok m' → I m') :
    ∀ (ks : List K) (cands : List M), (∀ k ∈ ks, ∀ m, I m → (opts h k m).length ≤ N) →
      (∀ m ∈ cands, I m) →
      (bindAllLoop ops opts h inc ks cands).length ≤ cands.length * (max 1 N) ^ ks.length := by
  intro ks
  induction ks with
  | nil => intro cands _ _; simp [bindAllLoop]
  | cons k ks ih =>
    intro cands hks hc
    have hI : ∀ x ∈ cands.flatMap (extend ops opts h inc k), I x := by
      intro x hx
      obtain ⟨m, hm, hxm⟩ := List.mem_flatMap.mp hx
      exact extend_inv ops opts h inc I hb k m (hc m hm) x hxm
    have h1 := ih (cands.flatMap (extend ops opts h inc k))
      (fun k' hk' => hks k' (List.mem_cons_of_mem _ hk')) hI
    have h2 : (cands.flatMap (extend ops opts h inc k)).length ≤ cands.length * max 1 N :=
      flatMap_length_le _ _ cands fun m hm =>
        extend_length_le ops opts h inc k m (hks k List.mem_cons_self m (hc m hm))
    show (bindAllLoop ops opts h inc ks (cands.flatMap (extend ops opts h inc k))).length ≤ _
    refine Nat.le_trans h1 ?_
    rw [List.length_cons, Nat.pow_succ, Nat.mul_comm (max 1 N ^ ks.length), ← Nat.mul_assoc]
    exact Nat.mul_le_mul_right _ h2

/-- **`bind_all` produces at most `(max 1 N) ^ |keys|` candidates.** -/
theorem bindAll_length_le (ops : MapOps K V M) (opts : H → K → M → List V) (h : H)
    (inc : Bool) (I : M → Prop) (N : Nat)
    (hb : ∀ m k v m', I m → v ∈ opts h k m → ops.bind m k v = .ok m' → I m')
    (m : M) (hm : I m) (ks : List K) (hks : ∀ k ∈ ks, ∀ m, I m → (opts h k m).length ≤ N) :
    (bindAll ops opts h m ks inc).length ≤ (max 1 N) ^ ks.length := by
  have := bindAllLoop_length_le ops opts h inc I N hb ks [m] hks
    (fun x hx => (List.mem_singleton.mp hx) ▸ hm)
  simpa [bindAll] using this

/-! ### the largest scope of an automaton -/

/-- The largest scope length of a live state (explicit function of the automaton). -/
def scopeLen (a : Automaton K P) : Nat :=
  (a.g.nodes.map fun o => match o with
    | some nd => nd.w.scope.length
    | none => 0).foldl max 0

theorem mem_nodes_of_weight {a : Automaton K P} {s : Nat} {w : AState K}
    (hw : a.g.weight? s = some w) : ∃ nd, some nd ∈ a.g.nodes ∧ nd.w = w := by
  unfold SGraph.weight? SGraph.node? at hw
  cases hn : a.g.nodes[s]? with
  | none => rw [hn] at hw; cases hw
  | some o =>
    rw [hn] at hw
    cases o with
    | none => cases hw
    | some nd =>
      change some nd.w = some w at hw
      cases hw
      exact ⟨nd, List.mem_of_getElem? hn, rfl⟩

theorem le_scopeLen {a : Automaton K P} {s : Nat} {w : AState K}
    (hw : a.g.weight? s = some w) : w.scope.length ≤ scopeLen a := by
  unfold scopeLen
  apply Anch.mem_le_foldl_max
  obtain ⟨nd, hnd, rfl⟩ := mem_nodes_of_weight hw
  exact List.mem_map.mpr ⟨some nd, hnd, rfl⟩

/-- The supremum of `f` over the keys of all scopes of the automaton. -/
def scopeSup (a : Automaton K P) (f : K → Nat) : Nat :=
  ((a.g.nodes.flatMap fun o => match o with
    | some nd => nd.w.scope
    | none => []).map f).foldl max 0

theorem le_scopeSup {a : Automaton K P} (f : K → Nat) {s : Nat} {w : AState K}
    (hw : a.g.weight? s = some w) {k : K} (hk : k ∈ w.scope) : f k ≤ scopeSup a f := by
  unfold scopeSup
  apply Anch.mem_le_foldl_max
  obtain ⟨nd, hnd, rfl⟩ := mem_nodes_of_weight hw
  exact List.mem_map.mpr ⟨k, List.mem_flatMap.mpr ⟨some nd, hnd, hk⟩, rfl⟩

/-! ### successors of one expansion; termination -/

variable [DecidableEq K] [DecidableEq V] [DecidableEq P]
variable {D : Domain K V P H M} {a : Automaton K P} {h : H} {I : M → Prop}

/-- The candidates of one expansion: at most `(max 1 N) ^ |scope|`. -/
theorem stepCands_length_le
    (hb : ∀ m k v m', I m → v ∈ D.opts h k m → D.map.bind m k v = .ok m' → I m')
    (N : Nat) {w : AState K}
    (hopts : ∀ k ∈ w.scope, ∀ m, I m → (D.opts h k m).length ≤ N) {m : M} (hm : I m)
    {cands : List M} (hc : stepCands D h w m = .ok cands) :
    cands.length ≤ (max 1 N) ^ w.scope.length := by
  unfold stepCands at hc
  rw [retainAll_length hc]
  exact bindAll_length_le D.map D.opts h true I N hb m hm w.scope hopts

/-- **Successor bound from a bound on option lists**: no hypothesis on the shape of scopes. -/
theorem succ_bound_of_opts
    (hb : ∀ m k v m', I m → v ∈ D.opts h k m → D.map.bind m k v = .ok m' → I m') (N : Nat)
    (hopts : ∀ s w, a.g.weight? s = some w → ∀ k ∈ w.scope, ∀ m, I m →
      (D.opts h k m).length ≤ N)
    {s : Nat} {m : M} (hm : I m) {nexts : List (Nat × M)}
    (hn : nextLegalStates D a h s m = .ok nexts) :
    nexts.length ≤ (max 1 N) ^ scopeLen a * outDeg a := by
  obtain ⟨w, cands, hw, hc, hlen⟩ := nextLegalStates_length hn
  have h1 := stepCands_length_le hb N (hopts s w hw) hm hc
  have h2 : (max 1 N) ^ w.scope.length ≤ (max 1 N) ^ scopeLen a :=
    Nat.pow_le_pow_right (Nat.le_max_left _ _) (le_scopeLen hw)
  exact Nat.le_trans hlen (Nat.mul_le_mul (Nat.le_trans h1 h2) (le_outDeg hw))

/-- **Termination from a bound on option lists.** -/
theorem run_terminates_of_opts_bound (S : RunSafe D a h I) (rank : Nat → Nat)
    (hrank : ∀ t e, a.g.edge? t = some e → rank e.dst < rank e.src) (N : Nat)
    (hopts : ∀ s w, a.g.weight? s = some w → ∀ k ∈ w.scope, ∀ m, I m →
      (D.opts h k m).length ≤ N)
    (fuel : Nat) (hf : geom ((max 1 N) ^ scopeLen a * outDeg a) (rank a.root) ≤ fuel) :
    Res a (run D a h fuel) :=
  run_terminates S rank hrank _ (fun _ _ _ hconf hn => succ_bound_of_opts S.bind N hopts hconf.2 hn)
    fuel hf

end Generic

/-! ### port graphs: how many values `list_bind_options` offers -/

section PG

/-- The largest number of ports of a node slot. -/
def pgMaxPorts (g : PortGraph) : Nat :=
  (g.nodes.map fun o => match o with
    | some nd => nd.nin + nd.nout
    | none => 0).foldl max 0

theorem allPortOffsets_length_le (g : PortGraph) (n : Nat) :
    (g.allPortOffsets n).length ≤ pgMaxPorts g := by
  unfold PortGraph.allPortOffsets PortGraph.node?
  cases hn : g.nodes[n]? with
  | none => simp
  | some o =>
    cases o with
    | none => simp
    | some nd =>
      simp only [Option.join_some, List.length_append, List.length_map, List.length_range]
      unfold pgMaxPorts
      apply Anch.mem_le_foldl_max
      exact List.mem_map.mpr ⟨some nd, List.mem_of_getElem? hn, rfl⟩

/-- The known roots `root 0, root 1, …` stop before the first unbound root key. -/
theorem collect_length_le {m : PGMap} {i : Nat} (hn : alGet m (.root i) = none) :
    ∀ (fuel j : Nat), j ≤ i → (findRootCandidates.collect m fuel j).length ≤ i - j := by
  intro fuel
  induction fuel with
  | zero => intro j _; simp [findRootCandidates.collect]
  | succ f ih =>
    intro j hj
    unfold findRootCandidates.collect
    cases hg : alGet m (.root j) with
    | none => simp
    | some n =>
      have hne : j ≠ i := by
        rintro rfl
        rw [hn] at hg; cases hg
      have := ih (j + 1) (by omega)
      simp only [List.length_cons]
      omega

theorem foldl_fst_length_le {α β γ : Type} (f : List α × β → γ → List α × β)
    (hf : ∀ st c, (f st c).1.length ≤ st.1.length + 1) :
    ∀ (l : List γ) (st : List α × β), (l.foldl f st).1.length ≤ st.1.length + l.length := by
  intro l
  induction l with
  | nil => intro st; simp
  | cons c l ih =>
    intro st
    rw [List.foldl_cons, List.length_cons]
    have := ih (f st c)
    have := hf st c
    omega

theorem foldl_trees_le {α β γ : Type} (f : List (List α) × β → γ → List (List α) × β) (B : Nat)
    (hf : ∀ acc c, ∃ nbs, (f acc c).1 = acc.1 ++ [nbs] ∧ nbs.length ≤ B) :
    ∀ (l : List γ) (acc : List (List α) × β), (∀ t ∈ acc.1, t.length ≤ B) →
      (l.foldl f acc).1.length = acc.1.length + l.length ∧
        ∀ t ∈ (l.foldl f acc).1, t.length ≤ B := by
  intro l
  induction l with
  | nil => intro acc hacc; exact ⟨by simp, hacc⟩
  | cons c l ih =>
    intro acc hacc
    rw [List.foldl_cons]
    obtain ⟨nbs, h1, h2⟩ := hf acc c
    have hacc' : ∀ t ∈ (f acc c).1, t.length ≤ B := by
      intro t ht
      rw [h1] at ht
      rcases List.mem_append.mp ht with ht | ht
      · exact hacc t ht
      · rw [List.mem_singleton.mp ht]; exact h2
    obtain ⟨h3, h4⟩ := ih (f acc c) hacc'
    refine ⟨?_, h4⟩
    rw [h3, h1, List.length_append, List.length_cons, List.length_cons, List.length_nil]
    omega

theorem foldl_fst_length_le' {α β γ : Type} {f : List α × β → γ → List α × β}
    {l : List γ} {st r : List α × β} (heq : l.foldl f st = r)
    (hf : ∀ st c, (f st c).1.length ≤ st.1.length + 1) :
    r.1.length ≤ st.1.length + l.length := heq ▸ foldl_fst_length_le f hf l st

theorem foldl_trees_le' {α β γ : Type} {f : List (List α) × β → γ → List (List α) × β} {B : Nat}
    {l : List γ} {acc r : List (List α) × β} (heq : l.foldl f acc = r)
    (hf : ∀ acc c, ∃ nbs, (f acc c).1 = acc.1 ++ [nbs] ∧ nbs.length ≤ B)
    (hacc : ∀ t ∈ acc.1, t.length ≤ B) :
    r.1.length = acc.1.length + l.length ∧ ∀ t ∈ r.1, t.length ≤ B :=
  heq ▸ foldl_trees_le f B hf l acc hacc

/-- `find_root_candidates` emits at most one candidate per port of a known root, and there are at
most `i` known roots while `root i` is unbound. -/
theorem findRootCandidates_length_le (g : PortGraph) (m : PGMap) (i : Nat)
    (hn : alGet m (.root i) = none) (cs : List Nat) (h : findRootCandidates g m = some cs) :
    cs.length ≤ i * pgMaxPorts g := by
  unfold findRootCandidates at h
  extract_lets knownRoots rootsInv knownNodes at h
  have hk : knownRoots.length ≤ i := by
    have := collect_length_le hn (m.length + 1) 0 (Nat.zero_le _)
    simpa using this
  split at h
  · cases h
  · rename_i free _
    split at h
    rename_i trees sn heq
    simp only [Option.some.injEq] at h
    subst h
    have key := foldl_trees_le' (B := pgMaxPorts g) heq ?_ (fun t ht => by cases ht)
    · obtain ⟨k1, k2⟩ := key
      refine Nat.le_trans (flatMap_length_le _ (pgMaxPorts g) trees fun nbs hnbs => ?_) ?_
      · exact Nat.le_trans (List.length_filterMap_le _ _) (k2 nbs hnbs)
      · apply Nat.mul_le_mul_right
        simp only at k1
        rw [k1]
        simp only [List.length_nil, List.length_zip, List.length_range, Nat.zero_add, Nat.min_self]
        exact hk
    · intro acc ni
      simp only
      generalize (if acc.snd.contains ni.snd = true then acc.snd else acc.snd ++ [ni.snd]) = seen0
      refine ⟨_, rfl, ?_⟩
      refine Nat.le_trans (foldl_fst_length_le _ ?_ _ _) ?_
      · intro st port
        split <;> simp
      · simp only [List.length_nil, Nat.zero_add]
        exact allPortOffsets_length_le g ni.1

/-- How many values `list_bind_options` can offer for a key (on any binding). -/
def pgKeyOptsBound (g : PortGraph) : PGKey → Nat
  | .root 0 => g.nodesIter.length
  | .root (i + 1) => (i + 1) * pgMaxPorts g
  | .along _ _ _ => 1

/-- **Every answer of `list_bind_options` is short**: any host, any key (multi-root keys
included), any binding. -/
theorem pgOpts_length_le (g : PortGraph) (k : PGKey) (m : PGMap) :
    (pgOpts g k m).length ≤ max 1 (pgKeyOptsBound g k) := by
  unfold pgOpts pgOptsP
  split
  · exact Nat.le_max_left _ _
  · rename_i hg
    split
    · exact Nat.le_max_right _ _
    · rename_i i
      split
      · simp
      · cases hf : findRootCandidates g m with
        | none => simp
        | some cs =>
          exact Nat.le_trans (findRootCandidates_length_le g m (i + 1) hg cs hf)
            (Nat.le_max_right _ _)
    · split
      · simp
      · refine Nat.le_trans ?_ (Nat.le_max_left _ _)
        simp only [Option.getD_some]
        generalize (walkPathNodes g _ _)[(_ : Nat)]? = o
        cases o <;> simp

/-- The largest option-list length over the scope keys of the automaton (at least one). -/
def pgOptsBound (A : Automaton PGKey PGPred) (g : PortGraph) : Nat :=
  max 1 (scopeSup A (pgKeyOptsBound g))

/-- The explicit fuel bound of the port-graph traversal, ANY scopes: `geom b n` with
`b = pgOptsBound A g ^ scopeLen A · outDeg A` and `n` the number of node slots. -/
def pgRunBoundAll (A : Automaton PGKey PGPred) (g : PortGraph) : Nat :=
  geom (pgOptsBound A g ^ scopeLen A * outDeg A) A.g.nodes.length

theorem pg_opts_scope {A : Automaton PGKey PGPred} (g : PortGraph) :
    ∀ s w, A.g.weight? s = some w → ∀ k ∈ w.scope, ∀ m : PGMap, True →
      (pgDomain.opts g k m).length ≤ pgOptsBound A g := by
  intro s w hw k hk m _
  refine Nat.le_trans (pgOpts_length_le g k m) ?_
  have := le_scopeSup (pgKeyOptsBound g) hw hk
  unfold pgOptsBound
  omega

theorem pgOptsBound_pos (A : Automaton PGKey PGPred) (g : PortGraph) : 1 ≤ pgOptsBound A g :=
  Nat.le_max_left _ _

/-- **The successor bound for port graphs, ANY scopes** (multi-root keys included), any automaton,
any host value, any binding. -/
theorem pg_succ_bound_all {A : Automaton PGKey PGPred} {g : PortGraph} {s : Nat} {m : PGMap}
    {nexts : List (Nat × PGMap)} (hn : nextLegalStates pgDomain A g s m = .ok nexts) :
    nexts.length ≤ pgOptsBound A g ^ scopeLen A * outDeg A := by
  have := succ_bound_of_opts (D := pgDomain) (a := A) (h := g) (I := fun _ => True)
    (fun _ _ _ _ _ _ _ => trivial) (pgOptsBound A g) (pg_opts_scope g) trivial hn
  rwa [Nat.max_eq_right (pgOptsBound_pos A g)] at this

/-- Port graphs: with an acyclic graph, fuel `pgRunBoundAll A g` suffices — no hypothesis on the
scopes. -/
theorem pg_run_total_all {A : Automaton PGKey PGPred} (g : PortGraph) (ok : OrdersOK A)
    (hroot : ∃ w, A.g.weight? A.root = some w) (har : C08PG.ArityOK A)
    (rank : Nat → Nat) (hle : ∀ s, rank s ≤ A.g.nodes.length)
    (hrank : ∀ t e, A.g.edge? t = some e → rank e.dst < rank e.src)
    (fuel : Nat) (hf : pgRunBoundAll A g ≤ fuel) : Res A (run pgDomain A g fuel) := by
  apply run_terminates (C08PG.pgSafe g ok hroot har) rank hrank
    (pgOptsBound A g ^ scopeLen A * outDeg A) (fun s m nexts _ hn => pg_succ_bound_all hn) fuel
  exact Nat.le_trans (geom_mono _ (hle A.root)) hf

/-- On automata with single-root scopes the general option bound is the one of
`C08PG.pgRunBound`: `max 1 |live host nodes|`. -/
theorem pgOptsBound_sr {A : Automaton PGKey PGPred} (hsr : C08PG.ScopeSR A) (g : PortGraph) :
    pgOptsBound A g ≤ max 1 g.nodesIter.length := by
  unfold pgOptsBound scopeSup
  apply Nat.max_le.mpr
  refine ⟨Nat.le_max_left _ _, ?_⟩
  apply Anch.foldl_max_le _ _ _ (Nat.zero_le _)
  intro x hx
  obtain ⟨k, hk, rfl⟩ := List.mem_map.mp hx
  obtain ⟨o, ho, hko⟩ := List.mem_flatMap.mp hk
  cases o with
  | none => cases hko
  | some nd =>
    obtain ⟨s, hs⟩ := List.getElem?_of_mem ho
    have hw : A.g.weight? s = some nd.w := by
      unfold SGraph.weight? SGraph.node?
      rw [hs]; rfl
    rcases hsr s nd.w hw k hko with rfl | ⟨p, l, rfl⟩
    · exact Nat.le_max_right _ _
    · exact Nat.le_max_left _ _

end PG

end C08B
end Pm
