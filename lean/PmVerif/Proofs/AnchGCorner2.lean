/-
Proofs/AnchGCorner2.lean — the port-graph decomposition `pgTree` only produces edge constraints
that are not "corner" constraints (`pgNoCorner`, Proofs/AnchGDefs.lean) when its input contains
none: in the transitive-mutex branch the edge constraints are input constraints, in the powerset
branch they are conditioned forms `pgCond c S = some c'` of input constraints, and
`PGPredicate::conditioned` returns either `c` itself or an `isNotEqual` constraint with at least
two keys. Everything lives in `namespace Pm.AnchG`.
-/
import PmVerif.Proofs.AnchGDefs
import PmVerif.Proofs.AnchGCorner1
import PmVerif.Proofs.StrProgTree
import PmVerif.Proofs.PGLemmas
namespace Pm
namespace AnchG
open CTree

/-! ### edges of `with_powerset` trees -/

section Powerset
variable {C : Type}

/-- `get_or_add_child` only adds an edge carrying the given constraint (no well-formedness
needed). -/
theorem goc_children_sub [DecidableEq C] (t : CTree C) (n : Nat) (c : C) (m : Nat) (c₂ : C)
    (k₂ : Nat) (h : (c₂, k₂) ∈ (t.getOrAddChild n c).1.childrenAt m) :
    (c₂, k₂) ∈ t.childrenAt m ∨ c₂ = c := by
  unfold getOrAddChild at h
  split at h
  · exact Or.inl h
  · simp only at h
    rw [childrenAt_modifyNode] at h
    split at h
    · have hpush := childrenAt_push t t.makeDet m
      unfold childrenAt at hpush
      cases hnd : (t.nodes ++ [(⟨[], []⟩ : TreeNode C)])[m]? with
      | none => simp [hnd] at h
      | some nd =>
        simp only [hnd, Option.map_some, Option.getD_some] at h hpush
        rcases List.mem_append.1 h with h1 | h1
        · left
          unfold childrenAt
          rw [← hpush]
          exact h1
        · right
          have := List.mem_singleton.1 h1
          exact congrArg Prod.fst this
    · rw [childrenAt_push] at h
      exact Or.inl h

/-- Every edge constraint of a tree returned by `with_powerset` is the conditioned form of one of
the input constraints. -/
theorem withPowerset_edges [DecidableEq C] {cond : C → List C → Option C} {cs : List (C × Nat)}
    {fuel : Nat} {t : CTree C} (h : withPowerset cond cs fuel = some t) :
    ∀ n c' n', (c', n') ∈ t.childrenAt n → ∃ c ci S, (c, ci) ∈ cs ∧ cond c S = some c' := by
  unfold withPowerset at h
  split at h
  · cases h
    intro n c' n' hm
    cases n <;> simp [new, childrenAt] at hm
  · exact powersetLoop_induct cond cs
      (fun _ t => ∀ n c' n', (c', n') ∈ t.childrenAt n →
        ∃ c ci S, (c, ci) ∈ cs ∧ cond c S = some c')
      (fun it q t c ci hinv _ _ n c' n' hm => by
        rw [childrenAt_addLabel] at hm
        exact hinv n c' n' hm)
      (fun it q t hinv _ => hinv)
      (fun it q t c ci c' hinv hget hc n c₂ n' hm => by
        rw [childrenAt_addLabel] at hm
        rcases goc_children_sub _ _ _ _ _ _ hm with h1 | rfl
        · exact hinv n c₂ n' h1
        · exact ⟨c, ci, it.satisfied, List.mem_of_getElem? hget, hc⟩)
      fuel _ _ t (by
        intro n c' n' hm
        cases n <;> simp [new, childrenAt] at hm) h

end Powerset

/-! ### `PGPredicate::conditioned` never returns a corner constraint -/

theorem pgCond_noCorner {c c' : PGCons} {S : List PGCons} (h : pgCond c S = some c')
    (hc : pgNoCorner c = true) : pgNoCorner c' = true := by
  unfold pgCond at h
  split at h
  · next n first others hp ha =>
    simp only at h
    split at h
    · cases h
    · next hne =>
      cases h
      generalize (List.foldl _ _ S : List PGKey) = keys at hne
      cases keys with
      | nil => exact absurd rfl hne
      | cons k ks => rfl
  · cases h
    exact hc

/-! ### `pgTree` -/

theorem treeEdgesQ_pgTree (fuel : Nat) :
    TreeEdgesQ (fun c => pgNoCorner c = true) (fun cs => pgTree cs fuel) := by
  intro cs tree h hQ n c n' hmem
  replace h : pgTree cs fuel = some tree := h
  replace hQ : ∀ c ∈ cs, pgNoCorner c = true := hQ
  show pgNoCorner c = true
  cases hs : sortWithIndices pgConsLe cs with
  | nil =>
    have : cs = [] := Classical.byContradiction fun hne => sortWithIndices_ne_nil _ hne hs
    subst this
    cases h
    cases n <;> simp [CTree.new, childrenAt] at hmem
  | cons x xs =>
    have hin : ∀ y ∈ sortWithIndices pgConsLe cs, y.1 ∈ cs := fun y hy =>
      List.mem_of_getElem? ((mem_sortWithIndices pgConsLe cs y.1 y.2).1 hy)
    rcases pgTree_cons_cases (fuel := fuel) hs with ⟨-, ht⟩ | ⟨-, ht⟩
    · rw [ht] at h
      obtain ⟨t0, ht0, rfl⟩ := Option.map_eq_some_iff.1 h
      have hmem' : (c, n') ∈ t0.childrenAt n := hmem
      obtain ⟨c0, ci, S, hc0, hcond⟩ := withPowerset_edges ht0 n c n' hmem'
      exact pgCond_noCorner hcond (hQ c0 (hin _ (pgKept_sub cs x.1 _ hc0)))
    · rw [ht] at h
      cases h
      obtain ⟨first, fi⟩ := x
      have hmem' : (c, n') ∈ (withChildren
          (((first, fi) :: xs.filter (fun ci => pgMutex first ci.1)).map
            fun ci => (ci.1, [ci.2]))).childrenAt n := hmem
      obtain ⟨-, ch, hch, rfl⟩ := StrProg.chRoot_withChildren _ n c n' hmem'
      obtain ⟨ci, hci, rfl⟩ := List.mem_map.1 hch
      refine hQ _ (hin ci ?_)
      rw [hs]
      rcases List.mem_cons.1 hci with rfl | hci
      · exact List.mem_cons_self ..
      · exact List.mem_cons_of_mem _ (List.mem_filter.1 hci).1

/-- No live edge of a successfully built port-graph automaton carries a corner constraint, if no
pattern constraint is one. -/
theorem build_noCorner {σ : PGCons → Bool} {fuel fuel' : Nat}
    (hT : Automaton.TreeOK (fun cs => pgTree cs fuel) σ)
    {patterns : List (Nat × List PGCons × List PGKey)} {evs : List Ev}
    {A : Automaton PGKey PGPred}
    (h : Automaton.build (fun cs => pgTree cs fuel) pgReq fuel' patterns evs = .ok A)
    (hp : ∀ p ∈ patterns, ∀ c ∈ p.2.1, pgNoCorner c = true) :
    ∀ t e c, A.g.edge? t = some e → e.w = some c → pgNoCorner c = true :=
  build_edgesQ (Q := fun c => pgNoCorner c = true) hT (treeEdgesQ_pgTree fuel) h hp

end AnchG
end Pm
