/-
Proofs/C09ReachMain.lean — `HasIn` (Proofs/C09ReachCore.lean) through `add_pattern`, one iteration
of the main loop, the main loop, `populate_scopes` and `build`; and from `HasIn` plus a rank
function (acyclicity) to reachability of every live state from the root.
-/
import PmVerif.Proofs.C09ReachTree
namespace Pm
namespace C09R
open Automaton
variable {K P : Type}

/-! ### from the local invariant to reachability -/

/-- In an acyclic graph in which every live state other than the root has an incoming live
transition, every live state is reachable from the root. -/
theorem path_of_hasIn {a : Automaton K P} (inv : Inv a) (H : HasIn a) (rank : Nat → Nat)
    (hr : ∀ t e, a.g.edge? t = some e → rank e.src < rank e.dst) :
    ∀ s, a.Live s → Path a a.root s := by
  have key : ∀ n s, rank s ≤ n → a.Live s → Path a a.root s := by
    intro n
    induction n with
    | zero =>
      intro s hs hl
      by_cases hsr : s = a.root
      · rw [hsr]; exact Path.refl _
      · obtain ⟨t, e, he, hd⟩ := H s hl hsr
        have := hr t e he
        rw [hd] at this
        omega
    | succ n ih =>
      intro s hs hl
      by_cases hsr : s = a.root
      · rw [hsr]; exact Path.refl _
      · obtain ⟨t, e, he, hd⟩ := H s hl hsr
        have hlt := hr t e he
        rw [hd] at hlt
        have hp := ih e.src (by omega) (inv.ok.src_live he)
        exact Path.step hp ((c09b_mem_outEdges inv.wf).2 ⟨e, he, rfl, hd⟩)
  intro s hl
  exact key (rank s) s (Nat.le_refl _) hl

/-- Conversely reachability gives the local invariant (on a structurally well-formed graph). -/
theorem hasIn_of_path {a : Automaton K P} (inv : Inv a)
    (h : ∀ s, a.Live s → Path a a.root s) : HasIn a := by
  intro x hx hxr
  have hp := h x hx
  cases hp with
  | refl => exact absurd rfl hxr
  | step _ ht =>
    obtain ⟨e, he, _, hd⟩ := (c09b_mem_outEdges inv.wf).1 ht
    exact ⟨_, e, he, hd⟩

/-! ### `add_pattern` -/

theorem new_live {x : Nat} (h : (new : Automaton K P).Live x) : x = 0 := by
  cases x with
  | zero => rfl
  | succ n =>
    exact absurd h (by
      simp [Live, new, SGraph.addNode, SGraph.empty, SGraph.containsNode, SGraph.node?])

theorem hasIn_new : HasIn (new : Automaton K P) := by
  intro x hx hxr
  exact absurd (new_live hx) hxr

section Builder
variable [DecidableEq K] [DecidableEq P]
set_option linter.unusedSectionVars false

theorem hasIn_addPatternLoop {req : K → List K} {fuel : Nat} :
    ∀ (cs : List (Constraint K P)) {a a1 : Automaton K P} {s s1 : Nat} {keys keys1 : List K},
    Inv a → a.Live s → HasIn a →
    addPatternLoop req fuel a s keys cs = .ok (a1, s1, keys1) → Inv a1 ∧ HasIn a1
  | [], a, a1, s, s1, keys, keys1, inv, _, H, h => by
    unfold addPatternLoop at h
    cases h
    exact ⟨inv, H⟩
  | c :: cs, a, a1, s, s1, keys, keys1, inv, hs, H, h => by
    unfold addPatternLoop at h
    split at h
    · cases h
    · split at h
      · cases h
      · rename_i more _ a2 s' hadd
        obtain ⟨e, sp⟩ := addTransition_spec inv hs hadd
        exact hasIn_addPatternLoop cs sp.inv sp.live_child (hasIn_addTransition sp H) h

theorem hasIn_addPattern {req : K → List K} {fuel : Nat} {a a' : Automaton K P}
    {cs : List (Constraint K P)} {pid : Nat} {extra : List K} (inv : Inv a) (rs : RootSrc a)
    (H : HasIn a) (h : addPattern req fuel a cs pid extra = .ok a') : HasIn a' := by
  unfold addPattern at h
  split at h
  · cases h
  · split at h
    · cases h
    · rename_i a1 s1 keys1 hloop
      obtain ⟨inv1, H1⟩ := hasIn_addPatternLoop cs inv rs.1 H hloop
      exact hasIn_addMatch (addMatch_spec inv1 h) H1

theorem hasIn_addPatterns {req : K → List K} {fuel : Nat} :
    ∀ (ps : List (Nat × List (Constraint K P) × List K)) {a0 a : Automaton K P},
    Inv a0 → RootSrc a0 → NoDet a0 → HasIn a0 → addPatterns req fuel a0 ps = .ok a → HasIn a
  | [], a0, a, _, _, _, H, h => by
    unfold addPatterns at h
    cases h
    exact H
  | (pid0, cs0, extra0) :: ps, a0, a, inv, rs, nd, H, h => by
    unfold addPatterns at h
    split at h
    · cases h
    · rename_i a1 hadd
      obtain ⟨inv1, _, rs1, nd1, _⟩ := addPattern_spec (σ := fun _ => true) inv rs nd hadd
      exact hasIn_addPatterns ps inv1 rs1 nd1 (hasIn_addPattern inv rs H hadd) h

/-! ### the main loop

The structural invariant `Inv` and `HasIn` are carried together; no semantic invariant (hence no
hypothesis on the tree decomposition `toTree`) is needed. -/

theorem hasIn_iteration
    {toTree : List (Constraint K P) → Option (CTree (Constraint K P))}
    {fuel : Nat} {a a' : Automaton K P} {s : Nat} {evs evs' : List Ev} (inv : Inv a)
    (H : HasIn a) (h : iteration toTree fuel a s evs = .ok (a', evs')) : Inv a' ∧ HasIn a' := by
  unfold iteration at h
  split at h
  · cases h
  · rename_i hlive
    have hs : a.Live s := by
      unfold Live; cases hx : a.g.containsNode s <;> simp_all
    split at h
    · cases h
    · rename_i a1 evs1 h1
      have p1 := (makeConstraintsUnique_spec (σ := fun _ => true) inv hs h1).1
      have H1 := hasIn_makeConstraintsUnique inv hs H h1
      split at h
      · cases h
      · rename_i a2 treeDet h2
        obtain ⟨inv2, hs2, H2⟩ := hasIn_insertConstraintTree p1.inv p1.live_s H1 h2
        split at h
        · cases h
        · rename_i a3 evs3 h3
          have p3 := (makeConstraintsUnique_spec (σ := fun _ => true) inv2 hs2 h3).1
          have H3 := hasIn_makeConstraintsUnique inv2 hs2 H2 h3
          dsimp only at h
          split at h
          · cases h
          · rename_i a4 evs4 h4
            have H4 : Inv a4 ∧ HasIn a4 := by
              split at h4
              · split at h4
                · split at h4
                  · obtain ⟨a5, hm, he⟩ := c09b_map_ok h4
                    cases he
                    exact hasIn_makeDet p3.inv H3 hm
                  · cases h4
                · split at h4
                  · cases h4; exact ⟨p3.inv, H3⟩
                  · cases h4
                · cases h4
              · cases h4; exact ⟨p3.inv, H3⟩
            split at h
            · cases h
            · rename_i a5 s' evs5 h5
              split at h
              · cases h
                exact ⟨(mergesLogged_spec (σ := fun _ => true) _ H4.1 h5).1.inv,
                  hasIn_mergesLogged _ H4.1 H4.2 h5⟩
              · cases h
            · cases h

theorem hasIn_mainLoop
    {toTree : List (Constraint K P) → Option (CTree (Constraint K P))}
    {fuel : Nat} : ∀ (n : Nat) {a a' : Automaton K P} (evs : List Ev), Inv a → HasIn a →
    mainLoop toTree fuel n a evs = .ok a' → Inv a' ∧ HasIn a' := by
  intro n
  induction n with
  | zero =>
    intro a a' evs inv H h
    cases evs with
    | nil => unfold mainLoop at h; cases h; exact ⟨inv, H⟩
    | cons e es => unfold mainLoop at h; cases h
  | succ n ih =>
    intro a a' evs inv H h
    cases evs with
    | nil => unfold mainLoop at h; cases h; exact ⟨inv, H⟩
    | cons e es =>
      cases e with
      | topo s =>
        unfold mainLoop at h
        split at h
        · cases h
        · rename_i a1 evs1 h1
          obtain ⟨inv1, H1⟩ := hasIn_iteration inv H h1
          exact ih evs1 inv1 H1 h
      | _ => unfold mainLoop at h; cases h

omit [DecidableEq P] in
theorem hasIn_populateScopes {req : K → List K} {fuel : Nat} {a a' : Automaton K P}
    (h : populateScopes req fuel a = .ok a') (H : HasIn a) : HasIn a' := by
  have hs := populateScopes_sameButScope h
  intro x hx hxr
  have hx0 : a.Live x := by
    unfold Live at hx ⊢
    rw [← hs.containsNode]; exact hx
  obtain ⟨t, e, he, hd⟩ := H x hx0 (fun hr => hxr (hr.trans hs.root.symm))
  exact ⟨t, e, by rw [hs.edge?]; exact he, hd⟩

/-- Every automaton returned by a successful guarded `build` — any decomposition `toTree`, any
scheme, any log — satisfies the structural invariant `Inv`, the local invariant `HasIn`, has a
live root without incoming transition, and is acyclic. -/
theorem build_inv_hasIn
    {toTree : List (Constraint K P) → Option (CTree (Constraint K P))}
    {req : K → List K} {fuel : Nat} {patterns : List (Nat × List (Constraint K P) × List K)}
    {evs : List Ev} {A : Automaton K P} (h : build toTree req fuel patterns evs = .ok A) :
    Inv A ∧ HasIn A ∧
      ∃ rank : Nat → Nat, ∀ t e, A.g.edge? t = some e → rank e.src < rank e.dst := by
  unfold build at h
  split at h
  · cases h
  · rename_i a1 h1
    obtain ⟨inv0, _, rs0, nd0, _⟩ := new_spec (K := K) (P := P)
    have H1 : HasIn a1 := hasIn_addPatterns patterns inv0 rs0 nd0 hasIn_new h1
    obtain ⟨inv1, _, _, _, _⟩ := addPatterns_spec (σ := fun _ => true) h1
    unfold finish at h
    split at h
    · cases h
    · rename_i a2 h2
      obtain ⟨inv2, H2⟩ := hasIn_mainLoop _ _ inv1 H1 h2
      obtain ⟨inv3, _, he3, _⟩ := populateScopes_frame inv2 h
      obtain ⟨rank, hrank⟩ := populateScopes_rank inv2 h
      refine ⟨inv3, hasIn_populateScopes h H2, ?_⟩
      exact c09b_reverse_rank A.g rank fun t e he => by
        rw [he3] at he; exact hrank t e he

/-- Clause (b) for every build. -/
theorem build_reachable
    {toTree : List (Constraint K P) → Option (CTree (Constraint K P))}
    {req : K → List K} {fuel : Nat} {patterns : List (Nat × List (Constraint K P) × List K)}
    {evs : List Ev} {A : Automaton K P} (h : build toTree req fuel patterns evs = .ok A) :
    ∀ s, A.Live s → Path A A.root s := by
  obtain ⟨inv, H, rank, hr⟩ := build_inv_hasIn h
  exact path_of_hasIn inv H rank hr

end Builder

end C09R
end Pm
