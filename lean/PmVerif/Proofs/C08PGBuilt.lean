/-
Proofs/C08PGBuilt.lean — what EVERY successful guarded build over the port-graph decomposition
`pgTree` provides for the totality of the traversal, with hypotheses on the input constraints only
(no per-program check, no hypothesis on the event log):
* `arityOK_build` — arity-correct inputs (true of every output of `constraint_vec`, single- or
  multi-root, the isolated-root vector included) give arity-correct edge constraints: `pgTree`
  only puts input constraints or their conditioned forms on tree edges and
  `PGPredicate::conditioned` keeps the arity correct (`pgCond_arity`);
* `scopeSR_build` — inputs over single-root keys, without extra required keys and listed by id,
  give scopes of single-root keys (the isolated-root vector is NOT excluded: only the edge
  invariant `AnchG.EQ`, not the full `StrProg.SP`, is carried through the builder).
Everything lives in `namespace Pm.C08PG`.
-/
import PmVerif.Proofs.C08PGRun
import PmVerif.Proofs.AnchGCorner2
import PmVerif.Proofs.PGProgMain
import PmVerif.Props.TDomPG
namespace Pm
namespace C08PG
open Automaton C08 AnchG CTree

/-! ### `PGPredicate::conditioned` keeps arities and key sets -/

theorem pgCond_arity {c c' : PGCons} {S : List PGCons} (h : pgCond c S = some c')
    (hc : c.args.length = c.pred.arity) : c'.args.length = c'.pred.arity := by
  unfold pgCond at h
  split at h
  · simp only at h
    split at h
    · cases h
    · cases h
      simp [PGPred.arity]
  · cases h
    exact hc

theorem pgCond_args_sub {c c' : PGCons} {S : List PGCons} (h : pgCond c S = some c') :
    ∀ k ∈ c'.args, k ∈ c.args := by
  unfold pgCond at h
  split at h
  · next n first others hp ha =>
    simp only at h
    have hsub : ∀ k, k ∈ S.foldl (fun (ks : List PGKey) s =>
        match s.args with
        | f :: os => if f = first then ks.filter (fun k => !os.contains k) else ks
        | [] => ks) (others.foldl (fun s k => insertKeySet k s) []) → k ∈ others := by
      intro k hk
      have h1 := ((pg_mem_removed_fold first S _ k).1 hk).1
      rw [mem_insertKeySet_fold] at h1
      simpa using h1
    generalize S.foldl (fun (ks : List PGKey) s =>
        match s.args with
        | f :: os => if f = first then ks.filter (fun k => !os.contains k) else ks
        | [] => ks) (others.foldl (fun s k => insertKeySet k s) []) = keys at h hsub
    split at h
    · cases h
    · cases h
      intro k hk
      rw [ha]
      rcases List.mem_cons.1 hk with rfl | hk
      · exact List.mem_cons_self
      · exact List.mem_cons_of_mem _ (hsub k hk)
  · cases h
    exact fun _ hk => hk

/-! ### edge constraints of `pgTree` -/

/-- `AnchG.treeEdgesQ_pgTree` for any predicate that `PGPredicate::conditioned` preserves. -/
theorem treeEdgesQ_pgTree_of {Q : PGCons → Prop}
    (hcond : ∀ c c' S, pgCond c S = some c' → Q c → Q c') (fuel : Nat) :
    TreeEdgesQ Q (fun cs => pgTree cs fuel) := by
  intro cs tree h hQ n c n' hmem
  replace h : pgTree cs fuel = some tree := h
  cases hs : sortWithIndices pgConsLe cs with
  | nil =>
    have : cs = [] := Classical.byContradiction fun hne => sortWithIndices_ne_nil _ hne hs
    subst this
    cases h
    cases n <;> simp [CTree.new, childrenAt] at hmem
  | cons x xs =>
    have hin : ∀ y ∈ sortWithIndices pgConsLe cs, y.1 ∈ cs := fun y hy =>
      List.mem_of_getElem? ((mem_sortWithIndices pgConsLe cs y.1 y.2).1 hy)
    rcases pgTree_cons_cases (fuel := fuel) hs with ⟨-, ht⟩ | ⟨-, ht⟩
    · rw [ht] at h
      obtain ⟨t0, ht0, rfl⟩ := Option.map_eq_some_iff.1 h
      have hmem' : (c, n') ∈ t0.childrenAt n := hmem
      obtain ⟨c0, ci, S, hc0, hcnd⟩ := withPowerset_edges ht0 n c n' hmem'
      exact hcond _ _ _ hcnd (hQ c0 (hin _ (pgKept_sub cs x.1 _ hc0)))
    · rw [ht] at h
      cases h
      obtain ⟨first, fi⟩ := x
      have hmem' : (c, n') ∈ (withChildren
          (((first, fi) :: xs.filter (fun ci => pgMutex first ci.1)).map
            fun ci => (ci.1, [ci.2]))).childrenAt n := hmem
      obtain ⟨-, ch, hch, rfl⟩ := StrProg.chRoot_withChildren _ n c n' hmem'
      obtain ⟨ci, hci, rfl⟩ := List.mem_map.1 hch
      refine hQ _ (hin ci ?_)
      rw [hs]
      rcases List.mem_cons.1 hci with rfl | hci
      · exact List.mem_cons_self ..
      · exact List.mem_cons_of_mem _ (List.mem_filter.1 hci).1

theorem treeEdgesQ_arity (fuel : Nat) :
    TreeEdgesQ (fun c : PGCons => c.args.length = c.pred.arity) (fun cs => pgTree cs fuel) :=
  treeEdgesQ_pgTree_of (fun _ _ _ h hc => pgCond_arity h hc) fuel

theorem treeEdgesQ_sr (fuel : Nat) :
    TreeEdgesQ (fun c : PGCons => ∀ k ∈ c.args, SR k) (fun cs => pgTree cs fuel) :=
  treeEdgesQ_pgTree_of (fun _ _ _ h hc k hk => hc k (pgCond_args_sub h k hk)) fuel

/-! ### the built automaton -/

/-- **Arity-correct inputs give arity-correct edge constraints**, for every successful guarded
build over `pgTree`: any inputs (single- or multi-root), any log, any fuels, any indexing
scheme. -/
theorem arityOK_build {req : PGKey → List PGKey} {fuelT fuel : Nat}
    {patterns : List (Nat × List PGCons × List PGKey)} {evs : List Ev}
    {A : Automaton PGKey PGPred}
    (hb : build (fun cs => pgTree cs fuelT) req fuel patterns evs = .ok A)
    (hp : ∀ p ∈ patterns, ∀ c ∈ p.2.1, c.args.length = c.pred.arity) : ArityOK A := by
  have hT := treeOK_sigma' ⟨[], []⟩ 0 fuelT
  have hq := build_edgesQ (Q := fun c : PGCons => c.args.length = c.pred.arity) hT
    (treeEdgesQ_arity fuelT) hb hp
  intro s w _ t _ e c he hc
  exact hq t e c he hc

/-- A successful guarded build is `addPatterns`, the main loop, `populate_scopes`. -/
theorem build_parts {K P : Type} [DecidableEq K] [DecidableEq P]
    {toTree : List (Constraint K P) → Option (CTree (Constraint K P))} {req : K → List K}
    {fuel : Nat} {patterns : List (Nat × List (Constraint K P) × List K)} {evs : List Ev}
    {A : Automaton K P} (h : build toTree req fuel patterns evs = .ok A) :
    ∃ a1 a2, addPatterns req fuel (new : Automaton K P) patterns = .ok a1 ∧
      mainLoop toTree fuel evs.length a1 evs = .ok a2 ∧ populateScopes req fuel a2 = .ok A := by
  unfold build at h
  cases h1 : addPatterns req fuel (new : Automaton K P) patterns with
  | error e => rw [h1] at h; cases h
  | ok a1 =>
    rw [h1] at h
    simp only at h
    unfold finish at h
    cases h2 : mainLoop toTree fuel evs.length a1 evs with
    | error e => rw [h2] at h; cases h
    | ok a2 =>
      rw [h2] at h
      exact ⟨a1, a2, rfl, h2, h⟩

/-- **Single-root inputs give single-root scopes** (empty, or the root key first), for every
successful guarded build over `pgTree` with the port-graph indexing scheme: the inputs mention
single-root keys only, carry no extra required keys, and `css` lists them by id. One-key
`isNotEqual` constraints (the isolated-root vector) are allowed. -/
theorem scopeShape_build {fuelT fuel : Nat}
    {inputs : List (Nat × List PGCons × List PGKey)} {evs : List Ev}
    {A : Automaton PGKey PGPred} (css : List (Option (List PGCons)))
    (hb : build (fun cs => pgTree cs fuelT) pgReq fuel inputs evs = .ok A)
    (hin : ∀ x ∈ inputs, css[x.1]? = some (some x.2.1) ∧ x.2.2 = [] ∧
      ∀ c ∈ x.2.1, ∀ k ∈ c.args, SR k) :
    ∀ s w, A.g.weight? s = some w → AnchG.Sh w.scope := by
  have hT := treeOK_sigma' ⟨[], []⟩ 0 fuelT
  have hq := build_edgesQ (Q := fun c : PGCons => ∀ k ∈ c.args, SR k) hT
    (treeEdgesQ_sr fuelT) hb (fun p hp => (hin p hp).2.2)
  have hkeys : c09b_MFrom (PGProg.KeysOf css) A := PGProg.pgKeys_build css hin hb
  have hids := c09_built_matches_only_patterns (fun cs => pgTree cs fuelT) pgReq
    PGProg.pgReq_acyclic fuel
    inputs evs A _ hT hb
  obtain ⟨a1, a2, _, _, hps⟩ := build_parts hb
  have hsame := populateScopes_sameButScope hps
  have hk2 : ∀ s w, a2.g.weight? s = some w → ∀ m ∈ w.matches_, m.2 ≠ [] →
      PGKey.root 0 ∈ m.2 := by
    intro s w2 hw2 m hm hne
    obtain ⟨w, hw, he⟩ := hsame.weight?_symm hw2
    have hm' : m ∈ w.matches_ := by rw [he]; exact hm
    obtain ⟨cs, hcs, hk⟩ := hkeys s w hw m hm'
    obtain ⟨x, hx, hx1⟩ := List.mem_map.1 (hids s w hw m hm')
    have := (hin x hx).1
    rw [hx1, hcs] at this
    simp only [Option.some.injEq] at this
    subst this
    exact MatProg.sh_mem_start (hk ▸ (PGProg.shP_pgPatternKeys _ (hin x hx).2.2).1) hne
  have hshape := PGProg.populateScopes_shPOn PGProg.pgReq_starOn hps
    (fun t e c he hw => hq t e c (by rw [hsame.edge?]; exact he) hw) hk2
  intro s w hw
  exact PGProg.anchSh_of_shP (hshape s w hw)

theorem scopeSR_build {fuelT fuel : Nat}
    {inputs : List (Nat × List PGCons × List PGKey)} {evs : List Ev}
    {A : Automaton PGKey PGPred} (css : List (Option (List PGCons)))
    (hb : build (fun cs => pgTree cs fuelT) pgReq fuel inputs evs = .ok A)
    (hin : ∀ x ∈ inputs, css[x.1]? = some (some x.2.1) ∧ x.2.2 = [] ∧
      ∀ c ∈ x.2.1, ∀ k ∈ c.args, SR k) : ScopeSR A :=
  fun s w hw => (scopeShape_build css hb hin s w hw).1

/-- Every key of every recorded key list is a single-root key (same hypotheses). -/
theorem matchesSR_build {fuelT fuel : Nat}
    {inputs : List (Nat × List PGCons × List PGKey)} {evs : List Ev}
    {A : Automaton PGKey PGPred} (css : List (Option (List PGCons)))
    (hb : build (fun cs => pgTree cs fuelT) pgReq fuel inputs evs = .ok A)
    (hin : ∀ x ∈ inputs, css[x.1]? = some (some x.2.1) ∧ x.2.2 = [] ∧
      ∀ c ∈ x.2.1, ∀ k ∈ c.args, SR k) :
    ∀ s w, A.g.weight? s = some w → ∀ m ∈ w.matches_, AnchG.Sh m.2 := by
  have hT := treeOK_sigma' ⟨[], []⟩ 0 fuelT
  have hkeys : c09b_MFrom (PGProg.KeysOf css) A := PGProg.pgKeys_build css hin hb
  have hids := c09_built_matches_only_patterns (fun cs => pgTree cs fuelT) pgReq
    PGProg.pgReq_acyclic fuel inputs evs A _ hT hb
  intro s w hw m hm
  obtain ⟨cs, hcs, hk⟩ := hkeys s w hw m hm
  obtain ⟨x, hx, hx1⟩ := List.mem_map.1 (hids s w hw m hm)
  have := (hin x hx).1
  rw [hx1, hcs] at this
  simp only [Option.some.injEq] at this
  subst this
  rw [hk]
  exact PGProg.anchSh_of_shP (PGProg.shP_pgPatternKeys _ (hin x hx).2.2)

/-! ### `ManyMatcher` -/

section Many
variable {Pat : Type} (convert : Pat → Option (List PGCons))

/-- A successful `manyBuild` is a successful `build` of the inputs `manyInputs` computes. -/
theorem many_parts {ff : Bool} {pats : List Pat} {evs : List Ev} {fuelT fuel : Nat}
    {M : Many PGKey PGPred}
    (hb : manyBuild convert (fun _ => ([] : List PGKey)) (fun cs => pgTree cs fuelT) pgReq fuel ff
      pats evs = some (.ok M)) :
    ∃ inputs, manyInputs convert (fun _ => ([] : List PGKey)) ff pats 0 = some inputs ∧
      build (fun cs => pgTree cs fuelT) pgReq fuel inputs evs = .ok M.automaton := by
  unfold manyBuild at hb
  cases hi : manyInputs convert (fun _ => ([] : List PGKey)) ff pats 0 with
  | none => simp [hi] at hb
  | some inputs =>
    simp only [hi] at hb
    cases hbuild : Automaton.build (fun cs => pgTree cs fuelT) pgReq fuel inputs evs with
    | error e => simp [hbuild] at hb
    | ok A =>
      simp only [hbuild, Option.some.injEq, Except.ok.injEq] at hb
      subst hb
      exact ⟨inputs, rfl, hbuild⟩

/-- What `manyInputs` hands to the builder. -/
theorem many_inputs_spec {ff : Bool} {pats : List Pat}
    {inputs : List (Nat × List PGCons × List PGKey)}
    (hi : manyInputs convert (fun _ => ([] : List PGKey)) ff pats 0 = some inputs) :
    ∀ x ∈ inputs, ∃ p ∈ pats, convert p = some x.2.1 ∧ x.2.2 = [] ∧
      (pats.map convert)[x.1]? = some (some x.2.1) := by
  have hpos := c06_ids_are_positions convert (fun _ => ([] : List PGKey)) ff pats 0 inputs hi
  rintro ⟨j, cs, ex⟩ hmem
  obtain ⟨k, p, hk, hj, hcv, hex⟩ := (hpos j cs ex).mp hmem
  simp only [Nat.zero_add] at hj
  subst hj
  exact ⟨p, List.mem_of_getElem? hk, hcv, hex, by simp [hk, hcv]⟩

/-- Traversal facts of a built matcher over arity-correct constraint vectors. -/
theorem many_facts {ff : Bool} {pats : List Pat} {evs : List Ev} {fuelT fuel : Nat}
    {M : Many PGKey PGPred}
    (har : ∀ p ∈ pats, ∀ cs, convert p = some cs → ∀ c ∈ cs, c.args.length = c.pred.arity)
    (hb : manyBuild convert (fun _ => ([] : List PGKey)) (fun cs => pgTree cs fuelT) pgReq fuel ff
      pats evs = some (.ok M)) :
    OrdersOK M.automaton ∧ (∃ w, M.automaton.g.weight? M.automaton.root = some w) ∧
      ArityOK M.automaton ∧
      ∃ rank : Nat → Nat, (∀ s, rank s ≤ M.automaton.g.nodes.length) ∧
        ∀ t e, M.automaton.g.edge? t = some e → rank e.dst < rank e.src := by
  obtain ⟨inputs, hi, hbuild⟩ := many_parts convert hb
  obtain ⟨ok, hroot, hrank⟩ := pg_built_facts fuelT pgReq fuel inputs evs _ hbuild
  refine ⟨ok, hroot, arityOK_build hbuild ?_, hrank⟩
  intro x hx c hc
  obtain ⟨p, hp, hcv, _, _⟩ := many_inputs_spec convert hi x hx
  exact har p hp _ hcv c hc

/-- Scopes of a built matcher over single-root constraint vectors. -/
theorem many_scopeShape {ff : Bool} {pats : List Pat} {evs : List Ev} {fuelT fuel : Nat}
    {M : Many PGKey PGPred}
    (hsr : ∀ p ∈ pats, ∀ cs, convert p = some cs → pgSigMultiRoot cs = false)
    (hb : manyBuild convert (fun _ => ([] : List PGKey)) (fun cs => pgTree cs fuelT) pgReq fuel ff
      pats evs = some (.ok M)) :
    ∀ s w, M.automaton.g.weight? s = some w → AnchG.Sh w.scope := by
  obtain ⟨inputs, hi, hbuild⟩ := many_parts convert hb
  refine scopeShape_build (pats.map convert) hbuild ?_
  intro x hx
  obtain ⟨p, hp, hcv, hex, hcss⟩ := many_inputs_spec convert hi x hx
  exact ⟨hcss, hex, fun c hc => (pgSingleRootKeys_iff c.args).1
    ((tdom_pg_single_root _).1 (hsr p hp _ hcv) c hc)⟩

/-- Recorded key lists of a built matcher over single-root constraint vectors. -/
theorem many_matchesShape {ff : Bool} {pats : List Pat} {evs : List Ev} {fuelT fuel : Nat}
    {M : Many PGKey PGPred}
    (hsr : ∀ p ∈ pats, ∀ cs, convert p = some cs → pgSigMultiRoot cs = false)
    (hb : manyBuild convert (fun _ => ([] : List PGKey)) (fun cs => pgTree cs fuelT) pgReq fuel ff
      pats evs = some (.ok M)) :
    ∀ s w, M.automaton.g.weight? s = some w → ∀ m ∈ w.matches_, AnchG.Sh m.2 := by
  obtain ⟨inputs, hi, hbuild⟩ := many_parts convert hb
  refine matchesSR_build (pats.map convert) hbuild ?_
  intro x hx
  obtain ⟨p, hp, hcv, hex, hcss⟩ := many_inputs_spec convert hi x hx
  exact ⟨hcss, hex, fun c hc => (pgSingleRootKeys_iff c.args).1
    ((tdom_pg_single_root _).1 (hsr p hp _ hcv) c hc)⟩

end Many

end C08PG
end Pm
