/-
Proofs/BuildCex.lean — why `make_det` carries a guard: for the builder WITHOUT the guard "no
constraint child is already deterministic" (local copies `…U` below), a concrete build (a child
state is determinised before its parent) yields an automaton whose deterministic reading loses
a pattern that the non-deterministic reading accepts. The guarded model rejects that event log.
-/
import PmVerif.Spec.Acc
namespace Pm
namespace BuildCex
open Automaton

def cD : Constraint Nat Nat := ⟨0, []⟩
def cC : Constraint Nat Nat := ⟨1, []⟩
def cE : Constraint Nat Nat := ⟨2, []⟩
def cF : Constraint Nat Nat := ⟨3, []⟩

def cexTree (cs : List (Constraint Nat Nat)) : Option (CTree (Constraint Nat Nat)) :=
  if cs = [cD, cE] then some ⟨[⟨[1], [(cD, 1)]⟩, ⟨[0], []⟩], true⟩
  else if cs = [cC] then some ⟨[⟨[], [(cC, 1)]⟩, ⟨[0], []⟩], true⟩
  else if cs = [cF] then some ⟨[⟨[0], []⟩], false⟩
  else none

def cexPats : List (Nat × List (Constraint Nat Nat) × List Nat) :=
  [(1, [cD, cC], []), (2, [cE, cF], [])]

def cexEvs : List Ev := [.topo 3, .iterEnd 3, .topo 1, .detAsk 1, .detYes 1, .iterEnd 1,
  .topo 0, .detAsk 0, .detYes 0, .iterEnd 0]

def σ : Constraint Nat Nat → Bool := fun _ => true

/-- The automaton built from `cexPats` along `cexEvs`. -/
def A : Automaton Nat Nat :=
  { g :=
      { nodes :=
          [some { w := { matches_ := [], det := true, corder := [0], eorder := [2], scope := [] },
                  out := [0, 2], inc := [] },
           some { w := { matches_ := [], det := true, corder := [1], eorder := [4], scope := [] },
                  out := [4, 1], inc := [0] },
           some { w := { matches_ := [(1, [])], det := false, corder := [], eorder := [],
                         scope := [] },
                  out := [], inc := [1] },
           some { w := { matches_ := [], det := false, corder := [], eorder := [3], scope := [] },
                  out := [3], inc := [2] },
           some { w := { matches_ := [(2, [])], det := false, corder := [], eorder := [],
                         scope := [] },
                  out := [], inc := [4, 3] }],
        edges :=
          [some { src := 0, dst := 1, w := some cD },
           some { src := 1, dst := 2, w := some cC },
           some { src := 0, dst := 3, w := none },
           some { src := 3, dst := 4, w := none },
           some { src := 1, dst := 4, w := none }],
        freeNodes := [],
        freeEdges := [] },
    root := 0 }

/-! ### the builder without the `make_det` guard

Local copies of `makeDetWith`, `makeDet`, `iteration`, `mainLoop`, `finish`, `build` from
`Model/Builder.lean`, textually identical except that the `childDet` guard of `makeDetWith` is
removed; everything else is the model's. -/

section Unguarded
variable {K P : Type} [DecidableEq K] [DecidableEq P]

def makeDetWithU (keepFailMatches : Bool) (a : Automaton K P) (s : Nat) : R (Automaton K P) :=
  match a.setDeterministic s with
  | .error e => .error e
  | .ok (a, wasDet) =>
    if wasDet then .ok a
    else
      match a.failNextState s with
      | .error e => .error e
      | .ok none => .ok a
      | .ok (some failState) =>
        match a.allTransitions failState, a.corderOf s, a.state failState with
        | .ok failTs, .ok cts, .ok fw =>
          a.makeDetLoop failTs (if keepFailMatches then fw.matches_ else []) cts
        | .error e, _, _ => .error e
        | _, .error e, _ => .error e
        | _, _, .error e => .error e

def makeDetU (a : Automaton K P) (s : Nat) : R (Automaton K P) := makeDetWithU true a s

def iterationU (toTree : List (Cons K P) → Option (CTree (Cons K P))) (fuel : Nat)
    (a : Automaton K P) (s : Nat) (evs : List Ev) : R (Automaton K P × List Ev) :=
  if !a.g.containsNode s then .error (.guard "c1: emitted state does not exist") else
  match a.makeConstraintsUnique s evs with
  | .error e => .error e
  | .ok (a, evs) =>
    match insertConstraintTree toTree a s fuel with
    | .error e => .error e
    | .ok (a, treeDet) =>
      match a.makeConstraintsUnique s evs with
      | .error e => .error e
      | .ok (a, evs) =>
        let afterDet : R (Automaton K P × List Ev) :=
          if treeDet then
            match evs with
            | .detAsk s' :: .detYes s'' :: evs' =>
              if s' = s ∧ s'' = s then (makeDetU a s).map (·, evs')
              else .error (.guard "c5: DetAsk/DetYes for another state")
            | .detAsk s' :: evs' =>
              if s' = s then .ok (a, evs') else .error (.guard "c5: DetAsk for another state")
            | _ => .error (.guard "c5: missing DetAsk event")
          else .ok (a, evs)
        match afterDet with
        | .error e => .error e
        | .ok (a, evs) =>
          match a.mergesLogged evs with
          | .error e => .error e
          | .ok (a, .iterEnd s' :: evs) =>
            if s' = s then .ok (a, evs) else .error (.guard "IterEnd for another state")
          | .ok _ => .error (.guard "missing IterEnd event")

def mainLoopU (toTree : List (Cons K P) → Option (CTree (Cons K P))) (fuel : Nat) :
    Nat → Automaton K P → List Ev → R (Automaton K P)
  | _, a, [] => .ok a
  | 0, _, _ :: _ => .error (.fuel "main loop")
  | n + 1, a, .topo s :: evs =>
    match iterationU toTree fuel a s evs with
    | .error e => .error e
    | .ok (a, evs) => mainLoopU toTree fuel n a evs
  | _, _, _ :: _ => .error (.guard "expected a Topo event")

def finishU (toTree : List (Cons K P) → Option (CTree (Cons K P))) (req : K → List K)
    (fuel : Nat) (a : Automaton K P) (evs : List Ev) : R (Automaton K P) :=
  match mainLoopU toTree fuel evs.length a evs with
  | .error e => .error e
  | .ok a => populateScopes req fuel a

def buildU (toTree : List (Cons K P) → Option (CTree (Cons K P))) (req : K → List K)
    (fuel : Nat) (patterns : List (Nat × List (Cons K P) × List K)) (evs : List Ev) :
    R (Automaton K P) :=
  match addPatterns req fuel new patterns with
  | .error e => .error e
  | .ok a => finishU toTree req fuel a evs

end Unguarded

theorem buildU_eq : buildU cexTree (fun _ => []) 10 cexPats cexEvs = .ok A := by
  rfl

/-- The guarded model rejects this event log: when state 0 is determinised its constraint
child 1 is already deterministic. -/
theorem guarded_build_rejects :
    Automaton.build cexTree (fun _ => []) 10 cexPats cexEvs =
      .error (.guard "make_det: a constraint child is already deterministic") := by
  rfl

/-! ### the trees are faithful under `σ` -/

theorem treeOK : Automaton.TreeOK cexTree σ := by
  intro cs t h
  unfold cexTree at h
  split at h
  · next hcs =>
    subst hcs; cases h
    refine ⟨by decide, by decide⟩
  · split at h
    · next hcs =>
      subst hcs; cases h
      refine ⟨by decide, by decide⟩
    · split at h
      · next hcs =>
        subst hcs; cases h
        refine ⟨by decide, by decide⟩
      · cases h

/-! ### closed-term lookups in `A` -/

theorem w0 : A.g.weight? 0 = some { det := true, corder := [0], eorder := [2] } := rfl
theorem w1 : A.g.weight? 1 = some { det := true, corder := [1], eorder := [4] } := rfl
theorem w2 : A.g.weight? 2 = some { matches_ := [(1, [])] } := rfl
theorem w3 : A.g.weight? 3 = some { eorder := [3] } := rfl
theorem w4 : A.g.weight? 4 = some { matches_ := [(2, [])] } := rfl
theorem e0 : A.g.edge? 0 = some ⟨0, 1, some cD⟩ := rfl
theorem e1 : A.g.edge? 1 = some ⟨1, 2, some cC⟩ := rfl
theorem e2 : A.g.edge? 2 = some ⟨0, 3, none⟩ := rfl
theorem e3 : A.g.edge? 3 = some ⟨3, 4, none⟩ := rfl
theorem e4 : A.g.edge? 4 = some ⟨1, 4, none⟩ := rfl

/-! ### the deterministic reading rejects pattern 2 -/

theorem not_det2 : ¬ AccDet σ A 2 2 := by
  intro h
  cases h with
  | here hw hm => rw [w2] at hw; cases hw; simp at hm
  | con hw ht => rw [w2] at hw; cases hw; simp at ht
  | eps hw ht => rw [w2] at hw; cases hw; simp at ht

theorem not_det1 : ¬ AccDet σ A 1 2 := by
  intro h
  cases h with
  | here hw hm => rw [w1] at hw; cases hw; simp at hm
  | con hw ht he hc hs hr =>
    rw [w1] at hw; cases hw
    simp at ht; subst ht
    rw [e1] at he; cases he
    exact not_det2 hr
  | eps hw ht he hd hr =>
    rw [w1] at hw; cases hw
    rcases hd with hd | hd
    · simp at hd
    · exact hd ⟨1, by simp, _, cC, e1, rfl, rfl⟩

theorem not_det0 : ¬ AccDet σ A 0 2 := by
  intro h
  cases h with
  | here hw hm => rw [w0] at hw; cases hw; simp at hm
  | con hw ht he hc hs hr =>
    rw [w0] at hw; cases hw
    simp at ht; subst ht
    rw [e0] at he; cases he
    exact not_det1 hr
  | eps hw ht he hd hr =>
    rw [w0] at hw; cases hw
    rcases hd with hd | hd
    · simp at hd
    · exact hd ⟨0, by simp, _, cD, e0, rfl, rfl⟩

/-! ### the non-deterministic reading accepts it -/

theorem nd0 : AccND σ A 0 2 := by
  refine .step (t := 2) w0 (by simp) e2 (by intro c h; cases h) ?_
  refine .step (t := 3) w3 (by simp) e3 (by intro c h; cases h) ?_
  exact .here w4 (by simp)

/-- Counterexample for the model WITHOUT the `make_det` guard (`buildU`): `build_acc` is false
there. For this log (the child 1 is determinised before its parent 0) pattern 2 has all its
constraints true, yet the deterministic reading does not accept it from the root. -/
theorem build_acc_counterexample_unguarded :
    ∃ (toTree : List (Constraint Nat Nat) → Option (CTree (Constraint Nat Nat)))
      (patterns : List (Nat × List (Constraint Nat Nat) × List Nat)) (evs : List Ev)
      (A : Automaton Nat Nat) (σ : Constraint Nat Nat → Bool),
      Automaton.TreeOK toTree σ ∧
      buildU toTree (fun _ => []) 10 patterns evs = .ok A ∧
      (∃ cs extra, (2, cs, extra) ∈ patterns ∧ ∀ c ∈ cs, σ c = true) ∧
      ¬ Automaton.AccDet σ A A.root 2 ∧ Automaton.AccND σ A A.root 2 :=
  ⟨cexTree, cexPats, cexEvs, A, σ, treeOK, buildU_eq,
    ⟨[cE, cF], [], by simp [cexPats], fun _ _ => rfl⟩, not_det0, nd0⟩

end BuildCex
end Pm
