/-
Proofs/StrProgCor.lean — corollaries of the anchored traversal theorem from the hypothesis
`AllOK` (every live state satisfies `Anch.StateOK`): the proof of `c01_c02_string_checked`
(Props/TRunStr.lean) with `strProgramOK` replaced by `AllOK`, and the comparison with the
baseline matcher (`naiveMatches`, characterised by C05). Everything lives in `namespace Pm.StrProg`.
-/
import PmVerif.Proofs.StrProgRun
import PmVerif.Proofs.AnchKeys
import PmVerif.Props.C03
import PmVerif.Props.C05
namespace Pm
namespace StrProg
open Automaton

/-- **C01/C02 from `AllOK`.** If every live state of the built automaton satisfies `StateOK`,
`find_matches` reports exactly the occurrences of the patterns. -/
theorem c01_c02_of_allOK (ps : List (List CharVar)) (evs : List Ev) (fuel fuel' : Nat)
    (M : Many Nat CharPred) (h : List Nat) (ms : List (Match StrPos))
    (hb : manyBuild (fun p => some (strConstraints p)) (fun _ => ([] : List Nat))
      (charTree natLt) strReq fuel true ps evs = some (.ok M))
    (hok : AllOK M.automaton ps)
    (hf : M.findMatches strDomain h fuel' = .ok ms) (i : Nat) (m : StrPos) :
    (i, m) ∈ ms ↔ ∃ p, ps[i]? = some p ∧
      ((p = [] ∧ m = .unbound) ∨
       (p ≠ [] ∧ ∃ a, occursStr p h a = true ∧ m = .bound a p.length)) := by
  obtain ⟨seen, hr⟩ : ∃ seen, run strDomain M.automaton h fuel' = .ok (ms, seen) := by
    unfold Many.findMatches at hf
    cases hrun : run strDomain M.automaton h fuel' with
    | error e => rw [hrun] at hf; cases hf
    | ok r =>
      rw [hrun] at hf
      cases hf
      exact ⟨r.2, rfl⟩
  rw [trun_str_of_stateOK M.automaton ps h fuel' ms seen hok hr]
  -- the key list recorded for pattern `i` anywhere in the automaton
  have hrec : ∀ {σ : StrCons → Bool} {s : Nat} {ks : List Nat},
      AccDetK σ M.automaton s i ks → ∃ s' w', M.automaton.g.weight? s' = some w' ∧
        (i, ks) ∈ w'.matches_ ∧ (s' = M.automaton.root ∨ ks ≠ []) ∧
        ∃ p, ps[i]? = some p ∧ ks = strPatternKeys p := by
    intro σ s ks hacc
    obtain ⟨s', w', hw', hmem⟩ := Anch.accDetK_recorded hacc
    obtain ⟨_, hroot, hp⟩ := (hok _ _ hw').matches_ i ks hmem
    exact ⟨s', w', hw', hmem, hroot, hp⟩
  constructor
  · rintro (⟨rfl, w, hw, hmem⟩ | ⟨a, ks, ha, hne, hacc, hbnd, rfl⟩)
    · obtain ⟨_, _, p, hps, hks⟩ := (hok _ _ hw).matches_ i [] hmem
      refine ⟨p, hps, .inl ⟨?_, rfl⟩⟩
      by_cases hp : p = []
      · exact hp
      · exact absurd hks.symm (Anch.strPatternKeys_ne p hp)
    · obtain ⟨_, _, _, _, _, p, hps, hks⟩ := hrec hacc
      have hp : p ≠ [] := by
        rintro rfl
        exact hne (hks.trans Anch.strPatternKeys_nil)
      obtain ⟨p', hps', hall⟩ :=
        (c03_string_prop ps evs fuel M (strSigma h a) hb i).mp (Anch.accDet_of_accDetK hacc)
      rw [hps] at hps'
      cases hps'
      refine ⟨p, hps, .inr ⟨hp, a, (Anch.sigma_iff_occurs p h a).mp hall, ?_⟩⟩
      rw [hks, Anch.strPatternKeys_extent p hp]
  · rintro ⟨p, hps, ⟨rfl, rfl⟩ | ⟨hp, a, ho, rfl⟩⟩
    · left
      have hacc : AccDet (strSigma h 0) M.automaton M.automaton.root i :=
        (c03_string_prop ps evs fuel M (strSigma h 0) hb i).mpr
          ⟨[], hps, fun c hc => by
            have he : strConstraints [] = [] := by decide
            rw [he] at hc
            cases hc⟩
      obtain ⟨ks, hK⟩ := Anch.accDetK_of_accDet hacc
      obtain ⟨s', w', hw', hmem, hroot, p', hps', hks⟩ := hrec hK
      rw [hps] at hps'
      cases hps'
      rw [Anch.strPatternKeys_nil] at hks
      subst hks
      have hs : s' = M.automaton.root := by
        rcases hroot with h | h
        · exact h
        · exact absurd rfl h
      subst hs
      exact ⟨rfl, w', hw', hmem⟩
    · right
      have hshort := tdom_str_sat_short p h a ho hp
      have hlen := Anch.length_le_byteLen h
      have hpos : 0 < p.length := List.length_pos_iff.mpr hp
      have hacc : AccDet (strSigma h a) M.automaton M.automaton.root i :=
        (c03_string_prop ps evs fuel M (strSigma h a) hb i).mpr
          ⟨p, hps, (Anch.sigma_iff_occurs p h a).mpr ho⟩
      obtain ⟨ks, hK⟩ := Anch.accDetK_of_accDet hacc
      obtain ⟨_, _, _, _, _, p', hps', hks⟩ := hrec hK
      rw [hps] at hps'
      cases hps'
      subst hks
      refine ⟨a, _, by omega, Anch.strPatternKeys_ne p hp, hK, ?_, ?_⟩
      · intro k hk
        have := Anch.strPatternKeys_lt p k hk
        omega
      · rw [Anch.strPatternKeys_extent p hp]

/-- The baseline `NaiveManyMatcher` reports exactly the occurrences, labelled by position
(C05 + `mem_naiveMatches`). -/
theorem mem_naive_string (ps : List (List CharVar)) (h : List Nat) (fuel : Nat)
    (ns : List (Match StrPos))
    (hn : naiveMatches strDomain h fuel (ps.map strConstraints) 0 = .ok ns) (i : Nat)
    (m : StrPos) :
    (i, m) ∈ ns ↔ ∃ p, ps[i]? = some p ∧
      ((p = [] ∧ m = .unbound) ∨
       (p ≠ [] ∧ ∃ a, occursStr p h a = true ∧ m = .bound a p.length)) := by
  rw [mem_naiveMatches (ps.map strConstraints) 0 ns hn i m]
  constructor
  · rintro ⟨k, cs, out, hj, hk, hs, hm⟩
    simp only [Nat.zero_add] at hj
    subst hj
    rw [List.getElem?_map] at hk
    cases hp : ps[i]? with
    | none => rw [hp] at hk; cases hk
    | some p =>
      rw [hp] at hk
      simp only [Option.map_some, Option.some.injEq] at hk
      subst hk
      exact ⟨p, rfl, (c05_string_mem p h fuel out hs m).1 hm⟩
  · rintro ⟨p, hp, hor⟩
    have hk : (ps.map strConstraints)[i]? = some (strConstraints p) := by
      rw [List.getElem?_map, hp]; rfl
    obtain ⟨out, hs⟩ := naiveMatches_all_ok (ps.map strConstraints) 0 ns hn (strConstraints p)
      (List.mem_of_getElem? hk)
    exact ⟨i, strConstraints p, out, by omega, hk, hs, (c05_string_mem p h fuel out hs m).2 hor⟩

end StrProg
end Pm
