/-
Proofs/C07Run.lean — C07 (multiplicities), builder-independent part 2: the traversal of a string
automaton whose live states satisfy `Anch.StateOK` (proved for every build: `strProg_built`) and
which is unambiguous under every anchored truth assignment `strSigma h a` (`C07.Unamb`,
Proofs/C07Unamb.lean) reports no match twice: `run_nodup`.

Ingredients: `Inv2` — every configuration the traversal arrives at is the initial one, or is
`.bound a L` where `L` is the extent of the scope of a `strSigma h a`-reachable state `p` from
which the state was entered by a step of the run; `emit_mem_cases` — what an emitted match says
about the configuration that emitted it; `emit_nodup` — one expansion emits no match twice;
`config_eq_of_common` — two reachable configurations emitting a common match are equal (so they
have the same `(state, projection)` key, and the visit log has no duplicates).
Everything lives in `namespace Pm.C07`.
-/
import PmVerif.Proofs.C07Unamb
import PmVerif.Proofs.StrProgRun
namespace Pm
namespace C07
open Automaton Anch

variable {A : Automaton Nat CharPred} {ps : List (List CharVar)} {h : List Nat}

/-! ### reachable configurations, with their run -/

/-- A configuration is the initial one (or unbound on the empty host), or it is bound at an
anchor `a` with the extent of the scope of the `strSigma h a`-reachable state `p` it was entered
from. -/
def Inv2 (A : Automaton Nat CharPred) (h : List Nat) (s : Nat) (m : StrPos) : Prop :=
  (m = .unbound ∧ (s = A.root ∨ strByteLen h = 0)) ∨
  ∃ a p wp, a < strByteLen h ∧ A.g.weight? p = some wp ∧ RunTo (strSigma h a) A p ∧
    StepTo (strSigma h a) A p s ∧ m = .bound a (ext (strByteLen h) a 1 wp.scope)

/-- The step candidates from a configuration satisfying `Inv2`. -/
theorem cand_cases {s : Nat} {w : AState Nat} {m m' : StrPos} {cands : List StrPos}
    (hst : StateOK A ps s w) (hne : w.scope ≠ []) (hinv : Inv2 A h s m)
    (hc : stepCands strDomain h w m = .ok cands) (hm' : m' ∈ cands) :
    (m' = .unbound ∧ strByteLen h = 0) ∨
    ∃ a, a < strByteLen h ∧ RunTo (strSigma h a) A s ∧
      m' = .bound a (ext (strByteLen h) a 1 w.scope) := by
  obtain ⟨rest, hs, h0⟩ : ∃ rest, w.scope = 0 :: rest ∧ 0 ∉ rest := by
    rcases hst.scope_shape with h | h
    · exact absurd h hne
    · exact h
  rcases hinv with ⟨rfl, hroot⟩ | ⟨a, p, wp, ha, hwp, hrun, hstep, rfl⟩
  · by_cases hB : strByteLen h = 0
    · rw [stepCands_unbound_empty h w hB] at hc
      cases hc
      exact .inl ⟨List.mem_singleton.mp hm', hB⟩
    · have hs' : s = A.root := by
        rcases hroot with h | h
        · exact h
        · exact absurd h hB
      rw [stepCands_unbound h w rest hs h0 (by omega)] at hc
      cases hc
      obtain ⟨a, ha, rfl⟩ := List.mem_map.mp hm'
      exact .inr ⟨a, List.mem_range.mp ha, hs' ▸ RunTo.root _ _, rfl⟩
  · obtain ⟨h1, h2⟩ := ext_scope_bounds (h := h) a wp.scope ha
    rw [stepCands_bound h w a _ rest hs h0 h1 h2] at hc
    cases hc
    exact .inr ⟨a, ha, hrun.step hstep, List.mem_singleton.mp hm'⟩

theorem reach_inv2 (hok : StrProg.AllOK A ps) {s : Nat} {m : StrPos}
    (hr : Reach strDomain A h s m) : Inv2 A h s m := by
  induction hr with
  | root => exact .inl ⟨rfl, .inl rfl⟩
  | @con s m w cands m' t e c _ hw hc hm' ht he hcw hsat ih =>
    have hst := hok _ _ hw
    have hne : w.scope ≠ [] := hst.scope_ne (.inl (List.ne_nil_of_mem ht))
    rcases cand_cases hst hne ih hc hm' with ⟨rfl, hB⟩ | ⟨a, ha, hrun, rfl⟩
    · exact .inl ⟨rfl, .inr hB⟩
    · rw [sat_cand hst ht he hcw a] at hsat
      exact .inr ⟨a, s, w, ha, hw, hrun,
        ⟨w, t, e, hw, he, rfl, .inl ⟨ht, c, hcw, Option.some.inj hsat⟩⟩, rfl⟩
  | @eps s m w cands m' t e _ hw hc hm' ht he hd ih =>
    have hst := hok _ _ hw
    have hne : w.scope ≠ [] := hst.scope_ne (.inr (List.ne_nil_of_mem ht))
    rcases cand_cases hst hne ih hc hm' with ⟨rfl, hB⟩ | ⟨a, ha, hrun, rfl⟩
    · exact .inl ⟨rfl, .inr hB⟩
    · exact .inr ⟨a, s, w, ha, hw, hrun,
        ⟨w, t, e, hw, he, rfl, .inr ⟨ht, (eps_cond_iff hst a).mp hd⟩⟩, rfl⟩

/-- The shape of the binding of a configuration satisfying `Inv2`. -/
theorem Inv2.shape {s : Nat} {m : StrPos} (hinv : Inv2 A h s m) :
    m = .unbound ∨ ∃ a L, m = .bound a L ∧ a < strByteLen h ∧ 1 ≤ L ∧ a + L ≤ strByteLen h := by
  rcases hinv with ⟨rfl, _⟩ | ⟨a, p, wp, ha, _, _, _, rfl⟩
  · exact .inl rfl
  · obtain ⟨h1, h2⟩ := ext_scope_bounds (h := h) a wp.scope ha
    exact .inr ⟨a, _, rfl, ha, h1, h2⟩

/-! ### what an emitted match says about its configuration -/

theorem emit_mem_cases {s : Nat} {w : AState Nat} {m : StrPos} {em : List (Match StrPos)}
    (hw : A.g.weight? s = some w) (hst : StateOK A ps s w) (hinv : Inv2 A h s m)
    (he : emitMatches strDomain h m w.matches_ = .ok em) {i : Nat} {mm : StrPos}
    (hmem : (i, mm) ∈ em) :
    A.Ids s i ∧
    ((mm = .unbound ∧ s = A.root) ∨
     ∃ a len, mm = .bound a len ∧ a < strByteLen h ∧
       ((m = .unbound ∧ s = A.root) ∨ ∃ L, m = .bound a L)) := by
  obtain ⟨keys, hk, m₁, hm₁, hret⟩ := (mem_emitMatches he i mm).mp hmem
  refine ⟨⟨w, hw, List.mem_map.mpr ⟨(i, keys), hk, rfl⟩⟩, ?_⟩
  obtain ⟨hshape, hroot, _⟩ := hst.matches_ i keys hk
  rcases hshape with rfl | ⟨rest, rfl, h0⟩
  · left
    have hs : s = A.root := by
      rcases hroot with h | h
      · exact h
      · exact absurd rfl h
    have hret' : strPosMap.retain m₁ [] = some mm := hret
    rw [retain_nil] at hret'
    exact ⟨(Option.some.inj hret').symm, hs⟩
  · right
    rcases hinv.shape with rfl | ⟨a, L, rfl, ha, hL1, hL2⟩
    · obtain ⟨a, ha, _, hmm⟩ := (emit_unbound h rest h0 mm).mp ⟨m₁, hm₁, hret⟩
      have hs : s = A.root := by
        rcases hinv with ⟨_, hs | hB⟩ | ⟨_, _, _, _, _, _, _, hm⟩
        · exact hs
        · omega
        · cases hm
      exact ⟨a, _, hmm, ha, .inl ⟨rfl, hs⟩⟩
    · obtain ⟨_, hmm⟩ := (emit_bound h a L rest h0 hL1 hL2 mm).mp ⟨m₁, hm₁, hret⟩
      exact ⟨a, _, hmm, ha, .inr ⟨L, rfl⟩⟩

/-! ### one expansion emits no match twice -/

/-- The anchor of a position map. -/
def anchorOf : StrPos → Nat
  | .unbound => 0
  | .bound a _ => a

theorem retainAll_map_eq {β : Type} (f : StrPos → β) (keys : List Nat) :
    ∀ (cands ms : List StrPos), retainAll strDomain keys cands = .ok ms →
      (∀ c ∈ cands, ∀ r, strPosMap.retain c keys = some r → f r = f c) →
      ms.map f = cands.map f := by
  intro cands
  induction cands with
  | nil =>
    intro ms hr _
    simp only [retainAll, Except.ok.injEq] at hr
    subst hr; rfl
  | cons c cs ih =>
    intro ms hr hf
    unfold retainAll at hr
    split at hr
    · cases hr
    · rename_i r hc
      split at hr
      · cases hr
      · rename_i rs hrs
        cases hr
        rw [List.map_cons, List.map_cons, hf c List.mem_cons_self r hc,
          ih rs hrs fun c' hc' => hf c' (List.mem_cons_of_mem _ hc')]

theorem retainAll_length_eq (keys : List Nat) (cands ms : List StrPos)
    (hr : retainAll strDomain keys cands = .ok ms) : ms.length = cands.length := by
  have := retainAll_map_eq (fun _ => ()) keys cands ms hr (fun _ _ _ _ => rfl)
  simpa using congrArg List.length this

theorem nodup_of_length_le_one {α : Type} : ∀ (l : List α), l.length ≤ 1 → l.Nodup
  | [], _ => List.nodup_nil
  | [_], _ => by simp
  | _ :: _ :: _, h => by simp at h

/-- `flatMap` of at most one element per index, followed by a map that recovers the index, is a
sublist of the index list. -/
theorem flatMap_map_sublist {α β : Type} (f : β → α) (g : α → List β) :
    ∀ l : List α, (∀ a ∈ l, g a = [] ∨ ∃ b, g a = [b] ∧ f b = a) →
      ((l.flatMap g).map f).Sublist l
  | [], _ => List.Sublist.slnil
  | a :: l, H => by
    have ih := flatMap_map_sublist f g l fun a' ha' => H a' (List.mem_cons_of_mem _ ha')
    rw [List.flatMap_cons, List.map_append]
    rcases H a List.mem_cons_self with h0 | ⟨b, hb, hfb⟩
    · rw [h0]
      exact List.Sublist.cons _ ih
    · rw [hb, List.map_cons, List.map_nil, hfb]
      exact List.Sublist.cons₂ _ ih

theorem flatMap_congr' {α β : Type} (f g : α → List β) :
    ∀ l : List α, (∀ a ∈ l, f a = g a) → l.flatMap f = l.flatMap g
  | [], _ => rfl
  | a :: l, H => by
    rw [List.flatMap_cons, List.flatMap_cons, H a List.mem_cons_self,
      flatMap_congr' f g l fun a' ha' => H a' (List.mem_cons_of_mem _ ha')]

/-- The candidates for a key list `0 :: rest` at the unbound map: one per anchor at which every
key can be bound. -/
theorem bindAll_unbound_keys (h : List Nat) (rest : List Nat) :
    bindAll strPosMap strOpts h .unbound (0 :: rest) false =
      (List.range (strByteLen h)).flatMap fun a =>
        if false = true ∨ ∀ k ∈ rest, a + k < strByteLen h then
          [.bound a (ext (strByteLen h) a 1 rest)] else [] := by
  rw [c13_cons, extend_unbound_zero h false (.inl rfl), List.flatMap_map]
  apply flatMap_congr'
  intro a ha
  have ha' : a < strByteLen h := List.mem_range.mp ha
  exact bindAll_bound h a false rest 1 (Nat.le_refl _) (by omega)

/-- The retained candidates of one accepted pattern are pairwise different. -/
theorem retained_nodup {m : StrPos} {keys : List Nat} {ms : List StrPos}
    (hm : m = .unbound ∨ ∃ a L, m = .bound a L ∧ a < strByteLen h ∧ 1 ≤ L ∧ a + L ≤ strByteLen h)
    (hk : keys = [] ∨ ∃ rest, keys = 0 :: rest ∧ 0 ∉ rest)
    (hr : retainAll strDomain keys (bindAll strPosMap strOpts h m
      (keys.filter fun k => (strPosMap.get m k).isNone) false) = .ok ms) : ms.Nodup := by
  rcases hm with rfl | ⟨a, L, rfl, _, hL1, hL2⟩
  · rcases hk with rfl | ⟨rest, rfl, h0⟩
    · apply nodup_of_length_le_one
      rw [retainAll_length_eq _ _ _ hr]
      simp [bindAll, bindAllLoop]
    · have hf : ((0 :: rest).filter fun k => (strPosMap.get .unbound k).isNone) = 0 :: rest := by
        apply List.filter_eq_self.mpr
        intro k _; rfl
      rw [hf, bindAll_unbound_keys] at hr
      -- the anchors of the retained candidates form a sublist of `range`
      have hmap := retainAll_map_eq anchorOf (0 :: rest) _ ms hr (by
        intro c hc r hcr
        obtain ⟨a, _, hca⟩ := List.mem_flatMap.mp hc
        split at hca
        · rw [List.mem_singleton] at hca
          subst hca
          have hge := ext_ge (strByteLen h) a rest 1
          rw [retain_bound a _ rest hge h0] at hcr
          cases hcr
          rfl
        · cases hca)
      have hsub := flatMap_map_sublist anchorOf
        (fun a => if false = true ∨ ∀ k ∈ rest, a + k < strByteLen h then
          [StrPos.bound a (ext (strByteLen h) a 1 rest)] else [])
        (List.range (strByteLen h)) (by
          intro a _
          split
          · exact .inr ⟨_, rfl, rfl⟩
          · exact .inl rfl)
      have hnd : (ms.map anchorOf).Nodup := by
        rw [hmap]
        exact List.nodup_range.sublist hsub
      exact List.Pairwise.of_map anchorOf (fun _ _ hne heq => hne (heq ▸ rfl)) hnd
  · apply nodup_of_length_le_one
    rw [retainAll_length_eq _ _ _ hr, bindAll_bound h a false _ L hL1 hL2]
    split <;> simp

/-- One expansion emits no match twice. -/
theorem emit_nodup_aux {m : StrPos}
    (hm : m = .unbound ∨ ∃ a L, m = .bound a L ∧ a < strByteLen h ∧ 1 ≤ L ∧ a + L ≤ strByteLen h) :
    ∀ (pats : List (Nat × List Nat)) (em : List (Match StrPos)),
      (∀ pk ∈ pats, pk.2 = [] ∨ ∃ rest, pk.2 = 0 :: rest ∧ 0 ∉ rest) →
      (pats.map (·.1)).Nodup → emitMatches strDomain h m pats = .ok em → em.Nodup := by
  intro pats
  induction pats with
  | nil =>
    intro em _ _ he
    simp only [emitMatches, Except.ok.injEq] at he
    subst he
    exact List.nodup_nil
  | cons pk rest ih =>
    intro em hsh hnd he
    obtain ⟨pid₀, keys₀⟩ := pk
    simp only [emitMatches, emit_cands_eq] at he
    split at he
    · cases he
    · rename_i ms hms
      split at he
      · cases he
      · rename_i more hmore
        simp only [Except.ok.injEq] at he
        subst he
        rw [List.map_cons, List.nodup_cons] at hnd
        have hms' : ms.Nodup := retained_nodup hm (hsh (pid₀, keys₀) List.mem_cons_self) hms
        rw [List.nodup_append]
        refine ⟨List.Pairwise.map _ (fun x y hxy heq => hxy (Prod.mk.inj heq).2) hms',
          ih more (fun pk hpk => hsh pk (List.mem_cons_of_mem _ hpk)) hnd.2 hmore, ?_⟩
        intro x hx y hy hxy
        subst hxy
        obtain ⟨x', _, rfl⟩ := List.mem_map.mp hx
        obtain ⟨keys, hk, _⟩ := (mem_emitMatches hmore pid₀ x').mp hy
        exact hnd.1 (List.mem_map.mpr ⟨(pid₀, keys), hk, rfl⟩)

theorem emit_nodup {s : Nat} {w : AState Nat} {m : StrPos} {em : List (Match StrPos)}
    (hst : StateOK A ps s w) (hinv : Inv2 A h s m) (hnd : (w.matches_.map (·.1)).Nodup)
    (he : emitMatches strDomain h m w.matches_ = .ok em) : em.Nodup :=
  emit_nodup_aux hinv.shape w.matches_ em
    (fun pk hpk => (hst.matches_ pk.1 pk.2 hpk).1) hnd he

/-! ### two configurations emitting a common match are equal -/

theorem config_eq_of_common (hU : ∀ a, Unamb (strSigma h a) A)
    {s s' : Nat} {w w' : AState Nat} {m m' : StrPos} {em em' : List (Match StrPos)}
    (hw : A.g.weight? s = some w) (hw' : A.g.weight? s' = some w')
    (hst : StateOK A ps s w) (hst' : StateOK A ps s' w')
    (hinv : Inv2 A h s m) (hinv' : Inv2 A h s' m')
    (he : emitMatches strDomain h m w.matches_ = .ok em)
    (he' : emitMatches strDomain h m' w'.matches_ = .ok em')
    {x : Match StrPos} (hx : x ∈ em) (hx' : x ∈ em') : s = s' ∧ m = m' := by
  obtain ⟨i, mm⟩ := x
  obtain ⟨hi, hc⟩ := emit_mem_cases hw hst hinv he hx
  obtain ⟨hi', hc'⟩ := emit_mem_cases hw' hst' hinv' he' hx'
  -- a bound configuration at an accepting root is impossible
  have noroot : ∀ {m₀ : StrPos} {a L : Nat}, Inv2 A h A.root m₀ → A.Ids A.root i →
      m₀ = .bound a L → False := by
    intro m₀ a L hinv0 hi0 hm0
    rcases hinv0 with ⟨hu, _⟩ | ⟨a0, p, wp, _, _, hrun, hstep, _⟩
    · rw [hu] at hm0; cases hm0
    · exact (hU a0).root p i hi0 hrun hstep
  rcases hc with ⟨rfl, hs⟩ | ⟨a, len, rfl, ha, hcase⟩
  · -- the empty pattern: both at the root, both unbound
    rcases hc' with ⟨_, hs'⟩ | ⟨_, _, hmm, _⟩
    · subst hs; subst hs'
      refine ⟨rfl, ?_⟩
      rcases hinv.shape with rfl | ⟨a, L, rfl, _⟩
      · rcases hinv'.shape with rfl | ⟨a', L', rfl, _⟩
        · rfl
        · exact (noroot hinv' hi' rfl).elim
      · exact (noroot hinv hi rfl).elim
    · cases hmm
  · rcases hc' with ⟨hmm, _⟩ | ⟨a', len', hmm, _, hcase'⟩
    · cases hmm
    · cases hmm
      rcases hcase with ⟨rfl, hs⟩ | ⟨L, rfl⟩
      · rcases hcase' with ⟨rfl, hs'⟩ | ⟨L', rfl⟩
        · exact ⟨hs.trans hs'.symm, rfl⟩
        · -- unbound at the root versus bound at `s'`
          subst hs
          rcases hinv' with ⟨hu, _⟩ | ⟨a0, p, wp, _, _, hrun, hstep, hm0⟩
          · cases hu
          · cases hm0
            have hs' : A.root = s' :=
              (hU a).ids _ _ i (RunTo.root _ _) (hrun.step hstep) hi hi'
            subst hs'
            exact ((hU a).root p i hi hrun hstep).elim
      · rcases hcase' with ⟨rfl, hs'⟩ | ⟨L', rfl⟩
        · subst hs'
          rcases hinv with ⟨hu, _⟩ | ⟨a0, p, wp, _, _, hrun, hstep, hm0⟩
          · cases hu
          · cases hm0
            have hs : A.root = s :=
              (hU a).ids _ _ i (RunTo.root _ _) (hrun.step hstep) hi' hi
            subst hs
            exact ((hU a).root p i hi hrun hstep).elim
        · -- both bound at anchor `a`
          rcases hinv with ⟨hu, _⟩ | ⟨a0, p, wp, _, hwp, hrun, hstep, hm0⟩
          · cases hu
          · rcases hinv' with ⟨hu, _⟩ | ⟨a0', p', wp', _, hwp', hrun', hstep', hm0'⟩
            · cases hu
            · cases hm0
              cases hm0'
              have hs : s = s' :=
                (hU a).ids _ _ i (hrun.step hstep) (hrun'.step hstep') hi hi'
              subst hs
              have hp : p = p' := (hU a).par s p p' i hi hrun hrun' hstep hstep'
              subst hp
              rw [hwp] at hwp'
              cases hwp'
              exact ⟨rfl, rfl⟩

/-! ### the run -/

/-- Concatenation of per-item lists is duplicate-free when each list is, the items have pairwise
different keys and two items sharing an element have the same key. -/
theorem nodup_flatten_of_keys {α β κ : Type} (key : α → κ → Prop) (emit : α → List β → Prop) :
    ∀ (exp : List α) (seen : List κ) (ems : List (List β)),
      Forall2 key exp seen → Forall2 emit exp ems → seen.Nodup →
      (∀ x ∈ exp, ∀ em, emit x em → em.Nodup) →
      (∀ x ∈ exp, ∀ x' ∈ exp, ∀ em em' k k', emit x em → emit x' em' → key x k → key x' k' →
        (∃ b, b ∈ em ∧ b ∈ em') → k = k') →
      ems.flatten.Nodup := by
  intro exp
  induction exp with
  | nil =>
    intro seen ems _ hE _ _ _
    cases hE
    exact List.nodup_nil
  | cons x xs ih =>
    intro seen ems hK hE hnd hem hdisj
    cases hK with
    | cons hk hK' =>
      cases hE with
      | cons he hE' =>
        rename_i k ks em ems'
        rw [List.nodup_cons] at hnd
        rw [List.flatten_cons, List.nodup_append]
        refine ⟨hem x List.mem_cons_self em he,
          ih ks ems' hK' hE' hnd.2 (fun y hy => hem y (List.mem_cons_of_mem _ hy))
            (fun y hy y' hy' => hdisj y (List.mem_cons_of_mem _ hy) y' (List.mem_cons_of_mem _ hy')),
          ?_⟩
        intro b hb b' hb' hbb
        subst hbb
        obtain ⟨em', hem', hbem'⟩ := List.mem_flatten.mp hb'
        obtain ⟨x', hx', hex'⟩ := hE'.mem_right hem'
        obtain ⟨k', hk', hkx'⟩ := hK'.mem_left hx'
        have := hdisj x List.mem_cons_self x' (List.mem_cons_of_mem _ hx') em em' k k' he hex' hk
          hkx' ⟨b, hb, hbem'⟩
        subst this
        exact hnd.1 hk'

/-- **No match is reported twice** by the traversal of an unambiguous string automaton whose
states are OK. -/
theorem run_nodup (A : Automaton Nat CharPred) (ps : List (List CharVar)) (h : List Nat)
    (fuel : Nat) (ms : List (Match StrPos)) (seen : List (Nat × List (Option Nat)))
    (hok : StrProg.AllOK A ps) (hU : ∀ a, Unamb (strSigma h a) A) (hN : IdsNodup A)
    (hr : run strDomain A h fuel = .ok (ms, seen)) : ms.Nodup := by
  obtain ⟨exp, hK, hnd, ⟨ems, hE, rfl⟩, hreach⟩ := trun_expanded hr
  refine nodup_flatten_of_keys _ _ exp seen ems hK hE hnd ?_ ?_
  · rintro ⟨s, m⟩ hsm em ⟨w, hw, he⟩
    exact emit_nodup (hok s w hw) (reach_inv2 hok (hreach _ hsm)) (hN s w hw) he
  · rintro ⟨s, m⟩ hsm ⟨s', m'⟩ hsm' em em' k k' ⟨w, hw, he⟩ ⟨w', hw', he'⟩ ⟨w₁, hw₁, hk⟩
      ⟨w₁', hw₁', hk'⟩ ⟨b, hb, hb'⟩
    simp only at hw hw' he he' hw₁ hw₁' hk hk'
    obtain ⟨hs, hm⟩ := config_eq_of_common hU hw hw' (hok s w hw) (hok s' w' hw')
      (reach_inv2 hok (hreach _ hsm)) (reach_inv2 hok (hreach _ hsm')) he he' hb hb'
    subst hs; subst hm
    rw [hw₁] at hw₁'
    cases hw₁'
    rw [hk, hk']

end C07
end Pm
