/-
Proofs/MatProgRun.lean — the anchored traversal theorem for matrices (T-RUN-ANCH-MAT,
`Proofs/AnchMReach.lean` / `Proofs/AnchMRun.lean`) re-derived from the hypothesis it actually
uses: every live state satisfies `Pm.AnchM.StateOK` (`AllOK`), instead of the decidable
per-program check `matProgramOK` (the clauses "at most one fallback" and "fallback entries are
constraint-free live edges" of the check are never used). The proofs are those of
`AnchM.reach_inv`, `AnchM.twin`, `AnchM.complete_aux`, `AnchM.trun_mat_sound`,
`AnchM.trun_mat_complete`, `AnchM.trun_mat_main` with `stateOK_of_programOK hok hw` replaced by
the hypothesis. Everything lives in `namespace Pm.MatProg`.
-/
import PmVerif.Proofs.AnchMRun
namespace Pm
namespace MatProg
open Automaton AnchM

/-- Every live state satisfies the per-state conditions of the matrix traversal theorem. -/
def AllOK (A : Automaton MKey CharPred) (ps : List MatPattern) : Prop :=
  ∀ s w, A.g.weight? s = some w → StateOK A ps s w

theorem allOK_of_programOK {A : Automaton MKey CharPred} {ps : List MatPattern}
    (hok : matProgramOK A ps = true) : AllOK A ps := fun _ _ hw => stateOK_of_programOK hok hw

variable {A : Automaton MKey CharPred} {ps : List MatPattern} {h : MatHost}

theorem reach_inv (hok : AllOK A ps) {s : Nat} {m : MatPos}
    (hr : Reach matDomain A h s m) : AnchM.Inv A h s m := by
  induction hr with
  | root => exact .inl ⟨rfl, .inl rfl⟩
  | @con s m w cands m' t e q _ hw hc hm' ht he hcw hsat ih =>
    have hst := hok _ _ hw
    have hne : w.scope ≠ [] := hst.scope_ne (.inl (List.ne_nil_of_mem ht))
    rcases cands_cases hst hne ih hc hm' with ⟨rfl, hB⟩ | ⟨r, c, R, C, hcell, rfl, hR, hC, hcov, hpath⟩
    · exact .inl ⟨rfl, .inr hB⟩
    · refine .inr ⟨r, c, R, C, rfl, hcell, hR, hC, fun pid ks hacc => hpath pid ks ?_⟩
      rw [sat_cand hst ht he hcw r c R C hcov] at hsat
      exact AccDetK.con hw ht he hcw (Option.some.inj hsat) hacc
  | @eps s m w cands m' t e _ hw hc hm' ht he hd ih =>
    have hst := hok _ _ hw
    have hne : w.scope ≠ [] := hst.scope_ne (.inr (List.ne_nil_of_mem ht))
    rcases cands_cases hst hne ih hc hm' with ⟨rfl, hB⟩ | ⟨r, c, R, C, hcell, rfl, hR, hC, hcov, hpath⟩
    · exact .inl ⟨rfl, .inr hB⟩
    · refine .inr ⟨r, c, R, C, rfl, hcell, hR, hC, fun pid ks hacc => hpath pid ks ?_⟩
      exact AccDetK.eps hw ht he ((eps_cond_iff hst r c R C hcov).mp hd) hacc


/-! ### completeness along an acceptance path -/

section Complete
variable {fuel : Nat} {ms : List (Match MatPos)} {seen : List (Nat × List (Option MVal))}

/-- A good configuration whose key is in the visit log has an expanded twin that is good for
the same anchor. -/
theorem twin {exp : List (Nat × MatPos)} {r c s : Nat} {m : MatPos} {w : AState MKey}
    (hok : AllOK A ps)
    (hF : Forall2 (fun sm key => ∃ w, A.g.weight? sm.1 = some w ∧
      key = (sm.1, visitKey matDomain w sm.2)) exp seen)
    (hreach : ∀ sm ∈ exp, Reach matDomain A h sm.1 sm.2)
    (hw : A.g.weight? s = some w) (hg : AnchM.Good A r c s m)
    (h0 : (0, 0) ∈ w.scope ++ dedup (w.matches_.flatMap (·.2)))
    (hkey : (s, visitKey matDomain w m) ∈ seen) :
    ∃ m₂, (s, m₂) ∈ exp ∧ AnchM.Good A r c s m₂ := by
  obtain ⟨⟨s', m₂⟩, hmem, w', hw', heq⟩ := hF.mem_right hkey
  simp only [Prod.mk.injEq] at heq
  obtain ⟨rfl, hk⟩ := heq
  rw [hw] at hw'
  cases hw'
  exact ⟨m₂, hmem, good_of_key hg (reach_inv hok (hreach _ hmem)) h0 hk.symm⟩

theorem complete_aux (hok : AllOK A ps)
    (hr : run matDomain A h fuel = .ok (ms, seen)) (r c : Nat)
    (hcell : (matCell h r c).isSome = true)
    (pid : Nat) (ks : List MKey) (hne : ks ≠ []) (hb : ∀ k ∈ ks, matCellAt h r c k = true)
    (s : Nat) (hacc : AccDetK (matSigma h r c) A s pid ks) :
    ∀ m, AnchM.Good A r c s m → (∀ w, A.g.weight? s = some w → (s, visitKey matDomain w m) ∈ seen) →
      (pid, MatPos.bound r c 0 0 (boxMax ks).1 (boxMax ks).2) ∈ ms := by
  obtain ⟨_, exp, hF, ⟨ems, hE, rfl⟩, hreach, hclosed⟩ := trun_closed hr
  induction hacc with
  | @here s pid ks w hw hmem =>
    intro m hg hkey
    have hst := hok _ _ hw
    have h0 : (0, 0) ∈ w.scope ++ dedup (w.matches_.flatMap (·.2)) := by
      apply List.mem_append_right
      rw [Baseline.mem_dedup, List.mem_flatMap]
      refine ⟨(pid, ks), hmem, ?_⟩
      rcases (hst.matches_ pid ks hmem).1 with h | ⟨rest, h, _⟩
      · exact absurd h hne
      · rw [h]; exact List.mem_cons_self
    obtain ⟨m₂, hexp, hg₂⟩ := twin hok hF hreach hw hg h0 (hkey w hw)
    obtain ⟨em, hem, w', hw', he⟩ := hE.mem_left hexp
    rw [hw] at hw'
    cases hw'
    exact List.mem_flatten.mpr ⟨em, hem, good_emit hcell hst hg₂ hmem hne hb he⟩
  | @con s pid ks w t e q hw ht he hcw hsig _ ih =>
    intro m hg hkey
    have hst := hok _ _ hw
    have hsne : w.scope ≠ [] := hst.scope_ne (.inl (List.ne_nil_of_mem ht))
    have h0 : (0, 0) ∈ w.scope ++ dedup (w.matches_.flatMap (·.2)) := by
      apply List.mem_append_left
      rcases hst.scope_shape with h | ⟨rest, h, _⟩
      · exact absurd h hsne
      · rw [h]; exact List.mem_cons_self
    obtain ⟨m₂, hexp, hg₂⟩ := twin hok hF hreach hw hg h0 (hkey w hw)
    obtain ⟨nexts, hn, hcl⟩ := hclosed _ hexp
    obtain ⟨cands, R, C, hc, hcand, hR, hC, hcov⟩ := good_step hcell hst hsne hg₂
    have hnext : (e.dst, MatPos.bound r c 0 0 R C) ∈ nexts :=
      (mem_nextLegalStates hn _ _).mpr ⟨w, cands, hw, hc, hcand,
        .inl ⟨t, e, q, ht, he, hcw, by rw [sat_cand hst ht he hcw r c R C hcov, hsig], rfl⟩⟩
    obtain ⟨w', hw', hseen⟩ := hcl _ hnext
    refine ih hne hb _ (.inr ⟨R, C, rfl, hR, hC⟩) ?_
    intro w'' hw''
    rw [hw'] at hw''
    cases hw''
    exact hseen
  | @eps s pid ks w t e hw ht he hd _ ih =>
    intro m hg hkey
    have hst := hok _ _ hw
    have hsne : w.scope ≠ [] := hst.scope_ne (.inr (List.ne_nil_of_mem ht))
    have h0 : (0, 0) ∈ w.scope ++ dedup (w.matches_.flatMap (·.2)) := by
      apply List.mem_append_left
      rcases hst.scope_shape with h | ⟨rest, h, _⟩
      · exact absurd h hsne
      · rw [h]; exact List.mem_cons_self
    obtain ⟨m₂, hexp, hg₂⟩ := twin hok hF hreach hw hg h0 (hkey w hw)
    obtain ⟨nexts, hn, hcl⟩ := hclosed _ hexp
    obtain ⟨cands, R, C, hc, hcand, hR, hC, hcov⟩ := good_step hcell hst hsne hg₂
    have hnext : (e.dst, MatPos.bound r c 0 0 R C) ∈ nexts :=
      (mem_nextLegalStates hn _ _).mpr ⟨w, cands, hw, hc, hcand,
        .inr ⟨t, e, ht, he, (eps_cond_iff hst r c R C hcov).mpr hd, rfl⟩⟩
    obtain ⟨w', hw', hseen⟩ := hcl _ hnext
    refine ih hne hb _ (.inr ⟨R, C, rfl, hR, hC⟩) ?_
    intro w'' hw''
    rw [hw'] at hw''
    cases hw''
    exact hseen

end Complete

/-! ### the theorems -/

/-! ### the theorems -/

/-- **T-RUN-ANCH-MAT, soundness** (from `AllOK`, no further hypothesis). -/
theorem trun_mat_sound (A : Automaton MKey CharPred) (ps : List MatPattern) (h : MatHost)
    (fuel : Nat) (ms : List (Match MatPos)) (seen : List (Nat × List (Option MVal)))
    (hok : AllOK A ps) (hr : run matDomain A h fuel = .ok (ms, seen))
    (i : Nat) (m : MatPos) (hm : (i, m) ∈ ms) :
    (m = .unbound ∧ ∃ w, A.g.weight? A.root = some w ∧ (i, []) ∈ w.matches_) ∨
    (∃ r c ks, (matCell h r c).isSome = true ∧ ks ≠ [] ∧
      AccDetK (matSigma h r c) A A.root i ks ∧
      m = .bound r c 0 0 (boxMax ks).1 (boxMax ks).2) := by
  obtain ⟨s, m0, w, keys, hreach, hw, hk, m₁, hm₁, hret⟩ := trun_sound hr i m hm
  have hst := hok _ _ hw
  have hinv := reach_inv hok hreach
  obtain ⟨hshape, hroot, hnn, _⟩ := hst.matches_ i keys hk
  rcases hshape with rfl | ⟨rest, rfl, h0⟩
  · left
    have hs : s = A.root := by
      rcases hroot with h | h
      · exact h
      · exact absurd rfl h
    subst hs
    have : m = .unbound := by
      have hret' : matPosMap.retain m₁ [] = some m := hret
      rw [retain_nil] at hret'
      exact (Option.some.inj hret').symm
    exact ⟨this, w, hw, hk⟩
  · right
    rcases hinv with ⟨rfl, hs⟩ | ⟨r, c, R, C, rfl, hcell, hR, hC, hpath⟩
    · obtain ⟨v, hv, hmm⟩ := emit_unbound_sound h rest h0 (NN_tail hnn) m ⟨m₁, hm₁, hret⟩
      have hs' : s = A.root := by
        rcases hs with h | h
        · exact h
        · rw [h] at hv; cases hv
      subst hs'
      exact ⟨v.1, v.2, _, (mem_matAllCells h v).mp hv, by simp, AccDetK.here hw hk, hmm⟩
    · have hmm := emit_bound_sound h r c R C rest h0 (NN_tail hnn) hR hC m ⟨m₁, hm₁, hret⟩
      exact ⟨r, c, _, hcell, by simp, hpath _ _ (AccDetK.here hw hk), hmm⟩

/-- **T-RUN-ANCH-MAT, completeness** (from `AllOK`, no further hypothesis). -/
theorem trun_mat_complete (A : Automaton MKey CharPred) (ps : List MatPattern) (h : MatHost)
    (fuel : Nat) (ms : List (Match MatPos)) (seen : List (Nat × List (Option MVal)))
    (hok : AllOK A ps) (hr : run matDomain A h fuel = .ok (ms, seen))
    (i : Nat) (m : MatPos)
    (hrhs : (m = .unbound ∧ ∃ w, A.g.weight? A.root = some w ∧ (i, []) ∈ w.matches_) ∨
      (∃ r c ks, (matCell h r c).isSome = true ∧ ks ≠ [] ∧
        AccDetK (matSigma h r c) A A.root i ks ∧
        (∀ k ∈ ks, (matCell h (r + k.1.toNat) (c + k.2.toNat)).isSome = true) ∧
        m = .bound r c 0 0 (boxMax ks).1 (boxMax ks).2)) :
    (i, m) ∈ ms := by
  rcases hrhs with ⟨rfl, w, hw, hk⟩ | ⟨r, c, ks, hcell, hne, hacc, hb, rfl⟩
  · obtain ⟨⟨wr, hwr, hrk⟩, exp, hF, ⟨ems, hE, rfl⟩, _, _⟩ := trun_closed hr
    obtain ⟨⟨s', m₂⟩, hmem, w', hw', heq⟩ := hF.mem_right hrk
    simp only [Prod.mk.injEq] at heq
    obtain ⟨rfl, _⟩ := heq
    obtain ⟨em, hem, w'', hw'', he⟩ := hE.mem_left hmem
    rw [hw] at hw''
    cases hw''
    refine List.mem_flatten.mpr ⟨em, hem, (mem_emitMatches he _ _).mpr ⟨[], hk, m₂, ?_, ?_⟩⟩
    · exact List.mem_singleton.mpr rfl
    · exact retain_nil m₂
  · obtain ⟨⟨wr, hwr, hrk⟩, _⟩ := trun_closed hr
    refine complete_aux hok hr r c hcell i ks hne hb A.root hacc .unbound (.inl ⟨rfl, rfl⟩) ?_
    intro w hw
    rw [hwr] at hw
    cases hw
    exact hrk

/-- **T-RUN-ANCH-MAT.** -/
theorem trun_mat_main (A : Automaton MKey CharPred) (ps : List MatPattern) (h : MatHost)
    (fuel : Nat) (ms : List (Match MatPos)) (seen : List (Nat × List (Option MVal)))
    (hok : AllOK A ps) (hwit : KeysWitnessed A h)
    (hr : run matDomain A h fuel = .ok (ms, seen)) (i : Nat) (m : MatPos) :
    (i, m) ∈ ms ↔
      (m = .unbound ∧ ∃ w, A.g.weight? A.root = some w ∧ (i, []) ∈ w.matches_) ∨
      (∃ r c ks, (matCell h r c).isSome = true ∧ ks ≠ [] ∧
        AccDetK (matSigma h r c) A A.root i ks ∧
        (∀ k ∈ ks, (matCell h (r + k.1.toNat) (c + k.2.toNat)).isSome = true) ∧
        m = .bound r c 0 0 (boxMax ks).1 (boxMax ks).2) := by
  constructor
  · intro hm
    rcases trun_mat_sound A ps h fuel ms seen hok hr i m hm with h1 | ⟨r, c, ks, hcell, hne, hacc, hmm⟩
    · exact .inl h1
    · exact .inr ⟨r, c, ks, hcell, hne, hacc, hwit r c i ks hcell hacc, hmm⟩
  · exact trun_mat_complete A ps h fuel ms seen hok hr i m

end MatProg
end Pm
