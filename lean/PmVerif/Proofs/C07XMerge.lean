/-
Proofs/C07XMerge.lean — C07 (multiplicities), builder part: the merge step of the builder
(`mergeLoop`, `doMerge`, `mergesLogged`) preserves the invariant `XB` (Proofs/C07XDefs.lean).

`xb_fold`: folding a state `n` into its twin `first` (`Fold`, Proofs/BuildMerge.lean). Twins accept
the same ids below them, so wherever the two were reachable side by side through non-exclusive
transitions nothing is accepted below either. `doMerge_induct` / `mergesLogged_induct`: whatever
is preserved by folding a twin is preserved by the merge step (the inductions of `doMerge_spec`,
`mergeLoop_spec`, `mergesLogged_spec`).
Everything lives in `namespace Pm.C07`.
-/
import PmVerif.Proofs.C07XDefs
import PmVerif.Proofs.BuildMerge
namespace Pm
namespace C07
open Automaton
variable {K P : Type}

/-- Folding the state `n` into its twin `first` preserves `XB`. -/
theorem xb_fold {Mx : Constraint K P → Constraint K P → Prop} {a a' : Automaton K P}
    {first n : Nat} (f : Fold a a' first n) (inv : Inv a) (hne : first ≠ n)
    (tw : Twin a first n) (X : XB Mx a) : XB Mx a' := by
  have below_back : ∀ {x i : Nat}, Below a' x i → Below a x i := fun h => f.acc_back inv tw h
  have twin_below : ∀ {i : Nat}, Below a first i ↔ Below a n i := fun {i} => tw.lang inv.ok i
  have live_src : ∀ {x d : Nat} {c : Option (Constraint K P)}, HasEdge a' x d c → x ≠ n := by
    rintro x d c ⟨t, ht⟩
    obtain ⟨w', hw'⟩ := live_iff.1 (f.inv.ok.src_live ht)
    exact (f.wt' x w' hw').1
  have excl_back : ∀ {x : Nat} {c1 c2 : Option (Constraint K P)}, x ≠ n →
      ¬ Excl Mx a' x c1 c2 → ¬ Excl Mx a x c1 c2 :=
    fun hx hex h => hex (h.mono (f.det_fwd hx))
  refine ⟨?_, ?_, ?_⟩
  · intro x d1 d2 c1 c2 h1 h2 hd hex i hb1 hb2
    have hx := live_src h1
    have hexa := excl_back hx hex
    rcases f.sound _ _ _ h1 with ⟨e1, _, _⟩ | ⟨hd1, e1⟩
    · rcases f.sound _ _ _ h2 with ⟨e2, _, _⟩ | ⟨hd2, e2⟩
      · exact X.sib x d1 d2 c1 c2 e1 e2 hd hexa i (below_back hb1) (below_back hb2)
      · subst hd2
        have hdn : d1 ≠ n := by
          obtain ⟨t, ht⟩ := h1
          obtain ⟨w', hw'⟩ := live_iff.1 (f.inv.ok.dst_live ht)
          exact (f.wt' d1 w' hw').1
        exact X.sib x d1 n c1 c2 e1 e2 hdn hexa i (below_back hb1)
          (twin_below.1 (below_back hb2))
    · subst hd1
      rcases f.sound _ _ _ h2 with ⟨e2, _, hdn⟩ | ⟨hd2, _⟩
      · exact X.sib x n d2 c1 c2 e1 e2 (Ne.symm hdn) hexa i (twin_below.1 (below_back hb1))
          (below_back hb2)
      · exact hd hd2.symm
  · intro x i d c hi he hb
    rcases f.sound _ _ _ he with ⟨e, _, _⟩ | ⟨hd, e⟩
    · exact X.down x i d c (f.ids_back hi) e (below_back hb)
    · subst hd
      exact X.down x i n c (f.ids_back hi) e (twin_below.1 (below_back hb))
  · intro x d c1 c2 h1 h2 hc hex i hb
    have hx := live_src h1
    have hexa := excl_back hx hex
    rcases f.sound _ _ _ h1 with ⟨e1, _, _⟩ | ⟨hd1, e1⟩
    · rcases f.sound _ _ _ h2 with ⟨e2, _, _⟩ | ⟨hd2, e2⟩
      · exact X.par x d c1 c2 e1 e2 hc hexa i (below_back hb)
      · subst hd2
        exact X.sib x d n c1 c2 e1 e2 hne hexa i (below_back hb) (twin_below.1 (below_back hb))
    · subst hd1
      rcases f.sound _ _ _ h2 with ⟨e2, _, _⟩ | ⟨_, e2⟩
      · exact X.sib x n d c1 c2 e1 e2 (Ne.symm hne) hexa i (twin_below.1 (below_back hb))
          (below_back hb)
      · exact X.par x n c1 c2 e1 e2 hc hexa i (twin_below.1 (below_back hb))

/-! ### induction principles for the merge step -/

section Induct
variable (Φ : Automaton K P → Prop)

/-- `mergeLoop` (same induction as `mergeLoop_spec`). -/
theorem mergeLoop_induct
    (hstep : ∀ {a a' : Automaton K P} {first n : Nat}, Inv a → first ≠ n → Twin a first n →
      Fold a a' first n → Φ a → Φ a') {first : Nat} :
    ∀ (rest : List Nat) {a a' : Automaton K P}, Inv a → Φ a → (first :: rest).Nodup →
    (∀ m ∈ rest, Twin a first m) →
    a.mergeLoop first rest = .ok a' → Inv a' ∧ Φ a'
  | [], a, a', inv, hΦ, _, _, h => by
    unfold mergeLoop at h; cases h; exact ⟨inv, hΦ⟩
  | n :: ns, a, a', inv, hΦ, hnd, htw, h => by
    unfold mergeLoop at h
    split at h
    · cases h
    · rename_i a1 hmv
      have tw : Twin a first n := htw n List.mem_cons_self
      rw [List.nodup_cons] at hnd
      obtain ⟨hfn, hnd'⟩ := hnd
      rw [List.nodup_cons] at hnd'
      have hne : first ≠ n := fun hx => hfn (hx ▸ List.mem_cons_self)
      have f := fold_of_merge inv hne (tw.no_edge inv) hmv
      refine mergeLoop_induct hstep ns f.inv (hstep inv hne tw f hΦ) ?_ ?_ h
      · exact List.nodup_cons.2 ⟨fun hm => hfn (List.mem_cons_of_mem _ hm), hnd'.2⟩
      · intro m hm
        have hmn : m ≠ n := fun hx => hnd'.1 (hx ▸ hm)
        exact f.twin inv hne hmn tw (htw m (List.mem_cons_of_mem _ hm))

variable [DecidableEq K] [DecidableEq P]

/-- `doMerge` (same case analysis as `doMerge_spec`). -/
theorem doMerge_induct
    (hstep : ∀ {a a' : Automaton K P} {first n : Nat}, Inv a → first ≠ n → Twin a first n →
      Fold a a' first n → Φ a → Φ a')
    {a a' : Automaton K P} {node : Nat} {nodes : List Nat} (inv : Inv a) (hΦ : Φ a)
    (h : a.doMerge node nodes = .ok a') : Inv a' ∧ Φ a' := by
  unfold doMerge at h
  split at h
  · cases h; exact ⟨inv, hΦ⟩
  · cases h; exact ⟨inv, hΦ⟩
  · rename_i first rest _
    split at h
    · cases h
    · split at h
      · cases h
      · rename_i hnd
        split at h
        · cases h
        · rename_i same hsame
          split at h
          · cases h
          · rename_i hall
            split at h
            · cases h
            · split at h
              · cases h
              · have hnd' : (first :: rest).Nodup := by
                  cases hd : decide (first :: rest).Nodup
                  · rw [hd] at hnd; exact absurd rfl hnd
                  · exact of_decide_eq_true hd
                have hall' : ∀ y ∈ same, y = true := by
                  cases hd : same.all id
                  · rw [hd] at hall; exact absurd rfl hall
                  · intro y hy
                    exact List.all_eq_true.1 hd y hy
                have htw : ∀ n ∈ first :: rest, Twin a node n := by
                  intro n hn
                  obtain ⟨y, hy, hf⟩ := mapR_mem_in hsame n hn
                  rw [hall' y hy] at hf
                  exact sameTuple_twin inv hf
                have hfirst := htw first List.mem_cons_self
                refine mergeLoop_induct Φ hstep rest inv hΦ hnd' ?_ h
                intro m hm
                exact hfirst.symm.trans (htw m (List.mem_cons_of_mem _ hm))

/-- `mergesLogged`. -/
theorem mergesLogged_induct
    (hstep : ∀ {a a' : Automaton K P} {first n : Nat}, Inv a → first ≠ n → Twin a first n →
      Fold a a' first n → Φ a → Φ a') :
    ∀ (evs : List Ev) {a a' : Automaton K P} {evs' : List Ev},
    Inv a → Φ a → a.mergesLogged evs = .ok (a', evs') → Inv a' ∧ Φ a' := by
  intro evs
  induction evs with
  | nil =>
    intro a a' evs' inv hΦ h
    unfold mergesLogged at h
    cases h
    exact ⟨inv, hΦ⟩
  | cons ev evs0 ih =>
    intro a a' evs' inv hΦ h
    cases ev with
    | merge n nodes =>
      unfold mergesLogged at h
      split at h
      · cases h
      · rename_i a1 hdm
        obtain ⟨inv1, hΦ1⟩ := doMerge_induct Φ hstep inv hΦ hdm
        exact ih inv1 hΦ1 h
    | _ =>
      unfold mergesLogged at h
      cases h
      exact ⟨inv, hΦ⟩

end Induct

/-- The merge step of the builder preserves `XB`. -/
theorem xb_mergesLogged [DecidableEq K] [DecidableEq P]
    {Mx : Constraint K P → Constraint K P → Prop} (evs : List Ev) {a a' : Automaton K P}
    {evs' : List Ev} (inv : Inv a) (X : XB Mx a) (h : a.mergesLogged evs = .ok (a', evs')) :
    XB Mx a' :=
  (mergesLogged_induct (XB Mx) (fun inv hne tw f X => xb_fold f inv hne tw X) evs inv X h).2

end C07
end Pm
