/-
Proofs/BuildCommon.lean — vocabulary shared by the per-step proofs of the builder: language
equality between two automata, the root-is-a-source invariant, contracts of the steps, and
generic lemmas for transferring `AccND` and `DetOKE`.
-/
import PmVerif.Proofs.AutomatonLoops
namespace Pm
namespace Automaton
variable {K P : Type}

/-- Every state live in both automata accepts the same ids (non-deterministic reading). -/
def LangEq (σ : Constraint K P → Bool) (a a' : Automaton K P) : Prop :=
  ∀ x, a.Live x → a'.Live x → ∀ pid, AccND σ a' x pid ↔ AccND σ a x pid

/-- The root is live and has no incoming transition. -/
def RootSrc (a : Automaton K P) : Prop :=
  a.Live a.root ∧ ∀ t e, a.g.edge? t = some e → e.dst ≠ a.root

/-- `s` is a live deterministic state. -/
def IsDet (a : Automaton K P) (s : Nat) : Prop := ∃ w, a.g.weight? s = some w ∧ w.det = true

/-- No target of a transition of `s` is deterministic. -/
def NonDetChildren (a : Automaton K P) (s : Nat) : Prop :=
  ∀ t e, a.g.edge? t = some e → e.src = s → ¬ IsDet a e.dst

/-- No state is deterministic. -/
def NoDet (a : Automaton K P) : Prop := ∀ s, ¬ IsDet a s

theorem LangEq.refl (σ : Constraint K P → Bool) (a : Automaton K P) : LangEq σ a a :=
  fun _ _ _ _ => Iff.rfl

/-- Composition of language equalities when no state is resurrected in between. -/
theorem LangEq.trans {σ : Constraint K P → Bool} {a a1 a2 : Automaton K P}
    (h1 : LangEq σ a a1) (h2 : LangEq σ a1 a2)
    (hmid : ∀ x, a.Live x → a2.Live x → a1.Live x) : LangEq σ a a2 :=
  fun x hx hx2 pid => (h2 x (hmid x hx hx2) hx2 pid).trans (h1 x hx (hmid x hx hx2) pid)

/-- Same edges and same accepted ids: same language. -/
theorem accND_congr {σ : Constraint K P → Bool} {a a' : Automaton K P} (ok : OrdersOK a)
    (ok' : OrdersOK a') (hids : ∀ x pid, a.Ids x pid → a'.Ids x pid)
    (hedge : ∀ t e, a.g.edge? t = some e → a'.g.edge? t = some e) {s pid : Nat}
    (h : AccND σ a s pid) : AccND σ a' s pid := by
  have := AccND.transfer (σ := σ) (a := a) (a' := a') ok (fun _ => True) id
    (fun s pid _ hi => .of_ids (hids s pid hi))
    (fun t e he _ hc => ⟨trivial, fun pid _ h' => AccND.of_edge ok' (hedge t e he) hc h'⟩) h trivial
  exact this

theorem detOKE_of_noDet {σ : Constraint K P → Bool} {a : Automaton K P} (h : NoDet a) :
    DetOKE σ a := fun s w hw hd => absurd ⟨w, hw, hd⟩ (h s)

/-- Generic preservation of `DetOKE`: every deterministic state of `a'` was deterministic in
`a`; each of its new edges is simulated, per accepted id, by an old edge with the same
constraint; each old constraint edge that holds is covered by the new constraint edges. -/
theorem detOKE_transfer {σ : Constraint K P → Bool} {a a' : Automaton K P}
    (dok : DetOKE σ a)
    (h : ∀ x, IsDet a' x → IsDet a x ∧
      (∀ t e, a'.g.edge? t = some e → e.src = x →
        (∃ t0 e0, a.g.edge? t0 = some e0 ∧ e0.src = x ∧ e0.w = e.w) ∧
        ∀ pid, AccND σ a' e.dst pid →
          ∃ t0 e0, a.g.edge? t0 = some e0 ∧ e0.src = x ∧ e0.w = e.w ∧ AccND σ a e0.dst pid) ∧
      (∀ pid, CAcc σ a x pid → CAcc σ a' x pid)) : DetOKE σ a' := by
  intro x w' hw' hd' hf pid hea
  obtain ⟨⟨w, hw, hd⟩, hnew, hold⟩ := h x ⟨w', hw', hd'⟩
  have hf0 : Fires σ a x := by
    obtain ⟨t, e, c, he, hs, hc, hσ⟩ := hf
    obtain ⟨⟨t0, e0, he0, hs0, hw0⟩, _⟩ := hnew t e he hs
    exact ⟨t0, e0, c, he0, hs0, hw0.trans hc, hσ⟩
  have hea0 : EAcc σ a x pid := by
    obtain ⟨t, e, he, hs, hn, hacc⟩ := hea
    obtain ⟨_, hsim⟩ := hnew t e he hs
    obtain ⟨t0, e0, he0, hs0, hw0, hacc0⟩ := hsim pid hacc
    exact ⟨t0, e0, he0, hs0, hw0.trans hn, hacc0⟩
  exact hold pid (dok x w hw hd hf0 pid hea0)

/-- Contract of the sub-steps of an iteration at `s` that preserve every language
(`make_constraints_unique`, `insert_constraint_tree`). -/
structure SubStep (σ : Constraint K P → Bool) (a a' : Automaton K P) (s : Nat) : Prop where
  inv : Inv a'
  root : a'.root = a.root
  rootSrc : RootSrc a → RootSrc a'
  live_s : a'.Live s
  lang : LangEq σ a a'
  detFlag : ∀ x, IsDet a' x → IsDet a x
  flag_s : IsDet a s → IsDet a' s
  children : ∀ t e, a'.g.edge? t = some e → e.src = s →
    ¬ a.Live e.dst ∨ ∃ t0 e0, a.g.edge? t0 = some e0 ∧ e0.src = s ∧ e0.dst = e.dst
  det : DetOKE σ a → DetOKE σ a'

theorem SubStep.refl {σ : Constraint K P → Bool} {a : Automaton K P} (inv : Inv a) {s : Nat}
    (hs : a.Live s) : SubStep σ a a s :=
  ⟨inv, rfl, id, hs, LangEq.refl σ a, fun _ h => h, id,
    fun t e he hsrc => .inr ⟨t, e, he, hsrc, rfl⟩, id⟩

theorem SubStep.nonDetChildren {σ : Constraint K P → Bool} {a a' : Automaton K P} {s : Nat}
    (st : SubStep σ a a' s) (h : NonDetChildren a s) : NonDetChildren a' s := by
  intro t e he hs hdet
  have hd0 := st.detFlag _ hdet
  rcases st.children t e he hs with hdead | ⟨t0, e0, he0, hs0, hd⟩
  · obtain ⟨w, hw, _⟩ := hd0
    exact hdead (live_of_weight hw)
  · exact h t0 e0 he0 hs0 (hd ▸ hd0)

/-- The composable part of `SubStep` (language equality between non-adjacent automata is not
transitive because state ids can be reused, so only the root language is kept). -/
structure Pres (σ : Constraint K P → Bool) (a a' : Automaton K P) (s : Nat) : Prop where
  inv : Inv a'
  root : a'.root = a.root
  rootSrc : RootSrc a → RootSrc a' ∧ ∀ pid, AccND σ a' a'.root pid ↔ AccND σ a a.root pid
  live_s : a'.Live s
  flag_s : IsDet a' s ↔ IsDet a s
  ndc : NonDetChildren a s → NonDetChildren a' s
  det : DetOKE σ a → DetOKE σ a'

theorem SubStep.pres {σ : Constraint K P → Bool} {a a' : Automaton K P} {s : Nat}
    (st : SubStep σ a a' s) : Pres σ a a' s where
  inv := st.inv
  root := st.root
  rootSrc rs := by
    have rs' := st.rootSrc rs
    refine ⟨rs', fun pid => ?_⟩
    rw [st.root]
    exact st.lang a.root rs.1 (st.root ▸ rs'.1) pid
  live_s := st.live_s
  flag_s := ⟨st.detFlag s, st.flag_s⟩
  ndc := st.nonDetChildren
  det := st.det

theorem Pres.refl {σ : Constraint K P → Bool} {a : Automaton K P} (inv : Inv a) {s : Nat}
    (hs : a.Live s) : Pres σ a a s := (SubStep.refl inv hs).pres

theorem Pres.trans {σ : Constraint K P → Bool} {a a1 a2 : Automaton K P} {s : Nat}
    (p1 : Pres σ a a1 s) (p2 : Pres σ a1 a2 s) : Pres σ a a2 s where
  inv := p2.inv
  root := p2.root.trans p1.root
  rootSrc rs := by
    obtain ⟨rs1, h1⟩ := p1.rootSrc rs
    obtain ⟨rs2, h2⟩ := p2.rootSrc rs1
    exact ⟨rs2, fun pid => (h2 pid).trans (h1 pid)⟩
  live_s := p2.live_s
  flag_s := p2.flag_s.trans p1.flag_s
  ndc h := p2.ndc (p1.ndc h)
  det h := p2.det (p1.det h)

end Automaton
end Pm
