/-
Proofs/C09EpsTree.lean — C09 clause (c) under c1E: `insert_constraint_tree(s)` preserves the local
invariant `Loc a s` (Proofs/C09EpsCore.lean), for EVERY tree decomposition (no `TreeOK`, no
flatness hypothesis). `TreeFrame`: every epsilon transition of the result that does not leave `s`
is an old transition (the states created for inner tree nodes and the fail state only get
constraint transitions), and every child of `s` afterwards is a fresh state or an old child of `s`
(the drained children are re-attached, the labels of the tree root as epsilon children).
Everything lives in `namespace Pm.C09E`.
-/
import PmVerif.Proofs.C09EpsCore
namespace Pm
namespace C09E
open Automaton
variable {K P : Type}

/-- What `insert_constraint_tree(s)` does to epsilon transitions and to the children of `s`. -/
structure TreeFrame (a a' : Automaton K P) (s : Nat) : Prop where
  inv : Inv a'
  live_s : a'.Live s
  eps_old : ∀ t e, a'.g.edge? t = some e → e.src ≠ s → e.w = none → a.g.edge? t = some e
  children : ∀ t e, a'.g.edge? t = some e → e.src = s →
    ¬ a.Live e.dst ∨ ∃ t0 e0, a.g.edge? t0 = some e0 ∧ e0.src = s ∧ e0.dst = e.dst

theorem TreeFrame.refl {a : Automaton K P} (inv : Inv a) {s : Nat} (hs : a.Live s) :
    TreeFrame a a s :=
  ⟨inv, hs, fun _ _ h _ _ => h, fun t e he hsrc => .inr ⟨t, e, he, hsrc, rfl⟩⟩

/-- The local invariant across a `TreeFrame`. -/
theorem TreeFrame.loc {a a' : Automaton K P} {s : Nat} (fr : TreeFrame a a' s) (inv : Inv a)
    (L : Loc a s) : Loc a' s := by
  refine ⟨fun x hx t1 t2 e1 e2 h1 h2 hs1 hs2 hn1 hn2 => ?_, fun t e he hsrc t' e' he' hsrc' hn' => ?_⟩
  · exact L.others x hx t1 t2 e1 e2 (fr.eps_old t1 e1 h1 (hs1 ▸ hx) hn1)
      (fr.eps_old t2 e2 h2 (hs2 ▸ hx) hn2) hs1 hs2 hn1 hn2
  · have hds : e.dst ≠ s := fun hd => fr.inv.noloop t e he (hsrc.trans hd.symm)
    have h0 : a.g.edge? t' = some e' := fr.eps_old t' e' he' (hsrc' ▸ hds) hn'
    rcases fr.children t e he hsrc with hdead | ⟨t0, e0, he0, hs0, hd0⟩
    · exact hdead (hsrc' ▸ inv.ok.src_live h0)
    · exact L.children t0 e0 he0 hs0 t' e' h0 (hsrc'.trans hd0.symm) hn'

section Ctx
variable {a a1 a2 a' : Automaton K P} {s : Nat} {w : AState K} {cs : List (Constraint K P)}
  {ch : List Nat} {tree : CTree (Constraint K P)} {fuel : Nat} {added : List Nat}
  {Rep : Nat → Nat → Prop} {F : Nat → Prop}

/-- `a1` is `a` without the constraint transitions of `s`, `a2` is `a1` plus the image of the
tree, `a'` is `a2` plus the fail state; the re-attached children `ch` are children of `s`. -/
theorem treeFrame_of_ctx (hs : a.Live s) (sh : Shrinks a a1 w.corder)
    (hie : ∀ (i : Nat) d, ch[i]? = some d → ∃ t e, a.g.edge? t = some e ∧ e.src = s ∧ e.dst = d)
    (tb : TreeBuilt a1 a2 tree s ch fuel added Rep) (fb : FailBuilt a2 a' s cs ch added F)
    (gi : C09R.GrowIn a1 a') : TreeFrame a a' s := by
  have hback1 : ∀ t e, a1.g.edge? t = some e → a.g.edge? t = some e := by
    intro t e he
    rw [sh.edge] at he
    split at he
    · cases he
    · exact he
  refine ⟨fb.inv, gi.live s ((sh.live_iff s).2 hs), fun t e he hsrc hn => ?_,
    fun t e he hsrc => ?_⟩
  · rcases fb.new t e he with h2 | ⟨h2, _⟩ | ⟨_, _, c, _, _, _, h2⟩
    · rcases tb.new t e h2 with h1 | ⟨h1, _⟩ | ⟨_, c, _, _, _, h1, _⟩
      · exact hback1 t e h1
      · exact absurd h1 hsrc
      · rw [hn] at h1; cases h1
    · exact absurd h2 hsrc
    · rw [hn] at h2; cases h2
  · rcases fb.new t e he with h2 | ⟨_, _, h2⟩ | ⟨h2, _⟩
    · rcases tb.new t e h2 with h1 | ⟨_, _, i, _, hi⟩ | ⟨_, _, n', _, _, _, h1 | ⟨i, _, hi⟩⟩
      · exact .inr ⟨t, e, hback1 t e h1, hsrc, rfl⟩
      · exact .inr (hie i e.dst hi)
      · exact .inl fun hl => h1.2 ((sh.live_iff _).2 hl)
      · exact .inr (hie i e.dst hi)
    · exact .inl fun hl => fb.fresh _ h2 (live2_of sh tb hl)
    · exact absurd (live2_of sh tb hs) (hsrc ▸ fb.fresh _ h2)

end Ctx

section Run
variable [DecidableEq K] [DecidableEq P]
set_option linter.unusedSectionVars false

/-- The three phases of the non-trivial branch of `insert_constraint_tree` (cf.
`C09R.pieces_of_run`), keeping the fact that the re-attached children were children of `s`. -/
theorem treeFrame_of_run {a a1 a2 a' : Automaton K P} {s fuel : Nat} {w : AState K} (inv : Inv a)
    (hw : a.g.weight? s = some w)
    {drained : List (Option (Constraint K P) × Nat)}
    (hdr : a.drainConstraints s = .ok (a1, drained))
    (g : Option (Constraint K P) × Nat → Option (Constraint K P × Nat))
    {tree : CTree (Constraint K P)} {added : List Nat}
    (hadd : a1.addConstraintTree tree s ((drained.filterMap g).map (·.2)) fuel = .ok (a2, added))
    (hg : ∀ c d, g (c, d) = c.map fun c => (c, d))
    (hfb : Inv a2 → a2.Live s →
      (∀ (i : Nat) d, ((drained.filterMap g).map (·.2))[i]? = some d → a2.Live d) →
      C09R.GrowIn a1 a2 →
      (∃ F, FailBuilt a2 a' s ((drained.filterMap g).map (·.1))
        ((drained.filterMap g).map (·.2)) added F) ∧ C09R.GrowIn a1 a') :
    TreeFrame a a' s := by
  obtain ⟨w', hw', sh, hmap⟩ := drainConstraints_shrinks inv hdr
  rw [hw] at hw'; cases hw'
  obtain ⟨hie, _⟩ := drain_ctx inv.ok hw g hg drained hmap
  have hs : a.Live s := live_of_weight hw
  have hs1 : a1.Live s := (sh.live_iff s).2 hs
  obtain ⟨Rep, tb⟩ := addConstraintTree_built a1 a2 tree s _ fuel added sh.inv hs1 hadd
  have gi2 := C09R.growIn_addConstraintTree sh.inv hs1 hadd
  have hlen : ((drained.filterMap g).map (·.2)).length =
      ((drained.filterMap g).map (·.1)).length := by simp
  have hie' : ∀ (i : Nat) d, ((drained.filterMap g).map (·.2))[i]? = some d →
      ∃ t e, a.g.edge? t = some e ∧ e.src = s ∧ e.dst = d := by
    intro i d hd
    have hi : i < ((drained.filterMap g).map (·.1)).length := by
      rw [← hlen]; exact (List.getElem?_eq_some_iff.1 hd).1
    obtain ⟨t, _, he⟩ := hie i _ d (List.getElem?_eq_getElem hi) hd
    exact ⟨t, _, he, rfl, rfl⟩
  have hchl : ∀ (i : Nat) d, ((drained.filterMap g).map (·.2))[i]? = some d → a2.Live d := by
    intro i d hd
    obtain ⟨t, e, he, _, hdst⟩ := hie' i d hd
    exact live2_of sh tb (hdst ▸ inv.ok.dst_live he)
  obtain ⟨⟨F, fb⟩, gi⟩ := hfb tb.inv (live2_of sh tb hs) hchl gi2
  exact treeFrame_of_ctx hs sh hie' tb fb gi

/-- `insert_constraint_tree(s)` either does nothing or runs through the three phases. -/
theorem insertConstraintTree_frame
    {toTree : List (Constraint K P) → Option (CTree (Constraint K P))}
    {a a' : Automaton K P} {s fuel : Nat} {det : Bool} (inv : Inv a) (hs : a.Live s)
    (h : insertConstraintTree toTree a s fuel = .ok (a', det)) : TreeFrame a a' s := by
  unfold insertConstraintTree at h
  split at h
  · cases h
  · rename_i w hw
    rw [state_ok_iff] at hw
    split at h
    · cases h; exact TreeFrame.refl inv hs
    · split at h
      · cases h; exact TreeFrame.refl inv hs
      · split at h
        · cases h
        · rename_i a1 drained hdr
          extract_lets pairs cs ch at h
          split at h
          · cases h
          · rename_i tree htree
            split at h
            · cases h
            · rename_i a2 added hadd
              extract_lets notAdded at h
              have hmem : ∀ i, i ∈ notAdded ↔ i < cs.length ∧ i ∉ added := by
                intro i
                simp [notAdded, List.mem_filter, and_comm]
              split at h
              · rename_i hemp
                cases h
                refine treeFrame_of_run inv hw hdr _ hadd (by intro _ _; rfl) ?_
                intro inv2 _ _ gi2
                refine ⟨⟨_, failBuilt_nil inv2 s ch ?_⟩, gi2⟩
                intro i hi
                refine Classical.byContradiction fun hn => ?_
                have := (hmem i).2 ⟨hi, hn⟩
                rw [List.isEmpty_iff.1 hemp] at this
                cases this
              · split at h
                · cases h
                · rename_i a3 f h1
                  cases hrest : insertConstraintTree.addRest cs ch f a3 notAdded with
                  | error e => rw [hrest] at h; cases h
                  | ok a4 =>
                    rw [hrest] at h
                    cases h
                    refine treeFrame_of_run inv hw hdr _ hadd (by intro _ _; rfl) ?_
                    intro inv2 hs2 hchl gi2
                    refine ⟨⟨_, failBuilt_cons inv2 hs2 hchl (fun i h1 h2 => (hmem i).2 ⟨h1, h2⟩)
                      (fun i hi => ((hmem i).1 hi).2) h1 hrest⟩, ?_⟩
                    obtain ⟨e0, sp⟩ := addTransition_spec inv2 hs2 h1
                    obtain ⟨g, _⟩ := addRest_grows notAdded sp.inv hrest
                    exact (gi2.addTransition sp).grows g

/-- **`insert_constraint_tree(s)` preserves the local invariant**, for every tree decomposition. -/
theorem loc_insertConstraintTree
    {toTree : List (Constraint K P) → Option (CTree (Constraint K P))}
    {a a' : Automaton K P} {s fuel : Nat} {det : Bool} (inv : Inv a) (hs : a.Live s)
    (L : Loc a s) (h : insertConstraintTree toTree a s fuel = .ok (a', det)) :
    Loc a' s ∧ Inv a' ∧ a'.Live s := by
  have fr := insertConstraintTree_frame inv hs h
  exact ⟨fr.loc inv L, fr.inv, fr.live_s⟩

end Run

end C09E
end Pm
