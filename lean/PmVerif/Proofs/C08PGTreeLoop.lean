/-
Proofs/C08PGTreeLoop.lean — C08 for port graphs, fuel sufficiency of the build, part 2: the loop
of `add_constraint_tree` (`treeLoop`) on NESTED trees.
* Generic (`addConstraintTree_total_wf`): on a well-formed tree (`CTree.TreeWF`: child indices are
  larger than their parent, every node has at most one incoming edge) whose nodes list pairwise
  different children (`ChildNodup`), the loop pops every tree node at most once, so
  `fuel ≥ |nodes of the tree|` suffices.
* `with_powerset` trees are such trees and have at most `2 ^ (|cs| + 1)` nodes
  (`withPowerset_shape`: one more invariant of `powersetLoop`, with the work measure `qW` of
  `powersetLoop_terminates`).
* `pgTree` (`pgTree_shape`): depth-one trees in the transitive-mutex branch, `with_powerset` trees
  in the powerset branch; hence `treeStepOKQ_pg`: on a duplicate-free list of at most `N`
  constraints `add_constraint_tree` cannot run out of `fuel ≥ 2 ^ (N + 1)`.
Everything lives in `namespace Pm.C08PG`.
-/
import PmVerif.Proofs.C08PGBuildT
import PmVerif.Proofs.TreeDepth
import PmVerif.Proofs.PGLemmas
import PmVerif.Proofs.StrProgTree
namespace Pm
namespace C08PG
open Automaton C08 CTree

/-! ### generic: `treeLoop` pops every node at most once -/

section Loop
variable {K P : Type} [DecidableEq K] [DecidableEq P]
set_option linter.unusedSectionVars false

/-- Every node lists pairwise different children. -/
def ChildNodup {C : Type} (t : CTree C) : Prop := ∀ n, ((t.childrenAt n).map (·.2)).Nodup

/-- The tree nodes one call of `treeChildren` pushes: the children that have children. -/
def pushed {C : Type} (t : CTree C) (rest : List (C × Nat)) : List Nat :=
  (rest.filter fun cz => !(t.childrenAt cz.2).isEmpty).map (·.2)

theorem treeChildren_stack_fst {tree : CTree (Cons K P)} {children : List Nat} {m : Nat} :
    ∀ (rest : List (Cons K P × Nat)) {a a' : Automaton K P} {stack stack' : List (Nat × Nat)}
      {added added' : List Nat},
      treeChildren tree children m a rest stack added = .ok (a', stack', added') →
      stack'.map (·.1) = stack.map (·.1) ++ pushed tree rest
  | [], a, a', stack, stack', added, added', h => by
    unfold treeChildren at h
    cases h
    simp [pushed]
  | (c, z) :: rest, a, a', stack, stack', added, added', h => by
    obtain ⟨b1, b2, stack1, hcase, _, hrest⟩ := treeChildren_cons_inv h
    have ih := treeChildren_stack_fst rest hrest
    rw [ih]
    rcases hcase with ⟨hne, cm, _, rfl⟩ | ⟨heq, _, rfl⟩
    · have : (!(tree.childrenAt z).isEmpty) = true := by
        cases hc : tree.childrenAt z with
        | nil => exact absurd hc hne
        | cons _ _ => rfl
      simp [pushed, this]
    · have : (!(tree.childrenAt z).isEmpty) = false := by rw [heq]; rfl
      simp [pushed, this]

/-- The invariant of the loop: the stacked and the popped tree nodes are pairwise different nodes
of the tree, and each of them is the root or a child of a popped node. -/
structure LoopJ {C : Type} (t : CTree C) (stack popped : List Nat) : Prop where
  nds : stack.Nodup
  ndp : popped.Nodup
  disj : ∀ x ∈ stack, x ∉ popped
  lt : ∀ x, x ∈ stack ∨ x ∈ popped → x < t.nodes.length
  par : ∀ x, x ∈ stack ∨ x ∈ popped → x = 0 ∨ ∃ p ∈ popped, ∃ c, (c, x) ∈ t.childrenAt p

theorem LoopJ.init {C : Type} {t : CTree C} (wf : TreeWF t) : LoopJ t [0] [] where
  nds := by simp
  ndp := by simp
  disj := fun _ _ h => by cases h
  lt := by
    intro x hx
    rcases hx with hx | hx
    · rw [List.mem_singleton.1 hx]; exact wf.pos
    · cases hx
  par := by
    intro x hx
    rcases hx with hx | hx
    · exact .inl (List.mem_singleton.1 hx)
    · cases hx

theorem LoopJ.count {C : Type} {t : CTree C} {stack popped : List Nat} (j : LoopJ t stack popped) :
    stack.length + popped.length ≤ t.nodes.length := by
  have hnd : (stack ++ popped).Nodup :=
    List.nodup_append.2 ⟨j.nds, j.ndp, fun a ha b hb e => j.disj a ha (e ▸ hb)⟩
  have := length_le_of_nodup_of_lt t.nodes.length (stack ++ popped) hnd (fun x hx => by
    rcases List.mem_append.1 hx with h | h
    · exact j.lt x (.inl h)
    · exact j.lt x (.inr h))
  rw [List.length_append] at this
  exact this

/-- One iteration: pop `x`, push those of its children that have children. -/
theorem LoopJ.step {C : Type} {t : CTree C} (wf : TreeWF t) (cn : ChildNodup t)
    {D popped : List Nat} {x : Nat} (j : LoopJ t (D ++ [x]) popped) :
    LoopJ t (D ++ pushed t (t.childrenAt x)) (x :: popped) := by
  have hxs : x ∈ D ++ [x] := List.mem_append_right _ (List.mem_singleton.2 rfl)
  have hxp : x ∉ popped := j.disj x hxs
  obtain ⟨hD, _, hDx⟩ := List.nodup_append.1 j.nds
  have hchild : ∀ z ∈ pushed t (t.childrenAt x), ∃ c, (c, z) ∈ t.childrenAt x := by
    intro z hz
    obtain ⟨cz, hcz, rfl⟩ := List.mem_map.1 hz
    exact ⟨cz.1, (List.mem_filter.1 hcz).1⟩
  -- a pushed node is fresh
  have hfresh : ∀ z ∈ pushed t (t.childrenAt x), z ∉ D ++ [x] ∧ z ∉ popped := by
    intro z hz
    obtain ⟨c, hc⟩ := hchild z hz
    have hlt := (wf.lt x c z hc).1
    have key : (z ∈ D ++ [x] ∨ z ∈ popped) → False := by
      intro hor
      rcases j.par z hor with h0 | ⟨p, hp, c', hc'⟩
      · omega
      · have := (wf.uniq p c' x c z hc' hc).1
        exact hxp (this ▸ hp)
    exact ⟨fun h => key (.inl h), fun h => key (.inr h)⟩
  have hpn : (pushed t (t.childrenAt x)).Nodup :=
    List.Nodup.sublist (List.Sublist.map _ List.filter_sublist) (cn x)
  refine ⟨?_, ?_, ?_, ?_, ?_⟩
  · refine List.nodup_append.2 ⟨hD, hpn, fun a ha b hb e => ?_⟩
    exact (hfresh b hb).1 (List.mem_append_left _ (e ▸ ha))
  · exact List.nodup_cons.2 ⟨hxp, j.ndp⟩
  · intro y hy hyp
    rcases List.mem_append.1 hy with h | h
    · rcases List.mem_cons.1 hyp with rfl | hyp
      · exact hDx y h y (List.mem_singleton.2 rfl) rfl
      · exact j.disj y (List.mem_append_left _ h) hyp
    · obtain ⟨c, hc⟩ := hchild y h
      have hlt := (wf.lt x c y hc).1
      rcases List.mem_cons.1 hyp with rfl | hyp
      · omega
      · exact (hfresh y h).2 hyp
  · intro y hy
    rcases hy with hy | hy
    · rcases List.mem_append.1 hy with h | h
      · exact j.lt y (.inl (List.mem_append_left _ h))
      · obtain ⟨c, hc⟩ := hchild y h
        exact (wf.lt x c y hc).2
    · rcases List.mem_cons.1 hy with rfl | hy
      · exact j.lt y (.inl hxs)
      · exact j.lt y (.inr hy)
  · intro y hy
    have old : (y ∈ D ++ [x] ∨ y ∈ popped) →
        y = 0 ∨ ∃ p ∈ x :: popped, ∃ c, (c, y) ∈ t.childrenAt p := by
      intro hor
      rcases j.par y hor with h0 | ⟨p, hp, c, hc⟩
      · exact .inl h0
      · exact .inr ⟨p, List.mem_cons_of_mem _ hp, c, hc⟩
    rcases hy with hy | hy
    · rcases List.mem_append.1 hy with h | h
      · exact old (.inl (List.mem_append_left _ h))
      · obtain ⟨c, hc⟩ := hchild y h
        exact .inr ⟨x, List.mem_cons_self, c, hc⟩
    · rcases List.mem_cons.1 hy with rfl | hy
      · exact old (.inl hxs)
      · exact old (.inr hy)

/-- **`treeLoop` does not run out of fuel** once the fuel covers the tree nodes not yet popped. -/
theorem treeLoop_total {tree : CTree (Cons K P)} {children : List Nat}
    (hv : LabelsValid tree children.length) (wf : TreeWF tree) (cn : ChildNodup tree) :
    ∀ (fuel : Nat) {a : Automaton K P} (stack : List (Nat × Nat)) (added popped : List Nat),
      Inv a → (∀ d ∈ children, a.Live d) → (∀ p ∈ stack, a.Live p.2) →
      LoopJ tree (stack.map (·.1)) popped → tree.nodes.length ≤ popped.length + fuel →
      ∃ r, treeLoop tree children fuel a stack added = .ok r := by
  intro fuel
  induction fuel with
  | zero =>
    intro a stack added popped _ _ _ j hf
    have hc := j.count
    rw [List.length_map] at hc
    have : stack.length = 0 := by omega
    have hs : stack = [] := List.eq_nil_of_length_eq_zero this
    subst hs
    unfold treeLoop
    exact ⟨_, rfl⟩
  | succ fuel ih =>
    intro a stack added popped inv hch hst j hf
    cases stack with
    | nil => unfold treeLoop; exact ⟨_, rfl⟩
    | cons st stack =>
      unfold treeLoop
      simp only
      cases hlast : (st :: stack).getLast? with
      | none => exact ⟨_, rfl⟩
      | some tm =>
        obtain ⟨tstate, mstate⟩ := tm
        simp only
        have hmem : (tstate, mstate) ∈ st :: stack := List.mem_of_getLast? hlast
        obtain ⟨ys, hys⟩ := List.getLast?_eq_some_iff.1 hlast
        have hdl : (st :: stack).dropLast = ys := by rw [hys, List.dropLast_concat]
        obtain ⟨a', stack', added', h', inv', hl', hst'⟩ :=
          treeChildren_total hv (tree.childrenAt tstate) (st :: stack).dropLast added inv
            (hst _ hmem) hch (fun p hp => hst p (List.dropLast_subset _ hp))
        rw [h']
        simp only
        have hfst := treeChildren_stack_fst _ h'
        rw [hdl] at hfst
        have j0 : LoopJ tree (ys.map (·.1) ++ [tstate]) popped := by
          have : (st :: stack).map (·.1) = ys.map (·.1) ++ [tstate] := by
            rw [hys, List.map_append]; rfl
          rw [← this]
          exact j
        have j1 := j0.step wf cn
        rw [← hfst] at j1
        exact ih stack' added' (tstate :: popped) inv' (fun d hd => hl' d (hch d hd)) hst' j1
          (by simp only [List.length_cons]; omega)

/-- **`add_constraint_tree` on a well-formed tree with pairwise different children** returns once
`fuel ≥ |nodes of the tree|`. -/
theorem addConstraintTree_total_wf {a : Automaton K P} {tree : CTree (Cons K P)}
    {s : Nat} {children : List Nat} {fuel : Nat} (wf : TreeWF tree) (cn : ChildNodup tree)
    (hfuel : tree.nodes.length ≤ fuel)
    (inv : Inv a) (hs : a.Live s) (hch : ∀ d ∈ children, a.Live d)
    (hv : LabelsValid tree children.length) :
    ∃ r, a.addConstraintTree tree s children fuel = .ok r := by
  unfold addConstraintTree
  simp only
  obtain ⟨a1, h1⟩ := appendEdges_total none (tree.labelsAt 0) inv hs hch (hv 0)
  rw [h1]
  simp only
  obtain ⟨inv1, hl1⟩ := appendEdges_live inv h1
  refine treeLoop_total hv wf cn fuel [(0, s)] (tree.labelsAt 0) [] inv1
    (fun d hd => (hl1 d).2 (hch d hd)) (fun p hp => ?_) (LoopJ.init wf) (by simpa using hfuel)
  rw [List.mem_singleton] at hp
  subst hp
  exact (hl1 s).2 hs

end Loop

/-! ### `with_powerset` trees -/

section Powerset
variable {C : Type} [DecidableEq C]
set_option linter.unusedSectionVars false

/-- The children of a node after `get_or_add_child`, as a list. -/
theorem goc_childrenAt (t : CTree C) (n : Nat) (c : C) (m : Nat) :
    (t.getOrAddChild n c).1.childrenAt m = t.childrenAt m ∨
      (m = n ∧ (t.getOrAddChild n c).1.childrenAt m = t.childrenAt m ++ [(c, t.nodes.length)]) := by
  unfold getOrAddChild
  split
  · exact .inl rfl
  · simp only
    rw [childrenAt_modifyNode]
    split
    · next h =>
      have hpush := childrenAt_push t t.makeDet m
      unfold childrenAt at hpush ⊢
      cases hnd : (t.nodes ++ [(⟨[], []⟩ : TreeNode C)])[m]? with
      | none =>
        left
        simp only [hnd, Option.map_none, Option.getD_none] at hpush ⊢
        exact hpush
      | some nd =>
        right
        simp only [hnd, Option.map_some, Option.getD_some] at hpush ⊢
        exact ⟨h.symm, by rw [hpush]⟩
    · exact .inl (childrenAt_push t t.makeDet m)

theorem goc_length (t : CTree C) (n : Nat) (c : C) :
    (t.getOrAddChild n c).1.nodes.length ≤ t.nodes.length + 1 := by
  unfold getOrAddChild
  split
  · exact Nat.le_succ _
  · simp [modifyNode]

theorem childNodup_goc {t : CTree C} (wf : TreeWF t) (cn : ChildNodup t) (n : Nat) (c : C) :
    ChildNodup (t.getOrAddChild n c).1 := by
  intro m
  rcases goc_childrenAt t n c m with h | ⟨rfl, h⟩
  · rw [h]; exact cn m
  · rw [h, List.map_append]
    refine List.nodup_append.2 ⟨cn m, by simp, fun a ha b hb e => ?_⟩
    simp only [List.map_cons, List.map_nil, List.mem_singleton] at hb
    obtain ⟨cz, hcz, rfl⟩ := List.mem_map.1 ha
    have := (wf.lt m cz.1 cz.2 hcz).2
    omega

theorem childNodup_addLabel {t : CTree C} (cn : ChildNodup t) (n i : Nat) :
    ChildNodup (t.addLabel n i) := by
  intro m
  rw [childrenAt_addLabel]
  exact cn m

theorem qW_cons (cs : List (C × Nat)) (it : PQItem C) (q : List (PQItem C)) :
    qW cs (it :: q) = psW (cs.length - it.next) + qW cs q := by
  simp [qW]

theorem qW_append (cs : List (C × Nat)) (q q' : List (PQItem C)) :
    qW cs (q ++ q') = qW cs q + qW cs q' := by
  simp [qW]

/-- The invariant of `powersetLoop` used here: `PInv` (for the all-true assignment), pairwise
different children, and the node count plus the remaining work never exceeds the initial bound. -/
structure ShapeInv (cs : List (C × Nat)) (q : List (PQItem C)) (t : CTree C) : Prop where
  pinv : PInv cs (fun _ => true) q t
  cn : ChildNodup t
  size : t.nodes.length + qW cs q ≤ 1 + psW cs.length

/-- **Shape of the trees `with_powerset` returns**: well-formed, pairwise different children, at
most `2 ^ (|cs| + 1)` nodes — whatever the fuel. -/
theorem withPowerset_shape {cond : C → List C → Option C} {cs : List (C × Nat)} {fuel : Nat}
    {t : CTree C} (h : withPowerset cond cs fuel = some t) :
    TreeWF t ∧ ChildNodup t ∧ t.nodes.length ≤ 2 ^ (cs.length + 1) := by
  by_cases hne : cs = []
  · subst hne
    rw [withPowerset_nil h]
    refine ⟨TreeWF_new, fun n => ?_, by simp [CTree.new]⟩
    cases n <;> simp [CTree.new, childrenAt]
  · have law : CondLawOn cond (fun _ => true) (fun c => ∃ i, (c, i) ∈ cs) :=
      (condLaw_true cond).on _
    unfold withPowerset at h
    have hemp : cs.isEmpty = false := by
      cases cs with
      | nil => exact absurd rfl hne
      | cons _ _ => rfl
    rw [hemp] at h
    simp only [Bool.false_eq_true, if_false] at h
    have fin := powersetLoop_induct cond cs (ShapeInv cs)
      (fun it q t c ci hinv hget hc => by
        refine ⟨PInv_stepA law hinv.pinv hget hc, childNodup_addLabel hinv.cn _ _, ?_⟩
        have hs := hinv.size
        rw [qW_cons] at hs ⊢
        rw [length_addLabel]
        have := psW_mono (a := cs.length - (it.next + 1)) (b := cs.length - it.next) (by omega)
        simp only
        omega)
      (fun it q t hinv hget => by
        refine ⟨PInv_stepB hinv.pinv hget, hinv.cn, ?_⟩
        have hs := hinv.size
        rw [qW_cons] at hs
        omega)
      (fun it q t c ci c' hinv hget hc => by
        refine ⟨PInv_stepC law hinv.pinv hget hc,
          childNodup_addLabel (childNodup_goc hinv.pinv.wf hinv.cn _ _) _ _, ?_⟩
        have hs := hinv.size
        rw [qW_cons] at hs
        rw [qW_append, length_addLabel]
        have hlen := goc_length t it.node c'
        have hlt : it.next < cs.length := (List.getElem?_eq_some_iff.1 hget).1
        have h1 : cs.length - it.next = (cs.length - (it.next + 1)) + 1 := by omega
        rw [h1] at hs
        simp only [psW] at hs
        have hq2 : qW cs [⟨it.next + 1, it.satisfied, it.node⟩,
            ⟨it.next + 1, it.satisfied ++ [c], (t.getOrAddChild it.node c').2⟩] =
            psW (cs.length - (it.next + 1)) + psW (cs.length - (it.next + 1)) := by
          simp [qW]
        rw [hq2]
        omega)
      fuel _ _ t ⟨PInv_init cs _, fun n => by cases n <;> simp [CTree.new, childrenAt],
        by simp [qW, CTree.new]⟩ h
    refine ⟨fin.pinv.wf, fin.cn, ?_⟩
    have hs := fin.size
    have := psW_lt cs.length
    simp only [qW, List.map_nil, List.sum_nil] at hs
    omega

end Powerset

/-! ### `pgTree` -/

/-- Setting the `make_det` flag changes neither children nor the node count. -/
theorem treeWF_setDet {C : Type} {t : CTree C} (wf : TreeWF t) (b : Bool) :
    TreeWF ({ t with makeDet := b } : CTree C) := ⟨wf.pos, wf.lt, wf.uniq⟩

/-- **Shape of the trees `pgTree` returns**: depth-one (transitive-mutex branch: a `with_children`
tree), or well-formed with pairwise different children and at most `2 ^ (|cs| + 1)` nodes
(powerset branch: a `with_powerset` tree over a sublist of `cs`). -/
theorem pgTree_shape {cs : List PGCons} {fuel : Nat} {t : CTree PGCons}
    (h : pgTree cs fuel = some t) :
    DepthOne t ∨ (TreeWF t ∧ ChildNodup t ∧ t.nodes.length ≤ 2 ^ (cs.length + 1)) := by
  cases hs : sortWithIndices pgConsLe cs with
  | nil =>
    have : cs = [] := Classical.byContradiction fun hne => sortWithIndices_ne_nil _ hne hs
    subst this
    cases h
    left
    intro c z hcz
    simp [CTree.new, childrenAt] at hcz
  | cons x xs =>
    rcases pgTree_cons_cases (fuel := fuel) hs with ⟨-, ht⟩ | ⟨-, ht⟩
    · rw [ht] at h
      obtain ⟨t0, ht0, rfl⟩ := Option.map_eq_some_iff.1 h
      obtain ⟨wf, cn, hlen⟩ := withPowerset_shape ht0
      refine .inr ⟨treeWF_setDet wf true, cn, Nat.le_trans hlen ?_⟩
      apply Nat.pow_le_pow_right (by decide)
      have h1 : (pgKept cs x.1).length ≤ (sortWithIndices pgConsLe cs).length := by
        unfold pgKept
        exact List.length_filter_le _ _
      have h2 : (sortWithIndices pgConsLe cs).length = cs.length := by
        have := (sortWithIndices_perm pgConsLe cs).length_eq
        simpa using this
      omega
    · rw [ht] at h
      cases h
      left
      obtain ⟨first, fi⟩ := x
      intro c z hcz
      have hcz' : (c, z) ∈ (withChildren
          (((first, fi) :: xs.filter (fun ci => pgMutex first ci.1)).map
            fun ci => (ci.1, [ci.2]))).childrenAt 0 := hcz
      show (withChildren (((first, fi) :: xs.filter (fun ci => pgMutex first ci.1)).map
            fun ci => (ci.1, [ci.2]))).childrenAt z = []
      rw [List.eq_nil_iff_forall_not_mem]
      rintro ⟨c', m'⟩ hm
      obtain ⟨hz, _⟩ := StrProg.chRoot_withChildren _ z c' m' hm
      subst hz
      have d := CTree.D1_withChildren (((first, fi) :: xs.filter (fun ci => pgMutex first ci.1)).map
        fun ci : PGCons × Nat => (ci.1, [ci.2]))
      exact absurd (d.wf.lt _ _ _ hcz').1 (Nat.lt_irrefl 0)

/-- **`add_constraint_tree` over `pgTree` does not run out of fuel** on a duplicate-free list of
constraints of a finite universe `U`, once `fuel ≥ 2 ^ (|U| + 1)`; with the (vacuous) remaining
errors allowed by any policy. -/
theorem treeStepOKQ_pg (A : Err → Prop) (U : List PGCons) (fuelT : Nat) {fuel : Nat}
    (hfuel : 2 ^ (U.length + 1) ≤ fuel) :
    TreeStepOKQ A (fun c => c ∈ U) (fun cs => pgTree cs fuelT) fuel := by
  intro a1 cs tree s ch hnd hsub htree inv hs hch hv
  have hlen : cs.length ≤ U.length := hnd.length_le_of_subset fun c hc => hsub c hc
  have hpos : 1 ≤ fuel := Nat.le_trans (Nat.one_le_two_pow) hfuel
  rcases pgTree_shape (show pgTree cs fuelT = some tree from htree) with hd | ⟨wf, cn, hn⟩
  · exact Only.of_ok (addConstraintTree_total_depthOne hpos hd inv hs hch hv)
  · refine Only.of_ok (addConstraintTree_total_wf wf cn ?_ inv hs hch hv)
    exact Nat.le_trans hn (Nat.le_trans (Nat.pow_le_pow_right (by decide) (by omega)) hfuel)

end C08PG
end Pm
