/-
Proofs/C08AcycFuse.lean — acyclicity is preserved by `make_constraints_unique`, for every log.

`fuseGroup s ts` (structure `Fused` of `Proofs/BuildFuse.lean`) removes the transitions
`ts : s → old`, adds a fresh child `N` below `s` and gives `N` copies of the out-edges
`old → d` of the old children; old children are removed when they lose their last in-edge.
Rank: `rank' N = rank s + 1`; every `d` has `rank s < rank old < rank d`.
Everything lives in `namespace Pm.C08A`.
-/
import PmVerif.Proofs.C08AcycCore
import PmVerif.Proofs.BuildFuse
import PmVerif.Proofs.C09ReachCore
namespace Pm
namespace C08A
open Automaton
variable {K P : Type} [DecidableEq K] [DecidableEq P]
set_option linter.unusedSectionVars false

/-- One fused group. -/
theorem Mono.fused {rank : Nat → Nat} {a a' : Automaton K P} {s N : Nat} {ts : List Nat}
    {c0 : Option (Constraint K P)} (m : Mono rank a) (f : Fused a a' s ts N c0) :
    Mono (upd rank N (rank s + 1)) a' := by
  have hsN : s ≠ N := fun h => f.deadN (h ▸ f.hs0)
  intro t e he
  rcases f.sound t e he with h1 | h1 | ⟨h1, old, ⟨t1, ht1, e1, he1, hd1⟩, t0, ht0⟩
  · exact m.update_dead f.inv0 f.deadN _ t e h1
  · subst h1
    show upd rank N (rank s + 1) s < upd rank N (rank s + 1) N
    rw [upd_self, upd_ne rank _ hsN]
    exact Nat.lt_succ_self _
  · -- a copy `N → d` of an out-edge `old → d` of an old child `s → old`
    obtain ⟨e1', he1', hs1, _⟩ := f.grp t1 ht1
    rw [he1] at he1'; cases he1'
    have hr1 : rank s < rank old := by
      have := m t1 e1 he1
      rw [hs1, hd1] at this
      exact this
    have hr2 : rank old < rank e.dst := m t0 _ ht0
    have hdl : a.Live e.dst := (f.inv0.ok.edge_live t0 _ ht0).2
    have hdN : e.dst ≠ N := fun h => f.deadN (h ▸ hdl)
    rw [h1, upd_self, upd_ne rank _ hdN]
    omega

theorem acyclic_fused {a a' : Automaton K P} {s N : Nat} {ts : List Nat}
    {c0 : Option (Constraint K P)} (f : Fused a a' s ts N c0) (h : Acyclic a) : Acyclic a' := by
  obtain ⟨rank, m⟩ := h
  exact ⟨_, m.fused f⟩

theorem acyclic_fuseGroup {a a' : Automaton K P} {s : Nat} {ts : List Nat}
    {c0 : Option (Constraint K P)} (inv : Inv a) (hs : a.Live s)
    (hg : ∀ t ∈ ts, ∃ e, a.g.edge? t = some e ∧ e.src = s ∧ e.w = c0) (H : Acyclic a)
    (h : a.fuseGroup s ts = .ok a') : Acyclic a' := by
  obtain ⟨N, _, f⟩ := fuseGroup_fused inv hs hg h
  exact acyclic_fused f H

theorem acyclic_fuseLogged {s : Nat} :
    ∀ (evs : List Ev) (pending : List (List Nat)) {a a' : Automaton K P} {evs' : List Ev},
    Inv a → a.Live s → pending.flatten.Nodup → (∀ l ∈ pending, GroupOK a s l) → Acyclic a →
    a.fuseLogged s pending evs = .ok (a', evs') → Acyclic a'
  | evs, [], a, a', evs', _, _, _, _, H, h => by
    unfold fuseLogged at h
    cases h
    exact H
  | [], p :: ps, a, a', evs', _, _, _, _, _, h => by
    unfold fuseLogged at h
    cases h
  | ev :: evs, p :: ps, a, a', evs', inv, hs, hnd, hgrp, H, h => by
    cases ev with
    | group s' ts =>
      unfold fuseLogged at h
      split at h
      · rename_i hcond
        obtain ⟨_, hmem⟩ := hcond
        split at h
        · cases h
        · rename_i a1 hf
          obtain ⟨st, hkeep⟩ :=
            fuseGroup_spec (σ := fun _ => true) inv hs (hgrp ts hmem) hf
          obtain ⟨c0, hc0⟩ := hgrp ts hmem
          have H1 := acyclic_fuseGroup inv hs hc0 H hf
          have hnd' : ((p :: ps).erase ts).flatten.Nodup :=
            hnd.sublist (C09R.sublist_flatten' List.erase_sublist)
          have hgrp' : ∀ l ∈ (p :: ps).erase ts, GroupOK a1 s l := by
            intro l hl
            obtain ⟨c, hc⟩ := hgrp l (List.mem_of_mem_erase hl)
            refine ⟨c, fun t ht => ?_⟩
            obtain ⟨e, he, hsrc, hw⟩ := hc t ht
            exact ⟨e, hkeep t e he hsrc (C09R.disjoint_of_mem_erase' _ hnd hmem hl t ht), hsrc, hw⟩
          exact acyclic_fuseLogged evs _ st.inv st.live_s hnd' hgrp' H1 h
      · cases h
    | topo _ => unfold fuseLogged at h; cases h
    | detAsk _ => unfold fuseLogged at h; cases h
    | detYes _ => unfold fuseLogged at h; cases h
    | merge _ _ => unfold fuseLogged at h; cases h
    | iterEnd _ => unfold fuseLogged at h; cases h

/-- **`make_constraints_unique(s)` preserves acyclicity**, whatever groups the log names. -/
theorem acyclic_makeConstraintsUnique {a a' : Automaton K P} {s : Nat} {evs evs' : List Ev}
    (inv : Inv a) (hs : a.Live s) (H : Acyclic a)
    (h : a.makeConstraintsUnique s evs = .ok (a', evs')) : Acyclic a' := by
  unfold makeConstraintsUnique at h
  split at h
  · cases h
  · rename_i ts0 hts0
    split at h
    · cases h
    · rename_i groups hgr
      obtain ⟨w, hw, rfl⟩ := allTransitions_ok_iff.1 hts0
      have gi := groupTransitions_gi (s := s) _ [] groups (inv.ok.nodup s w hw)
        (fun t ht => inv.listed_live hw ht) ⟨by simp, by simp⟩ hgr
      have hfl : ((groups.map (·.2)).flatten).Nodup :=
        groups_flatten_nodup groups gi.1 fun g hg =>
          ⟨(gi.2 g hg).1, fun t ht => by
            obtain ⟨_, e, he, _, hw'⟩ := (gi.2 g hg).2 t ht
            exact ⟨e, he, hw'⟩⟩
      refine acyclic_fuseLogged evs _ inv hs ?_ ?_ H h
      · exact hfl.sublist (C09R.sublist_flatten' (List.Sublist.map _ List.filter_sublist))
      · intro l hl
        obtain ⟨g, hg, rfl⟩ := List.mem_map.1 hl
        have hg' := (List.mem_filter.1 hg).1
        exact ⟨g.1, fun t ht => ((gi.2 g hg').2 t ht).2⟩

end C08A
end Pm
