/-
Proofs/C07Check.lean — C07 (multiplicities): an executable, host-independent check of the
structural unambiguity invariant `XInv` (Proofs/C07Unamb.lean) on a compiled automaton, and its
soundness.

`unambOK mx a`: compute a table `T` of pattern ids per live state by iterating "own ids plus the
ids of the targets" (`belowTable`; untrusted), then CHECK that (`closedOK`) `T` contains the ids
of every state and is closed under the listed transitions — hence over-approximates `Below` —,
(`sibOK`) any two listed transitions of a state towards different targets are syntactically
exclusive (`exclB`: constraints in `mx`, or the state is deterministic and exactly one is the
fallback transition) or the tables of their targets are disjoint, (`downOK`) no id of a state is
in the table of one of its targets, (`nodupOK`) ids are recorded once per state.
`xinv_of_unambOK`: the check implies `XInv`. `charMx`: the mutual-exclusion relation of string and
matrix constraints (`ConstVal` on the same key with different characters), lawful for every
anchored truth assignment `strSigma h a` (`lawful_strSigma`).
Everything lives in `namespace Pm.C07`.
-/
import PmVerif.Proofs.C07Unamb
import PmVerif.Proofs.WFLemmas
import PmVerif.Spec.StrRun
namespace Pm
namespace C07
open Automaton
variable {K P : Type} [DecidableEq K] [DecidableEq P]

/-! ### the checker -/

/-- Pattern ids recorded at `s`. -/
def idsOf (a : Automaton K P) (s : Nat) : List Nat := (a.stateD s).matches_.map (·.1)

/-- `(constraint, target)` of the listed transitions of `s`. -/
def outOf (a : Automaton K P) (s : Nat) : List (Option (Constraint K P) × Nat) :=
  ((a.stateD s).corder ++ (a.stateD s).eorder).filterMap fun t =>
    (a.g.edge? t).map fun e => (e.w, e.dst)

def tbl (T : List (Nat × List Nat)) (s : Nat) : List Nat := (alGet T s).getD []

/-- One round: own table plus the tables of the targets. -/
def belowStep (a : Automaton K P) (T : List (Nat × List Nat)) : List (Nat × List Nat) :=
  a.liveStates.map fun s => (s, dedup (tbl T s ++ (outOf a s).flatMap fun cd => tbl T cd.2))

def belowIter (a : Automaton K P) : Nat → List (Nat × List Nat) → List (Nat × List Nat)
  | 0, T => T
  | n + 1, T => belowIter a n (belowStep a T)

/-- The table after as many rounds as there are live states (enough on an acyclic graph; its
adequacy is CHECKED by `closedOK`, not proved). -/
def belowTable (a : Automaton K P) : List (Nat × List Nat) :=
  belowIter a a.liveStates.length (a.liveStates.map fun s => (s, idsOf a s))

def closedOK (a : Automaton K P) (T : List (Nat × List Nat)) : Bool :=
  a.liveStates.all fun s =>
    (idsOf a s).all (tbl T s).contains &&
    (outOf a s).all fun cd => (tbl T cd.2).all (tbl T s).contains

/-- Syntactic exclusivity of two transitions of a state with determinism flag `det`. -/
def exclB (mx : Constraint K P → Constraint K P → Bool) (det : Bool)
    (c1 c2 : Option (Constraint K P)) : Bool :=
  (match c1, c2 with
   | some k1, some k2 => mx k1 k2
   | _, _ => false) || (det && (c1.isNone != c2.isNone))

def sibOK (mx : Constraint K P → Constraint K P → Bool) (a : Automaton K P)
    (T : List (Nat × List Nat)) : Bool :=
  a.liveStates.all fun s =>
    (outOf a s).all fun cd1 => (outOf a s).all fun cd2 =>
      cd1.2 == cd2.2 || exclB mx (a.stateD s).det cd1.1 cd2.1 ||
        !((tbl T cd1.2).any (tbl T cd2.2).contains)

def downOK (a : Automaton K P) (T : List (Nat × List Nat)) : Bool :=
  a.liveStates.all fun s => (outOf a s).all fun cd => !((idsOf a s).any (tbl T cd.2).contains)

def nodupOK (a : Automaton K P) : Bool :=
  a.liveStates.all fun s => decide (idsOf a s).Nodup

/-- The structural unambiguity check. -/
def unambOK (mx : Constraint K P → Constraint K P → Bool) (a : Automaton K P) : Bool :=
  closedOK a (belowTable a) && sibOK mx a (belowTable a) && downOK a (belowTable a) && nodupOK a

/-! ### soundness -/

section Sound
variable {a : Automaton K P} {T : List (Nat × List Nat)}

theorem idsOf_of_weight {s : Nat} {w : AState K} (hw : a.g.weight? s = some w) :
    idsOf a s = w.matches_.map (·.1) := by
  unfold idsOf
  rw [stateD_of_weight? hw]

theorem mem_outOf_of_listed {s t : Nat} {w : AState K} {e : GEdge (Option (Constraint K P))}
    (hw : a.g.weight? s = some w) (ht : t ∈ w.corder ++ w.eorder) (he : a.g.edge? t = some e) :
    (e.w, e.dst) ∈ outOf a s := by
  unfold outOf
  rw [stateD_of_weight? hw, List.mem_filterMap]
  exact ⟨t, ht, by rw [he]; rfl⟩

theorem mem_outOf_of_hasEdge (ok : OrdersOK a) {x d : Nat} {c : Option (Constraint K P)}
    (h : HasEdge a x d c) : ∃ w, a.g.weight? x = some w ∧ (c, d) ∈ outOf a x := by
  obtain ⟨t, ht⟩ := h
  obtain ⟨w, hw⟩ := live_iff.1 (ok.src_live ht)
  exact ⟨w, hw, mem_outOf_of_listed hw (ok.edge_listed t _ ht w hw) ht⟩

/-- A closed table over-approximates `Below`. -/
theorem tbl_sound (hc : closedOK a T = true) {x i : Nat} (h : Below a x i) : i ∈ tbl T x := by
  have hall := (liveStates_all a fun s _ =>
    (idsOf a s).all (tbl T s).contains &&
    (outOf a s).all fun cd => (tbl T cd.2).all (tbl T s).contains).mp hc
  unfold Below at h
  induction h with
  | @here s pid w hw hp =>
    have := hall s w hw
    rw [Bool.and_eq_true] at this
    have h1 := List.all_eq_true.mp this.1 pid (by rw [idsOf_of_weight hw]; exact hp)
    simpa using h1
  | @step s pid w t e hw ht he _ _ ih =>
    have := hall s w hw
    rw [Bool.and_eq_true] at this
    have h1 := List.all_eq_true.mp this.2 _ (mem_outOf_of_listed hw ht he)
    have h2 := List.all_eq_true.mp h1 pid ih
    simpa using h2

theorem excl_of_exclB {mx : Constraint K P → Constraint K P → Bool} {x : Nat} {w : AState K}
    (hw : a.g.weight? x = some w) {c1 c2 : Option (Constraint K P)}
    (h : exclB mx w.det c1 c2 = true) : Excl (fun k1 k2 => mx k1 k2 = true) a x c1 c2 := by
  unfold exclB at h
  rw [Bool.or_eq_true] at h
  rcases h with h | h
  · left
    split at h
    · exact ⟨_, _, rfl, rfl, h⟩
    · cases h
  · right
    rw [Bool.and_eq_true] at h
    refine ⟨⟨w, hw, h.1⟩, ?_⟩
    have h2 := h.2
    cases c1 <;> cases c2 <;> simp at h2 ⊢

/-- **Soundness of the check.** -/
theorem xinv_of_unambOK {mx : Constraint K P → Constraint K P → Bool} (ok : OrdersOK a)
    (h : unambOK mx a = true) : XInv (fun k1 k2 => mx k1 k2 = true) a := by
  unfold unambOK at h
  simp only [Bool.and_eq_true] at h
  obtain ⟨⟨⟨hcl, hsib⟩, hdown⟩, hnd⟩ := h
  refine ⟨?_, ?_, ?_⟩
  · intro x d1 d2 c1 c2 h1 h2 hne hex i hb1 hb2
    obtain ⟨w, hw, hm1⟩ := mem_outOf_of_hasEdge ok h1
    obtain ⟨w', hw', hm2⟩ := mem_outOf_of_hasEdge ok h2
    rw [hw] at hw'; cases hw'
    have hall := (liveStates_all a fun s w =>
      (outOf a s).all fun cd1 => (outOf a s).all fun cd2 =>
        cd1.2 == cd2.2 || exclB mx w.det cd1.1 cd2.1 ||
          !((tbl (belowTable a) cd1.2).any (tbl (belowTable a) cd2.2).contains)).mp hsib x w hw
    have h3 := List.all_eq_true.mp (List.all_eq_true.mp hall _ hm1) _ hm2
    simp only [Bool.or_eq_true, beq_iff_eq, Bool.not_eq_true'] at h3
    rcases h3 with (h3 | h3) | h3
    · exact hne h3
    · exact hex (excl_of_exclB hw h3)
    · have : (tbl (belowTable a) d1).any (tbl (belowTable a) d2).contains = true :=
        List.any_eq_true.mpr ⟨i, tbl_sound hcl hb1, by simpa using tbl_sound hcl hb2⟩
      rw [this] at h3
      cases h3
  · intro x i d c hi he hb
    obtain ⟨w, hw, hm⟩ := mem_outOf_of_hasEdge ok he
    have hall := (liveStates_all a fun s _ =>
      (outOf a s).all fun cd => !((idsOf a s).any (tbl (belowTable a) cd.2).contains)).mp hdown x w hw
    have h3 := List.all_eq_true.mp hall _ hm
    obtain ⟨w', hw', hp⟩ := hi
    rw [hw] at hw'; cases hw'
    have : (idsOf a x).any (tbl (belowTable a) d).contains = true :=
      List.any_eq_true.mpr ⟨i, by rw [idsOf_of_weight hw]; exact hp, by simpa using tbl_sound hcl hb⟩
    simp only at h3
    rw [this] at h3
    cases h3
  · intro s w hw
    have hall := (liveStates_all a fun s _ => decide (idsOf a s).Nodup).mp hnd s w hw
    rw [idsOf_of_weight hw] at hall
    exact of_decide_eq_true hall

end Sound

/-! ### the mutual-exclusion relation of character constraints -/

/-- Two `ConstVal` constraints on the same argument list with different characters. -/
def charMx {K : Type} [DecidableEq K] (c1 c2 : Constraint K CharPred) : Bool :=
  match c1.pred, c2.pred with
  | .constVal v1, .constVal v2 => decide (v1 ≠ v2) && decide (c1.args = c2.args)
  | _, _ => false

theorem charMx_iff {K : Type} [DecidableEq K] (c1 c2 : Constraint K CharPred) :
    charMx c1 c2 = true ↔ ∃ v1 v2 args, v1 ≠ v2 ∧ c1 = ⟨.constVal v1, args⟩ ∧
      c2 = ⟨.constVal v2, args⟩ := by
  obtain ⟨p1, a1⟩ := c1
  obtain ⟨p2, a2⟩ := c2
  unfold charMx
  constructor
  · intro h
    cases p1 with
    | bindingEq => simp at h
    | constVal v1 =>
      cases p2 with
      | bindingEq => simp at h
      | constVal v2 =>
        simp only [Bool.and_eq_true, decide_eq_true_eq] at h
        obtain ⟨hv, ha⟩ := h
        have ha' : a1 = a2 := ha
        subst ha'
        exact ⟨v1, v2, a1, hv, rfl, rfl⟩
  · rintro ⟨v1, v2, args, hv, h1, h2⟩
    cases h1; cases h2
    simp [hv]

/-- Every anchored truth assignment of a string host is lawful for `charMx`. -/
theorem lawful_strSigma (h : List Nat) (a : Nat) :
    Lawful (fun k1 k2 : StrCons => charMx k1 k2 = true) (strSigma h a) := by
  intro c1 c2 hm h1 h2
  obtain ⟨v1, v2, args, hv, rfl, rfl⟩ := (charMx_iff c1 c2).mp hm
  unfold strSigma at h1 h2
  simp only at h1 h2
  match hargs : args.map (a + ·), h1, h2 with
  | [p], h1, h2 =>
    simp only [strCheck, beq_iff_eq, Option.some.injEq] at h1 h2
    rw [h1] at h2
    exact hv (Option.some.inj h2)
  | [], h1, _ => simp [strCheck] at h1
  | _ :: _ :: _, h1, _ => simp [strCheck] at h1

end C07
end Pm
