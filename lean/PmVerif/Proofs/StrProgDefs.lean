/-
Proofs/StrProgDefs.lean — shared vocabulary of the proof that every successfully built string
automaton satisfies the per-state conditions of the anchored traversal theorem
(`Pm.Anch.StateOK`), i.e. that the per-program check `strProgramOK` is a theorem of the builder.

* `SP E Q a` — the step-level invariant carried (next to T-BUILD's `Good`) through every step of
  the builder: every constraint on a live edge satisfies `Q`; a pattern id satisfying `E` ("the
  pattern is empty") is accepted at the root only; a state with a fallback transition also has a
  constraint transition.
* `TreeHyp Q toTree` — what the tree decomposition has to satisfy for `SP` to survive
  `insert_constraint_tree`.
* `Sh ks` — the shape of scopes and recorded key lists of the string scheme: empty, or the start
  key `0` followed by keys different from `0`.
Everything lives in `namespace Pm.StrProg`.
-/
import PmVerif.Proofs.BuildMain
namespace Pm
namespace StrProg
open Automaton
variable {K P : Type}

/-- The step-level invariant: (`efrom`) every constraint carried by a live edge satisfies `Q`;
(`emp`) a pattern id satisfying `E` is recorded at the root only; (`noEps`) a state with an
outgoing fallback (constraint-free) edge also has an outgoing constraint edge. -/
structure SP (E : Nat → Prop) (Q : Constraint K P → Prop) (a : Automaton K P) : Prop where
  efrom : ∀ t e c, a.g.edge? t = some e → e.w = some c → Q c
  emp : ∀ x pid, a.Ids x pid → E pid → x = a.root
  noEps : ∀ t e, a.g.edge? t = some e → e.w = none →
    ∃ t' e', a.g.edge? t' = some e' ∧ e'.src = e.src ∧ e'.w.isSome = true

/-- What `SP` needs from `to_constraints_tree`: the root of a returned tree carries no label
(so `add_constraint_tree` adds no fallback edge for it); for a non-empty constraint list the root
has a child that is materialised (it has children or labels); every edge constraint of the tree
satisfies `Q` whenever every input constraint does. -/
def TreeHyp (Q : Constraint K P → Prop)
    (toTree : List (Constraint K P) → Option (CTree (Constraint K P))) : Prop :=
  ∀ cs tree, toTree cs = some tree →
    tree.labelsAt 0 = [] ∧
    (cs ≠ [] → ∃ c n', (c, n') ∈ tree.childrenAt 0 ∧
      (tree.childrenAt n' ≠ [] ∨ tree.labelsAt n' ≠ [])) ∧
    ((∀ c ∈ cs, Q c) → ∀ n c n', (c, n') ∈ tree.childrenAt n → Q c)

/-- Shape of scopes and key lists of the string indexing scheme. -/
def Sh (ks : List Nat) : Prop := ks = [] ∨ ∃ rest, ks = 0 :: rest ∧ 0 ∉ rest

end StrProg
end Pm
