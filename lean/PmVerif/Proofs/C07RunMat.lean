/-
Proofs/C07RunMat.lean — C07 (multiplicities) for MATRIX automata, builder-independent part: the
matrix port of `Proofs/C07Run.lean`. The traversal of a matrix automaton whose live states satisfy
`AnchM.StateOK` (proved for every build: `matProg_built`) and which has UNIQUE accepting runs under
every anchored truth assignment `matSigma h r c` (`PathUnique`) reports no match twice:
`run_nodup_mat`.

DIFFERENCE FROM STRINGS. A string configuration `.bound a L` is determined by its anchor and the
scope of the state it was entered from, so `C07.Unamb` (one accepting state per id, one parent of
an accepting state) is enough. A matrix configuration `.bound r c 0 0 R C` carries a bounding box
that depends on the WHOLE path taken: a position map answers `get` for every key inside its box,
whether or not the (ragged) host has that cell, so the step candidate of a state retains a
non-bindable scope key iff the box it arrived with happens to cover it (`AnchM.stepBox`). Two runs
to the same accepting state through the same parent but different grandparents may therefore
arrive with different boxes, have different `(state, projection)` keys, be both expanded and emit
the same match twice: `C07.Unamb` does not exclude that (it only speaks about accepting states and
their parents). What is needed is `PathUnique σ A`: two `σ`-runs from the root to states accepting
the same id visit the same states in the same order. It implies `C07.Unamb`
(`unamb_of_pathUnique`) and follows from the structural invariant `C07.XInv` by the same
first-divergence argument (`pathUnique_of_xinv`), so nothing is lost for built automata.

Ingredients: `PathL` (runs with the list of visited states), `boxAlong` (the box of the
configuration at the end of a run), `Inv2` (a reachable configuration is the initial one, or
unbound on a host without cells, or `.bound r c 0 0 (boxAlong l)` for a `matSigma h r c`-run `l`
from the root to its state), `emit_mem_cases`, `emit_nodup` (one expansion emits no match twice),
`config_eq_of_common` (two reachable configurations emitting a common match are equal), and
`lawful_matSigma`. Everything lives in `namespace Pm.C07M`.
-/
import PmVerif.Proofs.C07Run
import PmVerif.Proofs.C07Check
import PmVerif.Proofs.MatProgRun
namespace Pm
namespace C07M
open Automaton AnchM

/-! ### runs with their list of visited states, uniqueness of accepting runs -/

section Paths
variable {K P : Type}

/-- `σ`-paths from `x` to `s` together with the list of the states visited before `s`
(`x` first). -/
inductive PathL (σ : Constraint K P → Bool) (a : Automaton K P) : Nat → List Nat → Nat → Prop where
  | nil (x : Nat) : PathL σ a x [] x
  | cons {x y s : Nat} {l : List Nat} : C07.StepTo σ a x y → PathL σ a y l s →
      PathL σ a x (x :: l) s

theorem PathL.toPath {σ : Constraint K P → Bool} {a : Automaton K P} {x s : Nat} {l : List Nat}
    (h : PathL σ a x l s) : C07.PathFrom σ a x s := by
  induction h with
  | nil x => exact .nil x
  | cons h1 _ ih => exact .cons h1 ih

theorem PathL.snoc {σ : Constraint K P → Bool} {a : Automaton K P} {x p s : Nat} {l : List Nat}
    (h : PathL σ a x l p) (hs : C07.StepTo σ a p s) : PathL σ a x (l ++ [p]) s := by
  induction h with
  | nil x => exact .cons hs (.nil _)
  | cons h1 _ ih => exact .cons h1 (ih hs)

theorem PathL.of_path {σ : Constraint K P → Bool} {a : Automaton K P} {x s : Nat}
    (h : C07.PathFrom σ a x s) : ∃ l, PathL σ a x l s := by
  induction h with
  | nil x => exact ⟨[], .nil x⟩
  | cons h1 _ ih =>
    obtain ⟨l, hl⟩ := ih
    exact ⟨_ :: l, .cons h1 hl⟩

/-- Accepting runs are unique: two `σ`-runs from the root to states accepting the same id visit
the same states in the same order (and end in the same state). -/
def PathUnique (σ : Constraint K P → Bool) (a : Automaton K P) : Prop :=
  ∀ i s s' l l', a.Ids s i → a.Ids s' i → PathL σ a a.root l s → PathL σ a a.root l' s' →
    l = l' ∧ s = s'

/-- Uniqueness of accepting runs implies `C07.Unamb`. -/
theorem unamb_of_pathUnique {σ : Constraint K P → Bool} {a : Automaton K P}
    (hP : PathUnique σ a) : C07.Unamb σ a where
  ids s s' i h h' hi hi' := by
    obtain ⟨l, hl⟩ := PathL.of_path h
    obtain ⟨l', hl'⟩ := PathL.of_path h'
    exact (hP i s s' l l' hi hi' hl hl').2
  par s p p' i hi h h' hs hs' := by
    obtain ⟨l, hl⟩ := PathL.of_path h
    obtain ⟨l', hl'⟩ := PathL.of_path h'
    have e := (hP i s s _ _ hi hi (hl.snoc hs) (hl'.snoc hs')).1
    have e2 := (List.append_inj' e rfl).2
    cases e2
    rfl
  root p i hi h hs := by
    obtain ⟨l, hl⟩ := PathL.of_path h
    have e := (hP i _ _ _ _ hi hi (.nil _) (hl.snoc hs)).1
    cases l <;> cases e

variable {Mx : Constraint K P → Constraint K P → Prop} {σ : Constraint K P → Bool}
  {a : Automaton K P}

/-- The first-divergence argument of `C07.ids_unique`, keeping the visited states. -/
theorem pathL_unique (X : C07.XInv Mx a) (hl : C07.Lawful Mx σ) (ok : OrdersOK a) {i : Nat} :
    ∀ {x s s' : Nat} {l l' : List Nat}, PathL σ a x l s → PathL σ a x l' s' →
      a.Ids s i → a.Ids s' i → l = l' ∧ s = s' := by
  intro x s s' l l' h
  induction h generalizing s' l' with
  | nil x =>
    intro h' hi hi'
    cases h' with
    | nil => exact ⟨rfl, rfl⟩
    | cons h1 h2 =>
      obtain ⟨c, hE⟩ := h1.hasEdge ok
      exact absurd (h2.toPath.accBelow hi') (X.down _ _ _ _ hi hE)
  | @cons x y s l h1 h2 ih =>
    intro h' hi hi'
    cases h' with
    | nil =>
      obtain ⟨c, hE⟩ := h1.hasEdge ok
      exact absurd (h2.toPath.accBelow hi) (X.down _ _ _ _ hi' hE)
    | @cons _ y' _ l'' h1' h2' =>
      by_cases hy : y = y'
      · subst hy
        obtain ⟨e1, e2⟩ := ih h2' hi hi'
        exact ⟨by rw [e1], e2⟩
      · obtain ⟨c1, c2, hE1, hE2, hne⟩ := C07.not_excl_of_steps hl ok h1 h1'
        exact (X.sib _ _ _ _ _ hE1 hE2 hy hne i (h2.toPath.accBelow hi)
          (h2'.toPath.accBelow hi')).elim

/-- **The structural invariant implies uniqueness of accepting runs** under every lawful truth
assignment. -/
theorem pathUnique_of_xinv (X : C07.XInv Mx a) (hl : C07.Lawful Mx σ) (ok : OrdersOK a) :
    PathUnique σ a :=
  fun _ _ _ _ _ hi hi' h h' => pathL_unique X hl ok h h' hi hi'

end Paths

variable {A : Automaton MKey CharPred} {ps : List MatPattern} {h : MatHost}

/-! ### the box at the end of a run -/

/-- The box of the step candidate of state `p` from a configuration with box `b`. -/
def boxStep (A : Automaton MKey CharPred) (h : MatHost) (r c : Nat) (b : Int × Int) (p : Nat) :
    Int × Int :=
  stepBox h r c b (A.stateD p).scope.tail

/-- The box of the configuration anchored at `(r, c)` after stepping through the states `l`. -/
def boxAlong (A : Automaton MKey CharPred) (h : MatHost) (r c : Nat) (l : List Nat) : Int × Int :=
  l.foldl (boxStep A h r c) (0, 0)

theorem boxAlong_snoc (r c : Nat) (l : List Nat) (p : Nat) :
    boxAlong A h r c (l ++ [p]) = boxStep A h r c (boxAlong A h r c l) p := by
  unfold boxAlong
  rw [List.foldl_append]
  rfl

theorem foldl_boxStep_nonneg (r c : Nat) : ∀ (l : List Nat) (b : Int × Int), 0 ≤ b.1 → 0 ≤ b.2 →
    0 ≤ (l.foldl (boxStep A h r c) b).1 ∧ 0 ≤ (l.foldl (boxStep A h r c) b).2
  | [], _, h1, h2 => ⟨h1, h2⟩
  | p :: l, b, _, _ => by
    obtain ⟨g1, g2, _⟩ := stepBox_spec h r c b (A.stateD p).scope.tail
    exact foldl_boxStep_nonneg r c l (boxStep A h r c b p) g1 g2

theorem boxAlong_nonneg (r c : Nat) (l : List Nat) :
    0 ≤ (boxAlong A h r c l).1 ∧ 0 ≤ (boxAlong A h r c l).2 :=
  foldl_boxStep_nonneg r c l (0, 0) (Int.le_refl _) (Int.le_refl _)

/-! ### reachable configurations, with their run -/

/-- A configuration is the initial one (or unbound on a host without cells), or it is bound at an
existing anchor cell `(r, c)` with the box of a `matSigma h r c`-run from the root to its state. -/
def Inv2 (A : Automaton MKey CharPred) (h : MatHost) (s : Nat) (m : MatPos) : Prop :=
  (m = .unbound ∧ (s = A.root ∨ matAllCells h = [])) ∨
  ∃ r c l, (matCell h r c).isSome = true ∧ l ≠ [] ∧ PathL (matSigma h r c) A A.root l s ∧
    m = .bound r c 0 0 (boxAlong A h r c l).1 (boxAlong A h r c l).2

/-- The step candidates from a configuration satisfying `Inv2`. -/
theorem cand_cases {s : Nat} {w : AState MKey} {m m' : MatPos} {cands : List MatPos}
    (hw : A.g.weight? s = some w) (hst : StateOK A ps s w) (hne : w.scope ≠ [])
    (hinv : Inv2 A h s m) (hc : stepCands matDomain h w m = .ok cands) (hm' : m' ∈ cands) :
    (m' = .unbound ∧ matAllCells h = []) ∨
    ∃ r c l, (matCell h r c).isSome = true ∧ PathL (matSigma h r c) A A.root l s ∧
      m' = .bound r c 0 0 (boxAlong A h r c (l ++ [s])).1 (boxAlong A h r c (l ++ [s])).2 ∧
      ∀ k ∈ w.scope, matCellAt h r c k = true →
        k.1 ≤ (boxAlong A h r c (l ++ [s])).1 ∧ k.2 ≤ (boxAlong A h r c (l ++ [s])).2 := by
  obtain ⟨rest, hs, h0⟩ : ∃ rest, w.scope = (0, 0) :: rest ∧ (0, 0) ∉ rest := by
    rcases hst.scope_shape with h | h
    · exact absurd h hne
    · exact h
  have hnn : NN rest := by
    have := hst.scope_nn
    rw [hs] at this
    exact NN_tail this
  have hbs : ∀ r c l, boxAlong A h r c (l ++ [s]) = stepBox h r c (boxAlong A h r c l) rest := by
    intro r c l
    rw [boxAlong_snoc]
    unfold boxStep
    rw [stateD_of_weight? hw, hs]
    rfl
  rcases hinv with ⟨rfl, hroot⟩ | ⟨r, c, l, hcell, _, hpath, rfl⟩
  · by_cases hB : matAllCells h = []
    · rw [stepCands_unbound_empty h w hB] at hc
      cases hc
      exact .inl ⟨List.mem_singleton.mp hm', hB⟩
    · have hs' : s = A.root := by
        rcases hroot with h | h
        · exact h
        · exact absurd h hB
      rw [stepCands_unbound h w rest hs h0 hnn hB] at hc
      cases hc
      obtain ⟨v, hv, rfl⟩ := List.mem_map.mp hm'
      obtain ⟨_, _, g3⟩ := stepBox_spec h v.1 v.2 (0, 0) rest
      refine .inr ⟨v.1, v.2, [], (mem_matAllCells h v).mp hv, hs' ▸ PathL.nil _, ?_, ?_⟩
      · rw [hbs v.1 v.2 []]
        rfl
      · rw [hbs v.1 v.2 [], hs]
        exact g3
  · obtain ⟨hR, hC⟩ := boxAlong_nonneg (A := A) (h := h) r c l
    rw [stepCands_bound h w r c _ _ rest hs h0 hnn hR hC] at hc
    cases hc
    obtain ⟨_, _, g3⟩ := stepBox_spec h r c (boxAlong A h r c l) rest
    refine .inr ⟨r, c, l, hcell, hpath, ?_, ?_⟩
    · rw [hbs r c l]
      exact List.mem_singleton.mp hm'
    · rw [hbs r c l, hs]
      exact g3

theorem reach_inv2 (hok : MatProg.AllOK A ps) {s : Nat} {m : MatPos}
    (hr : Reach matDomain A h s m) : Inv2 A h s m := by
  induction hr with
  | root => exact .inl ⟨rfl, .inl rfl⟩
  | @con s m w cands m' t e q _ hw hc hm' ht he hcw hsat ih =>
    have hst := hok _ _ hw
    have hne : w.scope ≠ [] := hst.scope_ne (.inl (List.ne_nil_of_mem ht))
    rcases cand_cases hw hst hne ih hc hm' with ⟨rfl, hB⟩ | ⟨r, c, l, hcell, hpath, rfl, hcov⟩
    · exact .inl ⟨rfl, .inr hB⟩
    · rw [sat_cand hst ht he hcw r c _ _ hcov] at hsat
      exact .inr ⟨r, c, l ++ [s], hcell, by simp,
        hpath.snoc ⟨w, t, e, hw, he, rfl, .inl ⟨ht, q, hcw, Option.some.inj hsat⟩⟩, rfl⟩
  | @eps s m w cands m' t e _ hw hc hm' ht he hd ih =>
    have hst := hok _ _ hw
    have hne : w.scope ≠ [] := hst.scope_ne (.inr (List.ne_nil_of_mem ht))
    rcases cand_cases hw hst hne ih hc hm' with ⟨rfl, hB⟩ | ⟨r, c, l, hcell, hpath, rfl, hcov⟩
    · exact .inl ⟨rfl, .inr hB⟩
    · exact .inr ⟨r, c, l ++ [s], hcell, by simp,
        hpath.snoc ⟨w, t, e, hw, he, rfl, .inr ⟨ht, (eps_cond_iff hst r c _ _ hcov).mp hd⟩⟩, rfl⟩

/-- The shape of the binding of a configuration satisfying `Inv2`. -/
theorem Inv2.shape {s : Nat} {m : MatPos} (hinv : Inv2 A h s m) :
    m = .unbound ∨ ∃ r c R C, m = .bound r c 0 0 R C ∧ 0 ≤ R ∧ 0 ≤ C := by
  rcases hinv with ⟨rfl, _⟩ | ⟨r, c, l, _, _, _, rfl⟩
  · exact .inl rfl
  · obtain ⟨h1, h2⟩ := boxAlong_nonneg (A := A) (h := h) r c l
    exact .inr ⟨r, c, _, _, rfl, h1, h2⟩

/-! ### what an emitted match says about its configuration -/

theorem emit_mem_cases {s : Nat} {w : AState MKey} {m : MatPos} {em : List (Match MatPos)}
    (hw : A.g.weight? s = some w) (hst : StateOK A ps s w) (hinv : Inv2 A h s m)
    (he : emitMatches matDomain h m w.matches_ = .ok em) {i : Nat} {mm : MatPos}
    (hmem : (i, mm) ∈ em) :
    A.Ids s i ∧
    ((mm = .unbound ∧ s = A.root) ∨
     ∃ r c R' C', mm = .bound r c 0 0 R' C' ∧
       ((m = .unbound ∧ s = A.root) ∨ ∃ R C, m = .bound r c 0 0 R C)) := by
  obtain ⟨keys, hk, m₁, hm₁, hret⟩ := (mem_emitMatches he i mm).mp hmem
  refine ⟨⟨w, hw, List.mem_map.mpr ⟨(i, keys), hk, rfl⟩⟩, ?_⟩
  obtain ⟨hshape, hroot, hnn, _⟩ := hst.matches_ i keys hk
  rcases hshape with rfl | ⟨rest, rfl, h0⟩
  · left
    have hs : s = A.root := by
      rcases hroot with h | h
      · exact h
      · exact absurd rfl h
    have hret' : matPosMap.retain m₁ [] = some mm := hret
    rw [retain_nil] at hret'
    exact ⟨(Option.some.inj hret').symm, hs⟩
  · right
    rcases hinv.shape with rfl | ⟨r, c, R, C, rfl, hR, hC⟩
    · obtain ⟨v, hv, hmm⟩ := emit_unbound_sound h rest h0 (NN_tail hnn) mm ⟨m₁, hm₁, hret⟩
      have hs : s = A.root := by
        rcases hinv with ⟨_, hs | hB⟩ | ⟨_, _, _, _, _, _, hm⟩
        · exact hs
        · rw [hB] at hv; cases hv
        · cases hm
      exact ⟨v.1, v.2, _, _, hmm, .inl ⟨rfl, hs⟩⟩
    · have hmm := emit_bound_sound h r c R C rest h0 (NN_tail hnn) hR hC mm ⟨m₁, hm₁, hret⟩
      exact ⟨r, c, _, _, hmm, .inr ⟨R, C, rfl⟩⟩

/-! ### one expansion emits no match twice -/

/-- The anchor of a position map. -/
def anchorOf : MatPos → Nat × Nat
  | .unbound => (0, 0)
  | .bound r c _ _ _ _ => (r, c)

theorem retainAll_map_eq {β : Type} (f : MatPos → β) (keys : List MKey) :
    ∀ (cands ms : List MatPos), retainAll matDomain keys cands = .ok ms →
      (∀ c ∈ cands, ∀ r, matPosMap.retain c keys = some r → f r = f c) →
      ms.map f = cands.map f := by
  intro cands
  induction cands with
  | nil =>
    intro ms hr _
    simp only [retainAll, Except.ok.injEq] at hr
    subst hr; rfl
  | cons c cs ih =>
    intro ms hr hf
    unfold retainAll at hr
    split at hr
    · cases hr
    · rename_i r hc
      split at hr
      · cases hr
      · rename_i rs hrs
        cases hr
        rw [List.map_cons, List.map_cons, hf c List.mem_cons_self r hc,
          ih rs hrs fun c' hc' => hf c' (List.mem_cons_of_mem _ hc')]

theorem retainAll_length_eq (keys : List MKey) (cands ms : List MatPos)
    (hr : retainAll matDomain keys cands = .ok ms) : ms.length = cands.length := by
  have := retainAll_map_eq (fun _ => ()) keys cands ms hr (fun _ _ _ _ => rfl)
  simpa using congrArg List.length this

/-- The retained candidates of one accepted pattern are pairwise different: at most one from a
bound configuration, at most one per host cell from the unbound one. -/
theorem retained_nodup {m : MatPos} {keys : List MKey} {ms : List MatPos}
    (hm : m = .unbound ∨ ∃ r c R C, m = .bound r c 0 0 R C ∧ 0 ≤ R ∧ 0 ≤ C)
    (hk : keys = [] ∨ ∃ rest, keys = (0, 0) :: rest ∧ (0, 0) ∉ rest) (hnn : NN keys)
    (hr : retainAll matDomain keys (bindAll matPosMap matOpts h m
      (keys.filter fun k => (matPosMap.get m k).isNone) false) = .ok ms) : ms.Nodup := by
  rcases hk with rfl | ⟨rest, rfl, h0⟩
  · -- the empty key list: the single candidate `m`
    apply C07.nodup_of_length_le_one
    rw [retainAll_length_eq _ _ _ hr]
    exact Nat.le_refl 1
  · have hnr : NN rest := NN_tail hnn
    rcases hm with rfl | ⟨r, c, R, C, rfl, hR, hC⟩
    · rw [filter_unbound, c13_cons, extend_unbound_zero h false (.inl rfl), List.flatMap_map] at hr
      have hfm : ((matAllCells h).flatMap fun v =>
            bindAll matPosMap matOpts h (MatPos.bound v.1 v.2 0 0 0 0) rest false) =
          (matAllCells h).flatMap fun v =>
            if matCond h v.1 v.2 0 0 rest then
              [MatPos.bound v.1 v.2 0 0 (matBox 0 0 rest).1 (matBox 0 0 rest).2] else [] := by
        apply C07.flatMap_congr'
        intro v _
        exact mat_bindAll_bound h v.1 v.2 rest 0 0 (Int.le_refl _) (Int.le_refl _) hnr
      rw [hfm] at hr
      obtain ⟨g1, g2⟩ := matBox_ge rest 0 0
      -- the anchors of the retained candidates form a sublist of the host cells
      have hmap := retainAll_map_eq anchorOf ((0, 0) :: rest) _ ms hr (by
        intro c hc r hcr
        obtain ⟨v, _, hcv⟩ := List.mem_flatMap.mp hc
        split at hcv
        · rw [List.mem_singleton] at hcv
          subst hcv
          rw [retain_bound v.1 v.2 _ _ rest g1 g2 h0 hnr] at hcr
          cases hcr
          rfl
        · cases hcv)
      have hsub := C07.flatMap_map_sublist anchorOf
        (fun v : MVal => if matCond h v.1 v.2 0 0 rest then
          [MatPos.bound v.1 v.2 0 0 (matBox 0 0 rest).1 (matBox 0 0 rest).2] else [])
        (matAllCells h) (by
          intro v _
          split
          · exact .inr ⟨_, rfl, rfl⟩
          · exact .inl rfl)
      have hnd : (ms.map anchorOf).Nodup := by
        rw [hmap]
        exact (matAllCells_nodup h).sublist hsub
      exact List.Pairwise.of_map anchorOf (fun _ _ hne heq => hne (heq ▸ rfl)) hnd
    · apply C07.nodup_of_length_le_one
      rw [retainAll_length_eq _ _ _ hr, filter_missing r c R C _ hnn,
        mat_bindAll_bound h r c _ R C hR hC (fun k hk => hnn k (List.mem_filter.mp hk).1)]
      split <;> simp

/-- One expansion emits no match twice. -/
theorem emit_nodup_aux {m : MatPos}
    (hm : m = .unbound ∨ ∃ r c R C, m = .bound r c 0 0 R C ∧ 0 ≤ R ∧ 0 ≤ C) :
    ∀ (pats : List (Nat × List MKey)) (em : List (Match MatPos)),
      (∀ pk ∈ pats, (pk.2 = [] ∨ ∃ rest, pk.2 = (0, 0) :: rest ∧ (0, 0) ∉ rest) ∧ NN pk.2) →
      (pats.map (·.1)).Nodup → emitMatches matDomain h m pats = .ok em → em.Nodup := by
  intro pats
  induction pats with
  | nil =>
    intro em _ _ he
    simp only [emitMatches, Except.ok.injEq] at he
    subst he
    exact List.nodup_nil
  | cons pk rest ih =>
    intro em hsh hnd he
    obtain ⟨pid₀, keys₀⟩ := pk
    simp only [emitMatches, emit_cands_eq] at he
    split at he
    · cases he
    · rename_i ms hms
      split at he
      · cases he
      · rename_i more hmore
        simp only [Except.ok.injEq] at he
        subst he
        rw [List.map_cons, List.nodup_cons] at hnd
        have hsh0 := hsh (pid₀, keys₀) List.mem_cons_self
        have hms' : ms.Nodup := retained_nodup hm hsh0.1 hsh0.2 hms
        rw [List.nodup_append]
        refine ⟨List.Pairwise.map _ (fun x y hxy heq => hxy (Prod.mk.inj heq).2) hms',
          ih more (fun pk hpk => hsh pk (List.mem_cons_of_mem _ hpk)) hnd.2 hmore, ?_⟩
        intro x hx y hy hxy
        subst hxy
        obtain ⟨x', _, rfl⟩ := List.mem_map.mp hx
        obtain ⟨keys, hk, _⟩ := (mem_emitMatches hmore pid₀ x').mp hy
        exact hnd.1 (List.mem_map.mpr ⟨(pid₀, keys), hk, rfl⟩)

theorem emit_nodup {s : Nat} {w : AState MKey} {m : MatPos} {em : List (Match MatPos)}
    (hst : StateOK A ps s w) (hinv : Inv2 A h s m) (hnd : (w.matches_.map (·.1)).Nodup)
    (he : emitMatches matDomain h m w.matches_ = .ok em) : em.Nodup :=
  emit_nodup_aux hinv.shape w.matches_ em
    (fun pk hpk => ⟨(hst.matches_ pk.1 pk.2 hpk).1, (hst.matches_ pk.1 pk.2 hpk).2.2.1⟩) hnd he

/-! ### two configurations emitting a common match are equal -/

theorem config_eq_of_common (hP : ∀ r c, PathUnique (matSigma h r c) A)
    {s s' : Nat} {w w' : AState MKey} {m m' : MatPos} {em em' : List (Match MatPos)}
    (hw : A.g.weight? s = some w) (hw' : A.g.weight? s' = some w')
    (hst : StateOK A ps s w) (hst' : StateOK A ps s' w')
    (hinv : Inv2 A h s m) (hinv' : Inv2 A h s' m')
    (he : emitMatches matDomain h m w.matches_ = .ok em)
    (he' : emitMatches matDomain h m' w'.matches_ = .ok em')
    {x : Match MatPos} (hx : x ∈ em) (hx' : x ∈ em') : s = s' ∧ m = m' := by
  obtain ⟨i, mm⟩ := x
  obtain ⟨hi, hc⟩ := emit_mem_cases hw hst hinv he hx
  obtain ⟨hi', hc'⟩ := emit_mem_cases hw' hst' hinv' he' hx'
  -- a bound configuration at a state accepting `i` is not at the root if the root accepts `i`
  have noroot : ∀ {s₀ : Nat} {m₀ : MatPos} {r c : Nat} {R C : Int}, Inv2 A h s₀ m₀ →
      A.Ids A.root i → A.Ids s₀ i → m₀ = .bound r c 0 0 R C → False := by
    intro s₀ m₀ r c R C hinv0 hir hi0 hm0
    rcases hinv0 with ⟨hu, _⟩ | ⟨r0, c0, l, _, hl, hpath, _⟩
    · rw [hu] at hm0; cases hm0
    · exact hl ((hP r0 c0 i _ _ _ _ hir hi0 (.nil _) hpath).1).symm
  rcases hc with ⟨rfl, hs⟩ | ⟨r, c, R₁, C₁, rfl, hcase⟩
  · -- the empty key list: both at the root, both unbound
    rcases hc' with ⟨_, hs'⟩ | ⟨_, _, _, _, hmm, _⟩
    · subst hs; subst hs'
      refine ⟨rfl, ?_⟩
      rcases hinv.shape with rfl | ⟨_, _, _, _, rfl, _⟩
      · rcases hinv'.shape with rfl | ⟨_, _, _, _, rfl, _⟩
        · rfl
        · exact (noroot hinv' hi' hi' rfl).elim
      · exact (noroot hinv hi hi rfl).elim
    · cases hmm
  · rcases hc' with ⟨hmm, _⟩ | ⟨r', c', R₂, C₂, hmm, hcase'⟩
    · cases hmm
    · cases hmm
      rcases hcase with ⟨rfl, hs⟩ | ⟨R, C, rfl⟩
      · rcases hcase' with ⟨rfl, hs'⟩ | ⟨R', C', rfl⟩
        · exact ⟨hs.trans hs'.symm, rfl⟩
        · subst hs
          exact (noroot hinv' hi hi' rfl).elim
      · rcases hcase' with ⟨rfl, hs'⟩ | ⟨R', C', rfl⟩
        · subst hs'
          exact (noroot hinv hi' hi rfl).elim
        · -- both bound at the anchor `(r, c)`: the runs coincide, hence the boxes
          rcases hinv with ⟨hu, _⟩ | ⟨r0, c0, l, _, _, hpath, hm0⟩
          · cases hu
          · rcases hinv' with ⟨hu, _⟩ | ⟨r0', c0', l', _, _, hpath', hm0'⟩
            · cases hu
            · cases hm0
              cases hm0'
              obtain ⟨hl, hs⟩ := hP r c i s s' l l' hi hi' hpath hpath'
              subst hl; subst hs
              exact ⟨rfl, rfl⟩

/-! ### the run -/

/-- **No match is reported twice** by the traversal of a matrix automaton whose states are OK and
whose accepting runs are unique under every anchored truth assignment. -/
theorem run_nodup_mat (A : Automaton MKey CharPred) (ps : List MatPattern) (h : MatHost)
    (fuel : Nat) (ms : List (Match MatPos)) (seen : List (Nat × List (Option MVal)))
    (hok : MatProg.AllOK A ps) (hP : ∀ r c, PathUnique (matSigma h r c) A)
    (hN : C07.IdsNodup A) (hr : run matDomain A h fuel = .ok (ms, seen)) : ms.Nodup := by
  obtain ⟨exp, hK, hnd, ⟨ems, hE, rfl⟩, hreach⟩ := trun_expanded hr
  refine C07.nodup_flatten_of_keys _ _ exp seen ems hK hE hnd ?_ ?_
  · rintro ⟨s, m⟩ hsm em ⟨w, hw, he⟩
    exact emit_nodup (hok s w hw) (reach_inv2 hok (hreach _ hsm)) (hN s w hw) he
  · rintro ⟨s, m⟩ hsm ⟨s', m'⟩ hsm' em em' k k' ⟨w, hw, he⟩ ⟨w', hw', he'⟩ ⟨w₁, hw₁, hk⟩
      ⟨w₁', hw₁', hk'⟩ ⟨b, hb, hb'⟩
    simp only at hw hw' he he' hw₁ hw₁' hk hk'
    obtain ⟨hs, hm⟩ := config_eq_of_common hP hw hw' (hok s w hw) (hok s' w' hw')
      (reach_inv2 hok (hreach _ hsm)) (reach_inv2 hok (hreach _ hsm')) he he' hb hb'
    subst hs; subst hm
    rw [hw₁] at hw₁'
    cases hw₁'
    rw [hk, hk']

/-! ### lawfulness of the anchored truth assignments -/

/-- Every anchored truth assignment of a matrix host is lawful for `charMx`. -/
theorem lawful_matSigma (h : MatHost) (r c : Nat) :
    C07.Lawful (fun k1 k2 : MatCons => C07.charMx k1 k2 = true) (matSigma h r c) := by
  intro c1 c2 hm h1 h2
  obtain ⟨v1, v2, args, hv, rfl, rfl⟩ := (C07.charMx_iff c1 c2).mp hm
  unfold matSigma at h1 h2
  simp only at h1 h2
  match hargs : args.map (fun ij : MKey => (r + ij.1.toNat, c + ij.2.toNat)), h1, h2 with
  | [p], h1, h2 =>
    obtain ⟨pr, pc⟩ := p
    simp only [matCheck, beq_iff_eq, Option.some.injEq] at h1 h2
    rw [h1] at h2
    exact hv (Option.some.inj h2)
  | [], h1, _ => simp [matCheck] at h1
  | _ :: _ :: _, h1, _ => simp [matCheck] at h1

end C07M
end Pm
