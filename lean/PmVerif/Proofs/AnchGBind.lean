/-
Proofs/AnchGBind.lean — T-RUN-ANCH-PG, stage 1: the bindings the traversal of a single-root
port-graph automaton computes. `pgOpts` on single-root keys, `bindAll` on an anchored
association list in closed form (`extG`), `retain`, the step candidates of a state, the bindings
emitted at an accepting state, and the evaluation of a constraint under such a binding
(`= pgSigmaAnch`). Everything lives in `namespace Pm.AnchG`.
-/
import PmVerif.Proofs.AnchGDefs
import PmVerif.Spec.RunSpec
import PmVerif.Props.C13
import PmVerif.Props.C14
import PmVerif.Props.C09
import PmVerif.Props.TRun
import PmVerif.Props.TPG
namespace Pm
namespace AnchG

/-! ### single-root keys -/

/-- A single-root key: `root 0` or `along 0 _ _`. -/
def SR (k : PGKey) : Prop := k = .root 0 ∨ ∃ p l, k = .along 0 p l

theorem pgSingleRootKeys_iff (ks : List PGKey) :
    pgSingleRootKeys ks = true ↔ ∀ k ∈ ks, SR k := by
  unfold pgSingleRootKeys
  rw [List.all_eq_true]
  constructor
  · intro hall k hk
    have := hall k hk
    split at this
    · exact .inl rfl
    · exact .inr ⟨_, _, rfl⟩
    · cases this
  · intro hall k hk
    rcases hall k hk with rfl | ⟨p, l, rfl⟩ <;> rfl

theorem pgVal_root (h : PortGraph) (r : Nat) : pgVal h r (.root 0) = some r := rfl

/-! ### `pgOpts` on single-root keys -/

theorem pgOpts_root {h : PortGraph} {m : PGMap} (hn : alGet m (.root 0) = none) :
    pgOpts h (.root 0) m = h.nodesIter := by
  simp [pgOpts, pgOptsP, hn]

theorem pgOpts_along {h : PortGraph} {m : PGMap} {r : Nat} {p : POff} {l : Nat}
    (hr : alGet m (.root 0) = some r) (hn : alGet m (.along 0 p l) = none) :
    pgOpts h (.along 0 p l) m = (pgVal h r (.along 0 p l)).toList := by
  simp [pgOpts, pgOptsP, hn, hr, pgVal]

theorem pgOpts_along_unrooted {h : PortGraph} {m : PGMap} {p : POff} {l : Nat}
    (hr : alGet m (.root 0) = none) (hn : alGet m (.along 0 p l) = none) :
    pgOpts h (.along 0 p l) m = [] := by
  simp [pgOpts, pgOptsP, hn, hr]

/-! ### anchored bindings -/

/-- A binding anchored at host node `r`: no key is listed twice, the root key is bound to `r`,
and every entry is a single-root key bound to its value from `r`. -/
structure Anchored (h : PortGraph) (r : Nat) (m : PGMap) : Prop where
  nodup : (m.map (·.1)).Nodup
  root : alGet m (.root 0) = some r
  vals : ∀ k v, alGet m k = some v → pgVal h r k = some v

theorem alGet_none_iff_not_mem (m : PGMap) (k : PGKey) :
    alGet m k = none ↔ k ∉ m.map (·.1) := by
  induction m with
  | nil => simp [alGet]
  | cons kv m ih =>
    obtain ⟨k', v'⟩ := kv
    by_cases hk : k' = k
    · subst hk; simp [alGet]
    · simp only [alGet, hk, if_false, List.map_cons, List.mem_cons]
      rw [ih]
      constructor
      · intro h1 h2
        rcases h2 with h2 | h2
        · exact hk h2.symm
        · exact h1 h2
      · intro h1 h2
        exact h1 (.inr h2)

theorem alGet_eq_nil {m : PGMap} (hall : ∀ k, alGet m k = none) : m = [] := by
  cases m with
  | nil => rfl
  | cons kv m =>
    have := hall kv.1
    simp [alGet] at this

theorem nodup_append_single {m : PGMap} {k : PGKey} {v : Nat} (hnd : (m.map (·.1)).Nodup)
    (hn : alGet m k = none) : ((m ++ [(k, v)]).map (·.1)).Nodup := by
  rw [List.map_append, List.nodup_append]
  refine ⟨hnd, by simp, ?_⟩
  intro a ha b hb
  simp only [List.map_cons, List.map_nil, List.mem_singleton] at hb
  subst hb
  intro e
  subst e
  exact (alGet_none_iff_not_mem m a).mp hn ha

theorem nodup_retain {m : PGMap} (ks : List PGKey) (hnd : (m.map (·.1)).Nodup) :
    ((alRetain m ks).map (·.1)).Nodup := by
  unfold alRetain
  exact List.Nodup.sublist (List.Sublist.map _ List.filter_sublist) hnd

theorem anchored_single (h : PortGraph) (r : Nat) : Anchored h r [(.root 0, r)] where
  nodup := by simp
  root := by simp [alGet]
  vals := by
    intro k v hg
    rw [alGet_singleton] at hg
    split at hg
    · next e => subst e; exact hg
    · cases hg

/-! ### closed form of `bindAll` on an anchored binding -/

/-- Bind one key (if it is unbound and defined at anchor `r`). -/
def ext1 (h : PortGraph) (r : Nat) (m : PGMap) (k : PGKey) : PGMap :=
  match alGet m k with
  | some _ => m
  | none =>
    match pgVal h r k with
    | some v => m ++ [(k, v)]
    | none => m

/-- Bind the keys `ks` in order. -/
def extG (h : PortGraph) (r : Nat) : PGMap → List PGKey → PGMap
  | m, [] => m
  | m, k :: ks => extG h r (ext1 h r m k) ks

theorem get_ext1 {h : PortGraph} {r : Nat} {m : PGMap} (ha : Anchored h r m) (k k' : PGKey) :
    alGet (ext1 h r m k) k' = if k' = k then pgVal h r k else alGet m k' := by
  unfold ext1
  cases hg : alGet m k with
  | some v =>
    simp only
    split
    · next e => subst e; rw [hg, ha.vals _ _ hg]
    · rfl
  | none =>
    simp only
    cases hv : pgVal h r k with
    | none =>
      simp only
      split
      · next e => subst e; exact hg
      · rfl
    | some v =>
      simp only
      by_cases e : k' = k
      · subst e
        rw [if_pos rfl, alGet_append_of_none m _ _ hg, alGet_singleton, if_pos rfl]
      · rw [if_neg e]
        cases hg' : alGet m k' with
        | some w => exact alGet_append_of_some m _ k' w hg'
        | none =>
          rw [alGet_append_of_none m _ k' hg', alGet_singleton, if_neg (fun e' => e e'.symm)]

theorem anchored_ext1 {h : PortGraph} {r : Nat} {m : PGMap} (ha : Anchored h r m) (k : PGKey) :
    Anchored h r (ext1 h r m k) := by
  refine ⟨?_, ?_, ?_⟩
  · unfold ext1
    cases hg : alGet m k with
    | some v => exact ha.nodup
    | none =>
      simp only
      cases hv : pgVal h r k with
      | none => exact ha.nodup
      | some v => exact nodup_append_single ha.nodup hg
  · rw [get_ext1 ha]
    split
    · next e => rw [← e]; rfl
    · exact ha.root
  · intro k' v hg
    rw [get_ext1 ha] at hg
    split at hg
    · next e => subst e; exact hg
    · exact ha.vals _ _ hg

theorem anchored_extG {h : PortGraph} {r : Nat} : ∀ (ks : List PGKey) {m : PGMap},
    Anchored h r m → Anchored h r (extG h r m ks) := by
  intro ks
  induction ks with
  | nil => intro m ha; exact ha
  | cons k ks ih => intro m ha; exact ih (anchored_ext1 ha k)

theorem get_extG {h : PortGraph} {r : Nat} : ∀ (ks : List PGKey) {m : PGMap},
    Anchored h r m → ∀ k', alGet (extG h r m ks) k' =
      if k' ∈ ks then pgVal h r k' else alGet m k' := by
  intro ks
  induction ks with
  | nil => intro m _ k'; simp [extG]
  | cons k ks ih =>
    intro m ha k'
    show alGet (extG h r (ext1 h r m k) ks) k' = _
    rw [ih (anchored_ext1 ha k), get_ext1 ha]
    by_cases h1 : k' ∈ ks
    · simp [h1]
    · by_cases h2 : k' = k
      · subst h2; simp
      · simp [h1, h2]

/-- One key of `bind_all` on an anchored binding. -/
theorem extend_anch {h : PortGraph} {r : Nat} {m : PGMap} (ha : Anchored h r m) {k : PGKey}
    (hk : SR k) (inc : Bool) :
    extend assocMap pgOpts h inc k m =
      if inc = true ∨ (pgVal h r k).isSome = true then [ext1 h r m k] else [] := by
  unfold extend ext1
  show (if (alGet m k).isSome = true then _ else _) = _
  cases hg : alGet m k with
  | some v =>
    have := ha.vals _ _ hg
    simp [this]
  | none =>
    simp only [Option.isSome_none, Bool.false_eq_true, if_false]
    have hopts : pgOpts h k m = (pgVal h r k).toList := by
      rcases hk with rfl | ⟨p, l, rfl⟩
      · rw [ha.root] at hg; cases hg
      · exact pgOpts_along ha.root hg
    rw [hopts]
    cases hv : pgVal h r k with
    | none => cases inc <;> simp
    | some v =>
      have hb : assocMap.bind m k v = .ok (m ++ [(k, v)]) := by
        show alBind m k v = _
        simp [alBind, hg]
      simp [hb]

/-- `bindAll` from an anchored binding: a single candidate, or none in complete mode when some
key is undefined. -/
theorem bindAll_anch {h : PortGraph} {r : Nat} (inc : Bool) : ∀ (ks : List PGKey) {m : PGMap},
    Anchored h r m → (∀ k ∈ ks, SR k) →
    bindAll assocMap pgOpts h m ks inc =
      if inc = true ∨ ∀ k ∈ ks, (pgVal h r k).isSome = true then [extG h r m ks] else [] := by
  intro ks
  induction ks with
  | nil => intro m _ _; simp [bindAll, bindAllLoop, extG]
  | cons k ks ih =>
    intro m ha hsr
    have hk := hsr k List.mem_cons_self
    have hsr' : ∀ k' ∈ ks, SR k' := fun k' hk' => hsr k' (List.mem_cons_of_mem _ hk')
    rw [c13_cons, extend_anch ha hk inc]
    by_cases hd : inc = true ∨ (pgVal h r k).isSome = true
    · rw [if_pos hd]
      simp only [List.flatMap_cons, List.flatMap_nil, List.append_nil]
      rw [ih (anchored_ext1 ha k) hsr']
      have hc : (inc = true ∨ ∀ k' ∈ k :: ks, (pgVal h r k').isSome = true) ↔
          (inc = true ∨ ∀ k' ∈ ks, (pgVal h r k').isSome = true) := by
        constructor
        · rintro (hi | hall)
          · exact .inl hi
          · exact .inr fun k' hk' => hall k' (List.mem_cons_of_mem _ hk')
        · rintro (hi | hall)
          · exact .inl hi
          · rcases hd with hi | hd
            · exact .inl hi
            · refine .inr fun k' hk' => ?_
              rcases List.mem_cons.mp hk' with rfl | hk'
              · exact hd
              · exact hall k' hk'
      simp only [hc, extG]
    · rw [if_neg hd]
      have : ¬ (inc = true ∨ ∀ k' ∈ k :: ks, (pgVal h r k').isSome = true) := by
        rintro (hi | hall)
        · exact hd (.inl hi)
        · exact hd (.inr (hall k List.mem_cons_self))
      rw [if_neg this]
      rfl

/-! ### from the empty binding -/

theorem flatMap_congr' {α β : Type} {l : List α} {f g : α → List β} (H : ∀ x ∈ l, f x = g x) :
    l.flatMap f = l.flatMap g := by
  induction l with
  | nil => rfl
  | cons x xs ih =>
    rw [List.flatMap_cons, List.flatMap_cons, H x List.mem_cons_self,
      ih fun y hy => H y (List.mem_cons_of_mem _ hy)]

/-- The root key from the empty binding: one candidate per live host node (in incomplete mode
only when the host has a node). -/
theorem extend_nil_root (h : PortGraph) (inc : Bool) (hne : inc = false ∨ h.nodesIter ≠ []) :
    extend assocMap pgOpts h inc (.root 0) [] = h.nodesIter.map fun r => [(.root 0, r)] := by
  unfold extend
  show (if (alGet ([] : PGMap) (.root 0)).isSome = true then _ else _) = _
  have hopts : pgOpts h (.root 0) [] = h.nodesIter := pgOpts_root rfl
  have he : ((pgOpts h (.root 0) []).isEmpty && inc) = false := by
    rw [hopts]
    rcases hne with rfl | hne
    · simp
    · cases hn : h.nodesIter with
      | nil => exact absurd hn hne
      | cons _ _ => rfl
  simp only [alGet, Option.isSome_none, Bool.false_eq_true, if_false, he]
  rw [hopts]
  induction h.nodesIter with
  | nil => rfl
  | cons x xs ih =>
    have hb : assocMap.bind ([] : PGMap) (.root 0) x = .ok [(.root 0, x)] := rfl
    simp only [List.filterMap_cons, hb, List.map_cons, ih]

/-- `bindAll` from the empty binding over a key list that starts with the root key. -/
theorem bindAll_nil (h : PortGraph) (inc : Bool) (rest : List PGKey) (hsr : ∀ k ∈ rest, SR k)
    (hne : inc = false ∨ h.nodesIter ≠ []) :
    bindAll assocMap pgOpts h [] (.root 0 :: rest) inc =
      h.nodesIter.flatMap fun r =>
        if inc = true ∨ ∀ k ∈ rest, (pgVal h r k).isSome = true then
          [extG h r [(.root 0, r)] rest] else [] := by
  rw [c13_cons, extend_nil_root h inc hne, List.flatMap_map]
  apply flatMap_congr'
  intro r _
  exact bindAll_anch inc rest (anchored_single h r) hsr

/-- On a host without nodes nothing is ever bound. -/
theorem bindAll_nil_empty (h : PortGraph) (hE : h.nodesIter = []) : ∀ (ks : List PGKey),
    (∀ k ∈ ks, SR k) → bindAll assocMap pgOpts h [] ks true = [[]] := by
  intro ks
  induction ks with
  | nil => intro _; rfl
  | cons k ks ih =>
    intro hsr
    rw [c13_cons]
    have : extend assocMap pgOpts h true k [] = [[]] := by
      unfold extend
      show (if (alGet ([] : PGMap) k).isSome = true then _ else _) = _
      have hopts : pgOpts h k [] = [] := by
        rcases hsr k List.mem_cons_self with rfl | ⟨p, l, rfl⟩
        · rw [pgOpts_root rfl, hE]
        · exact pgOpts_along_unrooted rfl rfl
      simp [alGet, hopts]
    rw [this]
    simp [ih fun k' hk' => hsr k' (List.mem_cons_of_mem _ hk')]

/-! ### `retain` and the candidates -/

/-- The result of retaining `sc` after binding `sc` from an anchored binding. -/
theorem mapIs_retain_extG {h : PortGraph} {r : Nat} {m : PGMap} (ha : Anchored h r m)
    (sc : List PGKey) : MapIs (alRetain (extG h r m sc) sc) sc (pgVal h r) := by
  refine ⟨nodup_retain sc (anchored_extG sc ha).nodup, fun k => ?_⟩
  rw [alGet_retain, get_extG sc ha]
  by_cases hk : k ∈ sc <;> simp [hk]

/-- A candidate over a key list that contains the root key is anchored. -/
theorem anchored_of_mapIs {h : PortGraph} {r : Nat} {m : PGMap} {sc : List PGKey}
    (hm : MapIs m sc (pgVal h r)) (h0 : .root 0 ∈ sc) : Anchored h r m := by
  refine ⟨hm.1, ?_, ?_⟩
  · rw [hm.2, if_pos h0]; rfl
  · intro k v hg
    rw [hm.2] at hg
    split at hg
    · exact hg
    · cases hg

theorem retainAll_singleton {keys : List PGKey} (m : PGMap) :
    retainAll pgDomain keys [m] = .ok [alRetain m keys] := rfl

theorem retainAll_pg (keys : List PGKey) (ms : List PGMap) :
    retainAll pgDomain keys ms = .ok (ms.map fun m => alRetain m keys) := by
  rw [retainAll_ok, List.map_map]
  rfl

/-- Step candidates from an anchored binding: exactly one, the binding of the scope. -/
theorem stepCands_anch {h : PortGraph} {r : Nat} {m : PGMap} (w : AState PGKey)
    (ha : Anchored h r m) (hsr : ∀ k ∈ w.scope, SR k) :
    ∃ m', stepCands pgDomain h w m = .ok [m'] ∧ MapIs m' w.scope (pgVal h r) := by
  refine ⟨alRetain (extG h r m w.scope) w.scope, ?_, mapIs_retain_extG ha _⟩
  unfold stepCands
  show retainAll pgDomain w.scope (bindAll assocMap pgOpts h m w.scope true) = _
  rw [bindAll_anch true w.scope ha hsr, if_pos (.inl rfl)]
  rfl

/-- Step candidates from the empty binding on a host with nodes: one per live node. -/
theorem stepCands_nil {h : PortGraph} (w : AState PGKey) (rest : List PGKey)
    (hs : w.scope = .root 0 :: rest) (hsr : ∀ k ∈ w.scope, SR k) (hne : h.nodesIter ≠ []) :
    ∃ f : Nat → PGMap, stepCands pgDomain h w [] = .ok (h.nodesIter.map f) ∧
      ∀ r, MapIs (f r) w.scope (pgVal h r) := by
  refine ⟨fun r => alRetain (extG h r [(.root 0, r)] rest) w.scope, ?_, ?_⟩
  · unfold stepCands
    show retainAll pgDomain w.scope (bindAll assocMap pgOpts h [] w.scope true) = _
    rw [retainAll_pg]
    congr 1
    rw [hs, bindAll_nil h true rest (fun k hk => hsr k (hs ▸ List.mem_cons_of_mem _ hk)) (.inr hne)]
    simp only [true_or, if_true]
    induction h.nodesIter with
    | nil => rfl
    | cons x xs ih => simp [ih]
  · intro r
    have ha := anchored_extG rest (anchored_single h r)
    refine ⟨nodup_retain _ ha.nodup, fun k => ?_⟩
    rw [alGet_retain, get_extG rest (anchored_single h r), hs]
    by_cases hk : k = .root 0
    · subst hk
      simp only [List.mem_cons, true_or, if_true]
      split
      · rfl
      · simp [alGet, pgVal]
    · by_cases hk' : k ∈ rest
      · simp [hk']
      · simp [hk, hk']

/-- Step candidates from the empty binding on a host without nodes. -/
theorem stepCands_nil_empty {h : PortGraph} (w : AState PGKey) (hE : h.nodesIter = [])
    (hsr : ∀ k ∈ w.scope, SR k) : stepCands pgDomain h w [] = .ok [[]] := by
  unfold stepCands
  show retainAll pgDomain w.scope (bindAll assocMap pgOpts h [] w.scope true) = _
  rw [bindAll_nil_empty h hE _ hsr]
  rfl

/-! ### emission -/

theorem filter_unbound_nil (ks : List PGKey) :
    (ks.filter fun k => (assocMap.get ([] : PGMap) k).isNone) = ks :=
  List.filter_eq_self.mpr fun _ _ => rfl

/-- Emission of an accepted pattern with single-root key list `ks` at an anchored
configuration: one match, the binding of `ks`, iff every key is defined. -/
theorem emit_anch {h : PortGraph} {r : Nat} {m : PGMap} (ha : Anchored h r m) (ks : List PGKey)
    (hsr : ∀ k ∈ ks, SR k) :
    ((∃ mm, ∃ m₁ ∈ bindAll assocMap pgOpts h m
        (ks.filter fun k => (assocMap.get m k).isNone) false, assocMap.retain m₁ ks = some mm) ↔
      ∀ k ∈ ks, (pgVal h r k).isSome = true) ∧
    ∀ mm, (∃ m₁ ∈ bindAll assocMap pgOpts h m
        (ks.filter fun k => (assocMap.get m k).isNone) false, assocMap.retain m₁ ks = some mm) →
      MapIs mm ks (pgVal h r) := by
  have hsr' : ∀ k ∈ ks.filter (fun k => (assocMap.get m k).isNone), SR k :=
    fun k hk => hsr k (List.mem_filter.mp hk).1
  rw [bindAll_anch false _ ha hsr']
  have hall : (∀ k ∈ ks.filter (fun k => (assocMap.get m k).isNone), (pgVal h r k).isSome = true) ↔
      ∀ k ∈ ks, (pgVal h r k).isSome = true := by
    constructor
    · intro hf k hk
      cases hg : alGet m k with
      | some v => rw [ha.vals _ _ hg]; rfl
      | none =>
        apply hf k
        rw [List.mem_filter]
        refine ⟨hk, ?_⟩
        show (alGet m k).isNone = true
        rw [hg]; rfl
    · intro hf k hk
      exact hf k (List.mem_filter.mp hk).1
  have hmap : MapIs (alRetain (extG h r m (ks.filter fun k => (assocMap.get m k).isNone)) ks) ks
      (pgVal h r) := by
    refine ⟨nodup_retain ks (anchored_extG _ ha).nodup, fun k => ?_⟩
    rw [alGet_retain, get_extG _ ha]
    by_cases hk : k ∈ ks
    · simp only [hk, if_true]
      split
      · rfl
      · next hnf =>
        cases hg : alGet m k with
        | some v => exact (ha.vals _ _ hg).symm
        | none =>
          exfalso
          apply hnf
          rw [List.mem_filter]
          refine ⟨hk, ?_⟩
          show (alGet m k).isNone = true
          rw [hg]; rfl
    · simp [hk]
  by_cases hb : ∀ k ∈ ks, (pgVal h r k).isSome = true
  · rw [if_pos (.inr (hall.mpr hb))]
    refine ⟨⟨fun _ => hb, fun _ => ⟨_, _, List.mem_singleton.mpr rfl, rfl⟩⟩, ?_⟩
    rintro mm ⟨m₁, hm₁, hr⟩
    rw [List.mem_singleton] at hm₁
    subst hm₁
    have : mm = alRetain (extG h r m (ks.filter fun k => (assocMap.get m k).isNone)) ks :=
      (Option.some.inj hr).symm
    rw [this]
    exact hmap
  · have : ¬ (false = true ∨ ∀ k ∈ ks.filter (fun k => (assocMap.get m k).isNone),
        (pgVal h r k).isSome = true) := by
      rintro (hf | hf)
      · cases hf
      · exact hb (hall.mp hf)
    rw [if_neg this]
    refine ⟨⟨?_, fun hb' => absurd hb' hb⟩, ?_⟩
    · rintro ⟨_, m₁, hm₁, _⟩; cases hm₁
    · rintro mm ⟨m₁, hm₁, _⟩; cases hm₁

/-- Emission at the empty binding: one match per live host node at which every key is defined. -/
theorem emit_nil (h : PortGraph) (rest : List PGKey) (hsr : ∀ k ∈ rest, SR k) :
    (∀ mm, (∃ m₁ ∈ bindAll assocMap pgOpts h []
        ((PGKey.root 0 :: rest).filter fun k => (assocMap.get ([] : PGMap) k).isNone) false,
        assocMap.retain m₁ (.root 0 :: rest) = some mm) →
      ∃ r ∈ h.nodesIter, (∀ k ∈ PGKey.root 0 :: rest, (pgVal h r k).isSome = true) ∧
        MapIs mm (.root 0 :: rest) (pgVal h r)) ∧
    (∀ r ∈ h.nodesIter, (∀ k ∈ PGKey.root 0 :: rest, (pgVal h r k).isSome = true) →
      ∃ mm, (∃ m₁ ∈ bindAll assocMap pgOpts h []
        ((PGKey.root 0 :: rest).filter fun k => (assocMap.get ([] : PGMap) k).isNone) false,
        assocMap.retain m₁ (.root 0 :: rest) = some mm) ∧
        MapIs mm (.root 0 :: rest) (pgVal h r)) := by
  rw [filter_unbound_nil, bindAll_nil h false rest hsr (.inl rfl)]
  have hmap : ∀ r, MapIs (alRetain (extG h r [(.root 0, r)] rest) (.root 0 :: rest))
      (.root 0 :: rest) (pgVal h r) := by
    intro r
    have ha := anchored_extG rest (anchored_single h r)
    refine ⟨nodup_retain _ ha.nodup, fun k => ?_⟩
    rw [alGet_retain, get_extG rest (anchored_single h r)]
    by_cases hk : k = .root 0
    · subst hk
      simp only [List.mem_cons, true_or, if_true]
      split
      · rfl
      · simp [alGet, pgVal]
    · by_cases hk' : k ∈ rest
      · simp [hk']
      · simp [hk, hk']
  constructor
  · rintro mm ⟨m₁, hm₁, hr⟩
    obtain ⟨r, hr', hm₁⟩ := List.mem_flatMap.mp hm₁
    refine ⟨r, hr', ?_⟩
    split at hm₁
    · next hc =>
      rw [List.mem_singleton] at hm₁
      subst hm₁
      have hdef : ∀ k ∈ rest, (pgVal h r k).isSome = true := by
        rcases hc with hc | hc
        · cases hc
        · exact hc
      refine ⟨?_, ?_⟩
      · intro k hk
        rcases List.mem_cons.mp hk with rfl | hk
        · rfl
        · exact hdef k hk
      · have : mm = alRetain (extG h r [(.root 0, r)] rest) (.root 0 :: rest) :=
          (Option.some.inj hr).symm
        rw [this]
        exact hmap r
    · cases hm₁
  · intro r hr hdef
    refine ⟨_, ⟨extG h r [(.root 0, r)] rest, ?_, rfl⟩, hmap r⟩
    refine List.mem_flatMap.mpr ⟨r, hr, ?_⟩
    rw [if_pos (.inr fun k hk => hdef k (List.mem_cons_of_mem _ hk))]
    exact List.mem_singleton.mpr rfl

/-! ### evaluation of a constraint is `pgSigmaAnch` -/

theorem resolveArgs_of_get {m : PGMap} {f : PGKey → Option Nat} : ∀ (ks : List PGKey),
    (∀ k ∈ ks, alGet m k = f k) →
    (∀ vs, ks.mapM f = some vs → resolveArgs alGet m ks = .ok vs ∧ vs.length = ks.length) ∧
    (ks.mapM f = none → ∃ e, resolveArgs alGet m ks = .error e) := by
  intro ks
  induction ks with
  | nil =>
    intro _
    refine ⟨fun vs hv => ?_, fun hn => ?_⟩
    · simp at hv; subst hv; exact ⟨rfl, rfl⟩
    · simp at hn
  | cons k ks ih =>
    intro hg
    have hk := hg k List.mem_cons_self
    obtain ⟨ih1, ih2⟩ := ih fun k' hk' => hg k' (List.mem_cons_of_mem _ hk')
    cases hf : f k with
    | none =>
      refine ⟨fun vs hv => ?_, fun _ => ?_⟩
      · simp [List.mapM_cons, hf] at hv
      · exact ⟨.unboundVariable k, by simp [resolveArgs, hk, hf]⟩
    | some v =>
      cases hm : ks.mapM f with
      | none =>
        refine ⟨fun vs hv => ?_, fun _ => ?_⟩
        · simp [List.mapM_cons, hf, hm] at hv
        · obtain ⟨e, he⟩ := ih2 hm
          exact ⟨e, by simp [resolveArgs, hk, hf, he]⟩
      | some vs' =>
        obtain ⟨h1, h2⟩ := ih1 vs' hm
        refine ⟨fun vs hv => ?_, fun hn => ?_⟩
        · simp [List.mapM_cons, hf, hm] at hv
          subst hv
          exact ⟨by simp [resolveArgs, hk, hf, h1], by simp [h2]⟩
        · simp [List.mapM_cons, hf, hm] at hn

/-- Under a binding that agrees with `pgVal h r` on the keys of the arity-correct constraint
`c`, the traversal's evaluation of `c` is the truth value `pgSigmaAnch h r c`. -/
theorem sat_eq_sigma (h : PortGraph) (r : Nat) (c : PGCons) (m : PGMap)
    (hk : ∀ k ∈ c.args, alGet m k = pgVal h r k) (har : c.args.length = c.pred.arity) :
    satOrFalse alGet (fun p g vs => pgCheck p g vs) c h m = some (pgSigmaAnch h r c) := by
  obtain ⟨h1, h2⟩ := resolveArgs_of_get (f := pgVal h r) c.args hk
  unfold satOrFalse isSatisfied isSatisfiedLog pgSigmaAnch
  cases hm : c.args.mapM (pgVal h r) with
  | none =>
    obtain ⟨e, he⟩ := h2 hm
    simp [he]
  | some vs =>
    obtain ⟨he, hl⟩ := h1 vs hm
    simp only [he]
    have := pgCheck_arity_total c.pred h vs (hl.trans har)
    cases hc : pgCheck c.pred h vs with
    | none => rw [hc] at this; cases this
    | some b => cases b <;> rfl

/-- On the empty binding every constraint with an argument evaluates to `false`. -/
theorem sat_nil (h : PortGraph) (c : PGCons) (har : c.args.length = c.pred.arity) :
    satOrFalse alGet (fun p g vs => pgCheck p g vs) c h [] = some false := by
  obtain ⟨pred, args⟩ := c
  have hpos : 0 < pred.arity := by cases pred <;> simp [PGPred.arity]
  cases args with
  | nil => simp at har; omega
  | cons k ks => simp [satOrFalse, isSatisfied, isSatisfiedLog, resolveArgs, alGet]

end AnchG
end Pm
