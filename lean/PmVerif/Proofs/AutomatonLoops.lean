/-
Proofs/AutomatonLoops.lean — frame lemmas for the composite edits of `Model/Automaton.lean` and
the small loops of `Model/Builder.lean`: `appendCopies`, `cloneOutgoing`, `addMatches`,
`appendEdges`, `removeTransitions`, `drainConstraints`, `moveIncoming`, `splitTarget`.
-/
import PmVerif.Proofs.AutomatonFrames
namespace Pm
namespace Automaton
variable {K P : Type}

/-! ### Growing the out-edges of one state -/

/-- `a'` is `a` plus new edges leaving `dst`, each `(dst, d, c)` with `New c d`. -/
structure Grows (a a' : Automaton K P) (dst : Nat)
    (New : Option (Constraint K P) → Nat → Prop) : Prop where
  inv : Inv a'
  root : a'.root = a.root
  wt_ne : ∀ x, x ≠ dst → a'.g.weight? x = a.g.weight? x
  wt : ∀ w, a.g.weight? dst = some w →
    ∃ w', a'.g.weight? dst = some w' ∧ w'.matches_ = w.matches_ ∧ w'.det = w.det
  dead : a.g.weight? dst = none → a'.g.weight? dst = none
  old : ∀ t e, a.g.edge? t = some e → a'.g.edge? t = some e
  new : ∀ t e, a'.g.edge? t = some e →
    a.g.edge? t = some e ∨ (a.g.edge? t = none ∧ e.src = dst ∧ New e.w e.dst)

theorem Grows.refl {a : Automaton K P} (inv : Inv a) (dst : Nat)
    (New : Option (Constraint K P) → Nat → Prop) : Grows a a dst New :=
  ⟨inv, rfl, fun _ _ => rfl, fun w h => ⟨w, h, rfl, rfl⟩, fun h => h, fun _ _ h => h,
    fun _ _ h => .inl h⟩

theorem Grows.mono {a a' : Automaton K P} {dst : Nat}
    {New New' : Option (Constraint K P) → Nat → Prop} (g : Grows a a' dst New)
    (h : ∀ c d, New c d → New' c d) : Grows a a' dst New' :=
  ⟨g.inv, g.root, g.wt_ne, g.wt, g.dead, g.old, fun t e he => by
    rcases g.new t e he with h1 | ⟨h1, h2, h3⟩
    · exact .inl h1
    · exact .inr ⟨h1, h2, h _ _ h3⟩⟩

theorem Grows.trans {a a1 a2 : Automaton K P} {dst : Nat}
    {New : Option (Constraint K P) → Nat → Prop} (g1 : Grows a a1 dst New)
    (g2 : Grows a1 a2 dst New) : Grows a a2 dst New where
  inv := g2.inv
  root := g2.root.trans g1.root
  wt_ne x hx := (g2.wt_ne x hx).trans (g1.wt_ne x hx)
  wt w hw := by
    obtain ⟨w1, hw1, h1, h2⟩ := g1.wt w hw
    obtain ⟨w2, hw2, h3, h4⟩ := g2.wt w1 hw1
    exact ⟨w2, hw2, h3.trans h1, h4.trans h2⟩
  dead h := g2.dead (g1.dead h)
  old t e h := g2.old t e (g1.old t e h)
  new t e h := by
    rcases g2.new t e h with h1 | ⟨h1, h2, h3⟩
    · rcases g1.new t e h1 with h4 | ⟨h4, h5, h6⟩
      · exact .inl h4
      · exact .inr ⟨h4, h5, h6⟩
    · refine .inr ⟨?_, h2, h3⟩
      cases hx : a.g.edge? t with
      | none => rfl
      | some e' => rw [g1.old t e' hx] at h1; cases h1

theorem Grows.weight_some {a a' : Automaton K P} {dst : Nat}
    {New : Option (Constraint K P) → Nat → Prop} (g : Grows a a' dst New) {x : Nat} {w : AState K}
    (hw : a.g.weight? x = some w) :
    ∃ w', a'.g.weight? x = some w' ∧ w'.matches_ = w.matches_ ∧ w'.det = w.det := by
  by_cases hx : x = dst
  · subst hx; exact g.wt w hw
  · exact ⟨w, (g.wt_ne x hx).trans hw, rfl, rfl⟩

theorem Grows.weight_some' {a a' : Automaton K P} {dst : Nat}
    {New : Option (Constraint K P) → Nat → Prop} (g : Grows a a' dst New) {x : Nat} {w' : AState K}
    (hw : a'.g.weight? x = some w') :
    ∃ w, a.g.weight? x = some w ∧ w'.matches_ = w.matches_ ∧ w'.det = w.det := by
  by_cases hx : x = dst
  · subst hx
    cases h : a.g.weight? x with
    | none => rw [g.dead h] at hw; cases hw
    | some w =>
      obtain ⟨w'', hw'', h1, h2⟩ := g.wt w h
      rw [hw] at hw''; cases hw''
      exact ⟨w, rfl, h1, h2⟩
  · exact ⟨w', (g.wt_ne x hx).symm.trans hw, rfl, rfl⟩

theorem Grows.live_iff {a a' : Automaton K P} {dst : Nat}
    {New : Option (Constraint K P) → Nat → Prop} (g : Grows a a' dst New) (x : Nat) :
    a'.Live x ↔ a.Live x := by
  rw [Automaton.live_iff, Automaton.live_iff]
  constructor
  · rintro ⟨w', hw'⟩; obtain ⟨w, hw, _⟩ := g.weight_some' hw'; exact ⟨w, hw⟩
  · rintro ⟨w, hw⟩; obtain ⟨w', hw', _⟩ := g.weight_some hw; exact ⟨w', hw'⟩

theorem Grows.ids_iff {a a' : Automaton K P} {dst : Nat}
    {New : Option (Constraint K P) → Nat → Prop} (g : Grows a a' dst New) (x pid : Nat) :
    a'.Ids x pid ↔ a.Ids x pid := by
  constructor
  · rintro ⟨w', hw', hp⟩
    obtain ⟨w, hw, h1, _⟩ := g.weight_some' hw'
    exact ⟨w, hw, h1 ▸ hp⟩
  · rintro ⟨w, hw, hp⟩
    obtain ⟨w', hw', h1, _⟩ := g.weight_some hw
    exact ⟨w', hw', h1 ▸ hp⟩

/-- One `append_edge`. -/
theorem appendEdge_grows {a a' : Automaton K P} (inv : Inv a) {p ch : Nat}
    {c : Option (Constraint K P)} (h : a.appendEdge p ch c = .ok a') :
    Grows a a' p (fun c' d => c' = c ∧ d = ch ∧ ch ≠ p) ∧
      (ch ≠ p → ∃ t, a'.g.edge? t = some ⟨p, ch, c⟩) := by
  by_cases hne : p = ch
  · subst hne
    rw [appendEdge_self] at h; cases h
    exact ⟨Grows.refl inv _ _, fun h => absurd rfl h⟩
  · obtain ⟨e, sp⟩ := appendEdge_spec inv hne h
    refine ⟨⟨sp.inv, sp.root, fun x hx => by rw [sp.wt, if_neg hx], fun w hw => ?_, fun hd => ?_,
      fun t ed ht => ?_, fun t ed ht => ?_⟩, fun _ => ⟨e, by rw [sp.edge, if_pos rfl]⟩⟩
    · refine ⟨addOrder c e w, by rw [sp.wt, if_pos rfl, hw]; rfl, by simp, by simp⟩
    · rw [sp.wt, if_pos rfl, hd]; rfl
    · rw [sp.edge]
      split
      · rename_i hte; subst hte; rw [sp.fresh] at ht; cases ht
      · exact ht
    · rw [sp.edge] at ht
      split at ht
      · rename_i hte; subst hte; cases ht
        exact .inr ⟨sp.fresh, rfl, rfl, rfl, Ne.symm hne⟩
      · exact .inl ht

/-! ### `appendCopies`, `cloneOutgoing` -/

theorem nextState_ok_iff {a : Automaton K P} {t d : Nat} :
    a.nextState t = .ok d ↔ ∃ e, a.g.edge? t = some e ∧ e.dst = d := by
  unfold nextState
  cases a.g.edge? t <;> simp

theorem constraintOf_ok_iff {a : Automaton K P} {t : Nat} {c : Option (Constraint K P)} :
    a.constraintOf t = .ok c ↔ ∃ e, a.g.edge? t = some e ∧ e.w = c := by
  unfold constraintOf
  cases a.g.edge? t <;> simp

theorem parent_ok_iff {a : Automaton K P} {t d : Nat} :
    a.parent t = .ok d ↔ ∃ e, a.g.edge? t = some e ∧ e.src = d := by
  unfold parent
  cases a.g.edge? t <;> simp

/-- The new edges made by copying the transitions `ts` (read in `a`). -/
def CopyOf (a : Automaton K P) (ts : List Nat) (c : Option (Constraint K P)) (d : Nat) : Prop :=
  ∃ t0 ∈ ts, ∃ e0, a.g.edge? t0 = some e0 ∧ e0.dst = d ∧ e0.w = c

theorem appendCopies_grows {dst : Nat} : ∀ (ts : List Nat) {a a' : Automaton K P}, Inv a →
    a.appendCopies dst ts = .ok a' →
    Grows a a' dst (fun c d => CopyOf a ts c d ∧ d ≠ dst) ∧
    (∀ t0 ∈ ts, ∀ e0, a.g.edge? t0 = some e0 → e0.dst ≠ dst →
      ∃ t, a'.g.edge? t = some ⟨dst, e0.dst, e0.w⟩)
  | [], a, a', inv, h => by
    unfold appendCopies at h; cases h
    exact ⟨Grows.refl inv _ _, fun _ h => by cases h⟩
  | t :: ts, a, a', inv, h => by
    unfold appendCopies at h
    split at h
    · rename_i target c hn hc
      obtain ⟨e, he, hd⟩ := nextState_ok_iff.1 hn
      obtain ⟨e', he', hw⟩ := constraintOf_ok_iff.1 hc
      rw [he] at he'; cases he'
      split at h
      · cases h
      · rename_i a1 happ
        obtain ⟨g1, cov1⟩ := appendEdge_grows inv happ
        obtain ⟨g2, cov2⟩ := appendCopies_grows ts g1.inv h
        constructor
        · refine (g1.mono ?_).trans (g2.mono ?_)
          · rintro c' d ⟨rfl, rfl, hne⟩
            exact ⟨⟨t, List.mem_cons_self, e, he, hd, hw⟩, hne⟩
          · rintro c' d ⟨⟨t0, ht0, e0, he0, hd0, hw0⟩, hne⟩
            refine ⟨?_, hne⟩
            rcases g1.new t0 e0 he0 with h1 | ⟨_, _, h3, h4, _⟩
            · exact ⟨t0, List.mem_cons_of_mem _ ht0, e0, h1, hd0, hw0⟩
            · exact ⟨t, List.mem_cons_self, e, he, by rw [hd, ← h4, hd0], by rw [hw, ← h3, hw0]⟩
        · intro t0 ht0 e0 he0 hne
          rcases List.mem_cons.1 ht0 with rfl | ht0
          · rw [he] at he0; cases he0
            obtain ⟨x, hx⟩ := cov1 (hd ▸ hne)
            exact ⟨x, by rw [← hd, ← hw] at hx; exact g2.old x _ hx⟩
          · exact cov2 t0 ht0 e0 (g1.old t0 e0 he0) hne
    · cases h
    · cases h

theorem allTransitions_ok_iff {a : Automaton K P} {s : Nat} {ts : List Nat} :
    a.allTransitions s = .ok ts ↔ ∃ w, a.g.weight? s = some w ∧ ts = w.corder ++ w.eorder := by
  unfold allTransitions state
  cases a.g.weight? s <;> simp [Except.map, eq_comm]

theorem corderOf_ok_iff {a : Automaton K P} {s : Nat} {ts : List Nat} :
    a.corderOf s = .ok ts ↔ ∃ w, a.g.weight? s = some w ∧ ts = w.corder := by
  unfold corderOf state
  cases a.g.weight? s <;> simp [Except.map, eq_comm]

theorem eorderOf_ok_iff {a : Automaton K P} {s : Nat} {ts : List Nat} :
    a.eorderOf s = .ok ts ↔ ∃ w, a.g.weight? s = some w ∧ ts = w.eorder := by
  unfold eorderOf state
  cases a.g.weight? s <;> simp [Except.map, eq_comm]

/-- Under the invariant the transitions listed at `s` are exactly the edges leaving `s`. -/
theorem Inv.mem_all_iff {a : Automaton K P} (inv : Inv a) {s t : Nat} {w : AState K}
    (hw : a.g.weight? s = some w) :
    t ∈ w.corder ++ w.eorder ↔ ∃ e, a.g.edge? t = some e ∧ e.src = s := by
  constructor
  · exact inv.listed_live hw
  · rintro ⟨e, he, rfl⟩; exact inv.ok.edge_listed t e he w hw

/-- `clone_outgoing(s, other)`: every edge leaving `other` gets a copy leaving `s`. -/
theorem cloneOutgoing_grows {a a' : Automaton K P} (inv : Inv a) {s other : Nat}
    (h : a.cloneOutgoing s other = .ok a') :
    Grows a a' s (fun c d => (∃ t0, a.g.edge? t0 = some ⟨other, d, c⟩) ∧ d ≠ s) ∧
    (∀ t0 e0, a.g.edge? t0 = some e0 → e0.src = other → e0.dst ≠ s →
      ∃ t, a'.g.edge? t = some ⟨s, e0.dst, e0.w⟩) := by
  unfold cloneOutgoing at h
  split at h
  · cases h
  · rename_i ts hts
    obtain ⟨w, hw, rfl⟩ := allTransitions_ok_iff.1 hts
    obtain ⟨g, cov⟩ := appendCopies_grows _ inv h
    refine ⟨g.mono ?_, ?_⟩
    · rintro c d ⟨⟨t0, ht0, e0, he0, hd0, hw0⟩, hne⟩
      obtain ⟨e', he', hs⟩ := (inv.mem_all_iff hw).1 ht0
      rw [he0] at he'; cases he'
      exact ⟨⟨t0, by rw [he0, ← hs, ← hd0, ← hw0]⟩, hne⟩
    · intro t0 e0 he0 hs hne
      exact cov t0 ((inv.mem_all_iff hw).2 ⟨e0, he0, hs⟩) e0 he0 hne

/-! ### `addMatches` -/

/-- Result of `add_match` for every entry of `ms` at `s`. -/
structure AddMatchesSpec (a a' : Automaton K P) (s : Nat) (ids : List Nat) : Prop where
  edge : ∀ t, a'.g.edge? t = a.g.edge? t
  wt_ne : ∀ x, x ≠ s → a'.g.weight? x = a.g.weight? x
  wt : ∀ w, a.g.weight? s = some w → ∃ w', a'.g.weight? s = some w' ∧ w'.det = w.det ∧
    w'.corder = w.corder ∧ w'.eorder = w.eorder ∧
    ∀ p, p ∈ w'.matches_.map (·.1) ↔ p ∈ w.matches_.map (·.1) ∨ p ∈ ids
  dead : a.g.weight? s = none → a'.g.weight? s = none
  root : a'.root = a.root
  inv : Inv a'

theorem addMatches_spec {s : Nat} : ∀ (ms : List (Nat × List K)) {a a' : Automaton K P}, Inv a →
    a.addMatches s ms = .ok a' → AddMatchesSpec a a' s (ms.map (·.1))
  | [], a, a', inv, h => by
    unfold addMatches at h; cases h
    exact ⟨fun _ => rfl, fun _ _ => rfl, fun w hw => ⟨w, hw, rfl, rfl, rfl, by simp⟩,
      fun h => h, rfl, inv⟩
  | (pid, keys) :: ms, a, a', inv, h => by
    unfold addMatches at h
    split at h
    · cases h
    · rename_i a1 h1
      have s1 := addMatch_spec inv h1
      have s2 := addMatches_spec ms s1.inv h
      obtain ⟨w0, w1, hw0, hw1, hd1, hc1, he1, hi1⟩ := s1.wt
      refine ⟨fun t => (s2.edge t).trans (s1.edge t),
        fun x hx => (s2.wt_ne x hx).trans (s1.wt_ne x hx), fun w hw => ?_, fun hd => ?_,
        s2.root.trans s1.root, s2.inv⟩
      · rw [hw0] at hw; cases hw
        obtain ⟨w2, hw2, hd2, hc2, he2, hi2⟩ := s2.wt w1 hw1
        refine ⟨w2, hw2, hd2.trans hd1, hc2.trans hc1, he2.trans he1, fun p => ?_⟩
        rw [hi2, hi1]
        simp only [List.map_cons, List.mem_cons]
        constructor
        · rintro ((h | h) | h)
          · exact .inl h
          · exact .inr (.inl h)
          · exact .inr (.inr h)
        · rintro (h | h | h)
          · exact .inl (.inl h)
          · exact .inl (.inr h)
          · exact .inr h
      · rw [hw0] at hd; cases hd

theorem AddMatchesSpec.live_iff {a a' : Automaton K P} {s : Nat} {ids : List Nat}
    (sp : AddMatchesSpec a a' s ids) (x : Nat) : a'.Live x ↔ a.Live x := by
  rw [Automaton.live_iff, Automaton.live_iff]
  by_cases hx : x = s
  · subst hx
    cases h : a.g.weight? x with
    | none => rw [sp.dead h]
    | some w => obtain ⟨w', hw', _⟩ := sp.wt w h; rw [hw']; simp
  · rw [sp.wt_ne x hx]

/-! ### `appendEdges` (edges from one state to `children[ind]` for the given indices) -/

theorem appendEdges_grows [DecidableEq K] [DecidableEq P] {src : Nat} {children : List Nat}
    {c : Option (Constraint K P)} :
    ∀ (inds : List Nat) {a a' : Automaton K P}, Inv a →
    a.appendEdges src children c inds = .ok a' →
    Grows a a' src (fun c' d => c' = c ∧ (∃ i ∈ inds, children[i]? = some d) ∧ d ≠ src) ∧
    (∀ i ∈ inds, ∃ d, children[i]? = some d ∧
      (d ≠ src → ∃ t, a'.g.edge? t = some ⟨src, d, c⟩))
  | [], a, a', inv, h => by
    unfold appendEdges at h; cases h
    exact ⟨Grows.refl inv _ _, fun _ h => by cases h⟩
  | i :: inds, a, a', inv, h => by
    unfold appendEdges at h
    split at h
    · cases h
    · rename_i child hch
      split at h
      · cases h
      · rename_i a1 happ
        obtain ⟨g1, cov1⟩ := appendEdge_grows inv happ
        obtain ⟨g2, cov2⟩ := appendEdges_grows inds g1.inv h
        constructor
        · refine (g1.mono ?_).trans (g2.mono ?_)
          · rintro c' d ⟨rfl, rfl, hne⟩
            exact ⟨rfl, ⟨i, List.mem_cons_self, hch⟩, hne⟩
          · rintro c' d ⟨rfl, ⟨j, hj, hd⟩, hne⟩
            exact ⟨rfl, ⟨j, List.mem_cons_of_mem _ hj, hd⟩, hne⟩
        · intro j hj
          rcases List.mem_cons.1 hj with rfl | hj
          · refine ⟨child, hch, fun hne => ?_⟩
            obtain ⟨x, hx⟩ := cov1 hne
            exact ⟨x, g2.old x _ hx⟩
          · exact cov2 j hj

/-! ### Removing a list of transitions -/

/-- `a'` is `a` without the edges `S` (all of which were live). -/
structure Shrinks (a a' : Automaton K P) (S : List Nat) : Prop where
  inv : Inv a'
  root : a'.root = a.root
  edge : ∀ x, a'.g.edge? x = if x ∈ S then none else a.g.edge? x
  wt : ∀ x w, a.g.weight? x = some w →
    ∃ w', a'.g.weight? x = some w' ∧ w'.matches_ = w.matches_ ∧ w'.det = w.det
  dead : ∀ x, a.g.weight? x = none → a'.g.weight? x = none
  was : ∀ t ∈ S, ∃ e, a.g.edge? t = some e
  nodup : S.Nodup

theorem Shrinks.nil {a : Automaton K P} (inv : Inv a) : Shrinks a a [] :=
  ⟨inv, rfl, fun _ => by simp, fun _ w h => ⟨w, h, rfl, rfl⟩, fun _ h => h,
    fun _ h => (by cases h), List.nodup_nil⟩

theorem removeTransition_shrinks {a a' : Automaton K P} (inv : Inv a) {t : Nat}
    {c : Option (Constraint K P)} (h : a.removeTransition t = .ok (a', c)) :
    Shrinks a a' [t] ∧ ∃ ed, a.g.edge? t = some ed ∧ c = ed.w := by
  obtain ⟨ed, rfl, sp⟩ := removeTransition_spec inv h
  refine ⟨⟨sp.inv, sp.root, fun x => by rw [sp.edge]; simp, fun x w hw => ?_, fun x hx => ?_,
    fun t' ht' => ?_, by simp⟩, ed, sp.live, rfl⟩
  · rw [sp.wt]
    split
    · exact ⟨_, by rw [hw]; rfl, by simp, by simp⟩
    · exact ⟨w, hw, rfl, rfl⟩
  · rw [sp.wt]; split
    · rw [hx]; rfl
    · exact hx
  · simp only [List.mem_singleton] at ht'; subst ht'; exact ⟨ed, sp.live⟩

theorem Shrinks.cons {a a1 a2 : Automaton K P} {t : Nat} {S : List Nat}
    (s1 : Shrinks a a1 [t]) (s2 : Shrinks a1 a2 S) : Shrinks a a2 (t :: S) := by
  have hnot : t ∉ S := fun hm => by
    obtain ⟨e, he⟩ := s2.was t hm
    rw [s1.edge] at he; simp at he
  refine ⟨s2.inv, s2.root.trans s1.root, fun x => ?_, fun x w hw => ?_,
    fun x hx => s2.dead x (s1.dead x hx), fun t' ht' => ?_, List.nodup_cons.2 ⟨hnot, s2.nodup⟩⟩
  · rw [s2.edge, s1.edge]
    by_cases h1 : x ∈ S
    · simp [h1]
    · by_cases h2 : x = t <;> simp [h1, h2]
  · obtain ⟨w1, hw1, h1, h2⟩ := s1.wt x w hw
    obtain ⟨w2, hw2, h3, h4⟩ := s2.wt x w1 hw1
    exact ⟨w2, hw2, h3.trans h1, h4.trans h2⟩
  · rcases List.mem_cons.1 ht' with rfl | ht'
    · exact s1.was _ List.mem_cons_self
    · obtain ⟨e, he⟩ := s2.was t' ht'
      rw [s1.edge] at he
      split at he
      · cases he
      · exact ⟨e, he⟩

theorem Shrinks.live_iff {a a' : Automaton K P} {S : List Nat} (sh : Shrinks a a' S) (x : Nat) :
    a'.Live x ↔ a.Live x := by
  rw [Automaton.live_iff, Automaton.live_iff]
  cases h : a.g.weight? x with
  | none => rw [sh.dead x h]
  | some w => obtain ⟨w', hw', _⟩ := sh.wt x w h; rw [hw']; simp

theorem Shrinks.ids_iff {a a' : Automaton K P} {S : List Nat} (sh : Shrinks a a' S)
    (x pid : Nat) : a'.Ids x pid ↔ a.Ids x pid := by
  unfold Ids
  cases h : a.g.weight? x with
  | none => rw [sh.dead x h]
  | some w =>
    obtain ⟨w', hw', h1, _⟩ := sh.wt x w h
    rw [hw']; simp [h1]

theorem Shrinks.det_iff {a a' : Automaton K P} {S : List Nat} (sh : Shrinks a a' S)
    {x : Nat} {w w' : AState K} (hw : a.g.weight? x = some w) (hw' : a'.g.weight? x = some w') :
    w'.det = w.det ∧ w'.matches_ = w.matches_ := by
  obtain ⟨w'', hw'', h1, h2⟩ := sh.wt x w hw
  rw [hw'] at hw''; cases hw''; exact ⟨h2, h1⟩

/-- `removeTransitions` (Builder): removes every listed transition, returning the constraint of
the last one. -/
theorem removeTransitions_shrinks [DecidableEq K] [DecidableEq P] :
    ∀ (ts : List Nat) {a a' : Automaton K P} {last r : Option (Option (Constraint K P))},
    Inv a → a.removeTransitions ts last = .ok (a', r) →
    Shrinks a a' ts ∧
    (∀ c, r = some c → (ts = [] ∧ last = some c) ∨ ∃ t ∈ ts, ∃ e, a.g.edge? t = some e ∧ e.w = c) ∧
    (ts ≠ [] → r ≠ none)
  | [], a, a', last, r, inv, h => by
    unfold removeTransitions at h; cases h
    exact ⟨Shrinks.nil inv, fun c hc => .inl ⟨rfl, hc⟩, fun h => absurd rfl h⟩
  | t :: ts, a, a', last, r, inv, h => by
    unfold removeTransitions at h
    split at h
    · cases h
    · rename_i a1 c h1
      obtain ⟨s1, ed, hed, rfl⟩ := removeTransition_shrinks inv h1
      obtain ⟨s2, hr, hne⟩ := removeTransitions_shrinks ts s1.inv h
      refine ⟨s1.cons s2, fun c hc => ?_, fun _ => ?_⟩
      · rcases hr c hc with ⟨_, hl⟩ | ⟨t', ht', e, he, hw⟩
        · cases hl; exact .inr ⟨t, List.mem_cons_self, ed, hed, rfl⟩
        · refine .inr ⟨t', List.mem_cons_of_mem _ ht', e, ?_, hw⟩
          rw [s1.edge] at he
          split at he
          · cases he
          · exact he
      · cases ts with
        | nil => unfold removeTransitions at h; cases h; simp
        | cons _ _ => exact hne (by simp)

/-- What a transition id denotes: constraint and target. -/
def edgeInfo (a : Automaton K P) (t : Nat) : Option (Option (Constraint K P) × Nat) :=
  (a.g.edge? t).map fun e => (e.w, e.dst)

theorem drainLoop_shrinks : ∀ (ts : List Nat) {a a' : Automaton K P}
    {acc out : List (Option (Constraint K P) × Nat)},
    Inv a → a.drainLoop ts acc = .ok (a', out) →
    Shrinks a a' ts ∧ ∃ out', out = acc ++ out' ∧ ts.map (edgeInfo a) = out'.map some
  | [], a, a', acc, out, inv, h => by
    unfold drainLoop at h; cases h
    exact ⟨Shrinks.nil inv, [], by simp, rfl⟩
  | t :: ts, a, a', acc, out, inv, h => by
    unfold drainLoop at h
    split at h
    · cases h
    · rename_i target hn
      obtain ⟨e, he, hd⟩ := nextState_ok_iff.1 hn
      split at h
      · cases h
      · rename_i a1 c h1
        obtain ⟨s1, ed, hed, rfl⟩ := removeTransition_shrinks inv h1
        rw [he] at hed; cases hed
        obtain ⟨s2, out', rfl, hmap⟩ := drainLoop_shrinks ts s1.inv h
        refine ⟨s1.cons s2, (e.w, target) :: out', by simp, ?_⟩
        have hnot : t ∉ ts := (List.nodup_cons.1 (s1.cons s2).nodup).1
        simp only [List.map_cons]
        congr 1
        · simp [edgeInfo, he, hd]
        · rw [← hmap]
          apply List.map_congr_left
          intro t' ht'
          unfold edgeInfo
          rw [s1.edge]
          have : t' ≠ t := fun hx => hnot (hx ▸ ht')
          simp [this]

theorem drainConstraints_shrinks {a a' : Automaton K P} {s : Nat}
    {out : List (Option (Constraint K P) × Nat)} (inv : Inv a)
    (h : a.drainConstraints s = .ok (a', out)) :
    ∃ w, a.g.weight? s = some w ∧ Shrinks a a' w.corder ∧
      w.corder.map (edgeInfo a) = out.map some := by
  unfold drainConstraints at h
  split at h
  · cases h
  · rename_i ts hts
    obtain ⟨w, hw, rfl⟩ := corderOf_ok_iff.1 hts
    obtain ⟨sh, out', rfl, hmap⟩ := drainLoop_shrinks _ inv h
    exact ⟨w, hw, sh, by simpa using hmap⟩

/-! ### `moveIncoming` -/

/-- `a'` is `a` with the edges `ts` re-routed to `s` (dropped when they start at `s`). -/
structure Moved (a a' : Automaton K P) (s : Nat) (ts : List Nat) : Prop where
  inv : Inv a'
  root : a'.root = a.root
  wt : ∀ x w, a.g.weight? x = some w →
    ∃ w', a'.g.weight? x = some w' ∧ w'.matches_ = w.matches_ ∧ w'.det = w.det
  dead : ∀ x, a.g.weight? x = none → a'.g.weight? x = none
  keep : ∀ x e, a.g.edge? x = some e → x ∉ ts → a'.g.edge? x = some e
  sound : ∀ x e, a'.g.edge? x = some e → (a.g.edge? x = some e ∧ x ∉ ts) ∨
    (∃ t ∈ ts, ∃ e0, a.g.edge? t = some e0 ∧ e0.src ≠ s ∧ e = ⟨e0.src, s, e0.w⟩)
  moved : ∀ t ∈ ts, ∀ e0, a.g.edge? t = some e0 → e0.src ≠ s →
    ∃ x, a'.g.edge? x = some ⟨e0.src, s, e0.w⟩

theorem moveIncomingLoop_moved {s : Nat} : ∀ (ts : List Nat) {a a' : Automaton K P}, Inv a →
    ts.Nodup → (∀ t ∈ ts, ∃ e, a.g.edge? t = some e) →
    a.moveIncomingLoop s ts = .ok a' → Moved a a' s ts
  | [], a, a', inv, _, _, h => by
    unfold moveIncomingLoop at h; cases h
    exact ⟨inv, rfl, fun _ w h => ⟨w, h, rfl, rfl⟩, fun _ h => h, fun _ _ h _ => h,
      fun _ _ h => .inl ⟨h, by simp⟩, fun _ h => (by cases h)⟩
  | t :: ts, a, a', inv, hnd, hlive, h => by
    unfold moveIncomingLoop at h
    split at h
    · cases h
    · rename_i src hpar
      obtain ⟨ed, hed, hsrc⟩ := parent_ok_iff.1 hpar
      split at h
      · cases h
      · rename_i a1 c hrem
        obtain ⟨s1, ed', hed', rfl⟩ := removeTransition_shrinks inv hrem
        rw [hed] at hed'; cases hed'
        split at h
        · cases h
        · rename_i a2 happ
          obtain ⟨g, cov⟩ := appendEdge_grows s1.inv happ
          rw [List.nodup_cons] at hnd
          have h1edge : ∀ x, a1.g.edge? x = if x = t then none else a.g.edge? x := by
            intro x; rw [s1.edge]; simp
          have hlive2 : ∀ t' ∈ ts, ∃ e, a2.g.edge? t' = some e := by
            intro t' ht'
            obtain ⟨e, he⟩ := hlive t' (List.mem_cons_of_mem _ ht')
            have : t' ≠ t := fun hx => hnd.1 (hx ▸ ht')
            exact ⟨e, g.old t' e (by rw [h1edge, if_neg this]; exact he)⟩
          have ih := moveIncomingLoop_moved ts g.inv hnd.2 hlive2 h
          -- an edge of `ts` read in `a2` is the same edge in `a`
          have hback : ∀ t' ∈ ts, ∀ e0, a2.g.edge? t' = some e0 → a.g.edge? t' = some e0 := by
            intro t' ht' e0 he0
            have hne : t' ≠ t := fun hx => hnd.1 (hx ▸ ht')
            obtain ⟨e, he⟩ := hlive t' (List.mem_cons_of_mem _ ht')
            have h1 : a1.g.edge? t' = some e := by rw [h1edge, if_neg hne]; exact he
            rw [g.old t' e h1] at he0; cases he0; exact he
          refine ⟨ih.inv, ih.root.trans (g.root.trans s1.root), fun x w hw => ?_,
            fun x hx => ih.dead x (by
              by_cases hxs : x = src
              · subst hxs; exact g.dead (s1.dead x hx)
              · rw [g.wt_ne x hxs]; exact s1.dead x hx),
            fun x e he hx => ?_, fun x e he => ?_, fun t' ht' e0 he0 hne => ?_⟩
          · obtain ⟨w1, hw1, h1, h2⟩ := s1.wt x w hw
            obtain ⟨w2, hw2, h3, h4⟩ := g.weight_some hw1
            obtain ⟨w3, hw3, h5, h6⟩ := ih.wt x w2 hw2
            exact ⟨w3, hw3, h5.trans (h3.trans h1), h6.trans (h4.trans h2)⟩
          · have hxt : x ≠ t := fun hx' => hx (hx' ▸ List.mem_cons_self)
            have hx' : x ∉ ts := fun hm => hx (List.mem_cons_of_mem _ hm)
            exact ih.keep x e (g.old x e (by rw [h1edge, if_neg hxt]; exact he)) hx'
          · rcases ih.sound x e he with ⟨h2, hx⟩ | ⟨t', ht', e0, he0, hne, rfl⟩
            · rcases g.new x e h2 with h1 | ⟨_, hs, hc, hd, hne⟩
              · rw [h1edge] at h1
                split at h1
                · cases h1
                · rename_i hxt
                  exact .inl ⟨h1, by simp [hxt, hx]⟩
              · refine .inr ⟨t, List.mem_cons_self, ed, hed, ?_, ?_⟩
                · rw [hsrc]; exact Ne.symm hne
                · cases e; simp only at hs hc hd; subst hs hc hd; rw [hsrc]
            · exact .inr ⟨t', List.mem_cons_of_mem _ ht', e0, hback t' ht' e0 he0, hne, rfl⟩
          · rcases List.mem_cons.1 ht' with rfl | ht'
            · rw [hed] at he0; cases he0
              obtain ⟨x, hx⟩ := cov (by rw [← hsrc]; exact Ne.symm hne)
              subst hsrc
              by_cases hm : x ∈ ts
              · exact ih.moved x hm ⟨ed.src, s, ed.w⟩ hx hne
              · exact ⟨x, ih.keep x _ hx hm⟩
            · have hne' : t' ≠ t := fun hx => hnd.1 (hx ▸ ht')
              have h1 : a1.g.edge? t' = some e0 := by rw [h1edge, if_neg hne']; exact he0
              exact ih.moved t' ht' e0 (g.old t' e0 h1) hne

theorem incomingTransitions_nodup {a : Automaton K P} (inv : Inv a) (s : Nat) :
    (a.incomingTransitions s).Nodup := by
  unfold incomingTransitions SGraph.inEdges
  cases h : a.g.node? s with
  | none => simp
  | some nd =>
    simp only
    have hnd := inv.wf.inc_nodup s nd h
    generalize nd.inc = l at hnd
    induction l with
    | nil => simp
    | cons x l ih =>
      rw [List.nodup_cons] at hnd
      simp only [List.filterMap_cons]
      cases hx : a.g.edge? x with
      | none => simpa using ih hnd.2
      | some ed =>
        simp only [Option.map_some, List.map_cons, List.nodup_cons]
        refine ⟨?_, ih hnd.2⟩
        intro hm
        rw [List.mem_map] at hm
        obtain ⟨⟨y, p⟩, hy, rfl⟩ := hm
        rw [List.mem_filterMap] at hy
        obtain ⟨z, hz, hzz⟩ := hy
        cases hez : a.g.edge? z with
        | none => rw [hez] at hzz; cases hzz
        | some ez =>
          rw [hez] at hzz
          simp only [Option.map_some, Option.some.injEq, Prod.mk.injEq] at hzz
          exact hnd.1 (hzz.1 ▸ hz)

theorem moveIncoming_moved {a a' : Automaton K P} (inv : Inv a) {s other : Nat}
    (h : a.moveIncoming s other = .ok a') :
    Moved a a' s (a.incomingTransitions other) := by
  unfold moveIncoming at h
  refine moveIncomingLoop_moved _ inv (incomingTransitions_nodup inv other) ?_ h
  intro t ht
  obtain ⟨e, he, _⟩ := inv.mem_incoming.1 ht
  exact ⟨e, he⟩

theorem Moved.live_iff {a a' : Automaton K P} {s : Nat} {ts : List Nat} (m : Moved a a' s ts)
    (x : Nat) : a'.Live x ↔ a.Live x := by
  rw [Automaton.live_iff, Automaton.live_iff]
  cases h : a.g.weight? x with
  | none => rw [m.dead x h]
  | some w => obtain ⟨w', hw', _⟩ := m.wt x w h; rw [hw']; simp

theorem Moved.ids_iff {a a' : Automaton K P} {s : Nat} {ts : List Nat} (m : Moved a a' s ts)
    (x pid : Nat) : a'.Ids x pid ↔ a.Ids x pid := by
  unfold Ids
  cases h : a.g.weight? x with
  | none => rw [m.dead x h]
  | some w =>
    obtain ⟨w', hw', h1, _⟩ := m.wt x w h
    rw [hw']; simp [h1]

/-! ### `splitTarget` -/

/-- Result of a proper split of the target of `t = ed`: a fresh state `n` that copies the accepted
ids, the flag and the outgoing edges of the old target; `t` now points to `n`. -/
structure SplitSpec (a a' : Automaton K P) (t n : Nat)
    (ed : GEdge (Option (Constraint K P))) : Prop where
  live : a.g.edge? t = some ed
  fresh : ¬ a.Live n
  other : ∃ t', t' ≠ t ∧ ∃ e', a.g.edge? t' = some e' ∧ e'.dst = ed.dst
  inv : Inv a'
  root : a'.root = a.root
  wt_ne : ∀ x, x ≠ n → a'.g.weight? x = a.g.weight? x
  wt : ∃ ws w', a.g.weight? ed.dst = some ws ∧ a'.g.weight? n = some w' ∧
    w'.matches_ = ws.matches_ ∧ w'.det = ws.det
  edge_t : a'.g.edge? t = some ⟨ed.src, n, ed.w⟩
  old : ∀ x e, x ≠ t → a.g.edge? x = some e → a'.g.edge? x = some e
  new : ∀ x e, a'.g.edge? x = some e → x = t ∨ a.g.edge? x = some e ∨
    (a.g.edge? x = none ∧ e.src = n ∧ ∃ x0, a.g.edge? x0 = some ⟨ed.dst, e.dst, e.w⟩)
  copies : ∀ x0 e0, a.g.edge? x0 = some e0 → e0.src = ed.dst →
    ∃ x, a'.g.edge? x = some ⟨n, e0.dst, e0.w⟩

theorem splitTarget_spec {a a' : Automaton K P} (inv : Inv a) {t tgt : Nat}
    (h : a.splitTarget t = .ok (a', tgt)) :
    (a' = a ∧ (∃ e, a.g.edge? t = some e ∧ e.dst = tgt) ∧
      ∀ t' e', a.g.edge? t' = some e' → e'.dst = tgt → t' = t) ∨
    ∃ ed, SplitSpec a a' t tgt ed := by
  unfold splitTarget at h
  split at h
  · cases h
  · rename_i s hn
    obtain ⟨ed, hed, hd⟩ := nextState_ok_iff.1 hn
    split at h
    · rename_i hall
      cases h
      refine .inl ⟨rfl, ⟨ed, hed, hd⟩, fun t' e' he' hd' => ?_⟩
      rw [List.all_eq_true] at hall
      have := hall t' (inv.mem_incoming.2 ⟨e', he', hd'⟩)
      simpa using this
    · rename_i hall
      right
      split at h
      · cases h
      · rename_i w hw
        rw [state_ok_iff] at hw
        have hw0 : ({ matches_ := w.matches_, det := w.det } : AState K).corder = [] := rfl
        have hw1 : ({ matches_ := w.matches_, det := w.det } : AState K).eorder = [] := rfl
        obtain ⟨hdead, hwt1, hed1, inv1⟩ :=
          addNode_frame inv ({ matches_ := w.matches_, det := w.det } : AState K) hw0 hw1
        generalize hgn : a.g.addNode ({ matches_ := w.matches_, det := w.det } : AState K) = gn
          at h hdead hwt1 hed1 inv1
        obtain ⟨g1, n⟩ := gn
        simp only at h hdead hwt1 hed1 inv1
        split at h
        · cases h
        · rename_i a2 t2 hrw
          have hsrc_ne : ∀ ed', (⟨g1, a.root⟩ : Automaton K P).g.edge? t = some ed' →
              ed'.src ≠ n := by
            intro ed' he'
            change g1.edge? t = some ed' at he'
            rw [hed1] at he'
            exact fun hx => hdead (hx ▸ inv.ok.src_live he')
          obtain ⟨_, ed2, rs⟩ := rewireTarget_spec inv1 hsrc_ne hrw
          have hed2 : ed2 = ed := by
            have := rs.live
            change g1.edge? t = some ed2 at this
            rw [hed1, hed] at this; cases this; rfl
          subst hed2
          split at h
          · cases h
          · rename_i ts hts
            obtain ⟨w2, hw2, rfl⟩ := allTransitions_ok_iff.1 hts
            have hsn : s ≠ n := fun hx => hdead (hx ▸ live_of_weight hw)
            have hw2' : w2 = w := by
              rw [rs.wt] at hw2
              change g1.weight? s = some w2 at hw2
              rw [hwt1, if_neg hsn, hw] at hw2; cases hw2; rfl
            subst hw2'
            cases hcp : a2.appendCopies n (w2.corder ++ w2.eorder) with
            | error e => rw [hcp] at h; cases h
            | ok a3 =>
              rw [hcp] at h
              cases h
              obtain ⟨g, cov⟩ := appendCopies_grows _ rs.inv hcp
              have ha2edge : ∀ x, a2.g.edge? x =
                  if x = t then some ⟨ed2.src, tgt, ed2.w⟩ else a.g.edge? x := by
                intro x; rw [rs.edge]; split
                · rfl
                · exact hed1 x
              have ha2wt : ∀ x, a2.g.weight? x =
                  if x = tgt then some { matches_ := w2.matches_, det := w2.det }
                  else a.g.weight? x := by
                intro x; rw [rs.wt]; exact hwt1 x
              have hts : ed2.src ≠ s := by rw [← hd]; exact inv.noloop t ed2 hed
              -- not all incoming transitions are `t`
              have hother : ∃ t', t' ≠ t ∧ ∃ e', a.g.edge? t' = some e' ∧ e'.dst = ed2.dst := by
                rw [List.all_eq_true] at hall
                refine Classical.byContradiction fun hcon => hall fun t' ht' => ?_
                obtain ⟨e', he', hd'⟩ := inv.mem_incoming.1 ht'
                simp only [decide_eq_true_eq]
                refine Classical.byContradiction fun hne => hcon ⟨t', hne, e', he', hd'.trans hd.symm⟩
              refine ⟨ed2, hed, hdead, hother, g.inv, g.root.trans rs.root, fun x hx => ?_, ?_, ?_,
                fun x e hx he => ?_, fun x e he => ?_, fun x0 e0 he0 hs0 => ?_⟩
              · rw [g.wt_ne x hx, ha2wt, if_neg hx]
              · obtain ⟨w', hw', h1, h2⟩ := g.wt _ (by rw [ha2wt, if_pos rfl])
                exact ⟨w2, w', by rw [hd]; exact hw, hw', h1, h2⟩
              · exact g.old t _ (by rw [ha2edge, if_pos rfl])
              · exact g.old x e (by rw [ha2edge, if_neg hx]; exact he)
              · rcases g.new x e he with h1 | ⟨h1, h2, ⟨t0, ht0, e0, he0, hd0, hw0⟩, _⟩
                · rw [ha2edge] at h1
                  split at h1
                  · exact .inl ‹_›
                  · exact .inr (.inl h1)
                · by_cases hxt : x = t
                  · exact .inl hxt
                  · refine .inr (.inr ⟨by rw [ha2edge, if_neg hxt] at h1; exact h1, h2, t0, ?_⟩)
                    obtain ⟨e1, he1, hs1⟩ := (rs.inv.mem_all_iff
                      (by rw [ha2wt, if_neg hsn]; exact hw)).1 ht0
                    rw [he0] at he1; cases he1
                    have ht0t : t0 ≠ t := by
                      intro hx; subst hx
                      rw [ha2edge, if_pos rfl] at he0; cases he0
                      exact hts hs1
                    rw [ha2edge, if_neg ht0t] at he0
                    rw [he0, hd, ← hs1, ← hd0, ← hw0]
              · have hx0 : x0 ≠ t := by
                  intro hx; subst hx; rw [hed] at he0; cases he0
                  exact inv.noloop x0 ed2 hed hs0
                have he0' : a2.g.edge? x0 = some e0 := by rw [ha2edge, if_neg hx0]; exact he0
                have hm : x0 ∈ w2.corder ++ w2.eorder :=
                  (inv.mem_all_iff hw).2 ⟨e0, he0, hs0.trans hd⟩
                exact cov x0 hm e0 he0' (fun hx => hdead (hx ▸ inv.ok.dst_live he0))

end Automaton
end Pm
