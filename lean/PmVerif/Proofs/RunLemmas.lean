/-
Proofs/RunLemmas.lean — helper definitions and lemmas for `Props/TRun.lean`: the breadth-first
traversal (`runLoop`) and the baseline matcher (`singleLoop`).
-/
import PmVerif.Spec.RunSpec
import PmVerif.Props.C13
import PmVerif.Props.C16
namespace Pm

/-- Pointwise relation between two lists (core has no `List.Forall₂`). -/
inductive Forall2 {α β : Type} (R : α → β → Prop) : List α → List β → Prop where
  | nil : Forall2 R [] []
  | cons {a b as bs} : R a b → Forall2 R as bs → Forall2 R (a :: as) (b :: bs)

namespace Forall2
variable {α β : Type} {R : α → β → Prop}

theorem append {as₁ as₂ : List α} {bs₁ bs₂ : List β} (h₁ : Forall2 R as₁ bs₁)
    (h₂ : Forall2 R as₂ bs₂) : Forall2 R (as₁ ++ as₂) (bs₁ ++ bs₂) := by
  induction h₁ with
  | nil => exact h₂
  | cons hr _ ih => exact .cons hr ih

theorem length_eq {as : List α} {bs : List β} (h : Forall2 R as bs) : as.length = bs.length := by
  induction h with
  | nil => rfl
  | cons _ _ ih => simp [ih]

theorem mem_left {as : List α} {bs : List β} (h : Forall2 R as bs) {a : α} (ha : a ∈ as) :
    ∃ b ∈ bs, R a b := by
  induction h with
  | nil => cases ha
  | cons hr _ ih =>
    rcases List.mem_cons.mp ha with rfl | ha
    · exact ⟨_, List.mem_cons_self, hr⟩
    · obtain ⟨b, hb, hab⟩ := ih ha
      exact ⟨b, List.mem_cons_of_mem _ hb, hab⟩

theorem mem_right {as : List α} {bs : List β} (h : Forall2 R as bs) {b : β} (hb : b ∈ bs) :
    ∃ a ∈ as, R a b := by
  induction h with
  | nil => cases hb
  | cons hr _ ih =>
    rcases List.mem_cons.mp hb with rfl | hb
    · exact ⟨_, List.mem_cons_self, hr⟩
    · obtain ⟨a, ha, hab⟩ := ih hb
      exact ⟨a, List.mem_cons_of_mem _ ha, hab⟩

/-- Membership in the concatenation of the right-hand lists. -/
theorem mem_flatten {as : List α} {bss : List (List β)} {R : α → List β → Prop}
    (h : Forall2 R as bss) {b : β} (hb : b ∈ bss.flatten) : ∃ a ∈ as, ∃ bs, R a bs ∧ b ∈ bs := by
  obtain ⟨bs, hbs, hbb⟩ := List.mem_flatten.mp hb
  obtain ⟨a, ha, hr⟩ := h.mem_right hbs
  exact ⟨a, ha, bs, hr, hbb⟩

end Forall2

/-! ### generic sequencing lemmas -/

theorem mapR_ok {α β : Type} (f : α → R β) (xs : List α) (ys : List β) :
    mapR f xs = .ok ys ↔ xs.map f = ys.map .ok := by
  induction xs generalizing ys with
  | nil => cases ys <;> simp [mapR]
  | cons x xs ih =>
    cases hx : f x with
    | error e => cases ys <;> simp [mapR, hx]
    | ok y =>
      cases hr : mapR f xs with
      | error e =>
        have : ∀ ws : List β, ¬ xs.map f = ws.map .ok := fun ws hws => by
          have := (ih ws).mpr hws; rw [hr] at this; cases this
        cases ys with
        | nil => simp [mapR, hx, hr]
        | cons w ws => simp [mapR, hx, hr, this ws]
      | ok ws =>
        have hws := (ih ws).mp hr
        cases ys with
        | nil => simp [mapR, hx, hr]
        | cons w ws' =>
          simp only [mapR, hx, hr, List.map_cons, List.cons.injEq, Except.ok.injEq]
          constructor
          · rintro ⟨rfl, rfl⟩; exact ⟨rfl, hws⟩
          · rintro ⟨rfl, h2⟩
            refine ⟨rfl, ?_⟩
            have := (ih ws').mpr h2
            rw [hr] at this; cases this; rfl

theorem mem_of_mapR_ok {α β : Type} {f : α → R β} {xs : List α} {ys : List β}
    (h : mapR f xs = .ok ys) (y : β) : y ∈ ys ↔ ∃ x ∈ xs, f x = .ok y := by
  have hm := (mapR_ok f xs ys).mp h
  constructor
  · intro hy
    have : (Except.ok y : R β) ∈ ys.map .ok := List.mem_map.mpr ⟨y, hy, rfl⟩
    rw [← hm] at this
    obtain ⟨x, hx, hfx⟩ := List.mem_map.mp this
    exact ⟨x, hx, hfx⟩
  · rintro ⟨x, hx, hfx⟩
    have : (Except.ok y : R β) ∈ xs.map f := List.mem_map.mpr ⟨x, hx, hfx⟩
    rw [hm] at this
    obtain ⟨y', hy', he⟩ := List.mem_map.mp this
    cases he; exact hy'

/-- The "filter by a predicate that may panic" fold used by `legalFrom` and `singleLoop`; the
step function is described by its equations (two syntactically equal `match` expressions in
different definitions are different auxiliary constants). -/
theorem foldr_sat_ok {α β : Type} (f : α → R (List β) → R (List β)) (p : α → Option Bool)
    (g : α → β) (err : Err)
    (hfe : ∀ x e, f x (.error e) = .error e)
    (hfn : ∀ x rest, p x = none → f x (.ok rest) = .error err)
    (hft : ∀ x rest, p x = some true → f x (.ok rest) = .ok (g x :: rest))
    (hff : ∀ x rest, p x = some false → f x (.ok rest) = .ok rest)
    (xs : List α) (ys : List β) (h : xs.foldr f (.ok []) = .ok ys) :
    ys = (xs.filter fun x => p x == some true).map g ∧ ∀ x ∈ xs, (p x).isSome := by
  induction xs generalizing ys with
  | nil => simp at h; subst h; simp
  | cons x xs ih =>
    rw [List.foldr_cons] at h
    generalize hacc : xs.foldr f (Except.ok []) = acc at h
    cases acc with
    | error e => rw [hfe] at h; cases h
    | ok rest =>
      obtain ⟨h1, h2⟩ := ih rest hacc
      cases hp : p x with
      | none => rw [hfn x rest hp] at h; cases h
      | some b =>
        cases b with
        | true =>
          rw [hft x rest hp] at h
          cases h
          refine ⟨by simp [hp, h1], ?_⟩
          intro y hy
          rcases List.mem_cons.mp hy with rfl | hy
          · simp [hp]
          · exact h2 y hy
        | false =>
          rw [hff x rest hp] at h
          cases h
          refine ⟨by simp [hp, h1], ?_⟩
          intro y hy
          rcases List.mem_cons.mp hy with rfl | hy
          · simp [hp]
          · exact h2 y hy

section Step
variable {K V P H M : Type}

/-! ### `retainAll` -/

theorem retainAll_ok (D : Domain K V P H M) (keys : List K) (ms rs : List M) :
    retainAll D keys ms = .ok rs ↔ ms.map (fun m => D.map.retain m keys) = rs.map some := by
  induction ms generalizing rs with
  | nil => cases rs <;> simp [retainAll]
  | cons m ms ih =>
    cases hm : D.map.retain m keys with
    | none => cases rs <;> simp [retainAll, hm]
    | some r =>
      cases hr : retainAll D keys ms with
      | error e =>
        have : ∀ ws : List M, ¬ ms.map (fun m => D.map.retain m keys) = ws.map some :=
          fun ws hws => by have := (ih ws).mpr hws; rw [hr] at this; cases this
        cases rs with
        | nil => simp [retainAll, hm, hr]
        | cons w ws => simp [retainAll, hm, hr, this ws]
      | ok ws =>
        have hws := (ih ws).mp hr
        cases rs with
        | nil => simp [retainAll, hm, hr]
        | cons w ws' =>
          simp only [retainAll, hm, hr, List.map_cons, List.cons.injEq, Option.some.injEq,
            Except.ok.injEq]
          constructor
          · rintro ⟨rfl, rfl⟩; exact ⟨rfl, hws⟩
          · rintro ⟨rfl, h2⟩
            refine ⟨rfl, ?_⟩
            have := (ih ws').mpr h2
            rw [hr] at this; cases this; rfl

theorem mem_retainAll {D : Domain K V P H M} {keys : List K} {ms rs : List M}
    (h : retainAll D keys ms = .ok rs) (r : M) :
    r ∈ rs ↔ ∃ m ∈ ms, D.map.retain m keys = some r := by
  have hm := (retainAll_ok D keys ms rs).mp h
  constructor
  · intro hy
    have : some r ∈ rs.map some := List.mem_map.mpr ⟨r, hy, rfl⟩
    rw [← hm] at this
    obtain ⟨x, hx, hfx⟩ := List.mem_map.mp this
    exact ⟨x, hx, hfx⟩
  · rintro ⟨x, hx, hfx⟩
    have : some r ∈ ms.map (fun m => D.map.retain m keys) := List.mem_map.mpr ⟨x, hx, hfx⟩
    rw [hm] at this
    obtain ⟨y', hy', he⟩ := List.mem_map.mp this
    cases he; exact hy'

/-! ### `emitMatches` -/

/-- The candidates of one accepted pattern: when nothing is missing `bindAll` over the empty key
list is `[m]` anyway, so the `if` in `emitMatches` is a shortcut only. -/
theorem emit_cands_eq (D : Domain K V P H M) (h : H) (m : M) (newKeys : List K) :
    (if newKeys.isEmpty then [m] else bindAll D.map D.opts h m newKeys false)
      = bindAll D.map D.opts h m newKeys false := by
  cases newKeys with
  | nil => rfl
  | cons k ks => rfl

theorem mem_emitMatches_aux {D : Domain K V P H M} {h : H} {m : M} {pats : List (Nat × List K)}
    {out : List (Match M)} (he : emitMatches D h m pats = .ok out) (pid : Nat) (mm : M) :
    (pid, mm) ∈ out ↔ ∃ keys, (pid, keys) ∈ pats ∧
      ∃ m₁ ∈ bindAll D.map D.opts h m (keys.filter fun k => (D.map.get m k).isNone) false,
        D.map.retain m₁ keys = some mm := by
  induction pats generalizing out with
  | nil =>
    simp only [emitMatches, Except.ok.injEq] at he
    subst he; simp
  | cons pk rest ih =>
    obtain ⟨pid₀, keys₀⟩ := pk
    simp only [emitMatches, emit_cands_eq] at he
    split at he
    · cases he
    · rename_i ms hms
      split at he
      · cases he
      · rename_i more hmore
        simp only [Except.ok.injEq] at he
        subst he
        rw [List.mem_append, ih hmore]
        constructor
        · rintro (h1 | ⟨keys, hk, hx⟩)
          · obtain ⟨x, hx, he⟩ := List.mem_map.mp h1
            cases he
            obtain ⟨m₁, hm₁, hr⟩ := (mem_retainAll hms _).mp hx
            exact ⟨keys₀, List.mem_cons_self, m₁, hm₁, hr⟩
          · exact ⟨keys, List.mem_cons_of_mem _ hk, hx⟩
        · rintro ⟨keys, hk, m₁, hm₁, hr⟩
          rcases List.mem_cons.mp hk with he | hk
          · cases he
            left
            exact List.mem_map.mpr ⟨mm, (mem_retainAll hms mm).mpr ⟨m₁, hm₁, hr⟩, rfl⟩
          · right; exact ⟨keys, hk, m₁, hm₁, hr⟩

/-! ### `failNextState`, `legalFrom`, `legalAll`, `nextLegalStates` -/

theorem state_ok {a : Automaton K P} {s : Nat} {w : AState K} :
    a.state s = .ok w ↔ a.g.weight? s = some w := by
  unfold Automaton.state
  cases a.g.weight? s <;> simp

theorem failNextState_ok {a : Automaton K P} {s : Nat} {w : AState K} {fo : Option Nat}
    (hw : a.g.weight? s = some w) (hf : a.failNextState s = .ok fo) :
    (w.eorder = [] ∧ fo = none) ∨
      ∃ t e, w.eorder = [t] ∧ a.g.edge? t = some e ∧ fo = some e.dst := by
  unfold Automaton.failNextState Automaton.eorderOf Automaton.state at hf
  rw [hw] at hf
  simp only [Except.map] at hf
  match heo : w.eorder with
  | [] => rw [heo] at hf; simp at hf; exact .inl ⟨rfl, hf.symm⟩
  | [t] =>
    rw [heo] at hf
    simp only [Automaton.nextState] at hf
    cases he : a.g.edge? t with
    | none => rw [he] at hf; simp at hf
    | some e =>
      rw [he] at hf; simp at hf
      exact .inr ⟨t, e, rfl, he, hf.symm⟩
  | _ :: _ :: _ => rw [heo] at hf; simp at hf

theorem legalFrom_ok {D : Domain K V P H M} {a : Automaton K P} {h : H} {s : Nat} {det : Bool}
    {nf : List (Nat × Constraint K P)} {m : M} {xs : List (Nat × M)}
    (hl : legalFrom D a h s det nf m = .ok xs) :
    ∃ valid, valid = (nf.filter fun tc => satOrFalse D.map.get D.check tc.2 h m == some true).map
        (fun tc => (tc.1, m)) ∧
      ((det = true ∧ valid ≠ [] ∧ xs = valid) ∨
       ((det = false ∨ valid = []) ∧ ∃ fo, a.failNextState s = .ok fo ∧
          xs = valid ++ fo.toList.map (fun f => (f, m)))) := by
  unfold legalFrom at hl
  simp only at hl
  split at hl
  · cases hl
  · rename_i valid hsat
    obtain ⟨hv, _⟩ := foldr_sat_ok _ (fun tc : Nat × Constraint K P =>
      satOrFalse D.map.get D.check tc.2 h m) (fun tc => (tc.1, m)) (.panic "predicate check")
      (fun _ _ => rfl) (fun x rest hp => by simp only [hp]) (fun x rest hp => by simp only [hp])
      (fun x rest hp => by simp only [hp]) nf valid hsat
    refine ⟨valid, hv, ?_⟩
    split at hl
    · rename_i hc
      have hc' : det = false ∨ valid = [] := by
        simpa [List.isEmpty_iff] using hc
      right
      refine ⟨hc', ?_⟩
      split at hl
      · cases hl
      · rename_i hf; cases hl; exact ⟨none, hf, by simp⟩
      · rename_i f hf; cases hl; exact ⟨some f, hf, by simp⟩
    · rename_i hc
      have hc' : det = true ∧ valid ≠ [] := by
        simpa [List.isEmpty_iff] using hc
      cases hl
      exact .inl ⟨hc'.1, hc'.2, rfl⟩

theorem mem_legalFrom {D : Domain K V P H M} {a : Automaton K P} {h : H} {s : Nat} {det : Bool}
    {nf : List (Nat × Constraint K P)} {m : M} {xs : List (Nat × M)} {w : AState K}
    (hw : a.g.weight? s = some w) (hl : legalFrom D a h s det nf m = .ok xs) (s' : Nat) (m' : M) :
    (s', m') ∈ xs ↔ m' = m ∧
      ((∃ tc ∈ nf, tc.1 = s' ∧ satOrFalse D.map.get D.check tc.2 h m = some true) ∨
       ((det = false ∨ ∀ tc ∈ nf, satOrFalse D.map.get D.check tc.2 h m ≠ some true) ∧
          ∃ t e, t ∈ w.eorder ∧ a.g.edge? t = some e ∧ e.dst = s')) := by
  obtain ⟨valid, hv, hcase⟩ := legalFrom_ok hl
  have hmv : (s', m') ∈ valid ↔ m' = m ∧
      ∃ tc ∈ nf, tc.1 = s' ∧ satOrFalse D.map.get D.check tc.2 h m = some true := by
    rw [hv, List.mem_map]
    constructor
    · rintro ⟨tc, htc, he⟩
      cases he
      obtain ⟨h1, h2⟩ := List.mem_filter.mp htc
      exact ⟨rfl, tc, h1, rfl, by simpa using h2⟩
    · rintro ⟨rfl, tc, h1, rfl, h2⟩
      exact ⟨tc, List.mem_filter.mpr ⟨h1, by simpa using h2⟩, rfl⟩
  have hve : valid = [] ↔ ∀ tc ∈ nf, satOrFalse D.map.get D.check tc.2 h m ≠ some true := by
    rw [hv, List.map_eq_nil_iff, List.filter_eq_nil_iff]
    simp
  rcases hcase with ⟨hd, hne, rfl⟩ | ⟨hc, fo, hf, rfl⟩
  · rw [hmv]
    constructor
    · rintro ⟨h1, h2⟩; exact ⟨h1, .inl h2⟩
    · rintro ⟨h1, h2 | ⟨h2 | h2, _⟩⟩
      · exact ⟨h1, h2⟩
      · rw [hd] at h2; cases h2
      · exact absurd (hve.mpr h2) hne
  · rw [List.mem_append, hmv, ← hve]
    constructor
    · rintro (⟨h1, h2⟩ | h2)
      · exact ⟨h1, .inl h2⟩
      · obtain ⟨f, hf', he⟩ := List.mem_map.mp h2
        cases he
        rcases failNextState_ok hw hf with ⟨_, rfl⟩ | ⟨t, e, heo, he, rfl⟩
        · simp at hf'
        · simp at hf'
          subst hf'
          exact ⟨rfl, .inr ⟨hc, t, e, by simp [heo], he, rfl⟩⟩
    · rintro ⟨h1, h2 | ⟨_, t, e, ht, he, hdst⟩⟩
      · exact .inl ⟨h1, h2⟩
      · right
        rcases failNextState_ok hw hf with ⟨heo, _⟩ | ⟨t₀, e₀, heo, he₀, rfl⟩
        · rw [heo] at ht; cases ht
        · rw [heo] at ht
          have : t = t₀ := by simpa using ht
          subst this
          rw [he] at he₀; cases he₀
          subst h1 hdst
          simp

theorem mem_legalAll {D : Domain K V P H M} {a : Automaton K P} {h : H} {s : Nat} {det : Bool}
    {nf : List (Nat × Constraint K P)} {cands : List M} {ys : List (Nat × M)} {w : AState K}
    (hw : a.g.weight? s = some w) (hl : legalAll D a h s det nf cands = .ok ys) (s' : Nat)
    (m' : M) :
    (s', m') ∈ ys ↔ m' ∈ cands ∧
      ((∃ tc ∈ nf, tc.1 = s' ∧ satOrFalse D.map.get D.check tc.2 h m' = some true) ∨
       ((det = false ∨ ∀ tc ∈ nf, satOrFalse D.map.get D.check tc.2 h m' ≠ some true) ∧
          ∃ t e, t ∈ w.eorder ∧ a.g.edge? t = some e ∧ e.dst = s')) := by
  induction cands generalizing ys with
  | nil => simp only [legalAll, Except.ok.injEq] at hl; subst hl; simp
  | cons m ms ih =>
    simp only [legalAll] at hl
    split at hl
    · cases hl
    · rename_i xs hxs
      split at hl
      · cases hl
      · rename_i ys' hys
        simp only [Except.ok.injEq] at hl
        subst hl
        rw [List.mem_append, mem_legalFrom hw hxs, ih hys, List.mem_cons]
        constructor
        · rintro (⟨rfl, h2⟩ | ⟨h1, h2⟩)
          · exact ⟨.inl rfl, h2⟩
          · exact ⟨.inr h1, h2⟩
        · rintro ⟨rfl | h1, h2⟩
          · exact .inl ⟨rfl, h2⟩
          · exact .inr ⟨h1, h2⟩

theorem mem_nextLegalStates_aux {D : Domain K V P H M} {a : Automaton K P} {h : H} {s : Nat}
    {m : M} {nexts : List (Nat × M)} (hn : nextLegalStates D a h s m = .ok nexts) (s' : Nat)
    (m' : M) :
    (s', m') ∈ nexts ↔ ∃ w cands, a.g.weight? s = some w ∧ stepCands D h w m = .ok cands ∧
      m' ∈ cands ∧
      ((∃ t e c, t ∈ w.corder ∧ a.g.edge? t = some e ∧ e.w = some c ∧
          satOrFalse D.map.get D.check c h m' = some true ∧ e.dst = s') ∨
       (∃ t e, t ∈ w.eorder ∧ a.g.edge? t = some e ∧
          (w.det = false ∨ ∀ t' ∈ w.corder, ∀ e' c', a.g.edge? t' = some e' → e'.w = some c' →
            satOrFalse D.map.get D.check c' h m' ≠ some true) ∧ e.dst = s')) := by
  unfold nextLegalStates at hn
  split at hn
  · cases hn
  · rename_i w hst
    have hw := state_ok.mp hst
    simp only at hn
    split at hn
    · cases hn
    · rename_i cands hret
      split at hn
      · cases hn
      · rename_i nf hnf
        have hmem := mem_of_mapR_ok hnf
        -- membership in `nf`, spelled out on the graph
        have hnf1 : ∀ tc, tc ∈ nf ↔ ∃ t ∈ w.corder, ∃ e c, a.g.edge? t = some e ∧ e.w = some c ∧
            tc = (e.dst, c) := by
          intro tc
          rw [hmem]
          constructor
          · rintro ⟨t, ht, hft⟩
            refine ⟨t, ht, ?_⟩
            simp only [Automaton.nextState, Automaton.constraintOf] at hft
            cases he : a.g.edge? t with
            | none => rw [he] at hft; simp at hft
            | some e =>
              rw [he] at hft
              simp only at hft
              cases hc : e.w with
              | none => rw [hc] at hft; simp at hft
              | some c =>
                rw [hc] at hft; simp at hft
                exact ⟨e, c, rfl, hc, hft.symm⟩
          · rintro ⟨t, ht, e, c, he, hc, rfl⟩
            refine ⟨t, ht, ?_⟩
            simp only [Automaton.nextState, Automaton.constraintOf, he, hc]
        rw [mem_legalAll hw hn]
        constructor
        · rintro ⟨hm', hcase⟩
          refine ⟨w, cands, hw, hret, hm', ?_⟩
          rcases hcase with ⟨tc, htc, rfl, hsat⟩ | ⟨hc, t, e, ht, he, hdst⟩
          · obtain ⟨t, ht, e, c, he, hc, rfl⟩ := (hnf1 tc).mp htc
            exact .inl ⟨t, e, c, ht, he, hc, hsat, rfl⟩
          · refine .inr ⟨t, e, ht, he, ?_, hdst⟩
            rcases hc with hc | hc
            · exact .inl hc
            · right
              intro t' ht' e' c' he' hc'
              exact hc (e'.dst, c') ((hnf1 _).mpr ⟨t', ht', e', c', he', hc', rfl⟩)
        · rintro ⟨w', cands', hw', hret', hm', hcase⟩
          rw [hw] at hw'; cases hw'
          have : cands' = cands := by
            have : stepCands D h w m = .ok cands := hret
            rw [this] at hret'; cases hret'; rfl
          subst this
          refine ⟨hm', ?_⟩
          rcases hcase with ⟨t, e, c, ht, he, hc, hsat, hdst⟩ | ⟨t, e, ht, he, hc, hdst⟩
          · exact .inl ⟨(e.dst, c), (hnf1 _).mpr ⟨t, ht, e, c, he, hc, rfl⟩, hdst, hsat⟩
          · refine .inr ⟨?_, t, e, ht, he, hdst⟩
            rcases hc with hc | hc
            · exact .inl hc
            · right
              intro tc htc
              obtain ⟨t', ht', e', c', he', hc', rfl⟩ := (hnf1 tc).mp htc
              exact hc t' ht' e' c' he' hc'

end Step

/-! ### the breadth-first loop -/

section Step
variable {K V P H M : Type}

/-- One step of `nextLegalStates` stays inside `Reach`. -/
theorem reach_next {D : Domain K V P H M} {a : Automaton K P} {h : H} {s : Nat} {m : M} {nexts : List (Nat × M)} (hr : Reach D a h s m)
    (hn : nextLegalStates D a h s m = .ok nexts) {sm' : Nat × M} (hm : sm' ∈ nexts) :
    Reach D a h sm'.1 sm'.2 := by
  obtain ⟨s', m'⟩ := sm'
  obtain ⟨w, cands, hw, hc, hm', hcase⟩ := (mem_nextLegalStates_aux hn s' m').mp hm
  rcases hcase with ⟨t, e, c, ht, he, hc', hsat, rfl⟩ | ⟨t, e, ht, he, hd, rfl⟩
  · exact .con hr hw hc hm' ht he hc' hsat
  · exact .eps hr hw hc hm' ht he hd

end Step

section Loop
variable {K V P H M : Type} [DecidableEq K]

/-- The successful executions of `runLoop`, fuel-free: `Bfs D a h queue seen out exp seen' ms` —
starting from `queue`, visit log `seen` and output `out`, the loop expands exactly the
configurations `exp` (in order) and ends with visit log `seen'` and output `ms`. -/
inductive Bfs (D : Domain K V P H M) (a : Automaton K P) (h : H) :
    List (Nat × M) → List (Nat × List (Option V)) → List (Match M) →
    List (Nat × M) → List (Nat × List (Option V)) → List (Match M) → Prop where
  | done {seen out} : Bfs D a h [] seen out [] seen out
  | skip {s m w queue seen out exp seen' ms} : a.g.weight? s = some w →
      (s, visitKey D w m) ∈ seen → Bfs D a h queue seen out exp seen' ms →
      Bfs D a h ((s, m) :: queue) seen out exp seen' ms
  | expand {s m w queue seen out em nexts exp seen' ms} : a.g.weight? s = some w →
      (s, visitKey D w m) ∉ seen → emitMatches D h m w.matches_ = .ok em →
      nextLegalStates D a h s m = .ok nexts →
      Bfs D a h (queue ++ nexts) (seen ++ [(s, visitKey D w m)]) (out ++ em) exp seen' ms →
      Bfs D a h ((s, m) :: queue) seen out ((s, m) :: exp) seen' ms

/-- `key` is the visit-log entry `(state, projection)` of the configuration `sm`. -/
def IsKeyOf (D : Domain K V P H M) (a : Automaton K P) (sm : Nat × M)
    (key : Nat × List (Option V)) : Prop :=
  ∃ w, a.g.weight? sm.1 = some w ∧ key = (sm.1, visitKey D w sm.2)

/-- `em` is the list of matches emitted when the configuration `sm` is expanded. -/
def EmitsAt (D : Domain K V P H M) (a : Automaton K P) (h : H) (sm : Nat × M)
    (em : List (Match M)) : Prop :=
  ∃ w, a.g.weight? sm.1 = some w ∧ emitMatches D h sm.2 w.matches_ = .ok em

/-- The visit-log entry of `sm` is in `seen`. -/
def Covered (D : Domain K V P H M) (a : Automaton K P) (seen : List (Nat × List (Option V)))
    (sm : Nat × M) : Prop :=
  ∃ w, a.g.weight? sm.1 = some w ∧ (sm.1, visitKey D w sm.2) ∈ seen

variable {D : Domain K V P H M} {a : Automaton K P} {h : H}
  {queue exp : List (Nat × M)} {seen seen' : List (Nat × List (Option V))}
  {out ms : List (Match M)}

theorem Bfs.keys (hb : Bfs D a h queue seen out exp seen' ms) :
    ∃ nk, seen' = seen ++ nk ∧ Forall2 (IsKeyOf D a) exp nk := by
  induction hb with
  | done => exact ⟨[], by simp, .nil⟩
  | skip _ _ _ ih => exact ih
  | @expand s m w _ _ _ _ _ _ _ _ hw _ _ _ _ ih =>
    obtain ⟨nk, h1, h2⟩ := ih
    exact ⟨(s, visitKey D w m) :: nk, by simp [h1], .cons ⟨w, hw, rfl⟩ h2⟩

theorem Bfs.nodup (hb : Bfs D a h queue seen out exp seen' ms) (hn : seen.Nodup) :
    seen'.Nodup := by
  induction hb with
  | done => exact hn
  | skip _ _ _ ih => exact ih hn
  | expand _ hns _ _ _ ih =>
    apply ih
    rw [List.nodup_append]
    refine ⟨hn, by simp, ?_⟩
    intro x hx y hy
    rw [List.mem_singleton] at hy
    subst hy
    intro hxy; subst hxy; exact hns hx

theorem Bfs.emits (hb : Bfs D a h queue seen out exp seen' ms) :
    ∃ ems, ms = out ++ ems.flatten ∧ Forall2 (EmitsAt D a h) exp ems := by
  induction hb with
  | done => exact ⟨[], by simp, .nil⟩
  | skip _ _ _ ih => exact ih
  | @expand s m w _ _ _ em _ _ _ _ hw _ hem _ _ ih =>
    obtain ⟨ems, h1, h2⟩ := ih
    exact ⟨em :: ems, by simp [h1], .cons ⟨w, hw, hem⟩ h2⟩

theorem Bfs.reach (hb : Bfs D a h queue seen out exp seen' ms)
    (hq : ∀ sm ∈ queue, Reach D a h sm.1 sm.2) : ∀ sm ∈ exp, Reach D a h sm.1 sm.2 := by
  induction hb with
  | done => intro sm hsm; cases hsm
  | skip _ _ _ ih => exact ih fun sm hsm => hq sm (List.mem_cons_of_mem _ hsm)
  | expand _ _ _ hnx _ ih =>
    have h0 := hq _ List.mem_cons_self
    intro sm hsm
    rcases List.mem_cons.mp hsm with rfl | hsm
    · exact h0
    · refine ih ?_ sm hsm
      intro sm' hsm'
      rcases List.mem_append.mp hsm' with h1 | h1
      · exact hq sm' (List.mem_cons_of_mem _ h1)
      · exact reach_next h0 hnx h1

theorem Bfs.closed (hb : Bfs D a h queue seen out exp seen' ms) :
    (∀ sm, sm ∈ queue ∨ Covered D a seen sm → Covered D a seen' sm) ∧
    ∀ sm ∈ exp, ∃ nexts, nextLegalStates D a h sm.1 sm.2 = .ok nexts ∧
      ∀ sm' ∈ nexts, Covered D a seen' sm' := by
  induction hb with
  | done =>
    refine ⟨?_, fun sm hsm => by cases hsm⟩
    rintro sm (h1 | h1)
    · cases h1
    · exact h1
  | @skip s m w _ _ _ _ _ _ hw hs _ ih =>
    refine ⟨?_, ih.2⟩
    rintro sm (h1 | h1)
    · rcases List.mem_cons.mp h1 with rfl | h1
      · exact ih.1 _ (.inr ⟨w, hw, hs⟩)
      · exact ih.1 _ (.inl h1)
    · exact ih.1 _ (.inr h1)
  | @expand s m w _ sn _ _ nexts _ _ _ hw _ _ hnx _ ih =>
    have hcov : ∀ sm, Covered D a sn sm → Covered D a (sn ++ [(s, visitKey D w m)]) sm := by
      rintro sm ⟨w', hw', hk⟩
      exact ⟨w', hw', List.mem_append_left _ hk⟩
    refine ⟨?_, ?_⟩
    · rintro sm (h1 | h1)
      · rcases List.mem_cons.mp h1 with rfl | h1
        · exact ih.1 _ (.inr ⟨w, hw, by simp⟩)
        · exact ih.1 _ (.inl (List.mem_append_left _ h1))
      · exact ih.1 _ (.inr (hcov _ h1))
    · intro sm hsm
      rcases List.mem_cons.mp hsm with rfl | hsm
      · exact ⟨nexts, hnx, fun sm' hsm' => ih.1 _ (.inl (List.mem_append_right _ hsm'))⟩
      · exact ih.2 sm hsm

section
variable [DecidableEq V]

theorem runLoop_bfs (fuel : Nat) :
    ∀ (queue : List (Nat × M)) (seen : List (Nat × List (Option V))) (out : List (Match M))
      (ms : List (Match M)) (seen' : List (Nat × List (Option V))),
      runLoop D a h fuel queue seen out = .ok (ms, seen') →
      ∃ exp, Bfs D a h queue seen out exp seen' ms := by
  induction fuel with
  | zero =>
    intro queue seen out ms seen' hr
    cases queue with
    | nil => simp only [runLoop, Except.ok.injEq, Prod.mk.injEq] at hr; obtain ⟨rfl, rfl⟩ := hr; exact ⟨[], .done⟩
    | cons sm q => simp [runLoop] at hr
  | succ fuel ih =>
    intro queue seen out ms seen' hr
    cases queue with
    | nil => simp only [runLoop, Except.ok.injEq, Prod.mk.injEq] at hr; obtain ⟨rfl, rfl⟩ := hr; exact ⟨[], .done⟩
    | cons sm q =>
      obtain ⟨s, m⟩ := sm
      simp only [runLoop] at hr
      split at hr
      · cases hr
      · rename_i w hst
        have hw := state_ok.mp hst
        split at hr
        · rename_i hc
          obtain ⟨exp, hb⟩ := ih _ _ _ _ _ hr
          exact ⟨exp, .skip hw (by simpa using hc) hb⟩
        · rename_i hc
          split at hr
          · cases hr
          · rename_i em hem
            split at hr
            · cases hr
            · rename_i nexts hnx
              obtain ⟨exp, hb⟩ := ih _ _ _ _ _ hr
              exact ⟨(s, m) :: exp, .expand hw (by simpa using hc) hem hnx hb⟩

theorem runLoop_fuel_mono (fuel : Nat) :
    ∀ (fuel' : Nat) (queue : List (Nat × M)) (seen : List (Nat × List (Option V)))
      (out : List (Match M)) (r : List (Match M) × List (Nat × List (Option V))),
      runLoop D a h fuel queue seen out = .ok r → fuel ≤ fuel' →
      runLoop D a h fuel' queue seen out = .ok r := by
  induction fuel with
  | zero =>
    intro fuel' queue seen out r hr _
    cases queue with
    | nil => cases fuel' <;> simpa [runLoop] using hr
    | cons sm q => simp [runLoop] at hr
  | succ fuel ih =>
    intro fuel' queue seen out r hr hle
    cases queue with
    | nil => cases fuel' <;> simpa [runLoop] using hr
    | cons sm q =>
      obtain ⟨s, m⟩ := sm
      obtain ⟨fuel'', rfl⟩ : ∃ f, fuel' = f + 1 := ⟨fuel' - 1, by omega⟩
      have hle' : fuel ≤ fuel'' := by omega
      simp only [runLoop] at hr ⊢
      split at hr
      · cases hr
      · rename_i w hst
        split at hr
        · rename_i hc
          rw [if_pos hc]
          exact ih _ _ _ _ _ hr hle'
        · rename_i hc
          rw [if_neg hc]
          split at hr
          · cases hr
          · rename_i em hem
            split at hr
            · cases hr
            · rename_i nexts hnx
              exact ih _ _ _ _ _ hr hle'

/-- Everything about a successful run, for one list `exp` of expanded configurations. -/
theorem run_trace {fuel : Nat} (hr : run D a h fuel = .ok (ms, seen)) :
    ∃ exp : List (Nat × M),
      Forall2 (IsKeyOf D a) exp seen ∧ seen.Nodup ∧
      (∃ ems, Forall2 (EmitsAt D a h) exp ems ∧ ms = ems.flatten) ∧
      (∀ sm ∈ exp, Reach D a h sm.1 sm.2) ∧
      Covered D a seen (a.root, D.map.empty) ∧
      ∀ sm ∈ exp, ∃ nexts, nextLegalStates D a h sm.1 sm.2 = .ok nexts ∧
        ∀ sm' ∈ nexts, Covered D a seen sm' := by
  obtain ⟨exp, hb⟩ := runLoop_bfs fuel _ _ _ _ _ hr
  refine ⟨exp, ?_, hb.nodup List.nodup_nil, ?_, ?_, ?_, hb.closed.2⟩
  · obtain ⟨nk, h1, h2⟩ := hb.keys
    rw [List.nil_append] at h1
    rw [h1]; exact h2
  · obtain ⟨ems, h1, h2⟩ := hb.emits
    exact ⟨ems, h2, by simpa using h1⟩
  · apply hb.reach
    intro sm hsm
    rw [List.mem_singleton] at hsm
    subst hsm
    exact .root
  · exact hb.closed.1 _ (.inl List.mem_cons_self)

end

end Loop

/-! ### the baseline matcher -/

section Single
variable {K V P H M : Type} [DecidableEq K]

/-- One level of the baseline: bind the missing keys of `c` completely, keep the candidates on
which `c` evaluates to `true`. -/
def levelStep (D : Domain K V P H M) (h : H) (mbFuel : Nat) (c : Constraint K P) (ms : List M) :
    List M :=
  ms.flatMap fun m =>
    (bindAll D.map D.opts h m ((allMissingBindings D.req c.args [] mbFuel).getD []) false).filter
      fun m' => satOrFalse D.map.get D.check c h m' == some true

theorem singleLevels_cons (D : Domain K V P H M) (h : H) (mbFuel : Nat) (c : Constraint K P)
    (cs : List (Constraint K P)) (ms : List M) :
    singleLevels D h mbFuel (c :: cs) ms = singleLevels D h mbFuel cs (levelStep D h mbFuel c ms) :=
  rfl

theorem singleLevels_nil_right (D : Domain K V P H M) (h : H) (mbFuel : Nat)
    (cs : List (Constraint K P)) : singleLevels D h mbFuel cs [] = [] := by
  induction cs with
  | nil => rfl
  | cons c cs ih => rw [singleLevels_cons]; simpa [levelStep] using ih

theorem singleLevels_append (D : Domain K V P H M) (h : H) (mbFuel : Nat)
    (cs₁ cs₂ : List (Constraint K P)) (ms : List M) :
    singleLevels D h mbFuel (cs₁ ++ cs₂) ms
      = singleLevels D h mbFuel cs₂ (singleLevels D h mbFuel cs₁ ms) := by
  induction cs₁ generalizing ms with
  | nil => rfl
  | cons c cs ih => rw [List.cons_append, singleLevels_cons, singleLevels_cons, ih]

variable {D : Domain K V P H M} {h : H} {requested : List K} {mbFuel : Nat}

theorem singleLoop_nil (fuel : Nat) (out : List M) :
    singleLoop D h requested mbFuel fuel ([] : List (List (Constraint K P) × M)) out = .ok out := by
  cases fuel <;> simp [singleLoop]

/-- Processing all queued candidates of one level (with a constraint left). -/
theorem singleLoop_level {c : Constraint K P} {rest : List (Constraint K P)} (A : List M) :
    ∀ (fuel : Nat) (Q : List (List (Constraint K P) × M)) (out res : List M),
      singleLoop D h requested mbFuel fuel (A.map (fun m => (c :: rest, m)) ++ Q) out = .ok res →
      (A ≠ [] → ∃ keys, allMissingBindings D.req c.args [] mbFuel = some keys) ∧
      ∃ fuel', singleLoop D h requested mbFuel fuel'
        (Q ++ (levelStep D h mbFuel c A).map (fun m => (rest, m))) out = .ok res := by
  induction A with
  | nil =>
    intro fuel Q out res hr
    exact ⟨fun hne => absurd rfl hne, fuel, by simpa [levelStep] using hr⟩
  | cons m A ih =>
    intro fuel Q out res hr
    cases fuel with
    | zero => simp [singleLoop] at hr
    | succ fuel =>
      simp only [List.map_cons, List.cons_append, singleLoop] at hr
      split at hr
      · cases hr
      · rename_i keys hk
        split at hr
        · cases hr
        · rename_i kept hkept
          obtain ⟨hkeq, _⟩ := foldr_sat_ok _ (fun m' => satOrFalse D.map.get D.check c h m')
            (fun m' => m') (.panic "predicate check")
            (fun _ _ => rfl) (fun x rest hp => by simp only [hp])
            (fun x rest hp => by simp only [hp]) (fun x rest hp => by simp only [hp]) _ kept hkept
          rw [List.map_id'] at hkeq
          rw [List.append_assoc] at hr
          obtain ⟨_, fuel', h2⟩ := ih fuel _ out res hr
          refine ⟨fun _ => ⟨keys, hk⟩, fuel', ?_⟩
          have hls : levelStep D h mbFuel c (m :: A) = kept ++ levelStep D h mbFuel c A := by
            simp [levelStep, hk, hkeq]
          rw [hls, List.map_append, ← List.append_assoc]
          exact h2

/-- Processing all queued candidates of the last level (no constraint left). -/
theorem singleLoop_emit (A : List M) :
    ∀ (fuel : Nat) (Q : List (List (Constraint K P) × M)) (out res : List M),
      singleLoop D h requested mbFuel fuel (A.map (fun m => ([], m)) ++ Q) out = .ok res →
      ∃ rs : List M, A.map (fun m => D.map.retain m requested) = rs.map some ∧
        ∃ fuel', singleLoop D h requested mbFuel fuel' Q
          (out ++ rs.filter fun m' => requested.all fun k => (D.map.get m' k).isSome) = .ok res := by
  induction A with
  | nil =>
    intro fuel Q out res hr
    exact ⟨[], rfl, fuel, by simpa using hr⟩
  | cons m A ih =>
    intro fuel Q out res hr
    cases fuel with
    | zero => simp [singleLoop] at hr
    | succ fuel =>
      simp only [List.map_cons, List.cons_append, singleLoop] at hr
      split at hr
      · cases hr
      · rename_i m' hm
        split at hr
        · rename_i hall
          obtain ⟨rs, h1, fuel', h2⟩ := ih fuel Q _ res hr
          refine ⟨m' :: rs, by simp [hm, h1], fuel', ?_⟩
          simpa [List.filter_cons, hall] using h2
        · rename_i hall
          obtain ⟨rs, h1, fuel', h2⟩ := ih fuel Q _ res hr
          refine ⟨m' :: rs, by simp [hm, h1], fuel', ?_⟩
          simpa [List.filter_cons, hall] using h2

/-- The FIFO loop computes the level-by-level fold. -/
theorem singleLoop_levels (cs : List (Constraint K P)) :
    ∀ (A : List M) (fuel : Nat) (out res : List M),
      singleLoop D h requested mbFuel fuel (A.map (fun m => (cs, m))) out = .ok res →
      (∀ pre c post, cs = pre ++ c :: post → singleLevels D h mbFuel pre A ≠ [] →
        ∃ keys, allMissingBindings D.req c.args [] mbFuel = some keys) ∧
      ∃ rs : List M, (singleLevels D h mbFuel cs A).map (fun m => D.map.retain m requested) = rs.map some ∧
        res = out ++ rs.filter fun m' => requested.all fun k => (D.map.get m' k).isSome := by
  induction cs with
  | nil =>
    intro A fuel out res hr
    have hr' : singleLoop D h requested mbFuel fuel
        (A.map (fun m => (([] : List (Constraint K P)), m)) ++ []) out = .ok res := by
      rwa [List.append_nil]
    obtain ⟨rs, h1, fuel', h2⟩ := singleLoop_emit A fuel [] out res hr'
    rw [singleLoop_nil] at h2
    refine ⟨?_, rs, h1, by cases h2; rfl⟩
    intro pre c post he
    cases pre <;> cases he
  | cons c rest ih =>
    intro A fuel out res hr
    have hr' : singleLoop D h requested mbFuel fuel
        (A.map (fun m => (c :: rest, m)) ++ []) out = .ok res := by
      rwa [List.append_nil]
    obtain ⟨h0, fuel', h2⟩ := singleLoop_level A fuel [] out res hr'
    rw [List.nil_append] at h2
    obtain ⟨h3, rs, h4, h5⟩ := ih _ fuel' out res h2
    refine ⟨?_, rs, h4, h5⟩
    intro pre c' post he hne
    cases pre with
    | nil =>
      simp only [List.nil_append, List.cons.injEq] at he
      obtain ⟨rfl, _⟩ := he
      exact h0 hne
    | cons c₀ pre' =>
      simp only [List.cons_append, List.cons.injEq] at he
      obtain ⟨rfl, he⟩ := he
      exact h3 pre' c' post he hne

omit [DecidableEq K] in
/-- A constraint that evaluates to `true` keeps doing so when the binding is extended. -/
theorem satOrFalse_mono_aux (get : M → K → Option V) (check : P → H → List V → Option Bool)
    (c : Constraint K P) (h : H) (m m' : M)
    (hext : ∀ k v, get m k = some v → get m' k = some v)
    (hs : satOrFalse get check c h m = some true) : satOrFalse get check c h m' = some true := by
  unfold satOrFalse isSatisfied isSatisfiedLog at hs ⊢
  cases hr : resolveArgs get m c.args with
  | error e => rw [hr] at hs; simp at hs
  | ok vs =>
    rw [hr] at hs
    have h1 := (c16_resolve_ok get m c.args vs).mp hr
    have h2 : c.args.map (get m') = vs.map some := by
      rw [← h1]
      apply List.map_congr_left
      intro k hk
      have : get m k ∈ vs.map some := by rw [← h1]; exact List.mem_map.mpr ⟨k, hk, rfl⟩
      obtain ⟨v, _, hv⟩ := List.mem_map.mp this
      rw [← hv]; exact hext k v hv.symm
    rw [(c16_resolve_ok get m' c.args vs).mpr h2]
    exact hs

theorem mem_levelStep {c : Constraint K P} {A : List M} {m₁ : M} :
    m₁ ∈ levelStep D h mbFuel c A ↔ ∃ m ∈ A,
      m₁ ∈ bindAll D.map D.opts h m ((allMissingBindings D.req c.args [] mbFuel).getD []) false ∧
      satOrFalse D.map.get D.check c h m₁ = some true := by
  simp [levelStep, List.mem_flatMap, List.mem_filter]

/-- Every survivor extends one of the starting candidates and satisfies every constraint. -/
theorem singleLevels_sound
    (keeps : ∀ m k v m', D.map.bind m k v = .ok m' →
      ∀ k' v', D.map.get m k' = some v' → D.map.get m' k' = some v')
    (cs : List (Constraint K P)) : ∀ (A : List M) (r : M), r ∈ singleLevels D h mbFuel cs A →
      ∃ m ∈ A, (∀ k v, D.map.get m k = some v → D.map.get r k = some v) ∧
        ∀ c ∈ cs, satOrFalse D.map.get D.check c h r = some true := by
  induction cs with
  | nil =>
    intro A r hr
    exact ⟨r, hr, fun _ _ hg => hg, fun c hc => by cases hc⟩
  | cons c rest ih =>
    intro A r hr
    rw [singleLevels_cons] at hr
    obtain ⟨m₁, hm₁, hext, hsat⟩ := ih _ r hr
    obtain ⟨m, hm, hb, hs⟩ := mem_levelStep.mp hm₁
    have hext₁ := c13_extends D.map D.opts h false keeps _ m m₁ hb
    refine ⟨m, hm, fun k v hg => hext k v (hext₁ k v hg), ?_⟩
    intro c' hc'
    rcases List.mem_cons.mp hc' with rfl | hc'
    · exact satOrFalse_mono_aux _ _ _ _ m₁ r hext hs
    · exact hsat c' hc'

/-- The derivations of the baseline: starting from a binding, for each constraint in order,
extend the binding over the constraint's missing keys (an `Ext` derivation in complete mode,
see `Props/C13`) so that the constraint evaluates to `true` right after its own extension. -/
inductive SingleDeriv (D : Domain K V P H M) (h : H) (mbFuel : Nat) :
    List (Constraint K P) → M → M → Prop where
  | nil {m} : SingleDeriv D h mbFuel [] m m
  | cons {c cs keys m m₁ r} : allMissingBindings D.req c.args [] mbFuel = some keys →
      Ext D.map D.opts h false m keys m₁ → satOrFalse D.map.get D.check c h m₁ = some true →
      SingleDeriv D h mbFuel cs m₁ r → SingleDeriv D h mbFuel (c :: cs) m r

theorem singleLevels_of_deriv {cs : List (Constraint K P)} {m r : M}
    (hd : SingleDeriv D h mbFuel cs m r) : ∀ A : List M, m ∈ A → r ∈ singleLevels D h mbFuel cs A := by
  induction hd with
  | nil => intro A hm; exact hm
  | cons hk he hs _ ih =>
    intro A hm
    rw [singleLevels_cons]
    apply ih
    refine mem_levelStep.mpr ⟨_, hm, ?_, hs⟩
    rw [hk]
    exact (c13_exact _ _ _ _ _ _ _).mpr he

theorem deriv_of_singleLevels (cs : List (Constraint K P)) : ∀ (A : List M) (r : M),
    (∀ pre c post, cs = pre ++ c :: post → singleLevels D h mbFuel pre A ≠ [] →
      ∃ keys, allMissingBindings D.req c.args [] mbFuel = some keys) →
    r ∈ singleLevels D h mbFuel cs A → ∃ m ∈ A, SingleDeriv D h mbFuel cs m r := by
  induction cs with
  | nil => intro A r _ hr; exact ⟨r, hr, .nil⟩
  | cons c rest ih =>
    intro A r hall hr
    rw [singleLevels_cons] at hr
    obtain ⟨m₁, hm₁, hd⟩ := ih _ r (fun pre c' post he hne =>
      hall (c :: pre) c' post (by rw [he]; rfl) (by rwa [singleLevels_cons])) hr
    obtain ⟨m, hm, hb, hs⟩ := mem_levelStep.mp hm₁
    obtain ⟨keys, hk⟩ := hall [] c rest rfl (by
      show A ≠ []
      intro he; rw [he] at hm; cases hm)
    rw [hk] at hb
    exact ⟨m, hm, .cons hk ((c13_exact _ _ _ _ _ _ _).mp hb) hs hd⟩

theorem mem_naiveMatches {fuel : Nat} (css : List (List (Constraint K P))) :
    ∀ (i : Nat) (ms : List (Match M)), naiveMatches D h fuel css i = .ok ms →
      ∀ (j : Nat) (m : M), (j, m) ∈ ms ↔ ∃ k cs out, j = i + k ∧ css[k]? = some cs ∧
        singleMatches D cs h fuel = .ok out ∧ m ∈ out := by
  induction css with
  | nil =>
    intro i ms hn j m
    simp only [naiveMatches, Except.ok.injEq] at hn
    subst hn
    simp
  | cons cs rest ih =>
    intro i ms hn j m
    simp only [naiveMatches] at hn
    split at hn
    · cases hn
    · rename_i out hout
      split at hn
      · cases hn
      · rename_i more hmore
        simp only [Except.ok.injEq] at hn
        subst hn
        rw [List.mem_append, ih _ _ hmore]
        constructor
        · rintro (h1 | ⟨k, cs', out', hj, hk, hs, hm⟩)
          · obtain ⟨x, hx, he⟩ := List.mem_map.mp h1
            cases he
            exact ⟨0, cs, out, rfl, rfl, hout, hx⟩
          · exact ⟨k + 1, cs', out', by omega, by simpa using hk, hs, hm⟩
        · rintro ⟨k, cs', out', hj, hk, hs, hm⟩
          cases k with
          | zero =>
            left
            simp only [List.getElem?_cons_zero, Option.some.injEq] at hk
            subst hk
            rw [hout] at hs; cases hs
            exact List.mem_map.mpr ⟨m, hm, by simp [hj]⟩
          | succ k =>
            right
            exact ⟨k, cs', out', by omega, by simpa using hk, hs, hm⟩

/-- A successful `naiveMatches` ran `singleMatches` successfully on every pattern. -/
theorem naiveMatches_all_ok {fuel : Nat} (css : List (List (Constraint K P))) :
    ∀ (i : Nat) (ms : List (Match M)), naiveMatches D h fuel css i = .ok ms →
      ∀ cs ∈ css, ∃ out, singleMatches D cs h fuel = .ok out := by
  induction css with
  | nil => intro i ms _ cs hcs; cases hcs
  | cons cs rest ih =>
    intro i ms hn cs' hcs'
    simp only [naiveMatches] at hn
    split at hn
    · cases hn
    · rename_i out hout
      split at hn
      · cases hn
      · rename_i more hmore
        rcases List.mem_cons.mp hcs' with rfl | hcs'
        · exact ⟨out, hout⟩
        · exact ih _ _ hmore cs' hcs'

end Single
end Pm
