/-
Proofs/AnchGCorner3.lean — `constraint_vec` (`pgConstraints`, Model/PGPattern.lean) never produces
a "corner" constraint (`pgNoCorner`, Proofs/AnchGDefs.lean): every `isNotEqual` constraint added by
`consLine` lists the new key followed by the keys of the non-empty node-to-key map, and the two
special cases are `hasNodeWeight [root 0]` and `isNotEqual 0 [root 0]`.
Everything lives in `namespace Pm.AnchG`.
-/
import PmVerif.Proofs.AnchGDefs
namespace Pm
namespace AnchG

theorem noCorner_ne (n : Nat) (key : PGKey) {l : List PGKey} (h : l ≠ []) :
    pgNoCorner ⟨.isNotEqual n, key :: l⟩ = true := by
  cases l with
  | nil => exact absurd rfl h
  | cons _ _ => rfl

theorem consLine_noCorner (ri : Nat) (ro : POff) :
    ∀ (line : List PLink) (i : Nat) (n2k : List (Nat × PGKey)) (cs : List PGCons)
      (n2k' : List (Nat × PGKey)) (cs' : List PGCons),
      consLine ri ro line i n2k cs = some (n2k', cs') → n2k ≠ [] →
      (∀ c ∈ cs, pgNoCorner c = true) →
      n2k' ≠ [] ∧ ∀ c ∈ cs', pgNoCorner c = true
  | [], i, n2k, cs, n2k', cs', h, hne, hcs => by
    unfold consLine at h
    cases h
    exact ⟨hne, hcs⟩
  | (left, right) :: rest, i, n2k, cs, n2k', cs', h, hne, hcs => by
    unfold consLine at h
    split at h
    · cases h
    · next leftKey hl =>
      cases hr : alGet n2k right.1 with
      | some k =>
        rw [hr] at h
        simp only at h
        refine consLine_noCorner ri ro rest (i + 1) n2k _ _ _ h hne ?_
        intro c hc
        rcases List.mem_append.1 hc with h1 | h1
        · exact hcs c h1
        · rw [List.mem_singleton.1 h1]; rfl
      | none =>
        rw [hr] at h
        simp only at h
        refine consLine_noCorner ri ro rest (i + 1) _ _ _ _ h ?_ ?_
        · intro hx
          exact hne (List.append_eq_nil_iff.1 hx).1
        · intro c hc
          rcases List.mem_append.1 hc with h1 | h1
          · rcases List.mem_append.1 h1 with h2 | h2
            · exact hcs c h2
            · rw [List.mem_singleton.1 h2]
              exact noCorner_ne _ _ (by
                intro hx
                exact hne (List.map_eq_nil_iff.1 hx))
          · rw [List.mem_singleton.1 h1]; rfl

theorem consLines_noCorner :
    ∀ (lines : List (List PLink)) (n2k : List (Nat × PGKey)) (n2r : List (Nat × Nat))
      (cs cs' : List PGCons),
      consLines lines n2k n2r cs = some cs' → n2k ≠ [] →
      (∀ c ∈ cs, pgNoCorner c = true) → ∀ c ∈ cs', pgNoCorner c = true
  | [], n2k, n2r, cs, cs', h, _, hcs => by
    unfold consLines at h
    cases h
    exact hcs
  | line :: lines, n2k, n2r, cs, cs', h, hne, hcs => by
    unfold consLines at h
    split at h
    · cases h
    · next first hf =>
      simp only at h
      split at h
      · cases h
      · next n2k1 cs1 h1 =>
        obtain ⟨hne1, hcs1⟩ := consLine_noCorner _ _ _ _ _ _ _ _ h1 hne hcs
        exact consLines_noCorner lines n2k1 _ cs1 cs' h hne1 hcs1

/-- `constraint_vec` never produces a corner constraint. -/
theorem pgConstraints_noCorner {g : PortGraph} {root : Nat} {cs : List PGCons}
    (h : pgConstraints g root = some cs) : ∀ c ∈ cs, pgNoCorner c = true := by
  unfold pgConstraints at h
  split at h
  · cases h
    intro c hc
    rw [List.mem_singleton.1 hc]; rfl
  · split at h
    · cases h
    · next cs0 h0 =>
      split at h
      · cases h
        intro c hc
        rw [List.mem_singleton.1 hc]; rfl
      · cases h
        exact consLines_noCorner _ _ _ _ _ h0 (by simp) (by intro c hc; cases hc)

end AnchG
end Pm
