/-
Proofs/GuardECheck.lean — an INSTRUMENTED copy of the lenient disciplined replay that keeps track
of which incarnation of a state id has been the state of an iteration, so that "zombies" can be
exhibited on concrete logs (namespace `Pm.GE`).  Only used for checked examples; nothing is proved
about it.  (The `scope` field is written by `populate_scopes` only, after the main loop, and every
fresh state is created with `scope = []`; the instrumented loop stores the mark `[0]` there when a
state has been processed, so a live state whose id is in `emitted` and whose mark is missing is a
later incarnation of an emitted id: a zombie.)
-/
import PmVerif.Model.BuilderT
namespace Pm
namespace GE
open Automaton
variable {P : Type} [DecidableEq P]

def markProcessed (a : Automaton Nat P) (s : Nat) : Automaton Nat P :=
  { a with g := a.g.setWeight s fun w => { w with scope := [0] } }

/-- `mainLoopWith makeDetL` with marks; returns the automaton after the main loop (before
`populate_scopes`) and the list of emitted ids. -/
def zLoop (toTree : List (Constraint Nat P) → Option (CTree (Constraint Nat P))) (fuel : Nat) :
    Nat → Automaton Nat P → List Nat → List Ev → R (Automaton Nat P × List Nat)
  | _, a, emitted, [] =>
    if a.g.nodeIndices.all emitted.contains then .ok (a, emitted)
    else .error (.guard "c1C: the log ends although a live state was never emitted")
  | 0, _, _, _ :: _ => .error (.fuel "main loop")
  | n + 1, a, emitted, .topo s :: evs =>
    if !a.topoAdmissible emitted s then
      .error (.guard "c1T: state emitted twice or before one of its predecessors")
    else
      match iterationWith makeDetL toTree fuel a s evs with
      | .error e => .error e
      | .ok (a, evs) => zLoop toTree fuel n (markProcessed a s) (s :: emitted) evs
  | _, _, _, _ :: _ => .error (.guard "expected a Topo event")

def zReplay (toTree : List (Constraint Nat P) → Option (CTree (Constraint Nat P)))
    (req : Nat → List Nat) (fuel : Nat) (patterns : List (Nat × List (Constraint Nat P) × List Nat))
    (evs : List Ev) : R (Automaton Nat P × List Nat) :=
  match addPatterns req fuel new patterns with
  | .error e => .error e
  | .ok a => zLoop toTree fuel evs.length a [] evs

/-- The zombies of an instrumented state. -/
def zombies (r : Automaton Nat P × List Nat) : List Nat :=
  r.1.g.nodeIndices.filter fun n =>
    r.2.contains n && (match r.1.g.weight? n with | some w => w.scope != [0] | none => false)

/-- `(det, number of constraint transitions, number of fallback transitions)` of a state. -/
def shape (a : Automaton Nat P) (n : Nat) : Bool × Nat × Nat :=
  match a.g.weight? n with
  | some w => (w.det, w.corder.length, w.eorder.length)
  | none => (false, 0, 0)

/-- For every zombie: its id, the ids of its parents, and its children with their shapes. -/
def zombieReport (r : Automaton Nat P × List Nat) :
    List (Nat × List Nat × List (Nat × Bool × Nat × Nat)) :=
  (zombies r).map fun z => (z, r.1.g.preds z, (r.1.g.succs z).map fun c => (c, shape r.1 c))

end GE
end Pm
