/-
Proofs/MatProgMain.lean — `matProg_built`: EVERY successful guarded build of a matrix pattern
set satisfies, at every live state, the conditions `Pm.AnchM.StateOK` the anchored traversal
theorem for matrices needs; the decidable per-program check `matProgramOK` is thus a theorem of
the builder as far as the traversal theorem is concerned.

Assembly: the step-level invariant `SP` through the build (`StrProg.sp_build`,
Proofs/StrProgFrames.lean — generic in the key type) with
`Q c := c.args.length = c.pred.arity ∧ ∀ k ∈ c.args, 0 ≤ k.1 ∧ 0 ≤ k.2` and `E pid := False`
(a matrix pattern always has a constraint), the tree decomposition `charTree`
(`StrProg.treeHyp_charTree`), the recorded key lists (`matKeys_built`), the scopes computed by
`populate_scopes` (`populateScopes_mat`, `c09_populateScopes_scopeCovers`).
Everything lives in `namespace Pm.MatProg`.
-/
import PmVerif.Proofs.StrProgFrames
import PmVerif.Proofs.StrProgTree
import PmVerif.Proofs.MatProgScopes
import PmVerif.Proofs.MatProgKeys
import PmVerif.Proofs.MatProgRun
import PmVerif.Props.C03
import PmVerif.Props.C09
namespace Pm
namespace MatProg
open Automaton

/-- The key list recorded for a matrix pattern starts with the start key `(0,0)`, which does not
occur again. -/
theorem shape_matPatternKeys (p : MatPattern) :
    matPatternKeys p = [] ∨ ∃ rest, matPatternKeys p = (0, 0) :: rest ∧ (0, 0) ∉ rest := by
  have hfold : ∀ (cs : List MatCons) (keys : List MKey), Sh ((0 : Int), (0 : Int)) keys →
      Sh ((0 : Int), (0 : Int)) (cs.foldl AnchM.keyStep keys) := by
    intro cs
    induction cs with
    | nil => intro keys h; exact h
    | cons c cs ih =>
      intro keys h
      rw [List.foldl_cons]
      apply ih
      obtain ⟨res, hres, _⟩ :=
        AnchM.allMissingLoop_star ((0 : Int), (0 : Int)) c.args keys []
      have h16 : allMissingBindings (Baseline.starReq ((0 : Int), (0 : Int))) c.args keys 16 =
          some res := hres
      have : AnchM.keyStep keys c = keys ++ res := by
        unfold AnchM.keyStep
        rw [AnchM.matReq_eq_star, h16]; rfl
      rw [this]
      exact sh_append_missing h
        (c12_all_any_fuel _ (starReq_acyclic _) c.args keys 16 res h16)
  rw [AnchM.matPatternKeys_eq]
  exact hfold _ _ (.inl rfl)

/-- Matrix predicates have at least one argument. -/
theorem charPred_arity_pos (p : CharPred) : 0 < p.arity := by
  cases p <;> simp [CharPred.arity]

/-- **Every built matrix automaton is an OK program**: whatever the event log (heuristic answers,
hash orders) and the fuel, if the guarded build of the pattern list `ps` succeeds, every live
state of the automaton satisfies the per-state conditions of the anchored traversal theorem. -/
theorem matProg_built (ps : List MatPattern) (evs : List Ev) (fuel : Nat)
    (M : Many MKey CharPred)
    (hb : manyBuild (fun p => some (matConstraints p)) (fun _ => ([] : List MKey))
      (charTree mkeyLt) matReq fuel true ps evs = some (.ok M)) :
    ∀ s w, M.automaton.g.weight? s = some w → Pm.AnchM.StateOK M.automaton ps s w := by
  have hkeys := matKeys_built ps evs fuel M hb
  unfold manyBuild at hb
  cases hi : manyInputs (fun p => some (matConstraints p)) (fun _ => ([] : List MKey)) true ps 0 with
  | none => simp [hi] at hb
  | some inputs =>
    simp only [hi] at hb
    cases hbuild : build (charTree mkeyLt) matReq fuel inputs evs with
    | error e => simp [hbuild] at hb
    | ok A =>
      simp only [hbuild, Option.some.injEq, Except.ok.injEq] at hb
      subst hb
      show ∀ s w, A.g.weight? s = some w → Pm.AnchM.StateOK A ps s w
      change ∀ s w, A.g.weight? s = some w → ∀ m ∈ w.matches_,
        ∃ p, ps[m.1]? = some p ∧ m.2 = matPatternKeys p at hkeys
      have hpos := c06_ids_are_positions (fun p => some (matConstraints p))
        (fun _ => ([] : List MKey)) true ps 0 inputs hi
      -- the step-level invariant of the build
      obtain ⟨a2, hps, inv2, rs2, sp2⟩ :=
        StrProg.sp_build (E := fun _ => False)
          (Q := fun c : MatCons => c.args.length = c.pred.arity ∧
            ∀ k ∈ c.args, 0 ≤ k.1 ∧ 0 ≤ k.2)
          (σ := fun _ => true) (c03_treeOK_char mkeyLt _) (StrProg.treeHyp_charTree mkeyLt _)
          hbuild
          (by
            rintro ⟨j, cs, ex⟩ hmem
            obtain ⟨k, p, hk, hj, hc, _⟩ := (hpos j cs ex).mp hmem
            simp only [Option.some.injEq] at hc
            subst hc
            exact ⟨fun c hc => ⟨tdom_mat_arity p c hc, mat_keys_nonneg p c hc⟩,
              fun hE => hE.elim⟩)
      have hsame := populateScopes_sameButScope hps
      have hcov := c09_populateScopes_scopeCovers matReq_acyclic hps
      -- recorded key lists of `a2` contain the start key
      have hk2 : ∀ s w, a2.g.weight? s = some w → ∀ m ∈ w.matches_, m.2 ≠ [] →
          ((0, 0) : MKey) ∈ m.2 := by
        intro s w2 hw2 m hm hne
        obtain ⟨w, hw, he⟩ := hsame.weight?_symm hw2
        have hm' : m ∈ w.matches_ := by rw [he]; exact hm
        obtain ⟨p, _, hmp⟩ := hkeys s w hw m hm'
        exact sh_mem_start (hmp ▸ shape_matPatternKeys p) hne
      have hshape := populateScopes_mat hps
        (fun t e c he hc => (sp2.efrom t e c he hc).2) hk2
      intro s w hw
      obtain ⟨w2, hw2, he⟩ := hsame.weight? hw
      have hco : w.corder = w2.corder := by rw [he]
      have heo : w.eorder = w2.eorder := by rw [he]
      -- clause (con)
      have hcon : ∀ t ∈ w.corder, ∃ e c, A.g.edge? t = some e ∧ e.w = some c ∧
          c.args.length = c.pred.arity ∧ ∀ k ∈ c.args, k ∈ w.scope := by
        intro t ht
        obtain ⟨e, he2, _, hsome⟩ := inv2.ok.corder_edge s w2 hw2 t (hco ▸ ht)
        obtain ⟨c, hc⟩ := Option.isSome_iff_exists.1 hsome
        have heA : A.g.edge? t = some e := by rw [hsame.edge?]; exact he2
        exact ⟨e, c, heA, hc, (sp2.efrom t e c he2 hc).1, hcov s w hw t ht e c heA hc⟩
      refine ⟨hcon, ?_, (hshape s w hw).1, (hshape s w hw).2, ?_⟩
      · -- clause (scope_ne)
        intro hor
        have hcne : w.corder ≠ [] := by
          rcases hor with h | h
          · exact h
          · obtain ⟨t, ht⟩ := List.exists_mem_of_ne_nil _ h
            obtain ⟨e, he2, hsrc, hnone⟩ := inv2.ok.eorder_edge s w2 hw2 t (heo ▸ ht)
            have hn : e.w = none := Option.isNone_iff_eq_none.1 hnone
            obtain ⟨t', e', he', hs', hw'⟩ := sp2.noEps t e he2 hn
            have : t' ∈ w2.corder := (mem_corder_iff inv2.ok hw2).2 ⟨e', he', hs'.trans hsrc, hw'⟩
            rw [hco]
            exact List.ne_nil_of_mem this
        obtain ⟨t, ht⟩ := List.exists_mem_of_ne_nil _ hcne
        obtain ⟨e, c, _, _, har, hsc⟩ := hcon t ht
        have hpos' : 0 < c.args.length := by rw [har]; exact charPred_arity_pos _
        obtain ⟨k, hk⟩ := List.exists_mem_of_ne_nil _ (List.ne_nil_of_length_pos hpos')
        exact List.ne_nil_of_mem (hsc k hk)
      · -- clause (matches_)
        intro pid ks hm
        obtain ⟨p, hp, hks⟩ := hkeys s w hw (pid, ks) hm
        simp only at hp hks
        refine ⟨hks ▸ shape_matPatternKeys p, .inr (hks ▸ AnchM.matPatternKeys_ne p),
          hks ▸ AnchM.matPatternKeys_nn p, p, hp, hks⟩

/-- `matProg_built` in the form the traversal theorem takes it. -/
theorem allOK_built (ps : List MatPattern) (evs : List Ev) (fuel : Nat)
    (M : Many MKey CharPred)
    (hb : manyBuild (fun p => some (matConstraints p)) (fun _ => ([] : List MKey))
      (charTree mkeyLt) matReq fuel true ps evs = some (.ok M)) : AllOK M.automaton ps :=
  matProg_built ps evs fuel M hb

end MatProg
end Pm
