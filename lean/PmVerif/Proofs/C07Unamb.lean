/-
Proofs/C07Unamb.lean — C07 (multiplicities), builder-independent part 1: unambiguity of a
constraint automaton.

* `StepTo σ a p s`, `PathFrom σ a x s`, `RunTo σ a s` — the runs of `a` under the truth
  assignment `σ` in the reading the traversal implements (`AccDet`): constraint transitions that
  hold are followed, the fallback transition unless the state is deterministic and some constraint
  transition fires.
* `Unamb σ a` — what duplicate-freeness of the traversal needs: (`ids`) at most one `σ`-reachable
  state accepts a given pattern id; (`par`) an accepting `σ`-reachable state is entered from at
  most one `σ`-reachable state; (`root`) an accepting root is never re-entered.
* `XInv Mx a` — a purely STRUCTURAL (no `σ`) sufficient condition, the invariant carried through
  the builder: two transitions of a state towards different targets are syntactically exclusive
  (`Excl`: their constraints are in the mutual-exclusion relation `Mx`, or the state is
  deterministic and exactly one of them is the fallback transition) or no pattern id is accepted
  below both targets; an id accepted at a state is not accepted again strictly below it; ids are
  recorded once per state. "Accepted at or below `x`" is `Below a x i`, i.e. `AccND` under the
  all-true assignment.
* `unamb_of_xinv` — `XInv Mx a` implies `Unamb σ a` for every `σ` that is lawful for `Mx`
  (`Lawful`: two constraints in `Mx` never hold together), by the first-divergence argument.
Everything lives in `namespace Pm.C07`.
-/
import PmVerif.Proofs.BuildCommon
import PmVerif.Proofs.BuildMerge
namespace Pm
namespace C07
open Automaton
variable {K P : Type}

/-! ### runs -/

/-- One step of a run: from `p` (weight `w` is existentially bound) along a listed transition
that the traversal follows under `σ`. -/
def StepTo (σ : Constraint K P → Bool) (a : Automaton K P) (p s : Nat) : Prop :=
  ∃ w t e, a.g.weight? p = some w ∧ a.g.edge? t = some e ∧ e.dst = s ∧
    ((t ∈ w.corder ∧ ∃ c, e.w = some c ∧ σ c = true) ∨
     (t ∈ w.eorder ∧ (w.det = false ∨ ¬ fires σ a w)))

/-- `σ`-paths, first step first. -/
inductive PathFrom (σ : Constraint K P → Bool) (a : Automaton K P) : Nat → Nat → Prop where
  | nil (x : Nat) : PathFrom σ a x x
  | cons {x y s : Nat} : StepTo σ a x y → PathFrom σ a y s → PathFrom σ a x s

/-- `s` is reached by a run from the root. -/
def RunTo (σ : Constraint K P → Bool) (a : Automaton K P) (s : Nat) : Prop :=
  PathFrom σ a a.root s

theorem PathFrom.snoc {σ : Constraint K P → Bool} {a : Automaton K P} {x y s : Nat}
    (h : PathFrom σ a x y) (hs : StepTo σ a y s) : PathFrom σ a x s := by
  induction h with
  | nil x => exact .cons hs (.nil _)
  | cons h1 _ ih => exact .cons h1 (ih hs)

theorem RunTo.root (σ : Constraint K P → Bool) (a : Automaton K P) : RunTo σ a a.root := .nil _

theorem RunTo.step {σ : Constraint K P → Bool} {a : Automaton K P} {p s : Nat}
    (h : RunTo σ a p) (hs : StepTo σ a p s) : RunTo σ a s := PathFrom.snoc h hs

/-! ### unambiguity -/

/-- What the traversal needs for duplicate-freeness under `σ`. -/
structure Unamb (σ : Constraint K P → Bool) (a : Automaton K P) : Prop where
  ids : ∀ s s' i, RunTo σ a s → RunTo σ a s' → a.Ids s i → a.Ids s' i → s = s'
  par : ∀ s p p' i, a.Ids s i → RunTo σ a p → RunTo σ a p' → StepTo σ a p s → StepTo σ a p' s →
    p = p'
  root : ∀ p i, a.Ids a.root i → RunTo σ a p → ¬ StepTo σ a p a.root

/-- Each pattern id is recorded at most once per state. -/
def IdsNodup (a : Automaton K P) : Prop :=
  ∀ s w, a.g.weight? s = some w → (w.matches_.map (·.1)).Nodup

/-! ### the structural invariant -/

/-- Ids accepted at or below `x`: acceptance when every constraint holds. -/
def Below (a : Automaton K P) (x i : Nat) : Prop := AccND (fun _ => true) a x i

/-- `σ` never makes two constraints of the mutual-exclusion relation true together. -/
def Lawful (Mx : Constraint K P → Constraint K P → Prop) (σ : Constraint K P → Bool) : Prop :=
  ∀ c1 c2, Mx c1 c2 → σ c1 = true → σ c2 = true → False

/-- Two transitions of `x` (given by their constraints) are syntactically exclusive. -/
def Excl (Mx : Constraint K P → Constraint K P → Prop) (a : Automaton K P) (x : Nat)
    (c1 c2 : Option (Constraint K P)) : Prop :=
  (∃ k1 k2, c1 = some k1 ∧ c2 = some k2 ∧ Mx k1 k2) ∨
  (IsDet a x ∧ ((c1 = none ∧ c2 ≠ none) ∨ (c1 ≠ none ∧ c2 = none)))

/-- The structural unambiguity invariant. -/
structure XInv (Mx : Constraint K P → Constraint K P → Prop) (a : Automaton K P) : Prop where
  sib : ∀ x d1 d2 c1 c2, HasEdge a x d1 c1 → HasEdge a x d2 c2 → d1 ≠ d2 →
    ¬ Excl Mx a x c1 c2 → ∀ i, Below a d1 i → Below a d2 i → False
  down : ∀ x i d c, a.Ids x i → HasEdge a x d c → ¬ Below a d i
  nodup : IdsNodup a

/-! ### from steps to edges -/

theorem StepTo.hasEdge {σ : Constraint K P → Bool} {a : Automaton K P} (ok : OrdersOK a)
    {p s : Nat} (h : StepTo σ a p s) : ∃ c, HasEdge a p s c := by
  obtain ⟨w, t, e, hw, he, hd, hor⟩ := h
  have hsrc : e.src = p := by
    rcases hor with ⟨ht, _⟩ | ⟨ht, _⟩
    · obtain ⟨e', he', hs, _⟩ := ok.corder_edge p w hw t ht
      rw [he] at he'; cases he'; exact hs
    · obtain ⟨e', he', hs, _⟩ := ok.eorder_edge p w hw t ht
      rw [he] at he'; cases he'; exact hs
  refine ⟨e.w, t, ?_⟩
  rw [he]
  cases e
  simp only at hsrc hd
  subst hsrc hd
  rfl

/-- A step gives acceptance below. -/
theorem StepTo.accBelow {σ : Constraint K P → Bool} {a : Automaton K P} {p s i : Nat}
    (h : StepTo σ a p s) (hb : Below a s i) : Below a p i := by
  obtain ⟨w, t, e, hw, he, hd, hor⟩ := h
  subst hd
  have ht : t ∈ w.corder ++ w.eorder := by
    rcases hor with ⟨ht, _⟩ | ⟨ht, _⟩
    · exact List.mem_append_left _ ht
    · exact List.mem_append_right _ ht
  exact AccND.step hw ht he (fun _ _ => rfl) hb

theorem PathFrom.accBelow {σ : Constraint K P → Bool} {a : Automaton K P} {x s i : Nat}
    (h : PathFrom σ a x s) (hi : a.Ids s i) : Below a x i := by
  induction h with
  | nil x => exact AccND.of_ids hi
  | cons h1 _ ih => exact h1.accBelow (ih hi)

/-- Two steps from the same state that both fire are not syntactically exclusive. -/
theorem not_excl_of_steps {Mx : Constraint K P → Constraint K P → Prop}
    {σ : Constraint K P → Bool} (hl : Lawful Mx σ) {a : Automaton K P} (ok : OrdersOK a)
    {x y y' : Nat} (h1 : StepTo σ a x y) (h2 : StepTo σ a x y') :
    ∃ c1 c2, HasEdge a x y c1 ∧ HasEdge a x y' c2 ∧ ¬ Excl Mx a x c1 c2 := by
  obtain ⟨w, t, e, hw, he, hd, hor⟩ := h1
  obtain ⟨w', t', e', hw', he', hd', hor'⟩ := h2
  rw [hw] at hw'; cases hw'
  have src : ∀ {t : Nat} {e : GEdge (Option (Constraint K P))}, a.g.edge? t = some e →
      t ∈ w.corder ∨ t ∈ w.eorder → e.src = x := by
    intro t e he hor
    rcases hor with ht | ht
    · obtain ⟨e2, he2, hs, _⟩ := ok.corder_edge x w hw t ht
      rw [he] at he2; cases he2; exact hs
    · obtain ⟨e2, he2, hs, _⟩ := ok.eorder_edge x w hw t ht
      rw [he] at he2; cases he2; exact hs
  have hs1 : e.src = x := src he (hor.elim (fun h => .inl h.1) (fun h => .inr h.1))
  have hs2 : e'.src = x := src he' (hor'.elim (fun h => .inl h.1) (fun h => .inr h.1))
  have hE1 : HasEdge a x y e.w := by
    refine ⟨t, ?_⟩
    rw [he]; cases e; simp only at hs1 hd; subst hs1 hd; rfl
  have hE2 : HasEdge a x y' e'.w := by
    refine ⟨t', ?_⟩
    rw [he']; cases e'; simp only at hs2 hd'; subst hs2 hd'; rfl
  refine ⟨e.w, e'.w, hE1, hE2, ?_⟩
  -- what a fired constraint transition of `x` gives
  have firesOf : ∀ {t : Nat} {e : GEdge (Option (Constraint K P))} {c : Constraint K P},
      a.g.edge? t = some e → t ∈ w.corder → e.w = some c → σ c = true → fires σ a w :=
    fun he ht hc hσ => ⟨_, ht, _, _, he, hc, hσ⟩
  -- an epsilon-order entry carries no constraint
  have epsNone : ∀ {t : Nat} {e : GEdge (Option (Constraint K P))}, a.g.edge? t = some e →
      t ∈ w.eorder → e.w = none := by
    intro t e he ht
    obtain ⟨e2, he2, _, hn⟩ := ok.eorder_edge x w hw t ht
    rw [he] at he2; cases he2
    cases hx : e.w with
    | none => rfl
    | some _ => rw [hx] at hn; cases hn
  rintro (⟨k1, k2, hk1, hk2, hm⟩ | ⟨⟨wd, hwd, hdet⟩, hcase⟩)
  · -- both are constraint transitions that hold, in `Mx`
    rcases hor with ⟨_, c, hc, hσ⟩ | ⟨ht, _⟩
    · rcases hor' with ⟨_, c', hc', hσ'⟩ | ⟨ht', _⟩
      · rw [hk1] at hc; cases hc
        rw [hk2] at hc'; cases hc'
        exact hl _ _ hm hσ hσ'
      · rw [epsNone he' ht'] at hk2; cases hk2
    · rw [epsNone he ht] at hk1; cases hk1
  · rw [hw] at hwd; cases hwd
    rcases hcase with ⟨hn1, hn2⟩ | ⟨hn1, hn2⟩
    · -- the first is the fallback, the second a constraint transition
      rcases hor with ⟨_, c, hc, _⟩ | ⟨_, hcond⟩
      · rw [hn1] at hc; cases hc
      · rcases hor' with ⟨ht', c', hc', hσ'⟩ | ⟨ht', _⟩
        · rcases hcond with hf | hnf
          · rw [hdet] at hf; cases hf
          · exact hnf (firesOf he' ht' hc' hσ')
        · exact hn2 (epsNone he' ht')
    · rcases hor' with ⟨_, c', hc', _⟩ | ⟨_, hcond⟩
      · rw [hn2] at hc'; cases hc'
      · rcases hor with ⟨ht, c, hc, hσ⟩ | ⟨ht, _⟩
        · rcases hcond with hf | hnf
          · rw [hdet] at hf; cases hf
          · exact hnf (firesOf he ht hc hσ)
        · exact hn1 (epsNone he ht)

/-! ### the first-divergence argument -/

section Div
variable {Mx : Constraint K P → Constraint K P → Prop} {σ : Constraint K P → Bool}
  {a : Automaton K P}

/-- Two `σ`-paths from the same state to states accepting `i` end in the same state. -/
theorem ids_unique (X : XInv Mx a) (hl : Lawful Mx σ) (ok : OrdersOK a) {i : Nat} :
    ∀ {x s s' : Nat}, PathFrom σ a x s → PathFrom σ a x s' → a.Ids s i → a.Ids s' i → s = s' := by
  intro x s s' h
  induction h generalizing s' with
  | nil x =>
    intro h' hi hi'
    cases h' with
    | nil => rfl
    | cons h1 h2 =>
      obtain ⟨c, hE⟩ := h1.hasEdge ok
      exact absurd (h2.accBelow hi') (X.down _ _ _ _ hi hE)
  | @cons x y s h1 h2 ih =>
    intro h' hi hi'
    cases h' with
    | nil =>
      obtain ⟨c, hE⟩ := h1.hasEdge ok
      exact absurd (h2.accBelow hi) (X.down _ _ _ _ hi' hE)
    | @cons _ y' _ h1' h2' =>
      by_cases hy : y = y'
      · subst hy
        exact ih h2' hi hi'
      · obtain ⟨c1, c2, hE1, hE2, hne⟩ := not_excl_of_steps hl ok h1 h1'
        exact (X.sib _ _ _ _ _ hE1 hE2 hy hne i (h2.accBelow hi) (h2'.accBelow hi')).elim

/-- A `σ`-path of at least one step from `x` to the accepting state `s`, given by its last
state `p` before `s`: the state `p` is determined. -/
theorem parent_unique (X : XInv Mx a) (hl : Lawful Mx σ) (ok : OrdersOK a) {i s : Nat}
    (hi : a.Ids s i) :
    ∀ {x p p' : Nat}, PathFrom σ a x p → StepTo σ a p s → PathFrom σ a x p' → StepTo σ a p' s →
      p = p' := by
  -- a path of at least one step from `y` to `s` puts `i` below `y`
  have below_of : ∀ {y q : Nat}, PathFrom σ a y q → StepTo σ a q s → Below a y i :=
    fun hp hs => (hp.snoc hs).accBelow hi
  -- `s` is not strictly below itself
  have nocycle : ∀ {q : Nat}, PathFrom σ a s q → StepTo σ a q s → False := by
    intro q hp hs
    cases hp with
    | nil =>
      obtain ⟨c, hE⟩ := hs.hasEdge ok
      exact X.down _ _ _ _ hi hE (AccND.of_ids hi)
    | cons h1 h2 =>
      obtain ⟨c, hE⟩ := h1.hasEdge ok
      exact X.down _ _ _ _ hi hE (below_of h2 hs)
  intro x p p' h
  induction h generalizing p' with
  | nil x =>
    intro hs h' hs'
    cases h' with
    | nil => rfl
    | @cons _ y _ h1 h2 =>
      by_cases hy : s = y
      · subst hy
        exact (nocycle h2 hs').elim
      · obtain ⟨c1, c2, hE1, hE2, hne⟩ := not_excl_of_steps hl ok hs h1
        exact (X.sib _ _ _ _ _ hE1 hE2 hy hne i (AccND.of_ids hi) (below_of h2 hs')).elim
  | @cons x y p h1 h2 ih =>
    intro hs h' hs'
    cases h' with
    | nil =>
      by_cases hy : y = s
      · subst hy
        exact (nocycle h2 hs).elim
      · obtain ⟨c1, c2, hE1, hE2, hne⟩ := not_excl_of_steps hl ok h1 hs'
        exact (X.sib _ _ _ _ _ hE1 hE2 hy hne i (below_of h2 hs) (AccND.of_ids hi)).elim
    | @cons _ y' _ h1' h2' =>
      by_cases hy : y = y'
      · subst hy
        exact ih hs h2' hs'
      · obtain ⟨c1, c2, hE1, hE2, hne⟩ := not_excl_of_steps hl ok h1 h1'
        exact (X.sib _ _ _ _ _ hE1 hE2 hy hne i (below_of h2 hs) (below_of h2' hs')).elim

/-- **The structural invariant implies unambiguity** under every lawful truth assignment. -/
theorem unamb_of_xinv (X : XInv Mx a) (hl : Lawful Mx σ) (ok : OrdersOK a) : Unamb σ a where
  ids s s' i h h' hi hi' := ids_unique X hl ok h h' hi hi'
  par s p p' i hi h h' hs hs' := parent_unique X hl ok hi h hs h' hs'
  root p i hi h hs := by
    cases h with
    | nil =>
      obtain ⟨c, hE⟩ := hs.hasEdge ok
      exact X.down _ _ _ _ hi hE (AccND.of_ids hi)
    | cons h1 h2 =>
      obtain ⟨c, hE⟩ := h1.hasEdge ok
      exact X.down _ _ _ _ hi hE ((h2.snoc hs).accBelow hi)

end Div

end C07
end Pm
