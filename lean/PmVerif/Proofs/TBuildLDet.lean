/-
Proofs/TBuildLDet.lean — `make_det` with the WEAKER guard E (namespace `Pm.TBL`).

`Automaton.makeDet` (Model/Builder.lean) refuses to determinise `s` as soon as one constraint
child of `s` is deterministic.  About 1 in 3000 real string builds trips that guard.  On every
such build found by the model-level search (> 10 000 disciplined lenient logs outside the guard)
the deterministic constraint child has NO fallback transition and neither has the fallback state
of `s`; then the copied transitions cannot shadow anything at the child.  `makeDetE` is `makeDet`
with the guard weakened to exactly that:

  guard E — every deterministic constraint child of `s` has an empty `epsilon_order`, and if
            there is such a child the fallback state of `s` has an empty `epsilon_order` too.

`makeDetE_spec`: `makeDetE` preserves the structural invariant, the root, the language of the
root and the determinisation invariant `DetOKE` — the statement `makeDet_spec` proves for the
strong guard.  `makeDetE_of_makeDet`, `makeDetL_of_makeDetE`: the three variants agree whenever
the stronger one succeeds.
-/
import PmVerif.Proofs.BuildDet
namespace Pm
namespace TBL
open Automaton
variable {K P : Type}

/-- Guard E fails: some constraint child of `s` (the targets of `cts`) is deterministic and it,
or the fallback state (weight `fw`), has a fallback transition. -/
def badDetChild (a : Automaton K P) (cts : List Nat) (fw : AState K) : Bool :=
  cts.any fun t =>
    match a.g.edge? t with
    | some e =>
      (match a.g.weight? e.dst with
       | some w => w.det && !(w.eorder.isEmpty && fw.eorder.isEmpty)
       | none => false)
    | none => false

/-- `make_det(state)` with guard E. -/
def makeDetE (a : Automaton K P) (s : Nat) : R (Automaton K P) :=
  match a.setDeterministic s with
  | .error e => .error e
  | .ok (a, wasDet) =>
    if wasDet then .ok a
    else
      match a.failNextState s with
      | .error e => .error e
      | .ok none => .ok a
      | .ok (some failState) =>
        match a.allTransitions failState, a.corderOf s, a.state failState with
        | .ok failTs, .ok cts, .ok fw =>
          if badDetChild a cts fw then
            .error (.guard "make_det: a deterministic constraint child has or would get a fallback transition")
          else a.makeDetLoop failTs fw.matches_ cts
        | .error e, _, _ => .error e
        | _, .error e, _ => .error e
        | _, _, .error e => .error e

/-- The condition guard E establishes for a constraint child `X`. -/
def EOK (b : Automaton K P) (X : Nat) (fw : AState K) : Prop :=
  ¬ IsDet b X ∨ (fw.eorder = [] ∧ ∃ wx, b.g.weight? X = some wx ∧ wx.eorder = [])

section Round
variable {σ : Constraint K P → Bool} {b b' : Automaton K P} {s F tε t X tgt : Nat}
  {c : Constraint K P} {fw : AState K}

/-- `RoundSpec.detEx` under guard E: the deterministic states other than `s` keep `DetOKE`; the
new case is `tgt` itself being deterministic — then it has no fallback transition at all. -/
theorem roundSpec_detEx_E (pre : RoundPre b s F tε t X c fw)
    (rs : RoundSpec b b' s F t X tgt c) (hX : EOK b X fw) (h : DetEx σ b s) :
    DetEx σ b' s := by
  intro z w hz hw hd hf pid hea
  by_cases hzt : z = tgt
  · -- `tgt` is deterministic: it has no epsilon edge
    subst hzt
    have hdX : IsDet b X := rs.nondet ⟨w, hw, hd⟩
    rcases hX with hX | ⟨hfe, wx, hwx, hxe⟩
    · exact absurd hdX hX
    · exfalso
      obtain ⟨x, e, he, hsrc, hn, _⟩ := hea
      have noX : ∀ x0 e0, b.g.edge? x0 = some e0 → e0.src = X → e0.w = none → False := by
        intro x0 e0 he0 hs0 hn0
        have hm := (mem_eorder_iff pre.inv.ok hwx).2 ⟨e0, he0, hs0, hn0⟩
        rw [hxe] at hm; cases hm
      have noF : ∀ x0 e0, b.g.edge? x0 = some e0 → e0.src = F → e0.w = none → False := by
        intro x0 e0 he0 hs0 hn0
        have hm := (mem_eorder_iff pre.inv.ok pre.wtF).2 ⟨e0, he0, hs0, hn0⟩
        rw [hfe] at hm; cases hm
      rcases rs.new x e he with h1 | h1 | ⟨_, _, x0, h1 | h1⟩
      · subst h1
        rw [rs.edge_t] at he; cases he
        cases hn
      · rcases rs.cases with hc | hdead
        · exact noX x e h1 (hsrc.trans hc) hn
        · exact hdead (hsrc ▸ pre.inv.ok.src_live h1)
      · exact noX x0 _ h1 rfl hn
      · exact noF x0 _ h1 rfl hn
  · have hw0 : b.g.weight? z = some w := (rs.wt_ne z hzt).symm.trans hw
    have hedge : ∀ x e, b'.g.edge? x = some e → e.src = z →
        b.g.edge? x = some e ∧ e.dst ≠ tgt := by
      intro x e he hsrc
      have hxt : x ≠ t := by
        intro hx; subst hx
        rw [rs.edge_t] at he; cases he
        exact hz hsrc.symm
      refine ⟨?_, fun hd => hxt (rs.only x e he hd)⟩
      rcases rs.new x e he with h1 | h1 | ⟨h1, _⟩
      · exact absurd h1 hxt
      · exact h1
      · exact absurd (hsrc.symm.trans h1) hzt
    have hf0 : Fires σ b z := by
      obtain ⟨x, e, c', he, hsrc, hc, hσ⟩ := hf
      exact ⟨x, e, c', (hedge x e he hsrc).1, hsrc, hc, hσ⟩
    have hea0 : EAcc σ b z pid := by
      obtain ⟨x, e, he, hsrc, hn, hacc⟩ := hea
      obtain ⟨h1, h2⟩ := hedge x e he hsrc
      exact ⟨x, e, h1, hsrc, hn, (rs.lang_ne pre h2 pid).1 hacc⟩
    obtain ⟨x, e, c', he, hsrc, hc, hσ, hacc⟩ := h z w hz hw0 hd hf0 pid hea0
    have hxt : x ≠ t := by
      intro hx; subst hx
      rw [pre.edge_t] at he; cases he
      exact hz hsrc.symm
    have he' := rs.old x e hxt he
    have hd' : e.dst ≠ tgt := fun hd => hxt (rs.only x e he' hd)
    exact ⟨x, e, c', he', hsrc, hc, hσ, (rs.lang_ne pre hd' pid).2 hacc⟩

end Round

/-! ### The loop invariant (as `Automaton.LoopInv`, with `EOK` for the pending children) -/

structure LoopInvE (σ : Constraint K P → Bool) (a0 b : Automaton K P) (s F tε : Nat)
    (ws fw : AState K) (rest : List Nat) : Prop where
  inv : Inv b
  root : b.root = a0.root
  wts : b.g.weight? s = some ws
  wtF : b.g.weight? F = some fw
  edge_ε : b.g.edge? tε = some ⟨s, F, none⟩
  todo : ∀ t ∈ rest, ∃ X c, b.g.edge? t = some ⟨s, X, some c⟩ ∧ EOK b X fw
  done : ∀ t ∈ ws.corder, t ∉ rest → ∃ e, b.g.edge? t = some e ∧
    (∀ pid, AccND σ b F pid → AccND σ b e.dst pid) ∧
    (∀ x e', b.g.edge? x = some e' → e'.dst = e.dst → x = t)
  rootSrc : RootSrc b
  rootLang : ∀ pid, AccND σ b b.root pid ↔ AccND σ a0 a0.root pid
  detEx : DetEx σ b s

section Loop
variable {σ : Constraint K P → Bool} {a0 b b' : Automaton K P} {s F tε t X tgt : Nat}
  {c : Constraint K P} {ws fw : AState K} {rest : List Nat}

theorem LoopInvE.step (li : LoopInvE σ a0 b s F tε ws fw (t :: rest)) (hnd : t ∉ rest)
    (pre : RoundPre b s F tε t X c fw) (rs : RoundSpec b b' s F t X tgt c) :
    LoopInvE σ a0 b' s F tε ws fw rest := by
  have hX : EOK b X fw := by
    obtain ⟨X', c', he, hn⟩ := li.todo t List.mem_cons_self
    rw [pre.edge_t] at he; cases he; exact hn
  obtain ⟨rs', hroot⟩ := rs.rootSrc pre li.rootSrc
  refine ⟨rs.inv, rs.root.trans li.root, (rs.wt_ne s (Ne.symm rs.nes)).trans li.wts,
    (rs.wt_ne F (Ne.symm rs.neF)).trans li.wtF, rs.old tε _ pre.tε_ne_t pre.edge_ε, ?_, ?_, rs',
    ?_, roundSpec_detEx_E pre rs hX li.detEx⟩
  · intro t' ht'
    have hne : t' ≠ t := fun h => hnd (h ▸ ht')
    obtain ⟨X', c', he, hn⟩ := li.todo t' (List.mem_cons_of_mem _ ht')
    have he' := rs.old t' _ hne he
    have hd : X' ≠ tgt := fun hd => hne (rs.only t' _ he' hd)
    refine ⟨X', c', he', ?_⟩
    rcases hn with hn | ⟨hfe, wx, hwx, hxe⟩
    · left
      rintro ⟨w, hw, hdw⟩
      exact hn ⟨w, (rs.wt_ne X' hd).symm.trans hw, hdw⟩
    · right
      exact ⟨hfe, wx, (rs.wt_ne X' hd).trans hwx, hxe⟩
  · intro t1 ht1 hnr
    by_cases h1 : t1 = t
    · subst h1
      exact ⟨_, rs.edge_t, fun pid h => (rs.lang_tgt pre pid).2
        (.inr ((rs.lang_ne pre (Ne.symm rs.neF) pid).1 h)), fun x e' he' hd => rs.only x e' he' hd⟩
    · obtain ⟨e, he, hsub, honly⟩ := li.done t1 ht1 (by
        intro hm; rcases List.mem_cons.1 hm with h | h
        · exact h1 h
        · exact hnr h)
      have he' := rs.old t1 e h1 he
      have hd : e.dst ≠ tgt := fun hd => h1 (rs.only t1 e he' hd)
      have hsrc : e.src = s := by
        obtain ⟨e2, he2, hs, _⟩ := li.inv.ok.corder_edge s ws li.wts t1 ht1
        rw [he] at he2; cases he2; exact hs
      refine ⟨e, he', fun pid h => (rs.lang_ne pre hd pid).2
        (hsub pid ((rs.lang_ne pre (Ne.symm rs.neF) pid).1 h)), fun x e' hx hdd => ?_⟩
      rcases rs.new x e' hx with h2 | h2 | ⟨_, _, x0, h2 | h2⟩
      · subst h2
        rw [rs.edge_t] at hx; cases hx
        exact absurd hdd.symm hd
      · exact honly x e' h2 hdd
      · have hx0 := honly x0 ⟨X, e'.dst, e'.w⟩ h2 hdd
        subst hx0
        rw [he] at h2; cases h2
        exact absurd hsrc pre.X_ne_s
      · have hx0 := honly x0 ⟨F, e'.dst, e'.w⟩ h2 hdd
        subst hx0
        rw [he] at h2; cases h2
        exact absurd hsrc pre.F_ne_s
  · intro pid
    rw [rs.root]
    exact (rs.lang_ne pre hroot pid).trans (li.rootLang pid)

theorem LoopInvE.detAt (li : LoopInvE σ a0 b s F tε ws fw []) (hε : ws.eorder = [tε]) :
    DetAt σ b s := by
  intro w hw _ hf pid hea
  rw [li.wts] at hw; cases hw
  obtain ⟨x, e, he, hsrc, hn, hacc⟩ := hea
  have hx : x ∈ ws.eorder := (mem_eorder_iff li.inv.ok li.wts).2 ⟨e, he, hsrc, hn⟩
  rw [hε, List.mem_singleton] at hx; subst hx
  rw [li.edge_ε] at he; cases he
  obtain ⟨t, e, c, he, hsrc, hc, hσ⟩ := hf
  have ht : t ∈ ws.corder := (mem_corder_iff li.inv.ok li.wts).2 ⟨e, he, hsrc, by simp [hc]⟩
  obtain ⟨e', he', hsub, _⟩ := li.done t ht List.not_mem_nil
  rw [he] at he'; cases he'
  exact ⟨t, e, c, he, hsrc, hc, hσ, hsub pid hacc⟩

end Loop

theorem makeDetLoop_invE {σ : Constraint K P → Bool} {a0 : Automaton K P} {s F tε : Nat}
    {ws fw : AState K} : ∀ (rest : List Nat) {b a' : Automaton K P},
    LoopInvE σ a0 b s F tε ws fw rest → rest.Nodup →
    b.makeDetLoop (fw.corder ++ fw.eorder) fw.matches_ rest = .ok a' →
    LoopInvE σ a0 a' s F tε ws fw []
  | [], b, a', li, _, h => by
    unfold makeDetLoop at h; cases h; exact li
  | t :: rest, b, a', li, hnd, h => by
    unfold makeDetLoop at h
    split at h
    · cases h
    · rename_i b1 tgt hsp
      split at h
      · cases h
      · rename_i b2 hcp
        split at h
        · cases h
        · rename_i b3 hm
          rw [List.nodup_cons] at hnd
          obtain ⟨X, c, he, _⟩ := li.todo t List.mem_cons_self
          have pre : RoundPre b s F tε t X c fw := ⟨li.inv, he, li.edge_ε, li.wtF⟩
          have su := splitU_of_splitTarget pre hsp
          have rs := roundSpec_of pre su hcp hm
          exact makeDetLoop_invE rest (li.step hnd.1 pre rs) hnd.2 h

/-- What guard E gives for each constraint transition of `s`. -/
theorem eok_of_not_bad {a : Automaton K P} {cts : List Nat} {fw : AState K}
    (h : ¬ badDetChild a cts fw = true) {t : Nat} (ht : t ∈ cts)
    {e : GEdge (Option (Constraint K P))} (he : a.g.edge? t = some e) : EOK a e.dst fw := by
  by_cases hd : IsDet a e.dst
  · right
    obtain ⟨wx, hwx, hdx⟩ := hd
    have hb : ¬ (wx.det && !(wx.eorder.isEmpty && fw.eorder.isEmpty)) = true := by
      intro hb
      apply h
      unfold badDetChild
      rw [List.any_eq_true]
      exact ⟨t, ht, by simp only [he, hwx]; exact hb⟩
    rw [hdx] at hb
    have h2 : (wx.eorder.isEmpty && fw.eorder.isEmpty) = true := by
      cases hx : (wx.eorder.isEmpty && fw.eorder.isEmpty) with
      | true => rfl
      | false => exact absurd (by rw [hx]; rfl) hb
    rw [Bool.and_eq_true, List.isEmpty_iff, List.isEmpty_iff] at h2
    exact ⟨h2.2, wx, hwx, h2.1⟩
  · exact .inl hd

/-- **`make_det` with guard E** preserves the structural invariant, the root, the
root-is-a-source invariant, the language of the root and the determinisation invariant. -/
theorem makeDetE_spec [DecidableEq K] [DecidableEq P] {σ : Constraint K P → Bool}
    {a a' : Automaton K P} {s : Nat}
    (inv : Inv a) (rs : RootSrc a) (dok : DetOKE σ a) (h : makeDetE a s = .ok a') :
    Inv a' ∧ a'.root = a.root ∧ RootSrc a' ∧
    (∀ pid, AccND σ a' a'.root pid ↔ AccND σ a a.root pid) ∧ DetOKE σ a' := by
  unfold makeDetE at h
  split at h
  · cases h
  · rename_i a0 wd hsd
    obtain ⟨w, rfl, r⟩ := setDeterministic_reflag inv hsd
    split at h
    · rename_i hdet
      cases h
      exact r.final inv rs dok (r.detAt_of_wasDet inv dok hdet)
    · split at h
      · cases h
      · rename_i hfn
        cases h
        obtain ⟨w0, hw0, hr | ⟨_, _, _, _, hr⟩⟩ := failNextState_ok hfn
        · rw [r.wt0] at hw0; cases hw0
          exact r.final inv rs dok (r.detAt_of_noEps hr.2)
        · cases hr
      · rename_i F hfn
        obtain ⟨ws, hws, hr | ⟨tε, eε, hε, heε, hr⟩⟩ := failNextState_ok hfn
        · cases hr.1
        · cases hr
          split at h
          · rename_i failTs cts fw hft hcts hfw
            obtain ⟨fw', hfw', rfl⟩ := allTransitions_ok_iff.1 hft
            obtain ⟨ws', hws', rfl⟩ := corderOf_ok_iff.1 hcts
            rw [state_ok_iff] at hfw
            rw [hfw] at hfw'; cases hfw'
            rw [hws] at hws'; cases hws'
            split at h
            · cases h
            · rename_i hcd
              have hε' : a0.g.edge? tε = some ⟨s, eε.dst, none⟩ := by
                obtain ⟨e, he, hsrc, hnone⟩ :=
                  r.inv.ok.eorder_edge s ws hws tε (by rw [hε]; exact List.mem_singleton.2 rfl)
                rw [heε] at he; cases he
                rw [heε]
                cases eε with
                | mk src dst wt =>
                  simp only at hsrc
                  subst hsrc
                  cases wt with
                  | none => rfl
                  | some _ => cases hnone
              have li : LoopInvE σ a0 a0 s eε.dst tε ws fw ws.corder := by
                refine ⟨r.inv, rfl, hws, hfw, hε', fun t ht => ?_, fun t ht hn => absurd ht hn,
                  r.rootSrc rs, fun _ => Iff.rfl, r.detEx inv dok⟩
                obtain ⟨e, he, hsrc, hsome⟩ := r.inv.ok.corder_edge s ws hws t ht
                obtain ⟨c, hc⟩ := Option.isSome_iff_exists.1 hsome
                refine ⟨e.dst, c, ?_, eok_of_not_bad hcd ht he⟩
                rw [he]
                cases e
                simp only at hsrc hc
                subst hsrc hc
                rfl
              have hnd : ws.corder.Nodup := (List.nodup_append.1 (r.inv.ok.nodup s ws hws)).1
              have li' := makeDetLoop_invE _ li hnd h
              exact ⟨li'.inv, li'.root.trans r.root, li'.rootSrc,
                fun pid => (li'.rootLang pid).trans (by rw [r.root]; exact r.acc_iff inv _ pid),
                detOKE_of_ex_at li'.detEx (li'.detAt hε)⟩
          · cases h
          · cases h
          · cases h

/-! ### the three variants agree where the stronger one succeeds -/

/-- Guard E is weaker than the guard of `makeDet`. -/
theorem makeDetE_of_makeDet [DecidableEq K] [DecidableEq P] {a a' : Automaton K P} {s : Nat}
    (h : a.makeDet s = .ok a') : makeDetE a s = .ok a' := by
  unfold makeDet makeDetWith at h
  unfold makeDetE
  cases hsd : a.setDeterministic s with
  | error e => rw [hsd] at h; cases h
  | ok v =>
    obtain ⟨a0, wasDet⟩ := v
    rw [hsd] at h
    simp only at h ⊢
    by_cases hw : wasDet = true
    · rw [if_pos hw] at h ⊢; exact h
    · rw [if_neg hw] at h ⊢
      cases hf : a0.failNextState s with
      | error e => rw [hf] at h; cases h
      | ok o =>
        rw [hf] at h
        cases o with
        | none => exact h
        | some failState =>
          simp only at h ⊢
          cases h1 : a0.allTransitions failState with
          | error e => rw [h1] at h; simp only at h; cases h
          | ok failTs =>
            cases h2 : a0.corderOf s with
            | error e => rw [h1, h2] at h; simp only at h; cases h
            | ok cts =>
              cases h3 : a0.state failState with
              | error e => rw [h1, h2, h3] at h; simp only at h; cases h
              | ok fw =>
                rw [h1, h2, h3] at h
                simp only at h ⊢
                split at h
                · cases h
                · rename_i hcd
                  have hb : ¬ badDetChild a0 cts fw = true := by
                    intro hb
                    apply hcd
                    unfold badDetChild at hb
                    rw [List.any_eq_true] at hb ⊢
                    obtain ⟨t, ht, hbt⟩ := hb
                    refine ⟨t, ht, ?_⟩
                    cases he : a0.g.edge? t with
                    | none => rw [he] at hbt; cases hbt
                    | some e =>
                      rw [he] at hbt
                      simp only at hbt ⊢
                      cases hwx : a0.g.weight? e.dst with
                      | none => rw [hwx] at hbt; cases hbt
                      | some wx =>
                        rw [hwx] at hbt
                        simp only [Bool.and_eq_true] at hbt
                        exact hbt.1
                  rw [if_neg hb]
                  simpa using h

/-- Whenever `makeDetE` succeeds, the unguarded `makeDetL` (the Rust code) does the same. -/
theorem makeDetL_of_makeDetE [DecidableEq K] [DecidableEq P] {a a' : Automaton K P} {s : Nat}
    (h : makeDetE a s = .ok a') : a.makeDetL s = .ok a' := by
  unfold makeDetE at h
  unfold makeDetL
  cases hsd : a.setDeterministic s with
  | error e => rw [hsd] at h; cases h
  | ok v =>
    obtain ⟨a0, wasDet⟩ := v
    rw [hsd] at h
    simp only at h ⊢
    by_cases hw : wasDet = true
    · rw [if_pos hw] at h ⊢; exact h
    · rw [if_neg hw] at h ⊢
      cases hf : a0.failNextState s with
      | error e => rw [hf] at h; cases h
      | ok o =>
        rw [hf] at h
        cases o with
        | none => exact h
        | some failState =>
          simp only at h ⊢
          cases h1 : a0.allTransitions failState with
          | error e => rw [h1] at h; simp only at h; cases h
          | ok failTs =>
            cases h2 : a0.corderOf s with
            | error e => rw [h1, h2] at h; simp only at h; cases h
            | ok cts =>
              cases h3 : a0.state failState with
              | error e => rw [h1, h2, h3] at h; simp only at h; cases h
              | ok fw =>
                rw [h1, h2, h3] at h
                simp only at h ⊢
                split at h
                · cases h
                · exact h

end TBL
end Pm
