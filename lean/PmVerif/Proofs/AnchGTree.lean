/-
Proofs/AnchGTree.lean — T-RUN-ANCH-PG: the decomposition `pgTree` is valid and faithful
(`Automaton.TreeOK`) for the adjusted anchored truth assignment `pgSigmaAnch' h r`, at every
anchor and with no boundness hypotheses: closed forms of `pgSigmaAnch`/`pgSigmaAnch'` on
`isNotEqual` constraints, the conditioning law of `pgCond` for `pgSigmaAnch'`, and the finding
that `pgSigmaAnch` itself does not satisfy `TreeOK` (one-key `isNotEqual` on an undefined key).
-/
import PmVerif.Proofs.AnchGDefs
import PmVerif.Props.TPG
namespace Pm
namespace AnchG
open CTree

theorem mapM_opt_some {α β : Type} {f : α → Option β} {l : List α} {vs : List β}
    (h : l.mapM f = some vs) :
    (∀ k ∈ l, ∃ u, f k = some u ∧ u ∈ vs) ∧ (∀ u ∈ vs, ∃ k ∈ l, f k = some u) := by
  induction l generalizing vs with
  | nil =>
    simp only [List.mapM_nil] at h
    cases h
    simp
  | cons a as ih =>
    rw [List.mapM_cons] at h
    cases ha : f a with
    | none => rw [ha] at h; cases h
    | some b =>
      rw [ha] at h
      cases has : as.mapM f with
      | none => rw [has] at h; cases h
      | some bs =>
        rw [has] at h
        cases h
        obtain ⟨i1, i2⟩ := ih has
        constructor
        · intro k hk
          rcases List.mem_cons.1 hk with rfl | hk
          · exact ⟨b, ha, List.mem_cons_self ..⟩
          · obtain ⟨u, hu, hm⟩ := i1 k hk
            exact ⟨u, hu, List.mem_cons_of_mem _ hm⟩
        · intro u hu
          rcases List.mem_cons.1 hu with rfl | hu
          · exact ⟨a, List.mem_cons_self .., ha⟩
          · obtain ⟨k, hk, hm⟩ := i2 u hu
            exact ⟨k, List.mem_cons_of_mem _ hk, hm⟩

theorem mapM_opt_none {α β : Type} {f : α → Option β} {l : List α}
    (h : l.mapM f = none) : ∃ k ∈ l, f k = none := by
  induction l with
  | nil => simp only [List.mapM_nil] at h; cases h
  | cons a as ih =>
    rw [List.mapM_cons] at h
    cases ha : f a with
    | none => exact ⟨a, List.mem_cons_self .., ha⟩
    | some b =>
      rw [ha] at h
      cases has : as.mapM f with
      | none =>
        obtain ⟨k, hk, hn⟩ := ih has
        exact ⟨k, List.mem_cons_of_mem _ hk, hn⟩
      | some bs => rw [has] at h; cases h

/-- Closed form of `pgSigmaAnch` on an `isNotEqual` constraint with at least one key. -/
theorem sigma_ne_iff (h : PortGraph) (r n : Nat) (first : PGKey) (others : List PGKey) :
    pgSigmaAnch h r ⟨.isNotEqual n, first :: others⟩ = true ↔
      ∃ v, pgVal h r first = some v ∧ ∀ k ∈ others, ∃ u, pgVal h r k = some u ∧ u ≠ v := by
  unfold pgSigmaAnch
  simp only
  rw [List.mapM_cons]
  cases hf : pgVal h r first with
  | none => simp
  | some v =>
    cases hm : others.mapM (pgVal h r) with
    | none =>
      obtain ⟨k, hk, hn⟩ := mapM_opt_none hm
      simp only [Option.bind_eq_bind, Option.bind_some, Option.bind_none, Bool.false_eq_true,
        false_iff]
      rintro ⟨v', hv', hall⟩
      obtain ⟨u, hu, -⟩ := hall k hk
      rw [hn] at hu; cases hu
    | some vs =>
      obtain ⟨i1, i2⟩ := mapM_opt_some hm
      simp only [Option.bind_eq_bind, Option.bind_some, pure, pgCheck, beq_iff_eq,
        Option.some.injEq, Bool.not_eq_true', Option.some.injEq]
      constructor
      · intro hc
        refine ⟨v, rfl, fun k hk => ?_⟩
        obtain ⟨u, hu, hm⟩ := i1 k hk
        refine ⟨u, hu, ?_⟩
        rintro rfl
        simp [hm] at hc
      · rintro ⟨v', hv', hall⟩
        cases hv'
        cases hc : vs.contains v with
        | false => rfl
        | true =>
          have : v ∈ vs := by simpa using hc
          obtain ⟨k, hk, hkv⟩ := i2 v this
          obtain ⟨u, hu, hne⟩ := hall k hk
          rw [hkv] at hu; cases hu
          exact absurd rfl hne

theorem cornerAt_ne_iff (h : PortGraph) (r n : Nat) (first : PGKey) (others : List PGKey) :
    pgCornerAt h r ⟨.isNotEqual n, first :: others⟩ = true ↔
      others = [] ∧ pgVal h r first = none := by
  unfold pgCornerAt
  cases others with
  | nil => simp
  | cons k ks => simp

/-- Closed form of `pgSigmaAnch'` on an `isNotEqual` constraint with at least one key. -/
theorem sigma'_ne_iff (h : PortGraph) (r n : Nat) (first : PGKey) (others : List PGKey) :
    pgSigmaAnch' h r ⟨.isNotEqual n, first :: others⟩ = true ↔
      (others = [] ∧ pgVal h r first = none) ∨
      ∃ v, pgVal h r first = some v ∧ ∀ k ∈ others, ∃ u, pgVal h r k = some u ∧ u ≠ v := by
  unfold pgSigmaAnch'
  rw [Bool.or_eq_true, cornerAt_ne_iff, sigma_ne_iff]

/-- A one-key `isNotEqual` constraint is always true under `pgSigmaAnch'`. -/
theorem sigma'_one_key (h : PortGraph) (r n : Nat) (first : PGKey) :
    pgSigmaAnch' h r ⟨.isNotEqual n, [first]⟩ = true := by
  rw [sigma'_ne_iff]
  cases hf : pgVal h r first with
  | none => exact Or.inl ⟨rfl, rfl⟩
  | some v => exact Or.inr ⟨v, rfl, fun k hk => by cases hk⟩

/-- What `pgCond` computes on an `isNotEqual` constraint with at least one key: the keys of
`others` that no satisfied constraint on `first` covers. -/
theorem pgCond_ne_spec (n : Nat) (first : PGKey) (others : List PGKey) (S : List PGCons) :
    ∃ removed : List PGKey,
      (∀ k, k ∈ removed ↔ k ∈ others ∧ ∀ s ∈ S, ¬ pgCovered first s k) ∧
      pgCond ⟨.isNotEqual n, first :: others⟩ S =
        if removed.isEmpty then none else some ⟨.isNotEqual removed.length, first :: removed⟩ := by
  refine ⟨_, fun k => ?_, rfl⟩
  refine (pg_mem_removed_fold first S _ k).trans ?_
  rw [mem_insertKeySet_fold]
  simp

/-- **Pointwise conditioning law of the port-graph family for the anchored assignment**
`pgSigmaAnch'` — no boundness hypotheses. -/
theorem pgCond_law_anch (h : PortGraph) (r : Nat) (c : PGCons) (S : List PGCons)
    (hne : c.isNE = true) (hS : ∀ s ∈ S, s.isNE = true ∧ pgSigmaAnch' h r s = true) :
    (pgCond c S = none → pgSigmaAnch' h r c = true) ∧
    (∀ c', pgCond c S = some c' → pgSigmaAnch' h r c' = pgSigmaAnch' h r c) := by
  obtain ⟨pred, args⟩ := c
  obtain ⟨n, hn⟩ := (PGCons.isNE_iff _).1 hne
  simp only at hn
  subst hn
  cases args with
  | nil =>
    refine ⟨fun h => ?_, fun c' h => ?_⟩
    · simp [pgCond] at h
    · simp only [pgCond, Option.some.injEq] at h
      subst h; rfl
  | cons first others =>
    obtain ⟨removed, hrem, hcond⟩ := pgCond_ne_spec n first others S
    rw [hcond]
    -- covered keys are defined, as is `first`, and their values differ
    have hcov : ∀ k, k ∈ others → k ∉ removed →
        ∃ v u, pgVal h r first = some v ∧ pgVal h r k = some u ∧ u ≠ v := by
      intro k hk hnr
      have h1 : ¬ ∀ s ∈ S, ¬ pgCovered first s k := fun h => hnr ((hrem k).2 ⟨hk, h⟩)
      have h2 : ∃ s ∈ S, pgCovered first s k := by
        apply Classical.byContradiction
        intro hne
        exact h1 (fun s hs hc => hne ⟨s, hs, hc⟩)
      obtain ⟨s, hs, os, hargs, hkos⟩ := h2
      obtain ⟨hsne, hsσ⟩ := hS s hs
      obtain ⟨n', hn'⟩ := (PGCons.isNE_iff _).1 hsne
      obtain ⟨sp, sargs⟩ := s
      simp only at hargs hn'
      subst hargs hn'
      rcases (sigma'_ne_iff h r n' first os).1 hsσ with ⟨hnil, -⟩ | ⟨v, hv, hall⟩
      · rw [hnil] at hkos; cases hkos
      · obtain ⟨u, hu, hne⟩ := hall k hkos
        exact ⟨v, u, hv, hu, hne⟩
    split
    · next hemp =>
      have hnil : removed = [] := by simpa using hemp
      refine ⟨fun _ => ?_, fun c' h => by cases h⟩
      rw [sigma'_ne_iff]
      cases others with
      | nil =>
        cases hf : pgVal h r first with
        | none => exact Or.inl ⟨rfl, rfl⟩
        | some v => exact Or.inr ⟨v, rfl, fun k hk => by cases hk⟩
      | cons k0 ks =>
        right
        obtain ⟨v, -, hv, -, -⟩ := hcov k0 (List.mem_cons_self ..) (by rw [hnil]; simp)
        refine ⟨v, hv, fun k hk => ?_⟩
        obtain ⟨v', u, hv', hu, hne⟩ := hcov k hk (by rw [hnil]; simp)
        rw [hv] at hv'; cases hv'
        exact ⟨u, hu, hne⟩
    · next hemp =>
      have hnn : removed ≠ [] := by simpa using hemp
      refine ⟨fun h => (by cases h), ?_⟩
      intro c' hc'
      cases hc'
      rw [Bool.eq_iff_iff, sigma'_ne_iff, sigma'_ne_iff]
      constructor
      · rintro (⟨hnil, -⟩ | ⟨v, hv, hall⟩)
        · exact absurd hnil hnn
        · right
          refine ⟨v, hv, fun k hk => ?_⟩
          by_cases hr : k ∈ removed
          · exact hall k hr
          · obtain ⟨v', u, hv', hu, hne⟩ := hcov k hk hr
            rw [hv] at hv'; cases hv'
            exact ⟨u, hu, hne⟩
      · rintro (⟨hnil, -⟩ | ⟨v, hv, hall⟩)
        · exfalso
          cases removed with
          | nil => exact hnn rfl
          | cons k ks =>
            have := ((hrem k).1 (List.mem_cons_self ..)).1
            rw [hnil] at this; cases this
        · right
          exact ⟨v, hv, fun k hk => hall k ((hrem k).1 hk).1⟩

/-- Powerset branch: faithfulness for `pgSigmaAnch' h r`. -/
theorem pgTree_powerset_anch {cs : List PGCons} {fuel : Nat} {t : CTree PGCons}
    (ht : pgTree cs fuel = some t)
    (hhead : ∀ x xs, sortWithIndices pgConsLe cs = x :: xs → x.1.isNE = true)
    (h : PortGraph) (r : Nat) :
    ∀ i ∈ t.allLabels, ∀ c, cs[i]? = some c →
      (t.reachLabel (pgSigmaAnch' h r) i = true ↔ pgSigmaAnch' h r c = true) := by
  cases hs : sortWithIndices pgConsLe cs with
  | nil =>
    have : cs = [] := Classical.byContradiction fun hne => sortWithIndices_ne_nil _ hne hs
    subst this
    cases ht
    exact (pgTree_new_clauses [] _).2
  | cons x xs =>
    rcases pgTree_cons_cases (fuel := fuel) hs with ⟨-, ht'⟩ | ⟨hne, -⟩
    · rw [ht'] at ht
      obtain ⟨t0, ht0, rfl⟩ := Option.map_eq_some_iff.1 ht
      intro i hi c hc
      rw [allLabels_makeDet] at hi
      rw [reachLabel_makeDet]
      obtain ⟨c', hc'⟩ := withPowerset_valid ht0 i hi
      have hc'' := (mem_sortWithIndices pgConsLe cs c' i).1 (pgKept_sub cs x.1 _ hc')
      have : c' = c := Option.some.inj (hc''.symm.trans hc)
      subst this
      have hP : ∀ s, (∃ j, (s, j) ∈ pgKept cs x.1) → s.isNE = true := by
        rintro s ⟨j, hj⟩
        exact pgKept_isNE cs x.1 _ hj
      have law : CondLawOn pgCond (pgSigmaAnch' h r) (fun c => ∃ i, (c, i) ∈ pgKept cs x.1) := by
        intro c S hc hSP hS
        exact pgCond_law_anch h r c S (hP c hc)
          (fun s hs => ⟨hP s (hSP s hs), hS s hs⟩)
      exact withPowerset_faithful ht0 law (pgKept_nodup cs x.1) hc'
    · rw [hhead x xs hs] at hne; cases hne

/-- `pgTree` is valid and faithful for the adjusted anchored assignment `pgSigmaAnch' h r`,
at every anchor and for every fuel. -/
theorem treeOK_sigma' (h : PortGraph) (r : Nat) (fuel : Nat) :
    Automaton.TreeOK (fun cs => pgTree cs fuel) (pgSigmaAnch' h r) := by
  intro cs t ht
  refine ⟨tpg_tree_valid cs fuel t ht, ?_⟩
  cases hs : sortWithIndices pgConsLe cs with
  | nil =>
    refine tpg_tree_faithful_mutex cs fuel t ht (fun x xs hx => ?_) _
    rw [hs] at hx; cases hx
  | cons y ys =>
    cases hy : y.1.isNE with
    | true =>
      refine pgTree_powerset_anch ht (fun x xs hx => ?_) h r
      rw [hs] at hx; cases hx
      exact hy
    | false =>
      refine tpg_tree_faithful_mutex cs fuel t ht (fun x xs hx => ?_) _
      rw [hs] at hx; cases hx
      exact (PGCons.isNE_false_iff _).1 hy

/-- `pgTree` is not faithful for `pgSigmaAnch` itself on a one-key `isNotEqual` constraint whose
key is undefined. -/
theorem treeOK_sigma_fails :
    ¬ Automaton.TreeOK (fun cs => pgTree cs 10) (pgSigmaAnch ⟨[some ⟨0, 0⟩], []⟩ 0) := by
  intro hok
  have h1 := (hok [⟨.isNotEqual 0, [.along 0 ⟨.out, 0⟩ 5]⟩]
    { nodes := [{ labels := [0], children := [] }], makeDet := true } (by decide)).2
      0 (by decide) _ rfl
  have h2 := h1.1 (by decide)
  revert h2
  decide

end AnchG
end Pm
