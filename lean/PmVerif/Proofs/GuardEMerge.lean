/-
Proofs/GuardEMerge.lean — the MERGE step keeps the invariant `GE.INV` (namespace `Pm.GE`).

This is the step in which a zombie acquires a parent that has not been emitted yet: the survivor
`first` of a merge may carry an emitted id while a removed member `n` has a pending parent.  It is
harmless for the invariant because `first` and `n` have the same tuple, hence THE SAME CHILDREN
(`Twin`): whatever the pending parent could see below `n` it sees below `first`.
No hypothesis on the log (c4T is not needed), no hypothesis on the decomposition.
-/
import PmVerif.Proofs.GuardEInv
namespace Pm
namespace GE
open Automaton TBL
variable {K P : Type}

section Fold
variable {a a' : Automaton K P} {first n : Nat}

/-- `y` is the image of `y0` under the merge: itself, or `first` for `n`. -/
def Img (first n y0 y : Nat) : Prop := (y = y0 ∧ y0 ≠ n) ∨ (y0 = n ∧ y = first)

/-- Every transition after the fold is the image of a transition before it. -/
theorem fold_back (f : Fold a a' first n) (_inv : Inv a) (tw : Twin a first n)
    {x0 x d : Nat} {c : Option (Constraint K P)} (hx : Img first n x0 x)
    (h : HasEdge a' x d c) : ∃ d0, HasEdge a x0 d0 c ∧ Img first n d0 d := by
  have hsrc : ∃ d0, HasEdge a x d0 c ∧ Img first n d0 d := by
    rcases f.sound x d c h with ⟨h0, _, hd⟩ | ⟨hd, h0⟩
    · exact ⟨d, h0, .inl ⟨rfl, hd⟩⟩
    · exact ⟨n, h0, .inr ⟨rfl, hd⟩⟩
  rcases hx with ⟨rfl, _⟩ | ⟨rfl, rfl⟩
  · exact hsrc
  · obtain ⟨d0, h0, hi⟩ := hsrc
    exact ⟨d0, (tw.out d0 c).1 h0, hi⟩

theorem fold_poor (f : Fold a a' first n) (inv : Inv a) (tw : Twin a first n)
    {y0 y : Nat} (hy : Img first n y0 y) (hp : Poor a y0) : Poor a' y := by
  refine ⟨fun d hd => ?_, fun d c d' c' h1 h2 => ?_⟩
  · obtain ⟨d0, h0, _⟩ := fold_back f inv tw hy hd
    exact hp.1 d0 h0
  · obtain ⟨d0, h0, hi⟩ := fold_back f inv tw hy h1
    obtain ⟨d0', h0', hi'⟩ := fold_back f inv tw hy h2
    obtain ⟨hdd, hcc⟩ := hp.2 d0 c d0' c' h0 h0'
    subst hdd
    refine ⟨?_, hcc⟩
    rcases hi with ⟨rfl, hn⟩ | ⟨rfl, rfl⟩
    · rcases hi' with ⟨rfl, _⟩ | ⟨h', _⟩
      · rfl
      · exact absurd h' hn
    · rcases hi' with ⟨_, hn⟩ | ⟨_, rfl⟩
      · exact absurd rfl hn
      · rfl

/-- Chains survive the fold (up to the renaming of `n`). -/
theorem fold_chain (f : Fold a a' first n) (inv : Inv a) (tw : Twin a first n)
    {g0 g : Nat} (hg : Img first n g0 g) (hc : Chain a g0) : Chain a' g := by
  have key : ∀ x y, Reach a' x y → ∀ x0, Img first n x0 x → Reach a g0 x0 →
      ∃ y0, Img first n y0 y ∧ Reach a g0 y0 := by
    intro x y h
    induction h with
    | refl x => exact fun x0 hx hr => ⟨x0, hx, hr⟩
    | @head x m z c h1 _ ih =>
      intro x0 hx hr
      obtain ⟨m0, hm0, hi⟩ := fold_back f inv tw hx h1
      exact ih m0 hi (hr.tail hm0)
  intro y hy
  obtain ⟨y0, hi, hr⟩ := key g y hy g0 hg (.refl g0)
  exact fold_poor f inv tw hi (hc y0 hr)

/-- **One fold keeps the invariant.** -/
theorem fold_keepsINV (f : Fold a a' first n) (inv : Inv a) (tw : Twin a first n)
    {E : List Nat} (h : INV a E) : INV a' E := by
  intro p hp
  have hpn : ∀ {d c}, HasEdge a' p d c → Img first n p p := by
    intro d c he
    rcases f.sound p d c he with ⟨_, hx, _⟩ | ⟨_, h0⟩
    · exact .inl ⟨rfl, hx⟩
    · obtain ⟨t, ht⟩ := h0
      exact .inl ⟨rfl, inv.noloop t _ ht⟩
  have ok := h p hp
  refine ⟨fun d hd => ?_, fun c k he d hd => ?_, fun c k he g k' hg => ?_⟩
  · obtain ⟨d0, h0, _⟩ := fold_back f inv tw (hpn hd) hd
    exact ok.self d0 h0
  · obtain ⟨c0, h0, hi⟩ := fold_back f inv tw (hpn he) he
    obtain ⟨d0, h1, _⟩ := fold_back f inv tw hi hd
    exact ok.child c0 k h0 d0 h1
  · obtain ⟨c0, h0, hi⟩ := fold_back f inv tw (hpn he) he
    obtain ⟨g0, h1, hig⟩ := fold_back f inv tw hi hg
    exact fold_chain f inv tw hig (ok.grand c0 k h0 g0 k' h1)

end Fold

/-! ### `mergeLoop`, `doMerge`, `mergesLoggedT` -/

theorem mergeLoop_INV {first : Nat} {E : List Nat} :
    ∀ (rest : List Nat) {a a' : Automaton K P}, Inv a → (first :: rest).Nodup →
    (∀ m ∈ rest, Twin a first m) → INV a E →
    a.mergeLoop first rest = .ok a' → Inv a' ∧ INV a' E
  | [], a, a', inv, _, _, hI, h => by
    unfold mergeLoop at h; cases h; exact ⟨inv, hI⟩
  | n :: ns, a, a', inv, hnd, htw, hI, h => by
    unfold mergeLoop at h
    split at h
    · cases h
    · rename_i a1 hmv
      have tw : Twin a first n := htw n List.mem_cons_self
      rw [List.nodup_cons] at hnd
      obtain ⟨hfn, hnd'⟩ := hnd
      rw [List.nodup_cons] at hnd'
      have hne : first ≠ n := fun hx => hfn (hx ▸ List.mem_cons_self)
      have f := fold_of_merge inv hne (tw.no_edge inv) hmv
      refine mergeLoop_INV ns f.inv ?_ ?_ (fold_keepsINV f inv tw hI) h
      · exact List.nodup_cons.2 ⟨fun hm => hfn (List.mem_cons_of_mem _ hm), hnd'.2⟩
      · intro m hm
        have hmn : m ≠ n := fun hx => hnd'.1 (hx ▸ hm)
        exact f.twin inv hne hmn tw (htw m (List.mem_cons_of_mem _ hm))

variable [DecidableEq K] [DecidableEq P]

/-- **One `Merge` event keeps the invariant**, whatever the merge set. -/
theorem doMerge_INV {a a' : Automaton K P} {node : Nat} {nodes : List Nat} {E : List Nat}
    (inv : Inv a) (hI : INV a E) (h : a.doMerge node nodes = .ok a') : Inv a' ∧ INV a' E := by
  unfold doMerge at h
  split at h
  · cases h; exact ⟨inv, hI⟩
  · cases h; exact ⟨inv, hI⟩
  · rename_i first rest _
    split at h
    · cases h
    · split at h
      · cases h
      · rename_i hnd
        split at h
        · cases h
        · rename_i same hsame
          split at h
          · cases h
          · rename_i hall
            split at h
            · cases h
            · split at h
              · cases h
              · have hnd' : (first :: rest).Nodup := by
                  cases hd : decide (first :: rest).Nodup
                  · rw [hd] at hnd; exact absurd rfl hnd
                  · exact of_decide_eq_true hd
                have hall' : ∀ y ∈ same, y = true := by
                  cases hd : same.all id
                  · rw [hd] at hall; exact absurd rfl hall
                  · intro y hy
                    exact List.all_eq_true.1 hd y hy
                have htw : ∀ n ∈ first :: rest, Twin a node n := by
                  intro n hn
                  obtain ⟨y, hy, hf⟩ := mapR_mem_in hsame n hn
                  rw [hall' y hy] at hf
                  exact sameTuple_twin inv hf
                have hfirst := htw first List.mem_cons_self
                refine mergeLoop_INV rest inv hnd' ?_ hI h
                intro m hm
                exact hfirst.symm.trans (htw m (List.mem_cons_of_mem _ hm))

theorem mergesLoggedT_INV {E : List Nat} : ∀ (evs : List Ev) {a a' : Automaton K P}
    {evs' : List Ev}, Inv a → INV a E →
    a.mergesLoggedT evs = .ok (a', evs') → Inv a' ∧ INV a' E := by
  intro evs
  induction evs with
  | nil =>
    intro a a' evs' inv hI h
    unfold mergesLoggedT at h
    cases h
    exact ⟨inv, hI⟩
  | cons ev evs0 ih =>
    intro a a' evs' inv hI h
    cases ev with
    | merge n nodes =>
      unfold mergesLoggedT at h
      split at h
      · cases h
      · split at h
        · cases h
        · rename_i a1 hdm
          obtain ⟨inv1, hI1⟩ := doMerge_INV inv hI hdm
          exact ih inv1 hI1 h
    | topo _ => unfold mergesLoggedT at h; cases h; exact ⟨inv, hI⟩
    | group _ _ => unfold mergesLoggedT at h; cases h; exact ⟨inv, hI⟩
    | detAsk _ => unfold mergesLoggedT at h; cases h; exact ⟨inv, hI⟩
    | detYes _ => unfold mergesLoggedT at h; cases h; exact ⟨inv, hI⟩
    | iterEnd _ => unfold mergesLoggedT at h; cases h; exact ⟨inv, hI⟩

end GE
end Pm
