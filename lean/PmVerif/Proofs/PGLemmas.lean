/-
Proofs/PGLemmas.lean — helper definitions and lemmas for the port-graph family (Props/TPG.lean):
the truth assignment `pgSigma`, the conditioning law of `pgCond`, the decomposition `pgTree`,
link well-formedness `LinksOK`, graph extension `Extends`, and the fuel bound of `walkPath`.
-/
import PmVerif.Proofs.TreeLemmas
import PmVerif.Spec.PGSpec
import PmVerif.Props.C16
namespace Pm
open CTree

/-! ### Truth of `isNotEqual` constraints under a binding -/

/-- The truth assignment used for the port-graph conditioning law: an `isNotEqual` constraint
with at least one argument, all of whose argument keys are bound in `m`, is true iff the value of
its first key differs from the values of all the others; every other constraint is decided by the
oracle `ρ`. -/
def pgSigma (ρ : PGCons → Bool) (m : PGMap) (c : PGCons) : Bool :=
  match c.pred, c.args with
  | .isNotEqual _, first :: others =>
    if (first :: others).all (fun k => (alGet m k).isSome) then
      others.all fun k => alGet m k != alGet m first
    else ρ c
  | _, _ => ρ c

/-- `c` is an `isNotEqual` constraint. -/
def PGCons.isNE (c : PGCons) : Bool :=
  match c.pred with
  | .isNotEqual _ => true
  | _ => false

theorem PGCons.isNE_iff (c : PGCons) : c.isNE = true ↔ ∃ n, c.pred = .isNotEqual n := by
  unfold PGCons.isNE
  split
  · next n h => exact ⟨fun _ => ⟨n, h⟩, fun _ => rfl⟩
  · next h =>
    constructor
    · intro h'; cases h'
    · rintro ⟨n, hn⟩; exact absurd hn (h n)

theorem PGCons.isNE_false_iff (c : PGCons) : c.isNE = false ↔ ∀ n, c.pred ≠ .isNotEqual n := by
  constructor
  · intro h n hn
    have := (PGCons.isNE_iff c).2 ⟨n, hn⟩
    rw [h] at this; cases this
  · intro h
    cases hc : c.isNE with
    | false => rfl
    | true =>
      obtain ⟨n, hn⟩ := (PGCons.isNE_iff c).1 hc
      exact absurd hn (h n)

/-- All argument keys of `c` are bound in `m`. -/
def pgBound (m : PGMap) (c : PGCons) : Prop := ∀ k ∈ c.args, (alGet m k).isSome = true

theorem pgSigma_ne (ρ : PGCons → Bool) (m : PGMap) (n : Nat) (first : PGKey) (others : List PGKey)
    (hb : ∀ k ∈ first :: others, (alGet m k).isSome = true) :
    pgSigma ρ m ⟨.isNotEqual n, first :: others⟩ = true ↔
      ∀ k ∈ others, alGet m k ≠ alGet m first := by
  unfold pgSigma
  simp only
  rw [if_pos (List.all_eq_true.2 hb)]
  simp [List.all_eq_true]

/-! ### The conditioning law of `pgCond` -/

theorem mem_insertKeySet (x k : PGKey) (l : List PGKey) :
    k ∈ insertKeySet x l ↔ k = x ∨ k ∈ l := by
  induction l with
  | nil => simp [insertKeySet]
  | cons y ys ih =>
    simp only [insertKeySet]
    split
    · simp
    · split
      · next h => subst h; simp
      · simp only [List.mem_cons, ih]
        constructor
        · rintro (h | h | h)
          · exact Or.inr (Or.inl h)
          · exact Or.inl h
          · exact Or.inr (Or.inr h)
        · rintro (h | h | h)
          · exact Or.inr (Or.inl h)
          · exact Or.inl h
          · exact Or.inr (Or.inr h)

theorem mem_insertKeySet_fold (others : List PGKey) (acc : List PGKey) (k : PGKey) :
    k ∈ others.foldl (fun s k => insertKeySet k s) acc ↔ k ∈ others ∨ k ∈ acc := by
  induction others generalizing acc with
  | nil => simp
  | cons x xs ih =>
    simp only [List.foldl_cons, ih, mem_insertKeySet, List.mem_cons]
    constructor
    · rintro (h | h | h)
      · exact Or.inl (Or.inr h)
      · exact Or.inl (Or.inl h)
      · exact Or.inr h
    · rintro ((h | h) | h)
      · exact Or.inr (Or.inl h)
      · exact Or.inl h
      · exact Or.inr (Or.inr h)

/-- `s` is a constraint on `first` whose other keys include `k`. -/
def pgCovered (first : PGKey) (s : PGCons) (k : PGKey) : Prop :=
  ∃ os, s.args = first :: os ∧ k ∈ os

theorem pg_mem_removed_step (first : PGKey) (ks : List PGKey) (s : PGCons) (k : PGKey) :
    k ∈ (match s.args with
      | f :: os => if f = first then ks.filter (fun k => !os.contains k) else ks
      | [] => ks) ↔ k ∈ ks ∧ ¬ pgCovered first s k := by
  obtain ⟨p, args⟩ := s
  simp only [pgCovered]
  cases args with
  | nil => simp
  | cons f os =>
    simp only
    split
    · next hf =>
      subst hf
      simp only [List.mem_filter]
      constructor
      · rintro ⟨h1, h2⟩
        refine ⟨h1, ?_⟩
        rintro ⟨os', he, hk⟩
        cases he
        simp [hk] at h2
      · rintro ⟨h1, h2⟩
        refine ⟨h1, ?_⟩
        have : k ∉ os := fun hk => h2 ⟨os, rfl, hk⟩
        simp [this]
    · next hf =>
      constructor
      · intro h
        refine ⟨h, ?_⟩
        rintro ⟨os', he, -⟩
        cases he
        exact hf rfl
      · exact fun h => h.1

theorem pg_mem_removed_fold (first : PGKey) (S : List PGCons) (ks : List PGKey) (k : PGKey) :
    k ∈ S.foldl (fun (ks : List PGKey) s =>
      match s.args with
      | f :: os => if f = first then ks.filter (fun k => !os.contains k) else ks
      | [] => ks) ks ↔ k ∈ ks ∧ ∀ s ∈ S, ¬ pgCovered first s k := by
  induction S generalizing ks with
  | nil => simp
  | cons s S ih =>
    simp only [List.foldl_cons]
    rw [ih, pg_mem_removed_step]
    simp only [List.mem_cons, forall_eq_or_imp]
    exact ⟨fun ⟨⟨a, b⟩, c⟩ => ⟨a, b, c⟩, fun ⟨a, b, c⟩ => ⟨⟨a, b⟩, c⟩⟩

/-- For a non-`isNotEqual` constraint (or one without arguments) `pgCond` is the identity. -/
theorem pgCond_other (c : PGCons) (S : List PGCons) (h : c.isNE = false) :
    pgCond c S = some c := by
  unfold pgCond
  split
  · next n _ _ hp _ =>
    unfold PGCons.isNE at h
    rw [hp] at h
    cases h
  · rfl

/-- **Pointwise conditioning law of the port-graph family.** -/
theorem pgCond_law (ρ : PGCons → Bool) (m : PGMap) (c : PGCons) (S : List PGCons)
    (hne : c.isNE = true) (hbound : pgBound m c)
    (hS : ∀ s ∈ S, s.isNE = true ∧ pgBound m s ∧ pgSigma ρ m s = true) :
    (pgCond c S = none → pgSigma ρ m c = true) ∧
    (∀ c', pgCond c S = some c' → pgSigma ρ m c' = pgSigma ρ m c) := by
  obtain ⟨pred, args⟩ := c
  obtain ⟨n, hn⟩ := (PGCons.isNE_iff _).1 hne
  simp only at hn
  subst hn
  simp only [pgBound] at hbound
  cases args with
  | nil =>
    refine ⟨fun h => ?_, fun c' h => ?_⟩
    · simp [pgCond] at h
    · simp only [pgCond, Option.some.injEq] at h
      subst h; rfl
  | cons first others =>
    unfold pgCond
    simp only
    have hrem : ∀ k, k ∈ S.foldl (fun (ks : List PGKey) s =>
        match s.args with
        | f :: os => if f = first then ks.filter (fun k => !os.contains k) else ks
        | [] => ks) (others.foldl (fun s k => insertKeySet k s) []) ↔
        k ∈ others ∧ ∀ s ∈ S, ¬ pgCovered first s k := by
      intro k
      rw [pg_mem_removed_fold, mem_insertKeySet_fold]
      simp
    generalize S.foldl (fun (ks : List PGKey) s =>
        match s.args with
        | f :: os => if f = first then ks.filter (fun k => !os.contains k) else ks
        | [] => ks) (others.foldl (fun s k => insertKeySet k s) []) = removed at hrem
    -- covered keys differ from `first`'s value
    have hcov : ∀ k, k ∈ others → k ∉ removed → alGet m k ≠ alGet m first := by
      intro k hk hnr
      have h1 : ¬ ∀ s ∈ S, ¬ pgCovered first s k := fun h => hnr ((hrem k).2 ⟨hk, h⟩)
      have h2 : ∃ s ∈ S, pgCovered first s k := by
        apply Classical.byContradiction
        intro hne
        exact h1 (fun s hs hc => hne ⟨s, hs, hc⟩)
      obtain ⟨s, hs, os, hargs, hkos⟩ := h2
      obtain ⟨hsne, hsb, hsσ⟩ := hS s hs
      obtain ⟨n', hn'⟩ := (PGCons.isNE_iff _).1 hsne
      obtain ⟨sp, sargs⟩ := s
      simp only at hargs hn'
      subst hargs hn'
      exact (pgSigma_ne ρ m n' first os hsb).1 hsσ k hkos
    split
    · next hemp =>
      have hnil : removed = [] := by simpa using hemp
      refine ⟨fun _ => ?_, fun c' h => by cases h⟩
      rw [pgSigma_ne ρ m n first others hbound]
      intro k hk
      exact hcov k hk (by rw [hnil]; simp)
    · refine ⟨fun h => (by cases h), ?_⟩
      intro c' hc'
      cases hc'
      have hb' : ∀ k ∈ first :: removed, (alGet m k).isSome = true := by
        intro k hk
        rcases List.mem_cons.1 hk with rfl | hk
        · exact hbound _ (List.mem_cons_self ..)
        · exact hbound _ (List.mem_cons_of_mem _ ((hrem k).1 hk).1)
      rw [Bool.eq_iff_iff, pgSigma_ne ρ m _ first removed hb', pgSigma_ne ρ m n first others hbound]
      constructor
      · intro hall k hk
        by_cases hr : k ∈ removed
        · exact hall k hr
        · exact hcov k hk hr
      · intro hall k hk
        exact hall k ((hrem k).1 hk).1

/-! ### The decomposition `pgTree` -/

/-- The mutex relation `pgTree` passes to `with_transitive_mutex`. -/
def pgMutex (a b : PGCons) : Bool :=
  match a.pred, b.pred with
  | .hasNodeWeight, .hasNodeWeight => fstArgEq a b
  | .isConnected la _, .isConnected lb _ => la == lb && fstArgEq a b
  | _, _ => false

/-- The constraints `pgTree` keeps in the powerset branch. -/
def pgKept (cs : List PGCons) (first : PGCons) : List (PGCons × Nat) :=
  (sortWithIndices pgConsLe cs).filter fun ci =>
    (match ci.1.pred with | .isNotEqual _ => true | _ => false) && fstArgEq ci.1 first

theorem pgTree_nil (fuel : Nat) : pgTree [] fuel = some CTree.new := rfl

/-- The two branches of `pgTree` on a non-empty list, by the predicate of the smallest
constraint. -/
theorem pgTree_cons_cases {cs : List PGCons} {fuel : Nat} {x : PGCons × Nat}
    {xs : List (PGCons × Nat)} (hs : sortWithIndices pgConsLe cs = x :: xs) :
    (x.1.isNE = true ∧
      pgTree cs fuel = (withPowerset pgCond (pgKept cs x.1) fuel).map
        fun t => { t with makeDet := true }) ∨
    (x.1.isNE = false ∧
      pgTree cs fuel = some { CTree.withTransitiveMutex (x :: xs) pgMutex with makeDet := true }) := by
  have hne : cs ≠ [] := by
    rintro rfl
    rw [sortWithIndices_nil] at hs
    cases hs
  have hemp : cs.isEmpty = false := by
    cases cs with
    | nil => exact absurd rfl hne
    | cons _ _ => rfl
  obtain ⟨first, fi⟩ := x
  unfold pgTree
  rw [hemp]
  simp only [Bool.false_eq_true, if_false, hs]
  cases hp : first.pred with
  | isNotEqual n =>
    left
    refine ⟨by simp [PGCons.isNE, hp], ?_⟩
    unfold pgKept
    rw [hs]; rfl
  | hasNodeWeight => right; exact ⟨by simp [PGCons.isNE, hp], rfl⟩
  | isConnected l r => right; exact ⟨by simp [PGCons.isNE, hp], rfl⟩

theorem pgKept_sub (cs : List PGCons) (first : PGCons) :
    ∀ x ∈ pgKept cs first, x ∈ sortWithIndices pgConsLe cs :=
  fun _ hx => (List.mem_filter.1 hx).1

theorem pgKept_isNE (cs : List PGCons) (first : PGCons) :
    ∀ x ∈ pgKept cs first, x.1.isNE = true := by
  intro x hx
  have := (List.mem_filter.1 hx).2
  simp only [Bool.and_eq_true] at this
  exact this.1

theorem pgKept_head {cs : List PGCons} {x : PGCons × Nat} {xs : List (PGCons × Nat)}
    (hs : sortWithIndices pgConsLe cs = x :: xs) (hne : x.1.isNE = true) :
    ∃ rest, pgKept cs x.1 = x :: rest := by
  unfold pgKept
  rw [hs, List.filter_cons]
  have : ((match x.1.pred with | .isNotEqual _ => true | _ => false) && fstArgEq x.1 x.1) = true := by
    unfold PGCons.isNE at hne
    rw [hne]
    simp [fstArgEq]
  rw [if_pos this]
  exact ⟨_, rfl⟩

theorem pgKept_nodup (cs : List PGCons) (first : PGCons) :
    ((pgKept cs first).map (·.2)).Nodup := by
  unfold pgKept
  exact (sortWithIndices_nodup pgConsLe cs).sublist (List.filter_sublist.map _)

theorem pgKept_length (cs : List PGCons) (first : PGCons) :
    (pgKept cs first).length ≤ cs.length := by
  have h1 : (pgKept cs first).length ≤ (sortWithIndices pgConsLe cs).length :=
    List.length_filter_le _ _
  have h2 := (sortWithIndices_perm pgConsLe cs).length_eq
  simp only [List.length_zip, List.length_range, Nat.min_self] at h2
  omega

theorem PairsTree_makeDet {C : Type} {t : CTree C} {kept : List (C × Nat)} (p : PairsTree t kept)
    (b : Bool) : PairsTree ({ t with makeDet := b } : CTree C) kept where
  labels := fun i => by rw [allLabels_makeDet]; exact p.labels i
  reach := fun σ i => by rw [reachLabel_makeDet]; exact p.reach σ i

theorem pgTree_new_clauses (cs : List PGCons) (σ : PGCons → Bool) :
    (∀ i ∈ (CTree.new : CTree PGCons).allLabels, i < cs.length) ∧
    (∀ i ∈ (CTree.new : CTree PGCons).allLabels, ∀ c, cs[i]? = some c →
      ((CTree.new : CTree PGCons).reachLabel σ i = true ↔ σ c = true)) := by
  constructor <;> simp [allLabels, CTree.new]

/-- Transitive-mutex branch: the three C10 clauses for every truth assignment. -/
theorem pgTree_mutex {cs : List PGCons} {fuel : Nat} {t : CTree PGCons}
    (h : pgTree cs fuel = some t)
    (hhead : ∀ x xs, sortWithIndices pgConsLe cs = x :: xs → x.1.isNE = false)
    (σ : PGCons → Bool) :
    (∀ i ∈ t.allLabels, i < cs.length) ∧
    (∀ i ∈ t.allLabels, ∀ c, cs[i]? = some c → (t.reachLabel σ i = true ↔ σ c = true)) ∧
    (cs ≠ [] → ∃ x xs, sortWithIndices pgConsLe cs = x :: xs ∧ x.2 ∈ t.allLabels) := by
  cases hs : sortWithIndices pgConsLe cs with
  | nil =>
    have : cs = [] := Classical.byContradiction fun hne => sortWithIndices_ne_nil _ hne hs
    subst this
    cases h
    exact ⟨(pgTree_new_clauses [] σ).1, (pgTree_new_clauses [] σ).2, fun h => absurd rfl h⟩
  | cons x xs =>
    rcases pgTree_cons_cases (fuel := fuel) hs with ⟨hne, -⟩ | ⟨-, ht⟩
    · rw [hhead x xs hs] at hne; cases hne
    · rw [ht] at h
      cases h
      obtain ⟨kept, p, hsub, hh⟩ := withTransitiveMutex_pairs (x :: xs) pgMutex
      have key := (PairsTree_makeDet p true).sortedClauses pgConsLe cs
        (fun y hy => by rw [hs]; exact hsub y hy)
        (fun y ys hy => by rw [hs] at hy; exact hh y ys hy) σ
      rw [hs] at key
      exact key

/-- Validity and presence of the smallest constraint, both branches. -/
theorem pgTree_valid_smallest {cs : List PGCons} {fuel : Nat} {t : CTree PGCons}
    (h : pgTree cs fuel = some t) :
    (∀ i ∈ t.allLabels, i < cs.length) ∧
    (cs ≠ [] → ∃ x xs, sortWithIndices pgConsLe cs = x :: xs ∧ x.2 ∈ t.allLabels) := by
  cases hs : sortWithIndices pgConsLe cs with
  | nil =>
    have : cs = [] := Classical.byContradiction fun hne => sortWithIndices_ne_nil _ hne hs
    subst this
    cases h
    exact ⟨(pgTree_new_clauses [] (fun _ => true)).1, fun h => absurd rfl h⟩
  | cons x xs =>
    rcases pgTree_cons_cases (fuel := fuel) hs with ⟨hne, ht⟩ | ⟨hne, -⟩
    · rw [ht] at h
      obtain ⟨t0, ht0, rfl⟩ := Option.map_eq_some_iff.1 h
      refine ⟨?_, fun _ => ⟨x, xs, rfl, ?_⟩⟩
      · intro i hi
        rw [allLabels_makeDet] at hi
        obtain ⟨c, hc⟩ := withPowerset_valid ht0 i hi
        exact (List.getElem?_eq_some_iff.1
          ((mem_sortWithIndices pgConsLe cs c i).1 (pgKept_sub cs x.1 _ hc))).1
      · rw [allLabels_makeDet]
        obtain ⟨rest, hrest⟩ := pgKept_head hs hne
        exact withPowerset_smallest (c₀ := x.1) (i₀ := x.2) (rest := rest) ht0 hrest
    · have := pgTree_mutex h (fun y ys hy => by rw [hs] at hy; cases hy; exact hne) (fun _ => true)
      rw [hs] at this
      exact ⟨this.1, this.2.2⟩

/-- Powerset branch: faithfulness for `pgSigma ρ m` when the keys of all `isNotEqual`
constraints are bound in `m`. -/
theorem pgTree_powerset {cs : List PGCons} {fuel : Nat} {t : CTree PGCons}
    (h : pgTree cs fuel = some t)
    (hhead : ∀ x xs, sortWithIndices pgConsLe cs = x :: xs → x.1.isNE = true)
    (ρ : PGCons → Bool) (m : PGMap) (hb : ∀ c ∈ cs, c.isNE = true → pgBound m c) :
    ∀ i ∈ t.allLabels, ∀ c, cs[i]? = some c →
      (t.reachLabel (pgSigma ρ m) i = true ↔ pgSigma ρ m c = true) := by
  cases hs : sortWithIndices pgConsLe cs with
  | nil =>
    have : cs = [] := Classical.byContradiction fun hne => sortWithIndices_ne_nil _ hne hs
    subst this
    cases h
    exact (pgTree_new_clauses [] _).2
  | cons x xs =>
    rcases pgTree_cons_cases (fuel := fuel) hs with ⟨-, ht⟩ | ⟨hne, -⟩
    · rw [ht] at h
      obtain ⟨t0, ht0, rfl⟩ := Option.map_eq_some_iff.1 h
      intro i hi c hc
      rw [allLabels_makeDet] at hi
      rw [reachLabel_makeDet]
      obtain ⟨c', hc'⟩ := withPowerset_valid ht0 i hi
      have hc'' := (mem_sortWithIndices pgConsLe cs c' i).1 (pgKept_sub cs x.1 _ hc')
      have : c' = c := Option.some.inj (hc''.symm.trans hc)
      subst this
      have hP : ∀ s, (∃ j, (s, j) ∈ pgKept cs x.1) → s.isNE = true ∧ pgBound m s := by
        rintro s ⟨j, hj⟩
        have hne := pgKept_isNE cs x.1 _ hj
        have hmem := List.mem_of_getElem?
          ((mem_sortWithIndices pgConsLe cs s j).1 (pgKept_sub cs x.1 _ hj))
        exact ⟨hne, hb s hmem hne⟩
      have law : CondLawOn pgCond (pgSigma ρ m) (fun c => ∃ i, (c, i) ∈ pgKept cs x.1) := by
        intro c S hc hSP hS
        exact pgCond_law ρ m c S (hP c hc).1 (hP c hc).2
          (fun s hs => ⟨(hP s (hSP s hs)).1, (hP s (hSP s hs)).2, hS s hs⟩)
      exact withPowerset_faithful ht0 law (pgKept_nodup cs x.1) hc'
    · rw [hhead x xs hs] at hne; cases hne

theorem pgTree_terminates (cs : List PGCons) (fuel : Nat) (hf : 2 ^ (cs.length + 1) ≤ fuel) :
    (pgTree cs fuel).isSome = true := by
  cases hs : sortWithIndices pgConsLe cs with
  | nil =>
    have : cs = [] := Classical.byContradiction fun hne => sortWithIndices_ne_nil _ hne hs
    subst this
    rfl
  | cons x xs =>
    rcases pgTree_cons_cases (fuel := fuel) hs with ⟨-, ht⟩ | ⟨-, ht⟩
    · rw [ht, Option.isSome_map]
      apply withPowerset_terminates
      have := pgKept_length cs x.1
      exact Nat.le_trans (Nat.pow_le_pow_right (by omega) (by omega)) hf
    · rw [ht]; rfl

/-! ### Link well-formedness -/

/-- Well-formedness of the link list: a link goes from an output port to an input port, both of
its ends exist, and two links that share an end are the same link (so every port occurs in at
most one link; by the direction condition it cannot be the first component of one link and the
second of another). -/
def PortGraph.LinksOK (g : PortGraph) : Prop :=
  (∀ l ∈ g.links, l.1.2.dir = .out ∧ l.2.2.dir = .inc) ∧
  (∀ l ∈ g.links, g.portExists l.1 = true ∧ g.portExists l.2 = true) ∧
  (∀ l ∈ g.links, ∀ l' ∈ g.links, (l.1 = l'.1 ∨ l.2 = l'.2) → l = l')

instance (g : PortGraph) : Decidable g.LinksOK := by
  unfold PortGraph.LinksOK; infer_instance

namespace PortGraph
variable {g : PortGraph}

theorem LinksOK.dirs (h : g.LinksOK) {l : Port × Port} (hl : l ∈ g.links) :
    l.1.2.dir = .out ∧ l.2.2.dir = .inc := h.1 l hl

theorem LinksOK.ends (h : g.LinksOK) {l : Port × Port} (hl : l ∈ g.links) :
    g.portExists l.1 = true ∧ g.portExists l.2 = true := h.2.1 l hl

theorem LinksOK.uniq (h : g.LinksOK) {l l' : Port × Port} (hl : l ∈ g.links) (hl' : l' ∈ g.links)
    (he : l.1 = l'.1 ∨ l.2 = l'.2) : l = l' := h.2.2 l hl l' hl' he

/-- `port_link` only ever reports the other end of a link of the graph. -/
theorem portLink_some_mem {p q : Port} (h : g.portLink p = some q) :
    (p, q) ∈ g.links ∨ (q, p) ∈ g.links := by
  unfold portLink at h
  cases hf : g.links.find? (fun l => l.1 = p ∨ l.2 = p) with
  | none => rw [hf] at h; cases h
  | some l =>
    rw [hf] at h
    have hmem := List.mem_of_find?_eq_some hf
    have hp := List.find?_some hf
    simp only [decide_eq_true_eq] at hp
    obtain ⟨l1, l2⟩ := l
    simp only at h hp
    split at h
    · next h1 => cases h; subst h1; exact Or.inl hmem
    · next h1 =>
      cases h
      rcases hp with hp | hp
      · exact absurd hp h1
      · subst hp; exact Or.inr hmem

theorem LinksOK.portLink_fst (h : g.LinksOK) {l : Port × Port} (hl : l ∈ g.links) :
    g.portLink l.1 = some l.2 := by
  unfold portLink
  cases hf : g.links.find? (fun l' => l'.1 = l.1 ∨ l'.2 = l.1) with
  | none =>
    have := List.find?_eq_none.1 hf l hl
    simp at this
  | some l' =>
    have hmem := List.mem_of_find?_eq_some hf
    have hp := List.find?_some hf
    simp only [decide_eq_true_eq] at hp
    have e : l' = l := by
      rcases hp with hp | hp
      · exact h.uniq hmem hl (Or.inl hp)
      · have d1 := (h.dirs hmem).2
        have d2 := (h.dirs hl).1
        rw [hp, d2] at d1; cases d1
    subst e
    simp

theorem LinksOK.portLink_snd (h : g.LinksOK) {l : Port × Port} (hl : l ∈ g.links) :
    g.portLink l.2 = some l.1 := by
  unfold portLink
  cases hf : g.links.find? (fun l' => l'.1 = l.2 ∨ l'.2 = l.2) with
  | none =>
    have := List.find?_eq_none.1 hf l hl
    simp at this
  | some l' =>
    have hmem := List.mem_of_find?_eq_some hf
    have hp := List.find?_some hf
    simp only [decide_eq_true_eq] at hp
    have e : l' = l := by
      rcases hp with hp | hp
      · have d1 := (h.dirs hmem).1
        have d2 := (h.dirs hl).2
        rw [hp, d2] at d1; cases d1
      · exact h.uniq hmem hl (Or.inr hp)
    subst e
    have hne : l'.1 ≠ l'.2 := by
      intro e
      have d1 := (h.dirs hl).1
      have d2 := (h.dirs hl).2
      rw [e, d2] at d1; cases d1
    simp [hne]

theorem LinksOK.portLink_iff (h : g.LinksOK) (p q : Port) :
    g.portLink p = some q ↔ (p, q) ∈ g.links ∨ (q, p) ∈ g.links := by
  constructor
  · exact portLink_some_mem
  · rintro (hl | hl)
    · exact h.portLink_fst hl
    · exact h.portLink_snd hl

/-- Under `LinksOK`, `port_link` is an involution. -/
theorem LinksOK.portLink_symm (h : g.LinksOK) {p q : Port} (hpq : g.portLink p = some q) :
    g.portLink q = some p := by
  rw [h.portLink_iff] at hpq ⊢
  exact hpq.symm

theorem LinksOK.portLink_exists (h : g.LinksOK) {p q : Port} (hpq : g.portLink p = some q) :
    g.portExists p = true ∧ g.portExists q = true := by
  rcases portLink_some_mem hpq with hl | hl
  · exact h.ends hl
  · exact (h.ends hl).symm

end PortGraph

/-! ### Single-step semantics of the predicates -/

theorem pgCheck_arity_total (p : PGPred) (g : PortGraph) (args : List Nat)
    (ha : args.length = p.arity) : (pgCheck p g args).isSome = true := by
  cases p with
  | hasNodeWeight => match args, ha with | [a], _ => rfl
  | isConnected l r => match args, ha with | [a, b], _ => rfl
  | isNotEqual n =>
    match args, ha with
    | v :: vs, _ => rfl

theorem pgCheck_connected (l r : POff) (g : PortGraph) (a b : Nat) :
    pgCheck (.isConnected l r) g [a, b] = some true ↔
      g.portExists (a, l) = true ∧ g.portLink (a, l) = some (b, r) := by
  simp [pgCheck]

theorem pgCheck_connected_mem (l r : POff) {g : PortGraph} (hg : g.LinksOK) (a b : Nat) :
    pgCheck (.isConnected l r) g [a, b] = some true ↔
      ((a, l), (b, r)) ∈ g.links ∨ ((b, r), (a, l)) ∈ g.links := by
  rw [pgCheck_connected, ← hg.portLink_iff]
  constructor
  · exact fun h => h.2
  · exact fun h => ⟨(hg.portLink_exists h).1, h⟩

theorem pgCheck_notEqual (n : Nat) (g : PortGraph) (v : Nat) (vs : List Nat) :
    pgCheck (.isNotEqual n) g (v :: vs) = some true ↔ v ∉ vs := by
  simp [pgCheck]

/-! ### Embeddings: unfolding lemmas -/

theorem linksPreserved_iff (p h : PortGraph) (φ : List (Nat × Nat)) :
    linksPreserved p h φ = true ↔
      ∀ l ∈ p.links, ∀ a b, alGet φ l.1.1 = some a → alGet φ l.2.1 = some b →
        h.portExists (a, l.1.2) = true ∧ h.portLink (a, l.1.2) = some (b, l.2.2) := by
  unfold linksPreserved
  rw [List.all_eq_true]
  constructor
  · intro H l hl a b ha hb
    have := H l hl
    rw [ha, hb] at this
    simpa using this
  · intro H l hl
    split
    · next a b ha hb => simpa using H l hl a b ha hb
    · rfl

theorem embedsPG_iff (p h : PortGraph) (φ : List (Nat × Nat)) :
    embedsPG p h φ = true ↔
      (∀ n ∈ p.nodesIter, (alGet φ n).isSome = true) ∧ (φ.map (·.2)).Nodup ∧
      (∀ x ∈ φ, (h.node? x.2).isSome = true) ∧ linksPreserved p h φ = true := by
  unfold embedsPG
  simp only [Bool.and_eq_true, List.all_eq_true, decide_eq_true_eq, and_assoc]

theorem alGet_map_snd (φ : List (Nat × Nat)) (f : Nat → Nat) (k : Nat) :
    alGet (φ.map fun x => (x.1, f x.2)) k = (alGet φ k).map f := by
  induction φ with
  | nil => rfl
  | cons x xs ih =>
    simp only [List.map_cons, alGet]
    split
    · rfl
    · exact ih

theorem alGet_diag {l : List Nat} {k a : Nat} (h : alGet (l.map fun n => (n, n)) k = some a) :
    a = k := by
  induction l with
  | nil => cases h
  | cons x xs ih =>
    simp only [List.map_cons, alGet] at h
    split at h
    · next e => cases h; exact e
    · exact ih h

theorem alGet_diag_mem {l : List Nat} {k : Nat} (hk : k ∈ l) :
    alGet (l.map fun n => (n, n)) k = some k := by
  induction l with
  | nil => cases hk
  | cons x xs ih =>
    simp only [List.map_cons, alGet]
    split
    · next e => rw [e]
    · next e =>
      rcases List.mem_cons.1 hk with rfl | hk
      · exact absurd rfl e
      · exact ih hk

namespace PortGraph

theorem mem_nodesIter (g : PortGraph) (n : Nat) : n ∈ g.nodesIter ↔ (g.node? n).isSome = true := by
  unfold nodesIter
  rw [List.mem_filter, List.mem_range]
  constructor
  · exact fun h => h.2
  · intro h
    refine ⟨?_, h⟩
    unfold node? at h
    rcases Nat.lt_or_ge n g.nodes.length with h' | h'
    · exact h'
    · rw [List.getElem?_eq_none h'] at h; cases h

theorem nodesIter_nodup (g : PortGraph) : g.nodesIter.Nodup :=
  List.Pairwise.filter _ List.nodup_range

theorem node_of_portExists {g : PortGraph} {p : Port} (h : g.portExists p = true) :
    (g.node? p.1).isSome = true := by
  unfold portExists at h
  split at h
  · cases h
  · next nd hn => rw [hn]; rfl

end PortGraph

/-- The identity assignment embeds a well-formed port graph into itself. -/
theorem embedsPG_self {p : PortGraph} (hp : p.LinksOK) :
    embedsPG p p (p.nodesIter.map fun n => (n, n)) = true := by
  rw [embedsPG_iff]
  refine ⟨?_, ?_, ?_, ?_⟩
  · intro n hn
    rw [alGet_diag_mem hn]; rfl
  · rw [List.map_map]
    have : ((fun x : Nat × Nat => x.2) ∘ fun n => (n, n)) = id := rfl
    rw [this, List.map_id]
    exact p.nodesIter_nodup
  · intro x hx
    obtain ⟨n, hn, rfl⟩ := List.mem_map.1 hx
    exact (p.mem_nodesIter n).1 hn
  · rw [linksPreserved_iff]
    intro l hl a b ha hb
    have ea := alGet_diag ha
    have eb := alGet_diag hb
    subst ea eb
    exact ⟨(hp.ends hl).1, hp.portLink_fst hl⟩

/-! ### Extending the host graph -/

/-- `h'` extends `h` along the node map `ρ`: live nodes go to live nodes with at least as many
ports, injectively, and every link is kept (same offsets). Covers relabelling, adding nodes,
adding ports at the end of a node and linking previously unlinked ports. -/
structure Extends (h h' : PortGraph) (ρ : Nat → Nat) : Prop where
  node : ∀ n nd, h.node? n = some nd →
    ∃ nd', h'.node? (ρ n) = some nd' ∧ nd.nin ≤ nd'.nin ∧ nd.nout ≤ nd'.nout
  inj : ∀ a b, (h.node? a).isSome = true → (h.node? b).isSome = true → ρ a = ρ b → a = b
  link : ∀ l ∈ h.links, ((ρ l.1.1, l.1.2), (ρ l.2.1, l.2.2)) ∈ h'.links

theorem Extends.refl (h : PortGraph) : Extends h h id where
  node := fun _ nd hn => ⟨nd, hn, Nat.le_refl _, Nat.le_refl _⟩
  inj := fun _ _ _ _ e => e
  link := fun _ hl => hl

theorem Extends.live {h h' : PortGraph} {ρ : Nat → Nat} (e : Extends h h' ρ) {n : Nat}
    (hn : (h.node? n).isSome = true) : (h'.node? (ρ n)).isSome = true := by
  obtain ⟨nd, hnd⟩ := Option.isSome_iff_exists.1 hn
  obtain ⟨nd', hnd', -⟩ := e.node n nd hnd
  rw [hnd']; rfl

theorem Extends.trans {h h' h'' : PortGraph} {ρ ρ' : Nat → Nat} (e : Extends h h' ρ)
    (e' : Extends h' h'' ρ') : Extends h h'' (ρ' ∘ ρ) where
  node := fun n nd hn => by
    obtain ⟨nd', hnd', h1, h2⟩ := e.node n nd hn
    obtain ⟨nd'', hnd'', h3, h4⟩ := e'.node (ρ n) nd' hnd'
    exact ⟨nd'', hnd'', Nat.le_trans h1 h3, Nat.le_trans h2 h4⟩
  inj := fun a b ha hb hab =>
    e.inj a b ha hb (e'.inj (ρ a) (ρ b) (e.live ha) (e.live hb) hab)
  link := fun l hl => e'.link _ (e.link l hl)

theorem Extends.portExists {h h' : PortGraph} {ρ : Nat → Nat} (e : Extends h h' ρ) {a : Nat}
    {o : POff} (hp : h.portExists (a, o) = true) : h'.portExists (ρ a, o) = true := by
  unfold PortGraph.portExists at hp ⊢
  simp only at hp ⊢
  split at hp
  · cases hp
  · next nd hn =>
    obtain ⟨nd', hnd', h1, h2⟩ := e.node a nd hn
    rw [hnd']
    simp only
    cases hd : o.dir with
    | inc =>
      rw [hd] at hp
      simp only [decide_eq_true_eq] at hp ⊢
      omega
    | out =>
      rw [hd] at hp
      simp only [decide_eq_true_eq] at hp ⊢
      omega

theorem Extends.portLink {h h' : PortGraph} {ρ : Nat → Nat} (e : Extends h h' ρ)
    (hok : h'.LinksOK) {a b : Nat} {o o' : POff} (hl : h.portLink (a, o) = some (b, o')) :
    h'.portLink (ρ a, o) = some (ρ b, o') := by
  rw [hok.portLink_iff]
  rcases PortGraph.portLink_some_mem hl with hm | hm
  · exact Or.inl (e.link _ hm)
  · exact Or.inr (e.link _ hm)

theorem nodup_map_of_inj_on {α β : Type} {l : List α} {f : α → β}
    (hinj : ∀ a ∈ l, ∀ b ∈ l, f a = f b → a = b) (hnd : l.Nodup) : (l.map f).Nodup := by
  rw [List.nodup_iff_pairwise_ne, List.pairwise_map]
  exact List.Pairwise.imp_of_mem (fun ha hb hne e => hne (hinj _ ha _ hb e)) hnd

/-- An embedding survives every extension of the host. -/
theorem embedsPG_extend {p h h' : PortGraph} {φ : List (Nat × Nat)} {ρ : Nat → Nat}
    (hemb : embedsPG p h φ = true) (e : Extends h h' ρ) (hok : h'.LinksOK) :
    embedsPG p h' (φ.map fun x => (x.1, ρ x.2)) = true := by
  rw [embedsPG_iff] at hemb ⊢
  obtain ⟨htot, hnd, hlive, hlinks⟩ := hemb
  refine ⟨?_, ?_, ?_, ?_⟩
  · intro n hn
    rw [alGet_map_snd, Option.isSome_map]
    exact htot n hn
  · rw [List.map_map]
    have : ((fun x : Nat × Nat => x.2) ∘ fun x : Nat × Nat => (x.1, ρ x.2)) =
        ρ ∘ (fun x : Nat × Nat => x.2) := rfl
    rw [this, ← List.map_map]
    apply nodup_map_of_inj_on _ hnd
    intro a ha b hb hab
    obtain ⟨x, hx, rfl⟩ := List.mem_map.1 ha
    obtain ⟨y, hy, rfl⟩ := List.mem_map.1 hb
    exact e.inj _ _ (hlive x hx) (hlive y hy) hab
  · intro x hx
    obtain ⟨y, hy, rfl⟩ := List.mem_map.1 hx
    exact e.live (hlive y hy)
  · rw [linksPreserved_iff] at hlinks ⊢
    intro l hl a b ha hb
    rw [alGet_map_snd, Option.map_eq_some_iff] at ha hb
    obtain ⟨a0, ha0, rfl⟩ := ha
    obtain ⟨b0, hb0, rfl⟩ := hb
    obtain ⟨h1, h2⟩ := hlinks l hl a0 b0 ha0 hb0
    exact ⟨e.portExists h1, e.portLink hok h2⟩

/-- A decidable sufficient (and necessary) test for `Extends`. -/
def extendsChk (h h' : PortGraph) (ρ : Nat → Nat) : Bool :=
  (h.nodesIter.all fun n =>
    match h.node? n, h'.node? (ρ n) with
    | some nd, some nd' => decide (nd.nin ≤ nd'.nin) && decide (nd.nout ≤ nd'.nout)
    | _, _ => false) &&
  (h.nodesIter.all fun a => h.nodesIter.all fun b => decide (ρ a = ρ b → a = b)) &&
  (h.links.all fun l => decide (((ρ l.1.1, l.1.2), (ρ l.2.1, l.2.2)) ∈ h'.links))

theorem extends_of_chk {h h' : PortGraph} {ρ : Nat → Nat} (hc : extendsChk h h' ρ = true) :
    Extends h h' ρ := by
  unfold extendsChk at hc
  simp only [Bool.and_eq_true, List.all_eq_true, decide_eq_true_eq] at hc
  obtain ⟨⟨h1, h2⟩, h3⟩ := hc
  refine ⟨?_, ?_, h3⟩
  · intro n nd hn
    have hmem : n ∈ h.nodesIter := (h.mem_nodesIter n).2 (by rw [hn]; rfl)
    have := h1 n hmem
    rw [hn] at this
    split at this
    · next nd0 nd' e0 e' =>
      cases e0
      simp only [Bool.and_eq_true, decide_eq_true_eq] at this
      exact ⟨nd', e', this.1, this.2⟩
    · cases this
  · intro a b ha hb
    exact h2 a ((h.mem_nodesIter a).2 ha) b ((h.mem_nodesIter b).2 hb)

/-! ### `walk_path`: the fuel is never the reason the walk stops -/

theorem POff.opposite_opposite (o : POff) : o.opposite.opposite = o := by
  obtain ⟨d, i⟩ := o
  cases d <;> rfl

theorem POff.opposite_inj {a b : POff} (h : a.opposite = b.opposite) : a = b := by
  rw [← POff.opposite_opposite a, h, POff.opposite_opposite]

namespace PortGraph

/-- The number of ports of the live nodes (`pgWalkFuel g = g.portCount + 2`). -/
def portCount (g : PortGraph) : Nat := (g.nodesIter.map fun n => (g.allPortOffsets n).length).sum

/-- All ports of all live nodes. -/
def allPortsList (g : PortGraph) : List Port := g.nodesIter.flatMap g.allPorts

theorem length_allPortsList (g : PortGraph) : g.allPortsList.length = g.portCount := by
  unfold allPortsList portCount
  rw [List.length_flatMap]
  congr 1
  apply List.map_congr_left
  intro n _
  simp [allPorts]

theorem mem_allPortsList {g : PortGraph} {p : Port} (h : g.portExists p = true) :
    p ∈ g.allPortsList := by
  obtain ⟨n, o⟩ := p
  unfold allPortsList
  rw [List.mem_flatMap]
  refine ⟨n, (g.mem_nodesIter n).2 (node_of_portExists h), ?_⟩
  unfold allPorts
  rw [List.mem_map]
  refine ⟨o, ?_, rfl⟩
  unfold portExists at h
  unfold allPortOffsets
  simp only at h
  split at h
  · cases h
  · next nd hn =>
    obtain ⟨d, i⟩ := o
    cases d with
    | inc =>
      simp only [decide_eq_true_eq] at h
      exact List.mem_append_left _ (List.mem_map.2 ⟨i, List.mem_range.2 h, rfl⟩)
    | out =>
      simp only [decide_eq_true_eq] at h
      exact List.mem_append_right _ (List.mem_map.2 ⟨i, List.mem_range.2 h, rfl⟩)

end PortGraph

theorem nodup_subset_length {α : Type} [DecidableEq α] :
    ∀ (L M : List α), L.Nodup → (∀ x ∈ L, x ∈ M) → L.length ≤ M.length
  | [], _, _, _ => Nat.zero_le _
  | x :: L, M, hnd, hsub => by
    have hx : x ∈ M := hsub x (List.mem_cons_self ..)
    rw [List.nodup_cons] at hnd
    have ih := nodup_subset_length L (M.erase x) hnd.2 (fun y hy => by
      have hne : y ≠ x := fun e => hnd.1 (e ▸ hy)
      exact (List.mem_erase_of_ne hne).2 (hsub y (List.mem_cons_of_mem _ hy)))
    rw [List.length_erase_of_mem hx] at ih
    have : 0 < M.length := List.length_pos_of_mem hx
    simp only [List.length_cons]
    omega

/-- A duplicate-free list of existing ports is no longer than the number of ports. -/
theorem PortGraph.nodup_ports_le {g : PortGraph} {L : List Port} (hnd : L.Nodup)
    (hex : ∀ x ∈ L, g.portExists x = true) : L.length ≤ g.portCount := by
  rw [← g.length_allPortsList]
  exact nodup_subset_length L _ hnd (fun x hx => PortGraph.mem_allPortsList (hex x hx))

/-- The un-fuelled step relation of `walk_path`: leaving through port `p` the walk crosses the
link at `p`, arrives at a port `q` of a node other than `start`, and will leave that node through
the existing port opposite to `q`. -/
def PortGraph.walkNext (g : PortGraph) (start : Nat) (p p' : Port) : Prop :=
  ∃ q, g.portLink p = some q ∧ q.1 ≠ start ∧ p' = (q.1, q.2.opposite) ∧ g.portExists p' = true

/-- The step relation is injective: links and `opposite` are involutions. -/
theorem PortGraph.walkNext_inj {g : PortGraph} (hg : g.LinksOK) {start : Nat} {p p' x : Port}
    (h : g.walkNext start p x) (h' : g.walkNext start p' x) : p = p' := by
  obtain ⟨q, hq, -, hx, -⟩ := h
  obtain ⟨q', hq', -, hx', -⟩ := h'
  have e : q = q' := by
    rw [hx] at hx'
    obtain ⟨q1, q2⟩ := q
    obtain ⟨q1', q2'⟩ := q'
    simp only [Prod.mk.injEq] at hx'
    rw [hx'.1, POff.opposite_inj hx'.2]
  subst e
  have h1 := hg.portLink_symm hq
  have h2 := hg.portLink_symm hq'
  rw [h1] at h2
  exact Option.some.inj h2

theorem walkPathFrom_none (g : PortGraph) (start f : Nat) : walkPathFrom g start f none = [] := by
  cases f <;> rfl

theorem walkPathFrom_succ (g : PortGraph) (start f : Nat) (p : Port) :
    walkPathFrom g start (f + 1) (some p) =
      match g.portLink p with
      | none => []
      | some prev =>
        if prev.1 = start then []
        else
          (some prev, prev.1,
            if g.portExists (prev.1, prev.2.opposite) then some (prev.1, prev.2.opposite) else none) ::
          walkPathFrom g start f
            (if g.portExists (prev.1, prev.2.opposite) then some (prev.1, prev.2.opposite) else none) :=
  rfl

/-- If a fuelled run is shorter than its fuel, more fuel changes nothing. -/
theorem walkPathFrom_fuel_mono (g : PortGraph) (start : Nat) :
    ∀ (f : Nat) (nx : Option Port), (walkPathFrom g start f nx).length < f →
      ∀ f', f ≤ f' → walkPathFrom g start f' nx = walkPathFrom g start f nx
  | 0, _, h, _, _ => absurd h (Nat.not_lt_zero _)
  | f + 1, none, _, f', _ => by rw [walkPathFrom_none, walkPathFrom_none]
  | f + 1, some p, h, f', hf => by
    obtain ⟨f'', rfl⟩ : ∃ f'', f' = f'' + 1 := ⟨f' - 1, by omega⟩
    rw [walkPathFrom_succ] at h ⊢
    rw [walkPathFrom_succ]
    cases hl : g.portLink p with
    | none => rfl
    | some prev =>
      rw [hl] at h
      simp only at h ⊢
      by_cases hc : prev.1 = start
      · rw [if_pos hc, if_pos hc]
      · rw [if_neg hc] at h
        rw [if_neg hc, if_neg hc]
        simp only [List.length_cons] at h
        rw [walkPathFrom_fuel_mono g start f _ (by omega) f'' (by omega)]

/-- Invariant of the walk: `p` is the port the walk is about to leave through, `V` the ports it
left through before. -/
structure WalkInv (g : PortGraph) (start : Nat) (p : Port) (V : List Port) : Prop where
  nodup : (p :: V).Nodup
  ex : ∀ x ∈ p :: V, g.portExists x = true
  pred : ∀ x ∈ p :: V, x.1 = start ∨ ∃ y ∈ V, g.walkNext start y x

theorem WalkInv.init {g : PortGraph} {start : Nat} {off : POff}
    (h : g.portExists (start, off) = true) : WalkInv g start (start, off) [] where
  nodup := by simp
  ex := fun x hx => by
    rw [List.mem_singleton] at hx; subst hx; exact h
  pred := fun x hx => by
    rw [List.mem_singleton] at hx; subst hx; exact Or.inl rfl

theorem WalkInv.step {g : PortGraph} (hg : g.LinksOK) {start : Nat} {p p' : Port} {V : List Port}
    (inv : WalkInv g start p V) (h : g.walkNext start p p') : WalkInv g start p' (p :: V) where
  nodup := by
    rw [List.nodup_cons]
    refine ⟨?_, inv.nodup⟩
    intro hmem
    rcases inv.pred p' hmem with hs | ⟨y, hy, hyx⟩
    · obtain ⟨q, -, hq, hp', -⟩ := h
      rw [hp'] at hs
      exact hq hs
    · have : y = p := PortGraph.walkNext_inj hg hyx h
      subst this
      exact (List.nodup_cons.1 inv.nodup).1 hy
  ex := fun x hx => by
    rcases List.mem_cons.1 hx with rfl | hx
    · obtain ⟨q, -, -, -, he⟩ := h; exact he
    · exact inv.ex x hx
  pred := fun x hx => by
    rcases List.mem_cons.1 hx with rfl | hx
    · exact Or.inr ⟨p, List.mem_cons_self .., h⟩
    · rcases inv.pred x hx with hs | ⟨y, hy, hyx⟩
      · exact Or.inl hs
      · exact Or.inr ⟨y, List.mem_cons_of_mem _ hy, hyx⟩

/-- The walk leaves through a new port at every step, so it is at most as long as the number of
ports not yet used. -/
theorem walkPathFrom_length_inv {g : PortGraph} (hg : g.LinksOK) (start : Nat) :
    ∀ (f : Nat) (p : Port) (V : List Port), WalkInv g start p V →
      V.length + (walkPathFrom g start f (some p)).length ≤ g.portCount
  | 0, p, V, inv => by
    have := PortGraph.nodup_ports_le inv.nodup inv.ex
    simp only [List.length_cons] at this
    simp only [walkPathFrom, List.length_nil]
    omega
  | f + 1, p, V, inv => by
    have hV := PortGraph.nodup_ports_le inv.nodup inv.ex
    simp only [List.length_cons] at hV
    rw [walkPathFrom_succ]
    cases hl : g.portLink p with
    | none => simp only [List.length_nil]; omega
    | some prev =>
      simp only
      by_cases hc : prev.1 = start
      · rw [if_pos hc]; simp only [List.length_nil]; omega
      · rw [if_neg hc]
        by_cases he : g.portExists (prev.1, prev.2.opposite) = true
        · rw [if_pos he]
          have hstep : g.walkNext start p (prev.1, prev.2.opposite) := ⟨prev, hl, hc, rfl, he⟩
          have ih := walkPathFrom_length_inv hg start f _ _ (inv.step hg hstep)
          simp only [List.length_cons] at ih ⊢
          omega
        · rw [if_neg he, walkPathFrom_none]
          simp only [List.length_cons, List.length_nil]
          omega

theorem walkPathFrom_length_le {g : PortGraph} (hg : g.LinksOK) (start : Nat) (off : POff)
    (f : Nat) :
    (walkPathFrom g start f
      (if g.portExists (start, off) then some (start, off) else none)).length ≤ g.portCount := by
  by_cases he : g.portExists (start, off) = true
  · rw [if_pos he]
    have := walkPathFrom_length_inv hg start f _ _ (WalkInv.init he)
    simp only [List.length_nil] at this
    omega
  · rw [if_neg he, walkPathFrom_none]
    exact Nat.zero_le _

theorem walkPathFrom_fuel_enough {g : PortGraph} (hg : g.LinksOK) (start : Nat) (off : POff)
    (f : Nat) (hf : pgWalkFuel g ≤ f) :
    walkPathFrom g start f (if g.portExists (start, off) then some (start, off) else none) =
      walkPathFrom g start (pgWalkFuel g)
        (if g.portExists (start, off) then some (start, off) else none) := by
  apply walkPathFrom_fuel_mono g start (pgWalkFuel g) _ _ f hf
  have := walkPathFrom_length_le hg start off (pgWalkFuel g)
  have : pgWalkFuel g = g.portCount + 2 := rfl
  omega

/-- The ports the walk leaves through are new at every step. -/
theorem walkPathFrom_out_nodup {g : PortGraph} (hg : g.LinksOK) (start : Nat) :
    ∀ (f : Nat) (p : Port) (V : List Port), WalkInv g start p V →
      ((walkPathFrom g start f (some p)).map (·.2.2)).Nodup ∧
      ∀ o ∈ (walkPathFrom g start f (some p)).map (·.2.2), ∀ x ∈ p :: V, o ≠ some x
  | 0, p, V, _ => by simp [walkPathFrom]
  | f + 1, p, V, inv => by
    rw [walkPathFrom_succ]
    cases hl : g.portLink p with
    | none => simp
    | some prev =>
      simp only
      by_cases hc : prev.1 = start
      · rw [if_pos hc]; simp
      · rw [if_neg hc]
        by_cases he : g.portExists (prev.1, prev.2.opposite) = true
        · rw [if_pos he]
          have hstep : g.walkNext start p (prev.1, prev.2.opposite) := ⟨prev, hl, hc, rfl, he⟩
          have inv' := inv.step hg hstep
          obtain ⟨ih1, ih2⟩ := walkPathFrom_out_nodup hg start f _ _ inv'
          simp only [List.map_cons, List.nodup_cons]
          refine ⟨⟨fun hmem => ih2 _ hmem _ (List.mem_cons_self ..) rfl, ih1⟩, ?_⟩
          intro o ho x hx
          rcases List.mem_cons.1 ho with rfl | ho
          · intro e
            cases e
            exact (List.nodup_cons.1 inv'.nodup).1 hx
          · exact ih2 o ho x (List.mem_cons_of_mem _ hx)
        · rw [if_neg he, walkPathFrom_none]
          simp

theorem walkPath_out_nodup {g : PortGraph} (hg : g.LinksOK) (start : Nat) (off : POff) :
    ((walkPath g start off).map (·.2.2)).Nodup := by
  unfold walkPath
  by_cases he : g.portExists (start, off) = true
  · simp only [if_pos he, List.map_cons, List.nodup_cons]
    obtain ⟨h1, h2⟩ := walkPathFrom_out_nodup hg start (pgWalkFuel g) _ _ (WalkInv.init he)
    exact ⟨fun hmem => h2 _ hmem _ (List.mem_cons_self ..) rfl, h1⟩
  · simp [if_neg he, walkPathFrom_none]

/-! ### `pgSigma` agrees with `is_satisfied` -/

theorem exists_vals_of_bound (m : PGMap) :
    ∀ (ks : List PGKey), (∀ k ∈ ks, (alGet m k).isSome = true) →
      ∃ vs : List Nat, ks.map (alGet m) = vs.map some
  | [], _ => ⟨[], rfl⟩
  | k :: ks, h => by
    obtain ⟨vs, hvs⟩ := exists_vals_of_bound m ks (fun k' hk' => h k' (List.mem_cons_of_mem _ hk'))
    obtain ⟨v, hv⟩ := Option.isSome_iff_exists.1 (h k (List.mem_cons_self ..))
    exact ⟨v :: vs, by simp [hv, hvs]⟩

/-- On an `isNotEqual` constraint whose keys are bound, `pgSigma` is `is_satisfied == Ok(true)`. -/
theorem pgSigma_sat (ρ : PGCons → Bool) (m : PGMap) (g : PortGraph) (n : Nat) (first : PGKey)
    (others : List PGKey) (hb : ∀ k ∈ first :: others, (alGet m k).isSome = true) :
    pgSigma ρ m ⟨.isNotEqual n, first :: others⟩ = true ↔
      isSatisfied alGet pgCheck (⟨.isNotEqual n, first :: others⟩ : PGCons) g m =
        .ok (some true) := by
  rw [pgSigma_ne ρ m n first others hb]
  obtain ⟨vs, hvs⟩ := exists_vals_of_bound m (first :: others) hb
  have hlog := c16_sat_bound alGet pgCheck (⟨.isNotEqual n, first :: others⟩ : PGCons) g m vs hvs
  unfold isSatisfied
  rw [hlog]
  cases vs with
  | nil => cases hvs
  | cons v vs =>
    simp only [List.map_cons, List.cons.injEq] at hvs
    obtain ⟨hv, hvs⟩ := hvs
    simp only [Except.ok.injEq]
    rw [pgCheck_notEqual, hv]
    constructor
    · intro h hmem
      have : some v ∈ vs.map some := List.mem_map.2 ⟨v, hmem, rfl⟩
      rw [← hvs] at this
      obtain ⟨k, hk, hkv⟩ := List.mem_map.1 this
      exact h k hk hkv
    · intro h k hk hkv
      have : some v ∈ others.map (alGet m) := List.mem_map.2 ⟨k, hk, hkv⟩
      rw [hvs] at this
      obtain ⟨w, hw, hwv⟩ := List.mem_map.1 this
      cases hwv
      exact h hw

/-! ### Example data for the non-vacuity examples of `Props/TPG.lean` -/
namespace PGEx
def o0 : POff := ⟨.out, 0⟩
def o1 : POff := ⟨.out, 1⟩
def i0 : POff := ⟨.inc, 0⟩
/-- A path `0 → 1 → 2`. -/
def gPath : PortGraph := ⟨[some ⟨0, 1⟩, some ⟨1, 1⟩, some ⟨1, 0⟩],
  [((0, o0), (1, i0)), ((1, o0), (2, i0))]⟩
/-- The path with its nodes renamed by `n ↦ 2 - n`. -/
def gPathRev : PortGraph := ⟨[some ⟨1, 0⟩, some ⟨1, 1⟩, some ⟨0, 1⟩],
  [((2, o0), (1, i0)), ((1, o0), (0, i0))]⟩
/-- The path plus an isolated node. -/
def gPathNode : PortGraph := ⟨[some ⟨0, 1⟩, some ⟨1, 1⟩, some ⟨1, 0⟩, some ⟨1, 1⟩],
  [((0, o0), (1, i0)), ((1, o0), (2, i0))]⟩
/-- The path with one more input port on node 0 and one more output port on node 2. -/
def gPathPorts : PortGraph := ⟨[some ⟨1, 1⟩, some ⟨1, 1⟩, some ⟨1, 1⟩],
  [((0, o0), (1, i0)), ((1, o0), (2, i0))]⟩
/-- A directed triangle `0 → 1 → 2 → 0`: `gPathPorts` with the two free ports linked. -/
def gCyc : PortGraph := ⟨[some ⟨1, 1⟩, some ⟨1, 1⟩, some ⟨1, 1⟩],
  [((0, o0), (1, i0)), ((1, o0), (2, i0)), ((2, o0), (0, i0))]⟩
/-- Not `LinksOK`: the input port `(1, i0)` occurs in two links. -/
def gBad : PortGraph := ⟨[some ⟨0, 1⟩, some ⟨1, 1⟩, some ⟨1, 1⟩],
  [((0, o0), (1, i0)), ((1, o0), (2, i0)), ((2, o0), (1, i0))]⟩
def k1 : PGKey := .along 0 o0 1
def k2 : PGKey := .along 0 o0 2
/-- Three `isNotEqual` constraints on the same first key (as they arise from three patterns). -/
def csNE : List PGCons :=
  [⟨.isNotEqual 2, [k2, .root 0, k1]⟩, ⟨.isNotEqual 1, [k2, .root 0]⟩, ⟨.isNotEqual 1, [k2, k1]⟩]
/-- `constraint_vec` of the path rooted at node 0. -/
def csPath : List PGCons :=
  [⟨.isNotEqual 1, [k1, .root 0]⟩, ⟨.isConnected o0 i0, [.root 0, k1]⟩,
   ⟨.isNotEqual 2, [k2, .root 0, k1]⟩, ⟨.isConnected o0 i0, [k1, k2]⟩]
end PGEx

end Pm
