/-
Proofs/BuildMerge.lean — the merge step of `try_merge_new_nodes` (`doMerge`, `mergesLogged`):
states with the same accepted ids and the same set of `(constraint, target)` transitions are
folded into one; every language, the invariant, the root and `DetOKE` are preserved.
-/
import PmVerif.Proofs.BuildCommon
namespace Pm

/-! ### `mapR` -/

theorem mapR_mem_in {α β} {f : α → R β} : ∀ {xs : List α} {ys : List β}, mapR f xs = .ok ys →
    ∀ x ∈ xs, ∃ y ∈ ys, f x = .ok y
  | [], _, _, x, hx => by cases hx
  | x0 :: xs, ys, h, x, hx => by
    unfold mapR at h
    split at h
    · cases h
    · rename_i y hy
      split at h
      · cases h
      · rename_i ys' hys
        cases h
        rcases List.mem_cons.1 hx with rfl | hx
        · exact ⟨y, List.mem_cons_self, hy⟩
        · obtain ⟨y', hy', hf⟩ := mapR_mem_in hys x hx
          exact ⟨y', List.mem_cons_of_mem _ hy', hf⟩

theorem mapR_mem_out {α β} {f : α → R β} : ∀ {xs : List α} {ys : List β}, mapR f xs = .ok ys →
    ∀ y ∈ ys, ∃ x ∈ xs, f x = .ok y
  | [], ys, h, y, hy => by
    unfold mapR at h; cases h; cases hy
  | x0 :: xs, ys, h, y, hy => by
    unfold mapR at h
    split at h
    · cases h
    · rename_i y0 hy0
      split at h
      · cases h
      · rename_i ys' hys
        cases h
        rcases List.mem_cons.1 hy with rfl | hy
        · exact ⟨x0, List.mem_cons_self, hy0⟩
        · obtain ⟨x', hx', hf⟩ := mapR_mem_out hys y hy
          exact ⟨x', List.mem_cons_of_mem _ hx', hf⟩

namespace Automaton
variable {K P : Type}

/-! ### Edges as triples; twins -/

/-- There is a transition from `x` to `d` carrying `c`. -/
def HasEdge (a : Automaton K P) (x d : Nat) (c : Option (Constraint K P)) : Prop :=
  ∃ t, a.g.edge? t = some ⟨x, d, c⟩

theorem HasEdge.of_edge {a : Automaton K P} {t : Nat} {e : GEdge (Option (Constraint K P))}
    (h : a.g.edge? t = some e) : HasEdge a e.src e.dst e.w := by
  cases e; exact ⟨t, h⟩

/-- Same accepted ids and same set of `(constraint, target)` transitions. -/
structure Twin (a : Automaton K P) (x y : Nat) : Prop where
  ids : ∀ pid, a.Ids x pid ↔ a.Ids y pid
  out : ∀ d c, HasEdge a x d c ↔ HasEdge a y d c
  det : IsDet a x ↔ IsDet a y

theorem Twin.refl (a : Automaton K P) (x : Nat) : Twin a x x :=
  ⟨fun _ => Iff.rfl, fun _ _ => Iff.rfl, Iff.rfl⟩

theorem Twin.symm {a : Automaton K P} {x y : Nat} (h : Twin a x y) : Twin a y x :=
  ⟨fun p => (h.ids p).symm, fun d c => (h.out d c).symm, h.det.symm⟩

theorem Twin.trans {a : Automaton K P} {x y z : Nat} (h1 : Twin a x y) (h2 : Twin a y z) :
    Twin a x z :=
  ⟨fun p => (h1.ids p).trans (h2.ids p), fun d c => (h1.out d c).trans (h2.out d c),
    h1.det.trans h2.det⟩

/-- Twins accept the same language. -/
theorem Twin.lang {σ : Constraint K P → Bool} {a : Automaton K P} (ok : OrdersOK a) {x y : Nat}
    (h : Twin a x y) (pid : Nat) : AccND σ a x pid ↔ AccND σ a y pid := by
  have key : ∀ {x y}, Twin a x y → AccND σ a x pid → AccND σ a y pid := by
    intro x y h hx
    rcases (accND_iff ok).1 hx with hi | ⟨t, e, he, hs, hc, hacc⟩
    · exact .of_ids ((h.ids pid).1 hi)
    · subst hs
      obtain ⟨t', ht'⟩ := (h.out _ _).1 (HasEdge.of_edge he)
      exact AccND.of_edge ok ht' hc hacc
  exact ⟨key h, key h.symm⟩

/-- No transition between twins (it would give a self loop). -/
theorem Twin.no_edge {a : Automaton K P} (inv : Inv a) {x y : Nat} (h : Twin a x y)
    (c : Option (Constraint K P)) : ¬ HasEdge a x y c := by
  intro hx
  obtain ⟨t, ht⟩ := (h.out y c).1 hx
  exact inv.noloop t _ ht rfl

/-! ### The contract of a merge step -/

/-- Contract of a merge step. -/
structure MergeStep (σ : Constraint K P → Bool) (a a' : Automaton K P) : Prop where
  inv : Inv a'
  root : a'.root = a.root
  rootSrc : RootSrc a → RootSrc a'
  live : ∀ x, a'.Live x → a.Live x
  lang : LangEq σ a a'
  detFlag : ∀ x, IsDet a' x → IsDet a x
  det : DetOKE σ a → DetOKE σ a'

theorem MergeStep.refl {σ : Constraint K P → Bool} {a : Automaton K P} (inv : Inv a) :
    MergeStep σ a a :=
  ⟨inv, rfl, id, fun _ h => h, LangEq.refl σ a, fun _ h => h, id⟩

theorem MergeStep.trans {σ : Constraint K P → Bool} {a a1 a2 : Automaton K P}
    (s1 : MergeStep σ a a1) (s2 : MergeStep σ a1 a2) : MergeStep σ a a2 where
  inv := s2.inv
  root := s2.root.trans s1.root
  rootSrc h := s2.rootSrc (s1.rootSrc h)
  live x h := s1.live x (s2.live x h)
  lang := LangEq.trans s1.lang s2.lang fun x _ h2 => s2.live x h2
  detFlag x h := s1.detFlag x (s2.detFlag x h)
  det h := s2.det (s1.det h)

/-! ### Folding one state into its twin -/

/-- `a'` is `a` where the state `n` is removed and its incoming transitions are re-routed to
`first`. -/
structure Fold (a a' : Automaton K P) (first n : Nat) : Prop where
  inv : Inv a'
  root : a'.root = a.root
  wt : ∀ x w, x ≠ n → a.g.weight? x = some w →
    ∃ w', a'.g.weight? x = some w' ∧ w'.matches_ = w.matches_ ∧ w'.det = w.det
  wt' : ∀ x w', a'.g.weight? x = some w' →
    x ≠ n ∧ ∃ w, a.g.weight? x = some w ∧ w'.matches_ = w.matches_ ∧ w'.det = w.det
  keep : ∀ x d c, HasEdge a x d c → x ≠ n → d ≠ n → HasEdge a' x d c
  moved : ∀ x c, HasEdge a x n c → HasEdge a' x first c
  sound : ∀ x d c, HasEdge a' x d c →
    (HasEdge a x d c ∧ x ≠ n ∧ d ≠ n) ∨ (d = first ∧ HasEdge a x n c)

/-- `move_incoming(first, n)` followed by `remove_state(n)`. -/
theorem fold_of_merge {a a1 : Automaton K P} (inv : Inv a) {first n : Nat} (hne : first ≠ n)
    (hno : ∀ c, ¬ HasEdge a first n c) (h : a.moveIncoming first n = .ok a1) :
    Fold a (a1.removeState n) first n := by
  have m := moveIncoming_moved inv h
  have hin : ∀ t e, a1.g.edge? t = some e → e.dst ≠ n := by
    intro t e he
    rcases m.sound t e he with ⟨h0, hx⟩ | ⟨_, _, e0, _, _, rfl⟩
    · exact fun hd => hx (inv.mem_incoming.2 ⟨e, h0, hd⟩)
    · exact hne
  obtain ⟨hwt, hedge, hroot, inv2⟩ := removeState_spec m.inv n hin
  refine ⟨inv2, hroot.trans m.root, fun x w hx hw => ?_, fun x w' hw' => ?_,
    fun x d c he hx hd => ?_, fun x c he => ?_, fun x d c he => ?_⟩
  · obtain ⟨w', hw', h1, h2⟩ := m.wt x w hw
    exact ⟨w', by rw [hwt, if_neg hx]; exact hw', h1, h2⟩
  · rw [hwt] at hw'
    split at hw'
    · cases hw'
    · rename_i hx
      refine ⟨hx, ?_⟩
      cases h0 : a.g.weight? x with
      | none => rw [m.dead x h0] at hw'; cases hw'
      | some w =>
        obtain ⟨w'', hw'', h1, h2⟩ := m.wt x w h0
        rw [hw'] at hw''; cases hw''
        exact ⟨w, rfl, h1, h2⟩
  · obtain ⟨t, ht⟩ := he
    have hnot : t ∉ a.incomingTransitions n := fun hm => by
      obtain ⟨e, he, hd'⟩ := inv.mem_incoming.1 hm
      rw [ht] at he; cases he; exact hd hd'
    exact ⟨t, (hedge t _).2 ⟨m.keep t _ ht hnot, hx⟩⟩
  · obtain ⟨t, ht⟩ := he
    have hmem : t ∈ a.incomingTransitions n := inv.mem_incoming.2 ⟨_, ht, rfl⟩
    have hxf : x ≠ first := fun hx => hno c (hx ▸ ⟨t, ht⟩)
    have hxn : x ≠ n := inv.noloop t _ ht
    obtain ⟨y, hy⟩ := m.moved t hmem _ ht hxf
    exact ⟨y, (hedge y _).2 ⟨hy, hxn⟩⟩
  · obtain ⟨t, ht⟩ := he
    obtain ⟨h1, hxn⟩ := (hedge t _).1 ht
    rcases m.sound t _ h1 with ⟨h0, hx⟩ | ⟨t0, ht0, e0, he0, _, heq⟩
    · refine .inl ⟨⟨t, h0⟩, hxn, fun hd => hx (inv.mem_incoming.2 ⟨_, h0, hd⟩)⟩
    · obtain ⟨e1, he1, hd1⟩ := inv.mem_incoming.1 ht0
      rw [he0] at he1; cases he1
      have hed := HasEdge.of_edge he0
      cases heq
      rw [hd1] at hed
      exact .inr ⟨rfl, hed⟩

theorem Fold.live_iff {a a' : Automaton K P} {first n : Nat} (f : Fold a a' first n) (x : Nat) :
    a'.Live x ↔ a.Live x ∧ x ≠ n := by
  rw [Automaton.live_iff, Automaton.live_iff]
  constructor
  · rintro ⟨w', hw'⟩
    obtain ⟨hx, w, hw, _⟩ := f.wt' x w' hw'
    exact ⟨⟨w, hw⟩, hx⟩
  · rintro ⟨⟨w, hw⟩, hx⟩
    obtain ⟨w', hw', _⟩ := f.wt x w hx hw
    exact ⟨w', hw'⟩

theorem Fold.ids_back {a a' : Automaton K P} {first n : Nat} (f : Fold a a' first n)
    {x pid : Nat} (h : a'.Ids x pid) : a.Ids x pid := by
  obtain ⟨w', hw', hp⟩ := h
  obtain ⟨_, w, hw, h1, _⟩ := f.wt' x w' hw'
  exact ⟨w, hw, h1 ▸ hp⟩

theorem Fold.ids_fwd {a a' : Automaton K P} {first n : Nat} (f : Fold a a' first n)
    {x pid : Nat} (hx : x ≠ n) (h : a.Ids x pid) : a'.Ids x pid := by
  obtain ⟨w, hw, hp⟩ := h
  obtain ⟨w', hw', h1, _⟩ := f.wt x w hx hw
  exact ⟨w', hw', h1 ▸ hp⟩

theorem Fold.det_back {a a' : Automaton K P} {first n : Nat} (f : Fold a a' first n)
    {x : Nat} (h : IsDet a' x) : IsDet a x := by
  obtain ⟨w', hw', hd⟩ := h
  obtain ⟨_, w, hw, _, h2⟩ := f.wt' x w' hw'
  exact ⟨w, hw, h2 ▸ hd⟩

theorem Fold.det_fwd {a a' : Automaton K P} {first n : Nat} (f : Fold a a' first n)
    {x : Nat} (hx : x ≠ n) (h : IsDet a x) : IsDet a' x := by
  obtain ⟨w, hw, hd⟩ := h
  obtain ⟨w', hw', _, h2⟩ := f.wt x w hx hw
  exact ⟨w', hw', h2.trans hd⟩

/-- A state other than `n` without a transition into `n` keeps its transitions. -/
theorem Fold.out_iff {a a' : Automaton K P} {first n : Nat} (f : Fold a a' first n)
    {x : Nat} (hx : x ≠ n) (hno : ∀ c, ¬ HasEdge a x n c) (d : Nat)
    (c : Option (Constraint K P)) : HasEdge a' x d c ↔ HasEdge a x d c := by
  constructor
  · intro h
    rcases f.sound x d c h with ⟨h0, _, _⟩ | ⟨_, h0⟩
    · exact h0
    · exact absurd h0 (hno c)
  · intro h
    exact f.keep x d c h hx fun hd => hno c (hd ▸ h)

/-- Acceptance in the folded automaton comes from the original one. -/
theorem Fold.acc_back {σ : Constraint K P → Bool} {a a' : Automaton K P} {first n : Nat}
    (f : Fold a a' first n) (inv : Inv a) (tw : Twin a first n) {x pid : Nat}
    (h : AccND σ a' x pid) : AccND σ a x pid := by
  refine AccND.edge_induction f.inv.ok (T := fun s pid => AccND σ a s pid) ?_ ?_ h
  · intro s pid hi; exact .of_ids (f.ids_back hi)
  · intro t e pid he hc _ ih
    rcases f.sound _ _ _ (HasEdge.of_edge he) with ⟨⟨t0, h0⟩, _, _⟩ | ⟨hd, ⟨t0, h0⟩⟩
    · exact AccND.of_edge inv.ok h0 hc ih
    · rw [hd] at ih
      exact AccND.of_edge (e := ⟨e.src, n, e.w⟩) inv.ok h0 hc ((tw.lang inv.ok pid).1 ih)

/-- Acceptance in the original automaton is kept, reading `n` as `first`. -/
theorem Fold.acc_fwd {σ : Constraint K P → Bool} {a a' : Automaton K P} {first n : Nat}
    (f : Fold a a' first n) (inv : Inv a) (hne : first ≠ n) (tw : Twin a first n) {x pid : Nat}
    (h : AccND σ a x pid) : AccND σ a' (if x = n then first else x) pid := by
  refine AccND.transfer inv.ok (fun _ => True) (fun s => if s = n then first else s) ?_ ?_ h
    trivial
  · intro s pid _ hi
    by_cases hs : s = n
    · simp only [if_pos hs]
      subst hs
      exact .of_ids (f.ids_fwd hne ((tw.ids pid).2 hi))
    · simp only [if_neg hs]
      exact .of_ids (f.ids_fwd hs hi)
  · intro t e he _ hc
    refine ⟨trivial, fun pid _ ih => ?_⟩
    have hed := HasEdge.of_edge he
    by_cases hs : e.src = n
    · have hdn : e.dst ≠ n := fun hd => inv.noloop t e he (hs.trans hd.symm)
      simp only [if_pos hs]
      simp only [if_neg hdn] at ih
      rw [hs] at hed
      obtain ⟨t', ht'⟩ := f.keep _ _ _ ((tw.out _ _).2 hed) hne hdn
      exact AccND.of_edge f.inv.ok ht' hc ih
    · simp only [if_neg hs]
      by_cases hd : e.dst = n
      · simp only [if_pos hd] at ih
        rw [hd] at hed
        obtain ⟨t', ht'⟩ := f.moved _ _ hed
        exact AccND.of_edge (e := ⟨e.src, first, e.w⟩) f.inv.ok ht' hc ih
      · simp only [if_neg hd] at ih
        obtain ⟨t', ht'⟩ := f.keep _ _ _ hed hs hd
        exact AccND.of_edge f.inv.ok ht' hc ih

theorem Fold.lang {σ : Constraint K P → Bool} {a a' : Automaton K P} {first n : Nat}
    (f : Fold a a' first n) (inv : Inv a) (hne : first ≠ n) (tw : Twin a first n) {x : Nat}
    (hx : x ≠ n) (pid : Nat) : AccND σ a' x pid ↔ AccND σ a x pid := by
  refine ⟨f.acc_back inv tw, fun h => ?_⟩
  have := f.acc_fwd (σ := σ) inv hne tw h
  rwa [if_neg hx] at this

/-- Surviving twins of `first` stay twins of `first`. -/
theorem Fold.twin {a a' : Automaton K P} {first n m : Nat} (f : Fold a a' first n) (inv : Inv a)
    (hne : first ≠ n) (hmn : m ≠ n) (tw : Twin a first n) (tm : Twin a first m) :
    Twin a' first m := by
  have h1 : ∀ c, ¬ HasEdge a first n c := tw.no_edge inv
  have h2 : ∀ c, ¬ HasEdge a m n c := (tm.symm.trans tw).no_edge inv
  refine ⟨fun pid => ?_, fun d c => ?_, ?_⟩
  · exact ⟨fun h => f.ids_fwd hmn ((tm.ids pid).1 (f.ids_back h)),
      fun h => f.ids_fwd hne ((tm.ids pid).2 (f.ids_back h))⟩
  · rw [f.out_iff hne h1, f.out_iff hmn h2]; exact tm.out d c
  · exact ⟨fun h => f.det_fwd hmn (tm.det.1 (f.det_back h)),
      fun h => f.det_fwd hne (tm.det.2 (f.det_back h))⟩

/-- Folding a twin is a merge step. -/
theorem Fold.mergeStep {σ : Constraint K P → Bool} {a a' : Automaton K P} {first n : Nat}
    (f : Fold a a' first n) (inv : Inv a) (hne : first ≠ n) (tw : Twin a first n)
    (hrf : a.root ≠ first) (hrn : a.root ≠ n) : MergeStep σ a a' where
  inv := f.inv
  root := f.root
  rootSrc := by
    rintro ⟨hl, hno⟩
    refine ⟨?_, fun t e he hd => ?_⟩
    · rw [f.root]; exact (f.live_iff _).2 ⟨hl, hrn⟩
    · rw [f.root] at hd
      rcases f.sound _ _ _ (HasEdge.of_edge he) with ⟨⟨t0, h0⟩, _, _⟩ | ⟨hd', _⟩
      · exact hno t0 _ h0 hd
      · exact hrf (hd.symm.trans hd')
  live x h := ((f.live_iff x).1 h).1
  lang x _ hx' pid := f.lang inv hne tw ((f.live_iff x).1 hx').2 pid
  detFlag x h := f.det_back h
  det dok := by
    refine detOKE_transfer dok fun x hx => ⟨f.det_back hx, fun t e he hs => ?_, fun pid hc => ?_⟩
    · have hed := HasEdge.of_edge he
      rw [hs] at hed
      rcases f.sound _ _ _ hed with ⟨⟨t0, h0⟩, _, hdn⟩ | ⟨hd, ⟨t0, h0⟩⟩
      · exact ⟨⟨t0, _, h0, rfl, rfl⟩, fun pid hacc =>
          ⟨t0, _, h0, rfl, rfl, (f.lang inv hne tw hdn pid).1 hacc⟩⟩
      · refine ⟨⟨t0, _, h0, rfl, rfl⟩, fun pid hacc => ⟨t0, _, h0, rfl, rfl, ?_⟩⟩
        rw [hd] at hacc
        exact (tw.lang inv.ok pid).1 ((f.lang inv hne tw hne pid).1 hacc)
    · obtain ⟨w', hw', _⟩ := hx
      have hxn : x ≠ n := (f.wt' x w' hw').1
      obtain ⟨t, e, c, he, hs, hw, hσ, hacc⟩ := hc
      have hed := HasEdge.of_edge he
      rw [hs, hw] at hed
      by_cases hd : e.dst = n
      · rw [hd] at hed hacc
        obtain ⟨t', ht'⟩ := f.moved _ _ hed
        exact ⟨t', _, c, ht', rfl, rfl, hσ,
          (f.lang inv hne tw hne pid).2 ((tw.lang inv.ok pid).2 hacc)⟩
      · obtain ⟨t', ht'⟩ := f.keep _ _ _ hed hxn hd
        exact ⟨t', _, c, ht', rfl, rfl, hσ, (f.lang inv hne tw hd pid).2 hacc⟩

/-! ### `mergeLoop` -/

theorem mergeLoop_spec {σ : Constraint K P → Bool} {first : Nat} :
    ∀ (rest : List Nat) {a a' : Automaton K P}, Inv a → (first :: rest).Nodup →
    a.root ∉ first :: rest → (∀ m ∈ rest, Twin a first m) →
    a.mergeLoop first rest = .ok a' → MergeStep σ a a'
  | [], a, a', inv, _, _, _, h => by
    unfold mergeLoop at h; cases h; exact MergeStep.refl inv
  | n :: ns, a, a', inv, hnd, hroot, htw, h => by
    unfold mergeLoop at h
    split at h
    · cases h
    · rename_i a1 hmv
      have tw : Twin a first n := htw n List.mem_cons_self
      rw [List.nodup_cons] at hnd
      obtain ⟨hfn, hnd'⟩ := hnd
      rw [List.nodup_cons] at hnd'
      have hne : first ≠ n := fun hx => hfn (hx ▸ List.mem_cons_self)
      have f := fold_of_merge inv hne (tw.no_edge inv) hmv
      have hrf : a.root ≠ first := fun hx => hroot (hx ▸ List.mem_cons_self)
      have hrn : a.root ≠ n := fun hx =>
        hroot (List.mem_cons_of_mem _ (hx ▸ List.mem_cons_self))
      have s1 : MergeStep σ a (a1.removeState n) := f.mergeStep inv hne tw hrf hrn
      refine s1.trans (mergeLoop_spec ns f.inv ?_ ?_ ?_ h)
      · exact List.nodup_cons.2 ⟨fun hm => hfn (List.mem_cons_of_mem _ hm), hnd'.2⟩
      · rw [f.root]
        intro hm
        rcases List.mem_cons.1 hm with hm | hm
        · exact hrf hm
        · exact hroot (List.mem_cons_of_mem _ (List.mem_cons_of_mem _ hm))
      · intro m hm
        have hmn : m ≠ n := fun hx => hnd'.1 (hx ▸ hm)
        exact f.twin inv hne hmn tw (htw m (List.mem_cons_of_mem _ hm))

/-! ### `sameTuple` gives twins -/

theorem tupleTransitions_mem {a : Automaton K P} (inv : Inv a) {s : Nat}
    {ts : List (Option (Constraint K P) × Nat)} (h : a.tupleTransitions s = .ok ts)
    (c : Option (Constraint K P)) (d : Nat) : (c, d) ∈ ts ↔ HasEdge a s d c := by
  unfold tupleTransitions at h
  split at h
  · cases h
  · rename_i ts0 hts0
    obtain ⟨w, hw, rfl⟩ := allTransitions_ok_iff.1 hts0
    constructor
    · intro hm
      obtain ⟨t, ht, hf⟩ := mapR_mem_out h _ hm
      obtain ⟨e, he, hs⟩ := (inv.mem_all_iff hw).1 ht
      split at hf
      · rename_i c' n' hc hn
        cases hf
        obtain ⟨e1, he1, hw1⟩ := constraintOf_ok_iff.1 hc
        obtain ⟨e2, he2, hd2⟩ := nextState_ok_iff.1 hn
        rw [he] at he1 he2; cases he1; cases he2
        have := HasEdge.of_edge he
        rwa [hs, hw1, hd2] at this
      · cases hf
      · cases hf
    · rintro ⟨t, ht⟩
      have hm : t ∈ w.corder ++ w.eorder := (inv.mem_all_iff hw).2 ⟨_, ht, rfl⟩
      obtain ⟨y, hy, hf⟩ := mapR_mem_in h t hm
      have hc : a.constraintOf t = .ok c := constraintOf_ok_iff.2 ⟨_, ht, rfl⟩
      have hn : a.nextState t = .ok d := nextState_ok_iff.2 ⟨_, ht, rfl⟩
      simp only [hc, hn] at hf
      cases hf
      exact hy

variable [DecidableEq K] [DecidableEq P]

theorem sameTuple_twin {a : Automaton K P} (inv : Inv a) {s s' : Nat}
    (h : a.sameTuple s s' = .ok true) : Twin a s s' := by
  unfold sameTuple at h
  split at h
  · rename_i w w' ts ts' hw hw' hts hts'
    rw [state_ok_iff] at hw hw'
    simp only [Except.ok.injEq, Bool.and_eq_true, beq_iff_eq, List.all_eq_true,
      List.contains_iff_mem] at h
    obtain ⟨⟨⟨hdet, h1⟩, h2⟩, hts_eq⟩ := h
    subst hts_eq
    refine ⟨fun pid => ?_, fun d c => ?_, ?_⟩
    · constructor
      · rintro ⟨w0, hw0, hp⟩
        rw [hw] at hw0; cases hw0
        exact ⟨w', hw', h1 pid hp⟩
      · rintro ⟨w0, hw0, hp⟩
        rw [hw'] at hw0; cases hw0
        exact ⟨w, hw, h2 pid hp⟩
    · rw [← tupleTransitions_mem inv hts, ← tupleTransitions_mem inv hts']
    · constructor
      · rintro ⟨w0, hw0, hd⟩
        rw [hw] at hw0; cases hw0
        exact ⟨w', hw', hdet ▸ hd⟩
      · rintro ⟨w0, hw0, hd⟩
        rw [hw'] at hw0; cases hw0
        exact ⟨w, hw, hdet ▸ hd⟩
  all_goals cases h

/-! ### `doMerge`, `mergesLogged` -/

theorem doMerge_spec {σ : Constraint K P → Bool} {a a' : Automaton K P} {node : Nat}
    {nodes : List Nat} (inv : Inv a) (h : a.doMerge node nodes = .ok a') : MergeStep σ a a' := by
  unfold doMerge at h
  split at h
  · cases h; exact MergeStep.refl inv
  · cases h; exact MergeStep.refl inv
  · rename_i first rest _
    split at h
    · cases h
    · split at h
      · cases h
      · rename_i hnd
        split at h
        · cases h
        · rename_i same hsame
          split at h
          · cases h
          · rename_i hall
            split at h
            · cases h
            · split at h
              · cases h
              · rename_i hrt
                have hnd' : (first :: rest).Nodup := by
                  cases hd : decide (first :: rest).Nodup
                  · rw [hd] at hnd; exact absurd rfl hnd
                  · exact of_decide_eq_true hd
                have hroot : a.root ∉ first :: rest := fun hm =>
                  hrt (List.contains_iff_mem.2 hm)
                have hall' : ∀ y ∈ same, y = true := by
                  cases hd : same.all id
                  · rw [hd] at hall; exact absurd rfl hall
                  · intro y hy
                    exact List.all_eq_true.1 hd y hy
                have htw : ∀ n ∈ first :: rest, Twin a node n := by
                  intro n hn
                  obtain ⟨y, hy, hf⟩ := mapR_mem_in hsame n hn
                  rw [hall' y hy] at hf
                  exact sameTuple_twin inv hf
                have hfirst := htw first List.mem_cons_self
                refine mergeLoop_spec rest inv hnd' hroot ?_ h
                intro m hm
                exact hfirst.symm.trans (htw m (List.mem_cons_of_mem _ hm))

theorem mergesLogged_spec {σ : Constraint K P → Bool} : ∀ (evs : List Ev) {a a' : Automaton K P}
    {evs' : List Ev}, Inv a →
    a.mergesLogged evs = .ok (a', evs') → MergeStep σ a a' ∧ ∃ pre, evs = pre ++ evs' := by
  intro evs
  induction evs with
  | nil =>
    intro a a' evs' inv h
    unfold mergesLogged at h
    cases h
    exact ⟨MergeStep.refl inv, [], rfl⟩
  | cons ev evs0 ih =>
    intro a a' evs' inv h
    cases ev with
    | merge n nodes =>
      unfold mergesLogged at h
      split at h
      · cases h
      · rename_i a1 hdm
        have s1 : MergeStep σ a a1 := doMerge_spec inv hdm
        obtain ⟨s2, pre, hpre⟩ := ih s1.inv h
        exact ⟨s1.trans s2, Ev.merge n nodes :: pre, by rw [hpre]; rfl⟩
    | _ =>
      unfold mergesLogged at h
      cases h
      exact ⟨MergeStep.refl inv, [], rfl⟩

end Automaton
end Pm
