/-
Proofs/C08Fuse.lean — `make_constraints_unique(s)` at the level of edges:

* `fuseGroup_parts`: a successful `fuseGroup` is "remove the group `ts`" (`Shrinks`), "add one
  transition `tN : s → N` with the group's constraint into a fresh state `N`"
  (`AddTransitionSpec`), "absorb the old children into `N`" (`Abs`);
* `FuseEdges`: the resulting description of every edge of the result;
* `makeConstraintsUnique_unique`: after a successful pass the transitions of `s` carry pairwise
  different constraints (`UniqueAt`); in particular `s` has at most one epsilon transition, which
  is why the `assert!` of `fail_next_state` inside `make_det` cannot fail.
Everything lives in `namespace Pm.C08`.
-/
import PmVerif.Proofs.BuildFuse
import PmVerif.Proofs.RunLemmas
namespace Pm
namespace C08
open Automaton
variable {K P : Type} [DecidableEq K] [DecidableEq P]
set_option linter.unusedSectionVars false

/-- The transitions of `s` carry pairwise different constraints. -/
def UniqueAt (a : Automaton K P) (s : Nat) : Prop :=
  ∀ t1 t2 e1 e2, a.g.edge? t1 = some e1 → a.g.edge? t2 = some e2 → e1.src = s → e2.src = s →
    e1.w = e2.w → t1 = t2

/-! ### list helpers -/

theorem sublist_flatten' {α : Type} : ∀ {l₁ l₂ : List (List α)}, l₁.Sublist l₂ →
    l₁.flatten.Sublist l₂.flatten
  | _, _, .slnil => List.Sublist.refl _
  | _, _, .cons a h => by
    rw [List.flatten_cons]
    exact (sublist_flatten' h).trans (List.sublist_append_right _ _)
  | _, _, .cons_cons a h => by
    rw [List.flatten_cons, List.flatten_cons]
    exact List.Sublist.append (List.Sublist.refl _) (sublist_flatten' h)

theorem eq_of_map_nodup {α β : Type} {f : α → β} : ∀ {l : List α} {x y : α},
    (l.map f).Nodup → x ∈ l → y ∈ l → f x = f y → x = y
  | [], _, _, _, hx, _, _ => by cases hx
  | z :: l, x, y, hnd, hx, hy, hf => by
    rw [List.map_cons, List.nodup_cons] at hnd
    rcases List.mem_cons.1 hx with hxz | hx'
    · rcases List.mem_cons.1 hy with hyz | hy'
      · exact hxz.trans hyz.symm
      · exact absurd (List.mem_map.2 ⟨y, hy', by rw [← hf, hxz]⟩) hnd.1
    · rcases List.mem_cons.1 hy with hyz | hy'
      · exact absurd (List.mem_map.2 ⟨x, hx', by rw [hf, hyz]⟩) hnd.1
      · exact eq_of_map_nodup hnd.2 hx' hy' hf

theorem two_le_length_of_mem_ne {α : Type} : ∀ {l : List α} {x y : α},
    x ∈ l → y ∈ l → x ≠ y → 2 ≤ l.length
  | [], _, _, hx, _, _ => by cases hx
  | [z], x, y, hx, hy, hne => by
    rw [List.mem_singleton] at hx hy
    exact absurd (hx.trans hy.symm) hne
  | _ :: _ :: _, _, _, _, _, _ => by simp

/-- A non-empty member of a list of lists with duplicate-free flattening occurs once. -/
theorem erase_self_not_mem : ∀ {pending : List (List Nat)} {ts : List Nat},
    pending.flatten.Nodup → ts ∈ pending → (∃ t, t ∈ ts) → ts ∉ pending.erase ts
  | [], _, _, h, _ => by cases h
  | p :: ps, ts, hnd, hmem, ⟨t, ht⟩ => by
    rw [List.flatten_cons, List.nodup_append] at hnd
    obtain ⟨_, h2, h3⟩ := hnd
    by_cases hp : p = ts
    · subst hp
      rw [List.erase_cons_head]
      intro hin
      exact absurd rfl (h3 t ht t (List.mem_flatten.2 ⟨p, hin, ht⟩))
    · rw [List.erase_cons_tail (by simpa using hp)]
      intro hin
      rcases List.mem_cons.1 hin with h | h
      · exact hp h.symm
      · rcases List.mem_cons.1 hmem with h' | h'
        · exact hp h'.symm
        · exact erase_self_not_mem h2 h' ⟨t, ht⟩ h

/-! ### the parts of `fuseGroup` -/

theorem fuseGroup_parts {a a' : Automaton K P} {s : Nat} {ts : List Nat}
    {c0 : Option (Constraint K P)} (inv : Inv a) (hs : a.Live s)
    (hg : ∀ t ∈ ts, ∃ e, a.g.edge? t = some e ∧ e.src = s ∧ e.w = c0)
    (h : a.fuseGroup s ts = .ok a') :
    ∃ a1 a2 N tN, ts ≠ [] ∧ Shrinks a a1 ts ∧ AddTransitionSpec a1 a2 s N c0 tN ∧
      Abs a2 a' N (IsOld a ts) := by
  unfold fuseGroup at h
  split at h
  · cases h
  · rename_i targets htg
    simp only at h
    have hold : ∀ x, x ∈ dedup targets ↔ IsOld a ts x := by
      intro x
      rw [mem_dedup, mem_of_mapR_ok htg]
      constructor
      · rintro ⟨t, ht, hn⟩
        obtain ⟨e, he, hd⟩ := nextState_ok_iff.1 hn
        exact ⟨t, ht, e, he, hd⟩
      · rintro ⟨t, ht, e, he, hd⟩
        exact ⟨t, ht, nextState_ok_iff.2 ⟨e, he, hd⟩⟩
    split at h
    · cases h
    · cases h
    · rename_i a1 c hrm
      split at h
      · cases h
      · rename_i a2 N hat
        obtain ⟨sh, hr, _⟩ := removeTransitions_shrinks ts inv hrm
        have hne : ts ≠ [] := by
          rintro rfl
          unfold removeTransitions at hrm
          cases hrm
        have hc : c = c0 := by
          rcases hr c rfl with ⟨_, hl⟩ | ⟨t, ht, e, he, hw⟩
          · cases hl
          · obtain ⟨e', he', _, hw'⟩ := hg t ht
            rw [he] at he'; cases he'
            exact hw.symm.trans hw'
        subst hc
        obtain ⟨tN, sp⟩ := addTransition_spec sh.inv ((sh.live_iff s).2 hs) hat
        have hliveN : a2.Live N := live_of_weight (by rw [sp.wt, if_pos rfl])
        have hdeadN : ¬ a.Live N := fun hl => sp.deadc ((sh.live_iff N).2 hl)
        have hold_live : ∀ x, IsOld a ts x → a.Live x := by
          rintro x ⟨t, _, e, he, rfl⟩; exact inv.ok.dst_live he
        have hold_ne_s : ∀ x, IsOld a ts x → x ≠ s := by
          rintro x ⟨t, ht, e, he, rfl⟩ hx
          obtain ⟨e', he', hs', _⟩ := hg t ht
          rw [he] at he'; cases he'
          exact inv.noloop t e he (hs'.trans hx.symm)
        have ab := absorbChildren_abs (dedup targets) (Abs.init sp.inv hliveN)
          (fun o ho hx => hdeadN (hx ▸ hold_live o ((hold o).1 ho)))
          (fun o ho t e he hsrc hd => by
            rw [sp.edge] at he
            split at he
            · cases he
              exact hold_ne_s o ((hold o).1 ho) hsrc.symm
            · exact sp.deadc (hd ▸ sh.inv.ok.dst_live he)) h
        exact ⟨a1, a2, N, tN, hne, sh, sp, ab.congr fun x => by simp [hold]⟩

/-- Every edge of the result of fusing the group `ts` (constraint `c0`) at `s`: the fused
transition `tN : s → N`; an edge of `a` outside the group, unchanged; or a copy, leaving the fresh
state `N`, of an edge of `a` that leaves an old child. The fused transition exists, and the
transitions of `s` outside the group survive. -/
structure FuseEdges (a a' : Automaton K P) (s : Nat) (ts : List Nat) (N tN : Nat)
    (c0 : Option (Constraint K P)) : Prop where
  inv' : Inv a'
  deadN : ¬ a.Live N
  nes : N ≠ s
  ne : ts ≠ []
  fused : a'.g.edge? tN = some ⟨s, N, c0⟩
  all : ∀ t e, a'.g.edge? t = some e →
    (t = tN ∧ e = ⟨s, N, c0⟩) ∨ (t ≠ tN ∧ t ∉ ts ∧ a.g.edge? t = some e) ∨
    (t ≠ tN ∧ e.src = N ∧ ∃ old, IsOld a ts old ∧ ∃ t0, a.g.edge? t0 = some ⟨old, e.dst, e.w⟩)
  keep : ∀ t e, a.g.edge? t = some e → t ∉ ts → e.src = s → a'.g.edge? t = some e
  live_s : a'.Live s

theorem fuseGroup_edges {a a' : Automaton K P} {s : Nat} {ts : List Nat}
    {c0 : Option (Constraint K P)} (inv : Inv a) (hs : a.Live s)
    (hg : ∀ t ∈ ts, ∃ e, a.g.edge? t = some e ∧ e.src = s ∧ e.w = c0)
    (h : a.fuseGroup s ts = .ok a') : ∃ N tN, FuseEdges a a' s ts N tN c0 := by
  obtain ⟨a1, a2, N, tN, hne, sh, sp, ab⟩ := fuseGroup_parts inv hs hg h
  have hdeadN : ¬ a.Live N := fun hl => sp.deadc ((sh.live_iff N).2 hl)
  have hNs : N ≠ s := fun e => hdeadN (e ▸ hs)
  obtain ⟨w1, hw1⟩ := live_iff.1 ((sh.live_iff s).2 hs)
  have hs2 : a2.Live s := live_of_weight
    (show a2.g.weight? s = some (addOrder c0 tN w1) by
      rw [sp.wt, if_neg (Ne.symm hNs), if_pos rfl, hw1]; rfl)
  have hold_ne_s : ∀ x, IsOld a ts x → x ≠ s := by
    rintro x ⟨t, ht, e, he, rfl⟩ hx
    obtain ⟨e', he', hs', _⟩ := hg t ht
    rw [he] at he'; cases he'
    exact inv.noloop t e he (hs'.trans hx.symm)
  have hold_live : ∀ x, IsOld a ts x → a.Live x := by
    rintro x ⟨t, _, e, he, rfl⟩; exact inv.ok.dst_live he
  -- `s` survives the absorption: it is not an old child
  have hs' : a'.Live s := by
    by_cases hl : a'.Live s
    · exact hl
    · exact absurd rfl (hold_ne_s s (ab.removed s hs2 hl))
  -- an edge of `a2` is the fused one or an edge of `a` outside the group
  have h2 : ∀ t e, a2.g.edge? t = some e →
      (t = tN ∧ e = ⟨s, N, c0⟩) ∨ (t ≠ tN ∧ t ∉ ts ∧ a.g.edge? t = some e) := by
    intro t e he
    rw [sp.edge] at he
    split at he
    · rename_i htN
      cases he; exact .inl ⟨htN, rfl⟩
    · rename_i htN
      rw [sh.edge] at he
      split at he
      · cases he
      · rename_i hts
        exact .inr ⟨htN, hts, he⟩
  refine ⟨N, tN, ab.inv, hdeadN, hNs, hne, ?_, ?_, ?_, hs'⟩
  · exact ab.old tN _ (by rw [sp.edge, if_pos rfl]) hs'
  · intro t e he
    rcases ab.new t e he with h | ⟨hsrc, old, hold, t0, ht0⟩
    · rcases h2 t e h with h | h
      · exact .inl h
      · exact .inr (.inl h)
    · by_cases htN : t = tN
      · -- the id of the fused edge still carries the fused edge
        subst htN
        have hf := ab.old t _ (by rw [sp.edge, if_pos rfl] : a2.g.edge? t = some ⟨s, N, c0⟩) hs'
        rw [he] at hf
        cases hf
        exact absurd hsrc (Ne.symm hNs)
      · refine .inr (.inr ⟨htN, hsrc, old, hold, ?_⟩)
        rcases h2 t0 _ ht0 with ⟨_, h⟩ | ⟨_, _, h⟩
        · have : old = s := by
            have := congrArg GEdge.src h
            simpa using this
          exact absurd this (hold_ne_s old hold)
        · exact ⟨t0, h⟩
  · intro t e he hts hsrc
    have h1 : a1.g.edge? t = some e := by rw [sh.edge, if_neg hts]; exact he
    have htN : t ≠ tN := by
      intro e'; subst e'
      rw [sp.fresh] at h1; cases h1
    have h2' : a2.g.edge? t = some e := by rw [sp.edge, if_neg htN]; exact h1
    exact ab.old t e h2' (hsrc ▸ hs')

/-! ### `groupTransitions` covers every transition -/

theorem groupTransitions_cover {a : Automaton K P} :
    ∀ (rest : List Nat) (acc out : List (Option (Cons K P) × List Nat)),
    a.groupTransitions rest acc = .ok out →
    ∀ t, (t ∈ rest ∨ ∃ g ∈ acc, t ∈ g.2) → ∃ g ∈ out, t ∈ g.2
  | [], acc, out, h, t, ht => by
    unfold groupTransitions at h; cases h
    rcases ht with ht | ht
    · cases ht
    · exact ht
  | u :: rest, acc, out, h, t, ht => by
    unfold groupTransitions at h
    split at h
    · cases h
    · rename_i c hc
      split at h
      · rename_i hany
        refine groupTransitions_cover rest _ out h t ?_
        rcases ht with ht | ⟨g, hg, htg⟩
        · rcases List.mem_cons.1 ht with rfl | ht
          · right
            obtain ⟨g, hg, hgc⟩ := List.any_eq_true.1 hany
            have hgc' : g.1 = c := by simpa using hgc
            exact ⟨(g.1, g.2 ++ [t]), List.mem_map.2 ⟨g, hg, by rw [if_pos hgc']⟩, by simp⟩
          · exact .inl ht
        · right
          by_cases hgc : g.1 = c
          · exact ⟨(g.1, g.2 ++ [u]), List.mem_map.2 ⟨g, hg, by rw [if_pos hgc]⟩,
              List.mem_append_left _ htg⟩
          · exact ⟨g, List.mem_map.2 ⟨g, hg, by rw [if_neg hgc]⟩, htg⟩
      · refine groupTransitions_cover rest _ out h t ?_
        rcases ht with ht | ⟨g, hg, htg⟩
        · rcases List.mem_cons.1 ht with rfl | ht
          · exact .inr ⟨(c, [t]), by simp, by simp⟩
          · exact .inl ht
        · exact .inr ⟨g, List.mem_append_left _ hg, htg⟩

/-! ### the pass -/

/-- Loop invariant of `fuseLogged`: two different transitions of `s` with equal constraints lie
in one pending group. -/
def DupInPending (a : Automaton K P) (s : Nat) (pending : List (List Nat)) : Prop :=
  ∀ t1 t2 e1 e2, a.g.edge? t1 = some e1 → a.g.edge? t2 = some e2 → e1.src = s → e2.src = s →
    e1.w = e2.w → t1 ≠ t2 → ∃ l ∈ pending, t1 ∈ l ∧ t2 ∈ l

/-- In a duplicate-free flattening, a member determines its list. -/
theorem eq_of_mem_of_flatten_nodup : ∀ {pending : List (List Nat)} {l l' : List Nat} {t : Nat},
    pending.flatten.Nodup → l ∈ pending → l' ∈ pending → t ∈ l → t ∈ l' → l = l'
  | [], _, _, _, _, h, _, _, _ => by cases h
  | p :: ps, l, l', t, hnd, hl, hl', ht, ht' => by
    rw [List.flatten_cons, List.nodup_append] at hnd
    obtain ⟨_, h2, h3⟩ := hnd
    rcases List.mem_cons.1 hl with e1 | m1
    · rcases List.mem_cons.1 hl' with e2 | m2
      · exact e1.trans e2.symm
      · exact absurd rfl (h3 t (e1 ▸ ht) t (List.mem_flatten.2 ⟨l', m2, ht'⟩))
    · rcases List.mem_cons.1 hl' with e2 | m2
      · exact absurd rfl (h3 t (e2 ▸ ht') t (List.mem_flatten.2 ⟨l, m1, ht⟩))
      · exact eq_of_mem_of_flatten_nodup h2 m1 m2 ht ht'

theorem fuseLogged_unique {s : Nat} :
    ∀ (evs : List Ev) (pending : List (List Nat)) {a a' : Automaton K P} {evs' : List Ev},
    Inv a → a.Live s → pending.flatten.Nodup → (∀ l ∈ pending, GroupOK a s l) →
    DupInPending a s pending →
    a.fuseLogged s pending evs = .ok (a', evs') → UniqueAt a' s
  | evs, [], a, a', evs', _, _, _, _, hdup, h => by
    unfold fuseLogged at h
    cases h
    intro t1 t2 e1 e2 h1 h2 hs1 hs2 hw
    by_cases hne : t1 = t2
    · exact hne
    · obtain ⟨l, hl, _⟩ := hdup t1 t2 e1 e2 h1 h2 hs1 hs2 hw hne
      cases hl
  | [], p :: ps, a, a', evs', _, _, _, _, _, h => by
    unfold fuseLogged at h
    cases h
  | ev :: evs, p :: ps, a, a', evs', inv, hs, hnd, hgrp, hdup, h => by
    cases ev with
    | group s' ts =>
      unfold fuseLogged at h
      split at h
      · rename_i hcond
        obtain ⟨_, hmem⟩ := hcond
        split at h
        · cases h
        · rename_i a1 hf
          obtain ⟨c0, hg⟩ := hgrp ts hmem
          obtain ⟨N, tN, fe⟩ := fuseGroup_edges inv hs hg hf
          have hnd' : ((p :: ps).erase ts).flatten.Nodup :=
            hnd.sublist (sublist_flatten' List.erase_sublist)
          have hdisj : ∀ l ∈ (p :: ps).erase ts, ∀ t ∈ l, t ∉ ts := by
            intro l hl t ht hts
            have hl' := List.mem_of_mem_erase hl
            have heq := eq_of_mem_of_flatten_nodup hnd hl' hmem ht hts
            subst heq
            -- `l` occurs once in `pending` (it is non-empty and the flattening is nodup)
            exact erase_self_not_mem hnd hmem ⟨t, ht⟩ hl
          have hgrp' : ∀ l ∈ (p :: ps).erase ts, GroupOK a1 s l := by
            intro l hl
            obtain ⟨c, hc⟩ := hgrp l (List.mem_of_mem_erase hl)
            refine ⟨c, fun t ht => ?_⟩
            obtain ⟨e, he, hsrc, hw⟩ := hc t ht
            exact ⟨e, fe.keep t e he (hdisj l hl t ht) hsrc, hsrc, hw⟩
          refine fuseLogged_unique evs _ fe.inv' fe.live_s hnd' hgrp' ?_ h
          -- the invariant
          intro t1 t2 e1 e2 h1 h2 hs1 hs2 hw hne
          -- an edge of `a1` leaving `s` is the fused one or an old one outside the group
          have hcase : ∀ t e, a1.g.edge? t = some e → e.src = s →
              (t = tN ∧ e.w = c0) ∨ (t ≠ tN ∧ t ∉ ts ∧ a.g.edge? t = some e) := by
            intro t e he hsrc
            rcases fe.all t e he with ⟨h1, h2⟩ | ⟨h1, h2, h3⟩ | ⟨_, h2, _⟩
            · exact .inl ⟨h1, by rw [h2]⟩
            · exact .inr ⟨h1, h2, h3⟩
            · exact absurd (h2.symm.trans hsrc) fe.nes
          -- an old edge outside the group does not carry the group's constraint
          have hnot : ∀ t e, a.g.edge? t = some e → e.src = s → t ∉ ts → e.w ≠ c0 := by
            intro t e he hsrc hts hwc
            obtain ⟨u, hu⟩ := List.exists_mem_of_ne_nil ts fe.ne
            obtain ⟨eu, heu, hsu, hwu⟩ := hg u hu
            have hut : u ≠ t := fun e' => hts (e' ▸ hu)
            obtain ⟨l, hl, hul, htl⟩ :=
              hdup u t eu e heu he hsu hsrc (hwu.trans hwc.symm) hut
            have := eq_of_mem_of_flatten_nodup hnd hl hmem hul hu
            exact hts (this ▸ htl)
          rcases hcase t1 e1 h1 hs1 with ⟨rfl, hw1⟩ | ⟨hn1, ho1, hold1⟩
          · rcases hcase t2 e2 h2 hs2 with ⟨rfl, _⟩ | ⟨_, ho2, hold2⟩
            · exact absurd rfl hne
            · exact absurd (hw.symm.trans hw1) (hnot t2 e2 hold2 hs2 ho2)
          · rcases hcase t2 e2 h2 hs2 with ⟨rfl, hw2⟩ | ⟨_, ho2, hold2⟩
            · exact absurd (hw.trans hw2) (hnot t1 e1 hold1 hs1 ho1)
            · obtain ⟨l, hl, h1l, h2l⟩ := hdup t1 t2 e1 e2 hold1 hold2 hs1 hs2 hw hne
              refine ⟨l, ?_, h1l, h2l⟩
              have hlne : l ≠ ts := fun e' => ho1 (e' ▸ h1l)
              exact (List.mem_erase_of_ne hlne).2 hl
      · cases h
    | topo _ => unfold fuseLogged at h; cases h
    | detAsk _ => unfold fuseLogged at h; cases h
    | detYes _ => unfold fuseLogged at h; cases h
    | merge _ _ => unfold fuseLogged at h; cases h
    | iterEnd _ => unfold fuseLogged at h; cases h

/-- **After `make_constraints_unique(s)` the transitions of `s` carry pairwise different
constraints.** -/
theorem makeConstraintsUnique_unique {a a' : Automaton K P} {s : Nat} {evs evs' : List Ev}
    (inv : Inv a) (hs : a.Live s) (h : a.makeConstraintsUnique s evs = .ok (a', evs')) :
    UniqueAt a' s := by
  unfold makeConstraintsUnique at h
  split at h
  · cases h
  · rename_i ts0 hts0
    split at h
    · cases h
    · rename_i groups hgr
      obtain ⟨w, hw, rfl⟩ := allTransitions_ok_iff.1 hts0
      have gi := groupTransitions_gi (s := s) _ [] groups (inv.ok.nodup s w hw)
        (fun t ht => inv.listed_live hw ht) ⟨by simp, by simp⟩ hgr
      have hcov := groupTransitions_cover _ [] groups hgr
      have hfl : ((groups.map (·.2)).flatten).Nodup :=
        groups_flatten_nodup groups gi.1 fun g hg =>
          ⟨(gi.2 g hg).1, fun t ht => by
            obtain ⟨_, e, he, _, hw'⟩ := (gi.2 g hg).2 t ht
            exact ⟨e, he, hw'⟩⟩
      refine fuseLogged_unique evs _ inv hs ?_ ?_ ?_ h
      · exact hfl.sublist (sublist_flatten' (List.Sublist.map _ List.filter_sublist))
      · intro l hl
        obtain ⟨g, hg, rfl⟩ := List.mem_map.1 hl
        have hg' := (List.mem_filter.1 hg).1
        exact ⟨g.1, fun t ht => ((gi.2 g hg').2 t ht).2⟩
      · intro t1 t2 e1 e2 h1 h2 hs1 hs2 hwe hne
        have hl1 : t1 ∈ w.corder ++ w.eorder := inv.ok.edge_listed t1 e1 h1 w (hs1 ▸ hw)
        have hl2 : t2 ∈ w.corder ++ w.eorder := inv.ok.edge_listed t2 e2 h2 w (hs2 ▸ hw)
        obtain ⟨g1, hg1, ht1⟩ := hcov t1 (.inl hl1)
        obtain ⟨g2, hg2, ht2⟩ := hcov t2 (.inl hl2)
        obtain ⟨_, e1', he1', _, hk1⟩ := (gi.2 g1 hg1).2 t1 ht1
        obtain ⟨_, e2', he2', _, hk2⟩ := (gi.2 g2 hg2).2 t2 ht2
        rw [h1] at he1'; cases he1'
        rw [h2] at he2'; cases he2'
        have hkeys : g1.1 = g2.1 := hk1.symm.trans (hwe.trans hk2)
        have hgeq : g1 = g2 := eq_of_map_nodup gi.1 hg1 hg2 hkeys
        subst hgeq
        refine ⟨g1.2, List.mem_map.2 ⟨g1, List.mem_filter.2 ⟨hg1, ?_⟩, rfl⟩, ht1, ht2⟩
        have : 2 ≤ g1.2.length := two_le_length_of_mem_ne ht1 ht2 hne
        simpa using this

end C08
end Pm
