/-
Proofs/AnchGReach.lean — T-RUN-ANCH-PG, stage 2: what `pgProgramOK` says about each live state
(`StateOK`), and the invariant of every configuration the traversal can arrive at (`Inv`): the
binding is empty (at the root, or anywhere on a host without nodes) or anchored at a live host
node `r` with the state lying on an acceptance path from the root under `pgSigmaAnch h r`.
Everything lives in `namespace Pm.AnchG`.
-/
import PmVerif.Proofs.AnchGBind
import PmVerif.Proofs.WFLemmas
namespace Pm
namespace AnchG
open Automaton

/-! ### `pgProgramOK`, state by state -/

/-- Shape of scopes and recorded key lists: single-root keys only; empty, or the root key first. -/
def Sh (ks : List PGKey) : Prop :=
  (∀ k ∈ ks, SR k) ∧ (ks = [] ∨ ∃ rest, ks = .root 0 :: rest)

theorem Sh.root_mem {ks : List PGKey} (h : Sh ks) (hne : ks ≠ []) : .root 0 ∈ ks := by
  rcases h.2 with h | ⟨rest, h⟩
  · exact absurd h hne
  · rw [h]; exact List.mem_cons_self

/-- A prerequisite-ordered single-root key list is empty or starts with the root key. -/
theorem shape_of_prereq (ks : List PGKey) (h1 : prereqOrdered pgReq ks = true)
    (h2 : pgSingleRootKeys ks = true) : Sh ks := by
  refine ⟨(pgSingleRootKeys_iff ks).mp h2, ?_⟩
  cases ks with
  | nil => exact .inl rfl
  | cons k rest =>
    right
    have hp := (c09_prereqOrdered_iff pgReq _).mp h1
    have h0 := hp 0 k rfl
    have hk : k = .root 0 := by
      cases k with
      | root i =>
        cases i with
        | zero => rfl
        | succ i =>
          have := h0 (.root i) (by simp [pgReq])
          simp at this
      | along r p l =>
        have := h0 (.root r) (by simp [pgReq])
        simp at this
    subst hk
    exact ⟨rest, rfl⟩

/-- The clauses of `pgProgramOK` the proofs use, for one live state. -/
structure StateOK (A : Automaton PGKey PGPred) (css : List (Option (List PGCons))) (s : Nat)
    (w : AState PGKey) : Prop where
  con : ∀ t ∈ w.corder, ∃ e c, A.g.edge? t = some e ∧ e.w = some c ∧
    c.args.length = c.pred.arity ∧ ∀ k ∈ c.args, k ∈ w.scope
  scope_ne : (w.corder ≠ [] ∨ w.eorder ≠ []) → w.scope ≠ []
  scope_shape : Sh w.scope
  matches_ : ∀ pid ks, (pid, ks) ∈ w.matches_ →
    Sh ks ∧ (s = A.root ∨ ks ≠ []) ∧ ∃ cs, css[pid]? = some (some cs) ∧ ks = pgPatternKeys cs

theorem stateOK_of_programOK {A : Automaton PGKey PGPred} {css : List (Option (List PGCons))}
    (hok : pgProgramOK A css = true) {s : Nat} {w : AState PGKey}
    (hw : A.g.weight? s = some w) : StateOK A css s w := by
  have hall := (liveStates_all A fun s w =>
    decide (w.eorder.length ≤ 1) &&
    (w.corder.all fun t => match A.g.edge? t with
      | some ⟨_, _, some c⟩ => decide (c.args.length = c.pred.arity) && c.args.all w.scope.contains
      | _ => false) &&
    (w.eorder.all fun t => match A.g.edge? t with
      | some ⟨_, _, none⟩ => true
      | _ => false) &&
    ((w.corder.isEmpty && w.eorder.isEmpty) || !w.scope.isEmpty) &&
    prereqOrdered pgReq w.scope && decide w.scope.Nodup && pgSingleRootKeys w.scope &&
    (w.matches_.all fun m =>
      prereqOrdered pgReq m.2 && decide m.2.Nodup && pgSingleRootKeys m.2 &&
      (s == A.root || !m.2.isEmpty) &&
      (match css[m.1]? with
       | some (some cs) => decide (m.2 = pgPatternKeys cs)
       | _ => false))).mp hok s w hw
  simp only [Bool.and_eq_true, decide_eq_true_eq] at hall
  obtain ⟨⟨⟨⟨⟨⟨⟨_, hcon⟩, _⟩, hne⟩, hpo⟩, _⟩, hsr⟩, hmat⟩ := hall
  refine ⟨?_, ?_, shape_of_prereq _ hpo hsr, ?_⟩
  · intro t ht
    have := List.all_eq_true.mp hcon t ht
    split at this
    · rename_i src dst c heq
      simp only [Bool.and_eq_true, decide_eq_true_eq] at this
      refine ⟨_, c, heq, rfl, this.1, ?_⟩
      intro k hk
      have := List.all_eq_true.mp this.2 k hk
      simpa using this
    · cases this
  · intro hor hsc
    rw [hsc] at hne
    rcases hor with h | h
    · cases hc : w.corder with
      | nil => exact h hc
      | cons _ _ => simp [hc] at hne
    · cases hc : w.eorder with
      | nil => exact h hc
      | cons _ _ => simp [hc] at hne
  · intro pid ks hm
    have := List.all_eq_true.mp hmat (pid, ks) hm
    simp only [Bool.and_eq_true, decide_eq_true_eq, Bool.or_eq_true, beq_iff_eq,
      Bool.not_eq_true'] at this
    obtain ⟨⟨⟨⟨hpo', _⟩, hsr'⟩, hroot⟩, hp⟩ := this
    refine ⟨shape_of_prereq _ hpo' hsr', ?_, ?_⟩
    · rcases hroot with h | h
      · exact .inl h
      · right; intro e; rw [e] at h; cases h
    · split at hp
      · rename_i cs hps
        exact ⟨cs, hps, by simpa using hp⟩
      · cases hp

/-! ### evaluation at a step candidate -/

variable {A : Automaton PGKey PGPred} {css : List (Option (List PGCons))} {h : PortGraph}

/-- At a state of an OK program, the constraints on its outgoing transitions evaluate, on a
candidate that binds the scope from anchor `r`, to their truth value under `pgSigmaAnch h r`. -/
theorem sat_cand {s : Nat} {w : AState PGKey} (hst : StateOK A css s w) {t : Nat}
    {e : GEdge (Option PGCons)} {c : PGCons} (ht : t ∈ w.corder) (he : A.g.edge? t = some e)
    (hcw : e.w = some c) {r : Nat} {m' : PGMap} (hm' : MapGets m' w.scope (pgVal h r)) :
    satOrFalse pgDomain.map.get pgDomain.check c h m' = some (pgSigmaAnch h r c) := by
  obtain ⟨e', c', he', hcw', har, hsc⟩ := hst.con t ht
  rw [he] at he'
  cases he'
  rw [hcw] at hcw'
  cases hcw'
  show satOrFalse alGet (fun p g vs => pgCheck p g vs) c h m' = _
  apply sat_eq_sigma _ _ _ _ _ har
  intro k hk
  rw [hm' k, if_pos (hsc k hk)]

/-- On the empty binding no constraint transition of an OK state fires. -/
theorem sat_cand_nil {s : Nat} {w : AState PGKey} (hst : StateOK A css s w) {t : Nat}
    {e : GEdge (Option PGCons)} {c : PGCons} (ht : t ∈ w.corder) (he : A.g.edge? t = some e)
    (hcw : e.w = some c) :
    satOrFalse pgDomain.map.get pgDomain.check c h [] = some false := by
  obtain ⟨e', c', he', hcw', har, _⟩ := hst.con t ht
  rw [he] at he'
  cases he'
  rw [hcw] at hcw'
  cases hcw'
  exact sat_nil h c har

/-- The fallback condition of `next_legal_states` is the one of `AccDet`. -/
theorem eps_cond_iff {s : Nat} {w : AState PGKey} (hst : StateOK A css s w) {r : Nat}
    {m' : PGMap} (hm' : MapGets m' w.scope (pgVal h r)) :
    (w.det = false ∨ ∀ t' ∈ w.corder, ∀ e' c', A.g.edge? t' = some e' → e'.w = some c' →
        satOrFalse pgDomain.map.get pgDomain.check c' h m' ≠ some true) ↔
      (w.det = false ∨ ¬ fires (pgSigmaAnch h r) A w) := by
  constructor
  · rintro (hd | hn)
    · exact .inl hd
    · right
      rintro ⟨t, ht, e, c, he, hcw, hsig⟩
      apply hn t ht e c he hcw
      rw [sat_cand hst ht he hcw hm', hsig]
  · rintro (hd | hn)
    · exact .inl hd
    · right
      intro t ht e c he hcw hsat
      apply hn
      refine ⟨t, ht, e, c, he, hcw, ?_⟩
      rw [sat_cand hst ht he hcw hm'] at hsat
      exact Option.some.inj hsat

/-! ### the invariant of reachable configurations -/

/-- Every configuration the traversal can arrive at is empty — at the root, or anywhere on a
host without nodes — or anchored at a live host node `r`, at a state from which acceptance under
`pgSigmaAnch h r` lifts to the root (i.e. it lies on an `AccDetK` path from the root). -/
def Inv (A : Automaton PGKey PGPred) (h : PortGraph) (s : Nat) (m : PGMap) : Prop :=
  (m = [] ∧ (s = A.root ∨ h.nodesIter = [])) ∨
  ∃ r, r ∈ h.nodesIter ∧ Anchored h r m ∧
    ∀ pid ks, AccDetK (pgSigmaAnch h r) A s pid ks → AccDetK (pgSigmaAnch h r) A A.root pid ks

/-- The step candidates at a state with outgoing transitions, from a configuration satisfying
the invariant. -/
theorem cands_cases {s : Nat} {w : AState PGKey} {m m' : PGMap} {cands : List PGMap}
    (hst : StateOK A css s w) (hne : w.scope ≠ []) (hinv : Inv A h s m)
    (hc : stepCands pgDomain h w m = .ok cands) (hm' : m' ∈ cands) :
    (m' = [] ∧ h.nodesIter = []) ∨
    ∃ r, r ∈ h.nodesIter ∧ MapIs m' w.scope (pgVal h r) ∧
      ∀ pid ks, AccDetK (pgSigmaAnch h r) A s pid ks →
        AccDetK (pgSigmaAnch h r) A A.root pid ks := by
  obtain ⟨hsr, hshape⟩ := hst.scope_shape
  obtain ⟨rest, hs⟩ : ∃ rest, w.scope = .root 0 :: rest := by
    rcases hshape with h | h
    · exact absurd h hne
    · exact h
  rcases hinv with ⟨rfl, hroot⟩ | ⟨r, hr, ha, hpath⟩
  · by_cases hE : h.nodesIter = []
    · rw [stepCands_nil_empty w hE hsr] at hc
      cases hc
      exact .inl ⟨List.mem_singleton.mp hm', hE⟩
    · have hs' : s = A.root := by
        rcases hroot with h | h
        · exact h
        · exact absurd h hE
      obtain ⟨f, hf, hmap⟩ := stepCands_nil (h := h) w rest hs hsr hE
      rw [hf] at hc
      cases hc
      obtain ⟨r, hr, rfl⟩ := List.mem_map.mp hm'
      exact .inr ⟨r, hr, hmap r, fun pid ks hacc => hs' ▸ hacc⟩
  · obtain ⟨m₁, hm₁, hmap⟩ := stepCands_anch w ha hsr
    rw [hm₁] at hc
    cases hc
    rw [List.mem_singleton] at hm'
    subst hm'
    exact .inr ⟨r, hr, hmap, hpath⟩

theorem reach_inv (hok : pgProgramOK A css = true) {s : Nat} {m : PGMap}
    (hr : Reach pgDomain A h s m) : Inv A h s m := by
  induction hr with
  | root => exact .inl ⟨rfl, .inl rfl⟩
  | @con s m w cands m' t e c _ hw hc hm' ht he hcw hsat ih =>
    have hst := stateOK_of_programOK hok hw
    have hne : w.scope ≠ [] := hst.scope_ne (.inl (List.ne_nil_of_mem ht))
    rcases cands_cases hst hne ih hc hm' with ⟨rfl, hE⟩ | ⟨r, hr, hmap, hpath⟩
    · exact .inl ⟨rfl, .inr hE⟩
    · refine .inr ⟨r, hr, anchored_of_mapIs hmap (hst.scope_shape.root_mem hne),
        fun pid ks hacc => hpath pid ks ?_⟩
      rw [sat_cand hst ht he hcw hmap.2] at hsat
      exact AccDetK.con hw ht he hcw (Option.some.inj hsat) hacc
  | @eps s m w cands m' t e _ hw hc hm' ht he hd ih =>
    have hst := stateOK_of_programOK hok hw
    have hne : w.scope ≠ [] := hst.scope_ne (.inr (List.ne_nil_of_mem ht))
    rcases cands_cases hst hne ih hc hm' with ⟨rfl, hE⟩ | ⟨r, hr, hmap, hpath⟩
    · exact .inl ⟨rfl, .inr hE⟩
    · refine .inr ⟨r, hr, anchored_of_mapIs hmap (hst.scope_shape.root_mem hne),
        fun pid ks hacc => hpath pid ks ?_⟩
      exact AccDetK.eps hw ht he ((eps_cond_iff hst hmap.2).mp hd) hacc

end AnchG
end Pm
