/-
Proofs/C07TLMain.lean — C07 (multiplicities) WITHOUT the guard c1D: the main induction
(namespace `Pm.C07TL`).

`buildTLC_xb`: every automaton returned by the lenient disciplined replay with the emission-time
check c1G (`GE.buildTLC`, Proofs/GuardEMain.lean: the Rust loop `mainLoopWith makeDetL` + "no child
of the emitted state is deterministic, OR no child of the emitted state has a fallback
transition") satisfies the structural unambiguity invariant `C07.XB` and records every id once per
state — for every flat, faithful decomposition (`C07.FlatTreeHyp`, `TreeOK`), generic in the
domain.  c1D is NOT used: at the emission of `s` the local condition `GE.LocalOK a s` (from c1G)
replaces `NonDetChildren a s` in the two fuse passes (`xb_makeConstraintsUnique_L`) and in
`make_det` (`xb_makeDetE`; under `LocalOK` the unguarded `makeDetL` is `makeDetE`,
`GE.iterationWith_E_of_L`).  The other steps are those of Proofs/C07XMain.lean.

`buildTL_xb_of_c1G`: the same for a `buildTL` log that passes the decidable check `GE.c1G_ok`.
`buildTL_xb_charTree`: for the string/matrix decomposition `charTree` EVERY log `buildTL` accepts
passes it (`GE.buildTL_imp_buildTLC_charTree`, guard E's invariant), so `XB ∧ IdsNodup` holds of
every `charTree` build of the Rust loop's replay, unconditionally.
-/
import PmVerif.Proofs.C07TLFuse
import PmVerif.Proofs.C07TLDet
import PmVerif.Proofs.C07XMain
import PmVerif.Proofs.C07CharTree
import PmVerif.Props.GuardE
namespace Pm
namespace C07TL
open Automaton C07 C09E TBL Pm.GE
variable {K P : Type} [DecidableEq K] [DecidableEq P]
set_option linter.unusedSectionVars false

section
variable {Mx : Constraint K P → Constraint K P → Prop}
variable {toTree : List (Constraint K P) → Option (CTree (Constraint K P))}

/-- c1G at the emission of `s` gives the local condition. -/
theorem localOK_of_c1G {a : Automaton K P} {s : Nat} (inv : Inv a) (hc : c1G a s = true) :
    LocalOK a s := by
  unfold c1G at hc
  rw [Bool.or_eq_true] at hc
  rcases hc with hc | hc
  · exact .inl (GE.ndc_of_noDetChild inv hc)
  · exact .inr (childEF_of_childEpsFree inv hc)

/-- The determinisation step of an iteration with guard E. -/
theorem afterDetE_gx {a3 a4 : Automaton K P} {s : Nat} {treeDet : Bool} {evs3 evs4 : List Ev}
    (g3 : GX Mx a3) (hl : LocalOK a3 s) (hmx : treeDet = true → MxAt Mx a3 s)
    (h : (if treeDet then
        match evs3 with
        | .detAsk s' :: .detYes s'' :: evs' =>
          if s' = s ∧ s'' = s then (makeDetE a3 s).map (·, evs')
          else .error (.guard "c5: DetAsk/DetYes for another state")
        | .detAsk s' :: evs' =>
          if s' = s then .ok (a3, evs') else .error (.guard "c5: DetAsk for another state")
        | _ => .error (.guard "c5: missing DetAsk event")
      else .ok (a3, evs3) : R (Automaton K P × List Ev)) = .ok (a4, evs4)) : GX Mx a4 := by
  split at h
  · rename_i htd
    split at h
    · split at h
      · cases hm : makeDetE a3 s with
        | error e => rw [hm] at h; cases h
        | ok a4' =>
          rw [hm] at h
          cases h
          exact ⟨(detKeeps_makeDetE (fun _ => true) g3.good hm).1,
            xb_makeDetE g3.good.inv g3.good.rs g3.good.det g3.xb (detEF_of_localOK hl) (hmx htd) hm,
            idsNodup_makeDetL g3.good.inv g3.ids (makeDetL_of_makeDetE hm)⟩
      · cases h
    · split at h
      · cases h; exact g3
      · cases h
    · cases h
  · cases h; exact g3

/-- One iteration of the main loop with guard E preserves `GX` under the local condition. -/
theorem iterationWithE_gx (hirr : ∀ k, ¬ Mx k k) (hT : FlatTreeHyp Mx toTree)
    (hTok : TreeOK toTree (fun _ => true)) {fuel : Nat} {a a' : Automaton K P} {s : Nat}
    {evs evs' : List Ev} (g : GX Mx a) (hl : LocalOK a s)
    (h : iterationWith makeDetE toTree fuel a s evs = .ok (a', evs')) : GX Mx a' := by
  have L : StepLemmas (fun _ => true) toTree := Automaton.stepLemmas hTok
  unfold iterationWith at h
  split at h
  · cases h
  · rename_i hlive
    have hs : a.Live s := by
      unfold Live; cases hx : a.g.containsNode s <;> simp_all
    split at h
    · cases h
    · rename_i a1 evs1 h1
      have p1 := L.fuse g.good.inv hs h1
      have k1 := Keeps.of_pres g.good p1
      obtain ⟨x1, l1, u1⟩ := xb_makeConstraintsUnique_L hirr g.good.inv hs hl g.xb h1
      have i1 := idsNodup_makeConstraintsUnique g.good.inv hs g.ids h1
      split at h
      · cases h
      · rename_i a2 treeDet h2
        have st2 := L.tree p1.inv p1.live_s h2
        have p2 := st2.pres
        have k2 := k1.trans (Keeps.of_pres k1.1 p2)
        obtain ⟨x2, mx2⟩ := xb_insertConstraintTree hT hTok p1.inv p1.live_s u1 x1 h2
        have l2 : LocalOK a2 s := by
          rcases l1 with hn | hc
          · exact .inl (st2.nonDetChildren hn)
          · exact .inr (childEF_insertConstraintTree p1.inv p1.live_s hc h2)
        have i2 := idsNodup_insertConstraintTree p1.inv i1 h2
        split at h
        · cases h
        · rename_i a3 evs3 h3
          have p3 := L.fuse p2.inv p2.live_s h3
          have k3 := k2.trans (Keeps.of_pres k2.1 p3)
          obtain ⟨x3, l3, u3⟩ := xb_makeConstraintsUnique_L hirr p2.inv p2.live_s l2 x2 h3
          have i3 := idsNodup_makeConstraintsUnique p2.inv p2.live_s i2 h3
          have g3 : GX Mx a3 := ⟨k3.1, x3, i3⟩
          have hmx : treeDet = true → MxAt Mx a3 s := fun htd =>
            mxAt_of (mxEqAt_makeConstraintsUnique p2.inv p2.live_s (mx2 htd) h3) u3
          exact tail_gx L _ (fun a4 evs4 h4 => afterDetE_gx g3 l3 hmx h4) h

/-- The Rust loop with the emission-time check c1G preserves `GX`. -/
theorem mainLoopC_gx (hirr : ∀ k, ¬ Mx k k) (hT : FlatTreeHyp Mx toTree)
    (hTok : TreeOK toTree (fun _ => true)) {fuel : Nat} :
    ∀ (n : Nat) {a a' : Automaton K P} (emitted : List Nat) (evs : List Ev), GX Mx a →
    mainLoopC toTree fuel n a emitted evs = .ok a' → GX Mx a' := by
  have L : StepLemmas (fun _ => true) toTree := Automaton.stepLemmas hTok
  intro n
  induction n with
  | zero =>
    intro a a' emitted evs g h
    cases evs with
    | nil =>
      unfold mainLoopC at h
      split at h
      · cases h; exact g
      · cases h
    | cons e es => unfold mainLoopC at h; cases h
  | succ n ih =>
    intro a a' emitted evs g h
    cases evs with
    | nil =>
      unfold mainLoopC at h
      split at h
      · cases h; exact g
      · cases h
    | cons e es =>
      cases e with
      | topo s =>
        unfold mainLoopC at h
        split at h
        · cases h
        · split at h
          · cases h
          · rename_i hcg
            have hc : c1G a s = true := by
              cases hx : c1G a s <;> simp_all
            split at h
            · cases h
            · rename_i a1 evs1 h1
              have hE := iterationWith_E_of_L L g.good.inv hc h1
              exact ih _ evs1
                (iterationWithE_gx hirr hT hTok g (localOK_of_c1G g.good.inv hc) hE) h
      | _ => unfold mainLoopC at h; cases h

/-- **Every build of the Rust loop's replay that passes c1G at every emission is structurally
unambiguous** (flat faithful decompositions, pairwise different pattern ids). -/
theorem buildTLC_xb (hirr : ∀ k, ¬ Mx k k) (hT : FlatTreeHyp Mx toTree)
    (hTok : TreeOK toTree (fun _ => true)) {req : K → List K} {fuel : Nat}
    {patterns : List (Nat × List (Constraint K P) × List K)} {evs : List Ev} {A : Automaton K P}
    (hnd : (patterns.map (·.1)).Nodup)
    (h : buildTLC toTree req fuel patterns evs = .ok A) : XB Mx A ∧ IdsNodup A := by
  unfold buildTLC at h
  split at h
  · cases h
  · rename_i a1 h1
    obtain ⟨inv1, _, rs1, nd1, _⟩ := addPatterns_spec (σ := fun _ => true) h1
    have g1 : GX Mx a1 := ⟨⟨inv1, rs1, detOKE_of_noDet nd1⟩, xb_addPatterns hnd h1,
      idsNodup_addPatterns_new h1⟩
    unfold finishC at h
    split at h
    · cases h
    · rename_i a2 h2
      have g2 := mainLoopC_gx hirr hT hTok _ _ _ g1 h2
      obtain ⟨_, _, he3, hw3⟩ := populateScopes_frame g2.good.inv h
      exact ⟨xb_of_view he3 hw3 g2.xb, idsNodup_populateScopes g2.good.inv g2.ids h⟩

/-- The same for a `buildTL` log that passes the decidable per-log check `GE.c1G_ok`. -/
theorem buildTL_xb_of_c1G (hirr : ∀ k, ¬ Mx k k) (hT : FlatTreeHyp Mx toTree)
    (hTok : TreeOK toTree (fun _ => true)) {req : K → List K} {fuel : Nat}
    {patterns : List (Nat × List (Constraint K P) × List K)} {evs : List Ev} {A : Automaton K P}
    (hnd : (patterns.map (·.1)).Nodup)
    (h : buildTL toTree req fuel patterns evs = .ok A)
    (hc : c1G_ok toTree req fuel patterns evs = true) : XB Mx A ∧ IdsNodup A := by
  unfold c1G_ok at hc
  cases hb : buildTLC toTree req fuel patterns evs with
  | error e => rw [hb] at hc; cases hc
  | ok A' =>
    have hl := buildTLC_imp_buildTL hTok hb
    rw [h] at hl
    cases hl
    exact buildTLC_xb hirr hT hTok hnd hb

end

/-- **Every `charTree` build of the Rust loop's replay is structurally unambiguous**: for every
key order, indexing scheme, inputs with pairwise different ids and EVERY log `buildTL` accepts, the
automaton satisfies `XB` for the mutual-exclusion relation `charMx` and records every id once per
state.  No c1D, no per-log check. -/
theorem buildTL_xb_charTree {K : Type} [DecidableEq K] (lt : K → K → Bool)
    {req : K → List K} {fuel : Nat}
    {inputs : List (Nat × List (Constraint K CharPred) × List K)} {evs : List Ev}
    {A : Automaton K CharPred} (hnd : (inputs.map (·.1)).Nodup)
    (h : buildTL (charTree lt) req fuel inputs evs = .ok A) :
    XB (fun k1 k2 => charMx k1 k2 = true) A ∧ IdsNodup A :=
  buildTLC_xb charMx_irrefl (flatTreeHyp_charTree lt) (c03_treeOK_char lt _) hnd
    (buildTL_imp_buildTLC_charTree lt req fuel inputs evs A h)

end C07TL
end Pm
