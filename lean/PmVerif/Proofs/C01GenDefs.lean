/-
Proofs/C01GenDefs.lean — vocabulary of the generic (any-domain) binding-level soundness theorem
`c01_generic_sound` (Props/C01Gen.lean):

* `LawfulDomain D h` — the map laws the engine relies on (the laws `Props/C14.lean` proves of the
  shipped maps and `Props/C13.lean` needs of `bind_all`);
* `PathP A Q s u` — a path of live transitions from `s` to `u` all of whose constraints
  satisfy `Q` (fallback transitions are free);
* `AtomSys D h toTree` — a decomposition of constraints into ATOMS such that the tree
  decomposition `toTree` is faithful for every truth assignment of the form "all atoms of the
  constraint belong to a given set" (for depth-one decompositions: `atoms c = [c]`, any
  assignment; for the port-graph powerset decomposition: an `isNotEqual` constraint is the
  conjunction of its binary inequalities);
* `Facts A inputs atoms` — what the run-time argument needs to know about a built automaton;
  `Proofs/C01GenBuilt.lean` proves it of every successful `build`.
-/
import PmVerif.Props.TBuild
import PmVerif.Props.TRun
import PmVerif.Props.C09Reach
import PmVerif.Props.C13
namespace Pm.C01G
open Automaton

section Defs
variable {K V P H M : Type}

/-- The laws of a binding map (for host `h`): a successful `bind` keeps what was bound, binds the
key (for values the host offered), and a successful `retain_keys` keeps the listed bound keys
with their values. -/
structure LawfulDomain (D : Domain K V P H M) (h : H) : Prop where
  keeps : ∀ m k v m', D.map.bind m k v = .ok m' →
    ∀ k' v', D.map.get m k' = some v' → D.map.get m' k' = some v'
  binds : ∀ m k v m', v ∈ D.opts h k m → D.map.bind m k v = .ok m' → (D.map.get m' k).isSome
  retain_keeps : ∀ m ks m', D.map.retain m ks = some m' →
    ∀ k ∈ ks, ∀ v, D.map.get m k = some v → D.map.get m' k = some v

/-- A path of live transitions from `s` to `u`; every constraint on it satisfies `Q`. -/
inductive PathP (A : Automaton K P) (Q : Constraint K P → Prop) : Nat → Nat → Prop where
  | nil (s : Nat) : PathP A Q s s
  | cons {s u t : Nat} {w : AState K} {e : GEdge (Option (Constraint K P))} :
      A.g.weight? s = some w → t ∈ w.corder ++ w.eorder → A.g.edge? t = some e →
      (∀ c, e.w = some c → Q c) → PathP A Q e.dst u → PathP A Q s u

theorem PathP.mono {A : Automaton K P} {Q Q' : Constraint K P → Prop} (hq : ∀ c, Q c → Q' c)
    {s u : Nat} (hp : PathP A Q s u) : PathP A Q' s u := by
  induction hp with
  | nil s => exact .nil s
  | cons hw ht he hc _ ih => exact .cons hw ht he (fun c h => hq c (hc c h)) ih

theorem PathP.trans {A : Automaton K P} {Q : Constraint K P → Prop} {s u v : Nat}
    (h1 : PathP A Q s u) (h2 : PathP A Q u v) : PathP A Q s v := by
  induction h1 with
  | nil s => exact h2
  | cons hw ht he hc _ ih => exact .cons hw ht he hc (ih h2)

theorem PathP.snoc {A : Automaton K P} {Q : Constraint K P → Prop} {s u t : Nat} {w : AState K}
    {e : GEdge (Option (Constraint K P))} (h1 : PathP A Q s u) (hw : A.g.weight? u = some w)
    (ht : t ∈ w.corder ++ w.eorder) (he : A.g.edge? t = some e) (hc : ∀ c, e.w = some c → Q c) :
    PathP A Q s e.dst :=
  h1.trans (.cons hw ht he hc (.nil _))

/-- A path whose constraints are all `σ`-true, ending in a state that records `pid`, is an
acceptance derivation in the non-deterministic reading. -/
theorem accND_of_pathP {A : Automaton K P} {σ : Constraint K P → Bool} {s u pid : Nat}
    {w : AState K} (hp : PathP A (fun c => σ c = true) s u) (hw : A.g.weight? u = some w)
    (hpid : pid ∈ w.matches_.map (·.1)) : AccND σ A s pid := by
  induction hp with
  | nil s => exact .here hw hpid
  | cons hw' ht he hc _ ih => exact .step hw' ht he hc (ih hw)

/-- A constraint that evaluates to `true` keeps doing so on any binding that has the same values
on the constraint's own keys. -/
theorem sat_congr (get : M → K → Option V) (check : P → H → List V → Option Bool)
    (c : Constraint K P) (h : H) (m m' : M)
    (hext : ∀ k ∈ c.args, ∀ v, get m k = some v → get m' k = some v)
    (hs : satOrFalse get check c h m = some true) : satOrFalse get check c h m' = some true := by
  unfold satOrFalse isSatisfied isSatisfiedLog at hs ⊢
  cases hr : resolveArgs get m c.args with
  | error e => rw [hr] at hs; simp at hs
  | ok vs =>
    rw [hr] at hs
    have h1 := (c16_resolve_ok get m c.args vs).mp hr
    have h2 : c.args.map (get m') = vs.map some := by
      rw [← h1]
      apply List.map_congr_left
      intro k hk
      have : get m k ∈ vs.map some := by rw [← h1]; exact List.mem_map.mpr ⟨k, hk, rfl⟩
      obtain ⟨v, _, hv⟩ := List.mem_map.mp this
      rw [← hv]; exact hext k hk v hv.symm
    rw [(c16_resolve_ok get m' c.args vs).mpr h2]
    exact hs

/-- A constraint that evaluates to `true` has all its keys bound. -/
theorem sat_bound (get : M → K → Option V) (check : P → H → List V → Option Bool)
    (c : Constraint K P) (h : H) (m : M)
    (hs : satOrFalse get check c h m = some true) : ∀ k ∈ c.args, (get m k).isSome = true := by
  unfold satOrFalse isSatisfied isSatisfiedLog at hs
  cases hr : resolveArgs get m c.args with
  | error e => rw [hr] at hs; simp at hs
  | ok vs =>
    have h1 := (c16_resolve_ok get m c.args vs).mp hr
    intro k hk
    have : get m k ∈ vs.map some := by rw [← h1]; exact List.mem_map.mpr ⟨k, hk, rfl⟩
    obtain ⟨v, _, hv⟩ := List.mem_map.mp this
    rw [← hv]; rfl

variable [DecidableEq K] [DecidableEq P]

/-- A decomposition of constraints into atoms (themselves constraints, evaluated the same way).
`sat_atoms`: a satisfied constraint satisfies its atoms; `atoms_sat`: a well-formed (`ok`, e.g.
arity-correct; only required of the PATTERNS' constraints) constraint all of whose keys are bound
and all of whose atoms are satisfied is satisfied; `args_sub`: an atom only uses keys of its
constraint; `treeOK`: the tree decomposition is faithful for every assignment "all atoms of `c`
satisfy `Q`". -/
structure AtomSys (D : Domain K V P H M) (h : H)
    (toTree : List (Constraint K P) → Option (CTree (Constraint K P))) where
  atoms : Constraint K P → List (Constraint K P)
  ok : Constraint K P → Prop
  args_sub : ∀ c a, a ∈ atoms c → ∀ k ∈ a.args, k ∈ c.args
  sat_atoms : ∀ c m, satOrFalse D.map.get D.check c h m = some true →
    ∀ a ∈ atoms c, satOrFalse D.map.get D.check a h m = some true
  atoms_sat : ∀ c m, ok c → (∀ k ∈ c.args, (D.map.get m k).isSome = true) →
    (∀ a ∈ atoms c, satOrFalse D.map.get D.check a h m = some true) →
    satOrFalse D.map.get D.check c h m = some true
  treeOK : ∀ Q : Constraint K P → Bool, TreeOK toTree (fun c => (atoms c).all Q)

/-- The trivial atom system (every constraint is its own atom), for decompositions that are
faithful under every truth assignment (`charTree`, the depth-one table strategies). -/
def AtomSys.trivial (D : Domain K V P H M) (h : H)
    (toTree : List (Constraint K P) → Option (CTree (Constraint K P)))
    (hT : ∀ σ, TreeOK toTree σ) : AtomSys D h toTree where
  atoms c := [c]
  ok _ := True
  args_sub c a ha k hk := by rw [List.mem_singleton.1 ha] at hk; exact hk
  sat_atoms c m hs a ha := by rw [List.mem_singleton.1 ha]; exact hs
  atoms_sat c m _ _ ha := ha c List.mem_cons_self
  treeOK Q := hT _

/-- What the run-time argument uses of a built automaton `A` (for the atoms `atoms`):
* `rootFact` (from T-BUILD): along every path from the root to a state recording pattern `pid`,
  every atom of every constraint of `pid` is an atom of a constraint on the path;
* `keys`: the recorded key list contains the keys of the pattern's constraints;
* `scope` (from `populate_scopes`): a key of a pattern recorded strictly below `s` is in the scope
  of `s`, unless some path from the root to `s` never mentions it;
* `eps_none`: fallback transitions carry no constraint. -/
structure Facts (A : Automaton K P) (inputs : List (Nat × List (Constraint K P) × List K))
    (atoms : Constraint K P → List (Constraint K P)) : Prop where
  rootFact : ∀ (Q : Constraint K P → Bool) u wu pid keys,
    PathP A (fun c => ∀ a ∈ atoms c, Q a = true) A.root u → A.g.weight? u = some wu →
    (pid, keys) ∈ wu.matches_ → ∀ cs ex, (pid, cs, ex) ∈ inputs →
    ∀ c ∈ cs, ∀ a ∈ atoms c, Q a = true
  keys : ∀ u wu pid keys, A.g.weight? u = some wu → (pid, keys) ∈ wu.matches_ →
    ∀ cs ex, (pid, cs, ex) ∈ inputs → ∀ c ∈ cs, ∀ k ∈ c.args, k ∈ keys
  scope : ∀ s w, A.g.weight? s = some w → ∀ t ∈ w.corder ++ w.eorder, ∀ e,
    A.g.edge? t = some e → ∀ u wu pid keys, PathP A (fun _ => True) e.dst u →
    A.g.weight? u = some wu → (pid, keys) ∈ wu.matches_ → ∀ k ∈ keys,
    k ∈ w.scope ∨ PathP A (fun c => k ∉ c.args) A.root s
  eps_none : ∀ s w, A.g.weight? s = some w → ∀ t ∈ w.eorder, ∀ e, A.g.edge? t = some e →
    e.w = none
  recorded : ∀ u wu pid keys, A.g.weight? u = some wu → (pid, keys) ∈ wu.matches_ →
    ∃ cs ex, (pid, cs, ex) ∈ inputs

end Defs
end Pm.C01G
