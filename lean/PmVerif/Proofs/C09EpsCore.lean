/-
Proofs/C09EpsCore.lean — C09 clause (c) / `C08.EpsLe1` under the guard c1E of the strict replay
`buildTE` (Model/BuilderT.lean): vocabulary and the steps `make_constraints_unique` and
`insert_constraint_tree`.

Everything is stated at the level of EDGES (under `Inv` the fallback order of a state lists exactly
its outgoing transitions without constraint, once each):
* `EF a x`   — `x` has no outgoing epsilon transition;
* `E1 a x`   — `x` has at most one outgoing epsilon transition; `E1All a` — every state;
* `Loc a s`  — the invariant INSIDE the iteration at `s`: every state other than `s` has at most one
  epsilon transition and every child of `s` has none (c1E provides it at the emission of `s`).
`loc_makeConstraintsUnique`, `loc_insertConstraintTree`: both sub-steps preserve `Loc a s`, for
every event log and every tree decomposition (nested trees included: the states created for inner
tree nodes and the fail state only get constraint transitions; epsilon transitions are created at
`s` alone). After the second `make_constraints_unique(s)`, `C08.UniqueAt` gives `E1 a s`.
Everything lives in `namespace Pm.C09E`.
-/
import PmVerif.Proofs.C07XFuse
import PmVerif.Proofs.C09ReachTree
import PmVerif.Model.BuilderT
namespace Pm
namespace C09E
open Automaton
variable {K P : Type}

/-- `x` has no outgoing epsilon (fallback) transition. -/
def EF (a : Automaton K P) (x : Nat) : Prop :=
  ∀ t e, a.g.edge? t = some e → e.src = x → e.w ≠ none

/-- `x` has at most one outgoing epsilon transition. -/
def E1 (a : Automaton K P) (x : Nat) : Prop :=
  ∀ t1 t2 e1 e2, a.g.edge? t1 = some e1 → a.g.edge? t2 = some e2 → e1.src = x → e2.src = x →
    e1.w = none → e2.w = none → t1 = t2

/-- Every state has at most one outgoing epsilon transition. -/
def E1All (a : Automaton K P) : Prop := ∀ x, E1 a x

/-- No child of `s` has an epsilon transition. -/
def ChildEF (a : Automaton K P) (s : Nat) : Prop :=
  ∀ t e, a.g.edge? t = some e → e.src = s → EF a e.dst

/-- The invariant inside the iteration at `s`. -/
structure Loc (a : Automaton K P) (s : Nat) : Prop where
  others : ∀ x, x ≠ s → E1 a x
  children : ChildEF a s

theorem EF.e1 {a : Automaton K P} {x : Nat} (h : EF a x) : E1 a x :=
  fun t1 _ e1 _ h1 _ hs1 _ hn1 _ => absurd hn1 (h t1 e1 h1 hs1)

theorem e1_of_unique {a : Automaton K P} {s : Nat} (hu : C08.UniqueAt a s) : E1 a s :=
  fun t1 t2 e1 e2 h1 h2 hs1 hs2 hn1 hn2 => hu t1 t2 e1 e2 h1 h2 hs1 hs2 (hn1.trans hn2.symm)

theorem ef_of_dead {a : Automaton K P} (inv : Inv a) {x : Nat} (hx : ¬ a.Live x) : EF a x :=
  fun _ _ he hs _ => hx (hs ▸ inv.ok.src_live he)

theorem ef_of_eorder_nil {a : Automaton K P} (inv : Inv a) {x : Nat} {w : AState K}
    (hw : a.g.weight? x = some w) (h : w.eorder = []) : EF a x := by
  intro t e he hs hn
  have hm : t ∈ w.eorder := (mem_eorder_iff inv.ok hw).2 ⟨e, he, hs, hn⟩
  rw [h] at hm
  cases hm

/-- From edges back to the fallback order. -/
theorem eorder_le_one {a : Automaton K P} (inv : Inv a) {x : Nat} {w : AState K} (h : E1 a x)
    (hw : a.g.weight? x = some w) : w.eorder.length ≤ 1 := by
  match heo : w.eorder with
  | [] => simp
  | [_] => simp
  | t1 :: t2 :: rest =>
    exfalso
    obtain ⟨e1, he1, hs1, hn1⟩ := (mem_eorder_iff inv.ok hw).1
      (show t1 ∈ w.eorder by rw [heo]; exact List.mem_cons_self)
    obtain ⟨e2, he2, hs2, hn2⟩ := (mem_eorder_iff inv.ok hw).1
      (show t2 ∈ w.eorder by rw [heo]; exact List.mem_cons_of_mem _ List.mem_cons_self)
    have heq := h t1 t2 e1 e2 he1 he2 hs1 hs2 hn1 hn2
    have hnd := (List.nodup_append.1 (inv.ok.nodup x w hw)).2.1
    rw [heo, List.nodup_cons] at hnd
    exact hnd.1 (heq ▸ List.mem_cons_self)

theorem E1All.eorder {a : Automaton K P} (inv : Inv a) (h : E1All a) :
    ∀ s w, a.g.weight? s = some w → w.eorder.length ≤ 1 :=
  fun s _ hw => eorder_le_one inv (h s) hw

/-- `Loc` together with `E1` at `s` is the global invariant. -/
theorem Loc.e1All {a : Automaton K P} {s : Nat} (L : Loc a s) (hs : E1 a s) : E1All a := by
  intro x
  by_cases hx : x = s
  · subst hx; exact hs
  · exact L.others x hx

/-! ### the guard c1E -/

section Guard
variable [DecidableEq K] [DecidableEq P]
set_option linter.unusedSectionVars false

theorem ef_of_eo {a : Automaton K P} (inv : Inv a) {x : Nat}
    (h : (match a.g.weight? x with | some w => w.eorder.isEmpty | none => true) = true) :
    EF a x := by
  cases hw : a.g.weight? x with
  | none => exact ef_of_dead inv (not_live_iff.2 hw)
  | some w =>
    rw [hw] at h
    exact ef_of_eorder_nil inv hw (List.isEmpty_iff.1 h)

/-- What the guard c1E gives at the emission of `s`. -/
theorem of_epsFreeAt {a : Automaton K P} {s : Nat} (inv : Inv a) (h : a.epsFreeAt s = true) :
    EF a s ∧ ChildEF a s := by
  unfold epsFreeAt at h
  simp only [Bool.and_eq_true, List.all_eq_true] at h
  obtain ⟨h1, h2⟩ := h
  refine ⟨ef_of_eo inv h1, fun t e he hsrc => ?_⟩
  obtain ⟨nd, hnd, hout⟩ := inv.wf.edge_src t e he
  rw [hsrc] at hnd
  have hmem : e.dst ∈ a.g.succs s := SGraph.mem_succs.2 ⟨nd, t, e, hnd, hout, he, rfl⟩
  exact ef_of_eo inv (h2 e.dst hmem)

theorem loc_of_epsFreeAt {a : Automaton K P} {s : Nat} (inv : Inv a) (E : E1All a)
    (h : a.epsFreeAt s = true) : Loc a s :=
  ⟨fun x _ => E x, (of_epsFreeAt inv h).2⟩

end Guard

/-! ### `make_constraints_unique(s)` -/

section Fuse
variable [DecidableEq K] [DecidableEq P]
set_option linter.unusedSectionVars false

/-- One fused group. -/
theorem loc_fuse {a a' : Automaton K P} {s : Nat} {ts : List Nat}
    {c0 : Option (Constraint K P)} {N tN : Nat} (inv : Inv a)
    (hg : ∀ t ∈ ts, ∃ e, a.g.edge? t = some e ∧ e.src = s ∧ e.w = c0)
    (fe : C08.FuseEdges a a' s ts N tN c0) (L : Loc a s) : Loc a' s := by
  have hold : ∀ old, IsOld a ts old → EF a old := by
    rintro old ⟨t, ht, e, he, hd⟩
    obtain ⟨e', he', hs', _⟩ := hg t ht
    rw [he] at he'; cases he'
    exact hd ▸ L.children t e he hs'
  have hN : EF a' N := by
    intro t e he hsrc hn
    rcases fe.all t e he with ⟨_, h0⟩ | ⟨_, _, h0⟩ | ⟨_, _, old, ho, t0, h0⟩
    · subst h0; exact fe.nes hsrc.symm
    · exact fe.deadN (hsrc ▸ inv.ok.src_live h0)
    · exact hold old ho t0 _ h0 rfl hn
  have hback : ∀ x, x ≠ N → x ≠ s → ∀ t e, a'.g.edge? t = some e → e.src = x →
      a.g.edge? t = some e := by
    intro x hxN hxs t e he hsrc
    rcases fe.all t e he with ⟨_, h0⟩ | ⟨_, _, h0⟩ | ⟨_, h0, _⟩
    · subst h0; exact absurd hsrc.symm hxs
    · exact h0
    · exact absurd (hsrc.symm.trans h0) hxN
  refine ⟨fun x hxs => ?_, fun t e he hsrc => ?_⟩
  · by_cases hxN : x = N
    · subst hxN; exact hN.e1
    · intro t1 t2 e1 e2 h1 h2 hs1 hs2 hn1 hn2
      exact L.others x hxs t1 t2 e1 e2 (hback x hxN hxs t1 e1 h1 hs1)
        (hback x hxN hxs t2 e2 h2 hs2) hs1 hs2 hn1 hn2
  · rcases fe.all t e he with ⟨_, h0⟩ | ⟨_, _, h0⟩ | ⟨_, h0, _⟩
    · subst h0; exact hN
    · have hdN : e.dst ≠ N := fun hd => fe.deadN (hd ▸ inv.ok.dst_live h0)
      have hds : e.dst ≠ s := fun hd => inv.noloop t e h0 (hsrc.trans hd.symm)
      intro t' e' he' hsrc' hn'
      exact L.children t e h0 hsrc t' e' (hback e.dst hdN hds t' e' he' hsrc') hsrc' hn'
    · exact absurd (h0.symm.trans hsrc) fe.nes

/-- **`make_constraints_unique(s)` preserves the local invariant** (any event log); afterwards `s`
itself has at most one epsilon transition. -/
theorem loc_makeConstraintsUnique {a a' : Automaton K P} {s : Nat} {evs evs' : List Ev}
    (inv : Inv a) (hs : a.Live s) (L : Loc a s)
    (h : a.makeConstraintsUnique s evs = .ok (a', evs')) :
    Loc a' s ∧ E1 a' s ∧ Inv a' ∧ a'.Live s := by
  have := C07.makeConstraintsUnique_induct2 (fun b => Loc b s) (s := s)
    (fun {a a' ts c0} inv hs hg _ hf hΦ => by
      obtain ⟨N, tN, fe⟩ := C08.fuseGroup_edges inv hs hg hf
      exact loc_fuse inv hg fe hΦ) inv hs L h
  exact ⟨this.1, e1_of_unique this.2.1, this.2.2.1, this.2.2.2⟩

end Fuse

end C09E
end Pm
