/-
Proofs/AnchGBuilt.lean — T-RUN-ANCH-PG, stage 4: the corollary for BUILT automata. Combines
`AnchG.trun_pg_main` with T-BUILD (`build_acc`) for the adjusted truth assignment
`pgSigmaAnch'` (for which `pgTree` is faithful: `AnchG.treeOK_sigma'`), using that the built
automaton carries no corner constraint when the inputs carry none (`AnchG.build_noCorner`), so
that acceptance under `pgSigmaAnch'` and under `pgSigmaAnch` coincide.
Everything lives in `namespace Pm.AnchG`.
-/
import PmVerif.Proofs.AnchGRun
import PmVerif.Proofs.AnchGTree
import PmVerif.Proofs.AnchGCorner
import PmVerif.Proofs.AnchKeys
import PmVerif.Props.TBuild
import PmVerif.Props.C06
namespace Pm
namespace AnchG
open Automaton

/-! ### acceptance depends on the truth of the edge constraints only -/

section Congr
variable {K P : Type} {σ σ' : Constraint K P → Bool} {A : Automaton K P}

theorem fires_congr (hE : ∀ t e c, A.g.edge? t = some e → e.w = some c → σ c = σ' c)
    (w : AState K) : fires σ A w ↔ fires σ' A w := by
  constructor
  · rintro ⟨t, ht, e, c, he, hc, hs⟩
    exact ⟨t, ht, e, c, he, hc, (hE t e c he hc) ▸ hs⟩
  · rintro ⟨t, ht, e, c, he, hc, hs⟩
    exact ⟨t, ht, e, c, he, hc, (hE t e c he hc).symm ▸ hs⟩

theorem accDetK_congr_aux (hE : ∀ t e c, A.g.edge? t = some e → e.w = some c → σ c = σ' c)
    {s pid : Nat} {ks : List K} (hacc : AccDetK σ A s pid ks) : AccDetK σ' A s pid ks := by
  induction hacc with
  | here hw hm => exact .here hw hm
  | con hw ht he hcw hs _ ih => exact .con hw ht he hcw ((hE _ _ _ he hcw) ▸ hs) ih
  | @eps s pid ks w t e hw ht he hd _ ih =>
    refine .eps hw ht he ?_ ih
    rcases hd with hd | hd
    · exact .inl hd
    · exact .inr fun hf => hd ((fires_congr hE w).mpr hf)

theorem accDetK_congr (hE : ∀ t e c, A.g.edge? t = some e → e.w = some c → σ c = σ' c)
    {s pid : Nat} {ks : List K} : AccDetK σ A s pid ks ↔ AccDetK σ' A s pid ks :=
  ⟨accDetK_congr_aux hE, accDetK_congr_aux fun t e c he hc => (hE t e c he hc).symm⟩

end Congr

/-! ### the recorded key list of a non-empty satisfied constraint vector is non-empty -/

theorem mb_sr (known : List PGKey) (k : PGKey) (hk : SR k) (n : Nat) :
    ∃ missing, missingBindings pgReq known k (n + 4) = some missing ∧
      (k ∉ known → missing ≠ []) := by
  unfold missingBindings
  by_cases hkn : k ∈ known
  · exact ⟨[], by simp [hkn], fun h => absurd hkn h⟩
  · rw [if_neg hkn]
    rcases hk with rfl | ⟨p, l, rfl⟩
    · refine ⟨[.root 0], ?_, fun _ => by simp⟩
      simp [mbLoop, pgReq]
    · by_cases h0 : PGKey.root 0 ∈ known
      · refine ⟨[.along 0 p l], ?_, fun _ => by simp⟩
        simp [mbLoop, pgReq, h0]
      · refine ⟨[.root 0, .along 0 p l], ?_, fun _ => by simp⟩
        simp [mbLoop, pgReq, h0]

theorem allMissingLoop_sr (n : Nat) : ∀ (ks known out : List PGKey), (∀ k ∈ ks, SR k) →
    ∃ more, allMissingLoop pgReq (n + 4) ks known out = some (out ++ more) := by
  intro ks
  induction ks with
  | nil => intro known out _; exact ⟨[], by simp [allMissingLoop]⟩
  | cons k ks ih =>
    intro known out hsr
    have hsr' : ∀ k' ∈ ks, SR k' := fun k' hk' => hsr k' (List.mem_cons_of_mem _ hk')
    unfold allMissingLoop
    by_cases hkn : k ∈ known
    · rw [if_pos hkn]; exact ih known out hsr'
    · rw [if_neg hkn]
      obtain ⟨missing, hm, _⟩ := mb_sr known k (hsr k List.mem_cons_self) n
      rw [hm]
      obtain ⟨more, hmore⟩ := ih (known ++ missing) (out ++ missing) hsr'
      refine ⟨missing ++ more, ?_⟩
      show allMissingLoop pgReq (n + 4) ks (known ++ missing) (out ++ missing) = _
      rw [hmore, List.append_assoc]

theorem allMissing_sr_ne (k : PGKey) (ks : List PGKey) (hsr : ∀ k' ∈ k :: ks, SR k') :
    (allMissingBindings pgReq (k :: ks) [] 64).getD [] ≠ [] := by
  unfold allMissingBindings allMissingLoop
  rw [if_neg (by simp)]
  obtain ⟨missing, hm, hne⟩ := mb_sr [] k (hsr k List.mem_cons_self) 60
  have hm' : missingBindings pgReq [] k 64 = some missing := hm
  rw [hm']
  obtain ⟨more, hmore⟩ := allMissingLoop_sr 60 ks ([] ++ missing) ([] ++ missing)
    fun k' hk' => hsr k' (List.mem_cons_of_mem _ hk')
  show (allMissingLoop pgReq 64 ks ([] ++ missing) ([] ++ missing)).getD [] ≠ []
  have hmore' : allMissingLoop pgReq 64 ks ([] ++ missing) ([] ++ missing) =
      some ([] ++ missing ++ more) := hmore
  rw [hmore']
  simp only [Option.getD_some, List.nil_append]
  intro e
  exact hne (by simp) (List.append_eq_nil_iff.mp e).1

theorem patternKeys_foldl_prefix (cs : List PGCons) : ∀ (keys : List PGKey), ∃ more,
    cs.foldl (fun keys c => keys ++ (allMissingBindings pgReq c.args keys 64).getD []) keys =
      keys ++ more := by
  induction cs with
  | nil => intro keys; exact ⟨[], by simp⟩
  | cons c cs ih =>
    intro keys
    obtain ⟨more, hm⟩ := ih (keys ++ (allMissingBindings pgReq c.args keys 64).getD [])
    exact ⟨(allMissingBindings pgReq c.args keys 64).getD [] ++ more, by
      rw [List.foldl_cons, hm, List.append_assoc]⟩

theorem sr_of_defined {h : PortGraph} {r : Nat} {k : PGKey} (hd : (pgVal h r k).isSome = true) :
    SR k := by
  cases k with
  | root i =>
    cases i with
    | zero => exact .inl rfl
    | succ i => simp [pgVal] at hd
  | along r' p l =>
    cases r' with
    | zero => exact .inr ⟨p, l, rfl⟩
    | succ r' => simp [pgVal] at hd

/-- A constraint that holds under `pgSigmaAnch h r` has at least one key, and all its keys are
defined at `r`. -/
theorem args_of_sigma {h : PortGraph} {r : Nat} {c : PGCons} (hs : pgSigmaAnch h r c = true) :
    c.args ≠ [] ∧ ∀ k ∈ c.args, (pgVal h r k).isSome = true := by
  unfold pgSigmaAnch at hs
  cases hm : c.args.mapM (pgVal h r) with
  | none => rw [hm] at hs; cases hs
  | some vs =>
    rw [hm] at hs
    simp only [beq_iff_eq] at hs
    obtain ⟨h1, h2⟩ := mapM_opt_some hm
    constructor
    · intro he
      have : vs = [] := by
        cases vs with
        | nil => rfl
        | cons u us =>
          obtain ⟨k, hk, _⟩ := h2 u List.mem_cons_self
          rw [he] at hk
          cases hk
      rw [this] at hs
      cases hp : c.pred <;> rw [hp] at hs <;> simp [pgCheck] at hs
    · intro k hk
      obtain ⟨u, hu, _⟩ := h1 k hk
      rw [hu]; rfl

theorem patternKeys_nil : pgPatternKeys [] = [] := rfl

theorem patternKeys_ne {h : PortGraph} {r : Nat} {cs : List PGCons} (hne : cs ≠ [])
    (hs : ∀ c ∈ cs, pgSigmaAnch h r c = true) : pgPatternKeys cs ≠ [] := by
  cases cs with
  | nil => exact absurd rfl hne
  | cons c rest =>
    obtain ⟨hargs, hdef⟩ := args_of_sigma (hs c List.mem_cons_self)
    unfold pgPatternKeys
    rw [List.foldl_cons]
    obtain ⟨more, hm⟩ := patternKeys_foldl_prefix rest
      ([] ++ (allMissingBindings pgReq c.args [] 64).getD [])
    rw [hm]
    intro e
    have h1 := (List.append_eq_nil_iff.mp e).1
    rw [List.nil_append] at h1
    cases hc : c.args with
    | nil => exact hargs hc
    | cons k ks =>
      rw [hc] at h1 hdef
      exact allMissing_sr_ne k ks (fun k' hk' => sr_of_defined (hdef k' hk')) h1

/-! ### the corollary for built automata -/

/-- **C01/C02 for checked single-root port-graph programs** (builder inputs given directly).
Whatever the event log of the build, if the inputs carry no corner constraint
(`isNotEqual _ [k]`, `k ≠ root 0`), `css` lists the constraint vectors by id and the built
automaton passes `pgProgramOK`, then a successful traversal reports — up to the order of the
entries of the bindings — exactly: the empty binding for an input with no constraints, and for an
input `cs ≠ []` the binding of `pgPatternKeys cs` from every live host node `r` at which all
constraints of `cs` hold (`pgSigmaAnch h r`) and all keys are defined. -/
theorem pg_built_checked (inputs : List (Nat × List PGCons × List PGKey)) (evs : List Ev)
    (fuelT fuel fuel' : Nat) (A : Automaton PGKey PGPred) (css : List (Option (List PGCons)))
    (h : PortGraph) (ms : List (Match PGMap)) (seen : List (Nat × List (Option Nat)))
    (hb : Automaton.build (fun cs => pgTree cs fuelT) pgReq fuel inputs evs = .ok A)
    (hnc : ∀ p ∈ inputs, ∀ c ∈ p.2.1, pgNoCorner c = true)
    (hcss : ∀ p ∈ inputs, css[p.1]? = some (some p.2.1))
    (hok : pgProgramOK A css = true) (hr : run pgDomain A h fuel' = .ok (ms, seen))
    (i : Nat) (m : PGMap) :
    (∃ m', (i, m') ∈ ms ∧ MapEqv m' m) ↔
      ∃ cs ex, (i, cs, ex) ∈ inputs ∧
        ((cs = [] ∧ m = []) ∨
         (cs ≠ [] ∧ ∃ r, r ∈ h.nodesIter ∧ (∀ c ∈ cs, pgSigmaAnch h r c = true) ∧
           (∀ k ∈ pgPatternKeys cs, (pgVal h r k).isSome = true) ∧
           MapGets m (pgPatternKeys cs) (pgVal h r))) := by
  rw [trun_pg_main A css h fuel' ms seen hok hr]
  -- edges of the built automaton are corner-free, so σ and σ' agree on them
  have hedge : ∀ r t e c, A.g.edge? t = some e → e.w = some c →
      pgSigmaAnch h r c = pgSigmaAnch' h r c := fun r t e c he hc =>
    (sigma'_eq_of_noCorner (build_noCorner (treeOK_sigma' h r fuelT) hb hnc t e c he hc)).symm
  have hin : ∀ r cs ex, (i, cs, ex) ∈ inputs → ∀ c ∈ cs,
      pgSigmaAnch' h r c = pgSigmaAnch h r c := fun r cs ex hmem c hc =>
    sigma'_eq_of_noCorner (hnc _ hmem c hc)
  -- T-BUILD for σ'
  have hbuild : ∀ r, AccDet (pgSigmaAnch' h r) A A.root i ↔
      ∃ cs extra, (i, cs, extra) ∈ inputs ∧ ∀ c ∈ cs, pgSigmaAnch' h r c = true := fun r =>
    build_acc (fun cs => pgTree cs fuelT) pgReq fuel inputs evs A (pgSigmaAnch' h r)
      (treeOK_sigma' h r fuelT) hb i
  -- the key list recorded for pattern `i` anywhere in the automaton
  have hrec : ∀ {σ : PGCons → Bool} {s : Nat} {ks : List PGKey} {cs : List PGCons}
      {ex : List PGKey}, AccDetK σ A s i ks → (i, cs, ex) ∈ inputs →
      ks = pgPatternKeys cs ∧ ∃ s' w', A.g.weight? s' = some w' ∧ (i, ks) ∈ w'.matches_ ∧
        (s' = A.root ∨ ks ≠ []) := by
    intro σ s ks cs ex hacc hmem
    obtain ⟨s', w', hw', hm'⟩ := Anch.accDetK_recorded hacc
    obtain ⟨_, hroot, cs', hcs', hks⟩ := (stateOK_of_programOK hok hw').matches_ i ks hm'
    have := hcss _ hmem
    simp only at this
    rw [this] at hcs'
    cases hcs'
    exact ⟨hks, s', w', hw', hm', hroot⟩
  constructor
  · rintro (⟨rfl, w, hw, hmem⟩ | ⟨r, ks, hrn, hne, hacc, hb', hmap⟩)
    · have hacc : AccDetK (pgSigmaAnch' h 0) A A.root i [] := .here hw hmem
      obtain ⟨cs, ex, hmem', hall⟩ := (hbuild 0).mp (Anch.accDet_of_accDetK hacc)
      obtain ⟨hks, _⟩ := hrec hacc hmem'
      refine ⟨cs, ex, hmem', .inl ⟨?_, rfl⟩⟩
      refine Classical.byContradiction fun hcs => ?_
      exact patternKeys_ne (h := h) (r := 0) hcs
        (fun c hc => (hin 0 cs ex hmem' c hc) ▸ hall c hc) hks.symm
    · have hacc' : AccDetK (pgSigmaAnch' h r) A A.root i ks :=
        (accDetK_congr (hedge r)).mp hacc
      obtain ⟨cs, ex, hmem', hall⟩ := (hbuild r).mp (Anch.accDet_of_accDetK hacc')
      obtain ⟨hks, _⟩ := hrec hacc hmem'
      subst hks
      refine ⟨cs, ex, hmem', .inr ⟨?_, r, hrn, ?_, hb', hmap⟩⟩
      · rintro rfl
        exact hne patternKeys_nil
      · exact fun c hc => (hin r cs ex hmem' c hc) ▸ hall c hc
  · rintro ⟨cs, ex, hmem, ⟨rfl, rfl⟩ | ⟨hcs, r, hrn, hall, hb', hmap⟩⟩
    · left
      have hacc : AccDet (pgSigmaAnch' h 0) A A.root i :=
        (hbuild 0).mpr ⟨[], ex, hmem, fun c hc => by cases hc⟩
      obtain ⟨ks, hK⟩ := Anch.accDetK_of_accDet hacc
      obtain ⟨hks, s', w', hw', hm', hroot⟩ := hrec hK hmem
      rw [patternKeys_nil] at hks
      subst hks
      have hs : s' = A.root := by
        rcases hroot with h | h
        · exact h
        · exact absurd rfl h
      subst hs
      exact ⟨rfl, w', hw', hm'⟩
    · right
      have hacc : AccDet (pgSigmaAnch' h r) A A.root i :=
        (hbuild r).mpr ⟨cs, ex, hmem, fun c hc => (hin r cs ex hmem c hc).symm ▸ hall c hc⟩
      obtain ⟨ks, hK⟩ := Anch.accDetK_of_accDet hacc
      obtain ⟨hks, _⟩ := hrec hK hmem
      subst hks
      exact ⟨r, _, hrn, patternKeys_ne hcs hall, (accDetK_congr (hedge r)).mpr hK, hb', hmap⟩

/-- `constraint_vec` never returns the empty vector. -/
theorem pgConstraints_ne_nil {g : PortGraph} {root : Nat} {cs : List PGCons}
    (hc : pgConstraints g root = some cs) : cs ≠ [] := by
  unfold pgConstraints at hc
  split at hc
  · cases hc; simp
  · split at hc
    · cases hc
    · split at hc
      · cases hc; simp
      · next hne =>
        cases hc
        intro e
        rw [e] at hne
        simp at hne

/-- **C01/C02 for checked single-root port-graph pattern sets** (`ManyMatcher`). For any
conversion `convert` all of whose results are outputs of `constraint_vec` (the driver's
`fun (p, root) => pgConstraints p root`), whatever the event log of the build: if the built
automaton passes `pgProgramOK` against the constraint vectors `pats.map convert`, then
`find_matches` reports — up to the order of the entries of the bindings — for the `i`-th pattern
with constraint vector `cs` exactly the bindings of `pgPatternKeys cs` from the live host nodes
`r` at which all constraints hold and all keys are defined. -/
theorem pg_many_checked {Pat : Type} (convert : Pat → Option (List PGCons))
    (hconv : ∀ p cs, convert p = some cs → ∃ g root, pgConstraints g root = some cs)
    (ff : Bool) (pats : List Pat) (evs : List Ev) (fuelT fuel fuel' : Nat)
    (M : Many PGKey PGPred) (h : PortGraph) (ms : List (Match PGMap))
    (hb : manyBuild convert (fun _ => ([] : List PGKey)) (fun cs => pgTree cs fuelT) pgReq fuel ff
      pats evs = some (.ok M))
    (hok : pgProgramOK M.automaton (pats.map convert) = true)
    (hf : M.findMatches pgDomain h fuel' = .ok ms) (i : Nat) (m : PGMap) :
    (∃ m', (i, m') ∈ ms ∧ MapEqv m' m) ↔
      ∃ p cs, pats[i]? = some p ∧ convert p = some cs ∧
        ∃ r, r ∈ h.nodesIter ∧ (∀ c ∈ cs, pgSigmaAnch h r c = true) ∧
          (∀ k ∈ pgPatternKeys cs, (pgVal h r k).isSome = true) ∧
          MapGets m (pgPatternKeys cs) (pgVal h r) := by
  obtain ⟨seen, hr⟩ : ∃ seen, run pgDomain M.automaton h fuel' = .ok (ms, seen) := by
    unfold Many.findMatches at hf
    cases hrun : run pgDomain M.automaton h fuel' with
    | error e => rw [hrun] at hf; cases hf
    | ok r =>
      rw [hrun] at hf
      cases hf
      exact ⟨r.2, rfl⟩
  unfold manyBuild at hb
  cases hi : manyInputs convert (fun _ => ([] : List PGKey)) ff pats 0 with
  | none => simp [hi] at hb
  | some inputs =>
    simp only [hi] at hb
    cases hbuild : Automaton.build (fun cs => pgTree cs fuelT) pgReq fuel inputs evs with
    | error e => simp [hbuild] at hb
    | ok A =>
      simp only [hbuild, Option.some.injEq, Except.ok.injEq] at hb
      subst hb
      have hpos := c06_ids_are_positions convert (fun _ => ([] : List PGKey)) ff pats 0 inputs hi
      have hnc : ∀ p ∈ inputs, ∀ c ∈ p.2.1, pgNoCorner c = true := by
        rintro ⟨j, cs, ex⟩ hmem c hc
        obtain ⟨k, p, _, _, hcv, _⟩ := (hpos j cs ex).mp hmem
        obtain ⟨g, root, hg⟩ := hconv p cs hcv
        exact pgConstraints_noCorner hg c hc
      have hcss : ∀ p ∈ inputs, (pats.map convert)[p.1]? = some (some p.2.1) := by
        rintro ⟨j, cs, ex⟩ hmem
        obtain ⟨k, p, hk, hj, hcv, _⟩ := (hpos j cs ex).mp hmem
        simp only [Nat.zero_add] at hj
        subst hj
        simp [hk, hcv]
      rw [pg_built_checked inputs evs fuelT fuel fuel' A (pats.map convert) h ms seen hbuild hnc
        hcss hok hr i m]
      constructor
      · rintro ⟨cs, ex, hmem, hcase⟩
        obtain ⟨k, p, hk, hj, hcv, _⟩ := (hpos i cs ex).mp hmem
        simp only [Nat.zero_add] at hj
        subst hj
        obtain ⟨g, root, hg⟩ := hconv p cs hcv
        rcases hcase with ⟨rfl, _⟩ | ⟨_, hrest⟩
        · exact absurd rfl (pgConstraints_ne_nil hg)
        · exact ⟨p, cs, hk, hcv, hrest⟩
      · rintro ⟨p, cs, hk, hcv, hrest⟩
        obtain ⟨g, root, hg⟩ := hconv p cs hcv
        exact ⟨cs, [], (hpos i cs []).mpr ⟨i, p, hk, by simp, hcv, rfl⟩,
          .inr ⟨pgConstraints_ne_nil hg, hrest⟩⟩

end AnchG
end Pm
