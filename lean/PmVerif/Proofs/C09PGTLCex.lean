/-
Proofs/C09PGTLCex.lean — a DISCIPLINED log (c1T, c1C, c4T) over the table domain's nested powerset
decomposition (`tTreeAll 3` = `withPowerset tCond`, the same `with_powerset` constructor `pgTree` uses
for its `IsNotEqual` families) that the replay of the Rust loop `buildTL` ACCEPTS and whose result has
a state with TWO fallback transitions.  Found by the random search `scratch/C09PGSearch.lean`
(table mode, seed 85848); 4 patterns, 33 final states, 248 events.
The evaluation is one kernel computation (`decide +kernel`: the proof term is `Eq.refl true` checked by
the kernel; no compiled-code evaluation, no extra axiom).  COST: ≈ 40–75 s for `C09PGEx.twoEps_true` — the one
declaration of this development above the 30 s guideline; it is isolated in this file.
-/
import PmVerif.Model.BuilderT
import PmVerif.Model.TableDom
import PmVerif.Spec.WF
namespace Pm
open Automaton

namespace C09PGEx

/-- Four table-domain patterns (found by the random search `scratch/C09PGSearch.lean`, seed 85848). -/
def tIn2 : List (Nat × List TCons × List Nat) :=
  [(0, [⟨.const 2, [3]⟩], []), (1, [⟨.notIn 1, [3, 0]⟩, ⟨.true_ 1, [1]⟩], []), (2, [⟨.eq, [1, 0]⟩,
   ⟨.eq, [3, 1]⟩, ⟨.notIn 1, [3, 2]⟩, ⟨.const 1, [1]⟩], []), (3, [⟨.eq, [3, 3]⟩, ⟨.ne, [2, 3]⟩,
   ⟨.eq, [2, 2]⟩], [])]

/-- A complete DISCIPLINED log for them (c1T, c1C, c4T all hold: `buildTL` accepts it): random
admissible emission order, random heuristic answers, admissible sibling merges some of which remove
an already emitted state. -/
def tEvs2 : List Ev :=
  [.topo 0, .group 0 [7, 3], .group 0 [10, 11], .group 0 [1, 0], .detAsk 0, .detYes 0, .merge 14
   [17, 16, 14], .iterEnd 0, .topo 13, .group 13 [13, 1], .group 13 [1, 14], .group 13 [4, 17],
   .detAsk 13, .detYes 13, .merge 14 [4, 14], .iterEnd 13, .topo 18, .group 18 [30, 29], .group 18
   [7, 28], .group 18 [28, 29], .group 18 [8, 25], .group 18 [18, 31], .detAsk 18, .detYes 18,
   .merge 14 [14, 4], .merge 23 [11, 17, 23, 21, 24], .iterEnd 18, .topo 20, .group 20 [5, 34, 33,
   18], .group 20 [38, 35], .group 20 [35, 18], .group 20 [39, 5], .detAsk 20, .detYes 20, .merge
   16 [16, 24], .iterEnd 20, .topo 19, .group 19 [1, 22], .group 19 [32, 34], .group 19 [22, 16],
   .detAsk 19, .detYes 19, .merge 11 [11, 26], .merge 2 [21, 2], .iterEnd 19, .topo 8, .group 8
   [58, 22], .group 8 [22, 59], .detAsk 8, .detYes 8, .merge 4 [4, 11], .merge 16 [5, 16], .iterEnd
   8, .topo 23, .group 23 [39, 27, 36], .detAsk 23, .detYes 23, .iterEnd 23, .topo 15, .group 15
   [35, 41], .group 15 [41, 42], .group 15 [51, 4], .detAsk 15, .detYes 15, .merge 21 [21, 16],
   .merge 4 [17, 4], .iterEnd 15, .topo 26, .group 26 [22, 56, 53, 54], .detAsk 26, .detYes 26,
   .merge 4 [21, 4], .merge 27 [11, 27], .iterEnd 26, .topo 2, .group 2 [51, 58, 2, 33], .detAsk 2,
   .detYes 2, .merge 27 [27, 21], .merge 2 [23, 2], .iterEnd 2, .topo 5, .group 5 [8, 20], .detAsk
   5, .iterEnd 5, .topo 25, .group 25 [49, 48], .group 25 [28, 47], .group 25 [13, 24], .group 25
   [47, 48], .group 25 [50, 37], .detAsk 25, .detYes 25, .merge 31 [31, 30], .merge 27 [27, 2],
   .iterEnd 25, .topo 32, .detAsk 32, .detYes 32, .merge 23 [26, 23], .iterEnd 32, .topo 4, .group
   4 [50, 28, 57, 52], .group 4 [52, 38], .detAsk 4, .detYes 4, .iterEnd 4, .topo 30, .group 30
   [52, 50], .detAsk 30, .iterEnd 30, .topo 16, .group 16 [70, 40, 73, 69], .group 16 [47, 68, 56,
   22, 27, 72], .group 16 [66, 68], .group 16 [55, 71], .group 16 [72, 69], .detAsk 16, .detYes 16,
   .merge 35 [12, 35, 34], .merge 6 [6, 23], .iterEnd 16, .topo 36, .group 36 [66, 79], .detAsk 36,
   .detYes 36, .merge 14 [14, 5], .iterEnd 36, .topo 28, .group 28 [41, 61], .group 28 [61, 62],
   .detAsk 28, .detYes 28, .merge 2 [23, 2], .iterEnd 28, .topo 14, .detAsk 14, .detYes 14,
   .iterEnd 14, .topo 21, .group 21 [88, 87], .group 21 [72, 86], .group 21 [58, 89], .group 21
   [86, 87], .group 21 [27, 22], .detAsk 21, .detYes 21, .merge 32 [32, 36], .merge 37 [37, 35],
   .iterEnd 21, .topo 11, .group 11 [15, 39, 35], .detAsk 11, .detYes 11, .iterEnd 11, .topo 34,
   .group 34 [61, 78, 9, 44, 43], .detAsk 34, .detYes 34, .merge 12 [37, 12], .merge 26 [26, 14],
   .iterEnd 34, .topo 38, .group 38 [102, 65, 104, 105, 107, 108, 109, 110, 58, 33], .group 38
   [103, 49, 106], .group 38 [106, 33], .detAsk 38, .detYes 38, .merge 27 [35, 27], .iterEnd 38,
   .topo 10, .group 10 [27, 92, 93], .detAsk 10, .iterEnd 10, .topo 29, .group 29 [80, 57, 55, 85,
   84, 83, 82, 53], .group 29 [81, 63], .group 29 [63, 53], .detAsk 29, .detYes 29, .merge 17 [17,
   27], .merge 31 [1, 31], .iterEnd 29, .topo 40, .group 40 [80, 110], .group 40 [63, 27, 2, 58],
   .detAsk 40, .detYes 40, .merge 36 [35, 36], .merge 26 [34, 26], .iterEnd 40, .topo 31, .merge 6
   [12, 6, 17], .iterEnd 31, .topo 24, .detAsk 24, .detYes 24, .merge 23 [17, 23], .merge 1 [1,
   37], .iterEnd 24, .topo 35, .detAsk 35, .detYes 35, .merge 34 [11, 34], .iterEnd 35, .topo 22,
   .group 22 [106, 91, 61, 78, 32, 30], .group 22 [102, 9, 15], .detAsk 22, .detYes 22, .merge 24
   [24, 32], .iterEnd 22, .topo 17, .detAsk 17, .detYes 17, .merge 30 [30, 10], .iterEnd 17, .topo
   33, .group 33 [86, 111], .group 33 [112, 113], .group 33 [113, 111], .group 33 [114, 45],
   .detAsk 33, .merge 1 [1, 23], .iterEnd 33, .topo 3, .iterEnd 3, .topo 27, .group 27 [2, 27],
   .detAsk 27, .detYes 27, .merge 8 [8, 28], .iterEnd 27, .topo 6, .group 6 [43, 75, 67, 92],
   .group 6 [106, 76, 60, 101, 66, 6, 54, 44, 63, 80, 82, 113], .group 6 [113, 92], .detAsk 6,
   .detYes 6, .iterEnd 6, .topo 12, .detAsk 12, .detYes 12, .iterEnd 12, .topo 37, .iterEnd 37,
   .topo 7, .iterEnd 7]

end C09PGEx

namespace C09PGEx

/-- What is checked of the result. -/
def twoEpsF (A : Automaton Nat TPred) : Bool :=
  !A.wfOneEpsilon && decide ((A.stateD 2).eorder = [74, 62]) && decide (A.liveStates.length = 33)

def resCheck (f : Automaton Nat TPred → Bool) : R (Automaton Nat TPred) → Bool
  | .ok A => f A
  | .error _ => false

theorem resCheck_spec {f : Automaton Nat TPred → Bool} {r : R (Automaton Nat TPred)}
    (h : resCheck f r = true) : ∃ A, r = .ok A ∧ f A = true := by
  cases r with
  | error e => cases h
  | ok A => exact ⟨A, rfl, h⟩

/-- `buildTL` accepts the log, the result has 33 live states, fails clause (c), and state `2` has the
two fallback transitions `74` and `62`. -/
theorem twoEps_true :
    resCheck twoEpsF (buildTL (fun cs => tTreeAll 3 cs 60) (fun _ => ([] : List Nat)) 60 tIn2 tEvs2)
      = true := by decide +kernel

end C09PGEx
end Pm
