/-
Proofs/GuardEMain.lean — the disciplined lenient replay with the emission-time check c1G
(`GE.buildTLC`) and the main induction: `buildTD ⊑ buildTLC ⊑ buildTG ⊑ buildTL`
(namespace `Pm.GE`).  See `Proofs/GuardECore.lean` for the per-iteration argument.
-/
import PmVerif.Proofs.GuardECore
namespace Pm
namespace GE
open Automaton TBL C09E
variable {K P : Type} [DecidableEq K] [DecidableEq P]
set_option linter.unusedSectionVars false

/-- `mainLoopWith makeDetL` (the Rust loop) with the additional emission-time check c1G. -/
def mainLoopC (toTree : List (Constraint K P) → Option (CTree (Constraint K P))) (fuel : Nat) :
    Nat → Automaton K P → List Nat → List Ev → R (Automaton K P)
  | _, a, emitted, [] =>
    if a.g.nodeIndices.all emitted.contains then .ok a
    else .error (.guard "c1C: the log ends although a live state was never emitted")
  | 0, _, _, _ :: _ => .error (.fuel "main loop")
  | n + 1, a, emitted, .topo s :: evs =>
    if !a.topoAdmissible emitted s then
      .error (.guard "c1T: state emitted twice or before one of its predecessors")
    else if !c1G a s then
      .error (.guard "c1G: the emitted state has a deterministic child and a child with a fallback transition")
    else
      match iterationWith makeDetL toTree fuel a s evs with
      | .error e => .error e
      | .ok (a, evs) => mainLoopC toTree fuel n a (s :: emitted) evs
  | _, _, _, _ :: _ => .error (.guard "expected a Topo event")

def finishC (toTree : List (Constraint K P) → Option (CTree (Constraint K P))) (req : K → List K)
    (fuel : Nat) (a : Automaton K P) (evs : List Ev) : R (Automaton K P) :=
  match mainLoopC toTree fuel evs.length a [] evs with
  | .error e => .error e
  | .ok a => populateScopes req fuel a

/-- The disciplined lenient build restricted to logs on which c1G holds at every emission. -/
def buildTLC (toTree : List (Constraint K P) → Option (CTree (Constraint K P))) (req : K → List K)
    (fuel : Nat) (patterns : List (Nat × List (Constraint K P) × List K)) (evs : List Ev) :
    R (Automaton K P) :=
  match addPatterns req fuel new patterns with
  | .error e => .error e
  | .ok a => finishC toTree req fuel a evs

/-- The guard c1D gives `NonDetChildren` (as `C07.ndc_of_noDetChild`). -/
theorem ndc_of_noDetChild {a : Automaton K P} {s : Nat} (inv : Inv a)
    (h : a.noDetChild s = true) : NonDetChildren a s := by
  intro t e he hsrc hdet
  obtain ⟨nd, hnd, hout⟩ := inv.wf.edge_src t e he
  rw [hsrc] at hnd
  have hmem : e.dst ∈ a.g.succs s := SGraph.mem_succs.2 ⟨nd, t, e, hnd, hout, he, rfl⟩
  unfold noDetChild at h
  have := List.all_eq_true.1 h e.dst hmem
  obtain ⟨w, hw, hd⟩ := hdet
  rw [hw] at this
  simp only [hd] at this
  cases this

/-- c1G at the emission of `s` gives the local condition after the three sub-steps. -/
theorem localOK_after {σ : Constraint K P → Bool}
    {toTree : List (Constraint K P) → Option (CTree (Constraint K P))} (L : StepLemmas σ toTree)
    {fuel : Nat} {a a1 a2 a3 : Automaton K P} {s : Nat} {evs evs1 evs3 : List Ev} {td : Bool}
    (inv : Inv a) (hs : a.Live s) (hc : c1G a s = true)
    (h1 : a.makeConstraintsUnique s evs = .ok (a1, evs1))
    (h2 : insertConstraintTree toTree a1 s fuel = .ok (a2, td))
    (h3 : a2.makeConstraintsUnique s evs1 = .ok (a3, evs3)) : Inv a3 ∧ LocalOK a3 s := by
  have p1 := L.fuse inv hs h1
  have p2 := (L.tree p1.inv p1.live_s h2).pres
  have p3 := L.fuse p2.inv p2.live_s h3
  refine ⟨p3.inv, ?_⟩
  unfold c1G at hc
  rw [Bool.or_eq_true] at hc
  rcases hc with hc | hc
  · exact .inl (p3.ndc (p2.ndc (p1.ndc (ndc_of_noDetChild inv hc))))
  · have c0 := childEF_of_childEpsFree inv hc
    have c1 := childEF_makeConstraintsUnique inv hs c0 h1
    have c2 := childEF_insertConstraintTree p1.inv p1.live_s c1 h2
    exact .inr (childEF_makeConstraintsUnique p2.inv p2.live_s c2 h3)

/-- One iteration: under c1G the unguarded iteration is an iteration with guard E. -/
theorem iterationWith_E_of_L {σ : Constraint K P → Bool}
    {toTree : List (Constraint K P) → Option (CTree (Constraint K P))} (L : StepLemmas σ toTree)
    {fuel : Nat} {a : Automaton K P} {s : Nat} {evs : List Ev} {r : Automaton K P × List Ev}
    (inv : Inv a) (hc : c1G a s = true)
    (h : iterationWith makeDetL toTree fuel a s evs = .ok r) :
    iterationWith makeDetE toTree fuel a s evs = .ok r := by
  unfold iterationWith at h ⊢
  by_cases hlive : (!a.g.containsNode s) = true
  · rw [if_pos hlive] at h; cases h
  · rw [if_neg hlive] at h ⊢
    have hs : a.Live s := by
      unfold Live; cases hx : a.g.containsNode s <;> simp_all
    cases h1 : a.makeConstraintsUnique s evs with
    | error e => rw [h1] at h; cases h
    | ok v1 =>
      obtain ⟨a1, evs1⟩ := v1
      rw [h1] at h
      simp only at h ⊢
      cases h2 : insertConstraintTree toTree a1 s fuel with
      | error e => rw [h2] at h; cases h
      | ok v2 =>
        obtain ⟨a2, treeDet⟩ := v2
        rw [h2] at h
        simp only at h ⊢
        cases h3 : a2.makeConstraintsUnique s evs1 with
        | error e => rw [h3] at h; cases h
        | ok v3 =>
          obtain ⟨a3, evs3⟩ := v3
          rw [h3] at h
          simp only at h ⊢
          obtain ⟨inv3, hl3⟩ := localOK_after L inv hs hc h1 h2 h3
          have key : ∀ (x y : R (Automaton K P × List Ev)),
              (∀ v, x = .ok v → y = .ok v) →
              (match x with
                | .error e => .error e
                | .ok (a, evs) =>
                  match a.mergesLoggedT evs with
                  | .error e => .error e
                  | .ok (a, .iterEnd s' :: evs) =>
                    if s' = s then .ok (a, evs) else .error (.guard "IterEnd for another state")
                  | .ok _ => .error (.guard "missing IterEnd event")) = Except.ok r →
              (match y with
                | .error e => .error e
                | .ok (a, evs) =>
                  match a.mergesLoggedT evs with
                  | .error e => .error e
                  | .ok (a, .iterEnd s' :: evs) =>
                    if s' = s then .ok (a, evs) else .error (.guard "IterEnd for another state")
                  | .ok _ => .error (.guard "missing IterEnd event")) = Except.ok r := by
            intro x y hxy hx
            cases x with
            | error e => cases hx
            | ok v => rw [hxy v rfl]; exact hx
          refine key _ _ ?_ h
          intro v hv
          split at hv
          · rw [if_pos ‹_›]
            split at hv
            · split at hv
              · rw [if_pos ‹_›]
                cases hm : a3.makeDetL s with
                | error e => rw [hm] at hv; cases hv
                | ok a4 =>
                  rw [hm] at hv
                  rw [makeDetE_of_makeDetL inv3 hl3 hm]
                  exact hv
              · cases hv
            · exact hv
            · cases hv
          · rw [if_neg ‹_›]; exact hv

theorem mainLoopC_imp_E {σ : Constraint K P → Bool}
    {toTree : List (Constraint K P) → Option (CTree (Constraint K P))} (L : StepLemmas σ toTree)
    {fuel : Nat} : ∀ (n : Nat) {a a' : Automaton K P} {emitted : List Nat} {evs : List Ev},
      Automaton.Good σ a → mainLoopC toTree fuel n a emitted evs = .ok a' →
      mainLoopWith makeDetE toTree fuel n a emitted evs = .ok a' := by
  intro n
  induction n with
  | zero =>
    intro a a' emitted evs _ h
    cases evs with
    | nil => unfold mainLoopC at h; unfold mainLoopWith; exact h
    | cons e es => unfold mainLoopC at h; cases h
  | succ n ih =>
    intro a a' emitted evs g h
    cases evs with
    | nil => unfold mainLoopC at h; unfold mainLoopWith; exact h
    | cons e es =>
      cases e with
      | topo s =>
        unfold mainLoopC at h
        unfold mainLoopWith
        split at h
        · cases h
        · rename_i hadm
          rw [if_neg hadm]
          split at h
          · cases h
          · rename_i hcg
            have hc : c1G a s = true := by
              cases hx : c1G a s <;> simp_all
            split at h
            · cases h
            · rename_i a1 evs1 h1
              have hE := iterationWith_E_of_L L g.inv hc h1
              rw [hE]
              have k1 := iterationWith_keeps L (detKeeps_makeDetE σ) g hE
              exact ih k1.1 h
      | _ => unfold mainLoopC at h; cases h

/-- **c1G implies guard E**: a log accepted by the lenient disciplined replay with the
emission-time check c1G is accepted, with the same automaton, by the replay with guard E. -/
theorem buildTLC_imp_buildTG {σ : Constraint K P → Bool}
    {toTree : List (Constraint K P) → Option (CTree (Constraint K P))} (hT : TreeOK toTree σ)
    {req : K → List K} {fuel : Nat} {patterns : List (Nat × List (Constraint K P) × List K)}
    {evs : List Ev} {A : Automaton K P}
    (h : buildTLC toTree req fuel patterns evs = .ok A) :
    buildTG toTree req fuel patterns evs = .ok A := by
  unfold buildTLC at h
  unfold buildTG
  split at h
  · cases h
  · rename_i a1 h1
    rw [h1]
    simp only
    obtain ⟨inv1, _, rs1, nd1, _⟩ := addPatterns_spec (σ := σ) h1
    have g1 : Automaton.Good σ a1 := ⟨inv1, rs1, detOKE_of_noDet nd1⟩
    unfold finishC at h
    unfold finishWith
    cases h2 : mainLoopC toTree fuel evs.length a1 [] evs with
    | error e => rw [h2] at h; cases h
    | ok a2 =>
      rw [h2] at h
      rw [mainLoopC_imp_E (stepLemmas hT) _ g1 h2]
      exact h

/-! ### c1G is weaker than c1D -/

theorem makeDetL_of_makeDet {a a' : Automaton K P} {s : Nat} (h : a.makeDet s = .ok a') :
    a.makeDetL s = .ok a' := makeDetL_of_makeDetE (makeDetE_of_makeDet h)

theorem mainLoopD_imp_C
    {toTree : List (Constraint K P) → Option (CTree (Constraint K P))} {fuel : Nat} :
    ∀ (n : Nat) {a a' : Automaton K P} {emitted : List Nat} {evs : List Ev},
      mainLoopD makeDet toTree fuel n a emitted evs = .ok a' →
      mainLoopC toTree fuel n a emitted evs = .ok a' := by
  intro n
  induction n with
  | zero =>
    intro a a' emitted evs h
    cases evs with
    | nil => unfold mainLoopD at h; unfold mainLoopC; exact h
    | cons e es => unfold mainLoopD at h; cases h
  | succ n ih =>
    intro a a' emitted evs h
    cases evs with
    | nil => unfold mainLoopD at h; unfold mainLoopC; exact h
    | cons e es =>
      cases e with
      | topo s =>
        unfold mainLoopD at h
        unfold mainLoopC
        split at h
        · cases h
        · rename_i hadm
          rw [if_neg hadm]
          split at h
          · cases h
          · rename_i hnd
            have hc : (!c1G a s) = false := by
              unfold c1G
              cases hx : a.noDetChild s <;> simp_all
            rw [hc]
            simp only [Bool.false_eq_true, if_false]
            split at h
            · cases h
            · rename_i a1 evs1 h1
              rw [iterationWith_mono (fun _ _ _ hm => makeDetL_of_makeDet hm) h1]
              exact ih h
      | _ => unfold mainLoopD at h; cases h

/-- The strict replay `buildTD` (c1D) is a restriction of `buildTLC` (c1G). -/
theorem buildTD_imp_buildTLC
    {toTree : List (Constraint K P) → Option (CTree (Constraint K P))}
    {req : K → List K} {fuel : Nat} {patterns : List (Nat × List (Constraint K P) × List K)}
    {evs : List Ev} {A : Automaton K P}
    (h : buildTD toTree req fuel patterns evs = .ok A) :
    buildTLC toTree req fuel patterns evs = .ok A := by
  unfold buildTD at h
  unfold buildTLC
  split at h
  · cases h
  · rename_i a1 h1
    rw [h1]
    simp only
    unfold finishD at h
    unfold finishC
    cases h2 : mainLoopD makeDet toTree fuel evs.length a1 [] evs with
    | error e => rw [h2] at h; cases h
    | ok a2 =>
      rw [h2] at h
      rw [mainLoopD_imp_C _ h2]
      exact h

end GE
end Pm
