/-
Proofs/TBuildLMain.lean — the main induction of T-BUILD for the DISCIPLINED replay
`Automaton.finishWith det` (Model/BuilderT.lean), generic in the `make_det` variant `det`:
whenever `det` keeps the global invariant `Good` and the language of the root, so does every
iteration, the main loop and the whole build (`buildWith_sem`).  Instantiated with
`TBL.makeDetE` (guard E, Proofs/TBuildLDet.lean) this gives T-BUILD for `TBL.buildTG`.
Monotonicity in `det` (`finishWith_mono`) relates `buildT`, `buildTG` and `buildTL`.
-/
import PmVerif.Proofs.TBuildLDet
import PmVerif.Proofs.C08BuildT
import PmVerif.Props.TBuild
namespace Pm
namespace TBL
open Automaton
variable {K P : Type} [DecidableEq K] [DecidableEq P]
set_option linter.unusedSectionVars false

/-- The disciplined build with guard E: between `buildT` (strong guard) and `buildTL` (none). -/
def buildTG (toTree : List (Constraint K P) → Option (CTree (Constraint K P))) (req : K → List K)
    (fuel : Nat) (patterns : List (Nat × List (Constraint K P) × List K)) (evs : List Ev) :
    R (Automaton K P) :=
  match addPatterns req fuel new patterns with
  | .error e => .error e
  | .ok a => finishWith makeDetE toTree req fuel a evs

/-- What the main induction needs from the `make_det` variant. -/
def DetKeeps (σ : Constraint K P → Bool) (det : Automaton K P → Nat → R (Automaton K P)) : Prop :=
  ∀ {a a' : Automaton K P} {s : Nat}, Good σ a → det a s = .ok a' → Keeps σ a a'

theorem detKeeps_makeDetE (σ : Constraint K P → Bool) : DetKeeps σ (makeDetE (K := K) (P := P)) := by
  intro a a' s g h
  obtain ⟨i, r, rs, l, d⟩ := makeDetE_spec g.inv g.rs g.det h
  exact ⟨⟨i, rs, d⟩, r, l⟩

theorem afterDetWith_keeps {σ : Constraint K P → Bool}
    {det : Automaton K P → Nat → R (Automaton K P)} (hdet : DetKeeps σ det)
    {a a3 a4 : Automaton K P} {s : Nat} {treeDet : Bool} {evs3 evs4 : List Ev}
    (k3 : Keeps σ a a3)
    (h : (if treeDet then
        match evs3 with
        | .detAsk s' :: .detYes s'' :: evs' =>
          if s' = s ∧ s'' = s then (det a3 s).map (·, evs')
          else .error (.guard "c5: DetAsk/DetYes for another state")
        | .detAsk s' :: evs' =>
          if s' = s then .ok (a3, evs') else .error (.guard "c5: DetAsk for another state")
        | _ => .error (.guard "c5: missing DetAsk event")
      else .ok (a3, evs3) : R (Automaton K P × List Ev)) = .ok (a4, evs4)) : Keeps σ a a4 := by
  split at h
  · split at h
    · split at h
      · cases hm : det a3 s with
        | error e => rw [hm] at h; cases h
        | ok a4' =>
          rw [hm] at h
          cases h
          exact k3.trans (hdet k3.1 hm)
      · cases h
    · split at h
      · cases h; exact k3
      · cases h
    · cases h
  · cases h; exact k3

theorem iterationWith_keeps {σ : Constraint K P → Bool}
    {toTree : List (Constraint K P) → Option (CTree (Constraint K P))} (L : StepLemmas σ toTree)
    {det : Automaton K P → Nat → R (Automaton K P)} (hdet : DetKeeps σ det)
    {fuel : Nat} {a a' : Automaton K P} {s : Nat} {evs evs' : List Ev} (g : Good σ a)
    (h : iterationWith det toTree fuel a s evs = .ok (a', evs')) : Keeps σ a a' := by
  unfold iterationWith at h
  split at h
  · cases h
  · rename_i hlive
    have hs : a.Live s := by
      unfold Live; cases hx : a.g.containsNode s <;> simp_all
    split at h
    · cases h
    · rename_i a1 evs1 h1
      have p1 := L.fuse g.inv hs h1
      have k1 := Keeps.of_pres g p1
      split at h
      · cases h
      · rename_i a2 treeDet h2
        have p2 := (L.tree p1.inv p1.live_s h2).pres
        have k2 := k1.trans (Keeps.of_pres k1.1 p2)
        split at h
        · cases h
        · rename_i a3 evs3 h3
          have p3 := L.fuse p2.inv p2.live_s h3
          have k3 := k2.trans (Keeps.of_pres k2.1 p3)
          exact iteration_tail L _ (fun a4 evs4 h4 => afterDetWith_keeps hdet k3 h4)
            (C08.iteration_tail_of_T _ h)

theorem mainLoopWith_keeps {σ : Constraint K P → Bool}
    {toTree : List (Constraint K P) → Option (CTree (Constraint K P))} (L : StepLemmas σ toTree)
    {det : Automaton K P → Nat → R (Automaton K P)} (hdet : DetKeeps σ det)
    {fuel : Nat} : ∀ (n : Nat) {a a' : Automaton K P} (emitted : List Nat) (evs : List Ev),
    Good σ a → mainLoopWith det toTree fuel n a emitted evs = .ok a' → Keeps σ a a' := by
  intro n
  induction n with
  | zero =>
    intro a a' emitted evs g h
    cases evs with
    | nil =>
      unfold mainLoopWith at h
      split at h
      · cases h; exact ⟨g, rfl, fun _ => Iff.rfl⟩
      · cases h
    | cons e es => unfold mainLoopWith at h; cases h
  | succ n ih =>
    intro a a' emitted evs g h
    cases evs with
    | nil =>
      unfold mainLoopWith at h
      split at h
      · cases h; exact ⟨g, rfl, fun _ => Iff.rfl⟩
      · cases h
    | cons e es =>
      cases e with
      | topo s =>
        unfold mainLoopWith at h
        split at h
        · cases h
        · split at h
          · cases h
          · rename_i a1 evs1 h1
            have k1 := iterationWith_keeps L hdet g h1
            exact k1.trans (ih _ evs1 k1.1 h)
      | _ => unfold mainLoopWith at h; cases h

/-- Everything the final theorems need about a successful disciplined build with a `make_det`
variant that keeps the invariant. -/
theorem buildWith_sem {σ : Constraint K P → Bool}
    {toTree : List (Constraint K P) → Option (CTree (Constraint K P))} (L : StepLemmas σ toTree)
    {det : Automaton K P → Nat → R (Automaton K P)} (hdet : DetKeeps σ det)
    {req : K → List K} {fuel : Nat} {patterns : List (Nat × List (Constraint K P) × List K)}
    {evs : List Ev} {a1 A : Automaton K P}
    (h1 : addPatterns req fuel (new : Automaton K P) patterns = .ok a1)
    (h : finishWith det toTree req fuel a1 evs = .ok A) :
    Inv A ∧ DetOK σ A ∧
    (∃ rank : Nat → Nat, ∀ t e, A.g.edge? t = some e → rank e.dst < rank e.src) ∧
    ∀ pid, AccND σ A A.root pid ↔
      ∃ cs extra, (pid, cs, extra) ∈ patterns ∧ ∀ c ∈ cs, σ c = true := by
  obtain ⟨inv1, _, rs1, nd1, hl1⟩ := addPatterns_spec (σ := σ) h1
  have g1 : Good σ a1 := ⟨inv1, rs1, detOKE_of_noDet nd1⟩
  unfold finishWith at h
  split at h
  · cases h
  · rename_i a2 h2
    obtain ⟨g2, hr2, hl2⟩ := mainLoopWith_keeps L hdet _ _ _ g1 h2
    obtain ⟨inv3, hr3, he3, hw3⟩ := populateScopes_frame g2.inv h
    obtain ⟨rank, hrank⟩ := populateScopes_rank g2.inv h
    obtain ⟨hnd, _, hdk⟩ := sem_congr he3 hw3 σ
    refine ⟨inv3, hdk ((detOK_iff g2.inv.ok).2 g2.det), ⟨rank, fun t e he => ?_⟩, fun pid => ?_⟩
    · rw [he3] at he; exact hrank t e he
    · rw [hnd, hr3, hl2, hl1]

/-! ### monotonicity in the `make_det` variant -/

section Mono
variable {det1 det2 : Automaton K P → Nat → R (Automaton K P)}

theorem iterationWith_mono (hd : ∀ a s a', det1 a s = .ok a' → det2 a s = .ok a')
    {toTree : List (Constraint K P) → Option (CTree (Constraint K P))} {fuel : Nat}
    {a : Automaton K P} {s : Nat} {evs : List Ev} {r : Automaton K P × List Ev}
    (h : iterationWith det1 toTree fuel a s evs = .ok r) :
    iterationWith det2 toTree fuel a s evs = .ok r := by
  unfold iterationWith at h ⊢
  by_cases hlive : (!a.g.containsNode s) = true
  · rw [if_pos hlive] at h; cases h
  · rw [if_neg hlive] at h ⊢
    cases h1 : a.makeConstraintsUnique s evs with
    | error e => rw [h1] at h; cases h
    | ok v1 =>
      obtain ⟨a1, evs1⟩ := v1
      rw [h1] at h
      simp only at h ⊢
      cases h2 : insertConstraintTree toTree a1 s fuel with
      | error e => rw [h2] at h; cases h
      | ok v2 =>
        obtain ⟨a2, treeDet⟩ := v2
        rw [h2] at h
        simp only at h ⊢
        cases h3 : a2.makeConstraintsUnique s evs1 with
        | error e => rw [h3] at h; cases h
        | ok v3 =>
          obtain ⟨a3, evs3⟩ := v3
          rw [h3] at h
          simp only at h ⊢
          have key : ∀ (x y : R (Automaton K P × List Ev)),
              (∀ v, x = .ok v → y = .ok v) →
              (match x with
                | .error e => .error e
                | .ok (a, evs) =>
                  match a.mergesLoggedT evs with
                  | .error e => .error e
                  | .ok (a, .iterEnd s' :: evs) =>
                    if s' = s then .ok (a, evs) else .error (.guard "IterEnd for another state")
                  | .ok _ => .error (.guard "missing IterEnd event")) = Except.ok r →
              (match y with
                | .error e => .error e
                | .ok (a, evs) =>
                  match a.mergesLoggedT evs with
                  | .error e => .error e
                  | .ok (a, .iterEnd s' :: evs) =>
                    if s' = s then .ok (a, evs) else .error (.guard "IterEnd for another state")
                  | .ok _ => .error (.guard "missing IterEnd event")) = Except.ok r := by
            intro x y hxy hx
            cases x with
            | error e => cases hx
            | ok v => rw [hxy v rfl]; exact hx
          refine key _ _ ?_ h
          intro v hv
          split at hv
          · rw [if_pos ‹_›]
            split at hv
            · split at hv
              · rw [if_pos ‹_›]
                cases hm : det1 a3 s with
                | error e => rw [hm] at hv; cases hv
                | ok a4 =>
                  rw [hm] at hv
                  rw [hd _ _ _ hm]
                  exact hv
              · cases hv
            · exact hv
            · cases hv
          · rw [if_neg ‹_›]; exact hv

theorem mainLoopWith_mono (hd : ∀ a s a', det1 a s = .ok a' → det2 a s = .ok a')
    {toTree : List (Constraint K P) → Option (CTree (Constraint K P))} {fuel : Nat} :
    ∀ (n : Nat) {a a' : Automaton K P} {emitted : List Nat} {evs : List Ev},
      mainLoopWith det1 toTree fuel n a emitted evs = .ok a' →
      mainLoopWith det2 toTree fuel n a emitted evs = .ok a' := by
  intro n
  induction n with
  | zero =>
    intro a a' emitted evs h
    cases evs with
    | nil => unfold mainLoopWith at h ⊢; exact h
    | cons e es => unfold mainLoopWith at h; cases h
  | succ n ih =>
    intro a a' emitted evs h
    cases evs with
    | nil => unfold mainLoopWith at h ⊢; exact h
    | cons e es =>
      cases e with
      | topo s =>
        unfold mainLoopWith at h ⊢
        split at h
        · cases h
        · rename_i hadm
          rw [if_neg hadm]
          split at h
          · cases h
          · rename_i a1 evs1 h1
            rw [iterationWith_mono hd h1]
            exact ih h
      | _ => unfold mainLoopWith at h; cases h

theorem finishWith_mono (hd : ∀ a s a', det1 a s = .ok a' → det2 a s = .ok a')
    {toTree : List (Constraint K P) → Option (CTree (Constraint K P))} {req : K → List K}
    {fuel : Nat} {a A : Automaton K P} {evs : List Ev}
    (h : finishWith det1 toTree req fuel a evs = .ok A) :
    finishWith det2 toTree req fuel a evs = .ok A := by
  unfold finishWith at h ⊢
  cases h2 : mainLoopWith det1 toTree fuel evs.length a [] evs with
  | error e => rw [h2] at h; cases h
  | ok a2 =>
    rw [h2] at h
    rw [mainLoopWith_mono hd _ h2]
    exact h

end Mono

end TBL
end Pm
