/-
Proofs/C08PGErrors.lean — C08 for port graphs, fuel sufficiency of the disciplined builds,
assembly: for single-root inputs (constraint and extra keys are single-root keys), with
`B = 2 ^ (|pgUniverse inputs| + 1)`, `fuel ≥ max 16 B` and `fuelT ≥ B`, EVERY error of
`buildT` / `buildTL` over `pgTree`, on EVERY event log, is a guard error of the replay (the log is
not one the Rust loop can produce) or the panic "Graph should be acyclic":
* `all_missing_bindings`: `pgReq` is the star scheme on single-root keys (`mbOKOn_pg`), 16 steps;
* `to_constraints_tree` (the model's fuel for `with_powerset`): its input is duplicate-free and
  drawn from the universe (`pgTree_tot_universe`);
* `add_constraint_tree`: the tree has at most `B` nodes, each popped at most once
  (`treeStepOKQ_pg`);
* the main loop is given the length of the log.
Everything lives in `namespace Pm.C08PG`.
-/
import PmVerif.Proofs.C08PGBuildPG
import PmVerif.Proofs.C08PGFuel
import PmVerif.Proofs.C08PGTreeLoop
namespace Pm
namespace C08PG
open Automaton C08 AnchG

/-- The edge predicate of the fuel theorem: in the universe, over single-root keys. -/
def UQ (inputs : List (Nat × List PGCons × List PGKey)) (c : PGCons) : Prop :=
  c ∈ pgUniverse inputs ∧ ∀ k ∈ c.args, SR k

/-- The explicit fuel bound of the port-graph build: `max 16 (2 ^ (|pgUniverse inputs| + 1))`. -/
def pgBuildBound (inputs : List (Nat × List PGCons × List PGKey)) : Nat :=
  max 16 (2 ^ ((pgUniverse inputs).length + 1))

/-- The bound on the model's fuel for `with_powerset`: `2 ^ (|pgUniverse inputs| + 1)`. -/
def pgTreeBound (inputs : List (Nat × List PGCons × List PGKey)) : Nat :=
  2 ^ ((pgUniverse inputs).length + 1)

theorem pgTreeBound_le_buildBound (inputs : List (Nat × List PGCons × List PGKey)) :
    pgTreeBound inputs ≤ pgBuildBound inputs := Nat.le_max_right _ _

theorem treeStepOKQ_mono {K P : Type} [DecidableEq K] [DecidableEq P] {A : Err → Prop}
    {Q Q' : Constraint K P → Prop}
    {toTree : List (Constraint K P) → Option (CTree (Constraint K P))} {fuel : Nat}
    (hQ : ∀ c, Q' c → Q c) (h : TreeStepOKQ A Q toTree fuel) : TreeStepOKQ A Q' toTree fuel :=
  fun a1 cs tree s ch hnd hcs htree inv hs hch hv =>
    h a1 cs tree s ch hnd (fun c hc => hQ c (hcs c hc)) htree inv hs hch hv

/-- **Port graphs, single-root inputs, fuels above the explicit bounds, EVERY log**: every error
of the disciplined build (guarded or lenient `make_det`) is a guard error of the replay or the
panic "Graph should be acyclic". -/
theorem pg_buildWith_errors {det : Automaton PGKey PGPred → Nat → R (Automaton PGKey PGPred)}
    (inputs : List (Nat × List PGCons × List PGKey)) (hdet : DetOKQ (UQ inputs) det)
    (hsr : ∀ p ∈ inputs, (∀ c ∈ p.2.1, ∀ k ∈ c.args, SR k) ∧ ∀ k ∈ p.2.2, SR k)
    (fuel fuelT : Nat) (hfuel : pgBuildBound inputs ≤ fuel) (hfT : pgTreeBound inputs ≤ fuelT)
    (evs : List Ev) :
    Only (OrAcyclic IsGuard) (buildWith det (fun cs => pgTree cs fuelT) pgReq fuel inputs evs) := by
  have h16 : 16 ≤ fuel := Nat.le_trans (Nat.le_max_left _ _) hfuel
  have hB : 2 ^ ((pgUniverse inputs).length + 1) ≤ fuel :=
    Nat.le_trans (Nat.le_max_right _ _) hfuel
  refine buildWith_onlyOn (A := IsGuard) (Q := UQ inputs) (Pk := SR) (fun _ h => h) hdet
    (treeQ_pg (fun c c' S h hc => ⟨pgCond_universe inputs h hc.1,
      fun k hk => hc.2 k (pgCond_args_sub h k hk)⟩) fuelT) ?_ pgReq fuel
    (treeStepOKQ_mono (fun c hc => hc.1) (treeStepOKQ_pg IsGuard (pgUniverse inputs) fuelT hB))
    (mbOKOn_pg IsGuard h16) (fun c hc => hc.2) inputs
    (fun p hp c hc => ⟨inputs_sub_universe inputs p hp c hc, (hsr p hp).1 c hc⟩)
    (fun p hp => (hsr p hp).2) evs
  right
  intro cs hnd hsub
  apply pgTree_terminates
  have hlen : cs.length ≤ (pgUniverse inputs).length :=
    hnd.length_le_of_subset fun c hc => (hsub c hc).1
  exact Nat.le_trans (Nat.pow_le_pow_right (by decide) (by omega)) hfT


/-! ### `ManyMatcher` inputs through the disciplined builds -/

section Many
variable {Pat : Type} (convert : Pat → Option (List PGCons))

/-- Traversal facts of an automaton returned by a disciplined build (guarded or LENIENT) of the
inputs `manyInputs` computes from arity-correct constraint vectors. -/
theorem many_builtWith_facts
    {det : Automaton PGKey PGPred → Nat → R (Automaton PGKey PGPred)}
    (hdet : DetOKQ (fun c : PGCons => c.args.length = c.pred.arity) det)
    {ff : Bool} {pats : List Pat} {evs : List Ev} {fuelT fuel : Nat}
    {inputs : List (Nat × List PGCons × List PGKey)} {A : Automaton PGKey PGPred}
    (har : ∀ p ∈ pats, ∀ cs, convert p = some cs → ∀ c ∈ cs, c.args.length = c.pred.arity)
    (hi : manyInputs convert (fun _ => ([] : List PGKey)) ff pats 0 = some inputs)
    (hb : buildWith det (fun cs => pgTree cs fuelT) pgReq fuel inputs evs = .ok A) :
    OrdersOK A ∧ (∃ w, A.g.weight? A.root = some w) ∧ ArityOK A ∧
      ∃ rank : Nat → Nat, (∀ s, rank s ≤ A.g.nodes.length) ∧
        ∀ t e, A.g.edge? t = some e → rank e.dst < rank e.src := by
  refine pg_builtWith_arity hdet ?_ hb
  intro x hx c hc
  obtain ⟨p, hp, hcv, _, _⟩ := many_inputs_spec convert hi x hx
  exact har p hp _ hcv c hc

/-- Scopes and recorded key lists of an automaton returned by a disciplined build (guarded or
LENIENT) of the inputs `manyInputs` computes from single-root constraint vectors. -/
theorem many_builtWith_shapes
    {det : Automaton PGKey PGPred → Nat → R (Automaton PGKey PGPred)}
    (hdet : DetOKQ (fun c : PGCons => ∀ k ∈ c.args, SR k) det) (hdm : DetMFrom det)
    {ff : Bool} {pats : List Pat} {evs : List Ev} {fuelT fuel : Nat}
    {inputs : List (Nat × List PGCons × List PGKey)} {A : Automaton PGKey PGPred}
    (hsr : ∀ p ∈ pats, ∀ cs, convert p = some cs → pgSigMultiRoot cs = false)
    (hi : manyInputs convert (fun _ => ([] : List PGKey)) ff pats 0 = some inputs)
    (hb : buildWith det (fun cs => pgTree cs fuelT) pgReq fuel inputs evs = .ok A) :
    (∀ s w, A.g.weight? s = some w → AnchG.Sh w.scope) ∧
    (∀ s w, A.g.weight? s = some w → ∀ m ∈ w.matches_, AnchG.Sh m.2) := by
  have hsrc : ∀ p ∈ pats, ∀ cs, convert p = some cs → ∀ c ∈ cs, ∀ k ∈ c.args, SR k :=
    fun p hp cs hcv c hc => (pgSingleRootKeys_iff c.args).1
      ((tdom_pg_single_root _).1 (hsr p hp _ hcv) c hc)
  refine pg_builtWith_shapes hdet hdm (pats.map convert) ?_ ?_ hb
  · intro i cs hcs
    rw [List.getElem?_map] at hcs
    cases hp : pats[i]? with
    | none => rw [hp] at hcs; cases hcs
    | some p =>
      rw [hp] at hcs
      simp only [Option.map_some, Option.some.injEq] at hcs
      exact hsrc p (List.mem_of_getElem? hp) cs hcs
  · intro x hx
    obtain ⟨p, hp, hcv, hex, hcss⟩ := many_inputs_spec convert hi x hx
    exact ⟨hcss, hex, hsrc p hp _ hcv⟩

/-- The inputs `manyInputs` computes from single-root constraint vectors satisfy the hypothesis
of `pg_buildWith_errors`. -/
theorem many_inputs_sr {ff : Bool} {pats : List Pat}
    {inputs : List (Nat × List PGCons × List PGKey)}
    (hsr : ∀ p ∈ pats, ∀ cs, convert p = some cs → pgSigMultiRoot cs = false)
    (hi : manyInputs convert (fun _ => ([] : List PGKey)) ff pats 0 = some inputs) :
    ∀ p ∈ inputs, (∀ c ∈ p.2.1, ∀ k ∈ c.args, SR k) ∧ ∀ k ∈ p.2.2, SR k := by
  intro x hx
  obtain ⟨p, hp, hcv, hex, _⟩ := many_inputs_spec convert hi x hx
  refine ⟨fun c hc => (pgSingleRootKeys_iff c.args).1
    ((tdom_pg_single_root _).1 (hsr p hp _ hcv) c hc), ?_⟩
  rw [hex]
  intro k hk
  cases hk

end Many

end C08PG
end Pm
