/-
Proofs/GuardETreeSpec.lean — `C07.insertConstraintTree_flat` with two more facts exposed
(namespace `Pm.GE`): every drained constraint is the constraint of a transition of `s`, and the
fail state exists only if some constraint index is not a label of a root child.  The proofs are
those of `Proofs/C07XTreeSpec.lean`.
-/
import PmVerif.Proofs.C07XTreeSpec
namespace Pm
namespace GE
open Automaton C07
variable {K P : Type} [DecidableEq K] [DecidableEq P]
set_option linter.unusedSectionVars false

theorem flat_of_run' {Mx : Constraint K P → Constraint K P → Prop}
    {toTree : List (Constraint K P) → Option (CTree (Constraint K P))} (hT : FlatTreeHyp Mx toTree)
    {a a1 a2 a' : Automaton K P} {s fuel : Nat} {w : AState K} (inv : Inv a)
    (hu : C08.UniqueAt a s) (hw : a.g.weight? s = some w) (hndet : ¬ IsDet a s)
    {drained : List (Option (Constraint K P) × Nat)}
    (hdr : a.drainConstraints s = .ok (a1, drained))
    (g : Option (Constraint K P) × Nat → Option (Constraint K P × Nat))
    {tree : CTree (Constraint K P)} {added : List Nat}
    (htree : toTree ((drained.filterMap g).map (·.1)) = some tree)
    (hadd : a1.addConstraintTree tree s ((drained.filterMap g).map (·.2)) fuel = .ok (a2, added))
    (hg : ∀ c d, g (c, d) = c.map fun c => (c, d))
    (hfb : Inv a2 → a2.Live s →
      (∀ (i : Nat) d, ((drained.filterMap g).map (·.2))[i]? = some d → a2.Live d) →
      ∃ F, (∀ f1 f2, F f1 → F f2 → f1 = f2) ∧
        (∀ f, F f → ∃ i, i < ((drained.filterMap g).map (·.1)).length ∧ i ∉ added) ∧
        FailBuilt a2 a' s ((drained.filterMap g).map (·.1))
        ((drained.filterMap g).map (·.2)) added F) :
    ∃ (F : Nat → Prop) (cs : List (Constraint K P)) (tr : CTree (Constraint K P))
      (Kept Moved : Constraint K P → Nat → Prop),
      toTree cs = some tr ∧ cs.Nodup ∧ FlatCtx a a' s F Kept Moved ∧
      (∀ (i : Nat) k, cs[i]? = some k → ∃ d, HasEdge a s d (some k)) ∧
      (∀ f, F f → ∃ (i : Nat) (k : Constraint K P), cs[i]? = some k ∧
        ∀ c' m', (c', m') ∈ tr.childrenAt 0 → i ∉ tr.labelsAt m') := by
  obtain ⟨w', hw', sh, hmap⟩ := drainConstraints_shrinks inv hdr
  rw [hw] at hw'; cases hw'
  obtain ⟨hie, _⟩ := drain_ctx inv.ok hw g hg drained hmap
  have hnd := drained_nodup inv hw hu g hg drained hmap
  obtain ⟨h0, hflat, hlab, _, _⟩ := hT _ tree htree
  obtain ⟨gr, hadded⟩ := addConstraintTree_flat sh.inv h0
    (fun c m hm => (hflat 0 c m hm).2) hadd
  have hlive2 : ∀ x, a.Live x → a2.Live x :=
    fun x hx => (gr.live_iff x).2 ((sh.live_iff x).2 hx)
  have hlen : ((drained.filterMap g).map (·.2)).length =
      ((drained.filterMap g).map (·.1)).length := by simp
  have hchl : ∀ (i : Nat) d, ((drained.filterMap g).map (·.2))[i]? = some d → a2.Live d := by
    intro i d hd
    have hi : i < ((drained.filterMap g).map (·.1)).length := by
      rw [← hlen]; exact (List.getElem?_eq_some_iff.1 hd).1
    obtain ⟨t, _, he⟩ := hie i _ d (List.getElem?_eq_getElem hi) hd
    exact hlive2 d (inv.ok.dst_live he)
  obtain ⟨F, _, hFi, fb⟩ := hfb gr.inv (hlive2 s (live_of_weight hw)) hchl
  refine ⟨F, _, tree, KeptP tree _ _, MovedP _ _ added, htree, hnd,
    flatCtx_of_parts inv hw sh hie hlab gr fb, ?_, ?_⟩
  · intro i k hk
    have hi : i < ((drained.filterMap g).map (·.2)).length := by
      rw [hlen]; exact (List.getElem?_eq_some_iff.1 hk).1
    obtain ⟨t, _, he⟩ := hie i k _ hk (List.getElem?_eq_getElem hi)
    exact ⟨_, t, he⟩
  · intro f hf
    obtain ⟨i, hi, hna⟩ := hFi f hf
    exact ⟨i, _, List.getElem?_eq_getElem hi,
      fun c' m' hm hl => hna ((hadded i).2 ⟨c', m', hm, hl⟩)⟩

/-- `insert_constraint_tree(s)` with a flat decomposition: nothing happens, or `FlatCtx` with the
two additional facts. -/
theorem insertConstraintTree_flat' {Mx : Constraint K P → Constraint K P → Prop}
    {toTree : List (Constraint K P) → Option (CTree (Constraint K P))} (hT : FlatTreeHyp Mx toTree)
    {a a' : Automaton K P} {s fuel : Nat} {det : Bool} (inv : Inv a) (hu : C08.UniqueAt a s)
    (h : insertConstraintTree toTree a s fuel = .ok (a', det)) :
    a' = a ∨
    ∃ (F : Nat → Prop) (cs : List (Constraint K P)) (tree : CTree (Constraint K P))
      (Kept Moved : Constraint K P → Nat → Prop),
      toTree cs = some tree ∧ cs.Nodup ∧ FlatCtx a a' s F Kept Moved ∧
      (∀ (i : Nat) k, cs[i]? = some k → ∃ d, HasEdge a s d (some k)) ∧
      (∀ f, F f → ∃ (i : Nat) (k : Constraint K P), cs[i]? = some k ∧
        ∀ c' m', (c', m') ∈ tree.childrenAt 0 → i ∉ tree.labelsAt m') := by
  unfold insertConstraintTree at h
  split at h
  · cases h
  · rename_i w hw
    rw [state_ok_iff] at hw
    split at h
    · cases h; exact .inl rfl
    · rename_i hdet
      split at h
      · cases h; exact .inl rfl
      · have hndet : ¬ IsDet a s := by
          rintro ⟨w0, hw0, hd⟩
          rw [hw] at hw0; cases hw0
          exact hdet hd
        split at h
        · cases h
        · rename_i a1 drained hdr
          extract_lets pairs cs ch at h
          split at h
          · cases h
          · rename_i tree htree
            split at h
            · cases h
            · rename_i a2 added hadd
              extract_lets notAdded at h
              right
              have hmem : ∀ i, i ∈ notAdded ↔ i < cs.length ∧ i ∉ added := by
                intro i
                simp [notAdded, List.mem_filter, and_comm]
              split at h
              · rename_i hempna
                cases h
                refine flat_of_run' hT inv hu hw hndet hdr _ htree hadd (by intro _ _; rfl) ?_
                intro inv2 _ _
                refine ⟨_, fun _ _ h => h.elim, fun _ h => h.elim, failBuilt_nil inv2 s ch ?_⟩
                intro i hi
                refine Classical.byContradiction fun hn => ?_
                have := (hmem i).2 ⟨hi, hn⟩
                rw [List.isEmpty_iff.1 hempna] at this
                cases this
              · rename_i hne
                split at h
                · cases h
                · rename_i a3 f h1
                  cases hrest : insertConstraintTree.addRest cs ch f a3 notAdded with
                  | error e => rw [hrest] at h; cases h
                  | ok a4 =>
                    rw [hrest] at h
                    cases h
                    refine flat_of_run' hT inv hu hw hndet hdr _ htree hadd
                      (by intro _ _; rfl) ?_
                    intro inv2 hs2 hchl
                    refine ⟨_, fun _ _ h1 h2 => h1.trans h2.symm, fun _ _ => ?_,
                      failBuilt_cons inv2 hs2 hchl
                      (fun i h1 h2 => (hmem i).2 ⟨h1, h2⟩)
                      (fun i hi => ((hmem i).1 hi).2) h1 hrest⟩
                    cases hna : notAdded with
                    | nil => rw [hna] at hne; exact absurd rfl hne
                    | cons i rest =>
                      have hi : i ∈ notAdded := by rw [hna]; exact List.mem_cons_self
                      exact ⟨i, (hmem i).1 hi⟩

end GE
end Pm
