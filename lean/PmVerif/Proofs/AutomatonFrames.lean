/-
Proofs/AutomatonFrames.lean — the invariant `Inv` (transition orders consistent with the graph,
graph well-formed, free lists consistent, no self loops) and frame lemmas for the primitive
edits of `Model/Automaton.lean`: what `weight?` / `edge?` look like afterwards, and that `Inv`
is preserved.
-/
import PmVerif.Proofs.AccBasics
import PmVerif.Proofs.GraphFrames
namespace Pm
namespace Automaton
variable {K P : Type}

/-- The structural invariant carried through the builder. -/
structure Inv (a : Automaton K P) : Prop where
  ok : OrdersOK a
  wf : a.g.WF
  fo : a.g.FreeOK
  noloop : ∀ t e, a.g.edge? t = some e → e.src ≠ e.dst

/-- `OrdersOK` from its five main clauses; the free-list clauses follow from `FreeOK`. -/
theorem OrdersOK.mk' {a : Automaton K P} (fo : a.g.FreeOK)
    (h1 : ∀ s w, a.g.weight? s = some w → ∀ t ∈ w.corder,
      ∃ e, a.g.edge? t = some e ∧ e.src = s ∧ e.w.isSome)
    (h2 : ∀ s w, a.g.weight? s = some w → ∀ t ∈ w.eorder,
      ∃ e, a.g.edge? t = some e ∧ e.src = s ∧ e.w.isNone)
    (h3 : ∀ s w, a.g.weight? s = some w → (w.corder ++ w.eorder).Nodup)
    (h4 : ∀ t e, a.g.edge? t = some e →
      a.g.containsNode e.src = true ∧ a.g.containsNode e.dst = true)
    (h5 : ∀ t e, a.g.edge? t = some e → ∀ w, a.g.weight? e.src = some w →
      t ∈ w.corder ++ w.eorder) : OrdersOK a :=
  ⟨h1, h2, h3, h4, h5, fun t ht => (fo.edge_free t ht).2,
    fun n hn => SGraph.containsNode_false_iff.2 (fo.node_free n hn).2⟩

theorem Inv.listed_live {a : Automaton K P} (inv : Inv a) {s t : Nat} {w : AState K}
    (hw : a.g.weight? s = some w) (ht : t ∈ w.corder ++ w.eorder) :
    ∃ e, a.g.edge? t = some e ∧ e.src = s := by
  rcases List.mem_append.1 ht with h | h
  · obtain ⟨e, he, hs, _⟩ := inv.ok.corder_edge s w hw t h; exact ⟨e, he, hs⟩
  · obtain ⟨e, he, hs, _⟩ := inv.ok.eorder_edge s w hw t h; exact ⟨e, he, hs⟩

/-- A vacant edge id is listed nowhere. -/
theorem Inv.not_listed {a : Automaton K P} (inv : Inv a) {s t : Nat} {w : AState K}
    (hw : a.g.weight? s = some w) (ht : a.g.edge? t = none) : t ∉ w.corder ++ w.eorder :=
  fun h => by obtain ⟨e, he, _⟩ := inv.listed_live hw h; rw [ht] at he; cases he

/-- A vacant state is the endpoint of no edge. -/
theorem Inv.src_ne_of_dead {a : Automaton K P} (inv : Inv a) {n t : Nat}
    {e : GEdge (Option (Constraint K P))} (hn : ¬ a.Live n) (he : a.g.edge? t = some e) :
    e.src ≠ n ∧ e.dst ≠ n :=
  ⟨fun h => hn (h ▸ inv.ok.src_live he), fun h => hn (h ▸ inv.ok.dst_live he)⟩

/-- Incoming transitions, as a set. -/
theorem Inv.mem_incoming {a : Automaton K P} (inv : Inv a) {s t : Nat} :
    t ∈ a.incomingTransitions s ↔ ∃ e, a.g.edge? t = some e ∧ e.dst = s := by
  unfold incomingTransitions
  rw [List.mem_map]
  constructor
  · rintro ⟨⟨t', p⟩, hm, rfl⟩
    obtain ⟨ed, hed, hd, _⟩ := (SGraph.mem_inEdges inv.wf).1 hm
    exact ⟨ed, hed, hd⟩
  · rintro ⟨e, he, hd⟩
    exact ⟨(t, e.src), (SGraph.mem_inEdges inv.wf).2 ⟨e, he, hd, rfl⟩, rfl⟩

theorem Inv.isUnreachable_iff {a : Automaton K P} (inv : Inv a) {s : Nat} :
    a.isUnreachable s = true ↔ ∀ t e, a.g.edge? t = some e → e.dst ≠ s := by
  unfold isUnreachable
  rw [List.isEmpty_iff]
  constructor
  · intro h t e he hd
    have := inv.mem_incoming.2 ⟨e, he, hd⟩
    rw [h] at this; cases this
  · intro h
    rw [List.eq_nil_iff_forall_not_mem]
    intro t ht
    obtain ⟨e, he, hd⟩ := inv.mem_incoming.1 ht
    exact h t e he hd

/-! ### `state`, `modifyState` -/

theorem state_ok_iff {a : Automaton K P} {s : Nat} {w : AState K} :
    a.state s = .ok w ↔ a.g.weight? s = some w := by
  unfold state
  cases a.g.weight? s <;> simp

theorem modifyState_ok {a a' : Automaton K P} {s : Nat} {f : AState K → AState K}
    (h : a.modifyState s f = .ok a') : a.Live s ∧ a' = { a with g := a.g.setWeight s f } := by
  unfold modifyState at h
  split at h
  · cases h; exact ⟨‹_›, rfl⟩
  · cases h

theorem modifyState_of_live {a : Automaton K P} {s : Nat} (f : AState K → AState K)
    (h : a.Live s) : a.modifyState s f = .ok { a with g := a.g.setWeight s f } := by
  unfold modifyState; exact if_pos h

/-- Changing a weight without touching the orders preserves the invariant. -/
theorem Inv.setWeight {a : Automaton K P} (inv : Inv a) (s : Nat) (f : AState K → AState K)
    (hc : ∀ w, (f w).corder = w.corder) (he : ∀ w, (f w).eorder = w.eorder) :
    Inv ({ a with g := a.g.setWeight s f } : Automaton K P) := by
  have hw : ∀ x w', (a.g.setWeight s f).weight? x = some w' →
      ∃ w, a.g.weight? x = some w ∧ w'.corder = w.corder ∧ w'.eorder = w.eorder := by
    intro x w' h
    rw [SGraph.setWeight_weight?] at h
    split at h
    · cases hx : a.g.weight? x with
      | none => rw [hx] at h; cases h
      | some w => rw [hx] at h; cases h; exact ⟨w, rfl, hc w, he w⟩
    · exact ⟨w', h, rfl, rfl⟩
  have hlive : ∀ x, (a.g.setWeight s f).containsNode x = a.g.containsNode x := by
    intro x
    rw [SGraph.containsNode_eq, SGraph.containsNode_eq, SGraph.setWeight_weight?]
    split <;> cases a.g.weight? x <;> rfl
  have fo' := SGraph.freeOK_setWeight inv.fo s f
  refine ⟨OrdersOK.mk' fo' ?_ ?_ ?_ ?_ ?_, SGraph.wf_setWeight inv.wf s f, fo', inv.noloop⟩
  · intro x w' h t ht
    obtain ⟨w, hw0, h1, _⟩ := hw x w' h
    exact inv.ok.corder_edge x w hw0 t (h1 ▸ ht)
  · intro x w' h t ht
    obtain ⟨w, hw0, _, h2⟩ := hw x w' h
    exact inv.ok.eorder_edge x w hw0 t (h2 ▸ ht)
  · intro x w' h
    obtain ⟨w, hw0, h1, h2⟩ := hw x w' h
    rw [h1, h2]; exact inv.ok.nodup x w hw0
  · intro t e h
    show (a.g.setWeight s f).containsNode _ = true ∧ (a.g.setWeight s f).containsNode _ = true
    rw [hlive, hlive]; exact inv.ok.edge_live t e h
  · intro t e h w' h'
    obtain ⟨w, hw0, h1, h2⟩ := hw _ w' h'
    rw [h1, h2]; exact inv.ok.edge_listed t e h w hw0

/-! ### `addNode` -/

theorem addNode_frame {a : Automaton K P} (inv : Inv a) (w0 : AState K)
    (hc : w0.corder = []) (he : w0.eorder = []) :
    ¬ a.Live (a.g.addNode w0).2 ∧
    (∀ x, (a.g.addNode w0).1.weight? x =
      if x = (a.g.addNode w0).2 then some w0 else a.g.weight? x) ∧
    (∀ t, (a.g.addNode w0).1.edge? t = a.g.edge? t) ∧
    Inv (⟨(a.g.addNode w0).1, a.root⟩ : Automaton K P) := by
  obtain ⟨hvac, hn, hed⟩ := SGraph.addNode_spec inv.fo w0
  have hdead : ¬ a.Live (a.g.addNode w0).2 := by
    intro h
    obtain ⟨nd, hnd⟩ := SGraph.containsNode_iff.1 h
    rw [hvac] at hnd; cases hnd
  have hwt : ∀ x, (a.g.addNode w0).1.weight? x =
      if x = (a.g.addNode w0).2 then some w0 else a.g.weight? x := by
    intro x
    rw [SGraph.weight?_eq, hn]
    split
    · rfl
    · rfl
  have hlive : ∀ x, a.g.containsNode x = true → (a.g.addNode w0).1.containsNode x = true := by
    intro x hx
    rw [SGraph.containsNode_eq, hwt]
    split
    · rfl
    · rw [← SGraph.containsNode_eq]; exact hx
  have fo' := SGraph.freeOK_addNode inv.fo w0
  refine ⟨hdead, hwt, hed, OrdersOK.mk' fo' ?_ ?_ ?_ ?_ ?_,
    SGraph.wf_addNode inv.wf w0 inv.fo.head_node, fo', ?_⟩
  · intro x w h t ht
    show ∃ e, (a.g.addNode w0).1.edge? t = some e ∧ _
    rw [hed]
    change (a.g.addNode w0).1.weight? x = some w at h
    rw [hwt] at h
    split at h
    · cases h; rw [hc] at ht; cases ht
    · exact inv.ok.corder_edge x w h t ht
  · intro x w h t ht
    show ∃ e, (a.g.addNode w0).1.edge? t = some e ∧ _
    rw [hed]
    change (a.g.addNode w0).1.weight? x = some w at h
    rw [hwt] at h
    split at h
    · cases h; rw [he] at ht; cases ht
    · exact inv.ok.eorder_edge x w h t ht
  · intro x w h
    change (a.g.addNode w0).1.weight? x = some w at h
    rw [hwt] at h
    split at h
    · cases h; rw [hc, he]; exact List.nodup_nil
    · exact inv.ok.nodup x w h
  · intro t e h
    change (a.g.addNode w0).1.edge? t = some e at h
    rw [hed] at h
    obtain ⟨h1, h2⟩ := inv.ok.edge_live t e h
    exact ⟨hlive _ h1, hlive _ h2⟩
  · intro t e h w h'
    change (a.g.addNode w0).1.edge? t = some e at h
    change (a.g.addNode w0).1.weight? e.src = some w at h'
    rw [hed] at h
    rw [hwt] at h'
    split at h'
    · rename_i hx
      exact absurd (hx ▸ inv.ok.src_live h) hdead
    · exact inv.ok.edge_listed t e h w h'
  · intro t e h
    change (a.g.addNode w0).1.edge? t = some e at h
    rw [hed] at h
    exact inv.noloop t e h

/-! ### `appendEdge` -/

/-- The order update of `append_edge`. -/
def addOrder (c : Option (Constraint K P)) (e : Nat) (w : AState K) : AState K :=
  if c.isNone then { w with eorder := w.eorder ++ [e] } else { w with corder := w.corder ++ [e] }

@[simp] theorem addOrder_matches (c : Option (Constraint K P)) (e : Nat) (w : AState K) :
    (addOrder c e w).matches_ = w.matches_ := by unfold addOrder; split <;> rfl

@[simp] theorem addOrder_det (c : Option (Constraint K P)) (e : Nat) (w : AState K) :
    (addOrder c e w).det = w.det := by unfold addOrder; split <;> rfl

theorem mem_addOrder (c : Option (Constraint K P)) (e : Nat) (w : AState K) (t : Nat) :
    t ∈ (addOrder c e w).corder ++ (addOrder c e w).eorder ↔ t ∈ w.corder ++ w.eorder ∨ t = e := by
  unfold addOrder
  split <;> simp only [List.mem_append, List.mem_singleton, or_assoc, or_comm, or_left_comm]

/-- Result of a proper `append_edge(p, ch, c)`: one new edge `e`. -/
structure AppendEdgeSpec (a a' : Automaton K P) (p ch : Nat) (c : Option (Constraint K P))
    (e : Nat) : Prop where
  fresh : a.g.edge? e = none
  livep : a.Live p
  livec : a.Live ch
  edge : ∀ t, a'.g.edge? t = if t = e then some ⟨p, ch, c⟩ else a.g.edge? t
  wt : ∀ x, a'.g.weight? x = if x = p then (a.g.weight? p).map (addOrder c e) else a.g.weight? x
  root : a'.root = a.root
  inv : Inv a'

theorem appendEdge_self {a : Automaton K P} (p : Nat) (c : Option (Constraint K P)) :
    a.appendEdge p p c = .ok a := by
  unfold appendEdge; rw [if_pos rfl]

theorem appendEdge_spec {a a' : Automaton K P} (inv : Inv a) {p ch : Nat}
    {c : Option (Constraint K P)} (hne : p ≠ ch) (h : a.appendEdge p ch c = .ok a') :
    ∃ e, AppendEdgeSpec a a' p ch c e := by
  unfold appendEdge at h
  rw [if_neg hne] at h
  split at h
  · cases h
  · rename_i g1 e hadd
    obtain ⟨hlp, rfl⟩ := modifyState_ok h
    obtain ⟨hp, hch, hfresh, hedge, hnode, _⟩ := SGraph.addEdge_spec inv.fo hadd
    have hw1 : ∀ x, g1.weight? x = a.g.weight? x := SGraph.addEdge_weight? inv.fo hadd
    have hwt : ∀ x, (g1.setWeight p (addOrder c e)).weight? x =
        if x = p then (a.g.weight? p).map (addOrder c e) else a.g.weight? x := by
      intro x
      rw [SGraph.setWeight_weight?, hw1]
      by_cases hx : x = p
      · subst hx; simp
      · simp [hx, Ne.symm hx]
    have hfun : (fun w : AState K =>
        if c.isNone = true then { w with eorder := w.eorder ++ [e] }
        else { w with corder := w.corder ++ [e] }) = addOrder c e := rfl
    rw [hfun]
    have hlive : ∀ x, (g1.setWeight p (addOrder c e)).containsNode x = a.g.containsNode x := by
      intro x
      rw [SGraph.containsNode_eq, SGraph.containsNode_eq, hwt]
      split
      · rename_i hx; subst hx; cases a.g.weight? x <;> rfl
      · rfl
    have fo' : (g1.setWeight p (addOrder c e)).FreeOK :=
      SGraph.freeOK_setWeight (SGraph.freeOK_addEdge inv.fo hadd) _ _
    have wf' : (g1.setWeight p (addOrder c e)).WF :=
      SGraph.wf_setWeight (SGraph.wf_addEdge inv.wf inv.fo.head_edge hadd) _ _
    -- weights of the new automaton in terms of the old
    have hwcase : ∀ x w', (g1.setWeight p (addOrder c e)).weight? x = some w' →
        (x = p ∧ ∃ w, a.g.weight? p = some w ∧ w' = addOrder c e w) ∨
        (x ≠ p ∧ a.g.weight? x = some w') := by
      intro x w' hx
      rw [hwt] at hx
      split at hx
      · rename_i hxp
        cases hwp : a.g.weight? p with
        | none => rw [hwp] at hx; cases hx
        | some w => rw [hwp] at hx; cases hx; exact .inl ⟨hxp, w, rfl, rfl⟩
      · exact .inr ⟨‹_›, hx⟩
    have hold : ∀ x w t, a.g.weight? x = some w → t ∈ w.corder ++ w.eorder → t ≠ e := by
      intro x w t hx ht hte
      exact inv.not_listed hx hfresh (hte ▸ ht)
    refine ⟨e, hfresh, hp, hch, hedge, hwt, rfl, OrdersOK.mk' fo' ?_ ?_ ?_ ?_ ?_, wf', fo', ?_⟩
    · intro x w' hx t ht
      show ∃ e', g1.edge? t = some e' ∧ _
      rw [hedge]
      rcases hwcase x w' hx with ⟨rfl, w, hw, rfl⟩ | ⟨_, hw⟩
      · unfold addOrder at ht
        split at ht
        · have hne' := hold x w t hw (List.mem_append_left _ ht)
          rw [if_neg hne']; exact inv.ok.corder_edge x w hw t ht
        · rename_i hcn
          rcases List.mem_append.1 ht with ht | ht
          · have hne' := hold x w t hw (List.mem_append_left _ ht)
            rw [if_neg hne']; exact inv.ok.corder_edge x w hw t ht
          · simp only [List.mem_singleton] at ht
            subst ht
            rw [if_pos rfl]
            exact ⟨_, rfl, rfl, by cases c <;> simp_all⟩
      · have hne' := hold x w' t hw (List.mem_append_left _ ht)
        rw [if_neg hne']; exact inv.ok.corder_edge x w' hw t ht
    · intro x w' hx t ht
      show ∃ e', g1.edge? t = some e' ∧ _
      rw [hedge]
      rcases hwcase x w' hx with ⟨rfl, w, hw, rfl⟩ | ⟨_, hw⟩
      · unfold addOrder at ht
        split at ht
        · rename_i hcn
          rcases List.mem_append.1 ht with ht | ht
          · have hne' := hold x w t hw (List.mem_append_right _ ht)
            rw [if_neg hne']; exact inv.ok.eorder_edge x w hw t ht
          · simp only [List.mem_singleton] at ht
            subst ht
            rw [if_pos rfl]
            exact ⟨_, rfl, rfl, hcn⟩
        · have hne' := hold x w t hw (List.mem_append_right _ ht)
          rw [if_neg hne']; exact inv.ok.eorder_edge x w hw t ht
      · have hne' := hold x w' t hw (List.mem_append_right _ ht)
        rw [if_neg hne']; exact inv.ok.eorder_edge x w' hw t ht
    · intro x w' hx
      rcases hwcase x w' hx with ⟨rfl, w, hw, rfl⟩ | ⟨_, hw⟩
      · have hnd := inv.ok.nodup x w hw
        have hni : e ∉ w.corder ++ w.eorder := inv.not_listed hw hfresh
        unfold addOrder
        split
        · show (w.corder ++ (w.eorder ++ [e])).Nodup
          rw [← List.append_assoc, List.nodup_append]
          refine ⟨hnd, by simp, ?_⟩
          intro u hu v hv
          simp only [List.mem_singleton] at hv
          subst hv; intro huv; subst huv; exact hni hu
        · show ((w.corder ++ [e]) ++ w.eorder).Nodup
          rw [List.nodup_append] at hnd ⊢
          obtain ⟨h1, h2, h3⟩ := hnd
          refine ⟨?_, h2, ?_⟩
          · rw [List.nodup_append]
            refine ⟨h1, by simp, ?_⟩
            intro u hu v hv
            simp only [List.mem_singleton] at hv
            subst hv; intro huv; subst huv; exact hni (List.mem_append_left _ hu)
          · intro u hu v hv
            rcases List.mem_append.1 hu with hu | hu
            · exact h3 u hu v hv
            · simp only [List.mem_singleton] at hu
              subst hu; intro huv; subst huv; exact hni (List.mem_append_right _ hv)
      · exact inv.ok.nodup x w' hw
    · intro t ed ht
      change g1.edge? t = some ed at ht
      show (g1.setWeight p (addOrder c e)).containsNode _ = true ∧
        (g1.setWeight p (addOrder c e)).containsNode _ = true
      rw [hlive, hlive]
      rw [hedge] at ht
      split at ht
      · cases ht; exact ⟨hp, hch⟩
      · exact inv.ok.edge_live t ed ht
    · intro t ed ht w' hw'
      change g1.edge? t = some ed at ht
      rw [hedge] at ht
      rcases hwcase _ w' hw' with ⟨hsp, w, hw, rfl⟩ | ⟨hsp, hw⟩
      · rw [mem_addOrder]
        split at ht
        · exact .inr ‹_›
        · exact .inl (inv.ok.edge_listed t ed ht w (hsp ▸ hw))
      · split at ht
        · cases ht; exact absurd rfl hsp
        · exact inv.ok.edge_listed t ed ht w' hw
    · intro t ed ht
      change g1.edge? t = some ed at ht
      rw [hedge] at ht
      split at ht
      · cases ht; exact hne
      · exact inv.noloop t ed ht

/-! ### `addTransition` -/

/-- Result of `add_transition(p, c)`: a fresh state `ch` and one new edge `e` into it. -/
structure AddTransitionSpec (a a' : Automaton K P) (p ch : Nat) (c : Option (Constraint K P))
    (e : Nat) : Prop where
  fresh : a.g.edge? e = none
  livep : a.Live p
  deadc : ¬ a.Live ch
  edge : ∀ t, a'.g.edge? t = if t = e then some ⟨p, ch, c⟩ else a.g.edge? t
  wt : ∀ x, a'.g.weight? x =
    if x = ch then some {} else if x = p then (a.g.weight? p).map (addOrder c e) else a.g.weight? x
  root : a'.root = a.root
  inv : Inv a'

theorem addTransition_spec {a a' : Automaton K P} (inv : Inv a) {p ch : Nat}
    {c : Option (Constraint K P)} (hp : a.Live p) (h : a.addTransition p c = .ok (a', ch)) :
    ∃ e, AddTransitionSpec a a' p ch c e := by
  unfold addTransition addNonDetNode at h
  obtain ⟨hdead, hwt, hed, inv1⟩ := addNode_frame inv ({} : AState K) rfl rfl
  simp only at h
  split at h
  · cases h
  · rename_i a2 happ
    cases h
    have hne : p ≠ (a.g.addNode ({} : AState K)).2 := fun hx => hdead (hx ▸ hp)
    obtain ⟨e, sp⟩ := appendEdge_spec inv1 hne happ
    refine ⟨e, ?_, hp, hdead, ?_, ?_, sp.root, sp.inv⟩
    · rw [← hed]; exact sp.fresh
    · intro t; rw [sp.edge]; split
      · rfl
      · exact hed t
    · intro x
      rw [sp.wt]
      by_cases hxc : x = (a.g.addNode ({} : AState K)).2
      · rw [if_pos hxc, if_neg (fun (hxp : x = p) => hne (hxp.symm.trans hxc))]
        show (a.g.addNode ({} : AState K)).1.weight? x = _
        rw [hwt, if_pos hxc]
      · rw [if_neg hxc]
        split
        · show Option.map _ ((a.g.addNode ({} : AState K)).1.weight? p) = _
          rw [hwt, if_neg hne]
        · show (a.g.addNode ({} : AState K)).1.weight? x = _
          rw [hwt, if_neg hxc]

/-! ### `addMatch` -/

/-- Result of `add_match(s, pid, _)`: only the accepted ids of `s` change. -/
structure AddMatchSpec (a a' : Automaton K P) (s pid : Nat) : Prop where
  edge : ∀ t, a'.g.edge? t = a.g.edge? t
  wt_ne : ∀ x, x ≠ s → a'.g.weight? x = a.g.weight? x
  wt : ∃ w w', a.g.weight? s = some w ∧ a'.g.weight? s = some w' ∧ w'.det = w.det ∧
    w'.corder = w.corder ∧ w'.eorder = w.eorder ∧
    ∀ p, p ∈ w'.matches_.map (·.1) ↔ p ∈ w.matches_.map (·.1) ∨ p = pid
  root : a'.root = a.root
  inv : Inv a'

theorem addMatch_spec {a a' : Automaton K P} (inv : Inv a) {s pid : Nat} {keys : List K}
    (h : a.addMatch s pid keys = .ok a') : AddMatchSpec a a' s pid := by
  unfold addMatch at h
  split at h
  · cases h
  · rename_i w hw
    rw [state_ok_iff] at hw
    split at h
    · rename_i hany
      cases h
      refine ⟨fun _ => rfl, fun _ _ => rfl, ⟨w, w, hw, hw, rfl, rfl, rfl, fun p => ?_⟩, rfl, inv⟩
      constructor
      · exact .inl
      · rintro (h | rfl)
        · exact h
        · simp only [List.any_eq_true, beq_iff_eq] at hany
          obtain ⟨m, hm, rfl⟩ := hany
          exact List.mem_map.2 ⟨m, hm, rfl⟩
    · obtain ⟨_, rfl⟩ := modifyState_ok h
      refine ⟨fun _ => rfl, fun x hx => ?_,
        ⟨w, { w with matches_ := w.matches_ ++ [(pid, keys)] }, hw, ?_, rfl, rfl, rfl, fun p => ?_⟩,
        rfl, inv.setWeight s _ (fun _ => rfl) (fun _ => rfl)⟩
      · show (a.g.setWeight s _).weight? x = _
        rw [SGraph.setWeight_weight?, if_neg (Ne.symm hx)]
      · show (a.g.setWeight s _).weight? s = _
        rw [SGraph.setWeight_weight?, if_pos rfl, hw]; rfl
      · simp

/-! ### `removeTransition` -/

/-- The order update of `remove_transition`. -/
def eraseOrder (c : Option (Constraint K P)) (t : Nat) (w : AState K) : AState K :=
  if c.isNone then { w with eorder := w.eorder.erase t } else { w with corder := w.corder.erase t }

@[simp] theorem eraseOrder_matches (c : Option (Constraint K P)) (t : Nat) (w : AState K) :
    (eraseOrder c t w).matches_ = w.matches_ := by unfold eraseOrder; split <;> rfl

@[simp] theorem eraseOrder_det (c : Option (Constraint K P)) (t : Nat) (w : AState K) :
    (eraseOrder c t w).det = w.det := by unfold eraseOrder; split <;> rfl

theorem eraseOrder_corder_sub (c : Option (Constraint K P)) (t : Nat) (w : AState K) :
    ∀ x ∈ (eraseOrder c t w).corder, x ∈ w.corder := by
  unfold eraseOrder; split
  · exact fun _ h => h
  · exact fun _ h => List.mem_of_mem_erase h

theorem eraseOrder_eorder_sub (c : Option (Constraint K P)) (t : Nat) (w : AState K) :
    ∀ x ∈ (eraseOrder c t w).eorder, x ∈ w.eorder := by
  unfold eraseOrder; split
  · exact fun _ h => List.mem_of_mem_erase h
  · exact fun _ h => h

theorem mem_eraseOrder {c : Option (Constraint K P)} {t : Nat} {w : AState K} (x : Nat) :
    x ∈ (eraseOrder c t w).corder ++ (eraseOrder c t w).eorder →
      x ∈ w.corder ++ w.eorder := by
  intro h
  rcases List.mem_append.1 h with h | h
  · exact List.mem_append_left _ (eraseOrder_corder_sub c t w x h)
  · exact List.mem_append_right _ (eraseOrder_eorder_sub c t w x h)

theorem eraseOrder_nodup {c : Option (Constraint K P)} {t : Nat} {w : AState K}
    (hnd : (w.corder ++ w.eorder).Nodup) :
    ((eraseOrder c t w).corder ++ (eraseOrder c t w).eorder).Nodup := by
  unfold eraseOrder
  split
  · exact hnd.sublist (List.Sublist.append (List.Sublist.refl _) List.erase_sublist)
  · exact hnd.sublist (List.Sublist.append List.erase_sublist (List.Sublist.refl _))

/-- Result of `remove_transition(t)` where `t` was the edge `ed`. -/
structure RemoveSpec (a a' : Automaton K P) (t : Nat)
    (ed : GEdge (Option (Constraint K P))) : Prop where
  live : a.g.edge? t = some ed
  edge : ∀ x, a'.g.edge? x = if x = t then none else a.g.edge? x
  wt : ∀ x, a'.g.weight? x =
    if x = ed.src then (a.g.weight? x).map (eraseOrder ed.w t) else a.g.weight? x
  root : a'.root = a.root
  inv : Inv a'

theorem removeTransition_spec {a a' : Automaton K P} (inv : Inv a) {t : Nat}
    {c : Option (Constraint K P)} (h : a.removeTransition t = .ok (a', c)) :
    ∃ ed, c = ed.w ∧ RemoveSpec a a' t ed := by
  unfold removeTransition at h
  split at h
  · cases h
  · rename_i ed hed
    split at h
    · cases h
    · rename_i w hw
      rw [state_ok_iff] at hw
      by_cases hcont : (!(if ed.w.isNone then w.eorder else w.corder).contains t) = true
      · rw [if_pos hcont] at h; cases h
      · rw [if_neg hcont] at h
        split at h
        · cases h
        · rename_i a1 hmod
          obtain ⟨_, rfl⟩ := modifyState_ok hmod
          split at h
          · cases h
          · rename_i g2 ed' hrem
            cases h
            change (a.g.setWeight ed.src (eraseOrder ed.w t)).removeEdge t = some (g2, ed') at hrem
            have hed' : ed' = ed := by
              have := (SGraph.removeEdge_some hrem).1
              change a.g.edge? t = some ed' at this
              rw [hed] at this; cases this; rfl
            subst hed'
            have hedge : ∀ x, g2.edge? x = if x = t then none else a.g.edge? x :=
              fun x => SGraph.removeEdge_edge? hrem x
            have hwt : ∀ x, g2.weight? x =
                if x = ed'.src then (a.g.weight? x).map (eraseOrder ed'.w t) else a.g.weight? x := by
              intro x
              rw [SGraph.removeEdge_weight? hrem, SGraph.setWeight_weight?]
              by_cases hx : x = ed'.src
              · simp [hx]
              · simp [hx, Ne.symm hx]
            have hlive : ∀ x, g2.containsNode x = a.g.containsNode x := by
              intro x
              rw [SGraph.containsNode_eq, SGraph.containsNode_eq, hwt]
              split <;> cases a.g.weight? x <;> rfl
            have wf1 := SGraph.wf_setWeight inv.wf ed'.src (eraseOrder ed'.w t)
            have fo1 := SGraph.freeOK_setWeight inv.fo ed'.src (eraseOrder ed'.w t)
            have wf' := SGraph.wf_removeEdge wf1 hrem
            have fo' := SGraph.freeOK_removeEdge fo1 hrem
            have hwcase : ∀ x w', g2.weight? x = some w' →
                (x = ed'.src ∧ ∃ w, a.g.weight? x = some w ∧ w' = eraseOrder ed'.w t w) ∨
                (x ≠ ed'.src ∧ a.g.weight? x = some w') := by
              intro x w' hx
              rw [hwt] at hx
              split at hx
              · rename_i hxp
                cases hwp : a.g.weight? x with
                | none => rw [hwp] at hx; cases hx
                | some w => rw [hwp] at hx; cases hx; exact .inl ⟨hxp, w, rfl, rfl⟩
              · exact .inr ⟨‹_›, hx⟩
            -- the erased id is gone from the lists of its source
            have hgone : ∀ w0, a.g.weight? ed'.src = some w0 →
                t ∉ (eraseOrder ed'.w t w0).corder ++ (eraseOrder ed'.w t w0).eorder := by
              intro w0 hw0
              have hnd := inv.ok.nodup _ w0 hw0
              rw [List.nodup_append] at hnd
              obtain ⟨h1, h2, h3⟩ := hnd
              unfold eraseOrder
              split
              · rename_i hcn
                have hte : t ∈ w0.eorder := (mem_eorder_iff inv.ok hw0).2
                  ⟨ed', hed, rfl, by cases hx : ed'.w <;> simp_all⟩
                intro hm
                rcases List.mem_append.1 hm with hm | hm
                · exact h3 t hm t hte rfl
                · exact ((List.Nodup.mem_erase_iff h2).1 hm).1 rfl
              · rename_i hcn
                have htc : t ∈ w0.corder := (mem_corder_iff inv.ok hw0).2
                  ⟨ed', hed, rfl, by cases hx : ed'.w <;> simp_all⟩
                intro hm
                rcases List.mem_append.1 hm with hm | hm
                · exact ((List.Nodup.mem_erase_iff h1).1 hm).1 rfl
                · exact h3 t htc t hm rfl
            have hkeep : ∀ w0 x, x ≠ t → x ∈ w0.corder ++ w0.eorder →
                x ∈ (eraseOrder ed'.w t w0).corder ++ (eraseOrder ed'.w t w0).eorder := by
              intro w0 x hxt hm
              unfold eraseOrder
              split
              · rcases List.mem_append.1 hm with hm | hm
                · exact List.mem_append_left _ hm
                · exact List.mem_append_right _ ((List.mem_erase_of_ne hxt).2 hm)
              · rcases List.mem_append.1 hm with hm | hm
                · exact List.mem_append_left _ ((List.mem_erase_of_ne hxt).2 hm)
                · exact List.mem_append_right _ hm
            refine ⟨ed', rfl, hed, hedge, hwt, rfl, OrdersOK.mk' fo' ?_ ?_ ?_ ?_ ?_, wf', fo', ?_⟩
            · intro x w' hx u hu
              show ∃ e', g2.edge? u = some e' ∧ _
              rw [hedge]
              rcases hwcase x w' hx with ⟨rfl, w0, hw0, rfl⟩ | ⟨hne, hw0⟩
              · have hut : u ≠ t := fun hx => by subst hx; exact hgone w0 hw0 (List.mem_append_left _ hu)
                rw [if_neg hut]
                exact inv.ok.corder_edge _ w0 hw0 u (eraseOrder_corder_sub _ _ _ u hu)
              · obtain ⟨e', he', hs, hc⟩ := inv.ok.corder_edge x w' hw0 u hu
                have hut : u ≠ t := fun hx => by
                  subst hx; rw [hed] at he'; cases he'; exact hne hs.symm
                rw [if_neg hut]; exact ⟨e', he', hs, hc⟩
            · intro x w' hx u hu
              show ∃ e', g2.edge? u = some e' ∧ _
              rw [hedge]
              rcases hwcase x w' hx with ⟨rfl, w0, hw0, rfl⟩ | ⟨hne, hw0⟩
              · have hut : u ≠ t := fun hx => by subst hx; exact hgone w0 hw0 (List.mem_append_right _ hu)
                rw [if_neg hut]
                exact inv.ok.eorder_edge _ w0 hw0 u (eraseOrder_eorder_sub _ _ _ u hu)
              · obtain ⟨e', he', hs, hc⟩ := inv.ok.eorder_edge x w' hw0 u hu
                have hut : u ≠ t := fun hx => by
                  subst hx; rw [hed] at he'; cases he'; exact hne hs.symm
                rw [if_neg hut]; exact ⟨e', he', hs, hc⟩
            · intro x w' hx
              rcases hwcase x w' hx with ⟨rfl, w0, hw0, rfl⟩ | ⟨_, hw0⟩
              · exact eraseOrder_nodup (inv.ok.nodup _ w0 hw0)
              · exact inv.ok.nodup x w' hw0
            · intro u e' hu
              change g2.edge? u = some e' at hu
              show g2.containsNode _ = true ∧ g2.containsNode _ = true
              rw [hlive, hlive]
              rw [hedge] at hu
              split at hu
              · cases hu
              · exact inv.ok.edge_live u e' hu
            · intro u e' hu w' hw'
              change g2.edge? u = some e' at hu
              rw [hedge] at hu
              split at hu
              · cases hu
              · rename_i hut
                rcases hwcase _ w' hw' with ⟨_, w0, hw0, rfl⟩ | ⟨_, hw0⟩
                · exact hkeep w0 u hut (inv.ok.edge_listed u e' hu w0 hw0)
                · exact inv.ok.edge_listed u e' hu w' hw0
            · intro u e' hu
              change g2.edge? u = some e' at hu
              rw [hedge] at hu
              split at hu
              · cases hu
              · exact inv.noloop u e' hu

/-! ### `removeState` -/

theorem removeState_spec {a : Automaton K P} (inv : Inv a) (s : Nat)
    (hin : ∀ t e, a.g.edge? t = some e → e.dst ≠ s) :
    (∀ x, (a.removeState s).g.weight? x = if x = s then none else a.g.weight? x) ∧
    (∀ t e, (a.removeState s).g.edge? t = some e ↔ a.g.edge? t = some e ∧ e.src ≠ s) ∧
    (a.removeState s).root = a.root ∧ Inv (a.removeState s) := by
  have hwt : ∀ x, (a.g.removeNode s).weight? x = if x = s then none else a.g.weight? x :=
    SGraph.removeNode_weight? a.g s
  have hedge : ∀ t e, (a.g.removeNode s).edge? t = some e ↔ a.g.edge? t = some e ∧ e.src ≠ s := by
    intro t e
    rw [SGraph.removeNode_edge? inv.wf]
    constructor
    · rintro ⟨h1, h2, _⟩; exact ⟨h1, h2⟩
    · rintro ⟨h1, h2⟩; exact ⟨h1, h2, hin t e h1⟩
  have fo' := SGraph.freeOK_removeNode inv.fo s
  have hw' : ∀ x w, (a.g.removeNode s).weight? x = some w → x ≠ s ∧ a.g.weight? x = some w := by
    intro x w h
    rw [hwt] at h
    split at h
    · cases h
    · exact ⟨‹_›, h⟩
  have hlive : ∀ x, x ≠ s → a.g.containsNode x = true →
      (a.g.removeNode s).containsNode x = true := by
    intro x hx h
    rw [SGraph.containsNode_eq, hwt, if_neg hx, ← SGraph.containsNode_eq]; exact h
  refine ⟨hwt, hedge, rfl, OrdersOK.mk' fo' ?_ ?_ ?_ ?_ ?_, SGraph.wf_removeNode inv.wf s, fo', ?_⟩
  · intro x w h t ht
    obtain ⟨hx, hw⟩ := hw' x w h
    obtain ⟨e, he, hs, hc⟩ := inv.ok.corder_edge x w hw t ht
    exact ⟨e, (hedge t e).2 ⟨he, hs ▸ hx⟩, hs, hc⟩
  · intro x w h t ht
    obtain ⟨hx, hw⟩ := hw' x w h
    obtain ⟨e, he, hs, hc⟩ := inv.ok.eorder_edge x w hw t ht
    exact ⟨e, (hedge t e).2 ⟨he, hs ▸ hx⟩, hs, hc⟩
  · intro x w h
    exact inv.ok.nodup x w (hw' x w h).2
  · intro t e h
    obtain ⟨he, hs⟩ := (hedge t e).1 h
    obtain ⟨h1, h2⟩ := inv.ok.edge_live t e he
    exact ⟨hlive _ hs h1, hlive _ (hin t e he) h2⟩
  · intro t e h w hw
    obtain ⟨he, _⟩ := (hedge t e).1 h
    exact inv.ok.edge_listed t e he w (hw' _ w hw).2
  · intro t e h
    exact inv.noloop t e ((hedge t e).1 h).1

/-! ### `rewireTarget` -/

theorem replaceFirst_self_of_mem {xs : List Nat} {t : Nat} (h : t ∈ xs) :
    replaceFirst xs t t = some xs := by
  induction xs with
  | nil => cases h
  | cons x rest ih =>
    unfold replaceFirst
    by_cases hx : x = t
    · rw [if_pos hx, hx]
    · rw [if_neg hx]
      rcases List.mem_cons.1 h with h | h
      · exact absurd h.symm hx
      · rw [ih h]; rfl

theorem replaceFirst_none_of_not_mem {xs : List Nat} {t t' : Nat} (h : t ∉ xs) :
    replaceFirst xs t t' = none := by
  induction xs with
  | nil => rfl
  | cons x rest ih =>
    unfold replaceFirst
    have hx : x ≠ t := fun e => h (e ▸ List.mem_cons_self)
    rw [if_neg hx, ih (fun hm => h (List.mem_cons_of_mem _ hm))]; rfl

/-- Result of `rewire_target(t, n)`: the edge keeps its id, source and constraint. -/
structure RewireSpec (a a' : Automaton K P) (t n : Nat)
    (ed : GEdge (Option (Constraint K P))) : Prop where
  live : a.g.edge? t = some ed
  edge : ∀ x, a'.g.edge? x = if x = t then some ⟨ed.src, n, ed.w⟩ else a.g.edge? x
  wt : ∀ x, a'.g.weight? x = a.g.weight? x
  root : a'.root = a.root
  inv : Inv a'

theorem rewireTarget_spec {a a' : Automaton K P} (inv : Inv a) {t n t' : Nat}
    (hne : ∀ ed, a.g.edge? t = some ed → ed.src ≠ n)
    (h : a.rewireTarget t n = .ok (a', t')) : t' = t ∧ ∃ ed, RewireSpec a a' t n ed := by
  unfold rewireTarget at h
  split at h
  · cases h
  · rename_i g1 ed hrem
    have hed : a.g.edge? t = some ed := (SGraph.removeEdge_some hrem).1
    have fo1 := SGraph.freeOK_removeEdge inv.fo hrem
    have wf1 := SGraph.wf_removeEdge inv.wf hrem
    split at h
    · cases h
    · rename_i g2 t2 hadd
      obtain ⟨hsrc, hnl, _, hedge2, _, hhead⟩ := SGraph.addEdge_spec fo1 hadd
      have ht2 : t2 = t := hhead t _ (SGraph.removeEdge_shape hrem).2.2.2
      subst ht2
      have hw2 : ∀ x, g2.weight? x = a.g.weight? x := fun x => by
        rw [SGraph.addEdge_weight? fo1 hadd, SGraph.removeEdge_weight? hrem]
      have hedge : ∀ x, g2.edge? x = if x = t2 then some ⟨ed.src, n, ed.w⟩ else a.g.edge? x := by
        intro x
        rw [hedge2, SGraph.removeEdge_edge? hrem]
        split <;> rfl
      have fo2 := SGraph.freeOK_addEdge fo1 hadd
      have wf2 := SGraph.wf_addEdge wf1 fo1.head_edge hadd
      have hnlive : a.Live n := by
        show a.g.containsNode n = true
        rw [SGraph.containsNode_eq, ← SGraph.removeEdge_weight? hrem, ← SGraph.containsNode_eq]
        exact hnl
      split at h
      · cases h
      · rename_i w hw
        rw [state_ok_iff] at hw
        change g2.weight? ed.src = some w at hw
        rw [hw2] at hw
        -- whatever branch is taken, the weight function is the identity on `w`
        have key : ∀ (f : AState K → AState K), f w = w →
            ∀ a'', (⟨g2, a.root⟩ : Automaton K P).modifyState ed.src f = .ok a'' →
              RewireSpec a a'' t2 n ed := by
          intro f hf a'' hmod
          obtain ⟨_, rfl⟩ := modifyState_ok hmod
          have hwt : ∀ x, (g2.setWeight ed.src f).weight? x = a.g.weight? x := by
            intro x
            rw [SGraph.setWeight_weight?, hw2]
            split
            · rename_i hx; subst hx; rw [hw]; simp [hf]
            · rfl
          have hlive : ∀ x, (g2.setWeight ed.src f).containsNode x = a.g.containsNode x := by
            intro x; rw [SGraph.containsNode_eq, SGraph.containsNode_eq, hwt]
          have fo' := SGraph.freeOK_setWeight fo2 ed.src f
          refine ⟨hed, hedge, hwt, rfl, OrdersOK.mk' fo' ?_ ?_ ?_ ?_ ?_,
            SGraph.wf_setWeight wf2 _ _, fo', ?_⟩
          · intro x w' hx u hu
            change (g2.setWeight ed.src f).weight? x = some w' at hx
            rw [hwt] at hx
            obtain ⟨e', he', hs, hc⟩ := inv.ok.corder_edge x w' hx u hu
            show ∃ e'', g2.edge? u = some e'' ∧ _
            rw [hedge]
            split
            · rename_i hut; subst hut; rw [hed] at he'; cases he'
              exact ⟨_, rfl, hs, hc⟩
            · exact ⟨e', he', hs, hc⟩
          · intro x w' hx u hu
            change (g2.setWeight ed.src f).weight? x = some w' at hx
            rw [hwt] at hx
            obtain ⟨e', he', hs, hc⟩ := inv.ok.eorder_edge x w' hx u hu
            show ∃ e'', g2.edge? u = some e'' ∧ _
            rw [hedge]
            split
            · rename_i hut; subst hut; rw [hed] at he'; cases he'
              exact ⟨_, rfl, hs, hc⟩
            · exact ⟨e', he', hs, hc⟩
          · intro x w' hx
            change (g2.setWeight ed.src f).weight? x = some w' at hx
            rw [hwt] at hx
            exact inv.ok.nodup x w' hx
          · intro u e' hu
            change g2.edge? u = some e' at hu
            show (g2.setWeight ed.src f).containsNode _ = true ∧
              (g2.setWeight ed.src f).containsNode _ = true
            rw [hlive, hlive]
            rw [hedge] at hu
            split at hu
            · cases hu; exact ⟨(inv.ok.edge_live _ ed hed).1, hnlive⟩
            · exact inv.ok.edge_live u e' hu
          · intro u e' hu w' hw'
            change g2.edge? u = some e' at hu
            change (g2.setWeight ed.src f).weight? e'.src = some w' at hw'
            rw [hwt] at hw'
            rw [hedge] at hu
            split at hu
            · rename_i hut; cases hu; subst hut
              exact inv.ok.edge_listed u ed hed w' hw'
            · exact inv.ok.edge_listed u e' hu w' hw'
          · intro u e' hu
            change g2.edge? u = some e' at hu
            rw [hedge] at hu
            split at hu
            · cases hu; exact hne ed hed
            · exact inv.noloop u e' hu
        by_cases hc : ed.w.isSome = true
        · have htc : t2 ∈ w.corder := (mem_corder_iff inv.ok hw).2 ⟨ed, hed, rfl, hc⟩
          rw [replaceFirst_self_of_mem htc] at h
          simp only at h
          cases hm : (⟨g2, a.root⟩ : Automaton K P).modifyState ed.src
              (fun w' => { w' with corder := w.corder }) with
          | error e => rw [hm] at h; cases h
          | ok a'' =>
            rw [hm] at h
            cases h
            exact ⟨rfl, ed, key _ rfl _ hm⟩
        · have hn : ed.w = none := by cases hx : ed.w <;> simp_all
          have htc : t2 ∉ w.corder := fun hm => by
            obtain ⟨e', he', _, hs⟩ := (mem_corder_iff inv.ok hw).1 hm
            rw [hed] at he'; cases he'; exact hc hs
          have hte : t2 ∈ w.eorder := (mem_eorder_iff inv.ok hw).2 ⟨ed, hed, rfl, hn⟩
          rw [replaceFirst_none_of_not_mem htc, replaceFirst_self_of_mem hte] at h
          simp only at h
          cases hm : (⟨g2, a.root⟩ : Automaton K P).modifyState ed.src
              (fun w' => { w' with eorder := w.eorder }) with
          | error e => rw [hm] at h; cases h
          | ok a'' =>
            rw [hm] at h
            cases h
            exact ⟨rfl, ed, key _ rfl _ hm⟩

end Automaton
end Pm
