/-
Proofs/AnchReach.lean — T-RUN-ANCH-STR, stage 2: what `strProgramOK` says about each live state
(`StateOK`), and the invariant of every configuration the traversal can arrive at (`Inv`): the
binding is unbound (at the root, or anywhere on the empty host) or `.bound a L` inside the host
with the state lying on an acceptance path from the root under `strSigma h a`.
Everything lives in `namespace Pm.Anch`.
-/
import PmVerif.Proofs.AnchBind
namespace Pm
namespace Anch
open Automaton

/-! ### `strProgramOK`, state by state -/

/-- A prerequisite-ordered duplicate-free key list of the string scheme is empty or starts with
the start key, which does not occur again. -/
theorem shape_of_prereq (ks : List Nat) (h1 : prereqOrdered strReq ks = true) (h2 : ks.Nodup) :
    ks = [] ∨ ∃ rest, ks = 0 :: rest ∧ 0 ∉ rest := by
  cases ks with
  | nil => exact .inl rfl
  | cons k rest =>
    right
    have hp := (c09_prereqOrdered_iff strReq _).mp h1
    have h0 := hp 0 k rfl
    have hk : k = 0 := by
      by_cases hk : k = 0
      · exact hk
      · have := h0 0 (by simp [strReq, hk])
        simp at this
    subst hk
    exact ⟨rest, rfl, (List.nodup_cons.mp h2).1⟩

/-- The clauses of `strProgramOK` the proofs use, for one live state. -/
structure StateOK (A : Automaton Nat CharPred) (ps : List (List CharVar)) (s : Nat)
    (w : AState Nat) : Prop where
  con : ∀ t ∈ w.corder, ∃ e c, A.g.edge? t = some e ∧ e.w = some c ∧
    c.args.length = c.pred.arity ∧ ∀ k ∈ c.args, k ∈ w.scope
  scope_ne : (w.corder ≠ [] ∨ w.eorder ≠ []) → w.scope ≠ []
  scope_shape : w.scope = [] ∨ ∃ rest, w.scope = 0 :: rest ∧ 0 ∉ rest
  matches_ : ∀ pid ks, (pid, ks) ∈ w.matches_ →
    (ks = [] ∨ ∃ rest, ks = 0 :: rest ∧ 0 ∉ rest) ∧ (s = A.root ∨ ks ≠ []) ∧
    ∃ p, ps[pid]? = some p ∧ ks = strPatternKeys p

theorem stateOK_of_programOK {A : Automaton Nat CharPred} {ps : List (List CharVar)}
    (hok : strProgramOK A ps = true) {s : Nat} {w : AState Nat}
    (hw : A.g.weight? s = some w) : StateOK A ps s w := by
  have hall := (liveStates_all A fun s w =>
    decide (w.eorder.length ≤ 1) &&
    (w.corder.all fun t => match A.g.edge? t with
      | some ⟨_, _, some c⟩ => decide (c.args.length = c.pred.arity) && c.args.all w.scope.contains
      | _ => false) &&
    (w.eorder.all fun t => match A.g.edge? t with
      | some ⟨_, _, none⟩ => true
      | _ => false) &&
    ((w.corder.isEmpty && w.eorder.isEmpty) || !w.scope.isEmpty) &&
    prereqOrdered strReq w.scope && decide w.scope.Nodup &&
    (w.matches_.all fun m =>
      prereqOrdered strReq m.2 && decide m.2.Nodup &&
      (s == A.root || !m.2.isEmpty) &&
      (match ps[m.1]? with
       | some p => decide (m.2 = strPatternKeys p)
       | none => false))).mp hok s w hw
  simp only [Bool.and_eq_true, decide_eq_true_eq] at hall
  obtain ⟨⟨⟨⟨⟨⟨_, hcon⟩, _⟩, hne⟩, hpo⟩, hnd⟩, hmat⟩ := hall
  refine ⟨?_, ?_, shape_of_prereq _ hpo hnd, ?_⟩
  · intro t ht
    have := List.all_eq_true.mp hcon t ht
    split at this
    · rename_i src dst c heq
      simp only [Bool.and_eq_true, decide_eq_true_eq] at this
      refine ⟨_, c, heq, rfl, this.1, ?_⟩
      intro k hk
      have := List.all_eq_true.mp this.2 k hk
      simpa using this
    · cases this
  · intro hor hsc
    rw [hsc] at hne
    rcases hor with h | h
    · cases hc : w.corder with
      | nil => exact h hc
      | cons _ _ => simp [hc] at hne
    · cases hc : w.eorder with
      | nil => exact h hc
      | cons _ _ => simp [hc] at hne
  · intro pid ks hm
    have := List.all_eq_true.mp hmat (pid, ks) hm
    simp only [Bool.and_eq_true, decide_eq_true_eq, Bool.or_eq_true, beq_iff_eq,
      Bool.not_eq_true'] at this
    obtain ⟨⟨⟨hpo', hnd'⟩, hroot⟩, hp⟩ := this
    refine ⟨shape_of_prereq _ hpo' hnd', ?_, ?_⟩
    · rcases hroot with h | h
      · exact .inl h
      · right; intro e; rw [e] at h; cases h
    · split at hp
      · rename_i p hps
        exact ⟨p, hps, by simpa using hp⟩
      · cases hp

/-! ### evaluation at a step candidate -/

variable {A : Automaton Nat CharPred} {ps : List (List CharVar)} {h : List Nat}

/-- Fact 2 at a state of an OK program: the constraints on its outgoing transitions evaluate,
on the step candidate of anchor `a`, to their truth value under `strSigma h a`. -/
theorem sat_cand {s : Nat} {w : AState Nat} (hst : StateOK A ps s w) {t : Nat} {e : GEdge (Option StrCons)}
    {c : StrCons} (ht : t ∈ w.corder) (he : A.g.edge? t = some e) (hcw : e.w = some c) (a : Nat) :
    satOrFalse strDomain.map.get strDomain.check c h
        (.bound a (ext (strByteLen h) a 1 w.scope)) = some (strSigma h a c) := by
  obtain ⟨e', c', he', hcw', har, hsc⟩ := hst.con t ht
  rw [he] at he'
  cases he'
  rw [hcw] at hcw'
  cases hcw'
  show satOrFalse StrPos.get strCheck c h _ = _
  apply sat_eq_sigma _ _ _ _ _ har
  intro k hk hb
  exact ext_lt _ _ _ _ k (hsc k hk) hb

/-- The fallback condition of `next_legal_states` is the one of `AccDet`. -/
theorem eps_cond_iff {s : Nat} {w : AState Nat} (hst : StateOK A ps s w) (a : Nat) :
    (w.det = false ∨ ∀ t' ∈ w.corder, ∀ e' c', A.g.edge? t' = some e' → e'.w = some c' →
        satOrFalse strDomain.map.get strDomain.check c' h
          (.bound a (ext (strByteLen h) a 1 w.scope)) ≠ some true) ↔
      (w.det = false ∨ ¬ fires (strSigma h a) A w) := by
  constructor
  · rintro (hd | hn)
    · exact .inl hd
    · right
      rintro ⟨t, ht, e, c, he, hcw, hsig⟩
      apply hn t ht e c he hcw
      rw [sat_cand hst ht he hcw a, hsig]
  · rintro (hd | hn)
    · exact .inl hd
    · right
      intro t ht e c he hcw hsat
      apply hn
      refine ⟨t, ht, e, c, he, hcw, ?_⟩
      rw [sat_cand hst ht he hcw a] at hsat
      exact Option.some.inj hsat

/-! ### the invariant of reachable configurations -/

/-- Fact 3 (→): every configuration the traversal can arrive at is unbound — at the root, or
anywhere on the empty host — or bound at an anchor `a` inside the host, with a non-empty extent
that stays inside the host's byte length, at a state from which acceptance under `strSigma h a`
lifts to the root (i.e. it lies on an `AccDetK` path from the root). -/
def Inv (A : Automaton Nat CharPred) (h : List Nat) (s : Nat) (m : StrPos) : Prop :=
  (m = .unbound ∧ (s = A.root ∨ strByteLen h = 0)) ∨
  ∃ a L, m = .bound a L ∧ a < strByteLen h ∧ 1 ≤ L ∧ a + L ≤ strByteLen h ∧
    ∀ pid ks, AccDetK (strSigma h a) A s pid ks → AccDetK (strSigma h a) A A.root pid ks

theorem ext_scope_bounds (a : Nat) (ks : List Nat) (ha : a < strByteLen h) :
    1 ≤ ext (strByteLen h) a 1 ks ∧ a + ext (strByteLen h) a 1 ks ≤ strByteLen h :=
  ⟨ext_ge _ _ _ _, ext_le _ _ _ _ (by omega)⟩

/-- The step candidates at a state with outgoing transitions, from a configuration satisfying
the invariant. -/
theorem cands_cases {s : Nat} {w : AState Nat} {m m' : StrPos} {cands : List StrPos}
    (hst : StateOK A ps s w) (hne : w.scope ≠ []) (hinv : Inv A h s m)
    (hc : stepCands strDomain h w m = .ok cands) (hm' : m' ∈ cands) :
    (m' = .unbound ∧ strByteLen h = 0) ∨
    ∃ a, a < strByteLen h ∧ m' = .bound a (ext (strByteLen h) a 1 w.scope) ∧
      ∀ pid ks, AccDetK (strSigma h a) A s pid ks → AccDetK (strSigma h a) A A.root pid ks := by
  obtain ⟨rest, hs, h0⟩ : ∃ rest, w.scope = 0 :: rest ∧ 0 ∉ rest := by
    rcases hst.scope_shape with h | h
    · exact absurd h hne
    · exact h
  rcases hinv with ⟨rfl, hroot⟩ | ⟨a, L, rfl, ha, hL1, hL2, hpath⟩
  · by_cases hB : strByteLen h = 0
    · rw [stepCands_unbound_empty h w hB] at hc
      cases hc
      exact .inl ⟨List.mem_singleton.mp hm', hB⟩
    · have hs' : s = A.root := by
        rcases hroot with h | h
        · exact h
        · exact absurd h hB
      rw [stepCands_unbound h w rest hs h0 (by omega)] at hc
      cases hc
      obtain ⟨a, ha, rfl⟩ := List.mem_map.mp hm'
      exact .inr ⟨a, List.mem_range.mp ha, rfl, fun pid ks hacc => hs' ▸ hacc⟩
  · rw [stepCands_bound h w a L rest hs h0 hL1 hL2] at hc
    cases hc
    exact .inr ⟨a, ha, List.mem_singleton.mp hm', hpath⟩

theorem reach_inv (hok : strProgramOK A ps = true) {s : Nat} {m : StrPos}
    (hr : Reach strDomain A h s m) : Inv A h s m := by
  induction hr with
  | root => exact .inl ⟨rfl, .inl rfl⟩
  | @con s m w cands m' t e c _ hw hc hm' ht he hcw hsat ih =>
    have hst := stateOK_of_programOK hok hw
    have hne : w.scope ≠ [] := hst.scope_ne (.inl (List.ne_nil_of_mem ht))
    rcases cands_cases hst hne ih hc hm' with ⟨rfl, hB⟩ | ⟨a, ha, rfl, hpath⟩
    · exact .inl ⟨rfl, .inr hB⟩
    · obtain ⟨h1, h2⟩ := ext_scope_bounds (h := h) a w.scope ha
      refine .inr ⟨a, _, rfl, ha, h1, h2, fun pid ks hacc => hpath pid ks ?_⟩
      rw [sat_cand hst ht he hcw a] at hsat
      exact AccDetK.con hw ht he hcw (Option.some.inj hsat) hacc
  | @eps s m w cands m' t e _ hw hc hm' ht he hd ih =>
    have hst := stateOK_of_programOK hok hw
    have hne : w.scope ≠ [] := hst.scope_ne (.inr (List.ne_nil_of_mem ht))
    rcases cands_cases hst hne ih hc hm' with ⟨rfl, hB⟩ | ⟨a, ha, rfl, hpath⟩
    · exact .inl ⟨rfl, .inr hB⟩
    · obtain ⟨h1, h2⟩ := ext_scope_bounds (h := h) a w.scope ha
      refine .inr ⟨a, _, rfl, ha, h1, h2, fun pid ks hacc => hpath pid ks ?_⟩
      exact AccDetK.eps hw ht he ((eps_cond_iff hst a).mp hd) hacc

end Anch
end Pm
