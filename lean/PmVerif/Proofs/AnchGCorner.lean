/-
Proofs/AnchGCorner.lean — no "corner" constraint (`isNotEqual _ [k]` with `k ≠ root 0`,
`pgNoCorner` of Proofs/AnchGDefs.lean) on a live edge of a built port-graph automaton:

* `AnchGCorner1`: the generic builder invariant `build_edgesQ` — every constraint carried by a
  live edge of the built automaton satisfies `Q`, if the pattern constraints do and the tree
  decomposition respects `Q` (`TreeEdgesQ`);
* `AnchGCorner2`: `treeEdgesQ_pgTree` (the port-graph decomposition respects `pgNoCorner`) and the
  instance `build_noCorner`;
* `AnchGCorner3`: `pgConstraints_noCorner` (`constraint_vec` produces no corner constraint).
-/
import PmVerif.Proofs.AnchGCorner1
import PmVerif.Proofs.AnchGCorner2
import PmVerif.Proofs.AnchGCorner3
