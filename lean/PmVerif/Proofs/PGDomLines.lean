/-
Proofs/PGDomLines.lean — structure of the lines of `linePartition` and of what `consLine` /
`consLines` / `pgConstraints` emit; the relation between `pgNodeKeys` and the key map threaded
through `consLines`. Everything lives in `Pm.PGDom`.
-/
import PmVerif.Proofs.PGDomDefs
namespace Pm.PGDom

/-! ### association lists -/

section AL
variable {K V : Type} [DecidableEq K]

theorem alGet_cons (k' : K) (v : V) (rest : List (K × V)) (k : K) :
    alGet ((k', v) :: rest) k = if k' = k then some v else alGet rest k := rfl

theorem alGet_append (l l' : List (K × V)) (k : K) :
    alGet (l ++ l') k = match alGet l k with | some v => some v | none => alGet l' k := by
  induction l with
  | nil => rfl
  | cons x xs ih =>
    obtain ⟨k', v⟩ := x
    simp only [List.cons_append, alGet_cons]
    split
    · rfl
    · exact ih

theorem alGet_append_of_some {l : List (K × V)} {k : K} {v : V} (h : alGet l k = some v)
    (l' : List (K × V)) : alGet (l ++ l') k = some v := by
  rw [alGet_append, h]

theorem alGet_append_of_none {l : List (K × V)} {k : K} (h : alGet l k = none)
    (l' : List (K × V)) : alGet (l ++ l') k = alGet l' k := by
  rw [alGet_append, h]

theorem alGet_mem {l : List (K × V)} {k : K} {v : V} (h : alGet l k = some v) : (k, v) ∈ l := by
  induction l with
  | nil => cases h
  | cons x xs ih =>
    obtain ⟨k', v'⟩ := x
    rw [alGet_cons] at h
    split at h
    · next e => cases h; subst e; exact List.mem_cons_self ..
    · exact List.mem_cons_of_mem _ (ih h)

theorem alGet_none_iff {l : List (K × V)} {k : K} : alGet l k = none ↔ k ∉ l.map (·.1) := by
  induction l with
  | nil => simp [alGet]
  | cons x xs ih =>
    obtain ⟨k', v'⟩ := x
    rw [alGet_cons]
    split
    · next e => subst e; simp
    · next e =>
      rw [ih]
      simp only [List.map_cons, List.mem_cons, not_or]
      exact ⟨fun h => ⟨fun e' => e e'.symm, h⟩, fun h => h.2⟩

theorem alGet_isSome_iff {l : List (K × V)} {k : K} :
    (alGet l k).isSome = true ↔ k ∈ l.map (·.1) := by
  cases h : alGet l k with
  | none => simp [alGet_none_iff.1 h]
  | some v =>
    simp only [Option.isSome_some, true_iff]
    exact List.mem_map.2 ⟨(k, v), alGet_mem h, rfl⟩

/-- On a list with distinct keys every entry is found by `alGet`. -/
theorem alGet_of_mem_nodup {l : List (K × V)} (hnd : (l.map (·.1)).Nodup) {k : K} {v : V}
    (h : (k, v) ∈ l) : alGet l k = some v := by
  induction l with
  | nil => cases h
  | cons x xs ih =>
    obtain ⟨k', v'⟩ := x
    rw [List.map_cons, List.nodup_cons] at hnd
    rw [alGet_cons]
    rcases List.mem_cons.1 h with e | h
    · cases e; simp
    · have : k' ≠ k := fun e => hnd.1 (e ▸ List.mem_map.2 ⟨(k, v), h, rfl⟩)
      rw [if_neg this]
      exact ih hnd.2 h

end AL

/-! ### `consLine`: unfolding, the key map it computes -/

theorem consLine_nil (ri : Nat) (off : POff) (i : Nat) (n2k : List (Nat × PGKey))
    (cs : List PGCons) : consLine ri off [] i n2k cs = some (n2k, cs) := rfl

theorem consLine_cons (ri : Nat) (off : POff) (l : PLink) (rest : List PLink) (i : Nat)
    (n2k : List (Nat × PGKey)) (cs : List PGCons) :
    consLine ri off (l :: rest) i n2k cs =
      match alGet n2k l.1.1 with
      | none => none
      | some lk =>
        match alGet n2k l.2.1 with
        | some k =>
          consLine ri off rest (i + 1) n2k (cs ++ [⟨.isConnected l.1.2 l.2.2, [lk, k]⟩])
        | none =>
          consLine ri off rest (i + 1) (n2k ++ [(l.2.1, .along ri off (i + 1))])
            ((cs ++ [⟨.isNotEqual n2k.length, .along ri off (i + 1) :: n2k.map (·.2)⟩]) ++
              [⟨.isConnected l.1.2 l.2.2, [lk, .along ri off (i + 1)]⟩]) := by
  obtain ⟨left, right⟩ := l
  cases hl : alGet n2k left.1 with
  | none => simp only [consLine, hl]
  | some lk =>
    cases hr : alGet n2k right.1 with
    | none => simp only [consLine, hl, hr]
    | some k => simp only [consLine, hl, hr]

/-- The key map after a line (the `n2k` component of `consLine`). -/
def keysLine (ri : Nat) (off : POff) : List PLink → Nat → List (Nat × PGKey) → List (Nat × PGKey)
  | [], _, n2k => n2k
  | l :: rest, i, n2k =>
    keysLine ri off rest (i + 1)
      (if (alGet n2k l.2.1).isSome then n2k else n2k ++ [(l.2.1, .along ri off (i + 1))])

/-- `rootIndex` and the updated `node_to_root` map. -/
def rootIdx (n2r : List (Nat × Nat)) (node : Nat) : Nat × List (Nat × Nat) :=
  match alGet n2r node with
  | some i => (i, n2r)
  | none => (n2r.length, n2r ++ [(node, n2r.length)])

/-- The key map after a list of lines. -/
def keysLines : List (List PLink) → List (Nat × PGKey) → List (Nat × Nat) → List (Nat × PGKey)
  | [], n2k, _ => n2k
  | line :: rest, n2k, n2r =>
    match line.head? with
    | none => n2k
    | some first =>
      keysLines rest (keysLine (rootIdx n2r first.1.1).1 first.1.2 line 0 n2k)
        (rootIdx n2r first.1.1).2

theorem consLines_nil (n2k : List (Nat × PGKey)) (n2r : List (Nat × Nat)) (cs : List PGCons) :
    consLines [] n2k n2r cs = some cs := rfl

theorem consLines_cons (line : List PLink) (lines : List (List PLink))
    (n2k : List (Nat × PGKey)) (n2r : List (Nat × Nat)) (cs : List PGCons) :
    consLines (line :: lines) n2k n2r cs =
      match line.head? with
      | none => none
      | some first =>
        match consLine (rootIdx n2r first.1.1).1 first.1.2 line 0 n2k cs with
        | none => none
        | some r => consLines lines r.1 (rootIdx n2r first.1.1).2 r.2 := by
  cases hh : line.head? with
  | none => simp only [consLines, hh]
  | some first =>
    cases hr : alGet n2r first.1.1 with
    | some i =>
      simp only [consLines, rootIdx, hh, hr]
      cases consLine i first.1.2 line 0 n2k cs <;> rfl
    | none =>
      simp only [consLines, rootIdx, hh, hr]
      cases consLine n2r.length first.1.2 line 0 n2k cs <;> rfl

theorem keysLine_foldl (ri : Nat) (off : POff) :
    ∀ (line : List PLink) (i : Nat) (n2k : List (Nat × PGKey)),
      (line.zip (List.range' i line.length)).foldl (fun n2k (li : PLink × Nat) =>
        if (alGet n2k li.1.2.1).isSome then n2k
        else n2k ++ [(li.1.2.1, PGKey.along ri off (li.2 + 1))]) n2k = keysLine ri off line i n2k
  | [], _, _ => rfl
  | l :: rest, i, n2k => by
    simp only [List.length_cons, List.range'_succ, List.zip_cons_cons, List.foldl_cons, keysLine]
    exact keysLine_foldl ri off rest (i + 1) _

theorem pgNodeKeys_lines_eq :
    ∀ (lines : List (List PLink)) (n2k : List (Nat × PGKey)) (n2r : List (Nat × Nat)),
      pgNodeKeys.lines lines n2k n2r = keysLines lines n2k n2r
  | [], _, _ => rfl
  | line :: rest, n2k, n2r => by
    cases hh : line.head? with
    | none => simp only [pgNodeKeys.lines, keysLines, hh]
    | some first =>
      cases hr : alGet n2r first.1.1 with
      | some i =>
        simp only [pgNodeKeys.lines, keysLines, rootIdx, hh, hr, List.range_eq_range',
          keysLine_foldl]
        exact pgNodeKeys_lines_eq rest _ _
      | none =>
        simp only [pgNodeKeys.lines, keysLines, rootIdx, hh, hr, List.range_eq_range',
          keysLine_foldl]
        exact pgNodeKeys_lines_eq rest _ _

theorem pgNodeKeys_eq (g : PortGraph) (root : Nat) :
    pgNodeKeys g root = keysLines (linePartition g root) [(root, .root 0)] [(root, 0)] :=
  pgNodeKeys_lines_eq _ _ _

/-! ### Induction principles for `consLine` / `consLines`

`P done n2k cs` is an invariant of the state of `constraint_vec`: `done` the links processed so
far (in order), `n2k` the node ↦ key map, `cs` the constraints emitted so far. It has to be
preserved by the two kinds of emission. -/

theorem consLine_induct (ri : Nat) (off : POff) (full : List PLink)
    (P : List PLink → List (Nat × PGKey) → List PGCons → Prop)
    (hNE : ∀ done n2k cs (j : Nat) l lk, full[j]? = some l → P done n2k cs → alGet n2k l.2.1 = none →
      alGet n2k l.1.1 = some lk →
      P done (n2k ++ [(l.2.1, .along ri off (j + 1))])
        (cs ++ [⟨.isNotEqual n2k.length, .along ri off (j + 1) :: n2k.map (·.2)⟩]))
    (hConn : ∀ done n2k cs (j : Nat) l kl kr, full[j]? = some l → P done n2k cs →
      alGet n2k l.1.1 = some kl → alGet n2k l.2.1 = some kr →
      P (done ++ [l]) n2k (cs ++ [⟨.isConnected l.1.2 l.2.2, [kl, kr]⟩])) :
    ∀ (line : List PLink) (i : Nat) (done : List PLink) (n2k : List (Nat × PGKey))
      (cs : List PGCons) (r : List (Nat × PGKey) × List PGCons),
      (∀ j l, line[j]? = some l → full[i + j]? = some l) →
      consLine ri off line i n2k cs = some r → P done n2k cs →
      r.1 = keysLine ri off line i n2k ∧ P (done ++ line) r.1 r.2
  | [], i, done, n2k, cs, r, _, h, hP => by
    rw [consLine_nil] at h
    cases h
    rw [List.append_nil]
    exact ⟨rfl, hP⟩
  | l :: rest, i, done, n2k, cs, r, hfull, h, hP => by
    have hl : full[i]? = some l := hfull 0 l rfl
    have hrest : ∀ j l', rest[j]? = some l' → full[i + 1 + j]? = some l' := fun j l' hj => by
      have := hfull (j + 1) l' (by simpa using hj)
      rwa [Nat.add_assoc, Nat.add_comm 1 j]
    rw [consLine_cons] at h
    cases hlk : alGet n2k l.1.1 with
    | none => rw [hlk] at h; cases h
    | some lk =>
      rw [hlk] at h
      cases hrk : alGet n2k l.2.1 with
      | some k =>
        rw [hrk] at h
        simp only at h
        have hP' := hConn done n2k cs i l lk k hl hP hlk hrk
        have ih := consLine_induct ri off full P hNE hConn rest (i + 1) _ _ _ r hrest h hP'
        simp only [keysLine, hrk, Option.isSome_some, if_true]
        simpa using ih
      | none =>
        rw [hrk] at h
        simp only at h
        have hP1 := hNE done n2k cs i l lk hl hP hrk hlk
        have hlk' : alGet (n2k ++ [(l.2.1, PGKey.along ri off (i + 1))]) l.1.1 = some lk :=
          alGet_append_of_some hlk _
        have hrk' : alGet (n2k ++ [(l.2.1, PGKey.along ri off (i + 1))]) l.2.1 =
            some (PGKey.along ri off (i + 1)) := by
          rw [alGet_append_of_none hrk, alGet_cons, if_pos rfl]
        have hP' := hConn done _ _ i l lk _ hl hP1 hlk' hrk'
        have ih := consLine_induct ri off full P hNE hConn rest (i + 1) _ _ _ r hrest h hP'
        simp only [keysLine, hrk, Option.isSome_none, Bool.false_eq_true, if_false]
        simpa using ih

/-- The `node_to_root` map sends only the pattern root to index `0`. -/
def RootsOK (root : Nat) (n2r : List (Nat × Nat)) : Prop :=
  n2r ≠ [] ∧ ∀ x, alGet n2r x = some 0 → x = root

theorem RootsOK.init (root : Nat) : RootsOK root [(root, 0)] := by
  refine ⟨by simp, fun x hx => ?_⟩
  rw [alGet_cons] at hx
  split at hx
  · next e => exact e.symm
  · cases hx

theorem RootsOK.rootIdx {root : Nat} {n2r : List (Nat × Nat)} (h : RootsOK root n2r) (node : Nat) :
    ((rootIdx n2r node).1 = 0 → node = root) ∧ RootsOK root (rootIdx n2r node).2 := by
  unfold PGDom.rootIdx
  cases hn : alGet n2r node with
  | some i => exact ⟨fun e => h.2 node (by rw [hn, show i = 0 from e]), h⟩
  | none =>
    have hlen : n2r.length ≠ 0 := fun e => h.1 (List.length_eq_zero_iff.1 e)
    refine ⟨fun e => absurd e hlen, by simp, fun x hx => ?_⟩
    rw [alGet_append] at hx
    cases hx' : alGet n2r x with
    | some v => rw [hx'] at hx; cases hx; exact h.2 x hx'
    | none =>
      rw [hx'] at hx
      simp only [alGet_cons] at hx
      split at hx
      · injection hx with e; exact absurd e hlen
      · cases hx

theorem consLines_induct (root : Nat) (full : List (List PLink))
    (P : List PLink → List (Nat × PGKey) → List PGCons → Prop)
    (hNE : ∀ line ∈ full, ∀ first ri, line.head? = some first → (ri = 0 → first.1.1 = root) →
      ∀ done n2k cs (j : Nat) l lk, line[j]? = some l → P done n2k cs → alGet n2k l.2.1 = none →
      alGet n2k l.1.1 = some lk →
      P done (n2k ++ [(l.2.1, .along ri first.1.2 (j + 1))])
        (cs ++ [⟨.isNotEqual n2k.length, .along ri first.1.2 (j + 1) :: n2k.map (·.2)⟩]))
    (hConn : ∀ line ∈ full, ∀ done n2k cs (j : Nat) l kl kr, line[j]? = some l → P done n2k cs →
      alGet n2k l.1.1 = some kl → alGet n2k l.2.1 = some kr →
      P (done ++ [l]) n2k (cs ++ [⟨.isConnected l.1.2 l.2.2, [kl, kr]⟩])) :
    ∀ (lines : List (List PLink)) (n2k : List (Nat × PGKey)) (n2r : List (Nat × Nat))
      (done : List PLink) (cs cs' : List PGCons),
      (∀ line ∈ lines, line ∈ full) → RootsOK root n2r →
      consLines lines n2k n2r cs = some cs' → P done n2k cs →
      P (done ++ lines.flatten) (keysLines lines n2k n2r) cs'
  | [], n2k, n2r, done, cs, cs', _, _, h, hP => by
    rw [consLines_nil] at h
    cases h
    simpa [keysLines] using hP
  | line :: lines, n2k, n2r, done, cs, cs', hsub, hR, h, hP => by
    rw [consLines_cons] at h
    cases hh : line.head? with
    | none => rw [hh] at h; cases h
    | some first =>
      rw [hh] at h
      simp only at h
      cases hc : consLine (rootIdx n2r first.1.1).1 first.1.2 line 0 n2k cs with
      | none => rw [hc] at h; cases h
      | some r =>
        rw [hc] at h
        simp only at h
        have hmem : line ∈ full := hsub line (List.mem_cons_self ..)
        obtain ⟨hri, hR'⟩ := hR.rootIdx first.1.1
        obtain ⟨hk, hP'⟩ := consLine_induct (rootIdx n2r first.1.1).1 first.1.2 line P
          (hNE line hmem first _ hh hri) (hConn line hmem) line 0 done n2k cs r
          (fun j l hj => by simpa using hj) hc hP
        have ih := consLines_induct root full P hNE hConn lines r.1 (rootIdx n2r first.1.1).2
          (done ++ line) r.2 cs' (fun l hl => hsub l (List.mem_cons_of_mem _ hl)) hR' h hP'
        simp only [keysLines, hh, List.flatten_cons, ← List.append_assoc]
        rw [← hk]
        exact ih

/-! ### `extendLine` / `linePartitionLoop`: unfolding and induction principles -/

theorem extendLine_zero (g : PortGraph) (line queue visL : List PLink) (visN : List Nat) :
    extendLine g 0 line queue visL visN = (line, queue, visL, visN) := rfl

theorem extendLine_succ (g : PortGraph) (fuel : Nat) (line queue visL : List PLink)
    (visN : List Nat) :
    extendLine g (fuel + 1) line queue visL visN =
      match line.getLast? with
      | none => (line, queue, visL, visN)
      | some last =>
        let curr := last.2.1
        let queue' := if visN.contains curr then queue
          else queue ++ (g.allLinks curr).filter (fun l => !linkVisited visL l)
        let visN' := if visN.contains curr then visN else visN ++ [curr]
        let left : Port := (curr, last.2.2.opposite)
        if (line.head?.map fun l => l.1.1) == some curr then (line, queue', visL, visN')
        else if !g.portExists left then (line, queue', visL, visN')
        else
          match g.portLink left with
          | none => (line, queue', visL, visN')
          | some right =>
            if linkVisited visL (left, right) then (line, queue', visL, visN')
            else extendLine g fuel (line ++ [(left, right)]) queue' (visL ++ [(left, right)]) visN' := by
  cases hl : line.getLast? with
  | none => simp only [extendLine, hl]
  | some last =>
    cases hc : visN.contains last.2.1 with
    | true =>
      simp only [extendLine, hl, hc, ↓reduceIte]
      try rfl
    | false =>
      simp only [extendLine, hl, hc, Bool.false_eq_true, ↓reduceIte]
      try rfl

theorem extendLine_ind (g : PortGraph)
    (P : List PLink → List PLink → List PLink → List Nat → Prop)
    (hvisit : ∀ line queue visL visN last, line.getLast? = some last → last.2.1 ∉ visN →
      P line queue visL visN →
      P line (queue ++ (g.allLinks last.2.1).filter (fun l => !linkVisited visL l)) visL
        (visN ++ [last.2.1]))
    (hext : ∀ line queue visL visN last right, line.getLast? = some last → last.2.1 ∈ visN →
      (line.head?.map fun l => l.1.1) ≠ some last.2.1 →
      g.portExists (last.2.1, last.2.2.opposite) = true →
      g.portLink (last.2.1, last.2.2.opposite) = some right →
      linkVisited visL ((last.2.1, last.2.2.opposite), right) = false →
      P line queue visL visN →
      P (line ++ [((last.2.1, last.2.2.opposite), right)]) queue
        (visL ++ [((last.2.1, last.2.2.opposite), right)]) visN) :
    ∀ (fuel : Nat) (line queue visL : List PLink) (visN : List Nat), P line queue visL visN →
      P (extendLine g fuel line queue visL visN).1 (extendLine g fuel line queue visL visN).2.1
        (extendLine g fuel line queue visL visN).2.2.1 (extendLine g fuel line queue visL visN).2.2.2
  | 0, line, queue, visL, visN, hP => hP
  | fuel + 1, line, queue, visL, visN, hP => by
    rw [extendLine_succ]
    cases hl : line.getLast? with
    | none => exact hP
    | some last =>
      simp only
      have hP' : P line
          (if visN.contains last.2.1 then queue
            else queue ++ (g.allLinks last.2.1).filter (fun l => !linkVisited visL l)) visL
          (if visN.contains last.2.1 then visN else visN ++ [last.2.1]) ∧
          last.2.1 ∈ (if visN.contains last.2.1 then visN else visN ++ [last.2.1]) := by
        cases hc : visN.contains last.2.1 with
        | true =>
          simp only [↓reduceIte]
          exact ⟨hP, by simpa using hc⟩
        | false =>
          simp only [Bool.false_eq_true, ↓reduceIte]
          refine ⟨hvisit line queue visL visN last hl ?_ hP, by simp⟩
          intro hmem
          have : visN.contains last.2.1 = true := by simpa using hmem
          rw [hc] at this; cases this
      obtain ⟨hP1, hmem⟩ := hP'
      split
      · exact hP1
      · next hhead =>
        split
        · exact hP1
        · next hex =>
          split
          · exact hP1
          · next right hr =>
            split
            · exact hP1
            · next hv =>
              have hhead' : (line.head?.map fun l => l.1.1) ≠ some last.2.1 := by
                intro e; rw [e] at hhead; simp at hhead
              have hex' : g.portExists (last.2.1, last.2.2.opposite) = true := by
                simpa using hex
              have hv' : linkVisited visL ((last.2.1, last.2.2.opposite), right) = false := by
                simpa using hv
              exact extendLine_ind g P hvisit hext fuel _ _ _ _
                (hext line _ visL _ last right hl hmem hhead' hex' hr hv' hP1)

theorem linePartitionLoop_zero (g : PortGraph) (queue visL : List PLink) (visN : List Nat)
    (lines : List (List PLink)) : linePartitionLoop g 0 queue visL visN lines = lines := rfl

theorem linePartitionLoop_nil (g : PortGraph) (fuel : Nat) (visL : List PLink) (visN : List Nat)
    (lines : List (List PLink)) : linePartitionLoop g fuel [] visL visN lines = lines := by
  cases fuel <;> rfl

theorem linePartitionLoop_succ (g : PortGraph) (fuel : Nat) (start : PLink)
    (queue visL : List PLink) (visN : List Nat) (lines : List (List PLink)) :
    linePartitionLoop g (fuel + 1) (start :: queue) visL visN lines =
      if linkVisited visL start then linePartitionLoop g fuel queue visL visN lines
      else
        linePartitionLoop g fuel
          (extendLine g (g.links.length + 1) [start] queue (visL ++ [start]) visN).2.1
          (extendLine g (g.links.length + 1) [start] queue (visL ++ [start]) visN).2.2.1
          (extendLine g (g.links.length + 1) [start] queue (visL ++ [start]) visN).2.2.2
          (lines ++ [(extendLine g (g.links.length + 1) [start] queue (visL ++ [start]) visN).1]) :=
  rfl

theorem linePartitionLoop_ind (g : PortGraph)
    (Q : List PLink → List PLink → List Nat → List (List PLink) → Prop)
    (hskip : ∀ start queue visL visN lines, linkVisited visL start = true →
      Q (start :: queue) visL visN lines → Q queue visL visN lines)
    (hline : ∀ start queue visL visN lines, linkVisited visL start = false →
      Q (start :: queue) visL visN lines →
      Q (extendLine g (g.links.length + 1) [start] queue (visL ++ [start]) visN).2.1
        (extendLine g (g.links.length + 1) [start] queue (visL ++ [start]) visN).2.2.1
        (extendLine g (g.links.length + 1) [start] queue (visL ++ [start]) visN).2.2.2
        (lines ++ [(extendLine g (g.links.length + 1) [start] queue (visL ++ [start]) visN).1])) :
    ∀ (fuel : Nat) (queue visL : List PLink) (visN : List Nat) (lines : List (List PLink)),
      Q queue visL visN lines →
      ∃ queue' visL' visN', Q queue' visL' visN' (linePartitionLoop g fuel queue visL visN lines)
  | 0, queue, visL, visN, lines, hQ => ⟨queue, visL, visN, hQ⟩
  | fuel + 1, [], visL, visN, lines, hQ => ⟨[], visL, visN, hQ⟩
  | fuel + 1, start :: queue, visL, visN, lines, hQ => by
    rw [linePartitionLoop_succ]
    cases hv : linkVisited visL start with
    | true =>
      simp only [↓reduceIte]
      exact linePartitionLoop_ind g Q hskip hline fuel _ _ _ _ (hskip _ _ _ _ _ hv hQ)
    | false =>
      simp only [Bool.false_eq_true, ↓reduceIte]
      exact linePartitionLoop_ind g Q hskip hline fuel _ _ _ _ (hline _ _ _ _ _ hv hQ)

/-! ### What a line looks like -/

/-- A line of `line_partition`: non-empty; every entry is a link of the graph, listed from the
port the line leaves through; consecutive entries enter a node and leave it through the opposite
offset; the line never continues through the node it started from. -/
structure IsLine (g : PortGraph) (line : List PLink) : Prop where
  ne : line ≠ []
  link : ∀ l ∈ line, g.portLink l.1 = some l.2
  chain : ∀ (j : Nat) a b, line[j]? = some a → line[j + 1]? = some b →
    b.1 = (a.2.1, a.2.2.opposite)
  nostart : ∀ (j : Nat) a b first, line.head? = some first → line[j]? = some a →
    line[j + 1]? = some b → a.2.1 ≠ first.1.1

theorem getElem?_snoc {α : Type} (l : List α) (x : α) (j : Nat) (a : α)
    (h : (l ++ [x])[j]? = some a) : (j < l.length ∧ l[j]? = some a) ∨ (j = l.length ∧ a = x) := by
  rcases Nat.lt_trichotomy j l.length with hj | hj | hj
  · rw [List.getElem?_append_left hj] at h
    exact Or.inl ⟨hj, h⟩
  · subst hj
    simp at h
    exact Or.inr ⟨rfl, h.symm⟩
  · rw [List.getElem?_eq_none (by simp; omega)] at h
    cases h

theorem getLast?_getElem? {α : Type} {l : List α} {x : α} (h : l.getLast? = some x) :
    l ≠ [] ∧ l[l.length - 1]? = some x := by
  rw [List.getLast?_eq_getElem?] at h
  refine ⟨?_, h⟩
  rintro rfl
  cases h

theorem IsLine.single {g : PortGraph} {l : PLink} (h : g.portLink l.1 = some l.2) :
    IsLine g [l] where
  ne := by simp
  link := fun l' hl' => by rw [List.mem_singleton] at hl'; subst hl'; exact h
  chain := fun j a b _ hb => by simp at hb
  nostart := fun j a b first _ _ hb => by simp at hb

theorem IsLine.snoc {g : PortGraph} {line : List PLink} (h : IsLine g line) {last : PLink}
    {right : Port} (hl : line.getLast? = some last)
    (hhead : (line.head?.map fun l => l.1.1) ≠ some last.2.1)
    (hr : g.portLink (last.2.1, last.2.2.opposite) = some right) :
    IsLine g (line ++ [((last.2.1, last.2.2.opposite), right)]) where
  ne := by simp
  link := fun l hl' => by
    rcases List.mem_append.1 hl' with hl' | hl'
    · exact h.link l hl'
    · rw [List.mem_singleton] at hl'; subst hl'; exact hr
  chain := fun j a b ha hb => by
    obtain ⟨hne, hlast⟩ := getLast?_getElem? hl
    have hpos : 0 < line.length := List.length_pos_iff.2 hne
    rcases getElem?_snoc _ _ _ _ hb with ⟨hj, hb'⟩ | ⟨hj, rfl⟩
    · rw [List.getElem?_append_left (by omega)] at ha
      exact h.chain j a b ha hb'
    · rw [List.getElem?_append_left (by omega)] at ha
      have : j = line.length - 1 := by omega
      subst this
      rw [hlast] at ha
      cases ha
      rfl
  nostart := fun j a b first hf ha hb => by
    obtain ⟨hne, hlast⟩ := getLast?_getElem? hl
    have hpos : 0 < line.length := List.length_pos_iff.2 hne
    have hf' : line.head? = some first := by
      cases line with
      | nil => exact absurd rfl hne
      | cons x xs => simpa using hf
    rcases getElem?_snoc _ _ _ _ hb with ⟨hj, hb'⟩ | ⟨hj, rfl⟩
    · rw [List.getElem?_append_left (by omega)] at ha
      exact h.nostart j a b first hf' ha hb'
    · rw [List.getElem?_append_left (by omega)] at ha
      have : j = line.length - 1 := by omega
      subst this
      rw [hlast] at ha
      cases ha
      intro e
      apply hhead
      rw [hf', e]
      rfl

/-- The right-hand end nodes of the links of a list of lines. -/
def rights (lines : List (List PLink)) : List Nat := lines.flatten.map (·.2.1)

theorem rights_append (a b : List (List PLink)) : rights (a ++ b) = rights a ++ rights b := by
  simp [rights]

theorem mem_rights {lines : List (List PLink)} {n : Nat} :
    n ∈ rights lines ↔ ∃ line ∈ lines, ∃ l ∈ line, l.2.1 = n := by
  simp only [rights, List.mem_map, List.mem_flatten]
  constructor
  · rintro ⟨l, ⟨line, hline, hl⟩, e⟩; exact ⟨line, hline, l, hl, e⟩
  · rintro ⟨line, hline, l, hl, e⟩; exact ⟨l, ⟨line, hline, hl⟩, e⟩

/-- The lines are ordered so that every line starts at a node of `K` or at the right-hand end
of a link of an earlier line. -/
def Ordered : List Nat → List (List PLink) → Prop
  | _, [] => True
  | K, line :: rest =>
    (∃ first, line.head? = some first ∧ first.1.1 ∈ K) ∧ Ordered (K ++ line.map (·.2.1)) rest

theorem Ordered.snoc : ∀ {K : List Nat} {lines : List (List PLink)} {line : List PLink},
    Ordered K lines → (∃ first, line.head? = some first ∧ first.1.1 ∈ K ++ rights lines) →
    Ordered K (lines ++ [line])
  | K, [], line, _, h => by
    simpa [Ordered, rights] using h
  | K, l :: ls, line, h, h' => by
    obtain ⟨h1, h2⟩ := h
    refine ⟨h1, Ordered.snoc h2 ?_⟩
    obtain ⟨first, hf, hm⟩ := h'
    refine ⟨first, hf, ?_⟩
    simp only [rights, List.flatten_cons, List.map_append, List.mem_append] at hm ⊢
    rcases hm with hm | hm | hm
    · exact Or.inl (Or.inl hm)
    · exact Or.inl (Or.inr hm)
    · exact Or.inr hm

theorem mem_allLinks {g : PortGraph} {n : Nat} {l : PLink} (h : l ∈ g.allLinks n) :
    l.1.1 = n ∧ g.portLink l.1 = some l.2 := by
  unfold PortGraph.allLinks at h
  rw [List.mem_filterMap] at h
  obtain ⟨p, hp, hl⟩ := h
  unfold PortGraph.allPorts at hp
  obtain ⟨o, _, rfl⟩ := List.mem_map.1 hp
  cases hq : g.portLink (n, o) with
  | none => rw [hq] at hl; cases hl
  | some q =>
    rw [hq] at hl
    simp only at hl
    split at hl
    · cases hl
    · cases hl
      exact ⟨rfl, hq⟩

/-- Invariant of the inner loop (`lines`: the finished lines, `start`: the first link of the
current line). -/
structure ExtInv (g : PortGraph) (root : Nat) (lines : List (List PLink)) (start : PLink)
    (line queue : List PLink) (visN : List Nat) : Prop where
  line_ok : IsLine g line
  head : line.head? = some start
  vis : ∀ n ∈ visN, n ∈ [root] ++ rights (lines ++ [line])
  queue_ok : ∀ l ∈ queue, l.1.1 ∈ visN ∧ g.portLink l.1 = some l.2

/-- Invariant of the outer loop. -/
structure LoopInv (g : PortGraph) (root : Nat) (queue : List PLink) (visN : List Nat)
    (lines : List (List PLink)) : Prop where
  lines_ok : ∀ line ∈ lines, IsLine g line
  ordered : Ordered [root] lines
  vis : ∀ n ∈ visN, n ∈ [root] ++ rights lines
  queue_ok : ∀ l ∈ queue, l.1.1 ∈ visN ∧ g.portLink l.1 = some l.2

theorem extendLine_inv (g : PortGraph) (root : Nat) (lines : List (List PLink)) (start : PLink)
    (fuel : Nat) (line queue visL : List PLink) (visN : List Nat)
    (h : ExtInv g root lines start line queue visN) :
    ExtInv g root lines start (extendLine g fuel line queue visL visN).1
      (extendLine g fuel line queue visL visN).2.1 (extendLine g fuel line queue visL visN).2.2.2 := by
  refine extendLine_ind g (fun line queue _ visN => ExtInv g root lines start line queue visN)
    ?_ ?_ fuel line queue visL visN h
  · intro line queue visL visN last hl _ inv
    have hlast : last ∈ line := List.mem_of_getLast? hl
    refine ⟨inv.line_ok, inv.head, ?_, ?_⟩
    · intro n hn
      rcases List.mem_append.1 hn with hn | hn
      · exact inv.vis n hn
      · rw [List.mem_singleton] at hn
        subst hn
        refine List.mem_append_right _ (mem_rights.2 ⟨line, by simp, last, hlast, rfl⟩)
    · intro l hl'
      rcases List.mem_append.1 hl' with hl' | hl'
      · exact ⟨List.mem_append_left _ (inv.queue_ok l hl').1, (inv.queue_ok l hl').2⟩
      · have := mem_allLinks (List.mem_filter.1 hl').1
        exact ⟨by rw [this.1]; simp, this.2⟩
  · intro line queue visL visN last right hl _ hhead _ hr _ inv
    refine ⟨inv.line_ok.snoc hl hhead hr, ?_, ?_, inv.queue_ok⟩
    · have := inv.head
      cases line with
      | nil => cases this
      | cons x xs => simpa using this
    · intro n hn
      have := inv.vis n hn
      simp only [rights_append, List.mem_append] at this ⊢
      rcases this with h1 | h2 | h3
      · exact Or.inl h1
      · exact Or.inr (Or.inl h2)
      · refine Or.inr (Or.inr ?_)
        rw [mem_rights] at h3 ⊢
        obtain ⟨line', hline', l, hl', e⟩ := h3
        rw [List.mem_singleton] at hline'
        subst hline'
        exact ⟨_, List.mem_singleton.2 rfl, l, List.mem_append_left _ hl', e⟩

theorem linePartition_inv (g : PortGraph) (root : Nat) :
    ∃ queue visN, LoopInv g root queue visN (linePartition g root) := by
  have init : LoopInv g root (g.allLinks root) [root] [] := by
    refine ⟨by simp, trivial, by simp [rights], ?_⟩
    intro l hl
    have := mem_allLinks hl
    exact ⟨by rw [this.1]; simp, this.2⟩
  have hskip : ∀ start queue (visL : List PLink) visN lines, linkVisited visL start = true →
      LoopInv g root (start :: queue) visN lines → LoopInv g root queue visN lines := by
    intro start queue visL visN lines _ inv
    exact ⟨inv.lines_ok, inv.ordered, inv.vis,
      fun l hl => inv.queue_ok l (List.mem_cons_of_mem _ hl)⟩
  have hline : ∀ start queue (visL : List PLink) visN lines, linkVisited visL start = false →
      LoopInv g root (start :: queue) visN lines →
      LoopInv g root (extendLine g (g.links.length + 1) [start] queue (visL ++ [start]) visN).2.1
        (extendLine g (g.links.length + 1) [start] queue (visL ++ [start]) visN).2.2.2
        (lines ++ [(extendLine g (g.links.length + 1) [start] queue (visL ++ [start]) visN).1]) := by
    intro start queue visL visN lines _ inv
    have hstart := inv.queue_ok start (List.mem_cons_self ..)
    have einit : ExtInv g root lines start [start] queue visN := by
      refine ⟨IsLine.single hstart.2, rfl, ?_, fun l hl => inv.queue_ok l (List.mem_cons_of_mem _ hl)⟩
      intro n hn
      have := inv.vis n hn
      simp only [rights_append, List.mem_append] at this ⊢
      rcases this with h1 | h2
      · exact Or.inl h1
      · exact Or.inr (Or.inl h2)
    have e := extendLine_inv g root lines start (g.links.length + 1) [start] queue
      (visL ++ [start]) visN einit
    refine ⟨?_, inv.ordered.snoc ⟨start, e.head, inv.vis _ hstart.1⟩, e.vis, e.queue_ok⟩
    intro line hline
    rcases List.mem_append.1 hline with hline | hline
    · exact inv.lines_ok line hline
    · rw [List.mem_singleton] at hline
      subst hline
      exact e.line_ok
  obtain ⟨q, _, vN, h⟩ := linePartitionLoop_ind g
    (fun queue _ visN lines => LoopInv g root queue visN lines) hskip hline _ _ [] _ _ init
  exact ⟨q, vN, h⟩

theorem linePartition_isLine (g : PortGraph) (root : Nat) :
    ∀ line ∈ linePartition g root, IsLine g line := by
  obtain ⟨_, _, h⟩ := linePartition_inv g root
  exact h.lines_ok

theorem linePartition_ordered (g : PortGraph) (root : Nat) :
    Ordered [root] (linePartition g root) := by
  obtain ⟨_, _, h⟩ := linePartition_inv g root
  exact h.ordered

/-! ### `constraint_vec` never panics -/

theorem keysLine_keyed (ri : Nat) (off : POff) :
    ∀ (line : List PLink) (i : Nat) (n2k : List (Nat × PGKey)) (x : Nat),
      (x ∈ n2k.map (·.1) ∨ x ∈ line.map (·.2.1)) → x ∈ (keysLine ri off line i n2k).map (·.1)
  | [], _, _, x, h => by
    rcases h with h | h
    · exact h
    · cases h
  | l :: rest, i, n2k, x, h => by
    apply keysLine_keyed ri off rest (i + 1) _ x
    have hmono : ∀ y, y ∈ n2k.map (·.1) →
        y ∈ (if (alGet n2k l.2.1).isSome then n2k
          else n2k ++ [(l.2.1, PGKey.along ri off (i + 1))]).map (·.1) := by
      intro y hy
      split
      · exact hy
      · simp only [List.map_append, List.mem_append]; exact Or.inl hy
    rcases h with h | h
    · exact Or.inl (hmono x h)
    · rcases List.mem_cons.1 h with h | h
      · left
        subst h
        split
        · next hs => exact alGet_isSome_iff.1 hs
        · simp
      · exact Or.inr h

theorem consLine_total (ri : Nat) (off : POff) :
    ∀ (line : List PLink) (i : Nat) (n2k : List (Nat × PGKey)) (cs : List PGCons),
      (∀ (j : Nat) a b, line[j]? = some a → line[j + 1]? = some b → b.1.1 = a.2.1) →
      (∀ first, line.head? = some first → (alGet n2k first.1.1).isSome = true) →
      ∃ r, consLine ri off line i n2k cs = some r
  | [], _, _, _, _, _ => ⟨_, rfl⟩
  | l :: rest, i, n2k, cs, hch, hhead => by
    rw [consLine_cons]
    obtain ⟨lk, hlk⟩ := Option.isSome_iff_exists.1 (hhead l rfl)
    rw [hlk]
    have hch' : ∀ (j : Nat) a b, rest[j]? = some a → rest[j + 1]? = some b → b.1.1 = a.2.1 :=
      fun j a b ha hb => hch (j + 1) a b (by simpa using ha) (by simpa using hb)
    cases hrk : alGet n2k l.2.1 with
    | some k =>
      simp only
      refine consLine_total ri off rest (i + 1) n2k _ hch' ?_
      intro first hf
      have : first.1.1 = l.2.1 := hch 0 l first rfl (by
        cases rest with
        | nil => cases hf
        | cons x xs => simpa using hf)
      rw [this, hrk]; rfl
    | none =>
      simp only
      refine consLine_total ri off rest (i + 1) _ _ hch' ?_
      intro first hf
      have : first.1.1 = l.2.1 := hch 0 l first rfl (by
        cases rest with
        | nil => cases hf
        | cons x xs => simpa using hf)
      rw [this, alGet_append_of_none hrk, alGet_cons, if_pos rfl]; rfl

theorem consLine_keys (ri : Nat) (off : POff) :
    ∀ (line : List PLink) (i : Nat) (n2k : List (Nat × PGKey)) (cs : List PGCons)
      (r : List (Nat × PGKey) × List PGCons),
      consLine ri off line i n2k cs = some r → r.1 = keysLine ri off line i n2k
  | [], _, _, _, r, h => by
    rw [consLine_nil] at h; cases h; rfl
  | l :: rest, i, n2k, cs, r, h => by
    rw [consLine_cons] at h
    cases hlk : alGet n2k l.1.1 with
    | none => rw [hlk] at h; cases h
    | some lk =>
      rw [hlk] at h
      cases hrk : alGet n2k l.2.1 with
      | some k =>
        rw [hrk] at h
        simp only [keysLine, hrk, Option.isSome_some, if_true]
        exact consLine_keys ri off rest (i + 1) _ _ r h
      | none =>
        rw [hrk] at h
        simp only [keysLine, hrk, Option.isSome_none, Bool.false_eq_true, if_false]
        exact consLine_keys ri off rest (i + 1) _ _ r h

theorem consLines_total (g : PortGraph) :
    ∀ (lines : List (List PLink)) (K : List Nat) (n2k : List (Nat × PGKey))
      (n2r : List (Nat × Nat)) (cs : List PGCons),
      Ordered K lines → (∀ line ∈ lines, IsLine g line) → (∀ x ∈ K, x ∈ n2k.map (·.1)) →
      ∃ cs', consLines lines n2k n2r cs = some cs'
  | [], _, _, _, cs, _, _, _ => ⟨cs, rfl⟩
  | line :: lines, K, n2k, n2r, cs, hord, hlines, hK => by
    obtain ⟨⟨first, hf, hfK⟩, hord'⟩ := hord
    have hl : IsLine g line := hlines line (List.mem_cons_self ..)
    rw [consLines_cons, hf]
    simp only
    obtain ⟨r, hr⟩ := consLine_total (rootIdx n2r first.1.1).1 first.1.2 line 0 n2k cs
      (fun j a b ha hb => by rw [hl.chain j a b ha hb])
      (fun first' hf' => by
        rw [hf] at hf'; cases hf'
        exact alGet_isSome_iff.2 (hK _ hfK))
    rw [hr]
    simp only
    refine consLines_total g lines _ r.1 _ r.2 hord'
      (fun l hl => hlines l (List.mem_cons_of_mem _ hl)) ?_
    intro x hx
    rw [consLine_keys _ _ _ _ _ _ _ hr]
    apply keysLine_keyed
    rcases List.mem_append.1 hx with hx | hx
    · exact Or.inl (hK x hx)
    · exact Or.inr hx

theorem consLines_linePartition_total (g : PortGraph) (root : Nat) :
    ∃ cs, consLines (linePartition g root) [(root, .root 0)] [(root, 0)] [] = some cs :=
  consLines_total g _ [root] _ _ _ (linePartition_ordered g root) (linePartition_isLine g root)
    (by simp)

theorem pgConstraints_total (g : PortGraph) (root : Nat) : ∃ cs, pgConstraints g root = some cs := by
  unfold pgConstraints
  split
  · exact ⟨_, rfl⟩
  · obtain ⟨cs, h⟩ := consLines_linePartition_total g root
    rw [h]
    simp only
    split <;> exact ⟨_, rfl⟩

theorem allLinks_of_links_nil {g : PortGraph} (h : g.links = []) (n : Nat) : g.allLinks n = [] := by
  unfold PortGraph.allLinks
  rw [List.filterMap_eq_nil_iff]
  intro p _
  simp [PortGraph.portLink, h]

theorem linePartition_of_links_nil {g : PortGraph} (h : g.links = []) (root : Nat) :
    linePartition g root = [] := by
  unfold linePartition
  rw [allLinks_of_links_nil h, linePartitionLoop_nil]

/-- The three ways `constraint_vec` returns: the constraints `cs0` of the lines, or — when
there are none — one of two trivial constraints on the root. -/
theorem pgConstraints_cases {g : PortGraph} {root : Nat} {cs : List PGCons}
    (h : pgConstraints g root = some cs) :
    ∃ cs0, consLines (linePartition g root) [(root, .root 0)] [(root, 0)] [] = some cs0 ∧
      (cs = cs0 ∨ (cs0 = [] ∧
        (cs = [⟨.hasNodeWeight, [.root 0]⟩] ∨ cs = [⟨.isNotEqual 0, [.root 0]⟩]))) := by
  unfold pgConstraints at h
  split at h
  · next he =>
    have hl : g.links = [] := List.length_eq_zero_iff.1 he
    refine ⟨[], ?_, Or.inr ⟨rfl, Or.inl ?_⟩⟩
    · rw [linePartition_of_links_nil hl]; rfl
    · cases h; rfl
  · cases hc : consLines (linePartition g root) [(root, .root 0)] [(root, 0)] [] with
    | none => rw [hc] at h; cases h
    | some cs0 =>
      rw [hc] at h
      simp only at h
      refine ⟨cs0, rfl, ?_⟩
      split at h
      · next he =>
        cases h
        exact Or.inr ⟨List.isEmpty_iff.1 he, Or.inr rfl⟩
      · cases h; exact Or.inl rfl

/-! ### Small facts about the emitted constraints -/

theorem pgSigMultiRoot_false_iff (cs : List PGCons) :
    pgSigMultiRoot cs = false ↔ ∀ c ∈ cs, pgSingleRootKeys c.args = true := by
  unfold pgSigMultiRoot pgSingleRootKeys
  rw [Bool.eq_false_iff]
  simp only [ne_eq, List.any_eq_true, List.all_eq_true, not_exists, not_and]
  constructor
  · intro h c hc k hk
    have := h c hc k hk
    cases k with
    | root i =>
      cases i with
      | zero => rfl
      | succ i => simp at this
    | along r p l =>
      cases r with
      | zero => rfl
      | succ r => simp at this
  · intro h c hc k hk
    have := h c hc k hk
    cases k with
    | root i =>
      cases i with
      | zero => simp
      | succ i => simp at this
    | along r p l =>
      cases r with
      | zero => simp
      | succ r => simp at this

/-- Every constraint of the lines has as many arguments as its predicate's arity. -/
theorem consLines_arity (g : PortGraph) (root : Nat) (cs : List PGCons)
    (h : consLines (linePartition g root) [(root, .root 0)] [(root, 0)] [] = some cs) :
    ∀ c ∈ cs, c.args.length = c.pred.arity := by
  refine consLines_induct root (linePartition g root)
    (fun _ _ cs => ∀ c ∈ cs, c.args.length = c.pred.arity) ?_ ?_ _ _ _ [] [] cs
    (fun _ h => h) (RootsOK.init root) h (by simp)
  · intro line _ first ri _ _ done n2k cs j l lk _ hP _ _ c hc
    rcases List.mem_append.1 hc with hc | hc
    · exact hP c hc
    · rw [List.mem_singleton] at hc; subst hc
      simp [PGPred.arity]
  · intro line _ done n2k cs j l kl kr _ hP _ _ c hc
    rcases List.mem_append.1 hc with hc | hc
    · exact hP c hc
    · rw [List.mem_singleton] at hc; subst hc
      rfl

theorem pgConstraints_arity {g : PortGraph} {root : Nat} {cs : List PGCons}
    (h : pgConstraints g root = some cs) : ∀ c ∈ cs, c.args.length = c.pred.arity := by
  obtain ⟨cs0, h0, hc⟩ := pgConstraints_cases h
  rcases hc with rfl | ⟨-, rfl | rfl⟩
  · exact consLines_arity g root _ h0
  · intro c hc; rw [List.mem_singleton] at hc; subst hc; rfl
  · intro c hc; rw [List.mem_singleton] at hc; subst hc; rfl

/-- Structure of the final key map: the root comes first with key `root 0`, nodes are pairwise
distinct, every key occurring in a constraint is the key of a node, and every key other than
`root 0` is the first argument of an `isNotEqual` constraint. -/
theorem consLines_keys (g : PortGraph) (root : Nat) (cs : List PGCons)
    (h : consLines (linePartition g root) [(root, .root 0)] [(root, 0)] [] = some cs) :
    alGet (pgNodeKeys g root) root = some (.root 0) ∧
    ((pgNodeKeys g root).map (·.1)).Nodup ∧
    (∀ c ∈ cs, ∀ k ∈ c.args, k ∈ (pgNodeKeys g root).map (·.2)) ∧
    (∀ k ∈ (pgNodeKeys g root).map (·.2), k = .root 0 ∨ ∃ c ∈ cs, c.args.head? = some k) := by
  rw [pgNodeKeys_eq]
  refine consLines_induct root (linePartition g root)
    (fun _ n2k cs => alGet n2k root = some (.root 0) ∧ (n2k.map (·.1)).Nodup ∧
      (∀ c ∈ cs, ∀ k ∈ c.args, k ∈ n2k.map (·.2)) ∧
      (∀ k ∈ n2k.map (·.2), k = .root 0 ∨ ∃ c ∈ cs, c.args.head? = some k))
    ?_ ?_ _ _ _ [] [] cs (fun _ h => h) (RootsOK.init root) h ?_
  · intro line _ first ri _ _ done n2k cs j l lk _ hP hnone _
    obtain ⟨h1, h2, h3, h4⟩ := hP
    refine ⟨alGet_append_of_some h1 _, ?_, ?_, ?_⟩
    · rw [List.map_append, List.nodup_append]
      refine ⟨h2, by simp, ?_⟩
      intro a ha b hb e
      simp only [List.map_cons, List.map_nil, List.mem_singleton] at hb
      subst hb; subst e
      exact alGet_none_iff.1 hnone ha
    · intro c hc k hk
      simp only [List.map_append, List.mem_append]
      rcases List.mem_append.1 hc with hc | hc
      · exact Or.inl (h3 c hc k hk)
      · rw [List.mem_singleton] at hc; subst hc
        rcases List.mem_cons.1 hk with hk | hk
        · right; subst hk; simp
        · exact Or.inl hk
    · intro k hk
      simp only [List.map_append, List.mem_append] at hk
      rcases hk with hk | hk
      · rcases h4 k hk with e | ⟨c, hc, e⟩
        · exact Or.inl e
        · exact Or.inr ⟨c, List.mem_append_left _ hc, e⟩
      · simp only [List.map_cons, List.map_nil, List.mem_singleton] at hk
        subst hk
        exact Or.inr ⟨_, List.mem_append_right _ (List.mem_singleton.2 rfl), rfl⟩
  · intro line _ done n2k cs j l kl kr _ hP hkl hkr
    obtain ⟨h1, h2, h3, h4⟩ := hP
    refine ⟨h1, h2, ?_, ?_⟩
    · intro c hc k hk
      rcases List.mem_append.1 hc with hc | hc
      · exact h3 c hc k hk
      · rw [List.mem_singleton] at hc; subst hc
        simp only [List.mem_cons, List.not_mem_nil, or_false] at hk
        rcases hk with rfl | rfl
        · exact List.mem_map.2 ⟨_, alGet_mem hkl, rfl⟩
        · exact List.mem_map.2 ⟨_, alGet_mem hkr, rfl⟩
    · intro k hk
      rcases h4 k hk with e | ⟨c, hc, e⟩
      · exact Or.inl e
      · exact Or.inr ⟨c, List.mem_append_left _ hc, e⟩
  · refine ⟨by simp [alGet], by simp, by simp, ?_⟩
    intro k hk
    simp at hk
    exact Or.inl hk

end Pm.PGDom
