/-
Proofs/GraphFrames.lean — frame lemmas for the `StableGraph` model: what `node?` / `edge?` /
`weight?` look like after each operation (given the invariants `WF` and `FreeOK` of
`Proofs/TopoLemmas`).
-/
import PmVerif.Proofs.TopoLemmas
namespace Pm
namespace SGraph
variable {N E : Type}

theorem weight?_eq (g : SGraph N E) (i : Nat) : g.weight? i = (g.node? i).map (·.w) := rfl

theorem containsNode_eq (g : SGraph N E) (i : Nat) : g.containsNode i = (g.weight? i).isSome := by
  unfold containsNode weight?; cases g.node? i <;> rfl

theorem containsNode_iff_weight {g : SGraph N E} {i : Nat} :
    g.containsNode i = true ↔ ∃ w, g.weight? i = some w := by
  rw [containsNode_eq]; cases g.weight? i <;> simp

theorem containsNode_false_iff {g : SGraph N E} {i : Nat} :
    g.containsNode i = false ↔ g.node? i = none := by
  unfold containsNode; cases g.node? i <;> simp

theorem weight?_none_iff {g : SGraph N E} {i : Nat} : g.weight? i = none ↔ g.node? i = none := by
  unfold weight?; cases g.node? i <;> simp

/-! ### `addNode` -/

theorem addNode_spec {g : SGraph N E} (fo : g.FreeOK) (w : N) :
    g.node? (g.addNode w).2 = none ∧
    (∀ j, (g.addNode w).1.node? j =
      if j = (g.addNode w).2 then some ⟨w, [], []⟩ else g.node? j) ∧
    (∀ e, (g.addNode w).1.edge? e = g.edge? e) := by
  unfold addNode
  cases hf : g.freeNodes with
  | nil =>
    refine ⟨by simp [node?], fun j => ?_, fun _ => rfl⟩
    exact join_getElem?_concat g.nodes j _
  | cons i rest =>
    obtain ⟨hlt, hi⟩ := fo.node_free i (by rw [hf]; exact List.mem_cons_self)
    refine ⟨hi, fun j => ?_, fun _ => rfl⟩
    show ((g.nodes.set i _)[j]?).join = _
    rw [join_getElem?_set]
    by_cases hij : j = i
    · simp [hij, hlt]
    · simp [hij, Ne.symm hij]; rfl

/-! ### `addEdge` -/

theorem addEdge_spec {g g' : SGraph N E} (fo : g.FreeOK) {a b e : Nat} {w : E}
    (h : g.addEdge a b w = .ok (g', e)) :
    g.containsNode a = true ∧ g.containsNode b = true ∧ g.edge? e = none ∧
    (∀ e', g'.edge? e' = if e' = e then some ⟨a, b, w⟩ else g.edge? e') ∧
    (∀ j, g'.node? j = (g.node? j).map fun nd =>
      ⟨nd.w, if j = a then e :: nd.out else nd.out, if j = b then e :: nd.inc else nd.inc⟩) ∧
    (∀ x rest, g.freeEdges = x :: rest → e = x) := by
  obtain ⟨ha, hb, edges', free', hcase, rfl⟩ := addEdge_ok h
  have hev : g.edge? e = none ∧ ∀ e', (edges'[e']?).join =
      if e' = e then some ⟨a, b, w⟩ else g.edge? e' := by
    rcases hcase with ⟨hf, rfl⟩ | ⟨_, _, rfl, rfl⟩
    · obtain ⟨hlt, hv⟩ := fo.edge_free e (by rw [hf]; exact List.mem_cons_self)
      refine ⟨hv, fun e' => ?_⟩
      rw [join_getElem?_set]
      by_cases he : e' = e
      · simp [he, hlt]
      · simp [he, Ne.symm he]; rfl
    · exact ⟨by simp [edge?], fun e' => join_getElem?_concat g.edges e' _⟩
  refine ⟨ha, hb, hev.1, hev.2, ?_, ?_⟩
  · intro j
    rw [node?_modifyNode, node?_modifyNode]
    show (if b = j then Option.map _ (if a = j then Option.map _ (g.node? j) else g.node? j)
      else if a = j then Option.map _ (g.node? j) else g.node? j) = _
    cases g.node? j with
    | none => simp
    | some nd =>
      by_cases h1 : a = j <;> by_cases h2 : b = j <;> simp [h1, h2, eq_comm]
  · intro x rest hx
    rcases hcase with ⟨hf, _⟩ | ⟨hf, _⟩
    · rw [hf] at hx; cases hx; rfl
    · rw [hf] at hx; cases hx

theorem addEdge_weight? {g g' : SGraph N E} (fo : g.FreeOK) {a b e : Nat} {w : E}
    (h : g.addEdge a b w = .ok (g', e)) (j : Nat) : g'.weight? j = g.weight? j := by
  obtain ⟨_, _, _, _, hn, _⟩ := addEdge_spec fo h
  rw [weight?_eq, hn, weight?_eq]
  cases g.node? j <;> rfl

/-! ### `removeEdge`, `removeEdges` -/

theorem removeEdge_weight? {g g' : SGraph N E} {e : Nat} {ed : GEdge E}
    (h : g.removeEdge e = some (g', ed)) (j : Nat) : g'.weight? j = g.weight? j := by
  rw [weight?_eq, removeEdge_node? h, weight?_eq]
  cases g.node? j <;> rfl

theorem removeEdges_edge? : ∀ (l : List Nat) (g : SGraph N E) (x : Nat),
    (g.removeEdges l).edge? x = if x ∈ l then none else g.edge? x
  | [], g, x => by simp [removeEdges]
  | e :: es, g, x => by
    rw [removeEdges]
    split
    · rename_i h
      rw [removeEdges_edge? es g x]
      by_cases hx : x ∈ es
      · simp [hx]
      · by_cases hxe : x = e
        · subst hxe; simp [removeEdge_none h]
        · simp [hx, hxe]
    · rename_i g' ed h
      rw [removeEdges_edge? es g' x, removeEdge_edge? h]
      by_cases hx : x ∈ es
      · simp [hx]
      · by_cases hxe : x = e
        · simp [hxe]
        · simp [hx, hxe]

theorem removeEdges_weight? : ∀ (l : List Nat) (g : SGraph N E) (j : Nat),
    (g.removeEdges l).weight? j = g.weight? j
  | [], _, _ => rfl
  | e :: es, g, j => by
    rw [removeEdges]
    split
    · exact removeEdges_weight? es g j
    · rename_i g' ed h
      rw [removeEdges_weight? es g' j, removeEdge_weight? h]

/-! ### `removeNode` -/

theorem removeNode_weight? (g : SGraph N E) (a j : Nat) :
    (g.removeNode a).weight? j = if j = a then none else g.weight? j := by
  cases h : g.node? a with
  | none =>
    rw [removeNode_none h]
    by_cases hj : j = a
    · subst hj; simp [weight?_eq, h]
    · simp [hj]
  | some nd =>
    obtain ⟨nd1, h1⟩ := (removeEdges_shrinks nd.out g).node_some a nd h
    obtain ⟨nd2, h2⟩ := (removeEdges_shrinks nd1.inc (g.removeEdges nd.out)).node_some a nd1 h1
    rw [removeNode_some h h1]
    have hlt : a < ((g.removeEdges nd.out).removeEdges nd1.inc).nodes.length :=
      join_getElem?_lt h2
    show (((((g.removeEdges nd.out).removeEdges nd1.inc).nodes.set a none)[j]?).join).map _ = _
    rw [join_getElem?_set]
    by_cases hj : j = a
    · simp [hj, hlt]
    · simp only [hj, Ne.symm hj, false_and, if_false]
      exact (removeEdges_weight? nd1.inc _ j).trans (removeEdges_weight? nd.out g j)

theorem removeNode_edge? {g : SGraph N E} (wf : g.WF) (a x : Nat) (ed : GEdge E) :
    (g.removeNode a).edge? x = some ed ↔ g.edge? x = some ed ∧ ed.src ≠ a ∧ ed.dst ≠ a := by
  cases h : g.node? a with
  | none =>
    rw [removeNode_none h]
    constructor
    · intro hx
      refine ⟨hx, fun hs => ?_, fun hd => ?_⟩
      · obtain ⟨nd, hnd, _⟩ := wf.edge_src x ed hx
        rw [hs, h] at hnd; cases hnd
      · obtain ⟨nd, hnd, _⟩ := wf.edge_dst x ed hx
        rw [hd, h] at hnd; cases hnd
    · exact fun hx => hx.1
  | some nd =>
    obtain ⟨nd1, h1⟩ := (removeEdges_shrinks nd.out g).node_some a nd h
    rw [removeNode_some h h1]
    show (((g.removeEdges nd.out).removeEdges nd1.inc).edge? x) = some ed ↔ _
    rw [removeEdges_edge?, removeEdges_edge?]
    have wf1 := wf_removeEdges nd.out wf
    constructor
    · intro hx
      by_cases hx1 : x ∈ nd1.inc
      · simp [hx1] at hx
      · by_cases hx2 : x ∈ nd.out
        · simp [hx1, hx2] at hx
        · simp only [hx1, hx2, if_false] at hx
          refine ⟨hx, fun hs => ?_, fun hd => ?_⟩
          · obtain ⟨nd', hnd', hm⟩ := wf.edge_src x ed hx
            rw [hs, h] at hnd'; cases hnd'
            exact hx2 hm
          · have hx' : (g.removeEdges nd.out).edge? x = some ed := by
              rw [removeEdges_edge?]; simp [hx2, hx]
            obtain ⟨nd', hnd', hm⟩ := wf1.edge_dst x ed hx'
            rw [hd, h1] at hnd'; cases hnd'
            exact hx1 hm
    · rintro ⟨hx, hs, hd⟩
      have hx2 : x ∉ nd.out := fun hm => by
        obtain ⟨ed', hed', hsrc⟩ := wf.out_edge a nd h x hm
        rw [hx] at hed'; cases hed'; exact hs hsrc
      have hx1 : x ∉ nd1.inc := fun hm => by
        obtain ⟨ed', hed', hdst⟩ := wf1.inc_edge a nd1 h1 x hm
        rw [removeEdges_edge?] at hed'
        simp only [hx2, if_false] at hed'
        rw [hx] at hed'; cases hed'; exact hd hdst
      simp [hx1, hx2, hx]

theorem removeNode_edge?_none {g : SGraph N E} (wf : g.WF) (a x : Nat)
    (h : g.edge? x = none) : (g.removeNode a).edge? x = none := by
  cases h' : (g.removeNode a).edge? x with
  | none => rfl
  | some ed => rw [((removeNode_edge? wf a x ed).1 h').1] at h; cases h

/-! ### `setWeight` -/

theorem setWeight_node? (g : SGraph N E) (i : Nat) (f : N → N) (j : Nat) :
    (g.setWeight i f).node? j =
      if i = j then (g.node? j).map (fun nd => { nd with w := f nd.w }) else g.node? j :=
  node?_modifyNode g i _ j

theorem setWeight_weight? (g : SGraph N E) (i : Nat) (f : N → N) (j : Nat) :
    (g.setWeight i f).weight? j = if i = j then (g.weight? j).map f else g.weight? j := by
  rw [weight?_eq, setWeight_node?, weight?_eq]
  by_cases h : i = j
  · simp only [h, if_true]; cases g.node? j <;> rfl
  · simp [h]

@[simp] theorem setWeight_edge? (g : SGraph N E) (i : Nat) (f : N → N) (e : Nat) :
    (g.setWeight i f).edge? e = g.edge? e := rfl

@[simp] theorem setWeight_freeEdges (g : SGraph N E) (i : Nat) (f : N → N) :
    (g.setWeight i f).freeEdges = g.freeEdges := rfl

@[simp] theorem setWeight_freeNodes (g : SGraph N E) (i : Nat) (f : N → N) :
    (g.setWeight i f).freeNodes = g.freeNodes := rfl

/-- Well-formedness only looks at the adjacency lists. -/
theorem WF.of_adj {g g' : SGraph N E} (wf : g.WF)
    (hn : ∀ j, (g'.node? j).map (fun nd => (nd.out, nd.inc)) =
      (g.node? j).map (fun nd => (nd.out, nd.inc)))
    (he : ∀ e, g'.edge? e = g.edge? e) : g'.WF := by
  have key : ∀ j nd', g'.node? j = some nd' →
      ∃ nd, g.node? j = some nd ∧ nd.out = nd'.out ∧ nd.inc = nd'.inc := by
    intro j nd' h
    have := hn j
    rw [h] at this
    cases hj : g.node? j with
    | none => rw [hj] at this; cases this
    | some nd =>
      rw [hj] at this
      simp only [Option.map_some, Option.some.injEq, Prod.mk.injEq] at this
      exact ⟨nd, rfl, this.1.symm, this.2.symm⟩
  have key' : ∀ j nd, g.node? j = some nd →
      ∃ nd', g'.node? j = some nd' ∧ nd.out = nd'.out ∧ nd.inc = nd'.inc := by
    intro j nd h
    have := hn j
    rw [h] at this
    cases hj : g'.node? j with
    | none => rw [hj] at this; cases this
    | some nd' =>
      rw [hj] at this
      simp only [Option.map_some, Option.some.injEq, Prod.mk.injEq] at this
      exact ⟨nd', rfl, this.1.symm, this.2.symm⟩
  constructor
  · intro e ed h
    rw [he] at h
    obtain ⟨nd, hnd, hm⟩ := wf.edge_src e ed h
    obtain ⟨nd', hnd', ho, _⟩ := key' _ nd hnd
    exact ⟨nd', hnd', ho ▸ hm⟩
  · intro e ed h
    rw [he] at h
    obtain ⟨nd, hnd, hm⟩ := wf.edge_dst e ed h
    obtain ⟨nd', hnd', _, hi⟩ := key' _ nd hnd
    exact ⟨nd', hnd', hi ▸ hm⟩
  · intro a nd' h e hm
    obtain ⟨nd, hnd, ho, _⟩ := key a nd' h
    rw [he]; exact wf.out_edge a nd hnd e (ho ▸ hm)
  · intro a nd' h e hm
    obtain ⟨nd, hnd, _, hi⟩ := key a nd' h
    rw [he]; exact wf.inc_edge a nd hnd e (hi ▸ hm)
  · intro a nd' h
    obtain ⟨nd, hnd, ho, _⟩ := key a nd' h
    exact ho ▸ wf.out_nodup a nd hnd
  · intro a nd' h
    obtain ⟨nd, hnd, _, hi⟩ := key a nd' h
    exact hi ▸ wf.inc_nodup a nd hnd

theorem wf_setWeight {g : SGraph N E} (wf : g.WF) (i : Nat) (f : N → N) :
    (g.setWeight i f).WF := by
  refine wf.of_adj (fun j => ?_) (fun _ => rfl)
  rw [setWeight_node?]
  by_cases h : i = j
  · simp only [h, if_true]; cases g.node? j <;> rfl
  · simp [h]

theorem freeOK_setWeight {g : SGraph N E} (fo : g.FreeOK) (i : Nat) (f : N → N) :
    (g.setWeight i f).FreeOK := by
  refine ⟨fun j hj => ?_, fo.edge_free, fo.node_nodup, fo.edge_nodup⟩
  obtain ⟨hlt, hv⟩ := fo.node_free j hj
  refine ⟨by simpa [setWeight, modifyNode] using hlt, ?_⟩
  rw [setWeight_node?, hv]; simp

/-! ### incoming edges -/

theorem mem_inEdges {g : SGraph N E} (wf : g.WF) {s t p : Nat} :
    (t, p) ∈ g.inEdges s ↔ ∃ ed, g.edge? t = some ed ∧ ed.dst = s ∧ ed.src = p := by
  unfold inEdges
  cases h : g.node? s with
  | none =>
    simp only [List.not_mem_nil, false_iff]
    rintro ⟨ed, hed, hd, _⟩
    obtain ⟨nd, hnd, _⟩ := wf.edge_dst t ed hed
    rw [hd, h] at hnd; cases hnd
  | some nd =>
    simp only [List.mem_filterMap]
    constructor
    · rintro ⟨e, he, hm⟩
      obtain ⟨ed, hed, hdst⟩ := wf.inc_edge s nd h e he
      rw [hed] at hm
      simp only [Option.map_some, Option.some.injEq, Prod.mk.injEq] at hm
      obtain ⟨rfl, rfl⟩ := hm
      exact ⟨ed, hed, hdst, rfl⟩
    · rintro ⟨ed, hed, hd, hs⟩
      obtain ⟨nd', hnd', hm⟩ := wf.edge_dst t ed hed
      rw [hd, h] at hnd'; cases hnd'
      exact ⟨t, hm, by rw [hed]; simp [hs]⟩

end SGraph
end Pm
