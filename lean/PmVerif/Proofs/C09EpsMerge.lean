/-
Proofs/C09EpsMerge.lean — C09 clause (c): `try_merge_new_nodes` (`doMerge`, `mergesLoggedT`)
preserves "at most one epsilon transition per state" (`E1All`, Proofs/C09EpsCore.lean), for every
log: `move_incoming(first, n)` removes a transition `src → n` and appends `src → first` with the
same constraint (the epsilon count of `src` does not grow; a transition leaving `first` itself is
dropped), and `remove_state(n)` only removes transitions.
Everything lives in `namespace Pm.C09E`.
-/
import PmVerif.Proofs.C09EpsCore
import PmVerif.Proofs.BuildMerge
import PmVerif.Proofs.C08BuildT
namespace Pm
namespace C09E
open Automaton
variable {K P : Type}

/-- Fewer transitions: `E1All` is inherited. -/
theorem e1All_of_sub {a a' : Automaton K P} (E : E1All a)
    (h : ∀ t e, a'.g.edge? t = some e → a.g.edge? t = some e) : E1All a' :=
  fun x t1 t2 e1 e2 h1 h2 => E x t1 t2 e1 e2 (h t1 e1 h1) (h t2 e2 h2)

/-- One step of `move_incoming`: remove `t : src → n`, append `src → s` with its constraint. -/
theorem e1All_move {a a1 a2 : Automaton K P} {t s : Nat} {ed : GEdge (Option (Constraint K P))}
    (E : E1All a) (sp : RemoveSpec a a1 t ed) (happ : a1.appendEdge ed.src s ed.w = .ok a2) :
    Inv a2 ∧ E1All a2 := by
  have hsub1 : ∀ u f, a1.g.edge? u = some f → u ≠ t ∧ a.g.edge? u = some f := by
    intro u f hf
    rw [sp.edge] at hf
    split at hf
    · cases hf
    · exact ⟨‹_›, hf⟩
  have E1' : E1All a1 := e1All_of_sub E fun u f hf => (hsub1 u f hf).2
  by_cases hne : ed.src = s
  · rw [hne, appendEdge_self] at happ
    cases happ
    exact ⟨sp.inv, E1'⟩
  · obtain ⟨e', ap⟩ := appendEdge_spec sp.inv hne happ
    refine ⟨ap.inv, fun x => ?_⟩
    have hcl : ∀ u f, a2.g.edge? u = some f → f.src = x → f.w = none →
        (u = e' ∧ ed.src = x ∧ ed.w = none) ∨ (u ≠ e' ∧ u ≠ t ∧ a.g.edge? u = some f) := by
      intro u f hf hsrc hn
      rw [ap.edge] at hf
      split at hf
      · rename_i hu
        cases hf
        exact .inl ⟨hu, hsrc, hn⟩
      · rename_i hu
        obtain ⟨h1, h2⟩ := hsub1 u f hf
        exact .inr ⟨hu, h1, h2⟩
    intro t1 t2 e1 e2 h1 h2 hs1 hs2 hn1 hn2
    rcases hcl t1 e1 h1 hs1 hn1 with ⟨r1, hx1, hw1⟩ | ⟨_, ht1, ho1⟩
    · rcases hcl t2 e2 h2 hs2 hn2 with ⟨r2, _, _⟩ | ⟨_, ht2, ho2⟩
      · exact r1.trans r2.symm
      · exact absurd (E x t t2 ed e2 sp.live ho2 hx1 hs2 hw1 hn2).symm ht2
    · rcases hcl t2 e2 h2 hs2 hn2 with ⟨_, hx2, hw2⟩ | ⟨_, _, ho2⟩
      · exact absurd (E x t t1 ed e1 sp.live ho1 hx2 hs1 hw2 hn1).symm ht1
      · exact E x t1 t2 e1 e2 ho1 ho2 hs1 hs2 hn1 hn2

theorem moveIncomingLoop_e1 {s : Nat} : ∀ (ts : List Nat) {a a' : Automaton K P}, Inv a →
    E1All a → a.moveIncomingLoop s ts = .ok a' → Inv a' ∧ E1All a'
  | [], a, a', inv, E, h => by
    unfold moveIncomingLoop at h; cases h; exact ⟨inv, E⟩
  | t :: ts, a, a', inv, E, h => by
    unfold moveIncomingLoop at h
    split at h
    · cases h
    · rename_i src hpar
      obtain ⟨ed, hed, hsrc⟩ := parent_ok_iff.1 hpar
      split at h
      · cases h
      · rename_i a1 c hrem
        obtain ⟨ed', rfl, sp⟩ := removeTransition_spec inv hrem
        have : ed' = ed := by
          have := sp.live; rw [hed] at this; cases this; rfl
        subst this
        split at h
        · cases h
        · rename_i a2 happ
          rw [← hsrc] at happ
          obtain ⟨inv2, E2⟩ := e1All_move E sp happ
          exact moveIncomingLoop_e1 ts inv2 E2 h

section Merge
variable [DecidableEq K] [DecidableEq P]
set_option linter.unusedSectionVars false

theorem mergeLoop_e1 {first : Nat} :
    ∀ (rest : List Nat) {a a' : Automaton K P}, Inv a → (first :: rest).Nodup →
    (∀ m ∈ rest, Twin a first m) → E1All a →
    a.mergeLoop first rest = .ok a' → E1All a'
  | [], a, a', _, _, _, E, h => by
    unfold mergeLoop at h; cases h; exact E
  | n :: ns, a, a', inv, hnd, htw, E, h => by
    unfold mergeLoop at h
    split at h
    · cases h
    · rename_i a1 hmv
      have tw : Twin a first n := htw n List.mem_cons_self
      rw [List.nodup_cons] at hnd
      obtain ⟨hfn, hnd'⟩ := hnd
      rw [List.nodup_cons] at hnd'
      have hne : first ≠ n := fun hx => hfn (hx ▸ List.mem_cons_self)
      have f := fold_of_merge inv hne (tw.no_edge inv) hmv
      have hmv' := hmv
      unfold moveIncoming at hmv'
      obtain ⟨inv1, E1'⟩ := moveIncomingLoop_e1 _ inv E hmv'
      have E2 : E1All (a1.removeState n) := e1All_of_sub E1' fun t e he =>
        ((SGraph.removeNode_edge? inv1.wf n t e).1 he).1
      refine mergeLoop_e1 ns f.inv ?_ ?_ E2 h
      · exact List.nodup_cons.2 ⟨fun hm => hfn (List.mem_cons_of_mem _ hm), hnd'.2⟩
      · intro m hm
        have hmn : m ≠ n := fun hx => hnd'.1 (hx ▸ hm)
        exact f.twin inv hne hmn tw (htw m (List.mem_cons_of_mem _ hm))

theorem doMerge_e1 {a a' : Automaton K P} {node : Nat} {nodes : List Nat} (inv : Inv a)
    (E : E1All a) (h : a.doMerge node nodes = .ok a') : E1All a' := by
  unfold doMerge at h
  split at h
  · cases h; exact E
  · cases h; exact E
  · rename_i first rest _
    split at h
    · cases h
    · split at h
      · cases h
      · rename_i hnd
        split at h
        · cases h
        · rename_i same hsame
          split at h
          · cases h
          · rename_i hall
            split at h
            · cases h
            · split at h
              · cases h
              · have hnd' : (first :: rest).Nodup := by
                  cases hd : decide (first :: rest).Nodup
                  · rw [hd] at hnd; exact absurd rfl hnd
                  · exact of_decide_eq_true hd
                have hall' : ∀ y ∈ same, y = true := by
                  cases hd : same.all id
                  · rw [hd] at hall; exact absurd rfl hall
                  · intro y hy
                    exact List.all_eq_true.1 hd y hy
                have htw : ∀ n ∈ first :: rest, Twin a node n := by
                  intro n hn
                  obtain ⟨y, hy, hf⟩ := mapR_mem_in hsame n hn
                  rw [hall' y hy] at hf
                  exact sameTuple_twin inv hf
                have hfirst := htw first List.mem_cons_self
                refine mergeLoop_e1 rest inv hnd' ?_ E h
                intro m hm
                exact hfirst.symm.trans (htw m (List.mem_cons_of_mem _ hm))

theorem mergesLogged_e1 : ∀ (evs : List Ev) {a a' : Automaton K P} {evs' : List Ev}, Inv a →
    E1All a → a.mergesLogged evs = .ok (a', evs') → Inv a' ∧ E1All a' := by
  intro evs
  induction evs with
  | nil =>
    intro a a' evs' inv E h
    unfold mergesLogged at h
    cases h
    exact ⟨inv, E⟩
  | cons ev evs0 ih =>
    intro a a' evs' inv E h
    cases ev with
    | merge n nodes =>
      unfold mergesLogged at h
      split at h
      · cases h
      · rename_i a1 hdm
        have s1 : MergeStep (fun _ => true) a a1 := doMerge_spec inv hdm
        exact ih s1.inv (doMerge_e1 inv E hdm) h
    | _ =>
      unfold mergesLogged at h
      cases h
      exact ⟨inv, E⟩

/-- **The merges of an iteration preserve `E1All`** (disciplined replay). -/
theorem mergesLoggedT_e1 {evs : List Ev} {a a' : Automaton K P} {evs' : List Ev} (inv : Inv a)
    (E : E1All a) (h : a.mergesLoggedT evs = .ok (a', evs')) : Inv a' ∧ E1All a' :=
  mergesLogged_e1 evs inv E (C08.mergesLogged_of_T evs h)

end Merge

end C09E
end Pm
