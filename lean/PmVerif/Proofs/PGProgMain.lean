/-
Proofs/PGProgMain.lean — `stateOK_build`: EVERY successful guarded build of single-root
port-graph constraint vectors (arity-correct, single-root keys, no one-key `isNotEqual`; no extra
required keys) satisfies, at every live state, the conditions `AnchG.StateOK` the anchored
traversal theorem T-RUN-ANCH-PG needs; the decidable per-program check `pgProgramOK` is thus a
theorem of the builder as far as the traversal theorem is concerned.

Assembly: the step-level invariant `StrProg.SP` through the build under the conditional tree
hypothesis (`sp_buildC`, Proofs/PGProgDefs.lean) with `Q := CQ` and
`E pid := css[pid]? = some (some [])`, the decomposition `pgTree` (`treeHypC_pgTree`), the recorded
key lists (`pgKeys_build`), the scopes computed by `populate_scopes` (`populateScopes_shPOn`,
`c09_populateScopes_scopeCovers`). Everything lives in `namespace Pm.PGProg`.
-/
import PmVerif.Proofs.PGProgTree
import PmVerif.Proofs.PGProgKeys
import PmVerif.Proofs.PGProgScopes
import PmVerif.Props.C09
import PmVerif.Props.C09Built
namespace Pm
namespace PGProg
open Automaton AnchG MatProg

/-! ### shape of `pgPatternKeys` -/

theorem shP_foldl_keyStep : ∀ (cs : List PGCons) (keys : List PGKey),
    (∀ c ∈ cs, ∀ k ∈ c.args, SR k) → ShP (.root 0) SR keys →
    ShP (.root 0) SR (cs.foldl keyStep keys)
  | [], keys, _, h => h
  | c :: cs, keys, hsr, h => by
    rw [List.foldl_cons]
    apply shP_foldl_keyStep cs _ (fun c' hc' => hsr c' (List.mem_cons_of_mem _ hc'))
    obtain ⟨more, hm⟩ := pgAllMissing_64 c.args keys (hsr c List.mem_cons_self)
    have : keyStep keys c = keys ++ more := by
      unfold keyStep
      rw [hm]; rfl
    rw [this]
    exact shP_append_allMissingOn pgReq_starOn h (hsr c List.mem_cons_self) hm

/-- The key list recorded for a single-root constraint vector is empty or starts with the root
key, which does not occur again, and consists of single-root keys. -/
theorem shP_pgPatternKeys (cs : List PGCons) (hsr : ∀ c ∈ cs, ∀ k ∈ c.args, SR k) :
    ShP (.root 0) SR (pgPatternKeys cs) := by
  rw [pgPatternKeys_foldl]
  exact shP_foldl_keyStep cs [] hsr shP_nil

/-- The key list recorded for a non-empty vector of `CQ` constraints is non-empty. -/
theorem pgPatternKeys_ne_nil {cs : List PGCons} (hne : cs ≠ []) (hq : ∀ c ∈ cs, CQ c) :
    pgPatternKeys cs ≠ [] := by
  cases cs with
  | nil => exact absurd rfl hne
  | cons c rest =>
    have hc := hq c List.mem_cons_self
    unfold pgPatternKeys
    rw [List.foldl_cons]
    obtain ⟨more, hm⟩ := patternKeys_foldl_prefix rest
      ([] ++ (allMissingBindings pgReq c.args [] 64).getD [])
    rw [hm]
    intro e
    have h1 := (List.append_eq_nil_iff.mp e).1
    rw [List.nil_append] at h1
    cases hargs : c.args with
    | nil => exact hc.args_ne hargs
    | cons k ks =>
      rw [hargs] at h1
      exact allMissing_sr_ne k ks (fun k' hk' => hc.sr k' (hargs ▸ hk')) h1

/-! ### the main theorem -/

/-- **Every built single-root port-graph automaton is an OK program**: whatever the event log
(heuristic answers, hash orders) and the fuels, if the guarded build of inputs whose constraints
all satisfy `CQ`, without extra required keys and listed by id in `css`, succeeds, every live
state of the automaton satisfies the per-state conditions of the anchored traversal theorem. -/
theorem stateOK_build (inputs : List (Nat × List PGCons × List PGKey)) (evs : List Ev)
    (fuel fuelT : Nat) (A : Automaton PGKey PGPred) (css : List (Option (List PGCons)))
    (hb : build (fun cs => pgTree cs fuelT) pgReq fuel inputs evs = .ok A)
    (hq : ∀ p ∈ inputs, ∀ c ∈ p.2.1, CQ c)
    (hextra : ∀ p ∈ inputs, p.2.2 = [])
    (hcss : ∀ p ∈ inputs, css[p.1]? = some (some p.2.1)) :
    ∀ s w, A.g.weight? s = some w → StateOK A css s w := by
  have hT := treeOK_sigma' ⟨[], []⟩ 0 fuelT
  -- recorded key lists
  have hkeys : c09b_MFrom (KeysOf css) A :=
    pgKeys_build css (fun x hx => ⟨hcss x hx, hextra x hx, fun c hc => (hq x hx c hc).sr⟩) hb
  have hids := c09_built_matches_only_patterns (fun cs => pgTree cs fuelT) pgReq pgReq_acyclic fuel
    inputs evs A _ hT hb
  -- every recorded pair belongs to an input
  have hrec : ∀ s w, A.g.weight? s = some w → ∀ m ∈ w.matches_,
      ∃ cs, css[m.1]? = some (some cs) ∧ m.2 = pgPatternKeys cs ∧ ∀ c ∈ cs, CQ c := by
    intro s w hw m hm
    obtain ⟨cs, hcs, hk⟩ := hkeys s w hw m hm
    obtain ⟨x, hx, hx1⟩ := List.mem_map.1 (hids s w hw m hm)
    have := hcss x hx
    rw [hx1, hcs] at this
    simp only [Option.some.injEq] at this
    subst this
    exact ⟨_, hcs, hk, hq x hx⟩
  -- the step-level invariant of the build
  obtain ⟨a2, hps, inv2, rs2, sp2⟩ :=
    sp_buildC (E := fun pid => css[pid]? = some (some [])) (Q := CQ) hT (treeHypC_pgTree fuelT) hb
      (by
        intro p hp
        refine ⟨hq p hp, fun hE => ?_⟩
        have hE' : css[p.1]? = some (some []) := hE
        rw [hcss p hp] at hE'
        simpa using hE')
  have hsame := populateScopes_sameButScope hps
  have hcov := c09_populateScopes_scopeCovers pgReq_acyclic hps
  -- recorded key lists of `a2` contain the root key
  have hk2 : ∀ s w, a2.g.weight? s = some w → ∀ m ∈ w.matches_, m.2 ≠ [] → PGKey.root 0 ∈ m.2 := by
    intro s w2 hw2 m hm hne
    obtain ⟨w, hw, he⟩ := hsame.weight?_symm hw2
    have hm' : m ∈ w.matches_ := by rw [he]; exact hm
    obtain ⟨cs, _, hmk, hcq⟩ := hrec s w hw m hm'
    exact sh_mem_start (hmk ▸ (shP_pgPatternKeys cs fun c hc => (hcq c hc).sr).1) hne
  have hshape := populateScopes_shPOn pgReq_starOn hps
    (fun t e c he hw => (sp2.efrom t e c he hw).sr) hk2
  intro s w hw
  obtain ⟨w2, hw2, he⟩ := hsame.weight? hw
  have hco : w.corder = w2.corder := by rw [he]
  have heo : w.eorder = w2.eorder := by rw [he]
  have hma : w.matches_ = w2.matches_ := by rw [he]
  -- clause (con)
  have hcon : ∀ t ∈ w.corder, ∃ e c, A.g.edge? t = some e ∧ e.w = some c ∧
      c.args.length = c.pred.arity ∧ ∀ k ∈ c.args, k ∈ w.scope := by
    intro t ht
    obtain ⟨e, he2, _, hsome⟩ := inv2.ok.corder_edge s w2 hw2 t (hco ▸ ht)
    obtain ⟨c, hc⟩ := Option.isSome_iff_exists.1 hsome
    have heA : A.g.edge? t = some e := by rw [hsame.edge?]; exact he2
    exact ⟨e, c, heA, hc, (sp2.efrom t e c he2 hc).arity, hcov s w hw t ht e c heA hc⟩
  refine ⟨hcon, ?_, anchSh_of_shP (hshape s w hw), ?_⟩
  · -- clause (scope_ne)
    intro hor
    have hcne : w.corder ≠ [] := by
      rcases hor with h | h
      · exact h
      · obtain ⟨t, ht⟩ := List.exists_mem_of_ne_nil _ h
        obtain ⟨e, he2, hsrc, hnone⟩ := inv2.ok.eorder_edge s w2 hw2 t (heo ▸ ht)
        have hn : e.w = none := Option.isNone_iff_eq_none.1 hnone
        obtain ⟨t', e', he', hs', hw'⟩ := sp2.noEps t e he2 hn
        have : t' ∈ w2.corder := (mem_corder_iff inv2.ok hw2).2 ⟨e', he', hs'.trans hsrc, hw'⟩
        rw [hco]
        exact List.ne_nil_of_mem this
    obtain ⟨t, ht⟩ := List.exists_mem_of_ne_nil _ hcne
    obtain ⟨e, c, _, _, har, hsc⟩ := hcon t ht
    have hpos' : 0 < c.args.length := by rw [har]; exact pgArity_pos _
    obtain ⟨k, hk⟩ := List.exists_mem_of_ne_nil _ (List.ne_nil_of_length_pos hpos')
    exact List.ne_nil_of_mem (hsc k hk)
  · -- clause (matches_)
    intro pid ks hm
    obtain ⟨cs, hcs, hks, hcq⟩ := hrec s w hw (pid, ks) hm
    simp only at hcs hks
    refine ⟨hks ▸ anchSh_of_shP (shP_pgPatternKeys cs fun c hc => (hcq c hc).sr), ?_, cs, hcs, hks⟩
    by_cases hnil : ks = []
    · left
      have hcnil : cs = [] := by
        refine Classical.byContradiction fun hcne => ?_
        exact pgPatternKeys_ne_nil hcne hcq (hks ▸ hnil)
      subst hcnil
      have hid : a2.Ids s pid :=
        ⟨w2, hw2, List.mem_map.2 ⟨(pid, ks), hma ▸ hm, rfl⟩⟩
      rw [hsame.root]
      exact sp2.emp s pid hid hcs
    · exact .inr hnil

end PGProg
end Pm
