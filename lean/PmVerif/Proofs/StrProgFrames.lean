/-
Proofs/StrProgFrames.lean — the step-level invariant `SP` (Proofs/StrProgDefs.lean) through the
whole builder: `add_pattern` (all edges carry pattern constraints, the empty pattern is recorded
at the root), one iteration of the main loop (from the per-step lemmas of `StrProgFuse`,
`StrProgTreeStep`, `StrProgDet`, `StrProgMerge`, next to T-BUILD's invariant `Good`), the main loop
and `build`. Everything lives in `namespace Pm.StrProg`.
-/
import PmVerif.Proofs.StrProgFuse
import PmVerif.Proofs.StrProgTreeStep
import PmVerif.Proofs.StrProgDet
import PmVerif.Proofs.StrProgMerge
import PmVerif.Props.TBuild
import PmVerif.Proofs.WFLemmas
namespace Pm
namespace StrProg
open Automaton
variable {K P : Type} [DecidableEq K] [DecidableEq P]
set_option linter.unusedSectionVars false

variable {E : Nat → Prop} {Q : Constraint K P → Prop}

/-! ### `add_pattern` -/

/-- The invariant of `addPatterns`: every live edge carries a constraint satisfying `Q`, and ids
satisfying `E` are recorded at the root only. -/
structure SP0 (E : Nat → Prop) (Q : Constraint K P → Prop) (a : Automaton K P) : Prop where
  allQ : ∀ t e, a.g.edge? t = some e → ∃ c, e.w = some c ∧ Q c
  emp : ∀ x pid, a.Ids x pid → E pid → x = a.root

theorem SP0.sp {a : Automaton K P} (h : SP0 E Q a) : SP E Q a where
  efrom t e c he hc := by
    obtain ⟨c', hc', hq⟩ := h.allQ t e he
    rw [hc] at hc'; cases hc'; exact hq
  emp := h.emp
  noEps t e he hn := by
    obtain ⟨c', hc', _⟩ := h.allQ t e he
    rw [hn] at hc'; cases hc'

theorem sp0_addTransition {a a' : Automaton K P} {p ch e : Nat} {c : Constraint K P}
    (sp : AddTransitionSpec a a' p ch (some c) e) (hq : Q c) (h : SP0 E Q a) : SP0 E Q a' := by
  refine ⟨?_, ?_⟩
  · intro t ed he
    rw [sp.edge] at he
    split at he
    · cases he; exact ⟨c, rfl, hq⟩
    · exact h.allQ t ed he
  · intro x pid hi hE
    rw [sp.root]
    obtain ⟨w', hw', hp⟩ := hi
    rw [sp.wt] at hw'
    split at hw'
    · cases hw'; cases hp
    · split at hw'
      · rename_i hxp
        cases hwp : a.g.weight? p with
        | none => rw [hwp] at hw'; cases hw'
        | some w =>
          rw [hwp] at hw'
          cases hw'
          rw [addOrder_matches] at hp
          exact h.emp x pid ⟨w, hxp ▸ hwp, hp⟩ hE
      · exact h.emp x pid ⟨w', hw', hp⟩ hE

theorem sp0_addPatternLoop {req : K → List K} {fuel : Nat} :
    ∀ (cs : List (Constraint K P)) {a a' : Automaton K P} {s s' : Nat} {keys keys' : List K},
      Inv a → a.Live s → SP0 E Q a → (∀ c ∈ cs, Q c) →
      addPatternLoop req fuel a s keys cs = .ok (a', s', keys') →
      Inv a' ∧ a'.Live s' ∧ a'.root = a.root ∧ (∀ x, a.Live x → a'.Live x) ∧ SP0 E Q a' ∧
        (cs = [] → s' = s)
  | [], a, a', s, s', keys, keys', inv, hs, h0, _, h => by
    unfold addPatternLoop at h
    cases h
    exact ⟨inv, hs, rfl, fun _ hx => hx, h0, fun _ => rfl⟩
  | c :: cs, a, a', s, s', keys, keys', inv, hs, h0, hq, h => by
    unfold addPatternLoop at h
    split at h
    · cases h
    · split at h
      · cases h
      · rename_i more _ a2 s2 hadd
        obtain ⟨e, sp⟩ := addTransition_spec inv hs hadd
        have h2 := sp0_addTransition sp (hq c List.mem_cons_self) h0
        obtain ⟨inv', hl', hr', hlive', h', _⟩ := sp0_addPatternLoop cs sp.inv sp.live_child h2
          (fun c' hc' => hq c' (List.mem_cons_of_mem _ hc')) h
        exact ⟨inv', hl', hr'.trans sp.root, fun x hx => hlive' x (sp.live_of_live hx), h',
          fun hc => by cases hc⟩

theorem sp0_addPattern {req : K → List K} {fuel : Nat} {a a' : Automaton K P}
    {cs : List (Constraint K P)} {pid : Nat} {extra : List K}
    (inv : Inv a) (hroot : a.Live a.root) (h0 : SP0 E Q a) (hq : ∀ c ∈ cs, Q c)
    (hE : E pid → cs = []) (h : addPattern req fuel a cs pid extra = .ok a') :
    Inv a' ∧ a'.Live a'.root ∧ SP0 E Q a' := by
  unfold addPattern at h
  split at h
  · cases h
  · split at h
    · cases h
    · rename_i a1 s1 keys1 hloop
      obtain ⟨inv1, hl1, hr1, hlive1, h1, hs1⟩ := sp0_addPatternLoop cs inv hroot h0 hq hloop
      have sp := addMatch_spec inv1 h
      refine ⟨sp.inv, ?_, ?_, ?_⟩
      · rw [sp.root, hr1]
        exact sp.live_of_live (hlive1 _ hroot)
      · intro t e he
        rw [sp.edge] at he
        exact h1.allQ t e he
      · intro x pid' hi hE'
        rw [sp.root]
        by_cases hx : x = s1
        · subst hx
          obtain ⟨w0, w1, hw0, hw1, _, _, _, hids⟩ := sp.wt
          obtain ⟨w', hw', hp⟩ := hi
          rw [hw1] at hw'; cases hw'
          rcases (hids pid').1 hp with hold | rfl
          · exact h1.emp x pid' ⟨w0, hw0, hold⟩ hE'
          · rw [hs1 (hE hE'), hr1]
        · obtain ⟨w', hw', hp⟩ := hi
          rw [sp.wt_ne x hx] at hw'
          exact h1.emp x pid' ⟨w', hw', hp⟩ hE'

theorem sp0_addPatterns {req : K → List K} {fuel : Nat} :
    ∀ (patterns : List (Nat × List (Constraint K P) × List K)) {a a' : Automaton K P},
      Inv a → a.Live a.root → SP0 E Q a →
      (∀ p ∈ patterns, (∀ c ∈ p.2.1, Q c) ∧ (E p.1 → p.2.1 = [])) →
      addPatterns req fuel a patterns = .ok a' → SP0 E Q a'
  | [], a, a', _, _, h0, _, h => by
    unfold addPatterns at h
    cases h
    exact h0
  | (pid, cs, extra) :: ps, a, a', inv, hroot, h0, hp, h => by
    unfold addPatterns at h
    split at h
    · cases h
    · rename_i a1 hadd
      obtain ⟨hq, hE⟩ := hp (pid, cs, extra) List.mem_cons_self
      obtain ⟨inv1, hroot1, h1⟩ := sp0_addPattern inv hroot h0 hq hE hadd
      exact sp0_addPatterns ps inv1 hroot1 h1 (fun p hp' => hp p (List.mem_cons_of_mem _ hp')) h

theorem sp0_new : SP0 E Q (new : Automaton K P) := by
  refine ⟨?_, ?_⟩
  · intro t e he
    have : (new : Automaton K P).g.edge? t = none := by
      simp [Automaton.new, SGraph.addNode, SGraph.empty, SGraph.edge?]
    rw [this] at he; cases he
  · rintro x pid ⟨w, hw, hp⟩ _
    rw [new_no_matches x w hw] at hp
    cases hp

/-! ### one iteration of the main loop -/

section Loop
variable {σ : Constraint K P → Bool}
  {toTree : List (Constraint K P) → Option (CTree (Constraint K P))}

theorem sp_iteration_tail {a a' : Automaton K P} {s : Nat} {evs' : List Ev}
    (r : R (Automaton K P × List Ev))
    (hr : ∀ a4 evs4, r = .ok (a4, evs4) → Keeps σ a a4 ∧ SP E Q a4)
    (h : (match r with
      | .error e => .error e
      | .ok (a, evs) =>
        match a.mergesLogged evs with
        | .error e => .error e
        | .ok (a, .iterEnd s' :: evs) =>
          if s' = s then .ok (a, evs) else .error (.guard "IterEnd for another state")
        | .ok _ => .error (.guard "missing IterEnd event")) = Except.ok (a', evs')) :
    SP E Q a' := by
  split at h
  · cases h
  · rename_i a4 evs4
    obtain ⟨k4, sp4⟩ := hr a4 evs4 rfl
    split at h
    · cases h
    · rename_i a5 s' evs5 h5
      split at h
      · cases h; exact sp_mergesLogged _ k4.1.inv sp4 h5
      · cases h
    · cases h

theorem sp_afterDet {a a3 a4 : Automaton K P} {s : Nat} {treeDet : Bool} {evs3 evs4 : List Ev}
    (k3 : Keeps σ a a3) (sp3 : SP E Q a3)
    (h : (if treeDet then
        match evs3 with
        | .detAsk s' :: .detYes s'' :: evs' =>
          if s' = s ∧ s'' = s then (a3.makeDet s).map (·, evs')
          else .error (.guard "c5: DetAsk/DetYes for another state")
        | .detAsk s' :: evs' =>
          if s' = s then .ok (a3, evs') else .error (.guard "c5: DetAsk for another state")
        | _ => .error (.guard "c5: missing DetAsk event")
      else .ok (a3, evs3) : R (Automaton K P × List Ev)) = .ok (a4, evs4)) : SP E Q a4 := by
  split at h
  · split at h
    · split at h
      · cases hm : a3.makeDet s with
        | error e => rw [hm] at h; cases h
        | ok a4' =>
          rw [hm] at h
          cases h
          exact sp_makeDet k3.1.inv k3.1.rs k3.1.det sp3 hm
      · cases h
    · split at h
      · cases h; exact sp3
      · cases h
    · cases h
  · cases h; exact sp3

theorem sp_iteration (L : StepLemmas σ toTree) (hT : TreeOK toTree σ) (hH : TreeHyp Q toTree)
    {fuel : Nat} {a a' : Automaton K P} {s : Nat} {evs evs' : List Ev} (g : Automaton.Good σ a)
    (sp : SP E Q a) (h : iteration toTree fuel a s evs = .ok (a', evs')) : SP E Q a' := by
  unfold iteration at h
  split at h
  · cases h
  · rename_i hlive
    have hs : a.Live s := by
      unfold Live; cases hx : a.g.containsNode s <;> simp_all
    split at h
    · cases h
    · rename_i a1 evs1 h1
      have p1 := L.fuse g.inv hs h1
      have k1 := Keeps.of_pres g p1
      have sp1 : SP E Q a1 := sp_makeConstraintsUnique g.inv hs g.rs sp h1
      split at h
      · cases h
      · rename_i a2 treeDet h2
        have p2 := (L.tree p1.inv p1.live_s h2).pres
        have k2 := k1.trans (Keeps.of_pres k1.1 p2)
        have sp2 : SP E Q a2 := sp_insertConstraintTree hT hH p1.inv sp1 h2
        split at h
        · cases h
        · rename_i a3 evs3 h3
          have p3 := L.fuse p2.inv p2.live_s h3
          have k3 := k2.trans (Keeps.of_pres k2.1 p3)
          have sp3 : SP E Q a3 := sp_makeConstraintsUnique p2.inv p2.live_s k2.1.rs sp2 h3
          exact sp_iteration_tail _
            (fun a4 evs4 h4 => ⟨afterDet_keeps L k3 h4, sp_afterDet k3 sp3 h4⟩) h

theorem sp_mainLoop (L : StepLemmas σ toTree) (hT : TreeOK toTree σ) (hH : TreeHyp Q toTree)
    {fuel : Nat} : ∀ (n : Nat) {a a' : Automaton K P} (evs : List Ev), Automaton.Good σ a → SP E Q a →
    mainLoop toTree fuel n a evs = .ok a' → SP E Q a' := by
  intro n
  induction n with
  | zero =>
    intro a a' evs g sp h
    cases evs with
    | nil => unfold mainLoop at h; cases h; exact sp
    | cons e es => unfold mainLoop at h; cases h
  | succ n ih =>
    intro a a' evs g sp h
    cases evs with
    | nil => unfold mainLoop at h; cases h; exact sp
    | cons e es =>
      cases e with
      | topo s =>
        unfold mainLoop at h
        split at h
        · cases h
        · rename_i a1 evs1 h1
          exact ih evs1 (iteration_keeps L g h1).1 (sp_iteration L hT hH g sp h1) h
      | _ => unfold mainLoop at h; cases h

/-- What a successful `build` gives: the automaton `a2` the main loop ends with satisfies the
structural invariant, the root-is-a-source invariant and `SP`, and the result is
`populate_scopes` of it. -/
theorem sp_build (hT : TreeOK toTree σ) (hH : TreeHyp Q toTree)
    {req : K → List K} {fuel : Nat} {patterns : List (Nat × List (Constraint K P) × List K)}
    {evs : List Ev} {A : Automaton K P} (h : build toTree req fuel patterns evs = .ok A)
    (hp : ∀ p ∈ patterns, (∀ c ∈ p.2.1, Q c) ∧ (E p.1 → p.2.1 = [])) :
    ∃ a2, populateScopes req fuel a2 = .ok A ∧ Inv a2 ∧ RootSrc a2 ∧ SP E Q a2 := by
  have L := stepLemmas hT
  unfold build at h
  split at h
  · cases h
  · rename_i a1 h1
    obtain ⟨inv1, _, rs1, nd1, _⟩ := addPatterns_spec (σ := σ) h1
    have g1 : Automaton.Good σ a1 := ⟨inv1, rs1, detOKE_of_noDet nd1⟩
    obtain ⟨inv0, _, rs0, _, _⟩ := new_spec (K := K) (P := P)
    have sp1 : SP E Q a1 := (sp0_addPatterns patterns inv0 rs0.1 sp0_new hp h1).sp
    unfold finish at h
    split at h
    · cases h
    · rename_i a2 h2
      obtain ⟨g2, _, _⟩ := mainLoop_keeps L _ _ g1 h2
      exact ⟨a2, h, g2.inv, g2.rs, sp_mainLoop L hT hH _ _ g1 sp1 h2⟩

end Loop

end StrProg
end Pm
