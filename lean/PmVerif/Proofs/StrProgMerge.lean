/-
Proofs/StrProgMerge.lean — the step-level invariant `SP E Q` of the string-program proof is
preserved by the merge step of the builder (`mergeLoop`, `doMerge`, `mergesLogged`).

The proofs re-run the inductions of `mergeLoop_spec`, `doMerge_spec` and `mergesLogged_spec`
(`Proofs/BuildMerge.lean`), carrying `SP E Q a` next to `Inv a`; the only new ingredient is
`sp_fold`: folding a state into its twin (`Fold`) preserves `SP`.
-/
import PmVerif.Proofs.StrProgDefs
import PmVerif.Proofs.BuildMerge
namespace Pm
namespace StrProg
open Automaton
variable {K P : Type}

/-- Folding the state `n` into `first` preserves `SP`. -/
theorem sp_fold {E : Nat → Prop} {Q : Constraint K P → Prop} {a a' : Automaton K P}
    {first n : Nat} (f : Fold a a' first n) (inv : Inv a) (sp : SP E Q a) : SP E Q a' where
  efrom t e c he hw := by
    have hed := HasEdge.of_edge he
    rw [hw] at hed
    rcases f.sound _ _ _ hed with ⟨⟨t0, h0⟩, _, _⟩ | ⟨_, ⟨t0, h0⟩⟩
    · exact sp.efrom t0 _ c h0 rfl
    · exact sp.efrom t0 _ c h0 rfl
  emp x pid hi he := by
    rw [f.root]
    exact sp.emp x pid (f.ids_back hi) he
  noEps t e he hw := by
    have hed := HasEdge.of_edge he
    rw [hw] at hed
    have key : ∃ t0 e0, a.g.edge? t0 = some e0 ∧ e0.src = e.src ∧ e0.w = none ∧ e.src ≠ n := by
      rcases f.sound _ _ _ hed with ⟨⟨t0, h0⟩, hx, _⟩ | ⟨_, ⟨t0, h0⟩⟩
      · exact ⟨t0, _, h0, rfl, rfl, hx⟩
      · exact ⟨t0, _, h0, rfl, rfl, inv.noloop t0 _ h0⟩
    obtain ⟨t0, e0, h0, hs0, hw0, hxn⟩ := key
    obtain ⟨t1, e1, h1, hs1, hsome⟩ := sp.noEps t0 e0 h0 hw0
    obtain ⟨c', hc'⟩ := Option.isSome_iff_exists.1 hsome
    have hed1 := HasEdge.of_edge h1
    rw [hs1, hs0, hc'] at hed1
    by_cases hd : e1.dst = n
    · rw [hd] at hed1
      obtain ⟨t', ht'⟩ := f.moved _ _ hed1
      exact ⟨t', _, ht', rfl, rfl⟩
    · obtain ⟨t', ht'⟩ := f.keep _ _ _ hed1 hxn hd
      exact ⟨t', _, ht', rfl, rfl⟩

/-- `mergeLoop` preserves `Inv` and `SP` (same induction as `mergeLoop_spec`). -/
theorem sp_mergeLoop {E : Nat → Prop} {Q : Constraint K P → Prop} {first : Nat} :
    ∀ (rest : List Nat) {a a' : Automaton K P}, Inv a → SP E Q a → (first :: rest).Nodup →
    (∀ m ∈ rest, Twin a first m) →
    a.mergeLoop first rest = .ok a' → Inv a' ∧ SP E Q a'
  | [], a, a', inv, sp, _, _, h => by
    unfold mergeLoop at h; cases h; exact ⟨inv, sp⟩
  | n :: ns, a, a', inv, sp, hnd, htw, h => by
    unfold mergeLoop at h
    split at h
    · cases h
    · rename_i a1 hmv
      have tw : Twin a first n := htw n List.mem_cons_self
      rw [List.nodup_cons] at hnd
      obtain ⟨hfn, hnd'⟩ := hnd
      rw [List.nodup_cons] at hnd'
      have hne : first ≠ n := fun hx => hfn (hx ▸ List.mem_cons_self)
      have f := fold_of_merge inv hne (tw.no_edge inv) hmv
      refine sp_mergeLoop ns f.inv (sp_fold f inv sp) ?_ ?_ h
      · exact List.nodup_cons.2 ⟨fun hm => hfn (List.mem_cons_of_mem _ hm), hnd'.2⟩
      · intro m hm
        have hmn : m ≠ n := fun hx => hnd'.1 (hx ▸ hm)
        exact f.twin inv hne hmn tw (htw m (List.mem_cons_of_mem _ hm))

variable [DecidableEq K] [DecidableEq P]

/-- `doMerge` preserves `Inv` and `SP` (same case analysis as `doMerge_spec`). -/
theorem sp_doMerge {E : Nat → Prop} {Q : Constraint K P → Prop} {a a' : Automaton K P}
    {node : Nat} {nodes : List Nat} (inv : Inv a) (sp : SP E Q a)
    (h : a.doMerge node nodes = .ok a') : Inv a' ∧ SP E Q a' := by
  unfold doMerge at h
  split at h
  · cases h; exact ⟨inv, sp⟩
  · cases h; exact ⟨inv, sp⟩
  · rename_i first rest _
    split at h
    · cases h
    · split at h
      · cases h
      · rename_i hnd
        split at h
        · cases h
        · rename_i same hsame
          split at h
          · cases h
          · rename_i hall
            split at h
            · cases h
            · split at h
              · cases h
              · have hnd' : (first :: rest).Nodup := by
                  cases hd : decide (first :: rest).Nodup
                  · rw [hd] at hnd; exact absurd rfl hnd
                  · exact of_decide_eq_true hd
                have hall' : ∀ y ∈ same, y = true := by
                  cases hd : same.all id
                  · rw [hd] at hall; exact absurd rfl hall
                  · intro y hy
                    exact List.all_eq_true.1 hd y hy
                have htw : ∀ n ∈ first :: rest, Twin a node n := by
                  intro n hn
                  obtain ⟨y, hy, hf⟩ := mapR_mem_in hsame n hn
                  rw [hall' y hy] at hf
                  exact sameTuple_twin inv hf
                have hfirst := htw first List.mem_cons_self
                refine sp_mergeLoop rest inv sp hnd' ?_ h
                intro m hm
                exact hfirst.symm.trans (htw m (List.mem_cons_of_mem _ hm))

/-- `mergesLogged` preserves `Inv` and `SP`. -/
theorem sp_mergesLogged_inv {E : Nat → Prop} {Q : Constraint K P → Prop} :
    ∀ (evs : List Ev) {a a' : Automaton K P} {evs' : List Ev},
    Inv a → SP E Q a → a.mergesLogged evs = .ok (a', evs') → Inv a' ∧ SP E Q a' := by
  intro evs
  induction evs with
  | nil =>
    intro a a' evs' inv sp h
    unfold mergesLogged at h
    cases h
    exact ⟨inv, sp⟩
  | cons ev evs0 ih =>
    intro a a' evs' inv sp h
    cases ev with
    | merge n nodes =>
      unfold mergesLogged at h
      split at h
      · cases h
      · rename_i a1 hdm
        obtain ⟨inv1, sp1⟩ := sp_doMerge inv sp hdm
        exact ih inv1 sp1 h
    | _ =>
      unfold mergesLogged at h
      cases h
      exact ⟨inv, sp⟩

/-- The merge step of the builder preserves the step-level invariant `SP`. -/
theorem sp_mergesLogged {K P : Type} [DecidableEq K] [DecidableEq P] {E : Nat → Prop}
    {Q : Constraint K P → Prop} : ∀ (evs : List Ev) {a a' : Automaton K P} {evs' : List Ev},
    Inv a → SP E Q a → a.mergesLogged evs = .ok (a', evs') → SP E Q a' :=
  fun evs _ _ _ inv sp h => (sp_mergesLogged_inv evs inv sp h).2

end StrProg
end Pm
