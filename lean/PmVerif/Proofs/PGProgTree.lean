/-
Proofs/PGProgTree.lean — the port-graph decomposition `pgTree` satisfies the conditional tree
hypothesis `TreeHypC CQ` (Proofs/PGProgDefs.lean): when every input constraint is arity-correct,
single-root and not a one-key `isNotEqual`,

* the root of the returned tree carries no label (`PGPredicate::conditioned c [] = None` only for
  a one-key `isNotEqual`),
* for a non-empty input the root has a child that is materialised (it has children or labels),
* every edge constraint of the tree satisfies `CQ` again (`pgCond` keeps the first key and a
  non-empty subset of the others).

The two shape clauses of the `with_powerset` branch are read off the worklist invariant `PInv` of
Proofs/TreeLemmas.lean, instantiated with the all-false assignment (no label is reachable, so the
root — always reachable — carries none) and with the all-true assignment (the label of the first
constraint sits at a reachable node, hence below a child of the root).
Everything lives in `namespace Pm.PGProg`.
-/
import PmVerif.Proofs.PGProgDefs
import PmVerif.Proofs.AnchGCorner2
import PmVerif.Proofs.StrProgTree
import PmVerif.Proofs.PGLemmas
namespace Pm
namespace PGProg
open CTree AnchG

/-! ### `PGPredicate::conditioned` and `CQ` -/

theorem pgCond_CQ {c c' : PGCons} {S : List PGCons} (h : pgCond c S = some c') (hc : CQ c) :
    CQ c' := by
  unfold pgCond at h
  split at h
  · next n first others hp ha =>
    simp only at h
    have hsub : ∀ k, k ∈ S.foldl (fun (ks : List PGKey) s =>
        match s.args with
        | f :: os => if f = first then ks.filter (fun k => !os.contains k) else ks
        | [] => ks) (others.foldl (fun s k => insertKeySet k s) []) → k ∈ others := by
      intro k hk
      have h1 := ((pg_mem_removed_fold first S _ k).1 hk).1
      rw [mem_insertKeySet_fold] at h1
      simpa using h1
    generalize S.foldl (fun (ks : List PGKey) s =>
        match s.args with
        | f :: os => if f = first then ks.filter (fun k => !os.contains k) else ks
        | [] => ks) (others.foldl (fun s k => insertKeySet k s) []) = keys at h hsub
    split at h
    · cases h
    · next hne =>
      cases h
      refine ⟨by simp [PGPred.arity], ?_, ?_⟩
      · intro k hk
        rcases List.mem_cons.1 hk with rfl | hk
        · exact hc.sr _ (ha ▸ List.mem_cons_self)
        · exact hc.sr _ (ha ▸ List.mem_cons_of_mem _ (hsub k hk))
      · cases keys with
        | nil => exact absurd rfl hne
        | cons _ _ => rfl
  · cases h
    exact hc

/-- Conditioned on nothing, a `CQ` constraint is never implied. -/
theorem pgCond_nil_ne_none {c : PGCons} (hc : CQ c) : pgCond c [] ≠ none := by
  unfold pgCond
  split
  · next n first others hp ha =>
    simp only [List.foldl_nil]
    cases others with
    | nil =>
      have := hc.nu
      unfold pgNoUnary at this
      rw [hp, ha] at this
      cases this
    | cons o os =>
      have hmem : o ∈ (o :: os).foldl (fun s k => insertKeySet k s) [] :=
        (mem_insertKeySet_fold _ _ _).2 (.inl List.mem_cons_self)
      generalize (o :: os).foldl (fun s k => insertKeySet k s) [] = keys at hmem
      cases keys with
      | nil => cases hmem
      | cons _ _ => simp
  · simp

/-! ### shape of `with_powerset` trees -/

section Powerset
variable {cs : List (PGCons × Nat)}

theorem condLawOn_false (hcs : ∀ x ∈ cs, CQ x.1) :
    CondLawOn pgCond (fun _ => false) (fun c => ∃ i, (c, i) ∈ cs) := by
  intro c S hc _ hS
  cases S with
  | nil =>
    obtain ⟨i, hi⟩ := hc
    exact ⟨fun h => absurd h (pgCond_nil_ne_none (hcs _ hi)), fun _ _ => rfl⟩
  | cons s S =>
    have := hS s List.mem_cons_self
    cases this

/-- The root of a `with_powerset` tree over `CQ` constraints carries no label. -/
theorem withPowerset_root_labels {fuel : Nat} {t : CTree PGCons} (hcs : ∀ x ∈ cs, CQ x.1)
    (h : withPowerset pgCond cs fuel = some t) : t.labelsAt 0 = [] := by
  by_cases hne : cs = []
  · subst hne
    rw [withPowerset_nil h]
    rfl
  · have inv := withPowerset_inv (σ := fun _ => false) (condLawOn_false hcs) hne h
    rw [List.eq_nil_iff_forall_not_mem]
    intro l hl
    obtain ⟨c, _, hr⟩ := inv.labSound 0 l hl
    have := hr .root
    cases this

omit cs in
/-- A reachable node other than the root lies at or below a child of the root. -/
theorem rch_below_root {C : Type} {t : CTree C} {σ : C → Bool} {k : Nat} (h : Rch t σ k) :
    k = 0 ∨ ∃ c n', (c, n') ∈ t.childrenAt 0 ∧ (n' = k ∨ t.childrenAt n' ≠ []) := by
  induction h with
  | root => exact .inl rfl
  | @edge m c k _ hmem _ ih =>
    right
    rcases ih with rfl | ⟨c0, n', h0, hor⟩
    · exact ⟨c, k, hmem, .inl rfl⟩
    · refine ⟨c0, n', h0, .inr ?_⟩
      rcases hor with rfl | hne
      · exact List.ne_nil_of_mem hmem
      · exact hne

/-- For a non-empty input the root of a `with_powerset` tree over `CQ` constraints has a
materialised child. -/
theorem withPowerset_child {fuel : Nat} {t : CTree PGCons} (hcs : ∀ x ∈ cs, CQ x.1)
    (hne : cs ≠ []) (h : withPowerset pgCond cs fuel = some t) :
    ∃ c n', (c, n') ∈ t.childrenAt 0 ∧ (t.childrenAt n' ≠ [] ∨ t.labelsAt n' ≠ []) := by
  have h0 := withPowerset_root_labels hcs h
  have inv := withPowerset_inv (σ := fun _ => true) ((condLaw_true pgCond).on _) hne h
  obtain ⟨p, hp, hq⟩ := inv.complete
  have hlen : cs.length ≤ p := by
    rcases hq with hq | ⟨it, hit, _⟩
    · exact hq
    · cases hit
  cases cs with
  | nil => exact absurd rfl hne
  | cons x rest =>
    obtain ⟨n, hr, hl⟩ := hp 0 x.1 x.2 (by simp at hlen; omega) rfl rfl
    rcases rch_below_root hr with rfl | ⟨c, n', hc, hor⟩
    · rw [h0] at hl; cases hl
    · refine ⟨c, n', hc, ?_⟩
      rcases hor with rfl | hne'
      · exact .inr (List.ne_nil_of_mem hl)
      · exact .inl hne'

end Powerset

/-! ### `pgTree` -/

theorem treeHypC_pgTree (fuel : Nat) : TreeHypC CQ (fun cs => pgTree cs fuel) := by
  intro cs tree h hQ
  replace h : pgTree cs fuel = some tree := h
  cases hs : sortWithIndices pgConsLe cs with
  | nil =>
    have : cs = [] := Classical.byContradiction fun hne => sortWithIndices_ne_nil _ hne hs
    subst this
    cases h
    refine ⟨rfl, fun hne => absurd rfl hne, ?_⟩
    intro n c n' hmem
    cases n <;> simp [CTree.new, childrenAt] at hmem
  | cons x xs =>
    have hin : ∀ y ∈ sortWithIndices pgConsLe cs, y.1 ∈ cs := fun y hy =>
      List.mem_of_getElem? ((mem_sortWithIndices pgConsLe cs y.1 y.2).1 hy)
    rcases pgTree_cons_cases (fuel := fuel) hs with ⟨hne, ht⟩ | ⟨-, ht⟩
    · rw [ht] at h
      obtain ⟨t0, ht0, rfl⟩ := Option.map_eq_some_iff.1 h
      have hkq : ∀ y ∈ pgKept cs x.1, CQ y.1 := fun y hy => hQ _ (hin _ (pgKept_sub cs x.1 _ hy))
      have hkne : pgKept cs x.1 ≠ [] := by
        obtain ⟨rest, hr⟩ := pgKept_head hs hne
        rw [hr]; simp
      refine ⟨?_, fun _ => ?_, ?_⟩
      · show t0.labelsAt 0 = []
        exact withPowerset_root_labels hkq ht0
      · obtain ⟨c, n', hc, hor⟩ := withPowerset_child hkq hkne ht0
        exact ⟨c, n', hc, hor⟩
      · intro n c n' hmem
        have hmem' : (c, n') ∈ t0.childrenAt n := hmem
        obtain ⟨c0, ci, S, hc0, hcond⟩ := withPowerset_edges ht0 n c n' hmem'
        exact pgCond_CQ hcond (hkq _ hc0)
    · rw [ht] at h
      cases h
      obtain ⟨first, fi⟩ := x
      have hform : ∀ n,
          ({ CTree.withTransitiveMutex ((first, fi) :: xs) pgMutex with makeDet := true } :
            CTree PGCons).childrenAt n =
          (withChildren (((first, fi) :: xs.filter (fun ci => pgMutex first ci.1)).map
            fun ci => (ci.1, [ci.2]))).childrenAt n := fun _ => rfl
      have hforml : ∀ n,
          ({ CTree.withTransitiveMutex ((first, fi) :: xs) pgMutex with makeDet := true } :
            CTree PGCons).labelsAt n =
          (withChildren (((first, fi) :: xs.filter (fun ci => pgMutex first ci.1)).map
            fun ci => (ci.1, [ci.2]))).labelsAt n := fun _ => rfl
      refine ⟨?_, fun _ => ?_, ?_⟩
      · rw [hforml]
        exact StrProg.labelsAt_zero_withChildren _
      · obtain ⟨c, m, hm, hl⟩ := StrProg.labelled_child_withChildren
          (kept := (first, fi) :: xs.filter (fun ci => pgMutex first ci.1)) (by simp)
        exact ⟨c, m, by rw [hform]; exact hm, .inr (by rw [hforml]; exact hl)⟩
      · intro n c n' hmem
        rw [hform] at hmem
        obtain ⟨-, ch, hch, rfl⟩ := StrProg.chRoot_withChildren _ n c n' hmem
        obtain ⟨ci, hci, rfl⟩ := List.mem_map.1 hch
        refine hQ _ (hin ci ?_)
        rw [hs]
        rcases List.mem_cons.1 hci with rfl | hci
        · exact List.mem_cons_self ..
        · exact List.mem_cons_of_mem _ (List.mem_filter.1 hci).1

end PGProg
end Pm
