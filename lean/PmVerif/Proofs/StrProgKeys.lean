/-
Proofs/StrProgKeys.lean — clause (6) of `strProgramOK` as a theorem of the builder: every
`(pattern id, key list)` recorded at a live state of a successfully built STRING automaton is
`(i, strPatternKeys p)` for the `i`-th input pattern `p` (`strKeys_built`).

The key list `add_pattern` computes is followed exactly through `addPatternLoop` (the builder's
fuel and the fuel `16` of `strPatternKeys` give the same `all_missing_bindings` results:
`allMissingLoop_fuel_mono` + `Anch.allMissingLoop_str`); the rest of the build only copies recorded
pairs (`c09b_MFrom` frame of Proofs/C09BuiltLemmas.lean).
Everything lives in `namespace Pm.StrProg`.
-/
import PmVerif.Proofs.C09BuiltLemmas
import PmVerif.Proofs.AnchKeys
import PmVerif.Proofs.Missing
import PmVerif.Props.C06
namespace Pm
namespace StrProg
open Automaton

/-- One step of the fold in `strPatternKeys`. -/
def strKeyStep (keys : List Nat) (c : StrCons) : List Nat :=
  keys ++ (allMissingBindings strReq c.args keys 16).getD []

theorem strPatternKeys_foldl (p : List CharVar) :
    strPatternKeys p = (strConstraints p).foldl strKeyStep [] := rfl

/-- For the string scheme, a successful `all_missing_bindings` at any fuel returns what the call
with fuel `16` (which always succeeds) returns. -/
theorem strAllMissing_fuel16 {ks known more : List Nat} {fuel : Nat}
    (h : allMissingBindings strReq ks known fuel = some more) :
    allMissingBindings strReq ks known 16 = some more := by
  unfold allMissingBindings at h ⊢
  obtain ⟨res, hres, _⟩ := Anch.allMissingLoop_str ks known []
  have e1 := allMissingLoop_fuel_mono strReq fuel (max fuel 16) (Nat.le_max_left _ _) _ _ _ _ h
  have e2 := allMissingLoop_fuel_mono strReq 16 (max fuel 16) (Nat.le_max_right _ _) _ _ _ _ hres
  rw [e1] at e2
  rw [hres, e2]

/-- The key list returned by `addPatternLoop` is the fold of `strPatternKeys` started at the
initial key list. -/
theorem strKeys_addPatternLoop (fuel : Nat) :
    ∀ (cs : List StrCons) (a a' : Automaton Nat CharPred) (s s' : Nat) (keys0 keys : List Nat),
      addPatternLoop strReq fuel a s keys0 cs = .ok (a', s', keys) →
      keys = cs.foldl strKeyStep keys0
  | [], a, a', s, s', keys0, keys, h => by
    rw [addPatternLoop] at h
    cases h; rfl
  | c :: cs, a, a', s, s', keys0, keys, h => by
    rw [addPatternLoop] at h
    split at h
    · cases h
    · rename_i more hmore
      split at h
      · cases h
      · rename_i a1 s1 hadd
        have ih := strKeys_addPatternLoop fuel cs a1 a' s1 s' _ keys h
        rw [ih, List.foldl_cons]
        have : strKeyStep keys0 c = keys0 ++ more := by
          unfold strKeyStep
          rw [strAllMissing_fuel16 hmore]; rfl
        rw [this]

/-- After `add_pattern(strConstraints p, pid, [])` every recorded pair is an old one or
`(pid, strPatternKeys p)`. -/
theorem strKeys_addPattern {fuel : Nat} {a a' : Automaton Nat CharPred} {p : List CharVar}
    {pid : Nat} (h : addPattern strReq fuel a (strConstraints p) pid [] = .ok a') :
    MatchesIn a a' (some (pid, strPatternKeys p)) := by
  unfold addPattern at h
  split at h
  · cases h
  · rename_i keys0 h0
    have hk0 : keys0 = [] := by
      have h1 : allMissingBindings strReq ([] : List Nat) [] fuel = some [] := rfl
      rw [h1] at h0
      cases h0; rfl
    subst hk0
    split at h
    · cases h
    · rename_i a1 s1 keys hloop
      have hkeys := strKeys_addPatternLoop fuel _ _ _ _ _ _ _ hloop
      rw [← strPatternKeys_foldl] at hkeys
      subst hkeys
      exact (matchesIn_addPatternLoop strReq fuel _ _ _ _ _ _ _ hloop).trans
        (matchesIn_addMatch h)

/-- The property of a recorded pair: its key list is `strPatternKeys` of the input pattern at the
position given by its id. -/
def KeysOf (ps : List (List CharVar)) (m : Nat × List Nat) : Prop :=
  ∃ p, ps[m.1]? = some p ∧ m.2 = strPatternKeys p

theorem strKeys_addPatterns (ps : List (List CharVar)) (fuel : Nat) :
    ∀ (inputs : List (Nat × List StrCons × List Nat)) (a a' : Automaton Nat CharPred),
      (∀ x ∈ inputs, ∃ p, ps[x.1]? = some p ∧ x.2.1 = strConstraints p ∧ x.2.2 = []) →
      addPatterns strReq fuel a inputs = .ok a' →
      c09b_MFrom (KeysOf ps) a → c09b_MFrom (KeysOf ps) a'
  | [], a, a', _, h, H => by
    rw [addPatterns] at h; cases h; exact H
  | (pid, cs, extra) :: rest, a, a', hin, h, H => by
    rw [addPatterns] at h
    split at h
    · cases h
    · rename_i a1 hadd
      refine strKeys_addPatterns ps fuel rest a1 a'
        (fun x hx => hin x (List.mem_cons_of_mem _ hx)) h ?_
      obtain ⟨p, hp, hcs, hex⟩ := hin (pid, cs, extra) List.mem_cons_self
      simp only at hp hcs hex
      subst hcs hex
      intro s w hw m hm
      rcases strKeys_addPattern hadd s w hw m hm with ⟨s0, w0, hw0, hm0⟩ | hnew
      · exact H s0 w0 hw0 m hm0
      · cases hnew
        exact ⟨p, hp, rfl⟩

/-- `build` on inputs that are string patterns at their positions records exact key lists. -/
theorem strKeys_build (ps : List (List CharVar)) {fuel : Nat}
    {inputs : List (Nat × List StrCons × List Nat)} {evs : List Ev} {A : Automaton Nat CharPred}
    (hin : ∀ x ∈ inputs, ∃ p, ps[x.1]? = some p ∧ x.2.1 = strConstraints p ∧ x.2.2 = [])
    (h : build (charTree natLt) strReq fuel inputs evs = .ok A) :
    c09b_MFrom (KeysOf ps) A := by
  unfold build at h
  split at h
  · cases h
  · rename_i a1 h1
    have H1 : c09b_MFrom (KeysOf ps) a1 := by
      refine strKeys_addPatterns ps fuel inputs new a1 hin h1 ?_
      intro s w hw m hm
      rw [new_no_matches s w hw] at hm
      cases hm
    unfold finish at h
    split at h
    · cases h
    · rename_i a2 h2
      exact c09b_mfrom_populateScopes h (c09b_mfrom_mainLoop _ _ h2 H1)

/-- **Clause (6) of `strProgramOK` for every built string automaton.** Every
`(pattern id, key list)` recorded at a live state is `(i, strPatternKeys p)` for the `i`-th input
pattern `p`. -/
theorem strKeys_built (ps : List (List CharVar)) (evs : List Ev) (fuel : Nat) (M : Many Nat CharPred)
    (hb : manyBuild (fun p => some (strConstraints p)) (fun _ => ([] : List Nat))
      (charTree natLt) strReq fuel true ps evs = some (.ok M)) :
    ∀ s w, M.automaton.g.weight? s = some w → ∀ m ∈ w.matches_,
      ∃ p, ps[m.1]? = some p ∧ m.2 = strPatternKeys p := by
  unfold manyBuild at hb
  cases hi : manyInputs (fun p => some (strConstraints p)) (fun _ => ([] : List Nat)) true ps 0 with
  | none => simp [hi] at hb
  | some inputs =>
    simp only [hi] at hb
    cases hbd : build (charTree natLt) strReq fuel inputs evs with
    | error e => simp [hbd] at hb
    | ok A =>
      simp only [hbd, Option.some.injEq, Except.ok.injEq] at hb
      subst hb
      have hpos := c06_ids_are_positions (fun p => some (strConstraints p))
        (fun _ => ([] : List Nat)) true ps 0 inputs hi
      refine strKeys_build ps ?_ hbd
      rintro ⟨i, cs, ex⟩ hx
      obtain ⟨k, p, hk, hj, hc, hex⟩ := (hpos i cs ex).mp hx
      simp only [Nat.zero_add] at hj
      subst hj
      simp only [Option.some.injEq] at hc
      exact ⟨p, hk, hc.symm, hex⟩

end StrProg
end Pm
