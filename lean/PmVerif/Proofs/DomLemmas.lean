/-
Proofs/DomLemmas.lean — helper lemmas for `Props/TDom`: the pattern-to-constraint conversions of
the string and matrix domains (`strConstraints`, `matConstraints`) against the key-free
occurrence semantics of `Spec/Occurs` (`occursStr`, `occursMat`).

Both conversions share `charVarLoop`; both occurrence predicates are instances of one generic
notion `OccursCells val cells` over a list of `(key, cell)` pairs and a valuation
`val : key → Option char`. The generic part characterises `charVarLoop` (`loopOut`), the generic
satisfaction equivalence is `loop_sat_iff`, the matrix repair fold is `repairFold_*`.
-/
import PmVerif.Spec.Occurs
namespace Pm

/-! ### Generic: `charVarLoop` as a structural function -/

section Generic
variable {K : Type}

/-- The constraints `charVarLoop` appends, by structural recursion with `::`. -/
def loopOut : List (K × CharVar) → List (Nat × K) → List (Constraint K CharPred)
  | [], _ => []
  | (i, .lit c) :: rest, vars => ⟨.constVal c, [i]⟩ :: loopOut rest vars
  | (i, .var v) :: rest, vars =>
    match alGet vars v with
    | some first => ⟨.bindingEq, [i, first]⟩ :: loopOut rest vars
    | none => loopOut rest (vars ++ [(v, i)])

theorem charVarLoop_eq (cells : List (K × CharVar)) :
    ∀ (vars : List (Nat × K)) (cs : List (Constraint K CharPred)),
      charVarLoop cells vars cs = cs ++ loopOut cells vars := by
  induction cells with
  | nil => intro vars cs; simp [charVarLoop, loopOut]
  | cons x rest ih =>
    intro vars cs
    obtain ⟨i, cv⟩ := x
    cases cv with
    | lit c => simp [charVarLoop, loopOut, ih]
    | var v =>
      cases hg : alGet vars v with
      | some f => simp [charVarLoop, loopOut, hg, ih]
      | none => simp [charVarLoop, loopOut, hg, ih]

/-- Key of the first cell holding variable `v`. -/
def firstKey (cells : List (K × CharVar)) (v : Nat) : Option K :=
  (cells.find? fun x => x.2 == .var v).map (·.1)

theorem firstKey_append (a b : List (K × CharVar)) (v : Nat) :
    firstKey (a ++ b) v = (firstKey a v).or (firstKey b v) := by
  unfold firstKey
  rw [List.find?_append]
  cases List.find? (fun x => x.2 == CharVar.var v) a <;> simp

theorem firstKey_cons_var (i : K) (v w : Nat) (rest : List (K × CharVar)) :
    firstKey ((i, .var v) :: rest) w = if v = w then some i else firstKey rest w := by
  unfold firstKey
  by_cases h : v = w
  · subst h; simp
  · have : ((CharVar.var v) == CharVar.var w) = false := by
      simp [h]
    simp [this, h]

theorem firstKey_mem {cells : List (K × CharVar)} {v : Nat} {f : K}
    (h : firstKey cells v = some f) : (f, CharVar.var v) ∈ cells := by
  unfold firstKey at h
  cases hf : List.find? (fun x => x.2 == CharVar.var v) cells with
  | none => simp [hf] at h
  | some x =>
    simp [hf] at h
    have hm := List.mem_of_find?_eq_some hf
    have hp := List.find?_some hf
    obtain ⟨k, cv⟩ := x
    simp at hp h
    subst hp; subst h
    exact hm

theorem firstKey_isSome_of_mem {cells : List (K × CharVar)} {v : Nat} {i : K}
    (h : (i, CharVar.var v) ∈ cells) : ∃ f, firstKey cells v = some f := by
  have : (List.find? (fun x => x.2 == CharVar.var v) cells).isSome = true := by
    rw [List.find?_isSome]
    exact ⟨_, h, by simp⟩
  unfold firstKey
  cases hf : List.find? (fun x => x.2 == CharVar.var v) cells with
  | none => simp [hf] at this
  | some x => exact ⟨x.1, by simp⟩

theorem firstKey_map {K' : Type} (g : K → K') (cells : List (K × CharVar)) (v : Nat) :
    firstKey (cells.map fun x => (g x.1, x.2)) v = (firstKey cells v).map g := by
  unfold firstKey
  rw [List.find?_map]
  simp [Function.comp_def]

theorem alGet_append_single (vars : List (Nat × K)) (v w : Nat) (i : K) :
    alGet (vars ++ [(v, i)]) w = (alGet vars w).or (if v = w then some i else none) := by
  induction vars with
  | nil => simp [alGet]
  | cons x rest ih =>
    obtain ⟨k, val⟩ := x
    by_cases hk : k = w
    · simp [alGet, hk]
    · simp [alGet, hk, ih]

/-- One cell of a pattern is matched under valuation `val`, `first` giving first occurrences. -/
def cellOk (val : K → Option Nat) (first : Nat → Option K) (x : K × CharVar) : Prop :=
  match x.2 with
  | .lit c => val x.1 = some c
  | .var v => (val x.1).isSome ∧ ∃ f, first v = some f ∧ val f = val x.1

/-- Generic key-free occurrence: every cell is matched. -/
def OccursCells (val : K → Option Nat) (cells : List (K × CharVar)) : Prop :=
  ∀ x ∈ cells, cellOk val (firstKey cells) x

theorem OccursCells.isSome {val : K → Option Nat} {cells : List (K × CharVar)}
    (h : OccursCells val cells) {i : K} {cv : CharVar} (hm : (i, cv) ∈ cells) :
    (val i).isSome := by
  have := h _ hm
  cases cv with
  | lit c => simp [cellOk] at this; simp [this]
  | var v => exact this.1

theorem OccursCells.mono {val val' : K → Option Nat} {cells : List (K × CharVar)}
    (hv : ∀ k x, val k = some x → val' k = some x) (h : OccursCells val cells) :
    OccursCells val' cells := by
  intro x hx
  have := h x hx
  obtain ⟨i, cv⟩ := x
  cases cv with
  | lit c => exact hv _ _ this
  | var v =>
    obtain ⟨hs, f, hf, he⟩ := this
    obtain ⟨y, hy⟩ := Option.isSome_iff_exists.1 hs
    simp only at hy he
    refine ⟨?_, f, hf, ?_⟩
    · simp [hv _ _ hy]
    · simp only
      rw [hv _ _ hy, hv _ _ (he.trans hy)]

theorem OccursCells.congr {val val' : K → Option Nat} {cells : List (K × CharVar)}
    (hv : ∀ x ∈ cells, val x.1 = val' x.1) :
    OccursCells val cells ↔ OccursCells val' cells := by
  have key : ∀ (a b : K → Option Nat), (∀ x ∈ cells, a x.1 = b x.1) →
      OccursCells a cells → OccursCells b cells := by
    intro a b hab h x hx
    have := h x hx
    obtain ⟨i, cv⟩ := x
    cases cv with
    | lit c => simpa [cellOk, ← hab _ hx] using this
    | var v =>
      obtain ⟨hs, f, hf, he⟩ := this
      have hfm := firstKey_mem hf
      have h1 := hab _ hx
      have h2 := hab _ hfm
      simp only at h1 h2 hs he
      exact ⟨by simpa [← h1] using hs, f, hf, by simp only; rw [← h1, ← h2]; exact he⟩
  exact ⟨key _ _ hv, key _ _ (fun x hx => (hv x hx).symm)⟩

theorem OccursCells.map {K' : Type} (g : K → K') (val : K' → Option Nat)
    (cells : List (K × CharVar)) :
    OccursCells val (cells.map fun x => (g x.1, x.2)) ↔ OccursCells (fun k => val (g k)) cells := by
  unfold OccursCells
  simp only [List.mem_map, forall_exists_index, and_imp, forall_apply_eq_imp_iff₂]
  constructor
  · intro h x hx
    have := h x hx
    obtain ⟨i, cv⟩ := x
    cases cv with
    | lit c => exact this
    | var v =>
      obtain ⟨hs, f, hf, he⟩ := this
      rw [firstKey_map] at hf
      cases hk : firstKey cells v with
      | none => simp [hk] at hf
      | some f0 =>
        simp [hk] at hf
        subst hf
        exact ⟨hs, f0, hk, he⟩
  · intro h x hx
    have := h x hx
    obtain ⟨i, cv⟩ := x
    cases cv with
    | lit c => exact this
    | var v =>
      obtain ⟨hs, f, hf, he⟩ := this
      exact ⟨hs, g f, by rw [firstKey_map, hf]; rfl, he⟩

/-! ### Generic: satisfaction of the loop's constraints -/

/-- Every argument of a loop constraint is a key of a cell or a recorded first occurrence. -/
theorem loopOut_args (rest : List (K × CharVar)) :
    ∀ (vars : List (Nat × K)), ∀ c ∈ loopOut rest vars, ∀ k ∈ c.args,
      (∃ cv, (k, cv) ∈ rest) ∨ (∃ v, alGet vars v = some k) := by
  induction rest with
  | nil => intro vars c hc; simp [loopOut] at hc
  | cons x rest ih =>
    intro vars c hc k hk
    obtain ⟨i, cv⟩ := x
    cases cv with
    | lit x =>
      simp only [loopOut, List.mem_cons] at hc
      rcases hc with rfl | hc
      · simp at hk; subst hk; exact .inl ⟨_, List.mem_cons_self⟩
      · rcases ih vars c hc k hk with ⟨cv, h⟩ | h
        · exact .inl ⟨cv, List.mem_cons_of_mem _ h⟩
        · exact .inr h
    | var v =>
      cases hg : alGet vars v with
      | some f =>
        simp only [loopOut, hg, List.mem_cons] at hc
        rcases hc with rfl | hc
        · simp at hk
          rcases hk with rfl | rfl
          · exact .inl ⟨_, List.mem_cons_self⟩
          · exact .inr ⟨v, hg⟩
        · rcases ih vars c hc k hk with ⟨cv, h⟩ | h
          · exact .inl ⟨cv, List.mem_cons_of_mem _ h⟩
          · exact .inr h
      | none =>
        simp only [loopOut, hg] at hc
        rcases ih _ c hc k hk with ⟨cv, h⟩ | ⟨w, h⟩
        · exact .inl ⟨cv, List.mem_cons_of_mem _ h⟩
        · rw [alGet_append_single] at h
          cases hw : alGet vars w with
          | some f => simp [hw] at h; subst h; exact .inr ⟨w, hw⟩
          | none =>
            simp [hw] at h
            obtain ⟨_, rfl⟩ := h
            exact .inl ⟨_, List.mem_cons_self⟩

theorem loopOut_arity (rest : List (K × CharVar)) :
    ∀ (vars : List (Nat × K)), ∀ c ∈ loopOut rest vars, c.args.length = c.pred.arity := by
  induction rest with
  | nil => intro vars c hc; simp [loopOut] at hc
  | cons x rest ih =>
    intro vars c hc
    obtain ⟨i, cv⟩ := x
    cases cv with
    | lit x =>
      simp only [loopOut, List.mem_cons] at hc
      rcases hc with rfl | hc
      · rfl
      · exact ih vars c hc
    | var v =>
      cases hg : alGet vars v with
      | some f =>
        simp only [loopOut, hg, List.mem_cons] at hc
        rcases hc with rfl | hc
        · rfl
        · exact ih vars c hc
      | none =>
        simp only [loopOut, hg] at hc
        exact ih _ c hc

/-- Every literal cell is mentioned by a loop constraint. -/
theorem loopOut_covers_lit (rest : List (K × CharVar)) :
    ∀ (vars : List (Nat × K)) (i : K) (x : Nat), (i, CharVar.lit x) ∈ rest →
      (⟨.constVal x, [i]⟩ : Constraint K CharPred) ∈ loopOut rest vars := by
  induction rest with
  | nil => intro vars i x h; simp at h
  | cons y rest ih =>
    intro vars i x h
    obtain ⟨j, cv⟩ := y
    rcases List.mem_cons.1 h with heq | h'
    · cases heq; simp [loopOut]
    · cases cv with
      | lit z => simp only [loopOut]; exact List.mem_cons_of_mem _ (ih vars i x h')
      | var v =>
        cases hg : alGet vars v with
        | some f => simp only [loopOut, hg]; exact List.mem_cons_of_mem _ (ih vars i x h')
        | none => simp only [loopOut, hg]; exact ih _ i x h'

/-- The generic equivalence: the loop's constraints hold and every variable cell exists, iff
every cell is matched. `sat` is any satisfaction predicate that reads a `constVal` constraint
as "the cell holds that character" and a `bindingEq` constraint as "the first cell exists and
both hold the same character". -/
theorem loop_sat_iff (sat : Constraint K CharPred → Prop) (val : K → Option Nat)
    (hlit : ∀ i c, sat ⟨.constVal c, [i]⟩ ↔ val i = some c)
    (heq : ∀ i f, sat ⟨.bindingEq, [i, f]⟩ ↔ ((val i).isSome ∧ val i = val f))
    (rest : List (K × CharVar)) :
    ∀ (pre : List (K × CharVar)) (vars : List (Nat × K)),
      (∀ v, alGet vars v = firstKey pre v) →
      (((∀ c ∈ loopOut rest vars, sat c) ∧ (∀ i v, (i, CharVar.var v) ∈ rest → (val i).isSome)) ↔
        ∀ x ∈ rest, cellOk val (firstKey (pre ++ rest)) x) := by
  induction rest with
  | nil => intro pre vars _; simp [loopOut]
  | cons x rest ih =>
    intro pre vars hinv
    obtain ⟨i, cv⟩ := x
    cases cv with
    | lit c =>
      have ih' := ih (pre ++ [(i, .lit c)]) vars (by
        intro v; rw [hinv, firstKey_append]
        have : firstKey [(i, CharVar.lit c)] v = none := by simp [firstKey]
        rw [this]; simp)
      rw [List.append_assoc, List.singleton_append] at ih'
      simp only [loopOut, List.mem_cons, forall_eq_or_imp, hlit]
      rw [← ih']
      simp only [cellOk, Prod.mk.injEq, reduceCtorEq, and_false, false_or]
      exact and_assoc
    | var v =>
      cases hg : alGet vars v with
      | some f =>
        have hfp : firstKey pre v = some f := by rw [← hinv, hg]
        have ih' := ih (pre ++ [(i, .var v)]) vars (by
          intro w; rw [hinv, firstKey_append, firstKey_cons_var]
          by_cases hw : v = w
          · subst hw; simp [hfp]
          · simp [hw, firstKey])
        rw [List.append_assoc, List.singleton_append] at ih'
        simp only [loopOut, hg, List.mem_cons, forall_eq_or_imp, heq]
        rw [← ih']
        have hfirst : firstKey (pre ++ (i, CharVar.var v) :: rest) v = some f := by
          rw [firstKey_append, hfp]; rfl
        simp only [cellOk, hfirst, Option.some.injEq, exists_eq_left', Prod.mk.injEq,
          CharVar.var.injEq]
        constructor
        · rintro ⟨⟨⟨h1, h2⟩, h3⟩, h4⟩
          exact ⟨⟨h1, h2.symm⟩, h3, fun j w hm => h4 j w (.inr hm)⟩
        · rintro ⟨⟨h1, h2⟩, h3, h4⟩
          refine ⟨⟨⟨h1, h2.symm⟩, h3⟩, ?_⟩
          rintro j w (⟨rfl, rfl⟩ | hm)
          · exact h1
          · exact h4 j w hm
      | none =>
        have hfp : firstKey pre v = none := by rw [← hinv, hg]
        have ih' := ih (pre ++ [(i, .var v)]) (vars ++ [(v, i)]) (by
          intro w; rw [alGet_append_single, hinv, firstKey_append, firstKey_cons_var]
          by_cases hw : v = w
          · subst hw; simp
          · simp [hw, firstKey])
        rw [List.append_assoc, List.singleton_append] at ih'
        simp only [loopOut, hg, List.mem_cons, forall_eq_or_imp]
        rw [← ih']
        have hfirst : firstKey (pre ++ (i, CharVar.var v) :: rest) v = some i := by
          rw [firstKey_append, hfp, firstKey_cons_var]; simp
        simp only [cellOk, hfirst, Option.some.injEq, exists_eq_left', Prod.mk.injEq,
          CharVar.var.injEq]
        constructor
        · rintro ⟨h1, h2⟩
          exact ⟨⟨h2 i v (.inl ⟨rfl, rfl⟩), trivial⟩, h1, fun j w hm => h2 j w (.inr hm)⟩
        · rintro ⟨⟨h1, _⟩, h3, h4⟩
          refine ⟨h3, ?_⟩
          rintro j w (⟨rfl, rfl⟩ | hm)
          · exact h1
          · exact h4 j w hm

/-- `loop_sat_iff` from the empty state. -/
theorem loop_sat_iff_nil (sat : Constraint K CharPred → Prop) (val : K → Option Nat)
    (hlit : ∀ i c, sat ⟨.constVal c, [i]⟩ ↔ val i = some c)
    (heq : ∀ i f, sat ⟨.bindingEq, [i, f]⟩ ↔ ((val i).isSome ∧ val i = val f))
    (cells : List (K × CharVar)) :
    ((∀ c ∈ loopOut cells [], sat c) ∧ (∀ i v, (i, CharVar.var v) ∈ cells → (val i).isSome)) ↔
      OccursCells val cells := by
  have := loop_sat_iff sat val hlit heq cells [] [] (by intro v; simp [alGet, firstKey])
  simpa [OccursCells] using this

/-! ### Generic: shapes of the produced constraints -/

/-- The two shapes of constraints the conversions produce. -/
def GoodShape (c : Constraint K CharPred) : Prop :=
  (∃ x i, c = ⟨.constVal x, [i]⟩) ∨ (∃ i f, c = ⟨.bindingEq, [i, f]⟩)

theorem GoodShape.arity {c : Constraint K CharPred} (h : GoodShape c) :
    c.args.length = c.pred.arity := by
  rcases h with ⟨x, i, rfl⟩ | ⟨i, f, rfl⟩ <;> rfl

theorem loopOut_shape (rest : List (K × CharVar)) :
    ∀ (vars : List (Nat × K)), ∀ c ∈ loopOut rest vars, GoodShape c := by
  induction rest with
  | nil => intro vars c hc; simp [loopOut] at hc
  | cons x rest ih =>
    intro vars c hc
    obtain ⟨i, cv⟩ := x
    cases cv with
    | lit x =>
      simp only [loopOut, List.mem_cons] at hc
      rcases hc with rfl | hc
      · exact .inl ⟨_, _, rfl⟩
      · exact ih vars c hc
    | var v =>
      cases hg : alGet vars v with
      | some f =>
        simp only [loopOut, hg, List.mem_cons] at hc
        rcases hc with rfl | hc
        · exact .inr ⟨_, _, rfl⟩
        · exact ih vars c hc
      | none =>
        simp only [loopOut, hg] at hc
        exact ih _ c hc

theorem GoodShape.args_isSome {sat : Constraint K CharPred → Prop} {val : K → Option Nat}
    (hlit : ∀ i c, sat ⟨.constVal c, [i]⟩ ↔ val i = some c)
    (heq : ∀ i f, sat ⟨.bindingEq, [i, f]⟩ ↔ ((val i).isSome ∧ val i = val f))
    {c : Constraint K CharPred} (hs : GoodShape c) (hc : sat c) :
    ∀ k ∈ c.args, (val k).isSome := by
  rcases hs with ⟨x, i, rfl⟩ | ⟨i, f, rfl⟩
  · intro k hk
    simp at hk; subst hk
    rw [(hlit _ _).1 hc]; rfl
  · intro k hk
    obtain ⟨h1, h2⟩ := (heq _ _).1 hc
    simp at hk
    rcases hk with rfl | rfl
    · exact h1
    · rw [← h2]; exact h1
end Generic


/-! ### Strings -/

def strCells (p : List CharVar) : List (Nat × CharVar) := (List.range p.length).zip p

theorem strCells_length (p : List CharVar) : (strCells p).length = p.length := by
  simp [strCells]

theorem strCells_getElem (p : List CharVar) (i : Nat) (h : i < (strCells p).length) :
    (strCells p)[i] = (i, p[i]'(by simpa [strCells] using h)) := by
  simp [strCells]

theorem mem_strCells {p : List CharVar} {i : Nat} {cv : CharVar} :
    (i, cv) ∈ strCells p ↔ p[i]? = some cv := by
  rw [List.mem_iff_getElem]
  constructor
  · rintro ⟨k, hk, he⟩
    rw [strCells_getElem] at he
    cases he
    simp
  · intro h
    obtain ⟨hi, he⟩ := List.getElem?_eq_some_iff.1 h
    exact ⟨i, by simpa [strCells] using hi, by rw [strCells_getElem, he]⟩

theorem firstKey_strCells (p : List CharVar) (v : Nat) :
    firstKey (strCells p) v = firstVarPos p v := by
  apply Option.ext
  intro j
  unfold firstKey firstVarPos
  rw [List.find?_range_eq_some]
  simp only [Option.map_eq_some_iff, List.find?_eq_some_iff_getElem]
  constructor
  · rintro ⟨x, ⟨hp, i, hi, hx, hmin⟩, rfl⟩
    rw [strCells_getElem] at hx
    subst hx
    have hi' : i < p.length := by simpa [strCells] using hi
    refine ⟨by simpa [hi'] using hp, by simpa using hi', ?_⟩
    intro k hk
    have := hmin k hk
    rw [strCells_getElem] at this
    have hk' : k < p.length := by omega
    simpa [hk'] using this
  · rintro ⟨hp, hj, hmin⟩
    have hj' : j < p.length := by simpa using hj
    have hjc : j < (strCells p).length := by simpa [strCells] using hj'
    refine ⟨(j, p[j]), ⟨?_, j, hjc, strCells_getElem _ _ _, ?_⟩, rfl⟩
    · simpa [hj'] using hp
    · intro k hk
      have := hmin k hk
      have hk' : k < p.length := by omega
      rw [strCells_getElem]
      simpa [hk'] using this



/-- Character seen through key `k` of the position map `m`. -/
def strVal (h : List Nat) (m : StrPos) (k : Nat) : Option Nat :=
  (StrPos.get m k).bind fun q => h[q]?

theorem str_sat_lit (h : List Nat) (m : StrPos) (i c : Nat) :
    satOrFalse StrPos.get strCheck ⟨.constVal c, [i]⟩ h m = some true ↔ strVal h m i = some c := by
  unfold satOrFalse isSatisfied isSatisfiedLog strVal
  cases hg : StrPos.get m i with
  | none => simp [resolveArgs, hg]
  | some q => simp [resolveArgs, hg, strCheck]

theorem str_sat_eq (h : List Nat) (m : StrPos) (i f : Nat) :
    satOrFalse StrPos.get strCheck ⟨.bindingEq, [i, f]⟩ h m = some true ↔
      ((strVal h m i).isSome ∧ strVal h m i = strVal h m f) := by
  unfold satOrFalse isSatisfied isSatisfiedLog strVal
  cases hg : StrPos.get m i with
  | none => simp [resolveArgs, hg]
  | some q =>
    cases hg' : StrPos.get m f with
    | none =>
      simp [resolveArgs, hg, hg']
    | some q' => simp [resolveArgs, hg, hg', strCheck]

theorem strVal_bound (h : List Nat) (a len k : Nat) :
    strVal h (.bound a len) k = if k < len then h[a + k]? else none := by
  simp only [strVal, StrPos.get]
  split <;> rfl

theorem occursStr_iff (p : List CharVar) (h : List Nat) (a : Nat) :
    occursStr p h a = true ↔ OccursCells (fun k => h[a + k]?) (strCells p) := by
  unfold occursStr OccursCells
  rw [List.all_eq_true]
  constructor
  · rintro H ⟨i, cv⟩ hx
    have hpi := mem_strCells.1 hx
    have hi : i < p.length := (List.getElem?_eq_some_iff.1 hpi).1
    have := H i (List.mem_range.2 hi)
    rw [hpi] at this
    cases cv with
    | lit c =>
      cases hh : h[a+i]? with
      | none => simp [hh] at this
      | some x => simp [hh] at this; simp [cellOk, hh, this]
    | var v =>
      cases hh : h[a+i]? with
      | none => simp [hh] at this
      | some x =>
        simp only [hh] at this
        rw [← firstKey_strCells] at this
        cases hf : firstKey (strCells p) v with
        | none => simp [hf] at this
        | some j =>
          simp [hf] at this
          exact ⟨by simp [hh], j, hf, by simp only; rw [this, hh]⟩
  · intro H i hi
    have hi' := List.mem_range.1 hi
    have hm : (i, p[i]) ∈ strCells p := mem_strCells.2 (by simp [hi'])
    have := H _ hm
    rw [List.getElem?_eq_getElem hi']
    cases hcv : p[i] with
    | lit c =>
      rw [hcv] at this
      simp only [cellOk] at this
      simp [this]
    | var v =>
      rw [hcv] at this
      obtain ⟨hs, f, hf, he⟩ := this
      simp only at hs he
      obtain ⟨y, hy⟩ := Option.isSome_iff_exists.1 hs
      rw [firstKey_strCells] at hf
      simp [hy, hf, he]

/-- `strConstraints` unfolded for a non-empty pattern. -/
theorem strConstraints_succ (p : List CharVar) (n : Nat) (hn : p.length = n + 1) :
    strConstraints p =
      if (loopOut (strCells p) []).any (fun c => c.args.contains n) then loopOut (strCells p) []
      else loopOut (strCells p) [] ++ [⟨.bindingEq, [n, n]⟩] := by
  unfold strConstraints
  simp only [charVarLoop_eq, List.nil_append]
  split
  · omega
  · rename_i m hm
    have : m = n := by omega
    subst this
    rfl

theorem strConstraints_nil : strConstraints [] = [] := by
  simp [strConstraints, charVarLoop]

/-- Membership in `strConstraints`: loop constraints, plus possibly the self-equality on the
last position. -/
theorem mem_strConstraints {p : List CharVar} {c : StrCons} (hc : c ∈ strConstraints p) :
    c ∈ loopOut (strCells p) [] ∨
      (p ≠ [] ∧ c = ⟨.bindingEq, [p.length - 1, p.length - 1]⟩) := by
  cases hp : p.length with
  | zero =>
    have : p = [] := List.length_eq_zero_iff.1 hp
    subst this
    simp [strConstraints_nil] at hc
  | succ n =>
    rw [strConstraints_succ p n hp] at hc
    split at hc
    · exact .inl hc
    · rcases List.mem_append.1 hc with h | h
      · exact .inl h
      · right
        refine ⟨by intro h0; simp [h0] at hp, ?_⟩
        simp at h
        simp [h]

theorem str_sat_all_iff (p : List CharVar) (h : List Nat) (a len : Nat) (hlen : p.length ≤ len) :
    (∀ c ∈ strConstraints p, satOrFalse StrPos.get strCheck c h (.bound a len) = some true) ↔
      OccursCells (strVal h (.bound a len)) (strCells p) := by
  have hlit := str_sat_lit h (.bound a len)
  have heq := str_sat_eq h (.bound a len)
  have hL := loop_sat_iff_nil
    (fun c => satOrFalse StrPos.get strCheck c h (.bound a len) = some true)
    (strVal h (.bound a len)) hlit heq (strCells p)
  cases hp : p.length with
  | zero =>
    have : p = [] := List.length_eq_zero_iff.1 hp
    subst this
    simp [strConstraints_nil, OccursCells, strCells]
  | succ n =>
    have hcontig : (strVal h (.bound a len) n).isSome → ∀ i v, (i, CharVar.var v) ∈ strCells p →
        (strVal h (.bound a len) i).isSome := by
      intro hs i v hm
      have hi : i < p.length := (List.getElem?_eq_some_iff.1 (mem_strCells.1 hm)).1
      rw [strVal_bound] at hs ⊢
      have h1 : n < len := by omega
      have h2 : i < len := by omega
      simp only [h1, h2, if_true] at hs ⊢
      simp only [isSome_getElem?] at hs ⊢
      omega
    have hlast : (n, p[n]) ∈ strCells p := mem_strCells.2 (by simp)
    rw [strConstraints_succ p n hp, ← hL]
    split
    · rename_i hany
      obtain ⟨c, hc, hk⟩ := List.any_eq_true.1 hany
      have hk := List.contains_iff_mem.1 hk
      constructor
      · intro H
        exact ⟨H, hcontig ((loopOut_shape _ _ c hc).args_isSome
          (sat := fun c => satOrFalse StrPos.get strCheck c h (.bound a len) = some true)
          hlit heq (H c hc) n hk)⟩
      · exact fun H => H.1
    · constructor
      · intro H
        have := (heq n n).1 (H _ (by simp))
        exact ⟨fun c hc => H c (by simp [hc]), hcontig this.1⟩
      · rintro ⟨H1, H2⟩ c hc
        rcases List.mem_append.1 hc with hc | hc
        · exact H1 c hc
        · simp at hc; subst hc
          exact (heq n n).2 ⟨(hL.1 ⟨H1, H2⟩).isSome hlast, rfl⟩

theorem strVal_congr (p : List CharVar) (h : List Nat) (a len : Nat) (hlen : p.length ≤ len) :
    ∀ x ∈ strCells p, strVal h (.bound a len) x.1 = h[a + x.1]? := by
  rintro ⟨i, cv⟩ hm
  have hi : i < p.length := (List.getElem?_eq_some_iff.1 (mem_strCells.1 hm)).1
  have : i < len := by omega
  simp [strVal_bound, this]

/-! ### C11, strings -/

/-- Instantiate a string pattern under a variable assignment. -/
def instStr (ρ : Nat → Nat) (p : List CharVar) : List Nat :=
  p.map fun | .lit c => c | .var v => ρ v

theorem occursStr_self (ρ : Nat → Nat) (p : List CharVar) :
    occursStr p (instStr ρ p) 0 = true := by
  rw [occursStr_iff]
  rintro ⟨i, cv⟩ hm
  have hpi := mem_strCells.1 hm
  cases cv with
  | lit c => simp [cellOk, instStr, hpi]
  | var v =>
    obtain ⟨f, hf⟩ := firstKey_isSome_of_mem hm
    have hpf := mem_strCells.1 (firstKey_mem hf)
    exact ⟨by simp [instStr, hpi], f, hf, by simp [instStr, hpi, hpf]⟩

theorem occursStr_extend (p : List CharVar) (h pre post : List Nat) (a : Nat)
    (ho : occursStr p h a = true) :
    occursStr p (pre ++ h ++ post) (a + pre.length) = true := by
  rw [occursStr_iff] at ho ⊢
  refine ho.mono ?_
  intro k x hk
  have hlt : a + k < h.length := (List.getElem?_eq_some_iff.1 hk).1
  rw [List.getElem?_append_left (by simp; omega), List.getElem?_append_right (by omega)]
  rw [← hk]; congr 1; omega

theorem occursStr_short (p : List CharVar) (h : List Nat) (a : Nat)
    (ho : occursStr p h a = true) (hp : p ≠ []) : a + p.length ≤ h.length := by
  rw [occursStr_iff] at ho
  have hpos : 0 < p.length := List.length_pos_iff.2 hp
  have hlast : (p.length - 1, p[p.length - 1]) ∈ strCells p := mem_strCells.2 (by simp)
  have := ho.isSome hlast
  simp only [isSome_getElem?] at this
  omega

/-! ### Matrices: cells -/

theorem mem_zip_range_dom {α : Type} {l : List α} {i : Nat} {x : α} :
    (i, x) ∈ (List.range l.length).zip l ↔ l[i]? = some x := by
  rw [List.mem_iff_getElem?]
  simp only [List.getElem?_zip_eq_some]
  constructor
  · rintro ⟨k, hk, he⟩
    have hlt : k < (List.range l.length).length := (List.getElem?_eq_some_iff.1 hk).1
    rw [List.getElem?_range (by simpa using hlt)] at hk
    cases hk
    exact he
  · intro h
    have hi : i < l.length := (List.getElem?_eq_some_iff.1 h).1
    exact ⟨i, List.getElem?_range hi, h⟩

theorem mem_matCells {p : MatPattern} {i j : Nat} {cv : CharVar} :
    (i, j, cv) ∈ matCells p ↔ ∃ row, p[i]? = some row ∧ row[j]? = some (some cv) := by
  unfold matCells
  simp only [List.mem_flatMap, List.mem_filterMap, Prod.exists, Option.map_eq_some_iff,
    Prod.mk.injEq]
  constructor
  · rintro ⟨i', row, hrow, j', ocv, hj, cv', rfl, rfl, rfl, rfl⟩
    exact ⟨row, mem_zip_range_dom.1 hrow, mem_zip_range_dom.1 hj⟩
  · rintro ⟨row, hrow, hj⟩
    exact ⟨i, row, mem_zip_range_dom.2 hrow, j, some cv, mem_zip_range_dom.2 hj, cv, rfl, rfl, rfl, rfl⟩

/-- The non-hole cells with keys re-associated as pairs. -/
def natCells (p : MatPattern) : List ((Nat × Nat) × CharVar) :=
  (matCells p).map fun x => ((x.1, x.2.1), x.2.2)

/-- Pattern offsets as signed keys. -/
def toKey (k : Nat × Nat) : MKey := ((k.1 : Int), (k.2 : Int))

theorem mem_natCells {p : MatPattern} {k : Nat × Nat} {cv : CharVar} :
    (k, cv) ∈ natCells p ↔ (k.1, k.2, cv) ∈ matCells p := by
  unfold natCells
  simp only [List.mem_map, Prod.exists, Prod.mk.injEq]
  constructor
  · rintro ⟨i, j, cv', hm, ⟨rfl, rfl⟩, rfl⟩; exact hm
  · intro h; exact ⟨k.1, k.2, cv, h, rfl, rfl⟩

theorem matEnumerate_eq (p : MatPattern) :
    matEnumerate p = (natCells p).map fun x => (toKey x.1, x.2) := by
  unfold matEnumerate natCells matCells
  rw [List.map_map, List.map_flatMap]
  congr 1
  funext ⟨i, row⟩
  simp only
  rw [List.map_filterMap]
  congr 1
  funext ⟨j, cv⟩
  cases cv <;> rfl

theorem firstKey_natCells (p : MatPattern) (v : Nat) :
    firstKey (natCells p) v = firstVarCell p v := by
  unfold firstKey natCells firstVarCell
  rw [List.find?_map]
  simp [Function.comp_def]

theorem occursMat_iff (p : MatPattern) (h : MatHost) (r c : Nat) :
    occursMat p h r c = true ↔
      ((matCell h r c).isSome ∧
        OccursCells (fun k => matCell h (r + k.1) (c + k.2)) (natCells p)) := by
  unfold occursMat OccursCells
  rw [Bool.and_eq_true, List.all_eq_true]
  apply and_congr Iff.rfl
  simp only [natCells, List.forall_mem_map]
  apply forall_congr'; rintro ⟨i, j, cv⟩
  apply imp_congr Iff.rfl
  have hfk := firstKey_natCells p
  unfold natCells at hfk
  cases cv with
  | lit x =>
    cases hh : matCell h (r + i) (c + j) with
    | none => simp [cellOk, hh]
    | some y => simp [cellOk, hh]
  | var v =>
    simp only [cellOk, hfk]
    cases hh : matCell h (r + i) (c + j) with
    | none => simp
    | some y =>
      cases hf : firstVarCell p v with
      | none => simp [hf]
      | some f => obtain ⟨i', j'⟩ := f; simp [hf]

/-! ### Matrices: satisfaction, extent, the repair fold -/

/-- Character seen through key `k` of the position map `m`. -/
def matVal (h : MatHost) (m : MatPos) (k : MKey) : Option Nat :=
  (MatPos.get m k).bind fun q => matCell h q.1 q.2

theorem mat_sat_lit (h : MatHost) (m : MatPos) (i : MKey) (c : Nat) :
    satOrFalse MatPos.get matCheck ⟨.constVal c, [i]⟩ h m = some true ↔ matVal h m i = some c := by
  unfold satOrFalse isSatisfied isSatisfiedLog matVal
  cases hg : MatPos.get m i with
  | none => simp [resolveArgs, hg]
  | some q => obtain ⟨qr, qc⟩ := q; simp [resolveArgs, hg, matCheck]

theorem mat_sat_eq (h : MatHost) (m : MatPos) (i f : MKey) :
    satOrFalse MatPos.get matCheck ⟨.bindingEq, [i, f]⟩ h m = some true ↔
      ((matVal h m i).isSome ∧ matVal h m i = matVal h m f) := by
  unfold satOrFalse isSatisfied isSatisfiedLog matVal
  cases hg : MatPos.get m i with
  | none => simp [resolveArgs, hg]
  | some q =>
    obtain ⟨qr, qc⟩ := q
    cases hg' : MatPos.get m f with
    | none =>
      simp [resolveArgs, hg, hg']
      intro hs hn
      simp [hn] at hs
    | some q' => obtain ⟨qr', qc'⟩ := q'; simp [resolveArgs, hg, hg', matCheck]

theorem MatPos.get_bound (r c i j : Nat) (maxr maxc : Int) (hi : (i : Int) ≤ maxr)
    (hj : (j : Int) ≤ maxc) :
    MatPos.get (.bound r c 0 0 maxr maxc) ((i : Int), (j : Int)) = some (r + i, c + j) := by
  have h1 : addSigned r (i : Int) = some (r + i) := by
    unfold addSigned
    have : ¬ ((r : Int) + (i : Int) < 0) := by omega
    simp only [this, if_false]
    congr 1
  have h2 : addSigned c (j : Int) = some (c + j) := by
    unfold addSigned
    have : ¬ ((c : Int) + (j : Int) < 0) := by omega
    simp only [this, if_false]
    congr 1
  have hc : ((i : Int) ≥ 0 ∧ (i : Int) ≤ maxr ∧ (j : Int) ≥ 0 ∧ (j : Int) ≤ maxc) :=
    ⟨by omega, hi, by omega, hj⟩
  simp only [MatPos.get, MatPos.getP, hc, and_self, if_true, h1, h2]

theorem matExtent_fold (l : List (Nat × Nat × CharVar)) :
    ∀ acc : Nat × Nat,
      let res := l.foldl (fun acc c => (max acc.1 c.1, max acc.2 c.2.1)) acc
      acc.1 ≤ res.1 ∧ acc.2 ≤ res.2 ∧ ∀ x ∈ l, x.1 ≤ res.1 ∧ x.2.1 ≤ res.2 := by
  induction l with
  | nil => intro acc; simp
  | cons y l ih =>
    intro acc
    have := ih (max acc.1 y.1, max acc.2 y.2.1)
    simp only [List.foldl_cons, List.mem_cons, forall_eq_or_imp] at this ⊢
    obtain ⟨h1, h2, h3⟩ := this
    refine ⟨by omega, by omega, ⟨by omega, by omega⟩, h3⟩

theorem matExtent_bound {p : MatPattern} {i j : Nat} {cv : CharVar}
    (h : (i, j, cv) ∈ matCells p) : i ≤ (matExtent p).1 ∧ j ≤ (matExtent p).2 :=
  (matExtent_fold (matCells p) (0, 0)).2.2 _ h

/-- One step of the repair fold in `matConstraints`. -/
def repairStep (cs : List MatCons) (cell : MKey × CharVar) : List MatCons :=
  match cell.2 with
  | .var _ => if cs.any (fun c => c.args.contains cell.1) then cs
              else cs ++ [⟨.bindingEq, [cell.1, cell.1]⟩]
  | .lit _ => cs

theorem matConstraints_eq (p : MatPattern) :
    matConstraints p =
      if ((matEnumerate p).foldl repairStep (loopOut (matEnumerate p) [])).isEmpty then
        [⟨.bindingEq, [(0, 0), (0, 0)]⟩]
      else (matEnumerate p).foldl repairStep (loopOut (matEnumerate p) []) := by
  unfold matConstraints
  simp only [charVarLoop_eq, List.nil_append]
  rfl

theorem matConstraintsOld_eq (p : MatPattern) :
    matConstraintsOld p =
      if (loopOut (matEnumerate p) []).isEmpty then [⟨.bindingEq, [(0, 0), (0, 0)]⟩]
      else loopOut (matEnumerate p) [] := by
  unfold matConstraintsOld
  simp only [charVarLoop_eq, List.nil_append]

theorem repairFold_sub (cells : List (MKey × CharVar)) :
    ∀ (cs : List MatCons), ∀ c ∈ cs, c ∈ cells.foldl repairStep cs := by
  induction cells with
  | nil => intro cs c hc; exact hc
  | cons x cells ih =>
    intro cs c hc
    simp only [List.foldl_cons]
    apply ih
    unfold repairStep
    split
    · split
      · exact hc
      · exact List.mem_append_left _ hc
    · exact hc

theorem repairFold_mem (cells : List (MKey × CharVar)) :
    ∀ (cs : List MatCons), ∀ c ∈ cells.foldl repairStep cs,
      c ∈ cs ∨ ∃ k v, (k, CharVar.var v) ∈ cells ∧ c = ⟨.bindingEq, [k, k]⟩ := by
  induction cells with
  | nil => intro cs c hc; exact .inl hc
  | cons x cells ih =>
    intro cs c hc
    simp only [List.foldl_cons] at hc
    rcases ih _ c hc with h | ⟨k, v, hm, rfl⟩
    · obtain ⟨k, cv⟩ := x
      cases cv with
      | lit z => exact .inl h
      | var v =>
        simp only [repairStep] at h
        split at h
        · exact .inl h
        · rcases List.mem_append.1 h with h | h
          · exact .inl h
          · simp at h
            exact .inr ⟨k, v, List.mem_cons_self, h⟩
    · exact .inr ⟨k, v, List.mem_cons_of_mem _ hm, rfl⟩

theorem repairFold_covers (cells : List (MKey × CharVar)) :
    ∀ (cs : List MatCons) (k : MKey) (v : Nat), (k, CharVar.var v) ∈ cells →
      ∃ c ∈ cells.foldl repairStep cs, k ∈ c.args := by
  induction cells with
  | nil => intro cs k v h; simp at h
  | cons x cells ih =>
    intro cs k v h
    simp only [List.foldl_cons]
    rcases List.mem_cons.1 h with rfl | h'
    · simp only [repairStep]
      split
      · rename_i hany
        obtain ⟨c, hc, hk⟩ := List.any_eq_true.1 hany
        exact ⟨c, repairFold_sub _ _ c hc, List.contains_iff_mem.1 hk⟩
      · exact ⟨_, repairFold_sub _ _ _ (List.mem_append_right _ List.mem_cons_self), by simp⟩
    · exact ih _ k v h'

/-! ### Matrices: the repaired constraint list -/

theorem mem_matEnumerate {p : MatPattern} {k : MKey} {cv : CharVar} :
    (k, cv) ∈ matEnumerate p ↔ ∃ i j, (i, j, cv) ∈ matCells p ∧ k = ((i : Int), (j : Int)) := by
  rw [matEnumerate_eq]
  simp only [List.mem_map, Prod.exists, Prod.mk.injEq]
  constructor
  · rintro ⟨i, j, cv', hm, rfl, rfl⟩
    exact ⟨i, j, mem_natCells.1 hm, rfl⟩
  · rintro ⟨i, j, hm, rfl⟩
    exact ⟨i, j, cv, mem_natCells.2 hm, rfl, rfl⟩

theorem repaired_shape (cells : List (MKey × CharVar)) :
    ∀ c ∈ cells.foldl repairStep (loopOut cells []), GoodShape c := by
  intro c hc
  rcases repairFold_mem cells _ c hc with h | ⟨k, v, _, rfl⟩
  · exact loopOut_shape _ _ c h
  · exact .inr ⟨_, _, rfl⟩

theorem repaired_sat_iff (sat : MatCons → Prop) (val : MKey → Option Nat)
    (hlit : ∀ i c, sat ⟨.constVal c, [i]⟩ ↔ val i = some c)
    (heq : ∀ i f, sat ⟨.bindingEq, [i, f]⟩ ↔ ((val i).isSome ∧ val i = val f))
    (cells : List (MKey × CharVar)) :
    (∀ c ∈ cells.foldl repairStep (loopOut cells []), sat c) ↔ OccursCells val cells := by
  rw [← loop_sat_iff_nil sat val hlit heq cells]
  constructor
  · intro H
    refine ⟨fun c hc => H c (repairFold_sub _ _ c hc), ?_⟩
    intro i v hm
    obtain ⟨c, hc, hk⟩ := repairFold_covers cells (loopOut cells []) i v hm
    exact (repaired_shape cells c hc).args_isSome hlit heq (H c hc) i hk
  · rintro ⟨H1, H2⟩ c hc
    rcases repairFold_mem cells _ c hc with h | ⟨k, v, hm, rfl⟩
    · exact H1 c h
    · exact (heq k k).2 ⟨H2 k v hm, rfl⟩

theorem repaired_covers (cells : List (MKey × CharVar)) (k : MKey) (cv : CharVar)
    (hm : (k, cv) ∈ cells) :
    ∃ c ∈ cells.foldl repairStep (loopOut cells []), k ∈ c.args := by
  cases cv with
  | lit x =>
    exact ⟨_, repairFold_sub _ _ _ (loopOut_covers_lit cells [] k x hm), by simp⟩
  | var v => exact repairFold_covers cells _ k v hm

theorem repaired_eq_nil (cells : List (MKey × CharVar))
    (h : cells.foldl repairStep (loopOut cells []) = []) : cells = [] := by
  cases cells with
  | nil => rfl
  | cons x rest =>
    obtain ⟨k, cv⟩ := x
    obtain ⟨c, hc, _⟩ := repaired_covers ((k, cv) :: rest) k cv List.mem_cons_self
    rw [h] at hc
    simp at hc

theorem repaired_args (cells : List (MKey × CharVar)) :
    ∀ c ∈ cells.foldl repairStep (loopOut cells []), ∀ k ∈ c.args, ∃ cv, (k, cv) ∈ cells := by
  intro c hc k hk
  rcases repairFold_mem cells _ c hc with h | ⟨k', v, hm, rfl⟩
  · rcases loopOut_args cells [] c h k hk with h | ⟨v, hv⟩
    · exact h
    · simp [alGet] at hv
  · simp at hk; subst hk; exact ⟨_, hm⟩

/-- Membership in `matConstraints`. -/
theorem mem_matConstraints {p : MatPattern} {c : MatCons} (hc : c ∈ matConstraints p) :
    c ∈ (matEnumerate p).foldl repairStep (loopOut (matEnumerate p) []) ∨
      (matEnumerate p = [] ∧ c = ⟨.bindingEq, [(0, 0), (0, 0)]⟩) := by
  rw [matConstraints_eq] at hc
  split at hc
  · rename_i he
    right
    exact ⟨repaired_eq_nil _ (List.isEmpty_iff.1 he), by simpa using hc⟩
  · exact .inl hc

theorem MatPos.get_bound_zero (r c : Nat) (maxr maxc : Int) (hi : 0 ≤ maxr) (hj : 0 ≤ maxc) :
    MatPos.get (.bound r c 0 0 maxr maxc) (0, 0) = some (r, c) := by
  have := MatPos.get_bound r c 0 0 maxr maxc (by simpa using hi) (by simpa using hj)
  simpa using this

theorem mat_sat_all_iff (p : MatPattern) (h : MatHost) (r c : Nat) (maxr maxc : Int)
    (h0r : 0 ≤ maxr) (h0c : 0 ≤ maxc) :
    ((matCell h r c).isSome ∧ ∀ k ∈ matConstraints p,
        satOrFalse MatPos.get matCheck k h (.bound r c 0 0 maxr maxc) = some true) ↔
      ((matCell h r c).isSome ∧
        OccursCells (matVal h (.bound r c 0 0 maxr maxc)) (matEnumerate p)) := by
  have hlit := mat_sat_lit h (.bound r c 0 0 maxr maxc)
  have heq := mat_sat_eq h (.bound r c 0 0 maxr maxc)
  have hR := repaired_sat_iff
    (fun k => satOrFalse MatPos.get matCheck k h (.bound r c 0 0 maxr maxc) = some true)
    (matVal h (.bound r c 0 0 maxr maxc)) hlit heq (matEnumerate p)
  rw [matConstraints_eq]
  split
  · rename_i he
    have hnil := repaired_eq_nil _ (List.isEmpty_iff.1 he)
    have hv : matVal h (.bound r c 0 0 maxr maxc) (0, 0) = matCell h r c := by
      simp [matVal, MatPos.get_bound_zero r c maxr maxc h0r h0c]
    rw [hnil]
    simp only [List.mem_singleton, forall_eq, heq, hv]
    simp [OccursCells]
  · rw [hR]

theorem matVal_natCells (p : MatPattern) (h : MatHost) (r c : Nat) (maxr maxc : Int)
    (hbox : ((matExtent p).1 : Int) ≤ maxr ∧ ((matExtent p).2 : Int) ≤ maxc) :
    ∀ x ∈ natCells p,
      matVal h (.bound r c 0 0 maxr maxc) (toKey x.1) = matCell h (r + x.1.1) (c + x.1.2) := by
  rintro ⟨⟨i, j⟩, cv⟩ hm
  have hb := matExtent_bound (mem_natCells.1 hm)
  simp only at hb
  have := MatPos.get_bound r c i j maxr maxc (by omega) (by omega)
  simp [matVal, toKey, this]

theorem mat_sat_iff_occurs (p : MatPattern) (h : MatHost) (r c : Nat) (maxr maxc : Int)
    (hbox : ((matExtent p).1 : Int) ≤ maxr ∧ ((matExtent p).2 : Int) ≤ maxc) :
    ((matCell h r c).isSome ∧ ∀ k ∈ matConstraints p,
        satOrFalse MatPos.get matCheck k h (.bound r c 0 0 maxr maxc) = some true) ↔
      occursMat p h r c = true := by
  rw [mat_sat_all_iff p h r c maxr maxc (by omega) (by omega), occursMat_iff, matEnumerate_eq,
    OccursCells.map,
    OccursCells.congr (val' := fun k => matCell h (r + k.1) (c + k.2))
      (matVal_natCells p h r c maxr maxc hbox)]

/-! ### C11, matrices -/

/-- Instantiate one pattern cell; holes become character `0`. -/
def instCell (ρ : Nat → Nat) : Option CharVar → Nat
  | none => 0
  | some (.lit c) => c
  | some (.var v) => ρ v

/-- Instantiate a matrix pattern under a variable assignment. -/
def instMat (ρ : Nat → Nat) (p : MatPattern) : MatHost :=
  p.map fun row => row.map (instCell ρ)

theorem matCell_instMat (ρ : Nat → Nat) {p : MatPattern} {i j : Nat}
    {row : List (Option CharVar)} {x : Option CharVar} (h1 : p[i]? = some row)
    (h2 : row[j]? = some x) : matCell (instMat ρ p) i j = some (instCell ρ x) := by
  simp [matCell, instMat, List.getElem?_map, h1, h2]

theorem occursMat_self (ρ : Nat → Nat) (p : MatPattern) (hp : p ≠ []) (hrow : p.head hp ≠ []) :
    occursMat p (instMat ρ p) 0 0 = true := by
  rw [occursMat_iff]
  constructor
  · cases p with
    | nil => exact absurd rfl hp
    | cons row rest =>
      cases row with
      | nil => exact absurd rfl hrow
      | cons x xs => simp [matCell, instMat]
  · rintro ⟨⟨i, j⟩, cv⟩ hm
    obtain ⟨row, h1, h2⟩ := mem_matCells.1 (mem_natCells.1 hm)
    have hv : matCell (instMat ρ p) (0 + i) (0 + j) = some (instCell ρ (some cv)) := by
      rw [Nat.zero_add, Nat.zero_add]; exact matCell_instMat ρ h1 h2
    cases cv with
    | lit x => exact hv
    | var v =>
      obtain ⟨f, hf⟩ := firstKey_isSome_of_mem hm
      obtain ⟨row', h1', h2'⟩ := mem_matCells.1 (mem_natCells.1 (firstKey_mem hf))
      have hv' : matCell (instMat ρ p) (0 + f.1) (0 + f.2) =
          some (instCell ρ (some (.var v))) := by
        rw [Nat.zero_add, Nat.zero_add]; exact matCell_instMat ρ h1' h2'
      exact ⟨by simp only; rw [hv]; rfl, f, hf, by simp only; rw [hv, hv']⟩

/-- Occurrence is monotone in the host's cells (relative to possibly shifted anchors). -/
theorem occursMat_mono (p : MatPattern) (h h' : MatHost) (r c r' c' : Nat)
    (hm : ∀ i j x, matCell h (r + i) (c + j) = some x → matCell h' (r' + i) (c' + j) = some x)
    (ho : occursMat p h r c = true) : occursMat p h' r' c' = true := by
  rw [occursMat_iff] at ho ⊢
  obtain ⟨ha, hc⟩ := ho
  constructor
  · obtain ⟨x, hx⟩ := Option.isSome_iff_exists.1 ha
    have := hm 0 0 x (by simpa using hx)
    simp only [Nat.add_zero] at this
    simp [this]
  · exact hc.mono (fun k x hk => hm k.1 k.2 x hk)

theorem matCell_some_lt {h : MatHost} {a b x : Nat} (hx : matCell h a b = some x) :
    a < h.length := by
  unfold matCell at hx
  cases hr : h[a]? with
  | none => simp [hr] at hx
  | some row => exact (List.getElem?_eq_some_iff.1 hr).1

theorem occursMat_extend_rows (p : MatPattern) (h below : MatHost) (r c : Nat)
    (ho : occursMat p h r c = true) : occursMat p (h ++ below) r c = true := by
  refine occursMat_mono p h _ r c r c ?_ ho
  intro i j x hx
  have hlt := matCell_some_lt hx
  unfold matCell at hx ⊢
  rw [List.getElem?_append_left hlt]
  exact hx

theorem occursMat_extend_above (p : MatPattern) (h above : MatHost) (r c : Nat)
    (ho : occursMat p h r c = true) : occursMat p (above ++ h) (r + above.length) c = true := by
  refine occursMat_mono p h _ r c _ c ?_ ho
  intro i j x hx
  unfold matCell at hx ⊢
  rw [List.getElem?_append_right (by omega)]
  have : r + above.length + i - above.length = r + i := by omega
  rw [this]
  exact hx

theorem occursMat_extend_right (p : MatPattern) (h h' : MatHost) (r c : Nat)
    (hlen : h'.length = h.length)
    (hpre : ∀ (i : Nat) (row row' : List Nat), h[i]? = some row → h'[i]? = some row' → row <+: row')
    (ho : occursMat p h r c = true) : occursMat p h' r c = true := by
  refine occursMat_mono p h _ r c r c ?_ ho
  intro i j x hx
  have hlt := matCell_some_lt hx
  unfold matCell at hx ⊢
  cases hr : h[r + i]? with
  | none => simp [hr] at hx
  | some row =>
    have hlt' : r + i < h'.length := by omega
    have hr' : h'[r + i]? = some h'[r + i] := List.getElem?_eq_getElem hlt'
    obtain ⟨t, ht⟩ := hpre _ _ _ hr hr'
    simp only [hr] at hx
    simp only [hr', ← ht]
    have hj : c + j < row.length := (List.getElem?_eq_some_iff.1 hx).1
    rw [List.getElem?_append_left hj]
    exact hx

end Pm
