/-
Proofs/BuildScopes.lean — `populate_scopes`: it only changes the `scope` fields (frame), a
successful run certifies acyclicity (a rank decreasing along the edges), and the acceptance
semantics do not read the `scope` fields (congruence).
-/
import PmVerif.Proofs.BuildCommon
namespace Pm
namespace Automaton
variable {K P : Type}

/-! ### Frame of `setScopes` / `populateScopes` -/

/-- Overwriting one `scope` field preserves the invariant and everything the semantics read. -/
theorem setScope_frame {a : Automaton K P} (inv : Inv a) (n : Nat) (sc : List K) :
    Inv ({ a with g := a.g.setWeight n fun w => { w with scope := sc } } : Automaton K P) ∧
    (∀ x, (((a.g.setWeight n fun w => { w with scope := sc }).weight? x).map
            (fun w => (w.matches_, w.det, w.corder, w.eorder))) =
          (a.g.weight? x).map (fun w => (w.matches_, w.det, w.corder, w.eorder))) := by
  refine ⟨inv.setWeight n _ (fun _ => rfl) (fun _ => rfl), fun x => ?_⟩
  rw [SGraph.setWeight_weight?]
  split
  · cases a.g.weight? x <;> rfl
  · rfl

variable [DecidableEq K]

theorem setScopes_frame {req : K → List K} {fuel : Nat} {fwd bwd : List (Nat × List K)} :
    ∀ (ns : List Nat) {a a' : Automaton K P}, Inv a →
      setScopes req fuel fwd bwd a ns = .ok a' →
      Inv a' ∧ a'.root = a.root ∧ (∀ t, a'.g.edge? t = a.g.edge? t) ∧
      (∀ x, (a'.g.weight? x).map (fun w => (w.matches_, w.det, w.corder, w.eorder)) =
            (a.g.weight? x).map (fun w => (w.matches_, w.det, w.corder, w.eorder)))
  | [], a, a', inv, h => by
    simp only [setScopes] at h
    cases h
    exact ⟨inv, rfl, fun _ => rfl, fun _ => rfl⟩
  | n :: ns, a, a', inv, h => by
    rw [setScopes] at h
    split at h
    · simp only at h
      split at h
      · cases h
      · split at h
        · cases h
        · split at h
          · cases h
          · rename_i a1 hm
            obtain ⟨_, rfl⟩ := modifyState_ok hm
            obtain ⟨inv1, hw1⟩ := setScope_frame inv n _
            obtain ⟨inv', hr, he, hw⟩ := setScopes_frame ns inv1 h
            exact ⟨inv', hr, he, fun x => (hw x).trans (hw1 x)⟩
    · cases h

/-- `populate_scopes` only changes `scope` fields. -/
theorem populateScopes_frame {req : K → List K} {fuel : Nat} {a a' : Automaton K P} (inv : Inv a)
    (h : populateScopes req fuel a = .ok a') :
    Inv a' ∧ a'.root = a.root ∧ (∀ t, a'.g.edge? t = a.g.edge? t) ∧
    (∀ x, (a'.g.weight? x).map (fun w => (w.matches_, w.det, w.corder, w.eorder)) =
          (a.g.weight? x).map (fun w => (w.matches_, w.det, w.corder, w.eorder))) := by
  unfold populateScopes at h
  split at h
  · cases h
  · split at h
    · exact setScopes_frame _ inv h
    · cases h
    · cases h

/-! ### A successful `topoOrder` certifies acyclicity -/

omit [DecidableEq K] in
/-- The Kahn loop of `topoOrder` maintains `SGraph.KahnInv` (as `SGraph.isAcyclic_go_sound`). -/
theorem topoOrder_go_sound (a : Automaton K P) {order : List Nat} :
    ∀ (fuel : Nat) (done : List Nat), SGraph.KahnInv a.g done →
      topoOrder.go a a.g.nodeIndices fuel done = some order →
      ∃ done', SGraph.KahnInv a.g done' ∧ done'.length = a.g.nodeIndices.length
  | 0, done, inv, h => by
    rw [topoOrder.go] at h
    split at h
    · rename_i hlen
      exact ⟨done, inv, by simpa using hlen⟩
    · cases h
  | f + 1, done, inv, h => by
    rw [topoOrder.go] at h
    split at h
    · split at h
      · rename_i hlen
        exact ⟨done, inv, by simpa using hlen⟩
      · cases h
    · exact topoOrder_go_sound a f _ (SGraph.kahnInv_step inv) h

/-- A successful `populate_scopes` certifies acyclicity: a rank decreasing along edges. -/
theorem populateScopes_rank {req : K → List K} {fuel : Nat} {a a' : Automaton K P} (inv : Inv a)
    (h : populateScopes req fuel a = .ok a') :
    ∃ rank : Nat → Nat, ∀ t e, a.g.edge? t = some e → rank e.dst < rank e.src := by
  unfold populateScopes at h
  split at h
  · cases h
  · rename_i order ho
    clear h
    unfold topoOrder at ho
    obtain ⟨done, ⟨hnd, hlive, rank, k, hk, hrank⟩, hlen⟩ :=
      topoOrder_go_sound a _ [] (SGraph.kahnInv_nil a.g) ho
    have hall := subset_of_nodup_of_length_le done a.g.nodeIndices hnd hlive (by omega)
    refine ⟨fun x => k - rank x, fun t e he => ?_⟩
    have hdst : e.dst ∈ done := hall _ (SGraph.mem_nodeIndices.2 (inv.ok.edge_live t e he).2)
    obtain ⟨nd, hnd', hinc⟩ := inv.wf.edge_dst t e he
    have hp : e.src ∈ a.g.preds e.dst := SGraph.mem_preds.2 ⟨nd, t, e, hnd', hinc, he, rfl⟩
    have h1 := (hrank _ hdst _ hp).2
    have h2 := hk _ hdst
    show k - rank e.dst < k - rank e.src
    omega

/-! ### The semantics do not read `scope` -/

omit [DecidableEq K]

/-- Transfer of a weight along the hypothesis on the fields the semantics read. -/
theorem weight_of_view {a a' : Automaton K P}
    (hw : ∀ x, (a'.g.weight? x).map (fun w => (w.matches_, w.det, w.corder, w.eorder)) =
          (a.g.weight? x).map (fun w => (w.matches_, w.det, w.corder, w.eorder)))
    {s : Nat} {w : AState K} (h : a.g.weight? s = some w) :
    ∃ w', a'.g.weight? s = some w' ∧ w'.matches_ = w.matches_ ∧ w'.det = w.det ∧
      w'.corder = w.corder ∧ w'.eorder = w.eorder := by
  have := hw s
  rw [h] at this
  cases h' : a'.g.weight? s with
  | none => rw [h'] at this; cases this
  | some w' =>
    rw [h'] at this
    simp only [Option.map_some, Option.some.injEq, Prod.mk.injEq] at this
    exact ⟨w', rfl, this.1, this.2.1, this.2.2.1, this.2.2.2⟩

theorem fires_of_view {σ : Constraint K P → Bool} {a a' : Automaton K P}
    (he : ∀ t, a'.g.edge? t = a.g.edge? t) {w w' : AState K} (hc : w'.corder = w.corder)
    (h : fires σ a w) : fires σ a' w' := by
  obtain ⟨t, ht, e, c, hed, hcw, hs⟩ := h
  exact ⟨t, hc ▸ ht, e, c, (he t).trans hed, hcw, hs⟩

theorem accND_of_view {σ : Constraint K P → Bool} {a a' : Automaton K P}
    (he : ∀ t, a'.g.edge? t = a.g.edge? t)
    (hw : ∀ x, (a'.g.weight? x).map (fun w => (w.matches_, w.det, w.corder, w.eorder)) =
          (a.g.weight? x).map (fun w => (w.matches_, w.det, w.corder, w.eorder)))
    {s pid : Nat} (h : AccND σ a s pid) : AccND σ a' s pid := by
  induction h with
  | here hws hp =>
    obtain ⟨w', hw', hm, _, _, _⟩ := weight_of_view hw hws
    exact .here hw' (hm ▸ hp)
  | step hws ht hed hc _ ih =>
    obtain ⟨w', hw', _, _, hco, heo⟩ := weight_of_view hw hws
    exact .step hw' (by rw [hco, heo]; exact ht) ((he _).trans hed) hc ih

theorem accDet_of_view {σ : Constraint K P → Bool} {a a' : Automaton K P}
    (he : ∀ t, a'.g.edge? t = a.g.edge? t)
    (hw : ∀ x, (a'.g.weight? x).map (fun w => (w.matches_, w.det, w.corder, w.eorder)) =
          (a.g.weight? x).map (fun w => (w.matches_, w.det, w.corder, w.eorder)))
    {s pid : Nat} (h : AccDet σ a s pid) : AccDet σ a' s pid := by
  induction h with
  | here hws hp =>
    obtain ⟨w', hw', hm, _, _, _⟩ := weight_of_view hw hws
    exact .here hw' (hm ▸ hp)
  | con hws ht hed hcw hs _ ih =>
    obtain ⟨w', hw', _, _, hco, _⟩ := weight_of_view hw hws
    exact .con hw' (hco ▸ ht) ((he _).trans hed) hcw hs ih
  | eps hws ht hed hdet _ ih =>
    obtain ⟨w', hw', _, hd, hco, heo⟩ := weight_of_view hw hws
    refine .eps hw' (heo ▸ ht) ((he _).trans hed) ?_ ih
    rcases hdet with h1 | h1
    · exact .inl (hd.trans h1)
    · exact .inr fun hf => h1 (fires_of_view (fun t => (he t).symm) hco.symm hf)

/-- Semantics only read `matches_`, `det`, the orders and the edges. -/
theorem sem_congr {a a' : Automaton K P}
    (he : ∀ t, a'.g.edge? t = a.g.edge? t)
    (hw : ∀ x, (a'.g.weight? x).map (fun w => (w.matches_, w.det, w.corder, w.eorder)) =
          (a.g.weight? x).map (fun w => (w.matches_, w.det, w.corder, w.eorder)))
    (σ : Constraint K P → Bool) :
    (∀ s pid, AccND σ a' s pid ↔ AccND σ a s pid) ∧
    (∀ s pid, AccDet σ a' s pid ↔ AccDet σ a s pid) ∧
    (DetOK σ a → DetOK σ a') := by
  have he' : ∀ t, a.g.edge? t = a'.g.edge? t := fun t => (he t).symm
  have hw' : ∀ x, (a.g.weight? x).map (fun w => (w.matches_, w.det, w.corder, w.eorder)) =
      (a'.g.weight? x).map (fun w => (w.matches_, w.det, w.corder, w.eorder)) :=
    fun x => (hw x).symm
  refine ⟨fun s pid => ⟨accND_of_view he' hw', accND_of_view he hw⟩,
    fun s pid => ⟨accDet_of_view he' hw', accDet_of_view he hw⟩, ?_⟩
  intro dok s w1 hw1 hd1 hf1 t ht e hed pid hacc
  obtain ⟨w, hws, _, hd, hco, heo⟩ := weight_of_view hw' hw1
  obtain ⟨t', ht', e', c, hed', hcw, hs, hacc'⟩ :=
    dok s w hws (hd.trans hd1) (fires_of_view he' hco hf1) t (heo ▸ ht) e ((he' t).trans hed) pid
      (accND_of_view he' hw' hacc)
  exact ⟨t', hco ▸ ht', e', c, (he t').trans hed', hcw, hs, accND_of_view he hw hacc'⟩

end Automaton
end Pm
