/-
Proofs/C05PGAll.lean — helpers for `Props/C05PGAll.lean`: binding-level soundness of the BASELINE
matcher (`singleMatches`) for an arbitrary lawful domain, from the generic theorems T-SINGLE
(`Props/TRun.lean`):

* `requested_of_ok`   a successful `singleMatches` computed its requested key list;
* `requested_spec`    on a rank-acyclic scheme that list is exactly the keys of the constraints and
                      their transitive prerequisites (`MissingSpec`, C12), in particular it contains
                      every key of every constraint;
* `single_sound`      a reported binding is `retain requested` of a derivable survivor, binds every
                      requested key and satisfies every constraint (retaining the requested keys
                      keeps the keys of the constraints, and `satOrFalse` only reads those);
* `deriv_good`        every value bound in a derivable survivor was offered by the host
                      (the baseline's counterpart of `C01G.reach_good`);
* `pg_opts_root0`, `pg_single_root0_live`   port graphs: the value of `root 0` in a reported
                      binding is a live host node.
-/
import PmVerif.Proofs.C01GenPGEmb
import PmVerif.Props.C12
namespace Pm.C05A
open C01G

section Generic
variable {K V P H M : Type} [DecidableEq K] {D : Domain K V P H M} {h : H}

/-- A successful baseline run computed its requested key list. -/
theorem requested_of_ok {cs : List (Constraint K P)} {fuel : Nat} {out : List M}
    (hs : singleMatches D cs h fuel = .ok out) :
    ∃ requested, requestedBindings D cs fuel = some requested := by
  unfold singleMatches at hs
  cases hq : requestedBindings D cs fuel with
  | none => rw [hq] at hs; cases hs
  | some r => exact ⟨r, rfl⟩

/-- On a rank-acyclic scheme the requested keys are exactly the keys of the constraints and their
transitive prerequisites; every key of every constraint is requested. -/
theorem requested_spec (hacy : RankAcyclic D.req) {cs : List (Constraint K P)} {fuel : Nat}
    {requested : List K} (hq : requestedBindings D cs fuel = some requested) :
    MissingSpec D.req [] (cs.flatMap (·.args)) requested ∧
      ∀ c ∈ cs, ∀ k ∈ c.args, k ∈ requested := by
  have spec : MissingSpec D.req [] (cs.flatMap (·.args)) requested :=
    c12_all_any_fuel D.req hacy _ [] fuel requested hq
  exact ⟨spec, fun c hc k hk =>
    (spec.exact k).2 (.root (List.mem_flatMap.2 ⟨c, hc, hk⟩) List.not_mem_nil)⟩

/-- **Soundness of the baseline at the binding level, any lawful domain.** If the requested list
contains the keys of the constraints, a reported binding satisfies every constraint, binds every
requested key, and is `retain requested` of a derivable survivor. -/
theorem single_sound (L : LawfulDomain D h) {cs : List (Constraint K P)} {fuel : Nat}
    {out : List M} {requested : List K} (hs : singleMatches D cs h fuel = .ok out)
    (hq : requestedBindings D cs fuel = some requested)
    (hsub : ∀ c ∈ cs, ∀ k ∈ c.args, k ∈ requested) {m' : M} (hm : m' ∈ out) :
    (∀ c ∈ cs, satOrFalse D.map.get D.check c h m' = some true) ∧
    (∀ k ∈ requested, (D.map.get m' k).isSome = true) ∧
    ∃ m, SingleDeriv D h fuel cs D.map.empty m ∧ D.map.retain m requested = some m' := by
  obtain ⟨⟨m, hd, hret⟩, hb⟩ := (tsingle_mem hs hq m').mp hm
  refine ⟨fun c hc => ?_, hb, m, hd, hret⟩
  have hsat := tsingle_sound L.keeps cs fuel m (tsingle_complete hd) c hc
  exact sat_congr _ _ c h m m'
    (fun k hk v hg => L.retain_keeps m requested m' hret k (hsub c hc k hk) v hg) hsat

/-- Every value bound at the end of a derivation of the baseline was bound at its start or offered
by the host for its key. -/
theorem deriv_good (O : MapOnly D) (Good : K → V → Prop)
    (hopts : ∀ m k v, D.map.get m k = none → v ∈ D.opts h k m → Good k v)
    {cs : List (Constraint K P)} {fuel : Nat} {m r : M} (hd : SingleDeriv D h fuel cs m r)
    (hm : ∀ k v, D.map.get m k = some v → Good k v) : ∀ k v, D.map.get r k = some v → Good k v := by
  induction hd with
  | nil => exact hm
  | cons _ he _ _ ih => exact ih (ext_good O Good hopts he hm)

/-- … and so was every value of a binding reported by the baseline. -/
theorem single_good (O : MapOnly D) (Good : K → V → Prop)
    (hopts : ∀ m k v, D.map.get m k = none → v ∈ D.opts h k m → Good k v)
    {cs : List (Constraint K P)} {fuel : Nat} {out : List M} {requested : List K}
    (hs : singleMatches D cs h fuel = .ok out)
    (hq : requestedBindings D cs fuel = some requested) {m' : M} (hm : m' ∈ out) :
    ∀ k v, D.map.get m' k = some v → Good k v := by
  obtain ⟨⟨m, hd, hret⟩, _⟩ := (tsingle_mem hs hq m').mp hm
  intro k v hg
  refine deriv_good O Good hopts hd (fun k v hg => ?_) k v (O.retain_only _ _ _ hret k v hg)
  rw [O.empty_none] at hg
  exact absurd hg (by simp)

end Generic

/-! ### port graphs -/

/-- The candidates the host offers for the unbound key `root 0` are its live nodes. -/
theorem pg_opts_root0 (h : PortGraph) (m : PGMap) (k : PGKey) (v : Nat)
    (hnone : pgDomain.map.get m k = none) (hv : v ∈ pgDomain.opts h k m) :
    k = PGKey.root 0 → v ∈ h.nodesIter := by
  intro hk
  subst hk
  have hopt : pgDomain.opts h (.root 0) m = h.nodesIter := by
    show pgOpts h (.root 0) m = _
    unfold pgOpts pgOptsP
    have : alGet m (PGKey.root 0) = none := hnone
    rw [this]
    rfl
  rw [hopt] at hv
  exact hv

/-- The value of `root 0` in a binding reported by the baseline is a live host node. -/
theorem pg_single_root0_live {cs : List PGCons} {h : PortGraph} {fuel : Nat} {out : List PGMap}
    (hs : singleMatches pgDomain cs h fuel = .ok out) {m : PGMap} (hm : m ∈ out) {r : Nat}
    (hg : alGet m (.root 0) = some r) : (h.node? r).isSome = true := by
  obtain ⟨requested, hq⟩ := requested_of_ok hs
  exact (PortGraph.mem_nodesIter h r).1
    (single_good (assoc_mapOnly pgDomain rfl) (fun k v => k = PGKey.root 0 → v ∈ h.nodesIter)
      (pg_opts_root0 h) hs hq hm (.root 0) r hg rfl)

end Pm.C05A
