/-
Proofs/StrProgTreeStep.lean — the step-level invariant `SP` (Proofs/StrProgDefs.lean) is
preserved by `insert_constraint_tree`, for a tree decomposition satisfying `TreeHyp`: the
structural context `Ctx` of Proofs/BuildTreeSem.lean is re-assembled from the run (as
`subStep_of_run` / `insertConstraintTree_spec_of` do) and `SP` is read off its classification of
the edges of the result. Everything lives in `namespace Pm.StrProg`.
-/
import PmVerif.Proofs.StrProgDefs
import PmVerif.Proofs.BuildTreeSem
import PmVerif.Proofs.BuildTreeLoop
namespace Pm
namespace StrProg
open Automaton
variable {K P : Type}

section Sem
variable {E : Nat → Prop} {Q : Constraint K P → Prop}
variable {σ : Constraint K P → Bool} {a a1 a2 a' : Automaton K P} {s : Nat} {w : AState K}
  {cs : List (Constraint K P)} {ch : List Nat} {tree : CTree (Constraint K P)} {fuel : Nat}
  {added : List Nat} {Rep : Nat → Nat → Prop} {F : Nat → Prop}

/-- `SP` from the structural context of the non-trivial branch of `insert_constraint_tree`. -/
theorem sp_ctx (X : Ctx σ a a1 a2 a' s w cs ch tree fuel added Rep F)
    (h0 : tree.labelsAt 0 = [])
    (hchild : ∃ c n', (c, n') ∈ tree.childrenAt 0 ∧
      (tree.childrenAt n' ≠ [] ∨ tree.labelsAt n' ≠ []))
    (hQ : (∀ c ∈ cs, Q c) → ∀ n c n', (c, n') ∈ tree.childrenAt n → Q c)
    (sp : SP E Q a) : SP E Q a' := by
  -- every drained constraint satisfies `Q`
  have hcs : ∀ c ∈ cs, Q c := by
    intro c hc
    obtain ⟨i, hi⟩ := List.mem_iff_getElem?.1 hc
    have hlt : i < ch.length := by
      rw [X.len]; exact (List.getElem?_eq_some_iff.1 hi).1
    obtain ⟨t, _, he⟩ := X.idx_edge i c ch[i] hi (List.getElem?_eq_getElem hlt)
    exact sp.efrom t _ c he rfl
  -- `s` has a constraint edge in `a'`
  have hS : ∃ t' e', a'.g.edge? t' = some e' ∧ e'.src = s ∧ e'.w.isSome = true := by
    obtain ⟨c, n', hc, hor⟩ := hchild
    obtain ⟨hin1, hin2⟩ := X.tb.inner 0 s c n' X.tb.rep_root hc
    rcases hor with hne | hne
    · obtain ⟨m', _, _, t, ht⟩ := hin1 hne
      exact ⟨t, _, X.fb.old t _ ht, rfl, rfl⟩
    · obtain ⟨i, hi⟩ := List.exists_mem_of_ne_nil _ hne
      obtain ⟨d, hd, hed⟩ := hin2 i hi
      obtain ⟨t, ht⟩ := hed (X.child_ne_s hd)
      exact ⟨t, _, X.fb.old t _ ht, rfl, rfl⟩
  refine ⟨?_, ?_, ?_⟩
  · intro t e c he hc
    rcases X.edge_cases he with ⟨h1, _⟩ | ⟨_, hn, _⟩ | ⟨n, c', n', _, hmem, hw, _⟩ |
        ⟨_, hn, _⟩ | ⟨_, i, c', _, hci, _, hw⟩
    · exact sp.efrom t e c h1 hc
    · rw [hn] at hc; cases hc
    · rw [hw] at hc; cases hc
      exact hQ hcs n c n' hmem
    · rw [hn] at hc; cases hc
    · rw [hw] at hc; cases hc
      exact hcs c (List.mem_of_getElem? hci)
  · intro x pid hi hE
    rw [X.root_eq]
    exact sp.emp x pid (X.ids_bwd hi) hE
  · intro t e he hn
    rcases X.edge_cases he with ⟨h1, _⟩ | ⟨_, _, i, hi, _⟩ | ⟨n, c', n', _, _, hw, _⟩ |
        ⟨hsrc, _, _⟩ | ⟨_, i, c', _, _, _, hw⟩
    · obtain ⟨t', e', he', hs', hw'⟩ := sp.noEps t e h1 hn
      by_cases ht' : t' ∈ w.corder
      · have : e.src = s := hs'.symm.trans (X.drained_src he' ht')
        rw [this]; exact hS
      · exact ⟨t', e', X.edge_fwd he' ht', hs', hw'⟩
    · rw [h0] at hi; cases hi
    · rw [hw] at hn; cases hn
    · rw [hsrc]; exact hS
    · rw [hw] at hn; cases hn

end Sem

section Main
variable [DecidableEq K] [DecidableEq P]

/-- Assembling the context from the run of `insert_constraint_tree` up to the fail state
(`subStep_of_run`, returning the context itself). -/
theorem ctx_of_run (hA : AddTreeStmt K P) {σ : Constraint K P → Bool}
    {toTree : List (Constraint K P) → Option (CTree (Constraint K P))} (hT : TreeOK toTree σ)
    {a a1 a2 a' : Automaton K P} {s fuel : Nat} {w : AState K} (inv : Inv a)
    (hw : a.g.weight? s = some w) (hdet : w.det = false)
    {drained : List (Option (Constraint K P) × Nat)}
    (hdr : a.drainConstraints s = .ok (a1, drained))
    (g : Option (Constraint K P) × Nat → Option (Constraint K P × Nat))
    {tree : CTree (Constraint K P)} {added : List Nat}
    (htree : toTree ((drained.filterMap g).map (·.1)) = some tree)
    (hadd : a1.addConstraintTree tree s ((drained.filterMap g).map (·.2)) fuel = .ok (a2, added))
    (hg : ∀ c d, g (c, d) = c.map fun c => (c, d))
    (hfb : Inv a2 → a2.Live s →
      (∀ (i : Nat) d, ((drained.filterMap g).map (·.2))[i]? = some d → a2.Live d) →
      ∃ F, FailBuilt a2 a' s ((drained.filterMap g).map (·.1))
        ((drained.filterMap g).map (·.2)) added F) :
    ∃ Rep F, Ctx σ a a1 a2 a' s w ((drained.filterMap g).map (·.1))
      ((drained.filterMap g).map (·.2)) tree fuel added Rep F := by
  obtain ⟨w', hw', sh, hmap⟩ := drainConstraints_shrinks inv hdr
  rw [hw] at hw'; cases hw'
  obtain ⟨hie, hei⟩ := drain_ctx inv.ok hw g hg drained hmap
  obtain ⟨hlt, hok⟩ := hT _ _ htree
  have hs1 : a1.Live s := (sh.live_iff s).2 (live_of_weight hw)
  obtain ⟨Rep, tb⟩ := hA a1 a2 tree s _ fuel added sh.inv hs1 hadd
  have hlen : ((drained.filterMap g).map (·.2)).length =
      ((drained.filterMap g).map (·.1)).length := by simp
  have hchl : ∀ (i : Nat) d, ((drained.filterMap g).map (·.2))[i]? = some d → a2.Live d := by
    intro i d hd
    have hi : i < ((drained.filterMap g).map (·.1)).length := by
      rw [← hlen]; exact (List.getElem?_eq_some_iff.1 hd).1
    obtain ⟨t, _, he⟩ := hie i _ d (List.getElem?_eq_getElem hi) hd
    exact live2_of sh tb (inv.ok.dst_live he)
  obtain ⟨F, fb⟩ := hfb tb.inv (live2_of sh tb (live_of_weight hw)) hchl
  exact ⟨Rep, F, Ctx.mk inv hw hdet sh hlen hie hei hlt hok tb fb⟩

/-- `insert_constraint_tree` preserves `SP`. -/
theorem sp_insertConstraintTree {E : Nat → Prop} {Q : Constraint K P → Prop}
    {σ : Constraint K P → Bool}
    {toTree : List (Constraint K P) → Option (CTree (Constraint K P))} (hT : TreeOK toTree σ)
    (hH : TreeHyp Q toTree)
    {a a' : Automaton K P} {s fuel : Nat} {det : Bool} (inv : Inv a)
    (sp : SP E Q a) (h : insertConstraintTree toTree a s fuel = .ok (a', det)) :
    SP E Q a' := by
  have hA : AddTreeStmt K P := addConstraintTree_built
  unfold insertConstraintTree at h
  split at h
  · cases h
  · rename_i w hw
    rw [state_ok_iff] at hw
    split at h
    · cases h; exact sp
    · rename_i hdet
      split at h
      · cases h; exact sp
      · rename_i hemp
        have hdet' : w.det = false := by cases hx : w.det <;> simp_all
        have hcne : w.corder ≠ [] := by
          intro hc
          rw [hc] at hemp
          exact hemp rfl
        split at h
        · cases h
        · rename_i a1 drained hdr
          extract_lets pairs cs ch at h
          split at h
          · cases h
          · rename_i tree htree
            split at h
            · cases h
            · rename_i a2 added hadd
              extract_lets notAdded at h
              have hmem : ∀ i, i ∈ notAdded ↔ i < cs.length ∧ i ∉ added := by
                intro i
                simp [notAdded, List.mem_filter, and_comm]
              -- common conclusion from a context
              have fin : ∀ {a'' : Automaton K P} {Rep F},
                  Ctx σ a a1 a2 a'' s w cs ch tree fuel added Rep F → SP E Q a'' := by
                intro a'' Rep F X
                obtain ⟨h0, hch, hQ⟩ := hH cs tree htree
                have hcsne : cs ≠ [] := by
                  obtain ⟨t, ht⟩ := List.exists_mem_of_ne_nil _ hcne
                  obtain ⟨i, c, d, hci, _, _⟩ := X.edge_idx t ht
                  exact List.ne_nil_of_mem (List.mem_of_getElem? hci)
                exact sp_ctx X h0 (hch hcsne) hQ sp
              split at h
              · rename_i hempna
                cases h
                obtain ⟨Rep, F, X⟩ := ctx_of_run hA hT inv hw hdet' hdr _ htree hadd
                  (by intro _ _; rfl) (by
                    intro inv2 _ _
                    refine ⟨_, failBuilt_nil inv2 s ch ?_⟩
                    intro i hi
                    refine Classical.byContradiction fun hn => ?_
                    have := (hmem i).2 ⟨hi, hn⟩
                    rw [List.isEmpty_iff.1 hempna] at this
                    cases this)
                exact fin X
              · split at h
                · cases h
                · rename_i a3 f h1
                  cases hrest : insertConstraintTree.addRest cs ch f a3 notAdded with
                  | error e => rw [hrest] at h; cases h
                  | ok a4 =>
                    rw [hrest] at h
                    cases h
                    obtain ⟨Rep, F, X⟩ := ctx_of_run hA hT inv hw hdet' hdr _ htree hadd
                      (by intro _ _; rfl) (by
                        intro inv2 hs2 hchl
                        exact ⟨_, failBuilt_cons inv2 hs2 hchl
                          (fun i h1 h2 => (hmem i).2 ⟨h1, h2⟩)
                          (fun i hi => ((hmem i).1 hi).2) h1 hrest⟩)
                    exact fin X

end Main

end StrProg
end Pm
