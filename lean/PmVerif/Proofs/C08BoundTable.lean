/-
Proofs/C08BoundTable.lean — C08 (totality) of the traversal for the TABLE domain
(`tDomain sch`, harness/src/table.rs): `RunSafe` with the trivial invariant (association-list
bindings never panic in `retain_keys`, `TPred::check` is total at the predicate's arity), the
option bound `tOptsBound h` (every answer of `THost::list_bind_options` is a concatenation of value
lists of the rules of ONE key) and the explicit fuel bound `tRunBound A h`.
Everything lives in `namespace Pm.C08B`.
-/
import PmVerif.Proofs.C08Bound
import PmVerif.Props.TRun
import PmVerif.Props.C03
import PmVerif.Proofs.C08PGBuilt
namespace Pm
namespace C08B
open Automaton C08 AnchG CTree
set_option linter.unusedSectionVars false

/-! ### arity-correct edge constraints, any domain -/

section Arity
variable {K V P H M : Type}

/-- Every constraint on a `constraint_order` entry of a live state has as many arguments as its
predicate's arity (the generic form of `C08PG.ArityOK`). -/
def ArityOKD (D : Domain K V P H M) (A : Automaton K P) : Prop :=
  ∀ s w, A.g.weight? s = some w → ∀ t ∈ w.corder, ∀ e c, A.g.edge? t = some e → e.w = some c →
    c.args.length = D.arity c.pred

/-- Decidable form of `ArityOKD`. -/
def arityOKb (D : Domain K V P H M) (A : Automaton K P) : Bool :=
  A.liveStates.all fun s => (A.stateD s).corder.all fun t =>
    match A.g.edge? t with
    | some ⟨_, _, some c⟩ => decide (c.args.length = D.arity c.pred)
    | _ => true

theorem arityOKb_sound (D : Domain K V P H M) (A : Automaton K P) (hb : arityOKb D A = true) :
    ArityOKD D A := by
  intro s w hw t ht e c he hc
  have hall := (liveStates_all A fun _ w => w.corder.all fun t =>
    match A.g.edge? t with
    | some ⟨_, _, some c⟩ => decide (c.args.length = D.arity c.pred)
    | _ => true).mp hb s w hw
  have := List.all_eq_true.mp hall t ht
  rw [he] at this
  obtain ⟨src, dst, ew⟩ := e
  cases hc
  simpa using this

end Arity

/-! ### the table domain -/

theorem tcheck_total (p : TPred) (h : THost) (vs : List Nat) (hvs : vs.length = p.arity) :
    (TPred.check p h vs).isSome = true := by
  cases p with
  | eq => match vs, hvs with
    | [_, _], _ => rfl
  | ne => match vs, hvs with
    | [_, _], _ => rfl
  | lt => match vs, hvs with
    | [_, _], _ => rfl
  | const c => match vs, hvs with
    | [_], _ => rfl
  | true_ n =>
    simp only [TPred.arity] at hvs
    simp [TPred.check, hvs]
  | notIn n =>
    match vs, hvs with
    | v :: vs, hvs =>
      simp only [TPred.arity, List.length_cons, Nat.add_right_cancel_iff] at hvs
      simp [TPred.check, hvs]

/-- The hypotheses of the generic traversal theorems for a table automaton with arity-correct
constraints, on ANY host and scheme: the invariant of binding maps is `True`. -/
theorem tSafe (sch : TScheme) {A : Automaton Nat TPred} (h : THost) (ok : OrdersOK A)
    (hroot : ∃ w, A.g.weight? A.root = some w) (har : ArityOKD (tDomain sch) A) :
    RunSafe (tDomain sch) A h (fun _ => True) where
  ok := ok
  root := hroot
  empty := trivial
  bind := fun _ _ _ _ _ _ _ => trivial
  scope := fun _ w _ m _ => ⟨alRetain m w.scope, rfl, trivial⟩
  keys := fun _ _ _ _ ks _ m _ => ⟨alRetain m ks, rfl⟩
  sat := by
    intro s w hw t ht e c he hc m _
    apply satOrFalse_isSome
    intro vs hvs
    exact tcheck_total c.pred h vs (hvs.trans (har s w hw t ht e c he hc))

/-- The largest total number of values in the rules of one key. -/
def tOptsBound (h : THost) : Nat :=
  (h.rules.map fun rs => (rs.map fun r => r.vals.length).sum).foldl max 0

/-- **Every answer of `THost::list_bind_options` is short**: any scheme, key and binding. -/
theorem tOpts_length_le (sch : TScheme) (h : THost) (k : Nat) (m : TMap) :
    (THost.opts sch h k m).length ≤ tOptsBound h := by
  unfold THost.opts
  split
  · exact Nat.zero_le _
  · have key : ∀ rs : List TRule, (rs.flatMap fun r => match r.cond with
          | none => r.vals
          | some (ck, cv) => if alGet m ck = some cv then r.vals else []).length ≤
        (rs.map fun r => r.vals.length).sum := by
      intro rs
      induction rs with
      | nil => simp
      | cons r rs ih =>
        rw [List.flatMap_cons, List.length_append, List.map_cons, List.sum_cons]
        have : (match r.cond with
            | none => r.vals
            | some (ck, cv) => if alGet m ck = some cv then r.vals else []).length ≤
              r.vals.length := by
          split
          · exact Nat.le_refl _
          · split <;> simp
        omega
    refine Nat.le_trans (key _) ?_
    unfold tOptsBound
    cases hk : h.rules[k]? with
    | none => simp [List.getD, hk]
    | some rs =>
      simp only [List.getD, hk, Option.getD_some]
      apply Anch.mem_le_foldl_max
      exact List.mem_map.mpr ⟨rs, List.mem_of_getElem? hk, rfl⟩

/-- The explicit fuel bound of the table traversal: `geom b n` with
`b = (max 1 (tOptsBound h)) ^ scopeLen A · outDeg A` and `n` the number of node slots. -/
def tRunBound (A : Automaton Nat TPred) (h : THost) : Nat :=
  geom ((max 1 (tOptsBound h)) ^ scopeLen A * outDeg A) A.g.nodes.length

theorem table_run_res (sch : TScheme) {A : Automaton Nat TPred} (h : THost) (ok : OrdersOK A)
    (hroot : ∃ w, A.g.weight? A.root = some w) (har : ArityOKD (tDomain sch) A) (fuel : Nat) :
    ResF A (run (tDomain sch) A h fuel) :=
  run_res (tSafe sch h ok hroot har) fuel

theorem table_run_total (sch : TScheme) {A : Automaton Nat TPred} (h : THost) (ok : OrdersOK A)
    (hroot : ∃ w, A.g.weight? A.root = some w) (har : ArityOKD (tDomain sch) A)
    (rank : Nat → Nat) (hle : ∀ s, rank s ≤ A.g.nodes.length)
    (hrank : ∀ t e, A.g.edge? t = some e → rank e.dst < rank e.src)
    (fuel : Nat) (hf : tRunBound A h ≤ fuel) : Res A (run (tDomain sch) A h fuel) := by
  apply run_terminates_of_opts_bound (tSafe sch h ok hroot har) rank hrank (tOptsBound h)
    (fun _ _ _ k _ m _ => tOpts_length_le sch h k m) fuel
  exact Nat.le_trans (geom_mono _ (hle A.root)) hf

/-! ### what a successful guarded build with a depth-one strategy provides -/

theorem pairwise_kept_sub {C : Type} (isMutex : C → C → Bool) :
    ∀ (cs : List (C × Nat)) (acc : List (C × List Nat)),
      (∀ ch ∈ acc, ∃ ci ∈ cs, ci.1 = ch.1) →
      ∀ (l : List (C × Nat)), (∀ x ∈ l, x ∈ cs) →
      ∀ ch ∈ l.foldl (fun (acc : List (C × List Nat)) (ci : C × Nat) =>
        if acc.all (fun o => isMutex o.1 ci.1) then acc ++ [(ci.1, [ci.2])] else acc) acc,
        ∃ ci ∈ cs, ci.1 = ch.1 := by
  intro cs acc hacc l
  induction l generalizing acc with
  | nil => intro _; exact hacc
  | cons x l ih =>
    intro hl
    rw [List.foldl_cons]
    apply ih
    · intro ch hch
      split at hch
      · rcases List.mem_append.mp hch with h1 | h1
        · exact hacc ch h1
        · rw [List.mem_singleton.mp h1]
          exact ⟨x, hl x List.mem_cons_self, rfl⟩
      · exact hacc ch hch
    · exact fun y hy => hl y (List.mem_cons_of_mem _ hy)

/-- The depth-one strategies of the table domain put input constraints on the edges. -/
theorem treeEdgesQ_tTree (Q : TCons → Prop) (s : Nat) (hs : s ≤ 2) (fuel : Nat) :
    TreeEdgesQ Q (fun cs => tTree s cs fuel) := by
  intro cs tree h hQ n c n' hmem
  replace h : tTree s cs fuel = some tree := h
  have hin : ∀ y ∈ sortWithIndices tconsLe cs, y.1 ∈ cs := fun y hy =>
    List.mem_of_getElem? ((mem_sortWithIndices tconsLe cs y.1 y.2).1 hy)
  unfold tTree at h
  split at h
  · cases h
    cases n <;> simp [CTree.new, childrenAt] at hmem
  · simp only at h
    split at h
    · cases h
      obtain ⟨-, ch, hch, rfl⟩ := StrProg.chRoot_withChildren _ n c n' hmem
      obtain ⟨ci, hci, rfl⟩ := List.mem_map.1 hch
      exact hQ _ (hin ci (List.mem_of_mem_take hci))
    · cases h
      generalize sortWithIndices tconsLe cs = sorted at hin hmem
      cases sorted with
      | nil => cases n <;> simp [withTransitiveMutex, CTree.new, childrenAt] at hmem
      | cons x rest =>
        obtain ⟨first, fi⟩ := x
        have hmem' : (c, n') ∈ (withChildren ((first, [fi]) ::
            (rest.filter fun ci => tconsMutex first ci.1).map fun ci => (ci.1, [ci.2]))).childrenAt n :=
          hmem
        obtain ⟨-, ch, hch, rfl⟩ := StrProg.chRoot_withChildren _ n c n' hmem'
        rcases List.mem_cons.1 hch with rfl | hch
        · exact hQ _ (hin _ List.mem_cons_self)
        · obtain ⟨ci, hci, rfl⟩ := List.mem_map.1 hch
          exact hQ _ (hin ci (List.mem_cons_of_mem _ (List.mem_filter.1 hci).1))
    · cases h
      have hmem' : (c, n') ∈ (withChildren ((sortWithIndices tconsLe cs).foldl
          (fun (acc : List (TCons × List Nat)) (ci : TCons × Nat) =>
            if acc.all (fun o => tconsMutex o.1 ci.1) then acc ++ [(ci.1, [ci.2])] else acc)
          [])).childrenAt n := hmem
      obtain ⟨-, ch, hch, rfl⟩ := StrProg.chRoot_withChildren _ n c n' hmem'
      obtain ⟨ci, hci, hceq⟩ := pairwise_kept_sub tconsMutex (sortWithIndices tconsLe cs) []
        (fun _ h => by cases h) _ (fun x hx => hx) ch hch
      rw [← hceq]
      exact hQ _ (hin ci hci)
    · rename_i h0 h1 h2
      exfalso
      match s, hs with
      | 0, _ => exact h0 rfl
      | 1, _ => exact h1 rfl
      | 2, _ => exact h2 rfl


/-- `OrdersOK`, a live root, arity-correct edge constraints and a bounded rank decreasing along
the edges, for every successful guarded build over a depth-one strategy of the table domain with
arity-correct inputs (any scheme, any log, any fuels). -/
theorem table_built_facts (s : Nat) (hs : s = 0 ∨ s = 1 ∨ s = 2) (tfuel : Nat) (sch : TScheme)
    (req : Nat → List Nat) (fuel : Nat) (inputs : List (Nat × List TCons × List Nat))
    (evs : List Ev) (A : Automaton Nat TPred)
    (hb : Automaton.build (fun cs => tTree s cs tfuel) req fuel inputs evs = .ok A)
    (har : ∀ p ∈ inputs, ∀ c ∈ p.2.1, c.args.length = c.pred.arity) :
    OrdersOK A ∧ (∃ w, A.g.weight? A.root = some w) ∧ ArityOKD (tDomain sch) A ∧
      ∃ rank : Nat → Nat, (∀ s, rank s ≤ A.g.nodes.length) ∧
        ∀ t e, A.g.edge? t = some e → rank e.dst < rank e.src := by
  have hT : ∀ σ, TreeOK (fun cs => tTree s cs tfuel) σ := fun σ => c03_treeOK_table s hs tfuel σ
  obtain ⟨ok, hroot, hrank⟩ := built_facts _ hT req fuel inputs evs A hb
  have hq := build_edgesQ (Q := fun c : TCons => c.args.length = c.pred.arity)
    (hT fun _ => true) (treeEdgesQ_tTree _ s (by omega) tfuel) hb har
  exact ⟨ok, hroot, fun _ _ _ t _ e c he hc => hq t e c he hc, hrank⟩

end C08B
end Pm
