/-
Proofs/C09TLDet.lean — C09 clause (c) for the replay of the Rust loop itself (`buildTL`, lenient
`makeDetL`): the step lemmas of `Proofs/C09Eps*.lean` restated for the lenient iteration.

* `makeDetL_noNewEps` — the unguarded `make_det(s)` creates no epsilon transition when no child of
  `s` has one (`C09E.ChildEF`); the proof of `C09E.makeDet_noNewEps` never uses the model guard.
* `iterationWithL_e1` — one iteration of `iterationWith makeDetL` keeps `Inv` and `C09E.E1All`
  ("at most one epsilon transition per state"), given that at the emission of `s` neither `s` nor
  any of its children has an epsilon transition (`C09E.EF a s`, `C09E.ChildEF a s`) — the content
  of the guard c1E, here a HYPOTHESIS to be supplied by the invariant `GE.INV`.
Everything lives in `namespace Pm.C09TL`.
-/
import PmVerif.Proofs.C09EpsMain
namespace Pm
namespace C09TL
open Automaton C09E
variable {K P : Type} [DecidableEq K] [DecidableEq P]
set_option linter.unusedSectionVars false

/-- **The unguarded `make_det(s)` creates no epsilon transition when no child of `s` has one.** -/
theorem makeDetL_noNewEps {a a' : Automaton K P} {s : Nat} (inv : Inv a) (hc : ChildEF a s)
    (h : a.makeDetL s = .ok a') : Inv a' ∧ NoNewEps a a' := by
  unfold makeDetL at h
  split at h
  · cases h
  · rename_i a0 wd hsd
    obtain ⟨w, rfl, r⟩ := setDeterministic_reflag inv hsd
    have hn0 : NoNewEps a a0 := NoNewEps.of_edges fun t e he _ => by rw [← r.edge]; exact he
    have hc0 : ChildEF a0 s := by
      intro t e he hsrc t' e' he' hsrc' hn'
      rw [r.edge] at he he'
      exact hc t e he hsrc t' e' he' hsrc' hn'
    split at h
    · cases h; exact ⟨r.inv, hn0⟩
    · split at h
      · cases h
      · cases h; exact ⟨r.inv, hn0⟩
      · rename_i F hfn
        obtain ⟨ws, hws, hr | ⟨tε, eε, hε, heε, hr⟩⟩ := Automaton.failNextState_ok hfn
        · cases hr.1
        · cases hr
          split at h
          · rename_i failTs cts fw hft hcts hfw
            obtain ⟨fw', hfw', rfl⟩ := allTransitions_ok_iff.1 hft
            obtain ⟨ws', hws', rfl⟩ := corderOf_ok_iff.1 hcts
            rw [state_ok_iff] at hfw
            rw [hfw] at hfw'; cases hfw'
            rw [hws] at hws'; cases hws'
            -- the fallback transition
            have hε' : a0.g.edge? tε = some ⟨s, eε.dst, none⟩ := by
              obtain ⟨e, he, hsrc, hnone⟩ :=
                r.inv.ok.eorder_edge s ws hws tε (by rw [hε]; exact List.mem_singleton.2 rfl)
              rw [heε] at he; cases he
              rw [heε]
              cases eε with
              | mk src dst wt =>
                simp only at hsrc
                subst hsrc
                cases wt with
                | none => rfl
                | some _ => cases hnone
            have li : DL a0 a0 s eε.dst tε fw ws.corder := by
              refine ⟨r.inv, hfw, hε', fun t ht => ?_, hc0 tε ⟨s, eε.dst, none⟩ hε' rfl,
                NoNewEps.refl a0⟩
              obtain ⟨e, he, hsrc, hsome⟩ := r.inv.ok.corder_edge s ws hws t ht
              obtain ⟨c, hc'⟩ := Option.isSome_iff_exists.1 hsome
              refine ⟨e.dst, c, ?_, hc0 t e he hsrc⟩
              rw [he]
              cases e
              simp only at hsrc hc'
              subst hsrc hc'
              rfl
            have hnd : ws.corder.Nodup := (List.nodup_append.1 (r.inv.ok.nodup s ws hws)).1
            have li' := makeDetLoop_dl _ li hnd h
            exact ⟨li'.inv, hn0.trans li'.nne⟩
          · cases h
          · cases h
          · cases h

variable {toTree : List (Constraint K P) → Option (CTree (Constraint K P))}

/-- The determinisation step of a lenient iteration. -/
theorem afterDetL_e1 {a3 a4 : Automaton K P} {s : Nat} {treeDet : Bool} {evs3 evs4 : List Ev}
    (inv3 : Inv a3) (E3 : E1All a3) (hc : ChildEF a3 s)
    (h : (if treeDet then
        match evs3 with
        | .detAsk s' :: .detYes s'' :: evs' =>
          if s' = s ∧ s'' = s then (a3.makeDetL s).map (·, evs')
          else .error (.guard "c5: DetAsk/DetYes for another state")
        | .detAsk s' :: evs' =>
          if s' = s then .ok (a3, evs') else .error (.guard "c5: DetAsk for another state")
        | _ => .error (.guard "c5: missing DetAsk event")
      else .ok (a3, evs3) : R (Automaton K P × List Ev)) = .ok (a4, evs4)) :
    Inv a4 ∧ E1All a4 := by
  split at h
  · split at h
    · split at h
      · cases hm : a3.makeDetL s with
        | error e => rw [hm] at h; cases h
        | ok a4' =>
          rw [hm] at h
          cases h
          obtain ⟨inv4, hn⟩ := makeDetL_noNewEps inv3 hc hm
          exact ⟨inv4, hn.e1All E3⟩
      · cases h
    · split at h
      · cases h; exact ⟨inv3, E3⟩
      · cases h
    · cases h
  · cases h; exact ⟨inv3, E3⟩

/-- **One iteration of the Rust loop's replay preserves `E1All`**, given that at the emission
neither `s` nor any of its children has an epsilon transition. -/
theorem iterationWithL_e1 {fuel : Nat} {a a' : Automaton K P} {s : Nat} {evs evs' : List Ev}
    (inv : Inv a) (E : E1All a) (hE : ChildEF a s)
    (h : iterationWith makeDetL toTree fuel a s evs = .ok (a', evs')) : Inv a' ∧ E1All a' := by
  unfold iterationWith at h
  split at h
  · cases h
  · rename_i hlive
    have hs : a.Live s := by
      unfold Live; cases hx : a.g.containsNode s <;> simp_all
    have L0 : Loc a s := ⟨fun x _ => E x, hE⟩
    split at h
    · cases h
    · rename_i a1 evs1 h1
      obtain ⟨L1, _, inv1, hs1⟩ := loc_makeConstraintsUnique inv hs L0 h1
      split at h
      · cases h
      · rename_i a2 treeDet h2
        obtain ⟨L2, inv2, hs2⟩ := loc_insertConstraintTree inv1 hs1 L1 h2
        split at h
        · cases h
        · rename_i a3 evs3 h3
          obtain ⟨L3, e3, inv3, _⟩ := loc_makeConstraintsUnique inv2 hs2 L2 h3
          exact tail_e1 _ (fun a4 evs4 h4 => afterDetL_e1 inv3 (L3.e1All e3) L3.children h4) h

end C09TL
end Pm
