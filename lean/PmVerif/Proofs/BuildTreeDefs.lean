/-
Proofs/BuildTreeDefs.lean — the structural description of what `add_constraint_tree` builds
(`TreeBuilt`), shared by the proof that the loop builds it (`BuildTreeLoop`) and the semantic
argument on top of it (`BuildTreeSem`).
-/
import PmVerif.Proofs.BuildCommon
import PmVerif.Proofs.TreeDepth
namespace Pm
namespace Automaton
variable {K P : Type}

/-- `a2` is `a1` plus the image of `tree` below `s`. `Rep n m`: the state `m` was created for
(one visit of) the tree node `n`; `Rep 0 s`. Every visited node `n` (with state `m`) has, for each
child `(c, n')`: an edge `m -c-> m'` to a fresh state `m'` representing `n'` if `n'` has children,
and edges `m -c-> children[i]` for the labels `i` of `n'`; the labels of the tree root give
epsilon edges `s -ε-> children[i]`. `added` collects the labels of all visited nodes. All root
paths of the tree are bounded by `fuel` (otherwise the loop would not have terminated). -/
structure TreeBuilt (a1 a2 : Automaton K P) (tree : CTree (Constraint K P)) (s : Nat)
    (children : List Nat) (fuel : Nat) (added : List Nat) (Rep : Nat → Nat → Prop) : Prop where
  inv : Inv a2
  root : a2.root = a1.root
  rep_root : Rep 0 s
  rep_fresh : ∀ n m, Rep n m → (n = 0 ∧ m = s) ∨ ¬ a1.Live m
  rep_fun : ∀ n n' m, Rep n m → Rep n' m → n = n'
  rep_live : ∀ n m, Rep n m → a2.Live m
  wt_old : ∀ x, a1.Live x → x ≠ s → a2.g.weight? x = a1.g.weight? x
  wt_s : ∀ w, a1.g.weight? s = some w →
    ∃ w', a2.g.weight? s = some w' ∧ w'.matches_ = w.matches_ ∧ w'.det = w.det
  wt_new : ∀ x w, ¬ a1.Live x → a2.g.weight? x = some w →
    w.matches_ = [] ∧ w.det = false ∧ ∃ n, Rep n x
  old : ∀ t e, a1.g.edge? t = some e → a2.g.edge? t = some e
  new : ∀ t e, a2.g.edge? t = some e → a1.g.edge? t = some e ∨
    (e.src = s ∧ e.w = none ∧ ∃ i ∈ tree.labelsAt 0, children[i]? = some e.dst) ∨
    (∃ n c n', Rep n e.src ∧ (c, n') ∈ tree.childrenAt n ∧ e.w = some c ∧
      ((Rep n' e.dst ∧ ¬ a1.Live e.dst) ∨ ∃ i ∈ tree.labelsAt n', children[i]? = some e.dst))
  root_labels : ∀ i ∈ tree.labelsAt 0, ∃ d, children[i]? = some d ∧
    (d ≠ s → ∃ t, a2.g.edge? t = some ⟨s, d, none⟩)
  inner : ∀ n m c n', Rep n m → (c, n') ∈ tree.childrenAt n →
    (tree.childrenAt n' ≠ [] →
      ∃ m', Rep n' m' ∧ ¬ a1.Live m' ∧ ∃ t, a2.g.edge? t = some ⟨m, m', some c⟩) ∧
    (∀ i ∈ tree.labelsAt n', ∃ d, children[i]? = some d ∧
      (d ≠ m → ∃ t, a2.g.edge? t = some ⟨m, d, some c⟩))
  added_iff : ∀ i, i ∈ added ↔ i ∈ tree.labelsAt 0 ∨
    ∃ n m c n', Rep n m ∧ (c, n') ∈ tree.childrenAt n ∧ i ∈ tree.labelsAt n'
  depth : ∀ L k, CTree.PathN tree (fun _ => true) L 0 k → L ≤ fuel

/-- The statement proved in `BuildTreeLoop`. -/
def AddTreeStmt (K P : Type) [DecidableEq K] [DecidableEq P] : Prop :=
  ∀ (a1 a2 : Automaton K P) (tree : CTree (Constraint K P)) (s : Nat) (children : List Nat)
    (fuel : Nat) (added : List Nat), Inv a1 → a1.Live s →
    a1.addConstraintTree tree s children fuel = .ok (a2, added) →
    ∃ Rep, TreeBuilt a1 a2 tree s children fuel added Rep

end Automaton
end Pm
