/-
Proofs/C07XTree.lean — C07 (multiplicities), builder part: `insert_constraint_tree(s)` with a
FLAT tree decomposition (`FlatTreeHyp`, Proofs/C07XDefs.lean) preserves the invariant `XB`, when
the transitions of `s` carry pairwise different constraints (`C08.UniqueAt`, the postcondition of
`make_constraints_unique`).

The constraint transitions of the (non-deterministic) state `s` either stay at `s` (`Kept`) or
move below one fresh fail state (`Moved`); the fallback transition `s -ε-> f` is followed together
with the kept ones, so kept and moved transitions must not have been exclusive before: that is the
separation clause of `FlatTreeHyp` (a constraint that is not labelled in the tree is never in `Mx`
with a tree constraint). If the tree asks for determinisation, the constraints left at `s` are
pairwise equal or in `Mx` (`MxEqAt`).
`xb_flatCtx`: from the edge description `FlatCtx` (Proofs/C07XTreeSpec.lean);
`xb_insertConstraintTree`: the step.
Everything lives in `namespace Pm.C07`.
-/
import PmVerif.Proofs.C07XDefs
import PmVerif.Proofs.C07XTreeSpec
import PmVerif.Proofs.BuildTreeSem
import PmVerif.Proofs.BuildTreeLoop
namespace Pm
namespace C07
open Automaton
variable {K P : Type}

/-- The constraint transitions of `s` carry pairwise equal or `Mx`-exclusive constraints. -/
def MxEqAt (Mx : Constraint K P → Constraint K P → Prop) (a : Automaton K P) (s : Nat) : Prop :=
  ∀ d1 k1 d2 k2, HasEdge a s d1 (some k1) → HasEdge a s d2 (some k2) → k1 = k2 ∨ Mx k1 k2

section Flat
variable {Mx : Constraint K P → Constraint K P → Prop} {a a' : Automaton K P} {s : Nat}
  {F : Nat → Prop} {Kept Moved : Constraint K P → Nat → Prop}

/-- `XB` from the edge description of a flat tree insertion. -/
theorem xb_flatCtx (C : FlatCtx a a' s F Kept Moved) (inv : Inv a) (hs : a.Live s)
    (hFu : ∀ f1 f2, F f1 → F f2 → f1 = f2) (hnds : ¬ IsDet a s)
    (hlang : ∀ x, a.Live x → ∀ i, Below a' x i → Below a x i)
    (hsep : ∀ k1 d1 k2 d2, Kept k1 d1 → Moved k2 d2 → k1 ≠ k2 ∧ ¬ Mx k1 k2 ∧ ¬ Mx k2 k1)
    (X : XB Mx a) : XB Mx a' := by
  have ok := inv.ok
  have dstLive : ∀ {x d : Nat} {c : Option (Constraint K P)}, HasEdge a x d c → a.Live d :=
    fun ⟨_, ht⟩ => ok.dst_live ht
  have notFs : ¬ F s := fun h => C.fresh s h hs
  -- the three kinds of sources
  have clsOther : ∀ {x d : Nat} {c : Option (Constraint K P)}, HasEdge a' x d c → x ≠ s →
      ¬ F x → a.Live x ∧ HasEdge a x d c := by
    intro x d c h hx hF
    rcases C.edges _ _ _ h with ⟨_, hl, e⟩ | ⟨hxs, _⟩ | ⟨hxs, _⟩ | ⟨hxs, _⟩ | ⟨hf, _⟩
    · exact ⟨hl, e⟩
    · exact absurd hxs hx
    · exact absurd hxs hx
    · exact absurd hxs hx
    · exact absurd hf hF
  have clsS : ∀ {d : Nat} {c : Option (Constraint K P)}, HasEdge a' s d c →
      (HasEdge a s d c ∧ (c = none ∨ ∃ k, c = some k ∧ Kept k d)) ∨ (c = none ∧ F d) := by
    intro d c h
    rcases C.edges _ _ _ h with ⟨hx, _⟩ | ⟨_, hc, e⟩ | ⟨_, k, hc, hk⟩ | ⟨_, hc, hf⟩ | ⟨hf, _⟩
    · exact absurd rfl hx
    · exact .inl ⟨hc ▸ e, .inl hc⟩
    · exact .inl ⟨hc ▸ C.kept k d hk, .inr ⟨k, hc, hk⟩⟩
    · exact .inr ⟨hc, hf⟩
    · exact absurd hf notFs
  have clsF : ∀ {f d : Nat} {c : Option (Constraint K P)}, HasEdge a' f d c → F f →
      ∃ k, c = some k ∧ Moved k d := by
    intro f d c h hf
    rcases C.edges _ _ _ h with ⟨_, hl, _⟩ | ⟨hxs, _⟩ | ⟨hxs, _⟩ | ⟨hxs, _⟩ | ⟨_, hk⟩
    · exact absurd hl (C.fresh f hf)
    · exact absurd (hxs ▸ hf) notFs
    · exact absurd (hxs ▸ hf) notFs
    · exact absurd (hxs ▸ hf) notFs
    · exact hk
  -- acceptance below
  have belowF : ∀ {f i : Nat}, F f → Below a' f i → ∃ k d, Moved k d ∧ Below a d i := by
    intro f i hf hb
    rcases (below_iff C.inv'.ok).1 hb with ⟨w', hw', hp⟩ | ⟨d, c, he, hbd⟩
    · obtain ⟨_, hm, _⟩ := C.wt_new f w' (C.fresh f hf) hw'
      rw [hm] at hp
      cases hp
    · obtain ⟨k, _, hm⟩ := clsF he hf
      exact ⟨k, d, hm, hlang d (dstLive (C.moved k d hm)) i hbd⟩
  have idsBack : ∀ {x i : Nat}, a'.Ids x i → a.Live x ∧ a.Ids x i := by
    rintro x i ⟨w', hw', hp⟩
    by_cases hx : a.Live x
    · obtain ⟨w, hw, hm, _⟩ := C.wt_old x w' hx hw'
      exact ⟨hx, w, hw, hm ▸ hp⟩
    · obtain ⟨_, hm, _⟩ := C.wt_new x w' hx hw'
      rw [hm] at hp
      cases hp
  -- exclusivity
  have exclOld : ∀ {x d : Nat} {c c1 c2 : Option (Constraint K P)}, HasEdge a' x d c →
      a.Live x → ¬ Excl Mx a' x c1 c2 → ¬ Excl Mx a x c1 c2 := by
    rintro x d c c1 c2 ⟨t, ht⟩ hl hex h
    refine hex (h.mono ?_)
    rintro ⟨w, hw, hd⟩
    obtain ⟨w', hw'⟩ := live_iff.1 (C.inv'.ok.src_live ht)
    obtain ⟨w0, hw0, _, hdw⟩ := C.wt_old x w' hl hw'
    rw [hw] at hw0; cases hw0
    exact ⟨w', hw', hdw.trans hd⟩
  have exclS : ∀ {y : Nat} {c1 c2 : Option (Constraint K P)}, ¬ Excl Mx a' y c1 c2 →
      ¬ Excl Mx a s c1 c2 := fun hex h => hex (.inl (h.of_nondet hnds))
  have notExclEps : ∀ {k : Constraint K P}, ¬ Excl Mx a s (some k) none := by
    rintro k (⟨_, _, _, h2, _⟩ | ⟨hd, _⟩)
    · cases h2
    · exact hnds hd
  have notExclEps' : ∀ {k : Constraint K P}, ¬ Excl Mx a s none (some k) := by
    rintro k (⟨_, _, h1, _, _⟩ | ⟨hd, _⟩)
    · cases h1
    · exact hnds hd
  -- a moved transition against another transition of `s` in `a`
  have movedDisj : ∀ {k : Constraint K P} {e d2 i : Nat} {c2 : Option (Constraint K P)},
      Moved k e → HasEdge a s d2 c2 → (c2 = none ∨ ∃ k2, c2 = some k2 ∧ Kept k2 d2) →
      Below a e i → Below a d2 i → False := by
    intro k e d2 i c2 hm e2 hc2 hb1 hb2
    have e1 := C.moved k e hm
    have hex : ¬ Excl Mx a s (some k) c2 ∧ some k ≠ c2 := by
      rcases hc2 with rfl | ⟨k2, rfl, hk2⟩
      · exact ⟨notExclEps, by simp⟩
      · obtain ⟨hne, _, hmx⟩ := hsep k2 d2 k e hk2 hm
        refine ⟨?_, fun h => hne (Option.some.inj h).symm⟩
        intro h
        obtain ⟨x1, x2, h1, h2, hm'⟩ := h.of_nondet hnds
        cases h1; cases h2
        exact hmx hm'
    by_cases hed : e = d2
    · subst hed
      exact X.par s e (some k) c2 e1 e2 hex.2 hex.1 i hb1
    · exact X.sib s e d2 (some k) c2 e1 e2 hed hex.1 i hb1 hb2
  refine ⟨?_, ?_, ?_⟩
  · intro x d1 d2 c1 c2 h1 h2 hne hex i hb1 hb2
    by_cases hxs : x = s
    · subst hxs
      rcases clsS h1 with ⟨e1, hc1⟩ | ⟨hc1, hf1⟩
      · rcases clsS h2 with ⟨e2, _⟩ | ⟨_, hf2⟩
        · exact X.sib x d1 d2 c1 c2 e1 e2 hne (exclS hex) i (hlang d1 (dstLive e1) i hb1)
            (hlang d2 (dstLive e2) i hb2)
        · obtain ⟨k, e, hm, hbe⟩ := belowF hf2 hb2
          exact movedDisj hm e1 hc1 hbe (hlang d1 (dstLive e1) i hb1)
      · rcases clsS h2 with ⟨e2, hc2⟩ | ⟨_, hf2⟩
        · obtain ⟨k, e, hm, hbe⟩ := belowF hf1 hb1
          exact movedDisj hm e2 hc2 hbe (hlang d2 (dstLive e2) i hb2)
        · exact hne (hFu d1 d2 hf1 hf2)
    · by_cases hF : F x
      · obtain ⟨k1, hk1, hm1⟩ := clsF h1 hF
        obtain ⟨k2, hk2, hm2⟩ := clsF h2 hF
        have e1 := C.moved k1 d1 hm1
        have e2 := C.moved k2 d2 hm2
        subst hk1; subst hk2
        exact X.sib s d1 d2 _ _ e1 e2 hne (exclS hex) i (hlang d1 (dstLive e1) i hb1)
          (hlang d2 (dstLive e2) i hb2)
      · obtain ⟨hl, e1⟩ := clsOther h1 hxs hF
        obtain ⟨_, e2⟩ := clsOther h2 hxs hF
        exact X.sib x d1 d2 c1 c2 e1 e2 hne (exclOld h1 hl hex) i (hlang d1 (dstLive e1) i hb1)
          (hlang d2 (dstLive e2) i hb2)
  · intro x i d c hi he hb
    obtain ⟨hl, hi'⟩ := idsBack hi
    by_cases hxs : x = s
    · subst hxs
      rcases clsS he with ⟨e, _⟩ | ⟨_, hf⟩
      · exact X.down x i d c hi' e (hlang d (dstLive e) i hb)
      · obtain ⟨k, e, hm, hbe⟩ := belowF hf hb
        exact X.down x i e (some k) hi' (C.moved k e hm) hbe
    · have hF : ¬ F x := fun h => C.fresh x h hl
      obtain ⟨_, e⟩ := clsOther he hxs hF
      exact X.down x i d c hi' e (hlang d (dstLive e) i hb)
  · intro x d c1 c2 h1 h2 hc hex i hb
    by_cases hxs : x = s
    · subst hxs
      rcases clsS h1 with ⟨e1, _⟩ | ⟨hc1, hf1⟩
      · rcases clsS h2 with ⟨e2, _⟩ | ⟨_, hf2⟩
        · exact X.par x d c1 c2 e1 e2 hc (exclS hex) i (hlang d (dstLive e1) i hb)
        · exact C.fresh d hf2 (dstLive e1)
      · rcases clsS h2 with ⟨e2, _⟩ | ⟨hc2, _⟩
        · exact C.fresh d hf1 (dstLive e2)
        · exact hc (hc1.trans hc2.symm)
    · by_cases hF : F x
      · obtain ⟨k1, hk1, hm1⟩ := clsF h1 hF
        obtain ⟨k2, hk2, hm2⟩ := clsF h2 hF
        have e1 := C.moved k1 d hm1
        have e2 := C.moved k2 d hm2
        subst hk1; subst hk2
        exact X.par s d _ _ e1 e2 hc (exclS hex) i (hlang d (dstLive e1) i hb)
      · obtain ⟨hl, e1⟩ := clsOther h1 hxs hF
        obtain ⟨_, e2⟩ := clsOther h2 hxs hF
        exact X.par x d c1 c2 e1 e2 hc (exclOld h1 hl hex) i (hlang d (dstLive e1) i hb)

end Flat

/-! ### the step -/

/-- `insert_constraint_tree(s)` with a flat decomposition preserves `XB`; when it returns `true`
the constraints left at `s` are pairwise equal or in `Mx`. -/
theorem xb_insertConstraintTree {K P : Type} [DecidableEq K] [DecidableEq P]
    {Mx : Constraint K P → Constraint K P → Prop}
    {toTree : List (Constraint K P) → Option (CTree (Constraint K P))}
    (hT : FlatTreeHyp Mx toTree) (hTok : TreeOK toTree (fun _ => true))
    {a a' : Automaton K P} {s fuel : Nat} {det : Bool} (inv : Inv a) (hs : a.Live s)
    (hu : C08.UniqueAt a s) (X : XB Mx a)
    (h : insertConstraintTree toTree a s fuel = .ok (a', det)) :
    XB Mx a' ∧ (det = true → MxEqAt Mx a' s) := by
  have st : SubStep (fun _ => true) a a' s :=
    (insertConstraintTree_spec_of addConstraintTree_built hTok inv hs h).1
  rcases insertConstraintTree_flat hT inv hu h with ⟨rfl, rfl⟩ |
    ⟨F, cs, tree, Kept, Moved, htree, hdet, hnd, hnds, _, hFu, C, hkept, hmoved⟩
  · exact ⟨X, fun h => by cases h⟩
  · obtain ⟨_, _, hlab, hsepT, hdetT⟩ := hT cs tree htree
    have hlang : ∀ x, a.Live x → ∀ i, Below a' x i → Below a x i :=
      fun x hx i hb => (st.lang x hx (AccND.live hb) i).1 hb
    have hsep : ∀ k1 d1 k2 d2, Kept k1 d1 → Moved k2 d2 →
        k1 ≠ k2 ∧ ¬ Mx k1 k2 ∧ ¬ Mx k2 k1 := by
      intro k1 d1 k2 d2 hk hm
      obtain ⟨m, j, hmem, hj, hcj⟩ := hkept k1 d1 hk
      obtain ⟨i, hci, hnl⟩ := hmoved k2 d2 hm
      obtain ⟨h1, h2⟩ := hsepT k1 m i k2 hmem hci hnl
      refine ⟨?_, h1, h2⟩
      intro hkk
      subst hkk
      -- two positions of a duplicate-free list with the same entry coincide
      have hij : i = j := by
        obtain ⟨hi, hvi⟩ := List.getElem?_eq_some_iff.1 hci
        obtain ⟨hj', hvj⟩ := List.getElem?_eq_some_iff.1 hcj
        have hp := List.pairwise_iff_getElem.1 hnd
        rcases Nat.lt_trichotomy i j with hlt | heq | hgt
        · exact absurd (hvi.trans hvj.symm) (hp i j hi hj' hlt)
        · exact heq
        · exact absurd (hvj.trans hvi.symm) (hp j i hj' hi hgt)
      exact hnl k1 m hmem (hij ▸ hj)
    refine ⟨xb_flatCtx C inv hs hFu hnds hlang hsep X, ?_⟩
    intro hd d1 k1 d2 k2 h1 h2
    have hmd : tree.makeDet = true := hdet ▸ hd
    have keptOf : ∀ {d : Nat} {k : Constraint K P}, HasEdge a' s d (some k) → Kept k d := by
      intro d k he
      rcases C.edges _ _ _ he with ⟨hx, _⟩ | ⟨_, hc, _⟩ | ⟨_, k', hc, hk⟩ | ⟨_, hc, _⟩ | ⟨hf, _⟩
      · exact absurd rfl hx
      · cases hc
      · cases hc; exact hk
      · cases hc
      · exact absurd hs (C.fresh s hf)
    obtain ⟨m1, _, hm1, _, _⟩ := hkept k1 d1 (keptOf h1)
    obtain ⟨m2, _, hm2, _, _⟩ := hkept k2 d2 (keptOf h2)
    exact hdetT hmd k1 m1 k2 m2 hm1 hm2

end C07
end Pm
