/-
Proofs/PGDomSound.lean — soundness half of T-DOM-PG: if the anchored truth assignment
`pgSigmaAnch h r` satisfies every constraint of `pgConstraints p root`, then `pgPhi p root h r`
is an injective map into live host nodes, defined on every keyed node, sending `root` to `r` and
preserving every link that lies on a line.
-/
import PmVerif.Proofs.PGDomLines
namespace Pm.PGDom

/-! ### `mapM` in `Option` -/

theorem map_of_mapM_some {α β : Type} (f : α → Option β) :
    ∀ (l : List α) (vs : List β), l.mapM f = some vs → l.map f = vs.map some
  | [], vs, h => by
    simp at h; subst h; rfl
  | a :: l, vs, h => by
    rw [List.mapM_cons] at h
    cases hfa : f a with
    | none => rw [hfa] at h; simp at h
    | some b =>
      cases hm : l.mapM f with
      | none => rw [hfa, hm] at h; simp at h
      | some bs =>
        rw [hfa, hm] at h
        simp at h
        subst h
        simp [map_of_mapM_some f l bs hm, hfa]

theorem mapM_some_of_map {α β : Type} (f : α → Option β) :
    ∀ (l : List α) (vs : List β), l.map f = vs.map some → l.mapM f = some vs
  | [], vs, h => by
    cases vs with
    | nil => rfl
    | cons v vs => simp at h
  | a :: l, vs, h => by
    cases vs with
    | nil => simp at h
    | cons v vs =>
      simp only [List.map_cons, List.cons.injEq] at h
      rw [List.mapM_cons, h.1, mapM_some_of_map f l vs h.2]
      rfl

/-! ### Meaning of the two kinds of constraints under `pgSigmaAnch` -/

theorem sigma_conn (h : PortGraph) (r : Nat) (lo ro : POff) (kl kr : PGKey) :
    pgSigmaAnch h r ⟨.isConnected lo ro, [kl, kr]⟩ = true ↔
      ∃ a b, pgVal h r kl = some a ∧ pgVal h r kr = some b ∧
        h.portExists (a, lo) = true ∧ h.portLink (a, lo) = some (b, ro) := by
  unfold pgSigmaAnch
  constructor
  · intro hs
    cases hm : [kl, kr].mapM (pgVal h r) with
    | none => rw [hm] at hs; cases hs
    | some vs =>
      rw [hm] at hs
      have hmap := map_of_mapM_some _ _ _ hm
      match vs, hmap with
      | [a, b], hmap =>
        simp only [List.map_cons, List.map_nil, List.cons.injEq, and_true] at hmap
        simp only [beq_iff_eq] at hs
        exact ⟨a, b, hmap.1, hmap.2, (pgCheck_connected lo ro h a b).1 hs⟩
  · rintro ⟨a, b, ha, hb, hc⟩
    have hm : [kl, kr].mapM (pgVal h r) = some [a, b] :=
      mapM_some_of_map _ _ _ (by simp [ha, hb])
    simp only [hm, beq_iff_eq]
    exact (pgCheck_connected lo ro h a b).2 hc

theorem sigma_ne (h : PortGraph) (r : Nat) (n : Nat) (k : PGKey) (ks : List PGKey) :
    pgSigmaAnch h r ⟨.isNotEqual n, k :: ks⟩ = true ↔
      ∃ (v : Nat) (vs : List Nat), pgVal h r k = some v ∧ ks.map (pgVal h r) = vs.map some ∧ v ∉ vs := by
  unfold pgSigmaAnch
  constructor
  · intro hs
    cases hm : (k :: ks).mapM (pgVal h r) with
    | none => rw [hm] at hs; cases hs
    | some vs =>
      rw [hm] at hs
      have hmap := map_of_mapM_some _ _ _ hm
      match vs, hmap with
      | v :: vs, hmap =>
        simp only [List.map_cons, List.cons.injEq] at hmap
        simp only [beq_iff_eq] at hs
        exact ⟨v, vs, hmap.1, hmap.2, (pgCheck_notEqual n h v vs).1 hs⟩
  · rintro ⟨v, vs, hv, hvs, hne⟩
    have hm : (k :: ks).mapM (pgVal h r) = some (v :: vs) :=
      mapM_some_of_map _ _ _ (by simp [hv, hvs])
    simp only [hm, beq_iff_eq]
    exact (pgCheck_notEqual n h v vs).2 hne

theorem sigma_hasNodeWeight (h : PortGraph) (r : Nat) :
    pgSigmaAnch h r ⟨.hasNodeWeight, [.root 0]⟩ = true := by
  have hm : [PGKey.root 0].mapM (pgVal h r) = some [r] := mapM_some_of_map _ _ _ rfl
  simp [pgSigmaAnch, hm, pgCheck]

theorem sigma_ne_root (h : PortGraph) (r : Nat) :
    pgSigmaAnch h r ⟨.isNotEqual 0, [.root 0]⟩ = true :=
  (sigma_ne h r 0 (.root 0) []).2 ⟨r, [], rfl, rfl, by simp⟩

/-! ### Values of keys are live host nodes -/

theorem walkPathFrom_live {h : PortGraph} (hh : h.LinksOK) (start : Nat) :
    ∀ (f : Nat) (nx : Option Port), ∀ e ∈ walkPathFrom h start f nx, (h.node? e.2.1).isSome = true
  | 0, _, e, he => by simp [walkPathFrom] at he
  | f + 1, none, e, he => by rw [walkPathFrom_none] at he; cases he
  | f + 1, some p, e, he => by
    rw [walkPathFrom_succ] at he
    cases hl : h.portLink p with
    | none => rw [hl] at he; cases he
    | some prev =>
      rw [hl] at he
      simp only at he
      split at he
      · cases he
      · rcases List.mem_cons.1 he with rfl | he
        · exact PortGraph.node_of_portExists (hh.portLink_exists hl).2
        · exact walkPathFrom_live hh start f _ e he

theorem walkPathNodes_live {h : PortGraph} (hh : h.LinksOK) {r : Nat}
    (hr : (h.node? r).isSome = true) (off : POff) :
    ∀ v ∈ walkPathNodes h r off, (h.node? v).isSome = true := by
  intro v hv
  unfold walkPathNodes walkPath at hv
  simp only [List.map_cons, List.mem_cons, List.mem_map] at hv
  rcases hv with rfl | ⟨e, he, rfl⟩
  · exact hr
  · exact walkPathFrom_live hh r _ _ e he

theorem pgVal_live {h : PortGraph} (hh : h.LinksOK) {r : Nat} (hr : (h.node? r).isSome = true)
    {k : PGKey} {v : Nat} (hv : pgVal h r k = some v) : (h.node? v).isSome = true := by
  unfold pgVal at hv
  split at hv
  · cases hv; exact hr
  · exact walkPathNodes_live hh hr _ v (List.mem_of_getElem? hv)
  · cases hv

/-! ### `pgPhi` when every key has a value -/

theorem pgPhi_eq (p : PortGraph) (root : Nat) (h : PortGraph) (r : Nat) :
    pgPhi p root h r =
      (pgNodeKeys p root).filterMap fun x => (pgVal h r x.2).map fun v => (x.1, v) := rfl

theorem alGet_filterMap_val (val : PGKey → Option Nat) :
    ∀ (n2k : List (Nat × PGKey)), (∀ x ∈ n2k, (val x.2).isSome = true) → ∀ n,
      alGet (n2k.filterMap fun x => (val x.2).map fun v => (x.1, v)) n = (alGet n2k n).bind val
  | [], _, _ => rfl
  | x :: xs, hdef, n => by
    obtain ⟨m, k⟩ := x
    obtain ⟨v, hv⟩ := Option.isSome_iff_exists.1 (hdef (m, k) (List.mem_cons_self ..))
    have ih := alGet_filterMap_val val xs (fun y hy => hdef y (List.mem_cons_of_mem _ hy)) n
    simp only [List.filterMap_cons, hv, Option.map_some, alGet_cons]
    split
    · simp [hv]
    · exact ih

theorem nodup_filterMap_of_map {α β : Type} (f : α → Option β) :
    ∀ (l : List α), (l.map f).Nodup → (l.filterMap f).Nodup
  | [], _ => by simp
  | x :: xs, h => by
    rw [List.map_cons, List.nodup_cons] at h
    have ih := nodup_filterMap_of_map f xs h.2
    rw [List.filterMap_cons]
    split
    · exact ih
    · next v hv =>
      rw [List.nodup_cons]
      refine ⟨?_, ih⟩
      intro hmem
      obtain ⟨y, hy, hyv⟩ := List.mem_filterMap.1 hmem
      exact h.1 (List.mem_map.2 ⟨y, hy, by rw [hyv, hv]⟩)

theorem pgPhi_map_snd (p : PortGraph) (root : Nat) (h : PortGraph) (r : Nat) :
    (pgPhi p root h r).map (·.2) = (pgNodeKeys p root).filterMap fun x => pgVal h r x.2 := by
  rw [pgPhi_eq, List.map_filterMap]
  congr 1
  funext x
  cases pgVal h r x.2 <;> rfl

/-! ### The semantic invariant -/

/-- What satisfaction of the constraints emitted so far says about the keys assigned so far and
the links processed so far. -/
structure SoundInv (h : PortGraph) (r : Nat) (done : List PLink) (n2k : List (Nat × PGKey)) :
    Prop where
  defined : ∀ x ∈ n2k, (pgVal h r x.2).isSome = true
  inj : (n2k.map fun x => pgVal h r x.2).Nodup
  links : ∀ l ∈ done, ∃ kl kr a b, alGet n2k l.1.1 = some kl ∧ alGet n2k l.2.1 = some kr ∧
    pgVal h r kl = some a ∧ pgVal h r kr = some b ∧
    h.portExists (a, l.1.2) = true ∧ h.portLink (a, l.1.2) = some (b, l.2.2)

theorem consLines_sound (p : PortGraph) (root : Nat) (h : PortGraph) (r : Nat) (cs : List PGCons)
    (hc : consLines (linePartition p root) [(root, .root 0)] [(root, 0)] [] = some cs)
    (hsat : ∀ c ∈ cs, pgSigmaAnch h r c = true) :
    SoundInv h r (linePartition p root).flatten (pgNodeKeys p root) := by
  rw [pgNodeKeys_eq]
  have key := consLines_induct root (linePartition p root)
    (fun done n2k cs => (∀ c ∈ cs, pgSigmaAnch h r c = true) → SoundInv h r done n2k)
    ?_ ?_ _ _ _ [] [] cs (fun _ h => h) (RootsOK.init root) hc ?_
  · simpa using key hsat
  · intro line _ first ri _ _ done n2k cs j l lk _ hP hnone _ hsat'
    have inv := hP (fun c hc => hsat' c (List.mem_append_left _ hc))
    have hne := hsat' _ (List.mem_append_right _ (List.mem_singleton.2 rfl))
    obtain ⟨v, vs, hv, hvs, hnot⟩ := (sigma_ne h r _ _ _).1 hne
    refine ⟨?_, ?_, ?_⟩
    · intro x hx
      rcases List.mem_append.1 hx with hx | hx
      · exact inv.defined x hx
      · rw [List.mem_singleton] at hx; subst hx
        simp [hv]
    · rw [List.map_append, List.nodup_append]
      refine ⟨inv.inj, by simp, ?_⟩
      intro a ha b hb e
      simp only [List.map_cons, List.map_nil, List.mem_singleton] at hb
      subst hb; subst e
      rw [hv] at ha
      have : some v ∈ (n2k.map (·.2)).map (pgVal h r) := by
        rw [List.map_map]; exact ha
      rw [hvs] at this
      obtain ⟨w, hw, hwv⟩ := List.mem_map.1 this
      cases hwv
      exact hnot hw
    · intro l' hl'
      obtain ⟨kl, kr, a, b, h1, h2, h3⟩ := inv.links l' hl'
      exact ⟨kl, kr, a, b, alGet_append_of_some h1 _, alGet_append_of_some h2 _, h3⟩
  · intro line _ done n2k cs j l kl kr _ hP hkl hkr hsat'
    have inv := hP (fun c hc => hsat' c (List.mem_append_left _ hc))
    have hcn := hsat' _ (List.mem_append_right _ (List.mem_singleton.2 rfl))
    obtain ⟨a, b, ha, hb, hex, hlk⟩ := (sigma_conn h r _ _ _ _).1 hcn
    refine ⟨inv.defined, inv.inj, ?_⟩
    intro l' hl'
    rcases List.mem_append.1 hl' with hl' | hl'
    · exact inv.links l' hl'
    · rw [List.mem_singleton] at hl'; subst hl'
      exact ⟨kl, kr, a, b, hkl, hkr, ha, hb, hex, hlk⟩
  · intro _
    refine ⟨?_, by simp, by simp⟩
    intro x hx
    rw [List.mem_singleton] at hx; subst hx
    rfl

/-- **Soundness, core form.** -/
theorem sound_core (p h : PortGraph) (root r : Nat) (cs : List PGCons) (hh : h.LinksOK)
    (hr : (h.node? r).isSome = true) (hcs : pgConstraints p root = some cs)
    (hsat : ∀ c ∈ cs, pgSigmaAnch h r c = true) :
    (∀ nk ∈ pgNodeKeys p root, ∃ v, pgVal h r nk.2 = some v ∧
      alGet (pgPhi p root h r) nk.1 = some v) ∧
    ((pgPhi p root h r).map (·.2)).Nodup ∧
    (∀ x ∈ pgPhi p root h r, (h.node? x.2).isSome = true) ∧
    (∀ l ∈ p.links, onLines p root l = true → ∀ a b,
      alGet (pgPhi p root h r) l.1.1 = some a → alGet (pgPhi p root h r) l.2.1 = some b →
      h.portExists (a, l.1.2) = true ∧ h.portLink (a, l.1.2) = some (b, l.2.2)) ∧
    alGet (pgPhi p root h r) root = some r := by
  obtain ⟨cs0, h0, hcase⟩ := pgConstraints_cases hcs
  have hsat0 : ∀ c ∈ cs0, pgSigmaAnch h r c = true := by
    rcases hcase with rfl | ⟨rfl, -⟩
    · exact hsat
    · intro c hc; cases hc
  have inv := consLines_sound p root h r cs0 h0 hsat0
  obtain ⟨kroot, knd, -, -⟩ := consLines_keys p root cs0 h0
  have hget : ∀ n, alGet (pgPhi p root h r) n = (alGet (pgNodeKeys p root) n).bind (pgVal h r) :=
    fun n => by rw [pgPhi_eq]; exact alGet_filterMap_val _ _ inv.defined n
  refine ⟨?_, ?_, ?_, ?_, ?_⟩
  · intro nk hnk
    obtain ⟨v, hv⟩ := Option.isSome_iff_exists.1 (inv.defined nk hnk)
    refine ⟨v, hv, ?_⟩
    rw [hget, alGet_of_mem_nodup knd (show (nk.1, nk.2) ∈ _ from hnk)]
    exact hv
  · rw [pgPhi_map_snd]
    exact nodup_filterMap_of_map _ _ inv.inj
  · intro x hx
    rw [pgPhi_eq] at hx
    obtain ⟨y, _, hyx⟩ := List.mem_filterMap.1 hx
    cases hv : pgVal h r y.2 with
    | none => rw [hv] at hyx; cases hyx
    | some v =>
      rw [hv] at hyx
      cases hyx
      exact pgVal_live hh hr hv
  · intro l _ hon a b ha hb
    unfold onLines at hon
    obtain ⟨line, hline, hvis⟩ := List.any_eq_true.1 hon
    unfold linkVisited at hvis
    obtain ⟨x, hx, hsame⟩ := List.any_eq_true.1 hvis
    obtain ⟨kl, kr, a', b', h1, h2, h3, h4, h5, h6⟩ :=
      inv.links x (List.mem_flatten.2 ⟨line, hline, hx⟩)
    have hxa : alGet (pgPhi p root h r) x.1.1 = some a' := by rw [hget, h1]; exact h3
    have hxb : alGet (pgPhi p root h r) x.2.1 = some b' := by rw [hget, h2]; exact h4
    unfold sameLink at hsame
    simp only [Bool.decide_or, Bool.decide_and, Bool.or_eq_true, Bool.and_eq_true,
      decide_eq_true_eq] at hsame
    rcases hsame with ⟨e1, e2⟩ | ⟨e1, e2⟩
    · rw [e1] at ha ⊢; rw [e2] at hb ⊢
      rw [hxa] at ha; rw [hxb] at hb
      cases ha; cases hb
      exact ⟨h5, h6⟩
    · rw [e1] at ha ⊢; rw [e2] at hb ⊢
      rw [hxb] at ha; rw [hxa] at hb
      cases ha; cases hb
      exact ⟨(hh.portLink_exists h6).2, hh.portLink_symm h6⟩
  · rw [hget, kroot]; rfl

/-- **Soundness under coverage**: the induced map is an embedding of the whole pattern. -/
theorem sound_connected (p h : PortGraph) (root r : Nat) (cs : List PGCons) (hh : h.LinksOK)
    (hr : (h.node? r).isSome = true) (hcs : pgConstraints p root = some cs)
    (hcov : LinesCover p root) (hsat : ∀ c ∈ cs, pgSigmaAnch h r c = true) :
    embedsPG p h (pgPhi p root h r) = true := by
  obtain ⟨h1, h2, h3, h4, -⟩ := sound_core p h root r cs hh hr hcs hsat
  rw [embedsPG_iff]
  refine ⟨?_, h2, h3, ?_⟩
  · intro n hn
    obtain ⟨k, hk⟩ := Option.isSome_iff_exists.1 (hcov.2 n hn)
    obtain ⟨v, -, hv⟩ := h1 (n, k) (alGet_mem hk)
    rw [hv]; rfl
  · rw [linksPreserved_iff]
    intro l hl a b ha hb
    exact h4 l hl (hcov.1 l hl) a b ha hb

theorem coveredPart_node {p : PortGraph} {root n : Nat}
    (h : n ∈ (coveredPart p root).nodesIter) :
    (alGet (pgNodeKeys p root) n).isSome = true := by
  rw [PortGraph.mem_nodesIter] at h
  unfold PortGraph.node? coveredPart at h
  simp only [List.getElem?_map] at h
  cases hn : (List.range p.nodes.length)[n]? with
  | none => rw [hn] at h; cases h
  | some m =>
    rw [hn] at h
    have : m = n := by
      have := List.mem_of_getElem? hn
      rw [List.getElem?_range (List.mem_range.1 (by
        have hlt : n < (List.range p.nodes.length).length := by
          rcases Nat.lt_or_ge n (List.range p.nodes.length).length with h' | h'
          · exact h'
          · rw [List.getElem?_eq_none h'] at hn; cases hn
        simpa using hlt))] at hn
      exact (Option.some.inj hn).symm
    subst this
    simp only [Option.map_some, Option.join_some] at h
    split at h
    · assumption
    · cases h

/-- **Soundness, subgraph form**: the induced map embeds the covered part of the pattern. -/
theorem sound_covered (p h : PortGraph) (root r : Nat) (cs : List PGCons) (hh : h.LinksOK)
    (hr : (h.node? r).isSome = true) (hcs : pgConstraints p root = some cs)
    (hsat : ∀ c ∈ cs, pgSigmaAnch h r c = true) :
    embedsPG (coveredPart p root) h (pgPhi p root h r) = true := by
  obtain ⟨h1, h2, h3, h4, -⟩ := sound_core p h root r cs hh hr hcs hsat
  rw [embedsPG_iff]
  refine ⟨?_, h2, h3, ?_⟩
  · intro n hn
    obtain ⟨k, hk⟩ := Option.isSome_iff_exists.1 (coveredPart_node hn)
    obtain ⟨v, -, hv⟩ := h1 (n, k) (alGet_mem hk)
    rw [hv]; rfl
  · rw [linksPreserved_iff]
    intro l hl a b ha hb
    have hl' : l ∈ p.links.filter (onLines p root) := hl
    rw [List.mem_filter] at hl'
    exact h4 l hl'.1 hl'.2 a b ha hb

end Pm.PGDom
