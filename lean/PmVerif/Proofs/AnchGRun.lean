/-
Proofs/AnchGRun.lean — T-RUN-ANCH-PG, stage 3: the visited-set pruning is lossless (the
`(state, projection)` key of a configuration with outgoing transitions or accepted patterns
determines the anchor, and successors and emitted matches depend on state and anchor only, up to
the order of the entries of the binding), and the theorem itself (`AnchG.trun_pg_sound`,
`AnchG.trun_pg_complete`, `AnchG.trun_pg_main`).
Everything lives in `namespace Pm.AnchG`.
-/
import PmVerif.Proofs.AnchGReach
namespace Pm
namespace AnchG
open Automaton

variable {A : Automaton PGKey PGPred} {css : List (Option (List PGCons))} {h : PortGraph}

/-- The configurations at state `s` that stand for anchor `r`: the initial configuration at
the root, or a binding anchored at `r`. -/
def Good (A : Automaton PGKey PGPred) (h : PortGraph) (r s : Nat) (m : PGMap) : Prop :=
  (m = [] ∧ s = A.root) ∨ Anchored h r m

/-- The key determines the anchor: a reachable configuration with the same projection as a
good configuration for `r` — at a state whose projected keys contain the root key — is itself
good for `r`. -/
theorem good_of_key {r s : Nat} {m m₂ : PGMap} {w : AState PGKey}
    (hg : Good A h r s m) (hinv : Inv A h s m₂)
    (h0 : .root 0 ∈ w.scope ++ dedup (w.matches_.flatMap (·.2)))
    (hkey : visitKey pgDomain w m₂ = visitKey pgDomain w m) : Good A h r s m₂ := by
  have hget : alGet m₂ (.root 0) = alGet m (.root 0) := List.map_inj_left.mp hkey _ h0
  rcases hg with ⟨rfl, hs⟩ | ha
  · rcases hinv with ⟨rfl, _⟩ | ⟨r₂, _, ha₂, _⟩
    · exact .inl ⟨rfl, hs⟩
    · rw [ha₂.root] at hget
      cases hget
  · rcases hinv with ⟨rfl, _⟩ | ⟨r₂, _, ha₂, _⟩
    · rw [ha.root] at hget
      cases hget
    · rw [ha.root, ha₂.root] at hget
      cases hget
      exact .inr ha₂

/-- Successors depend on state and anchor only: from a good configuration for `r` some step
candidate binds the scope from `r`. -/
theorem good_step {r s : Nat} {m : PGMap} {w : AState PGKey} (hr : r ∈ h.nodesIter)
    (hst : StateOK A css s w) (hne : w.scope ≠ []) (hg : Good A h r s m) :
    ∃ cands m', stepCands pgDomain h w m = .ok cands ∧ m' ∈ cands ∧
      MapIs m' w.scope (pgVal h r) := by
  obtain ⟨hsr, hshape⟩ := hst.scope_shape
  obtain ⟨rest, hs⟩ : ∃ rest, w.scope = .root 0 :: rest := by
    rcases hshape with h | h
    · exact absurd h hne
    · exact h
  rcases hg with ⟨rfl, _⟩ | ha
  · obtain ⟨f, hf, hmap⟩ := stepCands_nil (h := h) w rest hs hsr (List.ne_nil_of_mem hr)
    exact ⟨_, f r, hf, List.mem_map.mpr ⟨r, hr, rfl⟩, hmap r⟩
  · obtain ⟨m', hm', hmap⟩ := stepCands_anch w ha hsr
    exact ⟨_, m', hm', List.mem_singleton.mpr rfl, hmap⟩

/-- Emission depends on state and anchor only. -/
theorem good_emit {r s pid : Nat} {ks : List PGKey} {m : PGMap} {w : AState PGKey}
    {em : List (Match PGMap)} (hr : r ∈ h.nodesIter)
    (hst : StateOK A css s w) (hg : Good A h r s m) (hm : (pid, ks) ∈ w.matches_) (hne : ks ≠ [])
    (hb : ∀ k ∈ ks, (pgVal h r k).isSome = true)
    (he : emitMatches pgDomain h m w.matches_ = .ok em) :
    ∃ mm, (pid, mm) ∈ em ∧ MapIs mm ks (pgVal h r) := by
  obtain ⟨⟨hsr, hshape⟩, _, _⟩ := hst.matches_ pid ks hm
  rcases hg with ⟨rfl, _⟩ | ha
  · obtain ⟨rest, rfl⟩ : ∃ rest, ks = .root 0 :: rest := by
      rcases hshape with h | h
      · exact absurd h hne
      · exact h
    obtain ⟨mm, hex, hmap⟩ :=
      (emit_nil h rest fun k hk => hsr k (List.mem_cons_of_mem _ hk)).2 r hr hb
    exact ⟨mm, (mem_emitMatches he _ _).mpr ⟨_, hm, hex⟩, hmap⟩
  · obtain ⟨hiff, hmap⟩ := emit_anch ha ks hsr
    obtain ⟨mm, hex⟩ := hiff.mpr hb
    exact ⟨mm, (mem_emitMatches he _ _).mpr ⟨_, hm, hex⟩, hmap mm hex⟩

/-! ### completeness along an acceptance path -/

section Complete
variable {fuel : Nat} {ms : List (Match PGMap)} {seen : List (Nat × List (Option Nat))}

/-- A good configuration whose key is in the visit log has an expanded twin that is good for
the same anchor. -/
theorem twin {exp : List (Nat × PGMap)} {r s : Nat} {m : PGMap} {w : AState PGKey}
    (hok : pgProgramOK A css = true)
    (hF : Forall2 (fun sm key => ∃ w, A.g.weight? sm.1 = some w ∧
      key = (sm.1, visitKey pgDomain w sm.2)) exp seen)
    (hreach : ∀ sm ∈ exp, Reach pgDomain A h sm.1 sm.2)
    (hw : A.g.weight? s = some w) (hg : Good A h r s m)
    (h0 : .root 0 ∈ w.scope ++ dedup (w.matches_.flatMap (·.2)))
    (hkey : (s, visitKey pgDomain w m) ∈ seen) :
    ∃ m₂, (s, m₂) ∈ exp ∧ Good A h r s m₂ := by
  obtain ⟨⟨s', m₂⟩, hmem, w', hw', heq⟩ := hF.mem_right hkey
  simp only [Prod.mk.injEq] at heq
  obtain ⟨rfl, hk⟩ := heq
  rw [hw] at hw'
  cases hw'
  exact ⟨m₂, hmem, good_of_key hg (reach_inv hok (hreach _ hmem)) h0 hk.symm⟩

theorem complete_aux (hok : pgProgramOK A css = true)
    (hr : run pgDomain A h fuel = .ok (ms, seen)) (r : Nat) (hrn : r ∈ h.nodesIter)
    (pid : Nat) (ks : List PGKey) (hne : ks ≠ [])
    (hb : ∀ k ∈ ks, (pgVal h r k).isSome = true) (s : Nat)
    (hacc : AccDetK (pgSigmaAnch h r) A s pid ks) :
    ∀ m, Good A h r s m → (∀ w, A.g.weight? s = some w → (s, visitKey pgDomain w m) ∈ seen) →
      ∃ mm, (pid, mm) ∈ ms ∧ MapIs mm ks (pgVal h r) := by
  obtain ⟨_, exp, hF, ⟨ems, hE, rfl⟩, hreach, hclosed⟩ := trun_closed hr
  induction hacc with
  | @here s pid ks w hw hmem =>
    intro m hg hkey
    have hst := stateOK_of_programOK hok hw
    have h0 : .root 0 ∈ w.scope ++ dedup (w.matches_.flatMap (·.2)) := by
      apply List.mem_append_right
      rw [mem_dedup, List.mem_flatMap]
      exact ⟨(pid, ks), hmem, (hst.matches_ pid ks hmem).1.root_mem hne⟩
    obtain ⟨m₂, hexp, hg₂⟩ := twin hok hF hreach hw hg h0 (hkey w hw)
    obtain ⟨em, hem, w', hw', he⟩ := hE.mem_left hexp
    rw [hw] at hw'
    cases hw'
    obtain ⟨mm, hmm, hmap⟩ := good_emit hrn hst hg₂ hmem hne hb he
    exact ⟨mm, List.mem_flatten.mpr ⟨em, hem, hmm⟩, hmap⟩
  | @con s pid ks w t e c hw ht he hcw hsig _ ih =>
    intro m hg hkey
    have hst := stateOK_of_programOK hok hw
    have hsne : w.scope ≠ [] := hst.scope_ne (.inl (List.ne_nil_of_mem ht))
    have h0 : .root 0 ∈ w.scope ++ dedup (w.matches_.flatMap (·.2)) :=
      List.mem_append_left _ (hst.scope_shape.root_mem hsne)
    obtain ⟨m₂, hexp, hg₂⟩ := twin hok hF hreach hw hg h0 (hkey w hw)
    obtain ⟨nexts, hn, hcl⟩ := hclosed _ hexp
    obtain ⟨cands, m', hc, hcand, hmap⟩ := good_step hrn hst hsne hg₂
    have hnext : (e.dst, m') ∈ nexts :=
      (mem_nextLegalStates hn _ _).mpr ⟨w, cands, hw, hc, hcand,
        .inl ⟨t, e, c, ht, he, hcw, by rw [sat_cand hst ht he hcw hmap.2, hsig], rfl⟩⟩
    obtain ⟨w', hw', hseen⟩ := hcl _ hnext
    refine ih hne hb _ (.inr (anchored_of_mapIs hmap (hst.scope_shape.root_mem hsne))) ?_
    intro w'' hw''
    rw [hw'] at hw''
    cases hw''
    exact hseen
  | @eps s pid ks w t e hw ht he hd _ ih =>
    intro m hg hkey
    have hst := stateOK_of_programOK hok hw
    have hsne : w.scope ≠ [] := hst.scope_ne (.inr (List.ne_nil_of_mem ht))
    have h0 : .root 0 ∈ w.scope ++ dedup (w.matches_.flatMap (·.2)) :=
      List.mem_append_left _ (hst.scope_shape.root_mem hsne)
    obtain ⟨m₂, hexp, hg₂⟩ := twin hok hF hreach hw hg h0 (hkey w hw)
    obtain ⟨nexts, hn, hcl⟩ := hclosed _ hexp
    obtain ⟨cands, m', hc, hcand, hmap⟩ := good_step hrn hst hsne hg₂
    have hnext : (e.dst, m') ∈ nexts :=
      (mem_nextLegalStates hn _ _).mpr ⟨w, cands, hw, hc, hcand,
        .inr ⟨t, e, ht, he, (eps_cond_iff hst hmap.2).mpr hd, rfl⟩⟩
    obtain ⟨w', hw', hseen⟩ := hcl _ hnext
    refine ih hne hb _ (.inr (anchored_of_mapIs hmap (hst.scope_shape.root_mem hsne))) ?_
    intro w'' hw''
    rw [hw'] at hw''
    cases hw''
    exact hseen

end Complete

/-! ### the theorem -/

theorem alRetain_nil (m : PGMap) : alRetain m ([] : List PGKey) = [] := by
  simp [alRetain]

/-- **T-RUN-ANCH-PG, soundness.** Every reported match is the empty binding of a pattern the
root accepts with no keys, or the binding, from a live host node `r`, of the key list of a
pattern accepted from the root under `pgSigmaAnch h r`, all of whose keys are defined at `r`. -/
theorem trun_pg_sound (A : Automaton PGKey PGPred) (css : List (Option (List PGCons)))
    (h : PortGraph) (fuel : Nat) (ms : List (Match PGMap)) (seen : List (Nat × List (Option Nat)))
    (hok : pgProgramOK A css = true) (hr : run pgDomain A h fuel = .ok (ms, seen))
    (i : Nat) (m : PGMap) (hm : (i, m) ∈ ms) :
    (m = [] ∧ ∃ w, A.g.weight? A.root = some w ∧ (i, []) ∈ w.matches_) ∨
    (∃ r ks, r ∈ h.nodesIter ∧ ks ≠ [] ∧ AccDetK (pgSigmaAnch h r) A A.root i ks ∧
      (∀ k ∈ ks, (pgVal h r k).isSome = true) ∧ MapIs m ks (pgVal h r)) := by
  obtain ⟨s, m0, w, keys, hreach, hw, hk, m₁, hm₁, hret⟩ := trun_sound hr i m hm
  have hst := stateOK_of_programOK hok hw
  have hinv := reach_inv hok hreach
  obtain ⟨⟨hsr, hshape⟩, hroot, _⟩ := hst.matches_ i keys hk
  rcases hshape with rfl | ⟨rest, rfl⟩
  · left
    have hs : s = A.root := by
      rcases hroot with h | h
      · exact h
      · exact absurd rfl h
    subst hs
    have : m = [] := by
      have hret' : some (alRetain m₁ ([] : List PGKey)) = some m := hret
      rw [alRetain_nil] at hret'
      exact (Option.some.inj hret').symm
    exact ⟨this, w, hw, hk⟩
  · right
    rcases hinv with ⟨rfl, hs⟩ | ⟨r, hrn, ha, hpath⟩
    · obtain ⟨r, hrn, hb, hmap⟩ :=
        (emit_nil h rest fun k hk => hsr k (List.mem_cons_of_mem _ hk)).1 m ⟨m₁, hm₁, hret⟩
      have hs' : s = A.root := by
        rcases hs with h | h
        · exact h
        · rw [h] at hrn; cases hrn
      subst hs'
      exact ⟨r, _, hrn, by simp, AccDetK.here hw hk, hb, hmap⟩
    · obtain ⟨hiff, hmap⟩ := emit_anch ha (.root 0 :: rest) hsr
      exact ⟨r, _, hrn, by simp, hpath _ _ (AccDetK.here hw hk), hiff.mp ⟨m, m₁, hm₁, hret⟩,
        hmap m ⟨m₁, hm₁, hret⟩⟩

/-- **T-RUN-ANCH-PG, completeness (empty key list).** -/
theorem trun_pg_complete_nil (A : Automaton PGKey PGPred) (h : PortGraph) (fuel : Nat)
    (ms : List (Match PGMap)) (seen : List (Nat × List (Option Nat)))
    (hr : run pgDomain A h fuel = .ok (ms, seen)) (i : Nat) (w : AState PGKey)
    (hw : A.g.weight? A.root = some w) (hk : (i, []) ∈ w.matches_) : (i, ([] : PGMap)) ∈ ms := by
  obtain ⟨⟨wr, hwr, hrk⟩, exp, hF, ⟨ems, hE, rfl⟩, _, _⟩ := trun_closed hr
  obtain ⟨⟨s', m₂⟩, hmem, w', hw', heq⟩ := hF.mem_right hrk
  simp only [Prod.mk.injEq] at heq
  obtain ⟨rfl, _⟩ := heq
  obtain ⟨em, hem, w'', hw'', he⟩ := hE.mem_left hmem
  rw [hw] at hw''
  cases hw''
  refine List.mem_flatten.mpr ⟨em, hem, (mem_emitMatches he _ _).mpr ⟨[], hk, m₂, ?_, ?_⟩⟩
  · exact List.mem_singleton.mpr rfl
  · show some (alRetain m₂ ([] : List PGKey)) = some []
    rw [alRetain_nil]

/-- **T-RUN-ANCH-PG, completeness.** The visited-set pruning loses nothing: for every live host
node `r` and every pattern accepted from the root under `pgSigmaAnch h r` with a non-empty key
list all of whose keys are defined at `r`, the binding of those keys from `r` is reported. -/
theorem trun_pg_complete (A : Automaton PGKey PGPred) (css : List (Option (List PGCons)))
    (h : PortGraph) (fuel : Nat) (ms : List (Match PGMap)) (seen : List (Nat × List (Option Nat)))
    (hok : pgProgramOK A css = true) (hr : run pgDomain A h fuel = .ok (ms, seen))
    (i r : Nat) (ks : List PGKey) (hrn : r ∈ h.nodesIter) (hne : ks ≠ [])
    (hacc : AccDetK (pgSigmaAnch h r) A A.root i ks)
    (hb : ∀ k ∈ ks, (pgVal h r k).isSome = true) :
    ∃ m, (i, m) ∈ ms ∧ MapIs m ks (pgVal h r) := by
  obtain ⟨⟨wr, hwr, hrk⟩, _⟩ := trun_closed hr
  refine complete_aux hok hr r hrn i ks hne hb A.root hacc [] (.inl ⟨rfl, rfl⟩) ?_
  intro w hw
  rw [hwr] at hw
  cases hw
  exact hrk

/-- **T-RUN-ANCH-PG** as an equivalence for all `i`, `m`, up to the order of the entries of the
reported binding (`MapEqv`: same `get`). -/
theorem trun_pg_main (A : Automaton PGKey PGPred) (css : List (Option (List PGCons)))
    (h : PortGraph) (fuel : Nat) (ms : List (Match PGMap)) (seen : List (Nat × List (Option Nat)))
    (hok : pgProgramOK A css = true) (hr : run pgDomain A h fuel = .ok (ms, seen))
    (i : Nat) (m : PGMap) :
    (∃ m', (i, m') ∈ ms ∧ MapEqv m' m) ↔
      (m = [] ∧ ∃ w, A.g.weight? A.root = some w ∧ (i, []) ∈ w.matches_) ∨
      (∃ r ks, r ∈ h.nodesIter ∧ ks ≠ [] ∧ AccDetK (pgSigmaAnch h r) A A.root i ks ∧
        (∀ k ∈ ks, (pgVal h r k).isSome = true) ∧ MapGets m ks (pgVal h r)) := by
  constructor
  · rintro ⟨m', hm', heqv⟩
    rcases trun_pg_sound A css h fuel ms seen hok hr i m' hm' with
      ⟨rfl, hroot⟩ | ⟨r, ks, hrn, hne, hacc, hb, hmap⟩
    · left
      exact ⟨alGet_eq_nil fun k => (heqv k).symm, hroot⟩
    · right
      exact ⟨r, ks, hrn, hne, hacc, hb, fun k => (heqv k).symm.trans (hmap.2 k)⟩
  · rintro (⟨rfl, w, hw, hk⟩ | ⟨r, ks, hrn, hne, hacc, hb, hmap⟩)
    · exact ⟨[], trun_pg_complete_nil A h fuel ms seen hr i w hw hk, fun _ => rfl⟩
    · obtain ⟨m', hm', hmap'⟩ := trun_pg_complete A css h fuel ms seen hok hr i r ks hrn hne hacc hb
      exact ⟨m', hm', fun k => (hmap'.2 k).trans (hmap k).symm⟩

end AnchG
end Pm
