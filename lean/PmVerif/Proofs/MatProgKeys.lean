/-
Proofs/MatProgKeys.lean — the key-list clause of `matProgramOK` as a theorem of the builder: every
`(pattern id, key list)` recorded at a live state of a successfully built MATRIX automaton is
`(i, matPatternKeys p)` for the `i`-th input pattern `p` (`matKeys_built`).

The key list `add_pattern` computes is followed exactly through `addPatternLoop` (the builder's
fuel and the fuel `16` of `matPatternKeys` give the same `all_missing_bindings` results:
`allMissingLoop_fuel_mono` + `AnchM.allMissingLoop_star`); the rest of the build only copies
recorded pairs (`c09b_MFrom` frame of Proofs/C09BuiltLemmas.lean). Matrix version of
Proofs/StrProgKeys.lean. Everything lives in `namespace Pm.MatProg`.
-/
import PmVerif.Proofs.C09BuiltLemmas
import PmVerif.Proofs.AnchMKeys
import PmVerif.Proofs.Missing
import PmVerif.Props.C06
namespace Pm
namespace MatProg
open Automaton

/-- For the matrix scheme, a successful `all_missing_bindings` at any fuel returns what the call
with fuel `16` (which always succeeds) returns. -/
theorem matAllMissing_fuel16 {ks known more : List MKey} {fuel : Nat}
    (h : allMissingBindings matReq ks known fuel = some more) :
    allMissingBindings matReq ks known 16 = some more := by
  unfold allMissingBindings at h ⊢
  obtain ⟨res, hres, _⟩ := AnchM.allMissingLoop_star ((0 : Int), (0 : Int)) ks known []
  rw [← AnchM.matReq_eq_star] at hres
  have e1 := allMissingLoop_fuel_mono matReq fuel (max fuel 16) (Nat.le_max_left _ _) _ _ _ _ h
  have e2 := allMissingLoop_fuel_mono matReq 16 (max fuel 16) (Nat.le_max_right _ _) _ _ _ _ hres
  rw [e1] at e2
  rw [hres, e2]

/-- The key list returned by `addPatternLoop` is the fold of `matPatternKeys` started at the
initial key list. -/
theorem matKeys_addPatternLoop (fuel : Nat) :
    ∀ (cs : List MatCons) (a a' : Automaton MKey CharPred) (s s' : Nat) (keys0 keys : List MKey),
      addPatternLoop matReq fuel a s keys0 cs = .ok (a', s', keys) →
      keys = cs.foldl AnchM.keyStep keys0
  | [], a, a', s, s', keys0, keys, h => by
    rw [addPatternLoop] at h
    cases h; rfl
  | c :: cs, a, a', s, s', keys0, keys, h => by
    rw [addPatternLoop] at h
    split at h
    · cases h
    · rename_i more hmore
      split at h
      · cases h
      · rename_i a1 s1 hadd
        have ih := matKeys_addPatternLoop fuel cs a1 a' s1 s' _ keys h
        rw [ih, List.foldl_cons]
        have : AnchM.keyStep keys0 c = keys0 ++ more := by
          unfold AnchM.keyStep
          rw [matAllMissing_fuel16 hmore]; rfl
        rw [this]

/-- After `add_pattern(matConstraints p, pid, [])` every recorded pair is an old one or
`(pid, matPatternKeys p)`. -/
theorem matKeys_addPattern {fuel : Nat} {a a' : Automaton MKey CharPred} {p : MatPattern}
    {pid : Nat} (h : addPattern matReq fuel a (matConstraints p) pid [] = .ok a') :
    MatchesIn a a' (some (pid, matPatternKeys p)) := by
  unfold addPattern at h
  split at h
  · cases h
  · rename_i keys0 h0
    have hk0 : keys0 = [] := by
      have h1 : allMissingBindings matReq ([] : List MKey) [] fuel = some [] := rfl
      rw [h1] at h0
      cases h0; rfl
    subst hk0
    split at h
    · cases h
    · rename_i a1 s1 keys hloop
      have hkeys := matKeys_addPatternLoop fuel _ _ _ _ _ _ _ hloop
      rw [← AnchM.matPatternKeys_eq] at hkeys
      subst hkeys
      exact (matchesIn_addPatternLoop matReq fuel _ _ _ _ _ _ _ hloop).trans
        (matchesIn_addMatch h)

/-- The property of a recorded pair: its key list is `matPatternKeys` of the input pattern at the
position given by its id. -/
def KeysOf (ps : List MatPattern) (m : Nat × List MKey) : Prop :=
  ∃ p, ps[m.1]? = some p ∧ m.2 = matPatternKeys p

theorem matKeys_addPatterns (ps : List MatPattern) (fuel : Nat) :
    ∀ (inputs : List (Nat × List MatCons × List MKey)) (a a' : Automaton MKey CharPred),
      (∀ x ∈ inputs, ∃ p, ps[x.1]? = some p ∧ x.2.1 = matConstraints p ∧ x.2.2 = []) →
      addPatterns matReq fuel a inputs = .ok a' →
      c09b_MFrom (KeysOf ps) a → c09b_MFrom (KeysOf ps) a'
  | [], a, a', _, h, H => by
    rw [addPatterns] at h; cases h; exact H
  | (pid, cs, extra) :: rest, a, a', hin, h, H => by
    rw [addPatterns] at h
    split at h
    · cases h
    · rename_i a1 hadd
      refine matKeys_addPatterns ps fuel rest a1 a'
        (fun x hx => hin x (List.mem_cons_of_mem _ hx)) h ?_
      obtain ⟨p, hp, hcs, hex⟩ := hin (pid, cs, extra) List.mem_cons_self
      simp only at hp hcs hex
      subst hcs hex
      intro s w hw m hm
      rcases matKeys_addPattern hadd s w hw m hm with ⟨s0, w0, hw0, hm0⟩ | hnew
      · exact H s0 w0 hw0 m hm0
      · cases hnew
        exact ⟨p, hp, rfl⟩

/-- `build` on inputs that are matrix patterns at their positions records exact key lists. -/
theorem matKeys_build (ps : List MatPattern) {fuel : Nat}
    {inputs : List (Nat × List MatCons × List MKey)} {evs : List Ev}
    {A : Automaton MKey CharPred}
    (hin : ∀ x ∈ inputs, ∃ p, ps[x.1]? = some p ∧ x.2.1 = matConstraints p ∧ x.2.2 = [])
    (h : build (charTree mkeyLt) matReq fuel inputs evs = .ok A) :
    c09b_MFrom (KeysOf ps) A := by
  unfold build at h
  split at h
  · cases h
  · rename_i a1 h1
    have H1 : c09b_MFrom (KeysOf ps) a1 := by
      refine matKeys_addPatterns ps fuel inputs new a1 hin h1 ?_
      intro s w hw m hm
      rw [new_no_matches s w hw] at hm
      cases hm
    unfold finish at h
    split at h
    · cases h
    · rename_i a2 h2
      exact c09b_mfrom_populateScopes h (c09b_mfrom_mainLoop _ _ h2 H1)

/-- **The key-list clause of `matProgramOK` for every built matrix automaton.** Every
`(pattern id, key list)` recorded at a live state is `(i, matPatternKeys p)` for the `i`-th input
pattern `p`. -/
theorem matKeys_built (ps : List MatPattern) (evs : List Ev) (fuel : Nat)
    (M : Many MKey CharPred)
    (hb : manyBuild (fun p => some (matConstraints p)) (fun _ => ([] : List MKey))
      (charTree mkeyLt) matReq fuel true ps evs = some (.ok M)) :
    ∀ s w, M.automaton.g.weight? s = some w → ∀ m ∈ w.matches_,
      ∃ p, ps[m.1]? = some p ∧ m.2 = matPatternKeys p := by
  unfold manyBuild at hb
  cases hi : manyInputs (fun p => some (matConstraints p)) (fun _ => ([] : List MKey)) true ps 0 with
  | none => simp [hi] at hb
  | some inputs =>
    simp only [hi] at hb
    cases hbd : build (charTree mkeyLt) matReq fuel inputs evs with
    | error e => simp [hbd] at hb
    | ok A =>
      simp only [hbd, Option.some.injEq, Except.ok.injEq] at hb
      subst hb
      have hpos := c06_ids_are_positions (fun p => some (matConstraints p))
        (fun _ => ([] : List MKey)) true ps 0 inputs hi
      refine matKeys_build ps ?_ hbd
      rintro ⟨i, cs, ex⟩ hx
      obtain ⟨k, p, hk, hj, hc, hex⟩ := (hpos i cs ex).mp hx
      simp only [Nat.zero_add] at hj
      subst hj
      simp only [Option.some.injEq] at hc
      exact ⟨p, hk, hc.symm, hex⟩

end MatProg
end Pm
