/-
Proofs/PGProgEmb.lean — C01/C02 for single-root port-graph pattern sets in terms of EMBEDDINGS:
`pg_many` (Proofs/PGProgCor.lean) combined with T-DOM-PG (`tdom_pg_iff_connected`,
Props/TDomPG.lean). For well-formed connected patterns (the library's documented requirement)

* the isolated-root vector does not occur (`root_has_link_of_connected`: coverage puts every link
  on a line, so a graph with links has a line, which starts at a link of the root);
* "all keys of the recorded key list are defined at the anchor" follows from "all constraints
  hold at the anchor" (`keys_defined_of_sat`: every recorded key is `root 0` or an argument of a
  constraint), so that conjunct disappears;
* "all constraints hold at anchor `r`" is "the pattern embeds with its root sent to `r`".
Everything lives in `namespace Pm.PGProg`.
-/
import PmVerif.Proofs.PGProgIso
import PmVerif.Props.TDomPG
namespace Pm
namespace PGProg
open Automaton AnchG PGDom MatProg

/-! ### the keys of `pgPatternKeys` -/

theorem mem_foldl_keyStep : ∀ (cs : List PGCons) (keys : List PGKey),
    (∀ c ∈ cs, ∀ k ∈ c.args, SR k) → ∀ k ∈ cs.foldl keyStep keys,
      k ∈ keys ∨ k = .root 0 ∨ ∃ c ∈ cs, k ∈ c.args
  | [], keys, _, k, hk => .inl hk
  | c :: cs, keys, hsr, k, hk => by
    rw [List.foldl_cons] at hk
    have hc := hsr c List.mem_cons_self
    obtain ⟨more, hm⟩ := pgAllMissing_64 c.args keys hc
    have hstep : keyStep keys c = keys ++ more := by
      unfold keyStep
      rw [hm]; rfl
    rw [hstep] at hk
    rcases mem_foldl_keyStep cs _ (fun c' hc' => hsr c' (List.mem_cons_of_mem _ hc')) k hk with
      h1 | h1 | ⟨c', hc', hkc'⟩
    · rcases List.mem_append.1 h1 with h2 | h2
      · exact .inl h2
      · have spec := c12_all_any_fuel pgReq pgReq_acyclic c.args keys 64 more hm
        rcases (needed_starOn pgReq_starOn hc ((spec.exact k).1 h2)).1 with h3 | h3
        · exact .inr (.inr ⟨c, List.mem_cons_self, h3⟩)
        · exact .inr (.inl h3)
    · exact .inr (.inl h1)
    · exact .inr (.inr ⟨c', List.mem_cons_of_mem _ hc', hkc'⟩)

/-- Every key of the recorded key list of a single-root constraint vector is the root key or an
argument of one of the constraints. -/
theorem mem_pgPatternKeys {cs : List PGCons} (hsr : ∀ c ∈ cs, ∀ k ∈ c.args, SR k) {k : PGKey}
    (hk : k ∈ pgPatternKeys cs) : k = .root 0 ∨ ∃ c ∈ cs, k ∈ c.args := by
  rw [pgPatternKeys_foldl] at hk
  rcases mem_foldl_keyStep cs [] hsr k hk with h | h
  · cases h
  · exact h

/-- If all constraints hold at the anchor, all keys of the recorded key list are defined there. -/
theorem keys_defined_of_sat {h : PortGraph} {r : Nat} {cs : List PGCons}
    (hs : ∀ c ∈ cs, pgSigmaAnch h r c = true) :
    ∀ k ∈ pgPatternKeys cs, (pgVal h r k).isSome = true := by
  have hdef : ∀ c ∈ cs, ∀ k ∈ c.args, (pgVal h r k).isSome = true := fun c hc =>
    (args_of_sigma (hs c hc)).2
  intro k hk
  rcases mem_pgPatternKeys (fun c hc k hk => sr_of_defined (hdef c hc k hk)) hk with rfl | ⟨c, hc, hkc⟩
  · rfl
  · exact hdef c hc k hkc

/-! ### connected patterns -/

/-- The root of a well-formed connected pattern with links has a link. -/
theorem root_has_link_of_connected {p : PortGraph} {root : Nat} (hp : p.LinksOK)
    (hc : pgConnected p = true) (hr : (p.node? root).isSome = true) :
    p.edgeCount = 0 ∨ p.allLinks root ≠ [] := by
  by_cases he : p.edgeCount = 0
  · exact .inl he
  · right
    intro hl
    have hcov := tdom_pg_cover p root hp hc hr
    have hlp : linePartition p root = [] := by
      unfold linePartition
      rw [hl, linePartitionLoop_nil]
    cases hlinks : p.links with
    | nil =>
      apply he
      unfold PortGraph.edgeCount
      rw [hlinks]; rfl
    | cons l rest =>
      have := hcov.1 l (hlinks ▸ List.mem_cons_self)
      unfold onLines at this
      rw [hlp] at this
      cases this

/-! ### the theorem -/

/-- **C01/C02 for single-root port-graph pattern sets, in terms of embeddings.** -/
theorem pg_many_embeddings (pats : List (PortGraph × Nat)) (evs : List Ev)
    (fuelT fuel fuel' : Nat) (M : Many PGKey PGPred) (h : PortGraph) (ms : List (Match PGMap))
    (hwf : ∀ p ∈ pats, p.1.LinksOK ∧ pgConnected p.1 = true ∧ (p.1.node? p.2).isSome = true)
    (hsr : ∀ p ∈ pats, ∀ cs, pgConstraints p.1 p.2 = some cs → pgSigMultiRoot cs = false)
    (hh : h.LinksOK)
    (hb : manyBuild (fun p : PortGraph × Nat => pgConstraints p.1 p.2) (fun _ => ([] : List PGKey))
      (fun cs => pgTree cs fuelT) pgReq fuel true pats evs = some (.ok M))
    (hf : M.findMatches pgDomain h fuel' = .ok ms) (i : Nat) (m : PGMap) :
    (∃ m', (i, m') ∈ ms ∧ MapEqv m' m) ↔
      ∃ p cs, pats[i]? = some p ∧ pgConstraints p.1 p.2 = some cs ∧
        ∃ r φ, embedsPG p.1 h φ = true ∧ alGet φ p.2 = some r ∧
          MapGets m (pgPatternKeys cs) (pgVal h r) := by
  rw [pg_many (fun p : PortGraph × Nat => pgConstraints p.1 p.2) (fun p _ hc => ⟨p.1, p.2, hc⟩)
    true pats evs fuelT fuel fuel' M h ms hsr
    (fun p hp hc => by
      obtain ⟨h1, h2⟩ := (pgConstraints_isolated_iff p.1 p.2).1 hc
      obtain ⟨hl, hcn, hrt⟩ := hwf p hp
      rcases root_has_link_of_connected hl hcn hrt with h3 | h3
      · exact h1 h3
      · exact h3 h2) hb hf i m]
  constructor
  · rintro ⟨p, cs, hi, hcs, r, hrn, hsat, _, hmap⟩
    have hp : p ∈ pats := List.mem_of_getElem? hi
    obtain ⟨hl, hcn, hrt⟩ := hwf p hp
    have hrl : (h.node? r).isSome = true := (PortGraph.mem_nodesIter h r).1 hrn
    obtain ⟨φ, hemb, hroot⟩ := (tdom_pg_iff_connected p.1 h p.2 r cs hl hcn hrt hh hrl hcs
      (hsr p hp cs hcs)).1 hsat
    exact ⟨p, cs, hi, hcs, r, φ, hemb, hroot, hmap⟩
  · rintro ⟨p, cs, hi, hcs, r, φ, hemb, hroot, hmap⟩
    have hp : p ∈ pats := List.mem_of_getElem? hi
    obtain ⟨hl, hcn, hrt⟩ := hwf p hp
    have hrl : (h.node? r).isSome = true :=
      ((embedsPG_iff p.1 h φ).1 hemb).2.2.1 (p.2, r) (alGet_mem hroot)
    have hsat := (tdom_pg_iff_connected p.1 h p.2 r cs hl hcn hrt hh hrl hcs
      (hsr p hp cs hcs)).2 ⟨φ, hemb, hroot⟩
    exact ⟨p, cs, hi, hcs, r, (PortGraph.mem_nodesIter h r).2 hrl, hsat, keys_defined_of_sat hsat, hmap⟩

end PGProg
end Pm
