/-
Proofs/PGProgKeys.lean — the key-list clause of `pgProgramOK` as a theorem of the builder: every
`(pattern id, key list)` recorded at a live state of a successfully built port-graph automaton
whose input constraints only mention single-root keys is `(i, pgPatternKeys cs)` for the input
`(i, cs, [])` (`pgKeys_build`).

The key list `add_pattern` computes is followed exactly through `addPatternLoop` (on single-root
keys the builder's fuel and the fuel `64` of `pgPatternKeys` give the same
`all_missing_bindings` results: `allMissingLoop_fuel_mono` + `AnchG.allMissingLoop_sr`); the rest
of the build only copies recorded pairs (`c09b_MFrom` frame of Proofs/C09BuiltLemmas.lean).
Port-graph version of Proofs/StrProgKeys.lean / Proofs/MatProgKeys.lean.
Everything lives in `namespace Pm.PGProg`.
-/
import PmVerif.Proofs.PGProgDefs
import PmVerif.Proofs.C09BuiltLemmas
import PmVerif.Proofs.Missing
namespace Pm
namespace PGProg
open Automaton AnchG

/-- One step of the fold in `pgPatternKeys`. -/
def keyStep (keys : List PGKey) (c : PGCons) : List PGKey :=
  keys ++ (allMissingBindings pgReq c.args keys 64).getD []

theorem pgPatternKeys_foldl (cs : List PGCons) : pgPatternKeys cs = cs.foldl keyStep [] := rfl

/-- On single-root keys `all_missing_bindings` succeeds with fuel `64`. -/
theorem pgAllMissing_64 (ks known : List PGKey) (hsr : ∀ k ∈ ks, SR k) :
    ∃ more, allMissingBindings pgReq ks known 64 = some more := by
  obtain ⟨more, hm⟩ := allMissingLoop_sr 60 ks known [] hsr
  exact ⟨more, by simpa [allMissingBindings] using hm⟩

/-- For single-root keys, a successful `all_missing_bindings` at any fuel returns what the call
with fuel `64` returns. -/
theorem pgAllMissing_fuel64 {ks known more : List PGKey} {fuel : Nat} (hsr : ∀ k ∈ ks, SR k)
    (h : allMissingBindings pgReq ks known fuel = some more) :
    allMissingBindings pgReq ks known 64 = some more := by
  obtain ⟨res, hres⟩ := pgAllMissing_64 ks known hsr
  unfold allMissingBindings at h hres ⊢
  have e1 := allMissingLoop_fuel_mono pgReq fuel (max fuel 64) (Nat.le_max_left _ _) _ _ _ _ h
  have e2 := allMissingLoop_fuel_mono pgReq 64 (max fuel 64) (Nat.le_max_right _ _) _ _ _ _ hres
  rw [e1] at e2
  rw [hres, e2]

/-- The key list returned by `addPatternLoop` is the fold of `pgPatternKeys` started at the
initial key list. -/
theorem pgKeys_addPatternLoop (fuel : Nat) :
    ∀ (cs : List PGCons) (a a' : Automaton PGKey PGPred) (s s' : Nat) (keys0 keys : List PGKey),
      (∀ c ∈ cs, ∀ k ∈ c.args, SR k) →
      addPatternLoop pgReq fuel a s keys0 cs = .ok (a', s', keys) →
      keys = cs.foldl keyStep keys0
  | [], a, a', s, s', keys0, keys, _, h => by
    rw [addPatternLoop] at h
    cases h; rfl
  | c :: cs, a, a', s, s', keys0, keys, hsr, h => by
    rw [addPatternLoop] at h
    split at h
    · cases h
    · rename_i more hmore
      split at h
      · cases h
      · rename_i a1 s1 hadd
        have ih := pgKeys_addPatternLoop fuel cs a1 a' s1 s' _ keys
          (fun c' hc' => hsr c' (List.mem_cons_of_mem _ hc')) h
        rw [ih, List.foldl_cons]
        have : keyStep keys0 c = keys0 ++ more := by
          unfold keyStep
          rw [pgAllMissing_fuel64 (hsr c List.mem_cons_self) hmore]; rfl
        rw [this]

/-- After `add_pattern(cs, pid, [])` every recorded pair is an old one or
`(pid, pgPatternKeys cs)`. -/
theorem pgKeys_addPattern {fuel : Nat} {a a' : Automaton PGKey PGPred} {cs : List PGCons}
    {pid : Nat} (hsr : ∀ c ∈ cs, ∀ k ∈ c.args, SR k)
    (h : addPattern pgReq fuel a cs pid [] = .ok a') :
    MatchesIn a a' (some (pid, pgPatternKeys cs)) := by
  unfold addPattern at h
  split at h
  · cases h
  · rename_i keys0 h0
    have hk0 : keys0 = [] := by
      have h1 : allMissingBindings pgReq ([] : List PGKey) [] fuel = some [] := rfl
      rw [h1] at h0
      cases h0; rfl
    subst hk0
    split at h
    · cases h
    · rename_i a1 s1 keys hloop
      have hkeys := pgKeys_addPatternLoop fuel _ _ _ _ _ _ _ hsr hloop
      rw [← pgPatternKeys_foldl] at hkeys
      subst hkeys
      exact (matchesIn_addPatternLoop pgReq fuel _ _ _ _ _ _ _ hloop).trans
        (matchesIn_addMatch h)

/-- The property of a recorded pair: its key list is `pgPatternKeys` of the constraint vector
`css` lists for its id. -/
def KeysOf (css : List (Option (List PGCons))) (m : Nat × List PGKey) : Prop :=
  ∃ cs, css[m.1]? = some (some cs) ∧ m.2 = pgPatternKeys cs

theorem pgKeys_addPatterns (css : List (Option (List PGCons))) (fuel : Nat) :
    ∀ (inputs : List (Nat × List PGCons × List PGKey)) (a a' : Automaton PGKey PGPred),
      (∀ x ∈ inputs, css[x.1]? = some (some x.2.1) ∧ x.2.2 = [] ∧
        ∀ c ∈ x.2.1, ∀ k ∈ c.args, SR k) →
      addPatterns pgReq fuel a inputs = .ok a' →
      c09b_MFrom (KeysOf css) a → c09b_MFrom (KeysOf css) a'
  | [], a, a', _, h, H => by
    rw [addPatterns] at h; cases h; exact H
  | (pid, cs, extra) :: rest, a, a', hin, h, H => by
    rw [addPatterns] at h
    split at h
    · cases h
    · rename_i a1 hadd
      refine pgKeys_addPatterns css fuel rest a1 a'
        (fun x hx => hin x (List.mem_cons_of_mem _ hx)) h ?_
      obtain ⟨hp, hex, hsr⟩ := hin (pid, cs, extra) List.mem_cons_self
      simp only at hp hex hsr
      subst hex
      intro s w hw m hm
      rcases pgKeys_addPattern hsr hadd s w hw m hm with ⟨s0, w0, hw0, hm0⟩ | hnew
      · exact H s0 w0 hw0 m hm0
      · cases hnew
        exact ⟨cs, hp, rfl⟩

/-- **The key-list clause for every built single-root port-graph automaton.** Every
`(pattern id, key list)` recorded at a live state is `(i, pgPatternKeys cs)` for the constraint
vector `cs` that `css` lists for `i`. -/
theorem pgKeys_build (css : List (Option (List PGCons))) {fuel : Nat}
    {toTree : List PGCons → Option (CTree PGCons)}
    {inputs : List (Nat × List PGCons × List PGKey)} {evs : List Ev}
    {A : Automaton PGKey PGPred}
    (hin : ∀ x ∈ inputs, css[x.1]? = some (some x.2.1) ∧ x.2.2 = [] ∧
      ∀ c ∈ x.2.1, ∀ k ∈ c.args, SR k)
    (h : build toTree pgReq fuel inputs evs = .ok A) :
    c09b_MFrom (KeysOf css) A := by
  unfold build at h
  split at h
  · cases h
  · rename_i a1 h1
    have H1 : c09b_MFrom (KeysOf css) a1 := by
      refine pgKeys_addPatterns css fuel inputs new a1 hin h1 ?_
      intro s w hw m hm
      rw [new_no_matches s w hw] at hm
      cases hm
    unfold finish at h
    split at h
    · cases h
    · rename_i a2 h2
      exact c09b_mfrom_populateScopes h (c09b_mfrom_mainLoop _ _ h2 H1)

end PGProg
end Pm
