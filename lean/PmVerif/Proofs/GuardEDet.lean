/-
Proofs/GuardEDet.lean — the unguarded `make_det(s)` ends the iteration with the invariant
(`GE.DetKeepsJ`; namespace `Pm.GE`).

Inside the loop the clause for `s` is uniform in its children (`DInv.below`): every child `X` of
`s` — constraint child not yet split, finished target, or the fail state — has no fallback
transition, its children have none, and its grandchildren are chains.  A target `tgt` receives the
transitions of `X` and of the fail state `F`, both children of `s`, so it satisfies the clauses of
a pending state (it is one: a fresh id or the id of `X`).  `s` has a fallback transition, so it
lies on no chain; a target is entered from `s` only, so neither does it: the chains are untouched.
-/
import PmVerif.Proofs.GuardELoop
import PmVerif.Proofs.C08AcycDet
namespace Pm
namespace GE
open Automaton TBL C08A
variable {K P : Type}

/-- The invariant inside `make_det(s)`. -/
structure DInv (b : Automaton K P) (E : List Nat) (s : Nat) : Prop where
  others : ∀ p, p ∉ E → p ≠ s → NodeOK b p
  below : ∀ X k, HasEdge b s X k → EFt b X ∧ ∀ c k', HasEdge b X c k' →
    EFt b c ∧ ∀ g k'', HasEdge b c g k'' → Chain b g
  preds : ∀ p k, HasEdge b p s k → p ∈ E

theorem DInv.of_J {a : Automaton K P} {E : List Nat} {s : Nat} (J : JInv a E s) : DInv a E s := by
  refine ⟨J.others, fun X k hX => ⟨J.loc.child X k hX, fun c k' hc => ?_⟩, J.preds⟩
  cases k with
  | none => exact J.loc.grandE X hX c k' hc
  | some k0 =>
    have hch := J.loc.grand X k0 hX c k' hc
    exact ⟨hch.poor.1, fun g k'' hg => hch.child hg⟩

theorem DInv.inv_cons {b : Automaton K P} {E : List Nat} {s : Nat} (D : DInv b E s) :
    INV b (s :: E) := by
  intro p hp
  have h1 : p ≠ s := fun e => hp (e ▸ List.mem_cons_self)
  have h2 : p ∉ E := fun hm => hp (List.mem_cons_of_mem _ hm)
  exact D.others p h2 h1

/-- Same edges, same invariant. -/
theorem DInv.congr {a a0 : Automaton K P} {E : List Nat} {s : Nat}
    (hedge : ∀ t, a0.g.edge? t = a.g.edge? t) (D : DInv a E s) : DInv a0 E s := by
  have bk : ∀ {x d c}, HasEdge a0 x d c → HasEdge a x d c := by
    rintro x d c ⟨t, ht⟩; exact ⟨t, (hedge t) ▸ ht⟩
  have chn : ∀ {g}, Chain a g → Chain a0 g := fun hg => chain_frame hg fun _ _ _ _ h => bk h
  refine ⟨fun p hp hps => ?_, fun X k hX => ?_, fun p k hp => D.preds p k (bk hp)⟩
  · have ok := D.others p hp hps
    exact ⟨fun d hd => ok.self d (bk hd), fun c k hc d hd => ok.child c k (bk hc) d (bk hd),
      fun c k hc g k' hg => chn (ok.grand c k (bk hc) g k' (bk hg))⟩
  · obtain ⟨h1, h2⟩ := D.below X k (bk hX)
    refine ⟨fun d hd => h1 d (bk hd), fun c k' hc => ?_⟩
    obtain ⟨h3, h4⟩ := h2 c k' (bk hc)
    exact ⟨fun d hd => h3 d (bk hd), fun g k'' hg => chn (h4 g k'' (bk hg))⟩

theorem reach_last {a : Automaton K P} {x y : Nat} (h : Reach a x y) :
    x = y ∨ ∃ m k, Reach a x m ∧ HasEdge a m y k := by
  induction h with
  | refl x => exact .inl rfl
  | @head x m z c h1 _ ih =>
    right
    rcases ih with rfl | ⟨m', k, hr, he⟩
    · exact ⟨x, c, .refl x, h1⟩
    · exact ⟨m', k, .head h1 hr, he⟩

section Round
variable {b b' : Automaton K P} {s F tε t X tgt : Nat} {c : Constraint K P} {fw : AState K}

theorem round_sound (rs : RoundSpec b b' s F t X tgt c) {x d : Nat}
    {k : Option (Constraint K P)} (h : HasEdge b' x d k) :
    (x = s ∧ d = tgt ∧ k = some c) ∨ HasEdge b x d k ∨
    (x = tgt ∧ d ≠ tgt ∧ (HasEdge b X d k ∨ HasEdge b F d k)) := by
  obtain ⟨x0, hx0⟩ := h
  rcases rs.new x0 _ hx0 with h1 | h1 | ⟨h1, h2, x1, h3 | h3⟩
  · subst h1
    rw [rs.edge_t] at hx0
    cases hx0
    exact .inl ⟨rfl, rfl, rfl⟩
  · exact .inr (.inl ⟨x0, h1⟩)
  · exact .inr (.inr ⟨h1, h2, .inl ⟨x1, h3⟩⟩)
  · exact .inr (.inr ⟨h1, h2, .inr ⟨x1, h3⟩⟩)

/-- Before the round, the target is entered from `s` only. -/
theorem into_tgt (pre : RoundPre b s F tε t X c fw) (rs : RoundSpec b b' s F t X tgt c)
    {x : Nat} {k : Option (Constraint K P)} (h : HasEdge b x tgt k) : x = s := by
  obtain ⟨x0, hx0⟩ := h
  by_cases hx : x0 = t
  · subst hx
    rw [pre.edge_t] at hx0
    cases hx0
    rfl
  · have h1 := rs.old x0 _ hx hx0
    exact absurd (rs.only x0 _ h1 rfl) hx

theorem round_eft (rs : RoundSpec b b' s F t X tgt c) {y : Nat} (h : EFt b y) (hy : y ≠ tgt) :
    EFt b' y := by
  intro d hd
  rcases round_sound rs hd with ⟨_, _, h3⟩ | h1 | ⟨h1, _⟩
  · cases h3
  · exact h d h1
  · exact hy h1

/-- `s` has a fallback transition, so it lies on no chain; the target is only entered from `s`. -/
theorem round_chain (pre : RoundPre b s F tε t X c fw) (rs : RoundSpec b b' s F t X tgt c)
    {g : Nat} (hg : Chain b g) (hgt : g ≠ tgt) : Chain b' g := by
  have sF : HasEdge b s F none := ⟨tε, pre.edge_ε⟩
  have nos : ∀ y, Reach b g y → y ≠ s := fun y hy e => (hg y hy).1 F (e ▸ sF)
  refine chain_frame hg fun y hy d k hd => ?_
  rcases round_sound rs hd with ⟨h1, _, _⟩ | h1 | ⟨h1, _⟩
  · exact absurd h1 (nos y hy)
  · exact h1
  · exfalso
    subst h1
    rcases reach_last hy with h2 | ⟨m, k', hr, he⟩
    · exact hgt h2
    · exact nos m hr (into_tgt pre rs he)

/-- **One round of `makeDetLoop` keeps the invariant.** -/
theorem round_keepsD {rank : Nat → Nat} {E : List Nat} (m : Mono rank b)
    (pre : RoundPre b s F tε t X c fw) (rs : RoundSpec b b' s F t X tgt c) (D : DInv b E s) :
    DInv b' E s := by
  have rk : ∀ {x d k}, HasEdge b x d k → rank x < rank d := by
    rintro x d k ⟨t0, ht0⟩; exact m t0 _ ht0
  have sX : HasEdge b s X (some c) := ⟨t, pre.edge_t⟩
  have sF : HasEdge b s F none := ⟨tε, pre.edge_ε⟩
  have eft := @round_eft K P b b' s F t X tgt c rs
  have chn := @round_chain K P b b' s F tε t X tgt c fw pre rs
  have into := @into_tgt K P b b' s F tε t X tgt c fw pre rs
  have noloop : ∀ {x d k}, HasEdge b x d k → x ≠ d := by
    rintro x d k ⟨t0, ht0⟩; exact pre.inv.noloop t0 _ ht0
  -- below a child `c1` of a child `Y` of `s` (all in `b`): stays fine in `b'`
  have deep : ∀ {Y k c1 k'}, HasEdge b s Y k → HasEdge b Y c1 k' →
      EFt b' c1 ∧ ∀ g k'', HasEdge b' c1 g k'' → Chain b' g := by
    intro Y k c1 k' hY hc1
    obtain ⟨h3, h4⟩ := (D.below Y k hY).2 c1 k' hc1
    have hc1s : c1 ≠ s := fun e => by
      have r1 := rk hY
      have r2 := rk hc1
      rw [e] at r2
      exact absurd (Nat.lt_trans r1 r2) (Nat.lt_irrefl _)
    have hc1t : c1 ≠ tgt := fun e => by
      have := into (e ▸ hc1)
      exact noloop hY this.symm
    refine ⟨eft h3 hc1t, fun g k'' hg => ?_⟩
    rcases round_sound rs hg with ⟨h1, _, _⟩ | h1 | ⟨h1, _⟩
    · exact absurd h1 hc1s
    · have hgt : g ≠ tgt := fun e => hc1s (into (e ▸ h1))
      exact chn (h4 g k'' h1) hgt
    · exact absurd h1 hc1t
  -- the target has no fallback transition, and everything below it is fine
  have tgtX : ∀ {d k}, HasEdge b tgt d k → tgt = X := by
    intro d k hd
    rcases rs.cases with h | h
    · exact h
    · obtain ⟨t0, ht0⟩ := hd
      exact absurd (pre.inv.ok.src_live ht0) h
  have efT : EFt b' tgt := by
    intro d hd
    rcases round_sound rs hd with ⟨h1, _, _⟩ | h1 | ⟨_, _, h1 | h1⟩
    · exact rs.nes h1
    · have := tgtX h1
      rw [this] at h1
      exact (D.below X _ sX).1 d h1
    · exact (D.below X _ sX).1 d h1
    · exact (D.below F _ sF).1 d h1
  have belowT : ∀ c1 k', HasEdge b' tgt c1 k' →
      EFt b' c1 ∧ ∀ g k'', HasEdge b' c1 g k'' → Chain b' g := by
    intro c1 k' hc1
    rcases round_sound rs hc1 with ⟨h1, _, _⟩ | h1 | ⟨_, _, h1 | h1⟩
    · exact absurd h1 rs.nes
    · have := tgtX h1
      rw [this] at h1
      exact deep sX h1
    · exact deep sX h1
    · exact deep sF h1
  refine ⟨fun p hp hps => ?_, fun Y k hY => ?_, fun p k hp => ?_⟩
  · -- pending states other than `s`
    by_cases hpt : p = tgt
    · subst hpt
      exact ⟨efT, fun c1 k' hc1 => (belowT c1 k' hc1).1, fun c1 k' hc1 => (belowT c1 k' hc1).2⟩
    · have ok := D.others p hp hps
      have oldp : ∀ {d k}, HasEdge b' p d k → HasEdge b p d k := by
        intro d k hd
        rcases round_sound rs hd with ⟨h1, _, _⟩ | h1 | ⟨h1, _⟩
        · exact absurd h1 hps
        · exact h1
        · exact absurd h1 hpt
      refine ⟨fun d hd => ok.self d (oldp hd), fun c1 k' hc1 => ?_, fun c1 k' hc1 g k'' hg => ?_⟩
      · have h0 := oldp hc1
        have hc1t : c1 ≠ tgt := fun e => hps (into (e ▸ h0))
        exact eft (ok.child c1 k' h0) hc1t
      · have h0 := oldp hc1
        have hc1t : c1 ≠ tgt := fun e => hps (into (e ▸ h0))
        have hc1s : c1 ≠ s := fun e => hp (D.preds p k' (e ▸ h0))
        rcases round_sound rs hg with ⟨h1, _, _⟩ | h1 | ⟨h1, _⟩
        · exact absurd h1 hc1s
        · have hgt : g ≠ tgt := fun e => hc1s (into (e ▸ h1))
          exact chn (ok.grand c1 k' h0 g k'' h1) hgt
        · exact absurd h1 hc1t
  · -- the children of `s`
    by_cases hYt : Y = tgt
    · subst hYt
      exact ⟨efT, belowT⟩
    · have hY0 : HasEdge b s Y k := by
        rcases round_sound rs hY with ⟨_, h2, _⟩ | h1 | ⟨h1, _⟩
        · exact absurd h2 hYt
        · exact h1
        · exact absurd h1.symm rs.nes
      have hYs : Y ≠ s := fun e => noloop hY0 e.symm
      refine ⟨eft (D.below Y k hY0).1 hYt, fun c1 k' hc1 => ?_⟩
      rcases round_sound rs hc1 with ⟨h1, _, _⟩ | h1 | ⟨h1, _⟩
      · exact absurd h1 hYs
      · exact deep hY0 h1
      · exact absurd h1 hYt
  · -- the parents of `s`
    rcases round_sound rs hp with ⟨_, h2, _⟩ | h1 | ⟨_, _, h1 | h1⟩
    · exact absurd h2.symm rs.nes
    · exact D.preds p k h1
    · exfalso
      have r1 := rk sX
      have r2 := rk h1
      exact absurd (Nat.lt_trans r1 r2) (Nat.lt_irrefl _)
    · exfalso
      have r1 := rk sF
      have r2 := rk h1
      exact absurd (Nat.lt_trans r1 r2) (Nat.lt_irrefl _)

end Round

/-- **`make_det(s)` keeps the invariant** (the contract `DetKeepsJ` of `Proofs/GuardELoop.lean`). -/
theorem detKeepsJ [DecidableEq K] [DecidableEq P] : DetKeepsJ K P := by
  intro a a' s E inv hs H hle J h
  obtain ⟨a'', h', _, _, D⟩ := C08.makeDetL_total (Φ := fun b => Acyclic b ∧ DInv b E s) (s := s)
    (fun r hΦ => ⟨acyclic_reflag r hΦ.1, hΦ.2.congr r.edge⟩)
    (fun pre rs hΦ => by
      obtain ⟨rank, m⟩ := hΦ.1
      exact ⟨acyclic_round pre rs hΦ.1, round_keepsD m pre rs hΦ.2⟩)
    inv hs hle ⟨H, DInv.of_J J⟩
  rw [h'] at h
  cases h
  exact D.inv_cons

end GE
end Pm
