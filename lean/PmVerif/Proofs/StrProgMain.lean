/-
Proofs/StrProgMain.lean — `strProg_built`: EVERY successful guarded build of a string pattern
set satisfies, at every live state, the conditions `Pm.Anch.StateOK` the anchored traversal
theorem needs; the decidable per-program check `strProgramOK` is thus a theorem of the builder
as far as the traversal theorem is concerned.

Assembly: the step-level invariant `SP` through the build (`sp_build`, Proofs/StrProgFrames.lean)
with `Q c := c.args.length = c.pred.arity` and `E pid := ps[pid]? = some []`, the tree
decomposition `charTree` (`treeHyp_charTree`), the recorded key lists (`strKeys_built`), the
scopes computed by `populate_scopes` (`populateScopes_sh`, `c09_populateScopes_scopeCovers`).
Everything lives in `namespace Pm.StrProg`.
-/
import PmVerif.Proofs.StrProgFrames
import PmVerif.Proofs.StrProgTree
import PmVerif.Proofs.StrProgScopes
import PmVerif.Proofs.StrProgKeys
import PmVerif.Proofs.StrProgRun
import PmVerif.Props.C03
import PmVerif.Props.C09
namespace Pm
namespace StrProg
open Automaton

/-- The key list recorded for a string pattern is empty or starts with the start key `0`, which
does not occur again. -/
theorem sh_foldl_strKeyStep : ∀ (cs : List StrCons) (keys : List Nat), Sh keys →
    Sh (cs.foldl strKeyStep keys)
  | [], keys, h => h
  | c :: cs, keys, h => by
    rw [List.foldl_cons]
    apply sh_foldl_strKeyStep cs
    obtain ⟨res, hres, _⟩ := Anch.allMissingLoop_str c.args keys []
    have h16 : allMissingBindings strReq c.args keys 16 = some res := hres
    have : strKeyStep keys c = keys ++ res := by
      unfold strKeyStep
      rw [h16]; rfl
    rw [this]
    exact sh_append_allMissing h h16

theorem sh_strPatternKeys (p : List CharVar) : Sh (strPatternKeys p) := by
  rw [strPatternKeys_foldl]
  exact sh_foldl_strKeyStep _ _ sh_nil

/-- String predicates have at least one argument. -/
theorem charPred_arity_pos (p : CharPred) : 0 < p.arity := by
  cases p <;> simp [CharPred.arity]

/-- **Every built string automaton is an OK program**: whatever the event log (heuristic answers,
hash orders) and the fuel, if the guarded build of the pattern list `ps` succeeds, every live
state of the automaton satisfies the per-state conditions of the anchored traversal theorem. -/
theorem strProg_built (ps : List (List CharVar)) (evs : List Ev) (fuel : Nat)
    (M : Many Nat CharPred)
    (hb : manyBuild (fun p => some (strConstraints p)) (fun _ => ([] : List Nat))
      (charTree natLt) strReq fuel true ps evs = some (.ok M)) :
    ∀ s w, M.automaton.g.weight? s = some w → Pm.Anch.StateOK M.automaton ps s w := by
  have hkeys := strKeys_built ps evs fuel M hb
  unfold manyBuild at hb
  cases hi : manyInputs (fun p => some (strConstraints p)) (fun _ => ([] : List Nat)) true ps 0 with
  | none => simp [hi] at hb
  | some inputs =>
    simp only [hi] at hb
    cases hbuild : build (charTree natLt) strReq fuel inputs evs with
    | error e => simp [hbuild] at hb
    | ok A =>
      simp only [hbuild, Option.some.injEq, Except.ok.injEq] at hb
      subst hb
      show ∀ s w, A.g.weight? s = some w → Pm.Anch.StateOK A ps s w
      change ∀ s w, A.g.weight? s = some w → ∀ m ∈ w.matches_,
        ∃ p, ps[m.1]? = some p ∧ m.2 = strPatternKeys p at hkeys
      have hpos := c06_ids_are_positions (fun p => some (strConstraints p))
        (fun _ => ([] : List Nat)) true ps 0 inputs hi
      -- the step-level invariant of the build
      obtain ⟨a2, hps, inv2, rs2, sp2⟩ :=
        sp_build (E := fun pid => ps[pid]? = some [])
          (Q := fun c : StrCons => c.args.length = c.pred.arity)
          (σ := fun _ => true) (c03_treeOK_char natLt _) (treeHyp_charTree natLt _) hbuild
          (by
            rintro ⟨j, cs, ex⟩ hmem
            obtain ⟨k, p, hk, hj, hc, _⟩ := (hpos j cs ex).mp hmem
            simp only [Nat.zero_add] at hj
            subst hj
            simp only [Option.some.injEq] at hc
            subst hc
            refine ⟨tdom_str_arity p, fun hE => ?_⟩
            have hE' : ps[j]? = some [] := hE
            rw [hk] at hE'
            cases hE'
            show strConstraints [] = []
            decide)
      have hsame := populateScopes_sameButScope hps
      have hcov := c09_populateScopes_scopeCovers strReq_acyclic hps
      -- recorded key lists of `a2` contain the start key
      have hk2 : ∀ s w, a2.g.weight? s = some w → ∀ m ∈ w.matches_, m.2 ≠ [] → 0 ∈ m.2 := by
        intro s w2 hw2 m hm hne
        obtain ⟨w, hw, he⟩ := hsame.weight?_symm hw2
        have hm' : m ∈ w.matches_ := by rw [he]; exact hm
        obtain ⟨p, _, hmp⟩ := hkeys s w hw m hm'
        exact sh_mem_zero (hmp ▸ sh_strPatternKeys p) hne
      have hshape := populateScopes_sh hps hk2
      intro s w hw
      obtain ⟨w2, hw2, he⟩ := hsame.weight? hw
      have hco : w.corder = w2.corder := by rw [he]
      have heo : w.eorder = w2.eorder := by rw [he]
      have hma : w.matches_ = w2.matches_ := by rw [he]
      -- clause (con)
      have hcon : ∀ t ∈ w.corder, ∃ e c, A.g.edge? t = some e ∧ e.w = some c ∧
          c.args.length = c.pred.arity ∧ ∀ k ∈ c.args, k ∈ w.scope := by
        intro t ht
        obtain ⟨e, he2, _, hsome⟩ := inv2.ok.corder_edge s w2 hw2 t (hco ▸ ht)
        obtain ⟨c, hc⟩ := Option.isSome_iff_exists.1 hsome
        have heA : A.g.edge? t = some e := by rw [hsame.edge?]; exact he2
        exact ⟨e, c, heA, hc, sp2.efrom t e c he2 hc, hcov s w hw t ht e c heA hc⟩
      refine ⟨hcon, ?_, hshape s w hw, ?_⟩
      · -- clause (scope_ne)
        intro hor
        have hcne : w.corder ≠ [] := by
          rcases hor with h | h
          · exact h
          · obtain ⟨t, ht⟩ := List.exists_mem_of_ne_nil _ h
            obtain ⟨e, he2, hsrc, hnone⟩ := inv2.ok.eorder_edge s w2 hw2 t (heo ▸ ht)
            have hn : e.w = none := Option.isNone_iff_eq_none.1 hnone
            obtain ⟨t', e', he', hs', hw'⟩ := sp2.noEps t e he2 hn
            have : t' ∈ w2.corder := (mem_corder_iff inv2.ok hw2).2 ⟨e', he', hs'.trans hsrc, hw'⟩
            rw [hco]
            exact List.ne_nil_of_mem this
        obtain ⟨t, ht⟩ := List.exists_mem_of_ne_nil _ hcne
        obtain ⟨e, c, _, _, har, hsc⟩ := hcon t ht
        have hpos' : 0 < c.args.length := by rw [har]; exact charPred_arity_pos _
        obtain ⟨k, hk⟩ := List.exists_mem_of_ne_nil _ (List.ne_nil_of_length_pos hpos')
        exact List.ne_nil_of_mem (hsc k hk)
      · -- clause (matches_)
        intro pid ks hm
        obtain ⟨p, hp, hks⟩ := hkeys s w hw (pid, ks) hm
        simp only at hp hks
        refine ⟨hks ▸ sh_strPatternKeys p, ?_, p, hp, hks⟩
        by_cases hnil : ks = []
        · left
          have hpnil : p = [] := by
            refine Classical.byContradiction fun hpne => ?_
            exact Anch.strPatternKeys_ne p hpne (hks ▸ hnil)
          subst hpnil
          have hid : a2.Ids s pid :=
            ⟨w2, hw2, List.mem_map.2 ⟨(pid, ks), hma ▸ hm, rfl⟩⟩
          rw [hsame.root]
          exact sp2.emp s pid hid hp
        · exact .inr hnil

/-- `strProg_built` in the form the traversal theorem takes it. -/
theorem allOK_built (ps : List (List CharVar)) (evs : List Ev) (fuel : Nat)
    (M : Many Nat CharPred)
    (hb : manyBuild (fun p => some (strConstraints p)) (fun _ => ([] : List Nat))
      (charTree natLt) strReq fuel true ps evs = some (.ok M)) : AllOK M.automaton ps :=
  strProg_built ps evs fuel M hb

end StrProg
end Pm
