/-
Proofs/AnchGCorner1.lean — a GENERIC builder invariant: every constraint carried by a live edge of
the built automaton satisfies `Q`, provided the pattern constraints do and the tree decomposition
only produces edge constraints satisfying `Q` (`TreeEdgesQ`). This is the `efrom` field of
`StrProg.SP` (Proofs/StrProgDefs.lean) carried alone through the builder — the two other fields
of `SP` need hypotheses on the tree decomposition that `pgTree` does not satisfy. The proofs are
the `efrom` parts of Proofs/StrProgFuse, StrProgTreeStep, StrProgDet, StrProgMerge, StrProgFrames.
Everything lives in `namespace Pm.AnchG`.
-/
import PmVerif.Proofs.StrProgFrames
namespace Pm
namespace AnchG
open Automaton
set_option linter.unusedSectionVars false

/-- Every constraint carried by a live edge satisfies `Q`. -/
def EQ {K P : Type} (Q : Constraint K P → Prop) (a : Automaton K P) : Prop :=
  ∀ t e c, a.g.edge? t = some e → e.w = some c → Q c

/-- What the invariant needs from `to_constraints_tree`: edge constraints of a returned tree
satisfy `Q` whenever all input constraints do. -/
def TreeEdgesQ {K P : Type} (Q : Constraint K P → Prop)
    (toTree : List (Constraint K P) → Option (CTree (Constraint K P))) : Prop :=
  ∀ cs tree, toTree cs = some tree → (∀ c ∈ cs, Q c) →
    ∀ n c n', (c, n') ∈ tree.childrenAt n → Q c

section Steps
variable {K P : Type} {Q : Constraint K P → Prop}

/-! ### `make_constraints_unique` -/

theorem eq_fused {a a' : Automaton K P} {s N : Nat} {ts : List Nat}
    {c0 : Option (Constraint K P)} (f : Fused a a' s ts N c0) (hne : ts ≠ [])
    (sp : EQ Q a) : EQ Q a' := by
  obtain ⟨t1, ht1⟩ := List.exists_mem_of_ne_nil ts hne
  obtain ⟨e1, he1, hs1, hw1⟩ := f.grp t1 ht1
  intro t e c he hc
  rcases f.sound t e he with h0 | h0 | ⟨_, old, _, t0, h0⟩
  · exact sp t e c h0 hc
  · subst h0
    exact sp t1 e1 c he1 (hw1.trans hc)
  · exact sp t0 _ c h0 hc

theorem eq_makeConstraintsUnique [DecidableEq K] [DecidableEq P]
    {a a' : Automaton K P} {s : Nat} {evs evs' : List Ev} (inv : Inv a) (hs : a.Live s)
    (sp : EQ Q a) (h : a.makeConstraintsUnique s evs = .ok (a', evs')) : EQ Q a' :=
  StrProg.makeConstraintsUnique_induct (fun b => EQ Q b) (s := s)
    (fun {a a' ts c0} inv hs hg hf hΦ => by
      obtain ⟨N, hne, f⟩ := fuseGroup_fused inv hs hg hf
      exact eq_fused f hne hΦ) inv hs sp h

/-! ### `insert_constraint_tree` -/

theorem eq_ctx {σ : Constraint K P → Bool} {a a1 a2 a' : Automaton K P} {s : Nat} {w : AState K}
    {cs : List (Constraint K P)} {ch : List Nat} {tree : CTree (Constraint K P)} {fuel : Nat}
    {added : List Nat} {Rep : Nat → Nat → Prop} {F : Nat → Prop}
    (X : Ctx σ a a1 a2 a' s w cs ch tree fuel added Rep F)
    (hQ : (∀ c ∈ cs, Q c) → ∀ n c n', (c, n') ∈ tree.childrenAt n → Q c)
    (sp : EQ Q a) : EQ Q a' := by
  have hcs : ∀ c ∈ cs, Q c := by
    intro c hc
    obtain ⟨i, hi⟩ := List.mem_iff_getElem?.1 hc
    have hlt : i < ch.length := by
      rw [X.len]; exact (List.getElem?_eq_some_iff.1 hi).1
    obtain ⟨t, _, he⟩ := X.idx_edge i c ch[i] hi (List.getElem?_eq_getElem hlt)
    exact sp t _ c he rfl
  intro t e c he hc
  rcases X.edge_cases he with ⟨h1, _⟩ | ⟨_, hn, _⟩ | ⟨n, c', n', _, hmem, hw, _⟩ |
      ⟨_, hn, _⟩ | ⟨_, i, c', _, hci, _, hw⟩
  · exact sp t e c h1 hc
  · rw [hn] at hc; cases hc
  · rw [hw] at hc; cases hc
    exact hQ hcs n c n' hmem
  · rw [hn] at hc; cases hc
  · rw [hw] at hc; cases hc
    exact hcs c (List.mem_of_getElem? hci)

theorem eq_insertConstraintTree [DecidableEq K] [DecidableEq P]
    {σ : Constraint K P → Bool}
    {toTree : List (Constraint K P) → Option (CTree (Constraint K P))} (hT : TreeOK toTree σ)
    (hH : TreeEdgesQ Q toTree)
    {a a' : Automaton K P} {s fuel : Nat} {det : Bool} (inv : Inv a)
    (sp : EQ Q a) (h : insertConstraintTree toTree a s fuel = .ok (a', det)) :
    EQ Q a' := by
  have hA : AddTreeStmt K P := addConstraintTree_built
  unfold insertConstraintTree at h
  split at h
  · cases h
  · rename_i w hw
    rw [state_ok_iff] at hw
    split at h
    · cases h; exact sp
    · rename_i hdet
      split at h
      · cases h; exact sp
      · rename_i hemp
        have hdet' : w.det = false := by cases hx : w.det <;> simp_all
        split at h
        · cases h
        · rename_i a1 drained hdr
          extract_lets pairs cs ch at h
          split at h
          · cases h
          · rename_i tree htree
            split at h
            · cases h
            · rename_i a2 added hadd
              extract_lets notAdded at h
              have hmem : ∀ i, i ∈ notAdded ↔ i < cs.length ∧ i ∉ added := by
                intro i
                simp [notAdded, List.mem_filter, and_comm]
              have fin : ∀ {a'' : Automaton K P} {Rep F},
                  Ctx σ a a1 a2 a'' s w cs ch tree fuel added Rep F → EQ Q a'' := by
                intro a'' Rep F X
                exact eq_ctx X (hH cs tree htree) sp
              split at h
              · rename_i hempna
                cases h
                obtain ⟨Rep, F, X⟩ := StrProg.ctx_of_run hA hT inv hw hdet' hdr _ htree hadd
                  (by intro _ _; rfl) (by
                    intro inv2 _ _
                    refine ⟨_, failBuilt_nil inv2 s ch ?_⟩
                    intro i hi
                    refine Classical.byContradiction fun hn => ?_
                    have := (hmem i).2 ⟨hi, hn⟩
                    rw [List.isEmpty_iff.1 hempna] at this
                    cases this)
                exact fin X
              · split at h
                · cases h
                · rename_i a3 f h1
                  cases hrest : insertConstraintTree.addRest cs ch f a3 notAdded with
                  | error e => rw [hrest] at h; cases h
                  | ok a4 =>
                    rw [hrest] at h
                    cases h
                    obtain ⟨Rep, F, X⟩ := StrProg.ctx_of_run hA hT inv hw hdet' hdr _ htree hadd
                      (by intro _ _; rfl) (by
                        intro inv2 hs2 hchl
                        exact ⟨_, failBuilt_cons inv2 hs2 hchl
                          (fun i h1 h2 => (hmem i).2 ⟨h1, h2⟩)
                          (fun i hi => ((hmem i).1 hi).2) h1 hrest⟩)
                    exact fin X

/-! ### `make_det` -/

theorem eq_reflag {a a0 : Automaton K P} {s : Nat} {w : AState K} (r : Reflag a a0 s w)
    (sp : EQ Q a) : EQ Q a0 := by
  intro t e c he hc
  rw [r.edge] at he
  exact sp t e c he hc

theorem eq_round {b b' : Automaton K P} {s F tε t X tgt : Nat} {c : Constraint K P}
    {fw : AState K} (pre : RoundPre b s F tε t X c fw) (rs : RoundSpec b b' s F t X tgt c)
    (sp : EQ Q b) : EQ Q b' := by
  intro x e c' he hc
  rcases rs.new x e he with h1 | h1 | ⟨_, _, x0, h1 | h1⟩
  · subst h1
    rw [rs.edge_t] at he; cases he
    cases hc
    exact sp x _ c pre.edge_t rfl
  · exact sp x e c' h1 hc
  · exact sp x0 ⟨X, e.dst, e.w⟩ c' h1 hc
  · exact sp x0 ⟨F, e.dst, e.w⟩ c' h1 hc

theorem makeDetLoop_eq {σ : Constraint K P → Bool} {a0 : Automaton K P} {s F tε : Nat}
    {ws fw : AState K} : ∀ (rest : List Nat) {b a' : Automaton K P},
    LoopInv σ a0 b s F tε ws fw rest → EQ Q b → rest.Nodup →
    b.makeDetLoop (fw.corder ++ fw.eorder) fw.matches_ rest = .ok a' →
    EQ Q a'
  | [], b, a', _, sp, _, h => by
    unfold makeDetLoop at h; cases h; exact sp
  | t :: rest, b, a', li, sp, hnd, h => by
    unfold makeDetLoop at h
    split at h
    · cases h
    · rename_i b1 tgt hsp
      split at h
      · cases h
      · rename_i b2 hcp
        split at h
        · cases h
        · rename_i b3 hm
          rw [List.nodup_cons] at hnd
          obtain ⟨X, c, he, _⟩ := li.todo t List.mem_cons_self
          have pre : RoundPre b s F tε t X c fw := ⟨li.inv, he, li.edge_ε, li.wtF⟩
          have su := splitU_of_splitTarget pre hsp
          have rs := roundSpec_of pre su hcp hm
          exact makeDetLoop_eq rest (li.step hnd.1 pre rs) (eq_round pre rs sp) hnd.2 h

theorem eq_makeDet [DecidableEq K] [DecidableEq P]
    {σ : Constraint K P → Bool} {a a' : Automaton K P} {s : Nat}
    (inv : Inv a) (rs : RootSrc a) (dok : DetOKE σ a) (sp : EQ Q a)
    (h : a.makeDet s = .ok a') : EQ Q a' := by
  unfold makeDet makeDetWith at h
  split at h
  · cases h
  · rename_i a0 wd hsd
    obtain ⟨w, rfl, r⟩ := setDeterministic_reflag inv hsd
    have sp0 : EQ Q a0 := eq_reflag r sp
    split at h
    · cases h
      exact sp0
    · split at h
      · cases h
      · cases h
        exact sp0
      · rename_i F hfn
        obtain ⟨ws, hws, hr | ⟨tε, eε, hε, heε, hr⟩⟩ := failNextState_ok hfn
        · cases hr.1
        · cases hr
          split at h
          · rename_i failTs cts fw hft hcts hfw
            obtain ⟨fw', hfw', rfl⟩ := allTransitions_ok_iff.1 hft
            obtain ⟨ws', hws', rfl⟩ := corderOf_ok_iff.1 hcts
            rw [state_ok_iff] at hfw
            rw [hfw] at hfw'; cases hfw'
            rw [hws] at hws'; cases hws'
            rw [if_pos rfl] at h
            dsimp only at h
            split at h
            · cases h
            · rename_i hcd
              have hε' : a0.g.edge? tε = some ⟨s, eε.dst, none⟩ := by
                obtain ⟨e, he, hsrc, hnone⟩ :=
                  r.inv.ok.eorder_edge s ws hws tε (by rw [hε]; exact List.mem_singleton.2 rfl)
                rw [heε] at he; cases he
                rw [heε]
                cases eε with
                | mk src dst wt =>
                  simp only at hsrc
                  subst hsrc
                  cases wt with
                  | none => rfl
                  | some _ => cases hnone
              have li : LoopInv σ a0 a0 s eε.dst tε ws fw ws.corder := by
                refine ⟨r.inv, rfl, hws, hfw, hε', fun t ht => ?_, fun t ht hn => absurd ht hn,
                  r.rootSrc rs, fun _ => Iff.rfl, r.detEx inv dok⟩
                obtain ⟨e, he, hsrc, hsome⟩ := r.inv.ok.corder_edge s ws hws t ht
                obtain ⟨c, hc⟩ := Option.isSome_iff_exists.1 hsome
                refine ⟨e.dst, c, ?_, ?_⟩
                · rw [he]
                  cases e
                  simp only at hsrc hc
                  subst hsrc hc
                  rfl
                · rintro ⟨wx, hwx, hdx⟩
                  apply hcd
                  rw [List.any_eq_true]
                  exact ⟨t, ht, by simp only [he, hwx, hdx]⟩
              have hnd : ws.corder.Nodup := (List.nodup_append.1 (r.inv.ok.nodup s ws hws)).1
              exact makeDetLoop_eq _ li sp0 hnd h
          · cases h
          · cases h
          · cases h

/-! ### merges -/

theorem eq_fold {a a' : Automaton K P} {first n : Nat} (f : Fold a a' first n)
    (sp : EQ Q a) : EQ Q a' := by
  intro t e c he hw
  have hed := HasEdge.of_edge he
  rw [hw] at hed
  rcases f.sound _ _ _ hed with ⟨⟨t0, h0⟩, _, _⟩ | ⟨_, ⟨t0, h0⟩⟩
  · exact sp t0 _ c h0 rfl
  · exact sp t0 _ c h0 rfl

theorem eq_mergeLoop {first : Nat} :
    ∀ (rest : List Nat) {a a' : Automaton K P}, Inv a → EQ Q a → (first :: rest).Nodup →
    (∀ m ∈ rest, Twin a first m) →
    a.mergeLoop first rest = .ok a' → Inv a' ∧ EQ Q a'
  | [], a, a', inv, sp, _, _, h => by
    unfold mergeLoop at h; cases h; exact ⟨inv, sp⟩
  | n :: ns, a, a', inv, sp, hnd, htw, h => by
    unfold mergeLoop at h
    split at h
    · cases h
    · rename_i a1 hmv
      have tw : Twin a first n := htw n List.mem_cons_self
      rw [List.nodup_cons] at hnd
      obtain ⟨hfn, hnd'⟩ := hnd
      rw [List.nodup_cons] at hnd'
      have hne : first ≠ n := fun hx => hfn (hx ▸ List.mem_cons_self)
      have f := fold_of_merge inv hne (tw.no_edge inv) hmv
      refine eq_mergeLoop ns f.inv (eq_fold f sp) ?_ ?_ h
      · exact List.nodup_cons.2 ⟨fun hm => hfn (List.mem_cons_of_mem _ hm), hnd'.2⟩
      · intro m hm
        have hmn : m ≠ n := fun hx => hnd'.1 (hx ▸ hm)
        exact f.twin inv hne hmn tw (htw m (List.mem_cons_of_mem _ hm))

variable [DecidableEq K] [DecidableEq P]

theorem eq_doMerge {a a' : Automaton K P}
    {node : Nat} {nodes : List Nat} (inv : Inv a) (sp : EQ Q a)
    (h : a.doMerge node nodes = .ok a') : Inv a' ∧ EQ Q a' := by
  unfold doMerge at h
  split at h
  · cases h; exact ⟨inv, sp⟩
  · cases h; exact ⟨inv, sp⟩
  · rename_i first rest _
    split at h
    · cases h
    · split at h
      · cases h
      · rename_i hnd
        split at h
        · cases h
        · rename_i same hsame
          split at h
          · cases h
          · rename_i hall
            split at h
            · cases h
            · split at h
              · cases h
              · have hnd' : (first :: rest).Nodup := by
                  cases hd : decide (first :: rest).Nodup
                  · rw [hd] at hnd; exact absurd rfl hnd
                  · exact of_decide_eq_true hd
                have hall' : ∀ y ∈ same, y = true := by
                  cases hd : same.all id
                  · rw [hd] at hall; exact absurd rfl hall
                  · intro y hy
                    exact List.all_eq_true.1 hd y hy
                have htw : ∀ n ∈ first :: rest, Twin a node n := by
                  intro n hn
                  obtain ⟨y, hy, hf⟩ := mapR_mem_in hsame n hn
                  rw [hall' y hy] at hf
                  exact sameTuple_twin inv hf
                have hfirst := htw first List.mem_cons_self
                refine eq_mergeLoop rest inv sp hnd' ?_ h
                intro m hm
                exact hfirst.symm.trans (htw m (List.mem_cons_of_mem _ hm))

theorem eq_mergesLogged_inv :
    ∀ (evs : List Ev) {a a' : Automaton K P} {evs' : List Ev},
    Inv a → EQ Q a → a.mergesLogged evs = .ok (a', evs') → Inv a' ∧ EQ Q a' := by
  intro evs
  induction evs with
  | nil =>
    intro a a' evs' inv sp h
    unfold mergesLogged at h
    cases h
    exact ⟨inv, sp⟩
  | cons ev evs0 ih =>
    intro a a' evs' inv sp h
    cases ev with
    | merge n nodes =>
      unfold mergesLogged at h
      split at h
      · cases h
      · rename_i a1 hdm
        obtain ⟨inv1, sp1⟩ := eq_doMerge inv sp hdm
        exact ih inv1 sp1 h
    | _ =>
      unfold mergesLogged at h
      cases h
      exact ⟨inv, sp⟩

theorem eq_mergesLogged : ∀ (evs : List Ev) {a a' : Automaton K P} {evs' : List Ev},
    Inv a → EQ Q a → a.mergesLogged evs = .ok (a', evs') → EQ Q a' :=
  fun evs _ _ _ inv sp h => (eq_mergesLogged_inv evs inv sp h).2

/-! ### `add_pattern` -/

/-- The invariant of `addPatterns` is `SP0` of Proofs/StrProgFrames.lean with `E := False`. -/
theorem eq_addPatterns {req : K → List K} {fuel : Nat}
    {patterns : List (Nat × List (Constraint K P) × List K)} {a' : Automaton K P}
    (hp : ∀ p ∈ patterns, ∀ c ∈ p.2.1, Q c)
    (h : addPatterns req fuel (new : Automaton K P) patterns = .ok a') : EQ Q a' := by
  obtain ⟨inv0, _, rs0, _, _⟩ := new_spec (K := K) (P := P)
  have h0 : StrProg.SP0 (fun _ => False) Q a' :=
    StrProg.sp0_addPatterns patterns inv0 rs0.1 StrProg.sp0_new
      (fun p hpm => ⟨hp p hpm, fun hf => hf.elim⟩) h
  exact h0.sp.efrom

/-! ### the main loop -/

section Loop
variable {σ : Constraint K P → Bool}
  {toTree : List (Constraint K P) → Option (CTree (Constraint K P))}

theorem eq_iteration_tail {a a' : Automaton K P} {s : Nat} {evs' : List Ev}
    (r : R (Automaton K P × List Ev))
    (hr : ∀ a4 evs4, r = .ok (a4, evs4) → Keeps σ a a4 ∧ EQ Q a4)
    (h : (match r with
      | .error e => .error e
      | .ok (a, evs) =>
        match a.mergesLogged evs with
        | .error e => .error e
        | .ok (a, .iterEnd s' :: evs) =>
          if s' = s then .ok (a, evs) else .error (.guard "IterEnd for another state")
        | .ok _ => .error (.guard "missing IterEnd event")) = Except.ok (a', evs')) :
    EQ Q a' := by
  split at h
  · cases h
  · rename_i a4 evs4
    obtain ⟨k4, sp4⟩ := hr a4 evs4 rfl
    split at h
    · cases h
    · rename_i a5 s' evs5 h5
      split at h
      · cases h; exact eq_mergesLogged _ k4.1.inv sp4 h5
      · cases h
    · cases h

theorem eq_afterDet {a a3 a4 : Automaton K P} {s : Nat} {treeDet : Bool} {evs3 evs4 : List Ev}
    (k3 : Keeps σ a a3) (sp3 : EQ Q a3)
    (h : (if treeDet then
        match evs3 with
        | .detAsk s' :: .detYes s'' :: evs' =>
          if s' = s ∧ s'' = s then (a3.makeDet s).map (·, evs')
          else .error (.guard "c5: DetAsk/DetYes for another state")
        | .detAsk s' :: evs' =>
          if s' = s then .ok (a3, evs') else .error (.guard "c5: DetAsk for another state")
        | _ => .error (.guard "c5: missing DetAsk event")
      else .ok (a3, evs3) : R (Automaton K P × List Ev)) = .ok (a4, evs4)) : EQ Q a4 := by
  split at h
  · split at h
    · split at h
      · cases hm : a3.makeDet s with
        | error e => rw [hm] at h; cases h
        | ok a4' =>
          rw [hm] at h
          cases h
          exact eq_makeDet k3.1.inv k3.1.rs k3.1.det sp3 hm
      · cases h
    · split at h
      · cases h; exact sp3
      · cases h
    · cases h
  · cases h; exact sp3

theorem eq_iteration (L : StepLemmas σ toTree) (hT : TreeOK toTree σ) (hH : TreeEdgesQ Q toTree)
    {fuel : Nat} {a a' : Automaton K P} {s : Nat} {evs evs' : List Ev} (g : Automaton.Good σ a)
    (sp : EQ Q a) (h : iteration toTree fuel a s evs = .ok (a', evs')) : EQ Q a' := by
  unfold iteration at h
  split at h
  · cases h
  · rename_i hlive
    have hs : a.Live s := by
      unfold Live; cases hx : a.g.containsNode s <;> simp_all
    split at h
    · cases h
    · rename_i a1 evs1 h1
      have p1 := L.fuse g.inv hs h1
      have k1 := Keeps.of_pres g p1
      have sp1 : EQ Q a1 := eq_makeConstraintsUnique g.inv hs sp h1
      split at h
      · cases h
      · rename_i a2 treeDet h2
        have p2 := (L.tree p1.inv p1.live_s h2).pres
        have k2 := k1.trans (Keeps.of_pres k1.1 p2)
        have sp2 : EQ Q a2 := eq_insertConstraintTree hT hH p1.inv sp1 h2
        split at h
        · cases h
        · rename_i a3 evs3 h3
          have p3 := L.fuse p2.inv p2.live_s h3
          have k3 := k2.trans (Keeps.of_pres k2.1 p3)
          have sp3 : EQ Q a3 := eq_makeConstraintsUnique p2.inv p2.live_s sp2 h3
          exact eq_iteration_tail _
            (fun a4 evs4 h4 => ⟨afterDet_keeps L k3 h4, eq_afterDet k3 sp3 h4⟩) h

theorem eq_mainLoop (L : StepLemmas σ toTree) (hT : TreeOK toTree σ) (hH : TreeEdgesQ Q toTree)
    {fuel : Nat} : ∀ (n : Nat) {a a' : Automaton K P} (evs : List Ev), Automaton.Good σ a →
    EQ Q a → mainLoop toTree fuel n a evs = .ok a' → EQ Q a' := by
  intro n
  induction n with
  | zero =>
    intro a a' evs g sp h
    cases evs with
    | nil => unfold mainLoop at h; cases h; exact sp
    | cons e es => unfold mainLoop at h; cases h
  | succ n ih =>
    intro a a' evs g sp h
    cases evs with
    | nil => unfold mainLoop at h; cases h; exact sp
    | cons e es =>
      cases e with
      | topo s =>
        unfold mainLoop at h
        split at h
        · cases h
        · rename_i a1 evs1 h1
          exact ih evs1 (iteration_keeps L g h1).1 (eq_iteration L hT hH g sp h1) h
      | _ => unfold mainLoop at h; cases h

/-- Every constraint carried by a live edge of a successfully built automaton satisfies `Q`, if
the pattern constraints do and the tree decomposition respects `Q`. -/
theorem build_edgesQ (hT : TreeOK toTree σ) (hH : TreeEdgesQ Q toTree)
    {req : K → List K} {fuel : Nat} {patterns : List (Nat × List (Constraint K P) × List K)}
    {evs : List Ev} {A : Automaton K P} (h : build toTree req fuel patterns evs = .ok A)
    (hp : ∀ p ∈ patterns, ∀ c ∈ p.2.1, Q c) :
    ∀ t e c, A.g.edge? t = some e → e.w = some c → Q c := by
  have L := stepLemmas hT
  unfold build at h
  split at h
  · cases h
  · rename_i a1 h1
    obtain ⟨inv1, _, rs1, nd1, _⟩ := addPatterns_spec (σ := σ) h1
    have g1 : Automaton.Good σ a1 := ⟨inv1, rs1, detOKE_of_noDet nd1⟩
    have sp1 : EQ Q a1 := eq_addPatterns hp h1
    unfold finish at h
    split at h
    · cases h
    · rename_i a2 h2
      have sp2 : EQ Q a2 := eq_mainLoop L hT hH _ _ g1 sp1 h2
      have hsame := populateScopes_sameButScope h
      intro t e c he hc
      rw [hsame.edge?] at he
      exact sp2 t e c he hc

end Loop
end Steps

end AnchG
end Pm
