/-
Proofs/C01GenBuilt.lean — the builder half of `c01_generic_sound`: every automaton a successful
`build` returns satisfies `Facts` (Proofs/C01GenDefs.lean), for every event log.

* `populateScopes_scope` — scope correctness: assembled from the specifications of
  `Proofs/C01GenScopes.lean` with the structural facts `Shape` (graph well-formedness, acyclicity,
  "every live state but the root has an incoming transition", transition orders — all proved of
  every build in `Props/C09Reach.lean` without any hypothesis on the decomposition);
* `mfrom_build_keys` — every recorded `(pattern id, key list)` is that of a compiled pattern and
  lists the keys of all its constraints;
* `rootFact_of_build` — T-BUILD (`build_accND`) under the assignments "all atoms in a set";
* `facts_of_build` — assembled.
-/
import PmVerif.Proofs.C01GenScopes
namespace Pm.C01G
open Automaton

section Shape
variable {K P : Type}

/-- Structural facts about an automaton (all hold of every built automaton). -/
structure Shape (A : Automaton K P) : Prop where
  wf : A.g.WF
  rank : ∃ rank : Nat → Nat, ∀ t e, A.g.edge? t = some e → rank e.src < rank e.dst
  hasIn : ∀ s, A.g.containsNode s = true → s ≠ A.root → ∃ t e, A.g.edge? t = some e ∧ e.dst = s
  orders : ∀ s w, A.g.weight? s = some w →
    (∀ t, t ∈ w.corder ↔
      ∃ d e c, (t, d) ∈ A.g.outEdges s ∧ A.g.edge? t = some e ∧ e.w = some c) ∧
    (∀ t, t ∈ w.eorder ↔
      ∃ d e, (t, d) ∈ A.g.outEdges s ∧ A.g.edge? t = some e ∧ e.w = none)

theorem Shape.out_of_order {A : Automaton K P} (sh : Shape A) {s t : Nat} {w : AState K}
    {e : GEdge (Option (Constraint K P))} (hw : A.g.weight? s = some w)
    (ht : t ∈ w.corder ++ w.eorder) (he : A.g.edge? t = some e) :
    (t, e.dst) ∈ A.g.outEdges s := by
  have key : ∃ d, (t, d) ∈ A.g.outEdges s := by
    rcases List.mem_append.1 ht with ht | ht
    · obtain ⟨d, _, _, hd, _, _⟩ := ((sh.orders s w hw).1 t).1 ht
      exact ⟨d, hd⟩
    · obtain ⟨d, _, hd, _, _⟩ := ((sh.orders s w hw).2 t).1 ht
      exact ⟨d, hd⟩
  obtain ⟨d, hd⟩ := key
  obtain ⟨e', he', _, hdst⟩ := (c09b_mem_outEdges sh.wf).1 hd
  rw [he] at he'
  cases he'
  rw [hdst]
  exact hd

theorem Shape.order_of_edge {A : Automaton K P} (sh : Shape A) {t : Nat} {w : AState K}
    {e : GEdge (Option (Constraint K P))} (he : A.g.edge? t = some e)
    (hw : A.g.weight? e.src = some w) : t ∈ w.corder ++ w.eorder := by
  have hout : (t, e.dst) ∈ A.g.outEdges e.src := (c09b_mem_outEdges sh.wf).2 ⟨e, he, rfl, rfl⟩
  cases hc : e.w with
  | some c =>
    exact List.mem_append_left _ (((sh.orders _ w hw).1 t).2 ⟨_, e, c, hout, he, hc⟩)
  | none =>
    exact List.mem_append_right _ (((sh.orders _ w hw).2 t).2 ⟨_, e, hout, he, hc⟩)

theorem Shape.eps_none {A : Automaton K P} (sh : Shape A) {s t : Nat} {w : AState K}
    {e : GEdge (Option (Constraint K P))} (hw : A.g.weight? s = some w) (ht : t ∈ w.eorder)
    (he : A.g.edge? t = some e) : e.w = none := by
  obtain ⟨_, e', _, he', hn⟩ := ((sh.orders s w hw).2 t).1 ht
  rw [he] at he'
  cases he'
  exact hn

end Shape

section Scope
variable {K P : Type} [DecidableEq K]

omit [DecidableEq K] in
/-- A key missing from the forward scope of a live state is missing from every constraint of some
path from the root to that state. -/
theorem fwd_path {a A : Automaton K P} (hsb : SameButScope a A) (sh : Shape A)
    {fwd : List (Nat × List K)} (hF : FwdOK a fwd) (rank : Nat → Nat)
    (hrank : ∀ t e, A.g.edge? t = some e → rank e.src < rank e.dst) :
    ∀ (N s : Nat), rank s < N → A.g.containsNode s = true → ∀ f, alGet fwd s = some f →
      ∀ k, k ∉ f → PathP A (fun c => k ∉ c.args) A.root s
  | 0, _, h, _, _, _, _, _ => absurd h (Nat.not_lt_zero _)
  | N + 1, s, hN, hlive, f, hf, k, hk => by
    rcases hF s f hf k hk with h0 | ⟨t, p, fp, htp, hfp, hkp, hc⟩
    · by_cases hs : s = A.root
      · rw [hs]; exact .nil _
      · obtain ⟨t, e, he, hd⟩ := sh.hasIn s hlive hs
        have : (t, e.src) ∈ A.g.inEdges s := (SGraph.mem_inEdges sh.wf).2 ⟨e, he, hd, rfl⟩
        rw [hsb.inEdges, h0] at this
        cases this
    · rw [← hsb.inEdges] at htp
      obtain ⟨ed, hed, hd, hs⟩ := (SGraph.mem_inEdges sh.wf).1 htp
      have hlt := hrank t ed hed
      rw [hd, hs] at hlt
      obtain ⟨nd, hnd, _⟩ := sh.wf.edge_src t ed hed
      have hplive : A.g.containsNode p = true := by
        rw [← hs]; exact SGraph.containsNode_iff.2 ⟨nd, hnd⟩
      have hpath := fwd_path hsb sh hF rank hrank N p (by omega) hplive fp hfp k hkp
      have hwp := weight?_of_live hplive
      have hto : t ∈ (A.stateD p).corder ++ (A.stateD p).eorder :=
        sh.order_of_edge hed (by rw [hs]; exact hwp)
      have := hpath.snoc hwp hto hed (fun c hcw => hc c (by
        unfold constraintOf
        rw [← hsb.edge?, hed]
        show Except.ok ed.w = _
        rw [hcw]))
      rw [hd] at this
      exact this

omit [DecidableEq K] in
/-- The backward scope of a state contains the key lists recorded anywhere strictly below it. -/
theorem bwd_path {a A : Automaton K P} (hsb : SameButScope a A) (sh : Shape A)
    {bwd : List (Nat × List K)} (hB : BwdOK a bwd)
    (hBex : ∀ n, A.g.containsNode n = true → ∃ b, alGet bwd n = some b)
    {d u : Nat} (hp : PathP A (fun _ => True) d u) {wu : AState K} {pid : Nat} {keys : List K}
    (hwu : A.g.weight? u = some wu) (hmem : (pid, keys) ∈ wu.matches_) :
    ∀ n b t, alGet bwd n = some b → (t, d) ∈ A.g.outEdges n → ∀ k ∈ keys, k ∈ b := by
  induction hp with
  | nil s =>
    intro n b t hb htd k hk
    obtain ⟨w0, hw0, hwe⟩ := hsb.weight? hwu
    rw [hsb.outEdges] at htd
    have hm0 : (pid, keys) ∈ w0.matches_ := by
      rw [hwe] at hmem; exact hmem
    exact (hB n b hb t s htd w0 hw0).1 (pid, keys) hm0 k hk
  | @cons s u' t' w e hw ht he _ _ ih =>
    intro n b t0 hb htd k hk
    obtain ⟨bd, hbd⟩ := hBex s (live_of_weight? hw)
    have h1 : k ∈ bd := ih hwu s bd t' hbd (sh.out_of_order hw ht he) k hk
    obtain ⟨w0, hw0, _⟩ := hsb.weight? hw
    rw [hsb.outEdges] at htd
    obtain ⟨_, bd', hbd', hsub⟩ := hB n b hb t0 s htd w0 hw0
    rw [hbd] at hbd'
    cases hbd'
    exact hsub k h1

/-- **Scope correctness of `populate_scopes`.** A key of a pattern recorded strictly below `s`
(below the target of one of its transitions) is in the scope of `s`, unless some path from the
root to `s` never mentions the key. -/
theorem populateScopes_scope {req : K → List K} (hacy : RankAcyclic req) {fuel : Nat}
    {a A : Automaton K P} (h : populateScopes req fuel a = .ok A) (sh : Shape A) :
    ∀ s w, A.g.weight? s = some w → ∀ t ∈ w.corder ++ w.eorder, ∀ e,
      A.g.edge? t = some e → ∀ u wu pid keys, PathP A (fun _ => True) e.dst u →
      A.g.weight? u = some wu → (pid, keys) ∈ wu.matches_ → ∀ k ∈ keys,
      k ∈ w.scope ∨ PathP A (fun c => k ∉ c.args) A.root s := by
  have hsb := populateScopes_sameButScope h
  have hpreds : a.g.preds = A.g.preds := by
    funext n; unfold SGraph.preds; rw [hsb.inEdges]
  have hsuccs : a.g.succs = A.g.succs := by
    funext n; unfold SGraph.succs; rw [hsb.outEdges]
  unfold populateScopes at h
  split at h
  · cases h
  · rename_i order ho
    split at h
    · rename_i fwd bwd hf hb
      obtain ⟨hnd, hall, hsorted⟩ := topoOrder_spec ho
      obtain ⟨hF, hFex⟩ := forwardScopes_spec hacy fuel a order [] fwd hf hsorted
        (fun n f hn => by cases hn)
      have hrev : SortedS a.g.succs [] order.reverse := by
        rw [hsuccs]
        refine sortedS_reverse sh.wf hnd (fun n hn => (hall n).2 ?_) (hpreds ▸ hsorted)
        rw [← hsb.containsNode]; exact hn
      obtain ⟨hB, hBex⟩ := backwardScopes_spec a order.reverse [] bwd hb hrev
        (fun n b hn => by cases hn)
      have hlive_order : ∀ n, A.g.containsNode n = true → n ∈ order := fun n hn =>
        (hall n).2 (by rw [← hsb.containsNode]; exact hn)
      intro s w hw t ht e he u wu pid keys hp hwu hmem k hk
      have hslive := live_of_weight? hw
      obtain ⟨f, hfs⟩ := hFex s (.inr (hlive_order s hslive))
      obtain ⟨b, hbs⟩ := hBex s (.inr (List.mem_reverse.2 (hlive_order s hslive)))
      have hkb : k ∈ b :=
        bwd_path hsb sh hB (fun n hn => hBex n (.inr (List.mem_reverse.2 (hlive_order n hn))))
          hp hwu hmem s b t hbs (sh.out_of_order hw ht he) k hk
      by_cases hkf : k ∈ f
      · left
        have hsn : s ∈ a.g.nodeIndices := by
          rw [SGraph.mem_nodeIndices, ← hsb.containsNode]; exact hslive
        exact setScopes_keeps fuel fwd bwd _ a A (SGraph.nodup_nodeIndices a.g) h s hsn w hw
          f b hfs hbs k hkf hkb
      · right
        obtain ⟨rank, hrank⟩ := sh.rank
        exact fwd_path hsb sh hF rank hrank (rank s + 1) s (Nat.lt_succ_self _) hslive f hfs k hkf
    · cases h
    · cases h

end Scope

section Keys
variable {K P : Type} [DecidableEq K]

/-- The key list `add_pattern` records contains the initial keys and the keys of all the
constraints. -/
theorem addPatternLoop_keys {req : K → List K} (hacy : RankAcyclic req) (fuel : Nat) :
    ∀ (cs : List (Constraint K P)) (a a' : Automaton K P) (s s' : Nat) (keys0 keys : List K),
      addPatternLoop req fuel a s keys0 cs = .ok (a', s', keys) →
      (∀ k ∈ keys0, k ∈ keys) ∧ ∀ c ∈ cs, ∀ k ∈ c.args, k ∈ keys
  | [], a, a', s, s', keys0, keys, h => by
    rw [addPatternLoop] at h
    cases h
    exact ⟨fun _ hk => hk, fun c hc => by cases hc⟩
  | c :: cs, a, a', s, s', keys0, keys, h => by
    rw [addPatternLoop] at h
    split at h
    · cases h
    · rename_i more hmore
      split at h
      · cases h
      · obtain ⟨h1, h2⟩ := addPatternLoop_keys hacy fuel cs _ a' _ s' _ keys h
        refine ⟨fun k hk => h1 k (List.mem_append_left _ hk), fun c' hc' k hk => ?_⟩
        rcases List.mem_cons.1 hc' with rfl | hc'
        · by_cases hk0 : k ∈ keys0
          · exact h1 k (List.mem_append_left _ hk0)
          · have spec := c12_all_any_fuel req hacy _ _ _ _ hmore
            exact h1 k (List.mem_append_right _ ((spec.exact k).2 (Needed.root hk hk0)))
        · exact h2 c' hc' k hk

/-- `(pid, keys)` is the id of a compiled pattern together with a list containing the keys of all
its constraints. -/
def KeysOf (inputs : List (Nat × List (Constraint K P) × List K)) (m : Nat × List K) : Prop :=
  ∃ cs ex, (m.1, cs, ex) ∈ inputs ∧ ∀ c ∈ cs, ∀ k ∈ c.args, k ∈ m.2

theorem mfrom_addPatterns_keys {req : K → List K} (hacy : RankAcyclic req) (fuel : Nat)
    (inputs : List (Nat × List (Constraint K P) × List K)) :
    ∀ (ps : List (Nat × List (Constraint K P) × List K)) (a a' : Automaton K P),
      (∀ p ∈ ps, p ∈ inputs) → addPatterns req fuel a ps = .ok a' →
      c09b_MFrom (KeysOf inputs) a → c09b_MFrom (KeysOf inputs) a'
  | [], a, a', _, h, H => by
    rw [addPatterns] at h; cases h; exact H
  | (pid, cs, extra) :: ps, a, a', hin, h, H => by
    rw [addPatterns] at h
    split at h
    · cases h
    · rename_i a1 hadd
      refine mfrom_addPatterns_keys hacy fuel inputs ps a1 a'
        (fun p hp => hin p (List.mem_cons_of_mem _ hp)) h ?_
      intro s w hw m hm
      obtain ⟨keys0, a2, s1, keys, _, hloop, hmatch, _⟩ := addPattern_keys_ordered hacy hadd
      rcases ((matchesIn_addPatternLoop req fuel cs a a2 a.root s1 keys0 keys hloop).trans
        (matchesIn_addMatch hmatch)) s w hw m hm with ⟨s0, w0, hw0, hm0⟩ | hx
      · exact H s0 w0 hw0 m hm0
      · cases hx
        exact ⟨cs, extra, hin _ List.mem_cons_self,
          (addPatternLoop_keys hacy fuel cs a a2 a.root s1 keys0 keys hloop).2⟩

variable [DecidableEq P]

/-- Every recorded pair of a built automaton is `KeysOf` the compiled patterns. -/
theorem mfrom_build_keys
    {toTree : List (Constraint K P) → Option (CTree (Constraint K P))} {req : K → List K}
    (hacy : RankAcyclic req) {fuel : Nat}
    {inputs : List (Nat × List (Constraint K P) × List K)} {evs : List Ev} {A : Automaton K P}
    (h : build toTree req fuel inputs evs = .ok A) : c09b_MFrom (KeysOf inputs) A := by
  unfold build at h
  split at h
  · cases h
  · rename_i a1 h1
    have H1 : c09b_MFrom (KeysOf inputs) a1 := by
      refine mfrom_addPatterns_keys hacy fuel inputs inputs new a1 (fun _ hp => hp) h1 ?_
      intro s w hw m hm
      rw [new_no_matches s w hw] at hm
      cases hm
    unfold finish at h
    split at h
    · cases h
    · rename_i a2 h2
      exact c09b_mfrom_populateScopes h (c09b_mfrom_mainLoop _ _ h2 H1)

end Keys

section Facts
variable {K P : Type} [DecidableEq K] [DecidableEq P]

omit [DecidableEq K] [DecidableEq P] in
/-- Distinct ids: a pattern id determines its constraint list. -/
theorem nodup_ids_unique {inputs : List (Nat × List (Constraint K P) × List K)}
    (hnd : (inputs.map (·.1)).Nodup) {pid : Nat} {cs cs' : List (Constraint K P)}
    {ex ex' : List K} (h1 : (pid, cs, ex) ∈ inputs) (h2 : (pid, cs', ex') ∈ inputs) :
    cs = cs' ∧ ex = ex' := by
  induction inputs with
  | nil => cases h1
  | cons x xs ih =>
    rw [List.map_cons, List.nodup_cons] at hnd
    rcases List.mem_cons.1 h1 with e1 | m1
    · rcases List.mem_cons.1 h2 with e2 | m2
      · have := e1.trans e2.symm
        cases this
        exact ⟨rfl, rfl⟩
      · rw [← e1] at hnd
        exact absurd (show pid ∈ xs.map (·.1) from List.mem_map.2 ⟨(pid, cs', ex'), m2, rfl⟩) hnd.1
    · rcases List.mem_cons.1 h2 with e2 | m2
      · rw [← e2] at hnd
        exact absurd (show pid ∈ xs.map (·.1) from List.mem_map.2 ⟨(pid, cs, ex), m1, rfl⟩) hnd.1
      · exact ih hnd.2 m1 m2

/-- The structural facts hold of every built automaton. -/
theorem shape_of_build
    {toTree : List (Constraint K P) → Option (CTree (Constraint K P))} {req : K → List K}
    {fuel : Nat} {inputs : List (Nat × List (Constraint K P) × List K)} {evs : List Ev}
    {A : Automaton K P} (h : build toTree req fuel inputs evs = .ok A) : Shape A := by
  obtain ⟨hwf, hrank, _, hord⟩ := c09_built_structure toTree req fuel inputs evs A h
  exact ⟨hwf, hrank, c09_built_hasIn toTree req fuel inputs evs A h,
    fun s w hw => (hord s w hw).2.2⟩

/-- T-BUILD under the assignment "all atoms satisfy `Q`": along every path from the root to a
state recording `pid`, the atoms of the constraints of `pid` satisfy `Q` as soon as the atoms of
the constraints on the path do. -/
theorem rootFact_of_build
    {toTree : List (Constraint K P) → Option (CTree (Constraint K P))} {req : K → List K}
    {fuel : Nat} {inputs : List (Nat × List (Constraint K P) × List K)} {evs : List Ev}
    {A : Automaton K P} (h : build toTree req fuel inputs evs = .ok A)
    (hnd : (inputs.map (·.1)).Nodup) (atoms : Constraint K P → List (Constraint K P))
    (Q : Constraint K P → Bool) (hT : TreeOK toTree (fun c => (atoms c).all Q))
    {u : Nat} {wu : AState K} {pid : Nat} {keys : List K}
    (hp : PathP A (fun c => ∀ a ∈ atoms c, Q a = true) A.root u) (hwu : A.g.weight? u = some wu)
    (hmem : (pid, keys) ∈ wu.matches_) {cs : List (Constraint K P)} {ex : List K}
    (hin : (pid, cs, ex) ∈ inputs) : ∀ c ∈ cs, ∀ a ∈ atoms c, Q a = true := by
  have hacc : AccND (fun c => (atoms c).all Q) A A.root pid := by
    refine accND_of_pathP (hp.mono fun c hc => ?_) hwu (List.mem_map.2 ⟨_, hmem, rfl⟩)
    exact List.all_eq_true.2 hc
  obtain ⟨cs', ex', hin', hall⟩ :=
    (build_accND toTree req fuel inputs evs A _ hT h pid).1 hacc
  obtain ⟨rfl, _⟩ := nodup_ids_unique hnd hin hin'
  intro c hc a ha
  exact List.all_eq_true.1 (hall c hc) a ha

end Facts

section Assemble
variable {K V P H M : Type} [DecidableEq K] [DecidableEq P]

/-- **Every built automaton satisfies `Facts`** (rank-acyclic scheme, distinct pattern ids, an
atom system for the decomposition). -/
theorem facts_of_build {D : Domain K V P H M} {hst : H}
    {toTree : List (Constraint K P) → Option (CTree (Constraint K P))} {req : K → List K}
    (hacy : RankAcyclic req) {fuel : Nat}
    {inputs : List (Nat × List (Constraint K P) × List K)} {evs : List Ev} {A : Automaton K P}
    (h : build toTree req fuel inputs evs = .ok A) (hnd : (inputs.map (·.1)).Nodup)
    (S : AtomSys D hst toTree) : Facts A inputs S.atoms := by
  have sh := shape_of_build h
  have hk := mfrom_build_keys hacy h
  refine ⟨?_, ?_, ?_, ?_, ?_⟩
  · intro Q u wu pid keys hp hwu hmem cs ex hin
    exact rootFact_of_build h hnd S.atoms Q (S.treeOK Q) hp hwu hmem hin
  · intro u wu pid keys hwu hmem cs ex hin
    obtain ⟨cs', ex', hin', hall⟩ := hk u wu hwu (pid, keys) hmem
    obtain ⟨rfl, _⟩ := nodup_ids_unique hnd hin hin'
    exact hall
  · have h' := h
    unfold build at h'
    split at h'
    · cases h'
    · unfold finish at h'
      split at h'
      · cases h'
      · exact populateScopes_scope hacy h' sh
  · intro s w hw t ht e he
    exact sh.eps_none hw ht he
  · intro u wu pid keys hwu hmem
    obtain ⟨cs, ex, hin, _⟩ := hk u wu hwu (pid, keys) hmem
    exact ⟨cs, ex, hin⟩

end Assemble
end Pm.C01G
