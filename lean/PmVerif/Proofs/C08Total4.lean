/-
Proofs/C08Total4.lean — C08 (totality) of the builder, part 4: `make_det` (guarded `makeDet` and
lenient `makeDetL` = the Rust code), `try_merge_new_nodes` under the discipline c4T
(`mergesLoggedT`), one iteration (`iterationWith`) and the main loop (`mainLoopWith`) never panic,
and preserve the invariant `BI` = `Inv` ∧ `RootSrc` ∧ `SP E Q` (structural invariant, live source
root, every edge constraint satisfies `Q`) — for EVERY event log.

The `assert!` of `fail_next_state` inside `make_det(s)` cannot fail because `make_det` runs right
after `make_constraints_unique(s)` (`makeConstraintsUnique_unique`); `children[ind]`,
`removed_transition.unwrap()`, `to_constraints_tree` etc. are excluded in parts 2 and 3.
Everything lives in `namespace Pm.C08`.
-/
import PmVerif.Proofs.C08Total3
import PmVerif.Proofs.C08BuildT
import PmVerif.Proofs.BuildDet
import PmVerif.Proofs.BuildMerge
import PmVerif.Proofs.StrProgFuse
import PmVerif.Proofs.StrProgTreeStep
import PmVerif.Proofs.StrProgDet
import PmVerif.Proofs.StrProgMerge
namespace Pm
namespace C08
open Automaton StrProg
variable {K P : Type} [DecidableEq K] [DecidableEq P]
set_option linter.unusedSectionVars false

/-! ### `make_det` -/

/-- Structural loop invariant of `makeDetLoop` (no semantics, no guard). -/
structure LI (b : Automaton K P) (s F tε : Nat) (fw : AState K) (rest : List Nat) : Prop where
  inv : Inv b
  wtF : b.g.weight? F = some fw
  edge_ε : b.g.edge? tε = some ⟨s, F, none⟩
  todo : ∀ t ∈ rest, ∃ X c, b.g.edge? t = some ⟨s, X, some c⟩

theorem LI.step {b b' : Automaton K P} {s F tε t X tgt : Nat} {c : Constraint K P}
    {fw : AState K} {rest : List Nat} (li : LI b s F tε fw (t :: rest)) (hnd : t ∉ rest)
    (pre : RoundPre b s F tε t X c fw) (rs : RoundSpec b b' s F t X tgt c) :
    LI b' s F tε fw rest where
  inv := rs.inv
  wtF := (rs.wt_ne F (Ne.symm rs.neF)).trans li.wtF
  edge_ε := rs.old tε _ pre.tε_ne_t li.edge_ε
  todo t' ht' := by
    obtain ⟨X', c', he'⟩ := li.todo t' (List.mem_cons_of_mem _ ht')
    exact ⟨X', c', rs.old t' _ (fun hx => hnd (hx ▸ ht')) he'⟩

/-- `makeDetLoop` does not fail, and carries every property that one round preserves. -/
theorem makeDetLoop_total {Φ : Automaton K P → Prop} {s : Nat}
    (hΦ : ∀ {b b' : Automaton K P} {F tε t X tgt : Nat} {c : Constraint K P} {fw : AState K},
      RoundPre b s F tε t X c fw → RoundSpec b b' s F t X tgt c → Φ b → Φ b')
    {F tε : Nat} {fw : AState K} :
    ∀ (rest : List Nat) {b : Automaton K P}, LI b s F tε fw rest → rest.Nodup → Φ b →
      ∃ a', b.makeDetLoop (fw.corder ++ fw.eorder) fw.matches_ rest = .ok a' ∧ Inv a' ∧ Φ a'
  | [], b, li, _, h0 => ⟨b, rfl, li.inv, h0⟩
  | t :: rest, b, li, hnd, h0 => by
    obtain ⟨X, c, he⟩ := li.todo t List.mem_cons_self
    have pre : RoundPre b s F tε t X c fw := ⟨li.inv, he, li.edge_ε, li.wtF⟩
    unfold makeDetLoop
    obtain ⟨⟨b1, tgt⟩, hsp⟩ := splitTarget_total li.inv he
    rw [hsp]
    simp only
    have su := splitU_of_splitTarget pre hsp
    obtain ⟨_, w1, _, hw1, _⟩ := su.wt
    obtain ⟨b2, hcp⟩ := appendCopies_total (dst := tgt) (fw.corder ++ fw.eorder) su.inv
      (live_of_weight hw1) (fun t0 ht0 => by
        obtain ⟨e0, he0, hs0⟩ := pre.mem_fail.1 ht0
        refine ⟨e0, su.old t0 e0 ?_ he0⟩
        intro hx; subst hx
        rw [pre.edge_t] at he0; cases he0
        exact pre.F_ne_s hs0.symm)
    rw [hcp]
    simp only
    obtain ⟨g, _⟩ := appendCopies_grows _ su.inv hcp
    obtain ⟨b3, hm⟩ := addMatches_total (s := tgt) fw.matches_ g.inv
      ((g.live_iff tgt).2 (live_of_weight hw1))
    rw [hm]
    simp only
    have rs := roundSpec_of pre su hcp hm
    rw [List.nodup_cons] at hnd
    exact makeDetLoop_total hΦ rest (li.step hnd.1 pre rs) hnd.2 (hΦ pre rs h0)

/-- The fallback transition of a state with exactly one epsilon transition. -/
theorem eps_edge_of {a : Automaton K P} (inv : Inv a) {s tε : Nat} {ws : AState K}
    (hws : a.g.weight? s = some ws) (hε : ws.eorder = [tε]) :
    ∃ F, a.g.edge? tε = some ⟨s, F, none⟩ := by
  obtain ⟨e, he, hsrc, hnone⟩ :=
    inv.ok.eorder_edge s ws hws tε (by rw [hε]; exact List.mem_singleton.2 rfl)
  refine ⟨e.dst, ?_⟩
  rw [he]
  cases e with
  | mk src dst wt =>
    simp only at hsrc
    subst hsrc
    cases wt with
    | none => rfl
    | some _ => cases hnone

/-- What the tail of `make_det` (after the flag has been set, with or without the model guard)
needs. -/
theorem makeDet_tail {Φ : Automaton K P → Prop} {s : Nat}
    (hΦ : ∀ {b b' : Automaton K P} {F tε t X tgt : Nat} {c : Constraint K P} {fw : AState K},
      RoundPre b s F tε t X c fw → RoundSpec b b' s F t X tgt c → Φ b → Φ b')
    {a0 : Automaton K P} (inv0 : Inv a0) {ws : AState K} (hws : a0.g.weight? s = some ws)
    {tε : Nat} (hε : ws.eorder = [tε]) (h0 : Φ a0) :
    ∃ F fw, a0.failNextState s = .ok (some F) ∧ a0.allTransitions F = .ok (fw.corder ++ fw.eorder) ∧
      a0.corderOf s = .ok ws.corder ∧ a0.state F = .ok fw ∧
      ∃ a', a0.makeDetLoop (fw.corder ++ fw.eorder) fw.matches_ ws.corder = .ok a' ∧
        Inv a' ∧ Φ a' := by
  obtain ⟨F, hF⟩ := eps_edge_of inv0 hws hε
  obtain ⟨fw, hfw⟩ := live_iff.1 (inv0.ok.dst_live hF)
  have hfn : a0.failNextState s = .ok (some F) := by
    unfold failNextState
    rw [eorderOf_ok_iff.2 ⟨ws, hws, rfl⟩, hε]
    simp only
    rw [nextState_ok_iff.2 ⟨_, hF, rfl⟩]
    rfl
  have li : LI a0 s F tε fw ws.corder := by
    refine ⟨inv0, hfw, hF, fun t ht => ?_⟩
    obtain ⟨e, he, hsrc, hsome⟩ := inv0.ok.corder_edge s ws hws t ht
    obtain ⟨c, hc⟩ := Option.isSome_iff_exists.1 hsome
    refine ⟨e.dst, c, ?_⟩
    rw [he]
    cases e
    simp only at hsrc hc
    subst hsrc hc
    rfl
  have hnd : ws.corder.Nodup := (List.nodup_append.1 (inv0.ok.nodup s ws hws)).1
  exact ⟨F, fw, hfn, allTransitions_ok_iff.2 ⟨fw, hfw, rfl⟩, corderOf_ok_iff.2 ⟨ws, hws, rfl⟩,
    state_ok_iff.2 hfw, makeDetLoop_total hΦ _ li hnd h0⟩

/-- **`make_det(s)` as the Rust code runs it never fails** at a live state with at most one
epsilon transition, and carries every property preserved by setting the flag and by one round. -/
theorem makeDetL_total {Φ : Automaton K P → Prop} {s : Nat}
    (hΦ0 : ∀ {a a0 : Automaton K P} {w : AState K}, Reflag a a0 s w → Φ a → Φ a0)
    (hΦ : ∀ {b b' : Automaton K P} {F tε t X tgt : Nat} {c : Constraint K P} {fw : AState K},
      RoundPre b s F tε t X c fw → RoundSpec b b' s F t X tgt c → Φ b → Φ b')
    {a : Automaton K P} (inv : Inv a) (hs : a.Live s)
    (hle : ∀ w, a.g.weight? s = some w → w.eorder.length ≤ 1) (h0 : Φ a) :
    ∃ a', a.makeDetL s = .ok a' ∧ Inv a' ∧ Φ a' := by
  unfold makeDetL
  obtain ⟨⟨a0, wd⟩, hsd⟩ := setDeterministic_total hs
  rw [hsd]
  simp only
  obtain ⟨w, rfl, r⟩ := setDeterministic_reflag inv hsd
  have hΦa0 := hΦ0 r h0
  split
  · exact ⟨a0, rfl, r.inv, hΦa0⟩
  · have hws : a0.g.weight? s = some { w with det := true } := r.wt0
    have hlen := hle w r.wt
    match heo : w.eorder with
    | [] =>
      have hfn : a0.failNextState s = .ok none := by
        unfold failNextState
        rw [eorderOf_ok_iff.2 ⟨_, hws, rfl⟩]
        simp only [heo]
      rw [hfn]
      exact ⟨a0, rfl, r.inv, hΦa0⟩
    | [tε] =>
      obtain ⟨F, fw, hfn, h1, h2, h3, a', h4, h5⟩ :=
        makeDet_tail hΦ r.inv hws (tε := tε) heo hΦa0
      rw [hfn]
      simp only
      rw [h1, h2, h3]
      exact ⟨a', h4, h5⟩
    | _ :: _ :: _ =>
      rw [heo] at hlen
      simp only [List.length_cons] at hlen
      omega

/-- The guarded `make_det` either does the same or stops at the model guard. -/
theorem makeDet_total {Φ : Automaton K P → Prop} {s : Nat}
    (hΦ0 : ∀ {a a0 : Automaton K P} {w : AState K}, Reflag a a0 s w → Φ a → Φ a0)
    (hΦ : ∀ {b b' : Automaton K P} {F tε t X tgt : Nat} {c : Constraint K P} {fw : AState K},
      RoundPre b s F tε t X c fw → RoundSpec b b' s F t X tgt c → Φ b → Φ b')
    {a : Automaton K P} (inv : Inv a) (hs : a.Live s)
    (hle : ∀ w, a.g.weight? s = some w → w.eorder.length ≤ 1) (h0 : Φ a) :
    (∃ a', a.makeDet s = .ok a' ∧ Inv a' ∧ Φ a') ∨
      a.makeDet s = .error (.guard "make_det: a constraint child is already deterministic") := by
  unfold makeDet makeDetWith
  obtain ⟨⟨a0, wd⟩, hsd⟩ := setDeterministic_total hs
  rw [hsd]
  simp only
  obtain ⟨w, rfl, r⟩ := setDeterministic_reflag inv hsd
  have hΦa0 := hΦ0 r h0
  split
  · exact .inl ⟨a0, rfl, r.inv, hΦa0⟩
  · have hws : a0.g.weight? s = some { w with det := true } := r.wt0
    have hlen := hle w r.wt
    match heo : w.eorder with
    | [] =>
      have hfn : a0.failNextState s = .ok none := by
        unfold failNextState
        rw [eorderOf_ok_iff.2 ⟨_, hws, rfl⟩]
        simp only [heo]
      rw [hfn]
      exact .inl ⟨a0, rfl, r.inv, hΦa0⟩
    | [tε] =>
      obtain ⟨F, fw, hfn, h1, h2, h3, a', h4, h5⟩ :=
        makeDet_tail hΦ r.inv hws (tε := tε) heo hΦa0
      rw [hfn]
      simp only
      rw [h1, h2, h3]
      simp only
      split
      · exact .inr rfl
      · exact .inl ⟨a', by simpa using h4, h5⟩
    | _ :: _ :: _ =>
      rw [heo] at hlen
      simp only [List.length_cons] at hlen
      omega

/-! ### the invariant of the main loop -/

/-- The invariant carried through the main loop: structural invariant, live source root, and the
step-level invariant `SP E Q` of `Proofs/StrProgDefs.lean`. -/
structure BI (E : Nat → Prop) (Q : Constraint K P → Prop) (a : Automaton K P) : Prop where
  inv : Inv a
  rs : RootSrc a
  sp : SP E Q a

variable {E : Nat → Prop} {Q : Constraint K P → Prop}

theorem eorder_le_one {a : Automaton K P} (inv : Inv a) {s : Nat} (hu : UniqueAt a s)
    (w : AState K) (hw : a.g.weight? s = some w) : w.eorder.length ≤ 1 := by
  match heo : w.eorder with
  | [] => simp
  | [_] => simp
  | t1 :: t2 :: rest =>
    exfalso
    obtain ⟨e1, he1, hs1, hn1⟩ := inv.ok.eorder_edge s w hw t1 (by rw [heo]; simp)
    obtain ⟨e2, he2, hs2, hn2⟩ := inv.ok.eorder_edge s w hw t2 (by rw [heo]; simp)
    have hw12 : e1.w = e2.w := by
      cases h1 : e1.w with
      | some _ => rw [h1] at hn1; cases hn1
      | none =>
        cases h2 : e2.w with
        | some _ => rw [h2] at hn2; cases hn2
        | none => rfl
    have := hu t1 t2 e1 e2 he1 he2 hs1 hs2 hw12
    have hnd := (List.nodup_append.1 (inv.ok.nodup s w hw)).2.1
    rw [heo, this] at hnd
    simp at hnd

/-- Both variants of `make_det` return `.ok` or a guard error, and preserve `BI`. -/
def DetOK' (E : Nat → Prop) (Q : Constraint K P → Prop)
    (det : Automaton K P → Nat → R (Automaton K P)) : Prop :=
  ∀ (a : Automaton K P) (s : Nat), BI E Q a → a.Live s →
    (∀ w, a.g.weight? s = some w → w.eorder.length ≤ 1) →
    Only IsGuard (det a s) ∧ ∀ a', det a s = .ok a' → BI E Q a'

theorem bi_reflag {a a0 : Automaton K P} {s : Nat} {w : AState K} (r : Reflag a a0 s w)
    (h : RootSrc a ∧ SP E Q a) : RootSrc a0 ∧ SP E Q a0 :=
  ⟨r.rootSrc h.1, sp_reflag r h.2⟩

theorem bi_round {b b' : Automaton K P} {s F tε t X tgt : Nat} {c : Constraint K P}
    {fw : AState K} (pre : RoundPre b s F tε t X c fw) (rs : RoundSpec b b' s F t X tgt c)
    (h : RootSrc b ∧ SP E Q b) : RootSrc b' ∧ SP E Q b' :=
  ⟨(rs.rootSrc pre h.1).1, sp_round pre rs h.1 h.2⟩

theorem detOK_makeDetL : DetOK' E Q (makeDetL (K := K) (P := P)) := by
  intro a s bi hs hle
  obtain ⟨a', h', inv', hΦ'⟩ := makeDetL_total (Φ := fun b => RootSrc b ∧ SP E Q b) (s := s)
    (fun r h => bi_reflag r h) (fun pre rs h => bi_round pre rs h) bi.inv hs hle ⟨bi.rs, bi.sp⟩
  refine ⟨by rw [h']; exact Only.ok _ _, fun a'' h'' => ?_⟩
  rw [h'] at h''
  cases h''
  exact ⟨inv', hΦ'.1, hΦ'.2⟩

theorem detOK_makeDet : DetOK' E Q (makeDet (K := K) (P := P)) := by
  intro a s bi hs hle
  rcases makeDet_total (Φ := fun b => RootSrc b ∧ SP E Q b) (s := s)
    (fun r h => bi_reflag r h) (fun pre rs h => bi_round pre rs h) bi.inv hs hle
    ⟨bi.rs, bi.sp⟩ with ⟨a', h', inv', hΦ'⟩ | h'
  · refine ⟨by rw [h']; exact Only.ok _ _, fun a'' h'' => ?_⟩
    rw [h'] at h''
    cases h''
    exact ⟨inv', hΦ'.1, hΦ'.2⟩
  · refine ⟨by rw [h']; exact Only.err ⟨_, rfl⟩, fun a'' h'' => ?_⟩
    rw [h'] at h''
    cases h''

/-! ### merges under c4T -/

theorem tupleTransitions_total {a : Automaton K P} (inv : Inv a) {s : Nat} (hs : a.Live s) :
    ∃ ts, a.tupleTransitions s = .ok ts := by
  unfold tupleTransitions
  obtain ⟨w, hw⟩ := live_iff.1 hs
  rw [allTransitions_ok_iff.2 ⟨w, hw, rfl⟩]
  simp only
  apply mapR_total'
  intro t ht
  obtain ⟨e, he, _⟩ := inv.listed_live hw ht
  exact ⟨(e.w, e.dst), by
    simp only [constraintOf_ok_iff.2 ⟨e, he, rfl⟩, nextState_ok_iff.2 ⟨e, he, rfl⟩]⟩

theorem sameTuple_total {a : Automaton K P} (inv : Inv a) {s s' : Nat} (hs : a.Live s)
    (hs' : a.Live s') : ∃ b, a.sameTuple s s' = .ok b := by
  unfold sameTuple
  obtain ⟨w, hw⟩ := live_iff.1 hs
  obtain ⟨w', hw'⟩ := live_iff.1 hs'
  obtain ⟨ts, hts⟩ := tupleTransitions_total inv hs
  obtain ⟨ts', hts'⟩ := tupleTransitions_total inv hs'
  rw [state_ok_iff.2 hw, state_ok_iff.2 hw', hts, hts']
  exact ⟨_, rfl⟩

theorem mergeLoop_total {first : Nat} : ∀ (ns : List Nat) {a : Automaton K P}, Inv a →
    a.Live first → first ∉ ns → ∃ a', a.mergeLoop first ns = .ok a'
  | [], a, _, _, _ => ⟨a, rfl⟩
  | n :: ns, a, inv, hf, hnot => by
    unfold mergeLoop
    obtain ⟨a1, h1⟩ := moveIncoming_total inv (s := first) (other := n) hf
    rw [h1]
    simp only
    have m := moveIncoming_moved inv h1
    have hne : first ≠ n := fun hx => hnot (hx ▸ List.mem_cons_self)
    have hin : ∀ t e, a1.g.edge? t = some e → e.dst ≠ n := by
      intro t e he
      rcases m.sound t e he with ⟨h0, hx⟩ | ⟨_, _, e0, _, _, rfl⟩
      · exact fun hd => hx (inv.mem_incoming.2 ⟨e, h0, hd⟩)
      · exact hne
    obtain ⟨hwt, _, _, inv2⟩ := removeState_spec m.inv n hin
    refine mergeLoop_total ns inv2 ?_ (fun hm => hnot (List.mem_cons_of_mem _ hm))
    obtain ⟨w, hw⟩ := live_iff.1 ((m.live_iff first).2 hf)
    exact live_of_weight (by rw [hwt, if_neg hne]; exact hw)

/-- Under c4T the members of a merge set with at least two distinct members are live. -/
theorem mergeAdmissible_live {a : Automaton K P} (inv : Inv a) {node : Nat} {nodes : List Nat}
    (hadm : a.mergeAdmissible node nodes = true) {m : Nat} (hm : m ∈ nodes) (hne : m ≠ node) :
    a.Live node ∧ ∀ n ∈ nodes, a.Live n := by
  unfold mergeAdmissible at hadm
  rw [List.all_eq_true] at hadm
  have hsib : ∀ n ∈ nodes, n = node ∨ n ∈ a.siblingsOf node := by
    intro n hn
    have := hadm n hn
    simp only [Bool.or_eq_true, beq_iff_eq, List.contains_iff_mem] at this
    exact this
  have hms : m ∈ a.siblingsOf node := by
    rcases hsib m hm with h | h
    · exact absurd h hne
    · exact h
  -- the sibling list is non-empty, so `node` is live and has a first child
  unfold siblingsOf at hms hsib
  split at hms
  · rename_i t rest hat
    obtain ⟨w, hw, _⟩ := allTransitions_ok_iff.1 hat
    have hnode : a.Live node := live_of_weight hw
    split at hms
    · rename_i c hc
      simp only [hat, hc] at hsib
      refine ⟨hnode, fun n hn => ?_⟩
      rcases hsib n hn with h | h
      · exact h ▸ hnode
      · obtain ⟨nd, t', e, _, _, he, hsrc⟩ := SGraph.mem_preds.1 h
        exact hsrc ▸ inv.ok.src_live he
    · cases hms
  · cases hms

theorem doMerge_guardOnly {a : Automaton K P} (inv : Inv a) {node : Nat} {nodes : List Nat}
    (hadm : a.mergeAdmissible node nodes = true) : Only IsGuard (a.doMerge node nodes) := by
  unfold doMerge
  split
  · exact Only.ok _ _
  · exact Only.ok _ _
  · rename_i first rest hne1
    split
    · exact Only.err ⟨_, rfl⟩
    · rename_i hcont
      split
      · exact Only.err ⟨_, rfl⟩
      · rename_i hnd
        have hnd' : (first :: rest).Nodup := by
          cases hd : decide (first :: rest).Nodup
          · rw [hd] at hnd; exact absurd rfl hnd
          · exact of_decide_eq_true hd
        -- two distinct members, one of them is not `node`
        have hex : ∃ m ∈ first :: rest, m ≠ node := by
          cases rest with
          | nil => exact absurd rfl hne1
          | cons r rs =>
            by_cases hf : first = node
            · refine ⟨r, by simp, fun hr => ?_⟩
              rw [List.nodup_cons] at hnd'
              exact hnd'.1 (by rw [hf, ← hr]; simp)
            · exact ⟨first, by simp, hf⟩
        obtain ⟨m, hm, hmn⟩ := hex
        obtain ⟨hnode, hall⟩ := mergeAdmissible_live inv hadm hm hmn
        obtain ⟨same, hsame⟩ := mapR_total' (fun n => a.sameTuple node n) (first :: rest)
          (fun n hn => sameTuple_total inv hnode (hall n hn))
        rw [hsame]
        simp only
        split
        · exact Only.err ⟨_, rfl⟩
        · split
          · exact Only.err ⟨_, rfl⟩
          · split
            · exact Only.err ⟨_, rfl⟩
            · rw [List.nodup_cons] at hnd'
              exact Only.of_ok (mergeLoop_total rest inv (hall first List.mem_cons_self) hnd'.1)

theorem mergesLoggedT_guardOnly : ∀ (evs : List Ev) {a : Automaton K P}, BI E Q a →
    Only IsGuard (a.mergesLoggedT evs) ∧ ∀ r, a.mergesLoggedT evs = .ok r → BI E Q r.1 := by
  intro evs
  induction evs with
  | nil =>
    intro a bi
    unfold mergesLoggedT
    exact ⟨Only.ok _ _, fun r h => by cases h; exact bi⟩
  | cons ev evs ih =>
    intro a bi
    cases ev with
    | merge n nodes =>
      unfold mergesLoggedT
      split
      · exact ⟨Only.err ⟨_, rfl⟩, fun r h => by cases h⟩
      · rename_i hadm
        have hadm' : a.mergeAdmissible n nodes = true := by
          cases hx : a.mergeAdmissible n nodes
          · rw [hx] at hadm; exact absurd rfl hadm
          · rfl
        have hf := doMerge_guardOnly bi.inv hadm'
        cases hd : a.doMerge n nodes with
        | error e => exact ⟨hf.error hd, fun r h => by cases h⟩
        | ok a1 =>
          simp only
          have ms := doMerge_spec (σ := fun _ => true) bi.inv hd
          obtain ⟨inv1, sp1⟩ := sp_doMerge bi.inv bi.sp hd
          exact ih ⟨inv1, ms.rootSrc bi.rs, sp1⟩
    | topo _ => unfold mergesLoggedT; exact ⟨Only.ok _ _, fun r h => by cases h; exact bi⟩
    | group _ _ => unfold mergesLoggedT; exact ⟨Only.ok _ _, fun r h => by cases h; exact bi⟩
    | detAsk _ => unfold mergesLoggedT; exact ⟨Only.ok _ _, fun r h => by cases h; exact bi⟩
    | detYes _ => unfold mergesLoggedT; exact ⟨Only.ok _ _, fun r h => by cases h; exact bi⟩
    | iterEnd _ => unfold mergesLoggedT; exact ⟨Only.ok _ _, fun r h => by cases h; exact bi⟩

end C08
end Pm
